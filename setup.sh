#!/bin/bash
# Build everything from files on disk (offline): regenerate Gen/* from $WALLGO_REPO, then lake build.
set -e
cd "$(dirname "$0")"
export WALLGO_REPO="${WALLGO_REPO:-/repo}"
/venv/bin/python harness/py2lean/gen.py > /dev/null || true
cd lean
lake build 2>&1 | tail -5
