/- GENERATED from src/WallGo/helpers.py (stencil tables). Do not edit. -/

namespace Gen.Q.Tables

/-- helpers.py `FIRST_DERIV_COEFF["2"]` -/
def FIRST_DERIV_COEFF_2 : List (List Rat) := [[((-1 : Rat) / 2), ((1 : Rat) / 2)], [(-1 : Rat), 1], [(-1 : Rat), 1]]

/-- helpers.py `FIRST_DERIV_COEFF["4"]` -/
def FIRST_DERIV_COEFF_4 : List (List Rat) := [[((1 : Rat) / 12), ((-2 : Rat) / 3), ((2 : Rat) / 3), ((-1 : Rat) / 12)], [((-1 : Rat) / 3), ((-1 : Rat) / 2), 1, ((-1 : Rat) / 6)], [((-11 : Rat) / 6), 3, ((-3 : Rat) / 2), ((1 : Rat) / 3)], [((-1 : Rat) / 3), ((3 : Rat) / 2), (-3 : Rat), ((11 : Rat) / 6)], [((1 : Rat) / 6), (-1 : Rat), ((1 : Rat) / 2), ((1 : Rat) / 3)]]

/-- helpers.py `SECOND_DERIV_COEFF["2"]` -/
def SECOND_DERIV_COEFF_2 : List (List Rat) := [[1, (-2 : Rat), 1], [1, (-2 : Rat), 1], [1, (-2 : Rat), 1]]

/-- helpers.py `SECOND_DERIV_COEFF["4"]` -/
def SECOND_DERIV_COEFF_4 : List (List Rat) := [[((-1 : Rat) / 12), ((4 : Rat) / 3), ((-5 : Rat) / 2), ((4 : Rat) / 3), ((-1 : Rat) / 12)], [((11 : Rat) / 12), ((-5 : Rat) / 3), ((1 : Rat) / 2), ((1 : Rat) / 3), ((-1 : Rat) / 12)], [((35 : Rat) / 12), ((-26 : Rat) / 3), ((19 : Rat) / 2), ((-14 : Rat) / 3), ((11 : Rat) / 12)], [((11 : Rat) / 12), ((-14 : Rat) / 3), ((19 : Rat) / 2), ((-26 : Rat) / 3), ((35 : Rat) / 12)], [((-1 : Rat) / 12), ((1 : Rat) / 3), ((1 : Rat) / 2), ((-5 : Rat) / 3), ((11 : Rat) / 12)]]

/-- helpers.py `FIRST_DERIV_POS["2"]` -/
def FIRST_DERIV_POS_2 : List (List Rat) := [[(-1 : Rat), 1], [0, 1], [(-1 : Rat), 0]]

/-- helpers.py `FIRST_DERIV_POS["4"]` -/
def FIRST_DERIV_POS_4 : List (List Rat) := [[(-2 : Rat), (-1 : Rat), 1, 2], [(-1 : Rat), 0, 1, 2], [0, 1, 2, 3], [(-3 : Rat), (-2 : Rat), (-1 : Rat), 0], [(-2 : Rat), (-1 : Rat), 0, 1]]

/-- helpers.py `SECOND_DERIV_POS["2"]` -/
def SECOND_DERIV_POS_2 : List (List Rat) := [[(-1 : Rat), 0, 1], [0, 1, 2], [(-2 : Rat), (-1 : Rat), 0]]

/-- helpers.py `SECOND_DERIV_POS["4"]` -/
def SECOND_DERIV_POS_4 : List (List Rat) := [[(-2 : Rat), (-1 : Rat), 0, 1, 2], [(-1 : Rat), 0, 1, 2, 3], [0, 1, 2, 3, 4], [(-4 : Rat), (-3 : Rat), (-2 : Rat), (-1 : Rat), 0], [(-3 : Rat), (-2 : Rat), (-1 : Rat), 0, 1]]

/-- helpers.py `HESSIAN_POS["2"]` -/
def HESSIAN_POS_2 : List (List Rat) := [[1, 1, (-1 : Rat), (-1 : Rat)], [1, (-1 : Rat), 1, (-1 : Rat)]]

/-- helpers.py `HESSIAN_POS["4"]` -/
def HESSIAN_POS_4 : List (List Rat) := [[2, 2, 1, 1, (-1 : Rat), (-1 : Rat), (-2 : Rat), (-2 : Rat)], [2, (-2 : Rat), 1, (-1 : Rat), 1, (-1 : Rat), 2, (-2 : Rat)]]

/-- helpers.py `HESSIAN_COEFF["2"]` -/
def HESSIAN_COEFF_2 : List Rat := [((1 : Rat) / 4), ((-1 : Rat) / 4), ((-1 : Rat) / 4), ((1 : Rat) / 4)]

/-- helpers.py `HESSIAN_COEFF["4"]` -/
def HESSIAN_COEFF_4 : List Rat := [((-1 : Rat) / 48), ((1 : Rat) / 48), ((1 : Rat) / 3), ((-1 : Rat) / 3), ((-1 : Rat) / 3), ((1 : Rat) / 3), ((1 : Rat) / 48), ((-1 : Rat) / 48)]

end Gen.Q.Tables
