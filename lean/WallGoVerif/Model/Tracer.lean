/-
Hand model of the bookkeeping of `FreeEnergy.tracePhase` (freeEnergy.py:240-444) and of the
bracketing loop of `Thermodynamics.findCriticalTemperature` (thermodynamics.py:183-272).

The numerical work (RK45 steps, re-minimisation, Hessian eigenvalues, free-energy values) is NOT
modelled: it enters as the sequence of step records the integrator produced and as a sign
function.  What is modelled is which steps end up in the table (including the rule that a step of
rounding size replaces the previously stored point), where the table stops, the
"possible temperature" range with its 2·dT safety margin and the genuine-disappearance flags, and
which bracket is handed to the root finder.  Core Lean, numbers are `Rat`.
-/
namespace Model.Tracer

/-- what is observed after one `ode.step()` of the loop body -/
structure Step where
  t : Rat                -- ode.t after the step (and after the optional re-minimisation)
  eigPos : Bool          -- the phase still exists after the step: spinodalEvent(t, y) > 0 (smallest Hessian eigenvalue positive; `true` if
                         -- spinodal=False) AND, with paranoid=True, the re-solved minimum stayed on the branch (freeEnergy.py, fix 1a7a87a:
                         -- otherwise the loop breaks before the eigenvalue is even evaluated)
  tiny : Bool            -- ode.step_size < 1e-16·T0
  deriving Repr, DecidableEq

/-- one direction of the loop: consume the step records in order; `acc` is `TList` (ascending order of insertion),
`dT` the maximal step of `tracePhase`.
The loop breaks unless the minimum still exists (`eigPos`), the step is not tiny and `t` differs from the
previously stored temperature (freeEnergy.py, "check if step size is still okay to continue").  A step that
passes these tests and lies at rounding distance from the previously stored temperature,
`|t − TList[-1]| < 1e-8·dT` (exact rational `dT / 100000000`), REPLACES the last stored point
(`TList[-1] = ode.t; fieldList[-1] = ode.y; potentialEffList[-1] = potentialEffT; continue`); any other step
is appended (`TList = np.append(TList, [ode.t])`).  Reason for the replace rule: the last RK45 step is cut to
land on `t_bound` and may have rounding size; appending it would hand two almost coincident nodes to the
cubic spline.  Note that the rule applies to ANY stored last point, also to the initial `T0` of the first
direction (`TList = [T0]`), and that it needs `TList.size > 0`: the first step of the second direction
(`TList` emptied) is always appended. -/
def runDirection : List Step → List Rat → Rat → List Rat
  | [], acc, _ => acc
  | s :: rest, acc, dT =>
    if !s.eigPos then acc
    else if s.tiny || (acc.getLast? == some s.t) then acc
    else match acc.getLast? with
      | some last =>
        if (s.t - last).abs < dT / 100000000 then runDirection rest (acc.dropLast ++ [s.t]) dT
        else runDirection rest (acc ++ [s.t]) dT
      | none => runDirection rest (acc ++ [s.t]) dT

structure Result where
  table : List Rat            -- abscissae handed to newInterpolationTableFromValues
  minPossible : Rat
  minFlag : Bool              -- minPossibleTemperature[1]: the phase genuinely ends above the requested TMin
  maxPossible : Rat
  maxFlag : Bool
  deriving Repr, DecidableEq

inductive Err where
  | failedToTrace             -- RuntimeError("Failed to trace phase")
  | negativeRange             -- assert maxPossibleTemperature > minPossibleTemperature
  deriving Repr, DecidableEq

def listMin (l : List Rat) (d : Rat) : Rat := l.foldl (fun a b => if b < a then b else a) (l.headD d)
def listMax (l : List Rat) (d : Rat) : Rat := l.foldl (fun a b => if a < b then b else a) (l.headD d)

/-- `tracePhase` bookkeeping: `up` are the step records of direction 0 (towards TMax), `down` of
direction 1 (towards TMin); TMin/TMax are the requested range after clamping. -/
def tracePhase (T0 TMin TMax dT : Rat) (up down : List Step) : Except Err Result :=
  let tUp := runDirection up [T0] dT              -- TList starts as [T0]
  let tDown := runDirection down [] dT            -- emptied before the second direction
  let full : Except Err (List Rat) :=
    if tDown.length > 1 then .ok (tDown.reverse ++ tUp)
    else if tUp.length ≤ 1 then .error .failedToTrace
    else .ok tUp                                   -- NB: a single downward step is discarded
  match full with
  | .error e => .error e
  | .ok tf =>
    let mn := listMin tf T0
    let mx := listMax tf T0
    let minP := mn + 2 * dT
    let maxP := mx - 2 * dT
    if ¬ (minP < maxP) then .error .negativeRange   -- python compares the [value, flag] lists lexicographically; flags are still False here
    else .ok { table := tf, minPossible := minP, minFlag := decide (TMin < mn), maxPossible := maxP, maxFlag := decide (mx < TMax) }

/-! ### findCriticalTemperature -/

/-- sign as `np.sign` -/
def sgn (x : Rat) : Int := if x < 0 then -1 else if 0 < x then 1 else 0

/-- the coarse loop: start at TMax, step down by dT while `T - dT > TMin`, stop at the first sign change.
Returns the temperature at which the sign differs from the sign at TMax (`none` = "Could not find"). `fuel` bounds the loop. -/
def coarseLoop (dF : Rat → Rat) (TMin dT : Rat) (s0 : Int) : Nat → Rat → Option Rat
  | 0, _ => none
  | fuel + 1, T =>
    if T - dT > TMin then
      let T' := T - dT
      if sgn (dF T') ≠ s0 then some T' else coarseLoop dF TMin dT s0 fuel T'
    else none

/-- bracket handed to brentq: `(T, T + dT)` -/
def criticalBracket (dF : Rat → Rat) (TMin TMax dT : Rat) (fuel : Nat) : Option (Rat × Rat) :=
  (coarseLoop dF TMin dT (sgn (dF TMax)) fuel TMax).map (fun T => (T, T + dT))

end Model.Tracer
