/-
Hand model of the mutable state of `Grid3Scales` (grid3Scales.py:116-196, grid.py:142-176):
parameters, the derived `aIn/aOut`, the inherited `positionFalloff`, and the rescaling
operations.  The cached coordinate arrays are a function of the parameter record only
(`_cacheCoordinates` recomputes all of them from `self`), so they are represented by the
record itself.  Generic in the number type (Rat for execution, any type for the theorems).
-/
namespace Model.GridState

structure Params (K : Type) where
  tailIn : K
  tailOut : K
  thickness : K
  ratio : K
  smoothing : K
  center : K
  momentumT : K
  deriving DecidableEq, Repr

/-- object state: the parameters that `decompactify`/`compactificationDerivatives` read, and
`positionFalloff`, which only the INHERITED `Grid.compactify` reads. -/
structure State (K : Type) where
  p : Params K
  positionFalloff : K
  deriving DecidableEq, Repr

inductive Op (K : Type) where
  | changePosition (tailIn tailOut thickness center : K)    -- Grid3Scales.changePositionFalloffScale
  | changeMomentum (T : K)                                   -- Grid.changeMomentumFalloffScale
  deriving Repr

/-- `Grid3Scales.__init__`: `_updateParameters(...)` then `Grid.__init__(M, N, wallThickness, T)`. -/
def fresh {K : Type} (p : Params K) : State K := ⟨p, p.thickness⟩

def step {K : Type} (s : State K) : Op K → State K
  | .changePosition ti to' L c =>
      { s with p := { s.p with tailIn := ti, tailOut := to', thickness := L, center := c } }
  | .changeMomentum T => { s with p := { s.p with momentumT := T } }

def run {K : Type} (s : State K) (ops : List (Op K)) : State K := ops.foldl step s

/-- the parameters a user would pass to construct a new grid "with those scales". -/
def finalParams {K : Type} (p : Params K) (ops : List (Op K)) : Params K := (run (fresh p) ops).p

end Model.GridState
