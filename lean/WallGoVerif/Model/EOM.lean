/-
Hand model of the closed-form pieces of `src/WallGo/equationOfMotion.py`:
`wallProfile` (tanh ansatz and its analytic z-derivative), `plasmaVelocity`,
`temperatureProfileEqLHS`, `deltaToTmunu`, `_updateGrid`, the kinetic term of `action`,
`_toWallParams`, and the clamping of wall parameters in `_intermediatePressureResults`.

Polymorphic in the number type with the transcendental functions passed in, so that the same
definition runs on `Float` (compared with the real EOM methods on every run,
harness/props/C04.py) and is reasoned about on `ℝ` (Props/C04, C08, C09).  Core Lean only.
-/
namespace Model.EOM

section
variable {α : Type} [Add α] [Sub α] [Mul α] [Div α] [Neg α] [LT α] [DecidableRel (α := α) (· < ·)]

def sum (zero : α) (l : List α) : α := l.foldl (· + ·) zero

def maxL (l : List α) (d : α) : α := l.foldl (fun a b => if a < b then b else a) (l.headD d)
def minL (l : List α) (d : α) : α := l.foldl (fun a b => if b < a then b else a) (l.headD d)
def max2 (a b : α) : α := if a < b then b else a     -- python max(a, b) for distinct values; ties: either
def min2 (a b : α) : α := if b < a then b else a

/-- one field of `wallProfile`: φ(z) = φ_low + ½(φ_high − φ_low)(1 + tanh(z/L + δ)) and
dφ/dz = ½(φ_high − φ_low) / (L cosh²(z/L + δ)). -/
def fieldProfile (tanh : α → α) (half one : α) (z lo hi L δ : α) : α :=
  lo + half * (hi - lo) * (one + tanh (z / L + δ))

def fieldGradient (cosh : α → α) (half : α) (z lo hi L δ : α) : α :=
  half * (hi - lo) / (L * (cosh (z / L + δ) * cosh (z / L + δ)))

/-- `wallProfile` at one position `z` for all fields. -/
def wallProfile (tanh cosh : α → α) (half one : α) (z : α) (lo hi widths offsets : List α) : List α × List α :=
  let idx := List.range lo.length
  let g := fun (l : List α) (i : Nat) => l.getD i half
  (idx.map (fun i => fieldProfile tanh half one z (g lo i) (g hi i) (g widths i) (g offsets i)),
   idx.map (fun i => fieldGradient cosh half z (g lo i) (g hi i) (g widths i) (g offsets i)))

/-- `plasmaVelocity`: v = (−w + √(4 s1² + w²)) / (2 s1). -/
def plasmaVelocity (sqrt : α → α) (two four : α) (enthalpy s1 : α) : α :=
  (-enthalpy + sqrt (four * (s1 * s1) + enthalpy * enthalpy)) / (two * s1)

/-- `temperatureProfileEqLHS`: ½Σφ′² − V − ½w + ½√(4 s1² + w²) − s2. -/
def tempEqLHS (sqrt : α → α) (zero half four : α) (dPhidz : List α) (veff enthalpy s1 s2 : α) : α :=
  half * sum zero (dPhidz.map (fun d => d * d)) - veff - half * enthalpy
    + half * sqrt (four * (s1 * s1) + enthalpy * enthalpy) - s2

/-- per-particle input of `deltaToTmunu` -/
structure PDelta (α : Type) where
  dofs : α
  msq : α
  d00 : α
  d02 : α
  d20 : α
  d11 : α

/-- `deltaToTmunu`: out-of-equilibrium T^{30}, T^{33} from the four moments. -/
def deltaToTmunu (sqrt : α → α) (zero one two three four : α) (vmid : α) (ps : List (PDelta α)) : α × α :=
  let g2 := one / (one - vmid * vmid)
  let u0 := sqrt g2
  let u3 := sqrt g2 * vmid
  let ub0 := u3
  let ub3 := u0
  let t30 := sum zero (ps.map (fun p =>
    p.dofs * ((three * p.d20 - p.d02 - p.msq * p.d00) * u3 * u0
      + (three * p.d02 - p.d20 + p.msq * p.d00) * ub3 * ub0
      + two * p.d11 * (u3 * ub0 + ub3 * u0)) / two))
  let t33 := sum zero (ps.map (fun p =>
    p.dofs * (((three * p.d20 - p.d02 - p.msq * p.d00) * u3 * u3
      + (three * p.d02 - p.d20 + p.msq * p.d00) * ub3 * ub3
      + four * p.d11 * u3 * ub3) / two
      - (p.msq * p.d00 + p.d02 - p.d20) / two)))
  (t30, t33)

/-- `_updateGrid`: (tailInside, tailOutside, wallThicknessGrid, wallCenterGrid). -/
def updateGrid (sqrt : α → α) (one two half log2 c105 : α) (widths offsets : List α) (vmid mfp : α)
    (includeOffEq : Bool) (smoothing ratio : α) (zero : α) : α × α × α × α :=
  let hiE := List.zipWith (fun o w => (one - o) * w) offsets widths
  let loE := List.zipWith (fun o w => (-one - o) * w) offsets widths
  let thick := (maxL hiE zero - minL loE zero) / two
  let center := (maxL hiE zero + minL loE zero) / two - thick * log2 / two
  let gammaWall := one / sqrt (one - vmid * vmid)
  let floor' := thick * (half + c105 * smoothing) / ratio
  let off : α := if includeOffEq then one else zero
  let tailIn := max2 (mfp * gammaWall * off) floor'
  let tailOut := max2 (mfp / gammaWall * off) floor'
  (tailIn, tailOut, thick, center)

/-- kinetic term of `action`: Σ_i (φ_high,i − φ_low,i)² / (6 L_i). -/
def kinetic (zero six : α) (lo hi widths : List α) : α :=
  sum zero (List.zipWith (fun d L => d * d / (six * L)) (List.zipWith (fun h l => h - l) hi lo) widths)

/-- `_toWallParams`: array (widths ++ offsets[1:]) ↦ (widths, 0 :: offsets[1:]). -/
def toWallParams (zero : α) (n : Nat) (arr : List α) : List α × List α :=
  (arr.take n, zero :: arr.drop n)

/-- clamping at the top of `_intermediatePressureResults`. -/
def clamp (lo hi x : α) : α := max2 (min2 x hi) lo

end

end Model.EOM
