/-
Hand model of `Hydrodynamics.fastestDeflag` and `Hydrodynamics.slowestDeton` (hydrodynamics.py:176-275): the velocity window cut by
the tabulated temperature ranges.  `tp vw`, `tm vw` are T₊, T₋ of `findMatching(vw)`; `root f a b` is what
`root_scalar(f, bracket=[a,b], method="brentq").root` returns when it does not raise; brentq raises `ValueError` exactly when
`f(a)·f(b) > 0`, which is how the `except ValueError` branches are reached.  Polymorphic in the number type; core Lean only.
-/
namespace Model.Window

section
variable {α : Type} [Add α] [Sub α] [Mul α] [LT α] [DecidableRel (α := α) (· < ·)]

def min2 (a b : α) : α := if b < a then b else a       -- python min(a, b)

/-- result of `fastestDeflag`: the velocity and what happens to `doesPhaseTraceLimitvmax[0]` (high-T) and `[1]` (low-T):
`none` = left as it was, `some b` = set to `b`. -/
structure Deflag (α : Type) where
  vmax : α
  setHigh : Option Bool
  setLow : Option Bool

/-- one of the two symmetric blocks (lines 200-217 / 219-235): `f = T(vw) - TMax`; `endFlag` is
`freeEnergy*.maxPossibleTemperature[1]` (the table ends because the phase genuinely disappears) -/
def cut (zero : α) (f : α → α) (root : (α → α) → α → α → α) (a b vJ : α) (endFlag : Bool) : α × Option Bool :=
  if zero < f a * f b then (vJ, some false)                       -- brentq raises ValueError
  else (root f a b, if !endFlag then some true else none)

def fastestDeflag (zero : α) (tp tm : α → α) (root : (α → α) → α → α → α) (vJ vMin vLow tMaxLow tMaxHigh : α)
    (endLow endHigh : Bool) : Deflag α :=
  let vTop := vJ - vLow
  if tm vTop < tMaxLow ∧ tp vTop < tMaxHigh then { vmax := vJ, setHigh := none, setLow := none }
  else
    let a := vMin + vLow
    let c1 := cut zero (fun v => tm v - tMaxLow) root a vTop vJ endLow
    let c2 := cut zero (fun v => tp v - tMaxHigh) root a vTop vJ endHigh
    { vmax := min2 c1.1 c2.1, setHigh := c2.2, setLow := c1.2 }

/-- `slowestDeton`; `one`, `d` = 1e-4, `pad` = 0.01 -/
def slowestDeton (zero one d pad : α) (tm : α → α) (root : (α → α) → α → α → α) (vJ tMaxLow : α) : α :=
  if tMaxLow < tm one then one
  else
    let f := fun v => tm v - tMaxLow
    if zero < f (vJ + d) * f one then vJ
    else min2 one (root f (vJ + d) one + pad)

end

end Model.Window
