/-
Hand model of `helpers.derivative / gradient / hessian` (src/WallGo/helpers.py:74-426).

One definition, two uses: instantiated at `K = Rat` it is executable and is compared
*exactly* with the Python code on dyadic inputs (harness/props/C19.py); instantiated at
`K = ℝ` it is what the theorems of `Props/C19.lean` are about.  The coefficient and position
tables are NOT written here: they are regenerated from helpers.py into `Gen.Q.Tables`.
Core Lean only (no Mathlib) so that the driver runs under `lean --run`.
-/
import WallGoVerif.Gen.Q.Tables

namespace Model.Deriv
open Gen.Q.Tables

/-- `bounds=(lo, hi)`; `none` stands for `∓np.inf` (what `bounds=None` expands to). -/
structure Bounds (K : Type) where
  lo : Option K
  hi : Option K

section
variable {K : Type} [Add K] [Sub K] [Mul K] [Div K] [LT K] [DecidableRel (α := K) (· < ·)]
variable (c : Rat → K)   -- embedding of the table entries (id for Rat, Rat.cast for ℝ)

def aboveHi (b : Bounds K) (y : K) : Bool :=
  match b.hi with
  | none => false
  | some h => decide (h < y)

def belowLo (b : Bounds K) (y : K) : Bool :=
  match b.lo with
  | none => false
  | some l => decide (y < l)

/-- helpers.py:164-169: `offset` (numpy int array; here for one entry of `x`). -/
def offset (order : Nat) (x dx : K) (b : Bounds K) : Int :=
  let o : Int := 0
  let o := o - (if aboveHi b (x + dx) then 1 else 0)
  let o := o + (if belowLo b (x - dx) then 1 else 0)
  if order = 4 then
    let o := o - (if aboveHi b (x + c 2 * dx) then 1 else 0)
    o + (if belowLo b (x - c 2 * dx) then 1 else 0)
  else o

/-- Python list indexing with a possibly negative index (valid for `-n ≤ i < n`). -/
def pyIndex (n : Nat) (i : Int) : Nat := (i % (n : Int)).toNat

def posTable (n order : Nat) : List (List Rat) :=
  match n, order with
  | 1, 2 => FIRST_DERIV_POS_2
  | 1, 4 => FIRST_DERIV_POS_4
  | 2, 2 => SECOND_DERIV_POS_2
  | 2, 4 => SECOND_DERIV_POS_4
  | _, _ => []

def coeffTable (n order : Nat) : List (List Rat) :=
  match n, order with
  | 1, 2 => FIRST_DERIV_COEFF_2
  | 1, 4 => FIRST_DERIV_COEFF_4
  | 2, 2 => SECOND_DERIV_COEFF_2
  | 2, 4 => SECOND_DERIV_COEFF_4
  | _, _ => []

/-- the table row that `derivative` selects: `TABLE.T[:, offset]`. -/
def rowOf (n order : Nat) (x dx : K) (b : Bounds K) : Nat :=
  pyIndex (posTable n order).length (offset c order x dx b)

def hpow (h : K) : Nat → K
  | 0 => c 1
  | k + 1 => hpow h k * h

/-- `Σᵢ coeffᵢ/dxⁿ · f(x + posᵢ·dx)` for an explicit stencil (positions, coefficients). -/
def applyStencil (pos coef : List Rat) (f : K → K) (n : Nat) (x dx : K) : K :=
  (List.zipWith (fun p q => (c q / hpow c dx n) * f (x + c p * dx)) pos coef).foldl (· + ·) (c 0)

/-- evaluation points handed to `f` (helpers.py:172/175). -/
def positions (n order : Nat) (x dx : K) (b : Bounds K) : List K :=
  ((posTable n order).getD (rowOf c n order x dx b) []).map (fun p => x + c p * dx)

/-- helpers.py:74-185 for `n ∈ {1,2}`, one entry of `x`, after `dx` has been fixed. -/
def derivative (f : K → K) (n order : Nat) (x dx : K) (b : Bounds K) : K :=
  let r := rowOf c n order x dx b
  applyStencil c ((posTable n order).getD r []) ((coeffTable n order).getD r []) f n x dx

def firstPos0 (order : Nat) : List Rat := (posTable 1 order).getD 0 []
def firstCoeff0 (order : Nat) : List Rat := (coeffTable 1 order).getD 0 []

/-- one component of `gradient` (helpers.py:286-296): central row 0 of the first-derivative
tables along one axis; `g t = f(x + t·e_a)`. -/
def gradComp (order : Nat) (g : K → K) (dx : K) : K :=
  (List.zipWith (fun p q => (c q / dx) * g (c p * dx)) (firstPos0 order) (firstCoeff0 order)).foldl (· + ·) (c 0)

def hessPos (order : Nat) : List (List Rat) := if order = 2 then HESSIAN_POS_2 else HESSIAN_POS_4
def hessCoeff (order : Nat) : List Rat := if order = 2 then HESSIAN_COEFF_2 else HESSIAN_COEFF_4

/-- one entry `(i,j)` of `hessian` (helpers.py:410-426); `g s t = f(x + s·e_i + t·e_j)`
(for `i = j` this is `g s t = f(x + (s+t)·e_i)`). -/
def hessEntry (order : Nat) (g : K → K → K) (dxi dxj : K) : K :=
  let p0 := (hessPos order).getD 0 []
  let p1 := (hessPos order).getD 1 []
  (List.zipWith (fun (pq : Rat × Rat) q => (c q / (dxj * dxi)) * g (c pq.1 * dxi) (c pq.2 * dxj))
      (List.zip p0 p1) (hessCoeff order)).foldl (· + ·) (c 0)

end

/-- shape bookkeeping of `gradient` / `hessian`: input shape `s ++ [d]`, axis selections of
lengths `a` (and `b`) give `s ++ [a]` resp. `s ++ [a, b]`; `derivative` keeps the shape. -/
def gradShape (s : List Nat) (a : Nat) : List Nat := s ++ [a]
def hessShape (s : List Nat) (a b : Nat) : List Nat := s ++ [a, b]

/-- Python's normalisation of a (possibly negative) axis index, as `np.identity(d)[axisList]` does. -/
def normAxis (d : Nat) (i : Int) : Option Nat :=
  if -(d : Int) ≤ i ∧ i < d then some (pyIndex d i) else none

end Model.Deriv
