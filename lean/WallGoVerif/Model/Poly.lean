/-
Hand model of `src/WallGo/polynomial.py` (cardinal / restricted-Chebyshev bases on a
Gauss-Lobatto grid: evaluation, basis change, derivative matrices, Gauss-Chebyshev-Lobatto
integration weights, axis-wise application).

One polymorphic definition, two uses: at `α = Float` it is executable and is compared with
the real `Polynomial` class (harness/props/C16.py); at `α = ℝ` it is what the theorems of
`Props/C16.lean` talk about.  The node list `xs` (the *complete* grid of a direction,
end points included, as returned by `grid.getCompactCoordinates(True, direction)`) is a
parameter: the theorems hold for any list of distinct nodes, the Chebyshev-specific ones for
`xs = [-cos(jπ/n)]`.   Core Lean only.
-/

namespace Model.Poly

inductive Dir where
  | z | pz | pp
  deriving DecidableEq, Repr

section
variable {α : Type} [Add α] [Sub α] [Mul α] [Div α] [Neg α] [BEq α]
variable (zero one : α)

def sum (l : List α) : α := l.foldl (· + ·) zero
def prod (l : List α) : α := l.foldl (· * ·) one

/-- polynomial.py `cardinal`: `∏ₖ where(x_n - x_k == 0, 1, (x - x_k)/(x_n - x_k))`. -/
def cardinal (xs : List α) (n : Nat) (x : α) : α :=
  let xn := xs.getD n zero
  prod one (xs.map (fun xk => if xn - xk == zero then one else (x - xk) / (xn - xk)))

/-- Chebyshev polynomial of the first kind by the three-term recurrence
(`scipy.special.eval_chebyt` on integer order). -/
def chebT (two : α) (n : Nat) (x : α) : α :=
  let rec go : Nat → α → α → α
    | 0, a, _ => a
    | k + 1, a, b => go k b (two * x * b - a)
  go n one x

/-- Chebyshev polynomial of the second kind (`eval_chebyu`); `U_{-1} = 0` is handled by the caller. -/
def chebU (two : α) (n : Nat) (x : α) : α :=
  let rec go : Nat → α → α → α
    | 0, a, _ => a
    | k + 1, a, b => go k b (two * x * b - a)
  go n one (two * x)

inductive Restriction where
  | unrestricted | full | onesided
  deriving DecidableEq, Repr

/-- polynomial.py `chebyshev(x, n, restriction)`. -/
def chebyshev (two : α) (r : Restriction) (n : Nat) (x : α) : α :=
  let t := chebT one two n x
  match r with
  | .unrestricted => t
  | .onesided => t - one
  | .full => t - (if n % 2 = 0 then one else x)

/-- which rows of the complete grid are kept when `endpoints = False`
(z, pz: both ends dropped; pp: only the last one). -/
def keptRange (d : Dir) (endpoints : Bool) (len : Nat) : Nat × Nat :=   -- [lo, hi)
  if endpoints then (0, len) else
    match d with
    | .pp => (0, len - 1)
    | _ => (1, len - 1)

def kept (d : Dir) (endpoints : Bool) (xs : List α) : List α :=
  let (lo, hi) := keptRange d endpoints xs.length
  (xs.drop lo).take (hi - lo)

/-- Chebyshev orders used for a direction (polynomial.py changeBasis / evaluate / _chebyshevMatrix). -/
def orders (d : Dir) (endpoints : Bool) (len : Nat) : List Nat :=
  if endpoints then List.range len else
    match d with
    | .pp => (List.range (len - 1)).map (· + 1)
    | _ => (List.range (len - 2)).map (· + 2)

def restrictionOf (d : Dir) (endpoints : Bool) : Restriction :=
  if endpoints then .unrestricted else match d with | .pp => .onesided | _ => .full

/-- `_chebyshevMatrix`: `M[i][j] = T̄_{n_j}(x_i)` on the kept nodes. -/
def chebyshevMatrix (two : α) (d : Dir) (endpoints : Bool) (xs : List α) : List (List α) :=
  (kept d endpoints xs).map (fun x =>
    (orders d endpoints xs.length).map (fun n => chebyshev one two (restrictionOf d endpoints) n x))

/-- `_cardinalDeriv` BEFORE the final transpose: row `i` (a kept node index), column `j`
(any node of the complete grid): the code's `derivWithEndpoints[i, j]`. -/
def cardinalDerivEntry (xs : List α) (i j : Nat) : α :=
  let xi := xs.getD i zero
  let xj := xs.getD j zero
  if xi - xj == zero then
    sum zero (xs.map (fun xk => if xi - xk == zero then zero else one / (xi - xk)))
  else
    (prod one (xs.map (fun xk => if (xi - xk) * (xj - xk) == zero then one else (xj - xk) / (xi - xk)))) / (xi - xj)

/-- `_cardinalDeriv(direction, endpoints)` as returned (after `np.transpose`):
`R[a][b] = derivWithEndpoints[lo + b][a]`, rows `a` over all nodes, columns `b` over kept nodes. -/
def cardinalDeriv (d : Dir) (endpoints : Bool) (xs : List α) : List (List α) :=
  let (lo, hi) := keptRange d endpoints xs.length
  (List.range xs.length).map (fun a =>
    (List.range (hi - lo)).map (fun b => cardinalDerivEntry zero one xs (lo + b) a))

/-- `_chebyshevDeriv`: `R[a][b] = n_b · U_{n_b - 1}(x_a) − [full ∧ ¬endpoints ∧ n_b odd]`, rows over all nodes. -/
def chebyshevDeriv (two : α) (ofNat : Nat → α) (d : Dir) (endpoints : Bool) (xs : List α) : List (List α) :=
  xs.map (fun x =>
    (orders d endpoints xs.length).map (fun n =>
      let u := if n = 0 then zero else ofNat n * chebU one two (n - 1) x
      if restrictionOf d endpoints = .full ∧ n % 2 = 1 then u - one else u))

/-- Gauss-Chebyshev-Lobatto weights of `integrate` *without* the `√(1-x²)` factor
(polynomial.py:491-582): `π/n`, halved at kept end points. `n` = M, N or N-1. -/
def gclWeights (piOverN half : α) (d : Dir) (endpoints : Bool) (len : Nat) : List α :=
  let (lo, hi) := keptRange d endpoints len
  (List.range (hi - lo)).map (fun b =>
    let idx := lo + b
    let w := piOverN
    let w := if d = .pp ∧ !endpoints ∧ b = 0 then w * half else w
    let w := if endpoints ∧ (idx = 0 ∨ idx = len - 1) then w * half else w
    w)

/-- matrix · vector -/
def mulVec (m : List (List α)) (v : List α) : List α :=
  m.map (fun row => sum zero (List.zipWith (· * ·) row v))

/-- value at `x` of the cardinal-basis expansion with coefficients `c` on the kept nodes. -/
def evalCardinal (d : Dir) (endpoints : Bool) (xs : List α) (c : List α) (x : α) : α :=
  let (lo, _) := keptRange d endpoints xs.length
  sum zero (c.zipIdx.map (fun (cj, j) => cj * cardinal zero one xs (lo + j) x))

/-- value at `x` of the (restricted) Chebyshev expansion with coefficients `c`. -/
def evalChebyshev (two : α) (d : Dir) (endpoints : Bool) (len : Nat) (c : List α) (x : α) : α :=
  sum zero (List.zipWith (fun cj n => cj * chebyshev one two (restrictionOf d endpoints) n x) c (orders d endpoints len))

/-- apply a matrix along one axis of a row-major tensor of the given shape
(`np.sum(M_expanded * np.expand_dims(t, axis), axis=axis+1)`). -/
def applyAxis (m : List (List α)) (shape : List Nat) (axis : Nat) (t : List α) : List α :=
  let outer := (shape.take axis).foldl (· * ·) 1
  let n := shape.getD axis 1
  let inner := (shape.drop (axis + 1)).foldl (· * ·) 1
  (List.range outer).flatMap (fun o =>
    (List.range m.length).flatMap (fun i =>
      (List.range inner).map (fun k =>
        sum zero ((List.range n).map (fun j =>
          ((m.getD i []).getD j zero) * t.getD ((o * n + j) * inner + k) zero)))))

end

end Model.Poly
