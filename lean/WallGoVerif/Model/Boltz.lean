/-
Hand model of the data flow of `BoltzmannSolver.buildLinearEquations` and `getDeltas`
(src/WallGo/boltzmann.py): which profile/derivative matrix enters which entry of the operator,
the row-major flattening, and the double Gauss-Chebyshev-Lobatto sum of the moments.
The pointwise formulas (source term, integrand, weights, f_eq') are NOT here: they are
regenerated from the source into `Gen.R.Boltz`/`Gen.F.Boltz`.  Polymorphic, core Lean only.
-/
namespace Model.Boltz

section
variable {α : Type} [Add α] [Sub α] [Mul α] [Div α]

/-- shape bookkeeping: (particles, M-1, N-1, N-1) flattened in C order. -/
def flatIndex (nM nN : Nat) (a i j k : Nat) : Nat := ((a * nM + i) * nN + j) * nN + k

/-- Liouville operator entry [a,i,j,k ; b,l,m,n] (boltzmann.py:567-603):
`δ_ab ( dchidxi_i · PWall_{aijk} · DChi_{il} · TRz_{jm} · TRp_{kn}
        − dchidxi_i · drzdpz_j · (γ_w/2) · dMsq_{ai} · TChi_{il} · DRz_{jm} · TRp_{kn} )`. -/
def liouvilleEntry (zero two : α) (sameParticle : Bool) (dchidxi pWall drzdpz gammaWall dMsq : α)
    (dChi_il tRz_jm tRp_kn tChi_il dRz_jm : α) : α :=
  if sameParticle then
    dchidxi * pWall * dChi_il * tRz_jm * tRp_kn
      - dchidxi * drzdpz * (gammaWall / two) * dMsq * tChi_il * dRz_jm * tRp_kn
  else zero

/-- collision operator entry: `multiplier · T_i² · TChi_{il} · C[a,j,k,b,m,n]`. -/
def collisionEntry (mult temperature tChi_il c_ajkbmn : α) : α :=
  mult * ((temperature * temperature) * tChi_il * c_ajkbmn)

/-- one moment at one (particle, position) point: `Σ_j Σ_k δf_{jk} · W_{jk} · √(1-ρz_j²)·wz_j · √(1-ρp_k²)·wp_k`
(`Polynomial.integrate((2,3), W)` on cardinal coefficients). `sz`, `sp` are the precomputed
`√(1-ρ²)·weight` factors of the two momentum directions (Model.Poly.gclWeights). -/
def moment (zero : α) (deltaF w : List (List α)) (sz sp : List α) : α :=
  (List.zipWith (fun (rowF : List α × List α) (szj : α) =>
      (List.zipWith (fun (fw : α × α) (spk : α) => fw.1 * fw.2 * szj * spk) (List.zip rowF.1 rowF.2) sp).foldl (· + ·) zero)
    (List.zip deltaF w) sz).foldl (· + ·) zero

end

end Model.Boltz
