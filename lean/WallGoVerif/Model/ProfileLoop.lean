/-
Hand model of the loop of `EOM.findPlasmaProfile` (src/WallGo/equationOfMotion.py): `pts` are the `(T, vPlasma)` pairs returned by
`findPlasmaProfilePoint` at the grid points, in order.  A point with `T > 0` is stored; otherwise ("no solution was found")
the previous entry is copied and `successTemperatureProfile` is cleared.  At index 0 "the previous entry" is
`temperatureProfile[-1]`, the last entry of the zero-initialised array, i.e. `(0, 0)`.  Polymorphic; core Lean only.
-/
namespace Model.ProfileLoop

section
variable {α : Type} [LT α] [DecidableRel (α := α) (· < ·)]

def profileStep (zero : α) (acc : List (α × α) × Bool) (r : α × α) : List (α × α) × Bool :=
  if zero < r.1 then (acc.1 ++ [r], acc.2) else (acc.1 ++ [acc.1.getLastD (zero, zero)], false)

/-- `(profile, successTemperatureProfile)` -/
def findPlasmaProfile (zero : α) (pts : List (α × α)) : List (α × α) × Bool :=
  pts.foldl (profileStep zero) ([], true)

end

end Model.ProfileLoop
