/-
Hand model of collision-data loading (collisionArray.py `newFromDirectory`,
boltzmann.py `loadCollisions`): which file goes to which block, which conditions raise
CollisionLoadError, and that the solver's array is replaced only after a successful load.
The numerical part (basis change, interpolation) is linear algebra stated in Props/C14.lean and
tied to the code through Model.Poly's matrices.  Core Lean only; `B` is the block payload type.
-/
namespace Model.Collision

inductive Basis where
  | cardinal | chebyshev | other
  deriving DecidableEq, Repr

structure FileInfo (B : Type) where
  size : Nat          -- metadata "Basis Size" (= N of the stored grid)
  basis : Basis       -- metadata "Basis Type"
  block : B           -- dataset "<p1>, <p2>"
  deriving Repr

/-- a directory: ordered particle pair ↦ file (none = file missing) -/
abbrev Dir (B : Type) := Nat → Nat → Option (FileInfo B)

inductive Err where
  | loadError                       -- CollisionLoadError
  deriving DecidableEq, Repr

structure Acc (B : Type) where
  first : Option (Nat × Basis)      -- basisSizeFile, basisTypeFile once the first file is read
  blocks : List ((Nat × Nat) × B)   -- assignments collisionFileArray[i,:,:,j,:,:] = dataset, in order

/-- the body of the double loop for one pair (i, j) -/
def readOne {B : Type} (dir : Dir B) (gridN : Nat) (acc : Acc B) (i j : Nat) : Except Err (Acc B) :=
  match dir i j with
  | none => .error .loadError                                   -- FileNotFoundError → CollisionLoadError
  | some f =>
    if gridN > f.size then .error .loadError                    -- target grid larger than stored
    else if f.basis = .other then .error .loadError             -- unknown stored basis
    else match acc.first with
      | none => .ok { first := some (f.size, f.basis), blocks := acc.blocks ++ [((i, j), f.block)] }
      | some (s, b) =>
        if f.size ≠ s then .error .loadError
        else if f.basis ≠ b then .error .loadError
        else .ok { acc with blocks := acc.blocks ++ [((i, j), f.block)] }

def pairs (n : Nat) : List (Nat × Nat) :=
  (List.range n).flatMap (fun i => (List.range n).map (fun j => (i, j)))

def readAll {B : Type} (dir : Dir B) (gridN n : Nat) : Except Err (Acc B) :=
  (pairs n).foldlM (fun acc (p : Nat × Nat) => readOne dir gridN acc p.1 p.2) { first := none, blocks := [] }

/-- what `newFromDirectory` produces before the numerical post-processing -/
structure Loaded (B : Type) where
  size : Nat
  basis : Basis
  blocks : List ((Nat × Nat) × B)
  interpolated : Bool     -- stored size ≠ grid.N → interpolateCollisionArray

def newFromDirectory {B : Type} (dir : Dir B) (gridN n : Nat) : Except Err (Loaded B) :=
  match readAll dir gridN n with
  | .error e => .error e
  | .ok acc =>
    match acc.first with
    | none => .error .loadError        -- no particles: the Python code fails on the unbound array; not modelled further
    | some (s, b) => .ok { size := s, basis := b, blocks := acc.blocks, interpolated := decide (s ≠ gridN) }

/-- `BoltzmannSolver.loadCollisions`: the attribute is assigned only after a successful load. -/
def loadCollisions {B : Type} (current : Option (Loaded B)) (dir : Dir B) (gridN n : Nat) :
    Option (Loaded B) × Option Err :=
  match newFromDirectory dir gridN n with
  | .error e => (current, some e)
  | .ok l => (some l, none)

end Model.Collision
