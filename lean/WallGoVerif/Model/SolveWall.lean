/-
Hand model of the decision logic of `EOM.solveWall` (equationOfMotion.py:404-689) and of the
convergence loop of `EOM.wallPressure` (equationOfMotion.py:691-966).

The physics (the pressure on the wall at a given velocity, the profiles) is NOT modelled: it enters
as a function `press : Rat → Rat` (what `wallPressure(v)[0]` returns), the result of `brentq`
as a pair (root, converged), and the flags the solver object carries after the final
`wallPressure(root)` call.  Modelled: which branch is taken, what is reported, and that every flag
read at the end was written by that final call.  Core Lean; every float is a rational, so `Rat` covers
all executions exactly (`wallVelocityMin *= 2` is exact in binary floating point).
-/
namespace Model.SolveWall

inductive SolType where
  | deflagration | detonation | runaway | error
  deriving DecidableEq, Repr

/-- state of the solver object after the LAST `wallPressure` call made inside `solveWall` -/
structure Flags where
  succTemp : Bool        -- self.successTemperatureProfile
  succPress : Bool       -- self.successWallPressure
  tMinusIn : Bool        -- TMinLowT ≤ T- ≤ TMaxLowT
  tPlusIn : Bool         -- TMinHighT ≤ T+ ≤ TMaxHighT
  saturates : Bool       -- some width/offset equals one of its bounds
  deriving DecidableEq, Repr

structure Out where
  success : Bool
  typ : SolType
  velocity : Option Rat
  branch : Nat           -- which `setSuccessState` call produced it (1..10, in source order)
  vMinFinal : Rat        -- lower end of the bracket actually used
  deriving DecidableEq, Repr

/-- the `while pressureMin > 0` loop: double vMin until the pressure there is ≤ 0 or vMin ≥ vMax. -/
def doubling (press : Rat → Rat) (vMax : Rat) : Nat → Rat → Rat → Option (Rat × Rat)
  | 0, _, _ => none
  | fuel + 1, vMin, pMin =>
    if pMin > 0 then
      let v' := vMin * 2
      if v' ≥ vMax then none else doubling press vMax fuel v' (press v')
    else some (vMin, pMin)

def solveWall (press : Rat → Rat) (vMin vMax vJ : Rat) (brent : Rat → Rat → Rat × Bool)
    (flagsAt : Rat → Flags) (fuel : Nat) : Out :=
  let pMax := press vMax
  if pMax < 0 then { success := true, typ := .runaway, velocity := none, branch := 1, vMinFinal := vMin }
  else
    match doubling press vMax fuel vMin (press vMin) with
    | none => { success := false, typ := .error, velocity := none, branch := 2, vMinFinal := vMin }
    | some (vLo, _) =>
      let (root, conv) := brent vLo vMax
      let f := flagsAt root
      let mk := fun (ok : Bool) (t : SolType) (b : Nat) => ({ success := ok, typ := t, velocity := some root, branch := b, vMinFinal := vLo } : Out)
      if !f.succTemp then mk false .error 3
      else if !f.tMinusIn then mk false .error 4
      else if !f.tPlusIn then mk false .error 5
      else if !f.succPress then mk false .error 6
      else if !conv then mk false .error 7
      else if f.saturates then mk false .error 8
      else if root > vJ then mk true .detonation 10
      else mk true .deflagration 9

/-! ### the convergence loop of `wallPressure` -/

structure LoopState where
  i : Nat
  multiplier : Rat
  improve : Bool
  pressures : List Rat        -- most recent last
  deriving Repr

inductive LoopOut where
  | running (s : LoopState)
  | converged (p : Rat)                 -- successWallPressure stays True
  | gaveUp (p : Rat)                    -- successWallPressure = False, mean of the last ≤4 pressures
  deriving Repr

def absR (x : Rat) : Rat := if x < 0 then -x else x
def maxR (a b : Rat) : Rat := if a < b then b else a
def minR (a b : Rat) : Rat := if b < a then b else a
def halfPow : Nat → Rat
  | 0 => 1
  | n + 1 => halfPow n / 2

/-- one pass through the `while True` body, given the pressure and `errorSolver` that the call of
`_getNextPressure` / `_intermediatePressureResults` produced in this iteration. -/
def loopBody (rtol atol : Rat) (maxIter : Nat) (s : LoopState) (pressure errorSolver : Rat) : LoopOut :=
  let ps := s.pressures ++ [pressure]
  let n := ps.length
  let last := fun (k : Nat) => ps.getD (n - k) 0       -- pressures[-k]
  let error := absR (last 1 - last 2)
  let errTol := maxR (rtol * absR pressure) atol * s.multiplier
  let i := s.i + 1
  if error < errTol || (errorSolver < errTol && s.improve) then
    if errorSolver > errTol then
      -- multiplier too large: halve it and continue (falls through to the `improveConvergence` update)
      let m := s.multiplier / 2
      let imp := if n > 2 then (s.improve || error > absR (last 2 - last 3) / (3/2)) else s.improve
      .running { i := i, multiplier := m, improve := imp, pressures := ps }
    else .converged pressure
  else if i ≥ maxIter - 1 then
    let tail := ps.drop (n - 4)
    .gaveUp (tail.foldl (· + ·) 0 / tail.length)
  else
    let m :=
      if n ≥ 4 then
        if absR (last 1 - last 3) < errTol && absR (last 2 - last 4) < errTol then s.multiplier / 2
        else if i % 10 = 0 then minR s.multiplier (halfPow (i / 10))
        else s.multiplier
      else s.multiplier
    let imp := if n > 2 then (s.improve || error > absR (last 2 - last 3) / (3/2)) else s.improve
    .running { i := i, multiplier := m, improve := imp, pressures := ps }

/-- run the loop over a finite stream of (pressure, errorSolver) observations -/
def runLoop (rtol atol : Rat) (maxIter : Nat) : LoopState → List (Rat × Rat) → LoopOut
  | s, [] => .running s
  | s, (p, e) :: rest =>
    match loopBody rtol atol maxIter s p e with
    | .running s' => runLoop rtol atol maxIter s' rest
    | r => r

end Model.SolveWall
