/-
Hand model of the bracket search of `Hydrodynamics.findJouguetVelocity` (hydrodynamics.py:126-160): the loop
that moves the temperature window up in steps of `Tnucl` until the numerator of d(v₊²)/dT₋ changes sign or the
hydrodynamic temperature ceiling is reached, and the choice between the bracketing root finder and the secant
method.  The numerator itself is a regenerated formula (`Gen.*.Hydro.vpDerivNum`); here it is a parameter `f`.
Polymorphic in the number type; core Lean only.
-/
namespace Model.Jouguet

inductive Call (α : Type) where
  | brentq (a b : α)          -- root_scalar(vpDerivNum, bracket=[a, b], method="brentq")
  | secant (x0 x1 : α)        -- root_scalar(vpDerivNum, method="secant", x0=…, x1=…)
  deriving Repr

section
variable {α : Type} [Add α] [Mul α] [LT α] [LE α] [DecidableRel (α := α) (· < ·)] [DecidableRel (α := α) (· ≤ ·)]

def min2 (a b : α) : α := if b < a then b else a       -- python min(a, b)
def max2 (a b : α) : α := if a < b then b else a       -- python max(a, b)

structure Win (α : Type) where
  tmin : α
  tmax : α
  b1 : α
  b2 : α
  steps : Nat

/-- the `while bracket1 * bracket2 > 0 and Tmax < TMaxHydro` loop -/
def widen (f : α → α) (zero Tn TMaxHydro : α) : Nat → Win α → Win α
  | 0, w => w
  | fuel + 1, w =>
    if zero < w.b1 * w.b2 ∧ w.tmax < TMaxHydro then
      let tmin := w.tmax
      let tmax := min2 (w.tmax + Tn) TMaxHydro
      widen f zero Tn TMaxHydro fuel { tmin := tmin, tmax := tmax, b1 := f tmin, b2 := f tmax, steps := w.steps + 1 }
    else w

/-- the window the loop ends with, and the root-finder call that follows -/
def search (f : α → α) (zero two Tn TMaxLow TMaxHydro : α) (fuel : Nat) : Win α × Call α :=
  let tmax0 := min2 (max2 (two * Tn) TMaxLow) TMaxHydro
  let w := widen f zero Tn TMaxHydro fuel { tmin := Tn, tmax := tmax0, b1 := f Tn, b2 := f tmax0, steps := 0 }
  (w, if w.b1 * w.b2 ≤ zero then Call.brentq Tn w.tmax else Call.secant Tn w.tmax)

end

end Model.Jouguet
