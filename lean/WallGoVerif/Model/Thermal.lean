/-
Hand model of the thermal one-loop sum of `EffectivePotentialNoResum.potentialOneLoopThermal`
(effectivePotentialNoResum.py:292-369): V_T = T⁴/(2π²) · ( Σ_b n_b J_b(m_b²/(T²+ε)) + Σ_f n_f J_f(m_f²/(T²+ε)) ),
with the thermal integrals as function parameters (their real parts).  Polymorphic, core Lean.
-/
namespace Model.Thermal

section
variable {α : Type} [Add α] [Mul α] [Div α]

def sum (zero : α) (l : List α) : α := l.foldl (· + ·) zero

/-- argument handed to the thermal integrals: m² / (T² + SMALL_NUMBER) -/
def thermalArg (small : α) (T msq : α) : α := msq / (T * T + small)

/-- particles: (mass squared, degrees of freedom) -/
def oneLoopThermal (zero two pi small : α) (Jb Jf : α → α) (T : α) (bosons fermions : List (α × α)) : α :=
  let sB := sum zero (bosons.map (fun p => p.2 * Jb (thermalArg small T p.1)))
  let sF := sum zero (fermions.map (fun p => p.2 * Jf (thermalArg small T p.1)))
  (sB + sF) * (T * T * T * T) / (two * pi * pi)

end

end Model.Thermal
