/-
Hand model of the scanning loop of `EOM.findWallVelocityDetonation` (equationOfMotion.py:246-380): which
velocities are probed, which brackets are handed to `solveWall`, and how the outcome is labelled when
no bracket was found.

The physics enters as `press v` (what `wallPressure(v, …)[0]` returns) and the step proposal
`propose i vw1 vw2 p1 p2 posMax` (what `nextStepDeton(…)` returns at iteration `i`; its statistical
internals are not modelled, only that the loop clips the proposal from below).  Rational arithmetic is exact
for the scripted inputs of the correspondence run; core Lean only.
-/
namespace Model.DetonScan

inductive Label where
  | roots                      -- at least one bracket was handed to solveWall
  | deflagrationOrRunaway      -- p(vmin) > 0 > p(last): no stable detonation
  | deflagration               -- pressure positive at both ends
  | runaway                    -- everything else
  deriving DecidableEq, Repr

structure Out where
  label : Label
  brackets : List (Rat × Rat)          -- (vw2, vw3) of every solveWall call, in order
  probes : List (Rat × Rat)            -- (velocity, pressure) of every wallPressure call, in order
  deriving Repr

def maxR (a b : Rat) : Rat := if a < b then b else a      -- python max(a, b)
def minR (a b : Rat) : Rat := if b < a then b else a      -- python min(a, b)

structure St where
  vw1 : Rat
  vw2 : Rat
  p1 : Rat
  p2 : Rat
  i : Nat
  brackets : List (Rat × Rat)
  probes : List (Rat × Rat)

/-- one pass of the `while vw2 < vmax` body; `none` = the loop stops after (or instead of) this pass -/
def step (press : Rat → Rat) (propose : Nat → Rat → Rat → Rat → Rat → Rat → Rat) (vmax stepMin stepMax : Rat)
    (onlySmallest : Bool) (s : St) : St × Bool :=
  let posMax := minR vmax (s.vw2 + stepMax)
  let vw3 := maxR (propose s.i s.vw1 s.vw2 s.p1 s.p2 posMax) (minR vmax (s.vw2 + stepMin))
  if vw3 = vmax ∧ s.p2 > 0 then (s, false)
  else
    let p3 := press vw3
    let found := decide (p3 ≥ 0 ∧ 0 ≥ s.p2)
    let br := if found then s.brackets ++ [(s.vw2, vw3)] else s.brackets
    let s' : St := { vw1 := s.vw2, vw2 := vw3, p1 := s.p2, p2 := p3, i := s.i + 1, brackets := br, probes := s.probes ++ [(vw3, p3)] }
    -- with onlySmallest the code breaks BEFORE shifting (vw1,vw2,p1,p2); the shift only matters for the label when no root was found
    if found && onlySmallest then ({ s with brackets := br, probes := s.probes ++ [(vw3, p3)] }, false)
    else (s', true)

def loop (press : Rat → Rat) (propose : Nat → Rat → Rat → Rat → Rat → Rat → Rat) (vmax stepMin stepMax : Rat)
    (onlySmallest : Bool) : Nat → St → St
  | 0, s => s
  | fuel + 1, s =>
    if s.vw2 < vmax then
      let (s', go) := step press propose vmax stepMin stepMax onlySmallest s
      if go then loop press propose vmax stepMin stepMax onlySmallest fuel s' else s'
    else s

/-- `findWallVelocityDetonation(vmin, vmax, nbrPointsMin, nbrPointsMax, onlySmallest)` -/
def scan (press : Rat → Rat) (propose : Nat → Rat → Rat → Rat → Rat → Rat → Rat) (vmin vmax : Rat)
    (nMin nMax : Nat) (onlySmallest : Bool) (fuel : Nat) : Out :=
  let p0 := press vmin
  let stepMin := (vmax - vmin) / ((nMax : Rat) - 1)
  let stepMax := (vmax - vmin) / ((nMin : Rat) - 1)
  let s0 : St := { vw1 := 0, vw2 := vmin, p1 := p0, p2 := p0, i := 0, brackets := [], probes := [(vmin, p0)] }
  let s := loop press propose vmax stepMin stepMax onlySmallest fuel s0
  let label :=
    if s.brackets ≠ [] then Label.roots
    else if p0 > 0 ∧ 0 > s.p2 then Label.deflagrationOrRunaway
    else if p0 > 0 ∧ s.p2 > 0 then Label.deflagration
    else Label.runaway
  { label := label, brackets := s.brackets, probes := s.probes }

end Model.DetonScan
