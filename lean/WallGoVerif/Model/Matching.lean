/-
Hand model of the decision logic of `Hydrodynamics.findMatching` (hydrodynamics.py:700-791) on the
deflagration/hybrid branch: which bracket is handed to which root finder, when the upper bound on `v₊`
is re-evaluated, and when the constant-sound-speed template model is used instead of the model's own
equation of state.

The physics enters as functions: `tp vp` (the `T₊` component of `matchDeflagOrHyb(vw, vp)`), `shock vp T₊`
(`solveHydroShock(vw, vp, T₊)`), `csqHigh T` (`thermodynamics.csqHighT`).  The numerical tools enter as
oracles: `rootS a b`, `rootD a b` (what `root_scalar(..., bracket=[a,b]).root` returns for the two residuals) and
`minim σ a b` (`minimize_scalar(σ·D, bounds=[a,b], method="Bounded")` as the pair `(x, fun)`).
Polymorphic in the number type (run at `Float` against the real method with scripted stubs, reasoned about
on an ordered field).  Core Lean only.
-/
namespace Model.Matching

inductive Event (α : Type) where
  | rootS (a b : α)            -- root_scalar(solveVpmax, bracket=[a, b])
  | rootD (a b : α)            -- root_scalar(shockTnuclDiff, bracket=[a, b])
  | minim (sigma a b : α)      -- minimize_scalar(sigma * shockTnuclDiff, bounds=[a, b])
  deriving Repr

inductive Outcome (α : Type) where
  | detonation                          -- delegated to matchDeton(vw)
  | root (vp : α)                       -- matchDeflagOrHyb(vw, vp) with vp from the root finder: the model's own EOS
  | template (vwTemplate : α)           -- template.findMatching(vwTemplate): an approximation
  deriving Repr

section
variable {α : Type} [Add α] [Sub α] [Mul α] [Div α] [Neg α] [LT α] [LE α]
  [DecidableRel (α := α) (· < ·)] [DecidableRel (α := α) (· ≤ ·)]

structure Phys (α : Type) where
  tp : α → α                 -- vp ↦ T₊ of matchDeflagOrHyb(vw, vp)
  shock : α → α → α          -- (vp, T₊) ↦ temperature ahead of the shock front
  csqHigh : α → α            -- T ↦ c_s² of the high-temperature phase
  Tn : α
  csqHighTn : α              -- csqHighT(Tnucl) (one call, made before the loop)

structure Oracles (α : Type) where
  rootS : α → α → α
  rootD : α → α → α
  minim : α → α → α → α × α

def min2 (a b : α) : α := if b < a then b else a       -- python min(a, b)
def max2 (a b : α) : α := if a < b then b else a       -- python max(a, b)

/-- `shockTnuclDiff` -/
def D (p : Phys α) (vp : α) : α := p.shock vp (p.tp vp) - p.Tn
/-- `solveVpmax` -/
def S (p : Phys α) (vw vp : α) : α := vp - p.csqHigh (p.tp vp) / vw

/-- numpy sign, as a number -/
def sgn (zero one : α) (x : α) : α := if zero < x then one else if x < zero then -one else zero

/-- the refined upper bound `vpmax` and `shockTnuclDiff(vpmax)` after lines 731-756, with the events so far -/
def upperBound (p : Phys α) (o : Oracles α) (zero : α) (vw vpmin : α) : α × α × α × List (Event α) :=
  let vpmax0 := min2 vw (p.csqHighTn / vw)
  let dmin := D p vpmin
  let dmax0 := D p vpmax0
  if zero < dmin * dmax0 then
    if S p vw vw * S p vw vpmax0 ≤ zero then
      let v := o.rootS vpmax0 vw
      (dmin, v, D p v, [Event.rootS vpmax0 vw])
    else (dmin, vpmax0, dmax0, [])
  else (dmin, vpmax0, dmax0, [])

/-- `findMatching(vw)`: outcome and the sequence of solver calls. `eps` is the `1e-6` of lines 778/780. -/
def findMatching (p : Phys α) (o : Oracles α) (zero one eps : α) (vw vJ vJtemplate vBracketLow : α) :
    Outcome α × List (Event α) :=
  if vJ < vw then (.detonation, [])
  else
    let vpmin := vBracketLow
    let (dmin, vpmax, dmax, ev) := upperBound p o zero vw vpmin
    if dmin * dmax ≤ zero then
      (.root (o.rootD vpmin vpmax), ev ++ [Event.rootD vpmin vpmax])
    else
      let sigma := sgn zero one dmax
      let (x, f) := o.minim sigma vpmin vpmax
      let ev := ev ++ [Event.minim sigma vpmin vpmax]
      if zero < f then
        let vwT := if vw ≤ vJ then min2 vw (vJtemplate - eps) else max2 vw (vJtemplate + eps)
        (.template vwT, ev)
      else
        (.root (o.rootD vpmin x), ev ++ [Event.rootD vpmin x])

end

end Model.Matching
