/-
Hand model of the branch logic of `EOM.findPlasmaProfilePoint` (src/WallGo/equationOfMotion.py): which root of the
parabola-like left-hand side of the T33 equation is searched for.

`lhs T` is `temperatureProfileEqLHS(fields, dPhidz, T, s1, s2)` at the grid point, `tmin` is what
`minimize_scalar(lhs, bounds=[0, 2 max(Tplus, Tminus)])` returned (`minRes.x`); both are inputs (the minimiser and the final
`root_scalar` are oracles).  Modelled: the early return when the minimum is not negative, the multiplier
`max(Tplus/tmin, 1.2)` — replaced by `min(Tminus/tmin, 0.8)` when `|Tn − Tplus| < 1e-10` (detonation) —, the marching loop
`while lhs(testTemp) < 0: if i > 100: return 0, 0; tempAtMinimum *= m; testTemp *= m; i += 1` and the bracket
`(tempAtMinimum, testTemp)` finally handed to `root_scalar`.  Polymorphic in the number type; core Lean only.
-/
namespace Model.ProfilePoint

section
variable {α : Type} [Add α] [Sub α] [Mul α] [Div α] [LT α] [DecidableRel (α := α) (· < ·)]

def absv (zero x : α) : α := if x < zero then zero - x else x          -- python abs
def max2 (a b : α) : α := if a < b then b else a                        -- python max(a, b)
def min2 (a b : α) : α := if b < a then b else a                        -- python min(a, b)

/-- `TMultiplier`; `tiny` = 1e-10, `up` = 1.2, `down` = 0.8 -/
def tMultiplier (zero tiny up down : α) (Tn Tplus Tminus tmin : α) : α :=
  if absv zero (Tn - Tplus) < tiny then min2 (Tminus / tmin) down else max2 (Tplus / tmin) up

inductive Outcome (α : Type) where
  | minimum (T : α)          -- no root: the position of the minimum is returned
  | noSolution               -- `return 0, 0` after more than 100 passes
  | root (a b : α)           -- bracket `(tempAtMinimum, testTemp)` handed to root_scalar
  deriving Repr

/-- the `while` loop; `fuel` = number of passes still allowed (101 initially: `i = 0 … 100` may update, `i = 101` returns) -/
def march (lhs : α → α) (zero m : α) : Nat → α → α → Outcome α
  | 0, a, t => if lhs t < zero then .noSolution else .root a t
  | fuel + 1, a, t => if lhs t < zero then march lhs zero m fuel (a * m) (t * m) else .root a t

def profilePoint (lhs : α → α) (zero tiny up down : α) (Tn Tplus Tminus tmin : α) : Outcome α :=
  if lhs tmin < zero then
    let m := tMultiplier zero tiny up down Tn Tplus Tminus tmin
    march lhs zero m 101 tmin (tmin * m)
  else .minimum tmin                                                  -- python: `if lhs(minRes.x) >= 0`

end

end Model.ProfilePoint
