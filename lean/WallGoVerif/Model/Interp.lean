/-
Hand model of the mutable state of `InterpolatableFunction`
(/repo/src/WallGo/interpolatableFunction.py) and of the provenance of every entry it returns.

Numbers are `Rat`.  Function VALUES are abstract: the model never computes `f`; every returned
entry is a `Tag` saying where the value came from (spline of which table version, direct call of
`_functionImplementation`, boundary value, spline extrapolation).  Non-finiteness of `f` is the
finite list `bad` of abscissae at which `_functionImplementation` returns a non-finite value.

`epoch` is a ghost counter of successful `_interpolate` calls (= version of the CubicSpline
object).  Tags carry the epoch of the spline that produced the value, because an adaptive
update can replace the spline in the middle of one `evaluate`/`derivative` call.

Core Lean only (runs under `lean --run`), all functions total and structurally recursive.
-/
namespace Model.Interp

/-- `EExtrapolationType` -/
inductive Mode | none | error | constant | function
  deriving DecidableEq, Repr

/-- exception classes the Python code raises -/
inductive Err | valueError | assertionError | indexError
  deriving DecidableEq, Repr

/-- provenance of one returned entry.
`spline e x`  : `self._interpolatedFunction(x)` of table version `e`, reached through the
                in-range branch of `evaluate` (rangeMin ≤ x ≤ rangeMax of that table);
`direct x`    : `_functionImplementation` called at `x`;
`constLo e`   : spline `e` evaluated at its `_rangeMin` (mode CONSTANT, lower side);
`constHi e`   : spline `e` evaluated at its `_rangeMax` (mode CONSTANT, upper side);
`extrap e x`  : spline `e` (built with `extrapolate=True`) called at `x` by the FUNCTION branch;
`uninit`      : an `np.empty` slot that no branch wrote (unreachable, see `Props.C18`). -/
inductive Tag
  | spline (e : Nat) (x : Rat)
  | direct (x : Rat)
  | constLo (e : Nat)
  | constHi (e : Nat)
  | extrap (e : Nat) (x : Rat)
  | uninit
  deriving DecidableEq, Repr

/-- one entry of `derivative`: the `d`-th derivative spline of table version `e` at `x`, or the
finite-difference combination of the listed stencil values (stencil order). -/
inductive DTag
  | splineDeriv (e : Nat) (d : Nat) (x : Rat)
  | fd (ts : List Tag)
  deriving DecidableEq, Repr

structure State where
  k : Nat                 -- _RETURN_VALUE_COUNT
  hasTable : Bool         -- hasattr(self, "_interpolatedFunction")
  pts : List Rat          -- _interpolationPoints
  lo : Mode               -- extrapolationTypeLower
  hi : Mode               -- extrapolationTypeUpper
  adaptive : Bool         -- _bUseAdaptiveInterpolation
  pending : List Rat      -- _directlyEvaluatedAt
  count : Nat             -- _directEvaluateCount
  threshold : Nat         -- _evaluationsUntilAdaptiveUpdate
  initialCount : Nat      -- _initialInterpolationPointCount
  bad : List Rat          -- where _functionImplementation is non-finite
  epoch : Nat             -- ghost: number of successful _interpolate calls
  deriving DecidableEq, Repr

/-- `InterpolatableFunction()` with the Python defaults. -/
def init : State :=
  { k := 1, hasTable := false, pts := [], lo := .none, hi := .none, adaptive := true,
    pending := [], count := 0, threshold := 500, initialCount := 1000, bad := [], epoch := 0 }

inductive Op
  | new (k : Nat) (adaptive : Bool) (threshold initialCount : Nat)
  | setBad (xs : List Rat)
  | table (xmin xmax : Rat) (n : Nat)
  | tablevals (xs : List Rat)
  | modes (lo hi : Mode)
  | setAdaptive (b : Bool)
  | eval (useInterp : Bool) (xs : List Rat)
  | deriv (useInterp : Bool) (order : Nat) (xd : List (Rat × Rat))   -- (x, dx) per entry
  | extend (newMin newMax : Rat) (pMin pMax : Nat)
  | reread
  | get
  deriving Repr

inductive Out
  | ok
  | error (e : Err)
  | tags (ts : List Tag)
  | dtags (ds : List DTag)
  deriving DecidableEq, Repr

/-! ### tables -/

/-- CubicSpline's "strictly increasing" check. -/
def sortedB : List Rat → Bool
  | [] => true
  | [_] => true
  | a :: b :: t => decide (a < b) && sortedB (b :: t)

/-- `_rangeMin = np.min(xFiltered)`; the spline constructor succeeded, so the array is increasing
and the minimum is the first element (`Props.C18.rangeMin_le`). -/
def rangeMin (s : State) : Rat := s.pts.head?.getD 0
/-- `_rangeMax = np.max(xFiltered)` = last element. -/
def rangeMax (s : State) : Rat := s.pts.getLast?.getD 0

/-- `_dropBadPoints` applied to freshly evaluated abscissae: keep those where `f` is finite. -/
def keep (s : State) (xs : List Rat) : List Rat := xs.filter (fun x => decide (x ∉ s.bad))

/-- `_interpolate` on already filtered abscissae: `CubicSpline(...)` is constructed BEFORE any
field is assigned and raises ValueError unless there are ≥ 2 strictly increasing abscissae. -/
def interpolate (s : State) (xs : List Rat) : Option State :=
  if 2 ≤ xs.length ∧ sortedB xs = true then
    some { s with hasTable := true, pts := xs, epoch := s.epoch + 1 }
  else none

/-- `np.linspace(a, b, n)` -/
def linspace (a b : Rat) (n : Nat) : List Rat :=
  if n = 1 then [a]
  else (List.range n).map (fun (i : Nat) => a + (i : Rat) * ((b - a) / ((n - 1 : Nat) : Rat)))

/-- `np.arange(newMin, rangeMin, |rangeMin-newMin|/p)` (p points), or empty. -/
def belowBlock (newMin rmin : Rat) (p : Nat) : List Rat :=
  if newMin < rmin ∧ 0 < p then
    (List.range p).map (fun (i : Nat) => newMin + (i : Rat) * ((rmin - newMin) / (p : Rat)))
  else []

/-- `np.arange(rangeMax+sp, newMax+sp, sp)` with `sp = |newMax-rangeMax|/p` (p points), or empty. -/
def aboveBlock (newMax rmax : Rat) (p : Nat) : List Rat :=
  if rmax < newMax ∧ 0 < p then
    (List.range p).map (fun (i : Nat) => (rmax + (newMax - rmax) / (p : Rat)) + (i : Rat) * ((newMax - rmax) / (p : Rat)))
  else []

/-- the abscissae `extendInterpolationTable` hands to `_interpolate` when a table exists
(before dropping non-finite points). -/
def extendCandidates (s : State) (newMin newMax : Rat) (pMin pMax : Nat) : List Rat :=
  belowBlock newMin (rangeMin s) pMin ++ s.pts ++ aboveBlock newMax (rangeMax s) pMax

/-- what survives `_dropBadPoints`: the stored values of the old table are finite, the new ones
are finite iff the abscissa is not in `bad`. -/
def extendKept (s : State) (newMin newMax : Rat) (pMin pMax : Nat) : List Rat :=
  keep s (belowBlock newMin (rangeMin s) pMin) ++ s.pts ++ keep s (aboveBlock newMax (rangeMax s) pMax)

/-- `extendInterpolationTable` -/
def extendTable (s : State) (newMin newMax : Rat) (pMin pMax : Nat) : State × Option Err :=
  if s.hasTable = false then
    -- newInterpolationTable(newMin, newMax, pMin+pMax); return   (no adaptive reset here)
    match interpolate s (keep s (linspace newMin newMax (pMin + pMax))) with
    | some s' => (s', none)
    | none => (s, some .valueError)
  else
    match interpolate s (extendKept s newMin newMax pMin pMax) with
    | none => (s, some .valueError)
    | some s' =>
      -- "hacky reset": disable + enable
      (if s'.adaptive = true then { s' with count := 0, pending := [] } else s', none)

/-! ### scheduling for adaptive interpolation -/

def insertU (x : Rat) : List Rat → List Rat
  | [] => [x]
  | y :: t => if x < y then x :: y :: t else if x = y then y :: t else y :: insertU x t

/-- `np.unique` : sorted, duplicates removed -/
def uniq (l : List Rat) : List Rat := l.foldr insertU []

def lmin : Rat → List Rat → Rat
  | m, [] => m
  | m, x :: t => lmin (if x < m then x else m) t
def lmax : Rat → List Rat → Rat
  | m, [] => m
  | m, x :: t => lmax (if m < x then x else m) t
def minOf : List Rat → Rat | [] => 0 | x :: t => lmin x t
def maxOf : List Rat → Rat | [] => 0 | x :: t => lmax x t

/-- `_adaptiveInterpolationUpdate` -/
def adaptiveUpdate (s : State) : State × Option Err :=
  extendTable { s with count := 0, pending := [] } (minOf s.pending) (maxOf s.pending)
    (if s.hasTable = true then s.initialCount / 5 else s.initialCount / 2)
    (if s.hasTable = true then s.initialCount / 5 else s.initialCount / 2)

/-- the side effect of `_evaluateDirectly(x)` : `scheduleForInterpolation(x, f(x))` if adaptive. -/
def schedule (s : State) (xs : List Rat) : State × Option Err :=
  if s.adaptive = false then (s, none)
  else if (uniq (keep s xs)).isEmpty = true then (s, none)
  else if s.threshold ≤ s.count + (uniq (keep s xs)).length then
    adaptiveUpdate { s with count := s.count + (uniq (keep s xs)).length,
                            pending := s.pending ++ uniq (keep s xs) }
  else ({ s with count := s.count + (uniq (keep s xs)).length,
                 pending := s.pending ++ uniq (keep s xs) }, none)

/-! ### evaluate -/

/-- `canInterpolateCondition` of `_findInterpolatablePoints` -/
def inside (rmin rmax x : Rat) : Bool := decide (x ≤ rmax) && decide (rmin ≤ x)

/-- lower block of `_evaluateOutOfBounds` on the points with `x ≤ rangeMin` -/
def sideLower (s : State) (xsLow : List Rat) : State × Option Err :=
  if xsLow.isEmpty = true then (s, none)
  else match s.lo with
    | .error => (s, some .valueError)
    | .none => schedule s xsLow
    | _ => (s, none)

/-- upper block of `_evaluateOutOfBounds` on the points with `x ≥ rangeMax` -/
def sideUpper (s : State) (xsUp : List Rat) : State × Option Err :=
  if xsUp.isEmpty = true then (s, none)
  else match s.hi with
    | .error => (s, some .valueError)
    | .none => schedule s xsUp
    | _ => (s, none)

/-- entry written by the mixed-mode branch of `_evaluateOutOfBounds`; `e0`/`e1` are the table
versions current when the lower / upper block runs, `rmin`,`rmax` the range that defined the masks
(the upper block runs second and overwrites). -/
def oobTag (lo hi : Mode) (rmin rmax : Rat) (e0 e1 : Nat) (x : Rat) : Tag :=
  if rmax ≤ x then
    match hi with
    | .none => .direct x | .constant => .constHi e1 | .function => .extrap e1 x | .error => .uninit
  else if x ≤ rmin then
    match lo with
    | .none => .direct x | .constant => .constLo e0 | .function => .extrap e0 x | .error => .uninit
  else .uninit

structure EvalRes where
  st : State
  err : Option Err
  tag : Rat → Tag       -- provenance of the entry whose abscissa is x (meaningful if err = none)

/-- `xEvaluateRegion` : the entries outside `[rangeMin, rangeMax]` -/
def outPts (s : State) (xs : List Rat) : List Rat :=
  xs.filter (fun x => !inside (rangeMin s) (rangeMax s) x)
/-- `x[xLower]` in `_evaluateOutOfBounds` -/
def lowPts (s : State) (xs : List Rat) : List Rat :=
  (outPts s xs).filter (fun x => decide (x ≤ rangeMin s))
/-- `x[xUpper]` in `_evaluateOutOfBounds` -/
def upPts (s : State) (xs : List Rat) : List Rat :=
  (outPts s xs).filter (fun x => decide (rangeMax s ≤ x))

/-- entry written by `evaluate` when the mixed-mode branch of `_evaluateOutOfBounds` ran; `e1` is the
table version current when the upper block ran -/
def tagWith (s : State) (e1 : Nat) (x : Rat) : Tag :=
  if inside (rangeMin s) (rangeMax s) x = true then .spline s.epoch x
  else oobTag s.lo s.hi (rangeMin s) (rangeMax s) s.epoch e1 x

/-- `evaluate(x, bUseInterpolatedValues)` on the flattened input -/
def evalRun (s : State) (useInterp : Bool) (xs : List Rat) : EvalRes :=
  if useInterp = false ∨ s.hasTable = false then
    ⟨(schedule s xs).1, (schedule s xs).2, Tag.direct⟩
  else if (outPts s xs).isEmpty = true then
    ⟨s, none, fun x => .spline s.epoch x⟩
  else if s.lo = .error ∧ s.hi = .error then
    ⟨s, some .valueError, fun _ => .uninit⟩
  else if s.lo = .none ∧ s.hi = .none then
    ⟨(schedule s (outPts s xs)).1, (schedule s (outPts s xs)).2,
     fun x => if inside (rangeMin s) (rangeMax s) x = true then .spline s.epoch x else .direct x⟩
  else
    -- lower block first (may schedule points and even trigger an adaptive update), then upper block
    match (sideLower s (lowPts s xs)).2 with
    | some e => ⟨(sideLower s (lowPts s xs)).1, some e, fun _ => .uninit⟩
    | none =>
      ⟨(sideUpper (sideLower s (lowPts s xs)).1 (upPts s xs)).1,
       (sideUpper (sideLower s (lowPts s xs)).1 (upPts s xs)).2,
       tagWith s (sideLower s (lowPts s xs)).1.epoch⟩

/-! ### derivative -/

/-- central stencil (row 0 of FIRST_/SECOND_DERIV_POS["4"]); `bounds=None` so always this row. -/
def stencil (order : Nat) : List Int := if order = 1 then [-2, -1, 1, 2] else [-2, -1, 0, 1, 2]

def stencilPos (order : Nat) (x dx : Rat) : List Rat := (stencil order).map (fun (p : Int) => x + (p : Rat) * dx)

/-- `pos` of `helpers.derivative`, shape (npts, nEntries), flattened in C order. -/
def posArray (order : Nat) (xd : List (Rat × Rat)) : List Rat :=
  (stencil order).flatMap (fun (p : Int) => xd.map (fun e => e.1 + (p : Rat) * e.2))

/-- `helpers.derivative(self._evaluateDirectly, x, n=order)`; `f(pos)` is called TWICE for n ≥ 1. -/
def derivDirect (s : State) (order : Nat) (xd : List (Rat × Rat)) : State × Out :=
  if 2 < order then (s, .error .assertionError)
  else if order = 0 then
    match schedule s (xd.map (·.1)) with
    | (s1, some e) => (s1, .error e)
    | (s1, none) => (s1, .dtags (xd.map (fun e => .fd [.direct e.1])))
  else
    match schedule s (posArray order xd) with
    | (s1, some e) => (s1, .error e)
    | (s1, none) =>
      match schedule s1 (posArray order xd) with
      | (s2, some e) => (s2, .error e)
      | (s2, none) => (s2, .dtags (xd.map (fun e => .fd ((stencilPos order e.1 e.2).map .direct))))

/-- entry is inside the table range (`canInterpolateCondition` of `derivative`) -/
def insideE (s : State) (e : Rat × Rat) : Bool := inside (rangeMin s) (rangeMax s) e.1

/-- `_interpolatedDerivatives[order - 1]` : order 1 → 1st, order 2 → 2nd, order 0 → index -1 = 2nd -/
def derivIdx (order : Nat) : Nat := if order = 0 then 2 else order

/-- `xEvaluateRegion` of `derivative` (with the per-entry dx) -/
def derivOut (s : State) (xd : List (Rat × Rat)) : List (Rat × Rat) := xd.filter (fun e => !insideE s e)

/-- `derivative(x, order, bUseInterpolation)`.  Outside entries go through
`helpers.derivative(self.evaluate, xOut, n=order)`, which calls `evaluate(pos)` TWICE (n ≥ 1; the
returned values are those of the second call) or is `evaluate(xOut)` itself (n = 0). -/
def derivRun (s : State) (useInterp : Bool) (order : Nat) (xd : List (Rat × Rat)) : State × Out :=
  if useInterp = false ∨ s.hasTable = false ∨ 2 < order then derivDirect s order xd
  else if (derivOut s xd).isEmpty = true then
    (s, .dtags (xd.map (fun e => .splineDeriv s.epoch (derivIdx order) e.1)))
  else if order = 0 then
    match (evalRun s true ((derivOut s xd).map (·.1))).err with
    | some e => ((evalRun s true ((derivOut s xd).map (·.1))).st, .error e)
    | none => ((evalRun s true ((derivOut s xd).map (·.1))).st, .dtags (xd.map (fun e =>
        if insideE s e = true then .splineDeriv s.epoch (derivIdx order) e.1
        else .fd [(evalRun s true ((derivOut s xd).map (·.1))).tag e.1])))
  else
    match (evalRun s true (posArray order (derivOut s xd))).err with
    | some e => ((evalRun s true (posArray order (derivOut s xd))).st, .error e)
    | none =>
      match (evalRun (evalRun s true (posArray order (derivOut s xd))).st true
              (posArray order (derivOut s xd))).err with
      | some e => ((evalRun (evalRun s true (posArray order (derivOut s xd))).st true
                      (posArray order (derivOut s xd))).st, .error e)
      | none => ((evalRun (evalRun s true (posArray order (derivOut s xd))).st true
                      (posArray order (derivOut s xd))).st,
                 .dtags (xd.map (fun e =>
                    if insideE s e = true then .splineDeriv s.epoch (derivIdx order) e.1
                    else .fd ((stencilPos order e.1 e.2).map
                      (evalRun (evalRun s true (posArray order (derivOut s xd))).st true
                        (posArray order (derivOut s xd))).tag))))

/-! ### the step function -/

def ofInterp (s : State) : Option State → State × Out
  | some s' => (s', .ok)
  | none => (s, .error .valueError)

def step (s : State) : Op → State × Out
  | .new k a t n =>
      if k = 0 then (s, .error .assertionError)
      else ({ k := k, hasTable := false, pts := [], lo := .none, hi := .none, adaptive := a,
              pending := [], count := 0, threshold := t, initialCount := n, bad := [], epoch := 0 }, .ok)
  | .setBad xs => ({ s with bad := xs }, .ok)
  | .table a b n => ofInterp s (interpolate s (keep s (linspace a b n)))
  | .tablevals xs => ofInterp s (interpolate s (keep s xs))
  | .modes lo hi =>
      -- the modes are assigned first; the table (stored finite values) is rebuilt afterwards
      if s.hasTable = true then
        ofInterp { s with lo := lo, hi := hi } (interpolate { s with lo := lo, hi := hi } s.pts)
      else ({ s with lo := lo, hi := hi }, .ok)
  | .setAdaptive b =>
      if b = true then ({ s with adaptive := true, count := 0, pending := [] }, .ok)
      else ({ s with adaptive := false }, .ok)
  | .eval u xs =>
      match (evalRun s u xs).err with
      | some e => ((evalRun s u xs).st, .error e)
      | none => ((evalRun s u xs).st, .tags (xs.map (evalRun s u xs).tag))
  | .deriv u order xd => derivRun s u order xd
  | .extend a b p q =>
      match extendTable s a b p q with
      | (s', some e) => (s', .error e)
      | (s', none) => (s', .ok)
  | .reread =>
      -- write + read of an object without table: np.genfromtxt gives a 1-d empty array → IndexError
      if s.hasTable = false then (s, .error .indexError)
      else ofInterp s (interpolate s s.pts)
  | .get => (s, .ok)

def run (s : State) (ops : List Op) : State := ops.foldl (fun s op => (step s op).1) s

/-- outputs of a history, for tests -/
def runOut : State → List Op → List Out
  | _, [] => []
  | s, op :: ops => (step s op).2 :: runOut (step s op).1 ops

end Model.Interp
