/-
Hand model of the decision logic of `Hydrodynamics.findvwLTE` (src/WallGo/hydrodynamics.py): which of the two sentinels or
which bracketed root is returned.

Physics and numerical tools are parameters:
* `mtch vw = (vp, Tp, ok)`: what `matchDeflagOrHyb(vw)` returns for `v₊`, `T₊`, and the value it leaves in `self.success`;
* `shockTn vw vp Tp`: `solveHydroShock(vw, vp, Tp)`, the temperature ahead of the shock;
* `csqHigh T`: `thermodynamics.csqHighT(T)`;
* `rootS a b`: `.root` of `root_scalar(shock, bracket=[a, b])`, `none` = `ValueError` (no sign change);
* `rootD a b`: `.root` of the final `root_scalar(shockTnuclDiff, bracket=(a, b))`.
Modelled: `shock(vw) = v₊·vw − cs₊²(T₊)` (sound speed at `T₊`, not at `Tn`), `shockTnuclDiff(vw) = Tn(shock) − Tn`, the window
`[vMin, vJ − 1e-10]`, its reduction to where the shock front is ahead of the wall (`root − 1e-6`), the runaway sentinel `1`
(no shock / mismatch positive at the top / last matching not converged), the static sentinel `0` (mismatch negative at `vMin`),
and the final bracket.  `self.success` is read after `shockTnuclDiff(vmax)`, i.e. it is the flag of the matching at `vmax`.
Polymorphic in the number type; core Lean only.
-/
namespace Model.LTE

section
variable {α : Type} [Sub α] [Mul α] [LT α] [DecidableRel (α := α) (· < ·)]

structure Phys (α : Type) where
  mtch : α → α × α × Bool
  shockTn : α → α → α → α
  csqHigh : α → α

structure Oracles (α : Type) where
  rootS : α → α → Option α
  rootD : α → α → α

/-- `shock(vw)` -/
def shock (P : Phys α) (vw : α) : α :=
  let r := P.mtch vw
  r.1 * vw - P.csqHigh r.2.1

/-- `shockTnuclDiff(vw)` -/
def diff (P : Phys α) (Tn vw : α) : α :=
  let r := P.mtch vw
  P.shockTn vw r.1 r.2.1 - Tn

inductive Outcome (α : Type) where
  | runaway          -- `return 1`
  | static           -- `return 0`
  | root (a b : α) (v : α)   -- final bracket `(vmin, vmax)` and the root returned
  deriving Repr

/-- upper end of the window after lines "if shock(vmax) > 0"; `sqrtCs` is `csqHighT(Tn) ** 0.5`; `none` = early `return 1` -/
def vmaxOf (P : Phys α) (O : Oracles α) (zero d10 d6 : α) (vJ sqrtCs : α) : Option α :=
  if zero < shock P (vJ - d10) then (O.rootS sqrtCs vJ).map (fun r => r - d6) else some (vJ - d10)

def findvwLTE (P : Phys α) (O : Oracles α) (zero d10 d6 : α) (Tn vMin vJ sqrtCs : α) : Outcome α :=
  match vmaxOf P O zero d10 d6 vJ sqrtCs with
  | none => .runaway
  | some vmax =>
    if zero < diff P Tn vmax ∨ (P.mtch vmax).2.2 = false then .runaway
    else if diff P Tn vMin < zero then .static
    else .root vMin vmax (O.rootD vMin vmax)

end

end Model.LTE
