/-
Vocabulary used by the GENERATED real-number copy of WallGo's formulas (`Gen/R`).
Only definitions; the lemmas about them live in `Lemmas/`.
-/
import Mathlib.Analysis.SpecialFunctions.Pow.Real
import Mathlib.Analysis.SpecialFunctions.Artanh
import Mathlib.Analysis.SpecialFunctions.Trigonometric.Arctan
import Mathlib.Analysis.SpecialFunctions.Trigonometric.DerivHyp

namespace WG.R

/-- numpy's `np.arctanh(y + 0j).real`: for real `y ≠ ±1` this is `½·log|(1+y)/(1-y)|`
(Mathlib's `Real.log` is `log |·|`). -/
noncomputable def rartanh (y : ℝ) : ℝ := Real.log ((1 + y) / (1 - y)) / 2

/-- `np.arctanh` on real input. -/
noncomputable def artanh (y : ℝ) : ℝ := Real.artanh y

/-- Python `pow(a, b)` / `a ** b` with non-literal or non-integer exponent. -/
noncomputable def rpow (a b : ℝ) : ℝ := Real.rpow a b

/-- Python's builtin `min(a, b)` (returns `b` only when `b < a`). -/
noncomputable def pmin (a b : ℝ) : ℝ := if b < a then b else a
/-- Python's builtin `max(a, b)` (returns `b` only when `b > a`). -/
noncomputable def pmax (a b : ℝ) : ℝ := if b > a then b else a

theorem pmin_eq_min (a b : ℝ) : pmin a b = min a b := by
  unfold pmin; split_ifs with h
  · exact (min_eq_right h.le).symm
  · exact (min_eq_left (not_lt.mp h)).symm

theorem pmax_eq_max (a b : ℝ) : pmax a b = max a b := by
  unfold pmax; split_ifs with h
  · exact (max_eq_right (le_of_lt h)).symm
  · exact (max_eq_left (not_lt.mp h)).symm

noncomputable def sign (x : ℝ) : ℝ := if x < 0 then -1 else if x > 0 then 1 else 0

end WG.R
