/-
Vocabulary used by the GENERATED executable `Float` copy of WallGo's formulas (`Gen/F`).
No Mathlib: this file and everything in `Gen/F` and `Model` must run under `lean --run`.
-/
namespace WG.F

def rartanh (y : Float) : Float := Float.log (Float.abs ((1 + y) / (1 - y))) / 2
def artanh (y : Float) : Float := Float.atanh y
def rpow (a b : Float) : Float := Float.pow a b
def npow (a : Float) (n : Nat) : Float := Float.pow a n.toFloat
def pmin (a b : Float) : Float := if b < a then b else a
def pmax (a b : Float) : Float := if b > a then b else a
def sign (x : Float) : Float := if x < 0 then -1 else if x > 0 then 1 else 0
def pi : Float := 3.141592653589793

/-- closed-form test family used to instantiate function-valued parameters during
translator validation: `c₀ + c₁·x + c₂·x² + c₃/(1+x²)` (evaluated in this order). -/
def fam (c : Array Float) (o : Nat) (x : Float) : Float :=
  c[o]! + c[o+1]! * x + c[o+2]! * x * x + c[o+3]! / (1 + x * x)

end WG.F
