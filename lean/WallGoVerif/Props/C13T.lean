/-
Property C13, clause "The out-of-equilibrium energy-momentum components assembled from the moments equal the direct momentum
integral of p^μ p^ν times the deviation, boosted to the wall frame."

Statements are about the hand model `Model.EOM.deltaToTmunu` of `EOM.deltaToTmunu` (src/WallGo/equationOfMotion.py) at `α := ℝ`,
tied to the real method by the Float correspondence run by the C13 check (1, 2 and 3 particle species).  In the plasma frame the
momentum integral of `p^μ p^ν δf` over `d³p/((2π)³E)` has the components `T⁰⁰ = Δ20`, `T⁰³ = Δ11`, `T³³ = Δ02`,
`T¹¹ = T²² = ½(Δ20 − Δ02 − m²Δ00)` (`p_⊥² = E² − p_z² − m²`): this is `Lemmas.EOM.Tplasma`, with the four moments of Props.C13.
Only property theorems and non-vacuity examples; helpers are in `Lemmas/EOM.lean`.
-/
import WallGoVerif.Lemmas.EOM

namespace Props.C13T

open Model.EOM Lemmas.EOM

/-- **T13.T1** For `|v| < 1` the two numbers returned by `deltaToTmunu` are the wall-frame `30` and `33` components of the
boosted plasma-frame momentum integral `Λ T_pl Λᵀ`, summed over ALL particle species, each with its own number of degrees of
freedom and its own vacuum mass (lists of any length). -/
theorem tmunu_is_boosted_momentum_integral {v : ℝ} (hv : |v| < 1) (ps : List (PDelta ℝ)) :
    deltaToTmunu Real.sqrt 0 1 2 3 4 v ps =
      ((ps.map (fun p => p.dofs * (boost v * Tplasma p * (boost v).transpose) 3 0)).sum,
       (ps.map (fun p => p.dofs * (boost v * Tplasma p * (boost v).transpose) 3 3)).sum) := by
  rw [deltaToTmunu_eq]
  have e1 : t30One v = fun p => p.dofs * (boost v * Tplasma p * (boost v).transpose) 3 0 :=
    funext fun p => (t30One_eq v p).trans (TmunuOut_eq_boost p hv 1 0)
  have e2 : t33One v = fun p => p.dofs * (boost v * Tplasma p * (boost v).transpose) 3 3 :=
    funext fun p => (t33One_eq v p).trans (TmunuOut_eq_boost p hv 1 1)
  rw [e1, e2]

example : ∃ (v : ℝ) (ps : List (PDelta ℝ)), |v| < 1 ∧ ps.length = 2 :=
  ⟨3 / 5, [⟨2, 1, 1, 2, 3, 1 / 2⟩, ⟨12, 0, 1, 1, 2, 0⟩], by rw [abs_of_pos (by norm_num)]; norm_num, rfl⟩

/-- **T13.T2** Species do not mix: the result for several species is the sum of the results of each species alone (in particular the
trace term of species `i` carries the mass of species `i` only). -/
theorem tmunu_species_do_not_mix (v : ℝ) (p : PDelta ℝ) (ps : List (PDelta ℝ)) :
    deltaToTmunu Real.sqrt 0 1 2 3 4 v (p :: ps) =
      deltaToTmunu Real.sqrt 0 1 2 3 4 v [p] + deltaToTmunu Real.sqrt 0 1 2 3 4 v ps := by
  simp only [deltaToTmunu_eq, List.map_cons, List.map_nil, List.sum_cons, List.sum_nil, add_zero, Prod.mk_add_mk]

/-- Changing the mass of ANOTHER species does not change the contribution of a species: two-species instance of T13.T2. -/
theorem tmunu_other_mass_irrelevant (v : ℝ) (p q q' : PDelta ℝ)
    (h : deltaToTmunu Real.sqrt 0 1 2 3 4 v [q] = deltaToTmunu Real.sqrt 0 1 2 3 4 v [q']) :
    deltaToTmunu Real.sqrt 0 1 2 3 4 v [p, q] = deltaToTmunu Real.sqrt 0 1 2 3 4 v [p, q'] := by
  rw [tmunu_species_do_not_mix v p [q], tmunu_species_do_not_mix v p [q'], h]

example : ∃ (v : ℝ) (q q' : PDelta ℝ), q ≠ q' ∧
    deltaToTmunu Real.sqrt 0 1 2 3 4 v [q] = deltaToTmunu Real.sqrt 0 1 2 3 4 v [q'] :=
  ⟨0, ⟨0, 1, 0, 0, 0, 0⟩, ⟨0, 2, 0, 0, 0, 0⟩, by simp, by simp [deltaToTmunu_eq, t30One, t33One]⟩

end Props.C13T
