/-
Property C13, clause "The out-of-equilibrium energy-momentum components assembled from the moments equal the direct momentum
integral of p^μ p^ν times the deviation, boosted to the wall frame."

Statements are about the hand model `Model.EOM.deltaToTmunu` of `EOM.deltaToTmunu` (src/WallGo/equationOfMotion.py) at `α := ℝ`,
tied to the real method by the Float correspondence run by the C13 check (1, 2 and 3 particle species).  In the plasma frame the
momentum integral of `p^μ p^ν δf` over `d³p/((2π)³E)` has the components `T⁰⁰ = Δ20`, `T⁰³ = Δ11`, `T³³ = Δ02`,
`T¹¹ = T²² = ½(Δ20 − Δ02 − m²Δ00)` (`p_⊥² = E² − p_z² − m²`): this is `Lemmas.EOM.Tplasma`, with the four moments of Props.C13.
Only property theorems and non-vacuity examples; helpers are in `Lemmas/EOM.lean`.
-/
import WallGoVerif.Lemmas.EOM

namespace Props.C13T

open Model.EOM Lemmas.EOM

/-- **T13.T1** For `|v| < 1` the two numbers returned by `deltaToTmunu` are the wall-frame `30` and `33` components of the
boosted plasma-frame momentum integral `Λ T_pl Λᵀ`, summed over ALL particle species, each with its own number of degrees of
freedom and its own vacuum mass (lists of any length). -/
theorem tmunu_is_boosted_momentum_integral {v : ℝ} (hv : |v| < 1) (ps : List (PDelta ℝ)) :
    deltaToTmunu Real.sqrt 0 1 2 3 4 v ps =
      ((ps.map (fun p => p.dofs * (boost v * Tplasma p * (boost v).transpose) 3 0)).sum,
       (ps.map (fun p => p.dofs * (boost v * Tplasma p * (boost v).transpose) 3 3)).sum) := by
  rw [deltaToTmunu_eq]
  have e1 : t30One v = fun p => p.dofs * (boost v * Tplasma p * (boost v).transpose) 3 0 :=
    funext fun p => (t30One_eq v p).trans (TmunuOut_eq_boost p hv 1 0)
  have e2 : t33One v = fun p => p.dofs * (boost v * Tplasma p * (boost v).transpose) 3 3 :=
    funext fun p => (t33One_eq v p).trans (TmunuOut_eq_boost p hv 1 1)
  rw [e1, e2]

example : ∃ (v : ℝ) (ps : List (PDelta ℝ)), |v| < 1 ∧ ps.length = 2 :=
  ⟨3 / 5, [⟨2, 1, 1, 2, 3, 1 / 2⟩, ⟨12, 0, 1, 1, 2, 0⟩], by rw [abs_of_pos (by norm_num)]; norm_num, rfl⟩

/-- **T13.T2** Species do not mix: the result for several species is the sum of the results of each species alone (in particular the
trace term of species `i` carries the mass of species `i` only). -/
theorem tmunu_species_do_not_mix (v : ℝ) (p : PDelta ℝ) (ps : List (PDelta ℝ)) :
    deltaToTmunu Real.sqrt 0 1 2 3 4 v (p :: ps) =
      deltaToTmunu Real.sqrt 0 1 2 3 4 v [p] + deltaToTmunu Real.sqrt 0 1 2 3 4 v ps := by
  simp only [deltaToTmunu_eq, List.map_cons, List.map_nil, List.sum_cons, List.sum_nil, add_zero, Prod.mk_add_mk]

/-- Changing the mass of ANOTHER species does not change the contribution of a species: two-species instance of T13.T2. -/
theorem tmunu_other_mass_irrelevant (v : ℝ) (p q q' : PDelta ℝ)
    (h : deltaToTmunu Real.sqrt 0 1 2 3 4 v [q] = deltaToTmunu Real.sqrt 0 1 2 3 4 v [q']) :
    deltaToTmunu Real.sqrt 0 1 2 3 4 v [p, q] = deltaToTmunu Real.sqrt 0 1 2 3 4 v [p, q'] := by
  rw [tmunu_species_do_not_mix v p [q], tmunu_species_do_not_mix v p [q'], h]

example : ∃ (v : ℝ) (q q' : PDelta ℝ), q ≠ q' ∧
    deltaToTmunu Real.sqrt 0 1 2 3 4 v [q] = deltaToTmunu Real.sqrt 0 1 2 3 4 v [q'] :=
  ⟨0, ⟨0, 1, 0, 0, 0, 0⟩, ⟨0, 2, 0, 0, 0, 0⟩, by simp, by simp [deltaToTmunu_eq, t30One, t33One]⟩

/-- **T13.T3** The zeroth moment and the vacuum mass drop out of `T³⁰` and `T³³`: for `|v| < 1` the result of `deltaToTmunu` is the same
whatever `Δ00` and `m²` of each species are (the `m²Δ00` terms of the trace part cancel against those of the boosted part,
`γ² − γ²v² − 1 = 0`).  Hence `Δ00` carries NO information on whether there is an out-of-equilibrium contribution to the conserved
components (a shortcut "`Δ00 ≡ 0` ⇒ nothing to add" is unsound: T13.T4). -/
theorem tmunu_independent_of_Delta00_and_mass {v : ℝ} (hv : |v| < 1) (ps : List (PDelta ℝ)) (f m : PDelta ℝ → ℝ) :
    deltaToTmunu Real.sqrt 0 1 2 3 4 v (ps.map fun p => { p with d00 := f p, msq := m p }) =
      deltaToTmunu Real.sqrt 0 1 2 3 4 v ps := by
  rw [deltaToTmunu_eq, deltaToTmunu_eq, List.map_map, List.map_map]
  have hg : Real.sqrt (1 / (1 - v * v)) * Real.sqrt (1 / (1 - v * v)) * (1 - v * v) = 1 := gam_mul_self hv
  have e1 : (t30One v ∘ fun p => { p with d00 := f p, msq := m p }) = t30One v := by
    funext p; simp only [Function.comp, t30One]; ring
  have e2 : (t33One v ∘ fun p => { p with d00 := f p, msq := m p }) = t33One v := by
    funext p
    simp only [Function.comp, t33One]
    set g := Real.sqrt (1 / (1 - v * v)) with hgdef
    have hg' : g * g = 1 + g * g * (v * v) := by nlinarith [hg]
    linear_combination (p.dofs * (m p * f p) / 2 - p.dofs * (p.msq * p.d00) / 2) * hg'
  rw [e1, e2]

/-- **T13.T4** A species with `Δ00 = 0` can contribute to both conserved components (witness: `Δ02 = 1`, all other moments zero,
`v = 3/5`): "`Δ00` vanishes" does not mean "no out-of-equilibrium part". -/
theorem Delta00_zero_does_not_mean_equilibrium :
    ∃ (v : ℝ) (p : PDelta ℝ), |v| < 1 ∧ p.d00 = 0 ∧
      (deltaToTmunu Real.sqrt 0 1 2 3 4 v [p]).1 ≠ 0 ∧ (deltaToTmunu Real.sqrt 0 1 2 3 4 v [p]).2 ≠ 0 := by
  refine ⟨3 / 5, ⟨1, 1, 0, 1, 0, 0⟩, by rw [abs_of_pos (by norm_num)]; norm_num, rfl, ?_, ?_⟩
  all_goals
    simp only [deltaToTmunu_eq, List.map_cons, List.map_nil, List.sum_cons, List.sum_nil, add_zero, t30One, t33One]
    have h : Real.sqrt (1 / (1 - (3 / 5 : ℝ) * (3 / 5))) = 5 / 4 := by
      rw [show (1 / (1 - (3 / 5 : ℝ) * (3 / 5))) = (5 / 4) ^ 2 by norm_num]
      exact Real.sqrt_sq (by norm_num)
    rw [h]; norm_num

example : ∃ (v : ℝ) (ps : List (PDelta ℝ)), |v| < 1 ∧ ps ≠ [] ∧ ∃ p ∈ ps, p.d00 ≠ 0 ∧ p.msq ≠ 0 :=
  ⟨1 / 2, [⟨2, 1, 1, 2, 3, 1 / 2⟩], by rw [abs_of_pos (by norm_num)]; norm_num, by simp, ⟨2, 1, 1, 2, 3, 1 / 2⟩, by simp, by norm_num, by norm_num⟩

end Props.C13T
