/-
C17, history clause: "Changing the scales of an existing grid is equivalent to constructing a
new grid with those scales."  Theorems about `Model.GridState` (tied to the real
`Grid3Scales` by harness/props/C17.py, which replays random rescale sequences on one object
and on a freshly constructed one and compares every cached array bitwise).
-/
import WallGoVerif.Model.GridState

namespace Props.C17H
open Model.GridState

/-- Every array cached by `_cacheCoordinates` is a function of `State.p` only; after ANY sequence
of rescaling calls `State.p` equals that of a freshly constructed grid with the final scales. -/
theorem rescale_history_eq_fresh {K : Type} (p : Params K) (ops : List (Op K)) :
    (run (fresh p) ops).p = (fresh (finalParams p ops)).p := rfl

/-- the parameters only depend on the LAST position rescale and the LAST momentum rescale:
stepping is idempotent-by-overwrite (no accumulation over the history). -/
theorem step_overwrites {K : Type} (s : State K) (a b : Op K) :
    (match a, b with
     | .changePosition .., .changePosition .. => (step (step s a) b).p = (step s b).p
     | .changeMomentum .., .changeMomentum .. => (step (step s a) b).p = (step s b).p
     | _, _ => True) := by
  cases a <;> cases b <;> simp [step]

/-- rescaling position and momentum commute. -/
theorem position_momentum_commute {K : Type} (s : State K) (ti to' L c T : K) :
    step (step s (.changePosition ti to' L c)) (.changeMomentum T) =
    step (step s (.changeMomentum T)) (.changePosition ti to' L c) := rfl

/-- ratio and smoothing are never changed by rescaling. -/
theorem ratio_smoothing_invariant {K : Type} (s : State K) (ops : List (Op K)) :
    (run s ops).p.ratio = s.p.ratio ∧ (run s ops).p.smoothing = s.p.smoothing := by
  induction ops generalizing s with
  | nil => exact ⟨rfl, rfl⟩
  | cons o os ih =>
    have := ih (step s o)
    cases o <;> simpa [run, step] using this

/-- KNOWN DEFECT (finding C17-E): `positionFalloff`, read by the inherited `compactify`, is NOT
refreshed by `changePositionFalloffScale`; a fresh grid has `positionFalloff = thickness`. -/
theorem positionFalloff_stale {K : Type} (s : State K) (ops : List (Op K)) :
    (run s ops).positionFalloff = s.positionFalloff := by
  induction ops generalizing s with
  | nil => rfl
  | cons o os ih =>
    have := ih (step s o)
    cases o <;> simpa [run, step] using this

/-- witness that the full state (including `positionFalloff`) is NOT that of a fresh grid once the
thickness was changed: the history clause holds for the decompactification side only. -/
theorem full_state_differs :
    run (fresh (⟨5, 5, 1, 1/2, 1/10, 0, 1⟩ : Params Rat)) [.changePosition 5 5 2 0]
      ≠ fresh (finalParams ⟨5, 5, 1, 1/2, 1/10, 0, 1⟩ [.changePosition 5 5 2 0]) := by
  decide +kernel

example : (run (fresh (⟨5, 5, 1, 1/2, 1/10, 0, 1⟩ : Params Rat))
    [.changePosition 6 7 2 3, .changeMomentum 4, .changePosition 8 9 3 1]).p = ⟨8, 9, 3, 1/2, 1/10, 1, 4⟩ := by
  decide +kernel

end Props.C17H
