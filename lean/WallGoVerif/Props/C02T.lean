/-
Property C02, template-model solver (`HydrodynamicsTemplateModel.findMatching` / `findHydroBoundaries`, listed in the
property's observation points): on an equation of state that IS of template form, the closed forms of the template solver
conserve the energy and momentum flux of that equation of state, for EVERY nucleation temperature and unequal sound speeds.

`q : TPar` are the parameters of a template EOS, `q.hydro : HydroP` is that EOS as seen by the conservation laws, and
`t : TemplP` with `IsTemplateOf t q.hydro` is the state `HydrodynamicsTemplateModel.__init__` computes from it.
All statements are about the GENERATED definitions of `Gen/R/Template.lean` (`findTm`, `deflagTpTm`, `detonationVAndT`,
`tmplBoundaries`).  Only property theorems and non-vacuity examples; helpers are in `Lemmas/Template.lean`.
-/
import WallGoVerif.Lemmas.Template
import WallGoVerif.Lemmas.Hydro

namespace Props.C02T

open Gen.R.Helpers Gen.R.Hydro Gen.R.Template Lemmas.Template Lemmas.Hydro

variable {q : TPar} {t : TemplP}

/-- **T02.T1** `T₋ = _findTm(v₋, v₊, T₊)` of the template solver carries exactly the energy flux of the + side:
`w₊(T₊) γ₊² v₊ = w₋(T₋) γ₋² v₋`, whatever the nucleation temperature and the two exponents `μ`, `ν`.
(C02, clause "equal energy flux", template solver.) -/
theorem template_Tminus_energy_flux (hq : q.WF) (ht : IsTemplateOf t q.hydro) {vp vm Tp : ℝ}
    (hvp : 0 < vp) (hvp1 : vp < 1) (hvm : 0 < vm) (hvm1 : vm < 1) (hTp : 0 ≤ Tp) :
    energyFlux (q.hydro.wHighT Tp) vp = energyFlux (q.hydro.wLowT (findTm t vm vp Tp)) vm :=
  findTm_energyFlux hq ht hvp hvp1 hvm hvm1 hTp

example : ∃ (q : TPar) (t : TemplP) (vp vm Tp : ℝ), q.WF ∧ IsTemplateOf t q.hydro ∧
    0 < vp ∧ vp < 1 ∧ 0 < vm ∧ vm < 1 ∧ 0 ≤ Tp :=
  ⟨q0, t0, 3 / 10, 1 / 2, 1, q0_WF, t0_isTemplate, by norm_num, by norm_num, by norm_num, by norm_num,
    by norm_num⟩

/-- **T02.T2** The quadruple `(v₊, v₋, T₊, T₋)` the template `findMatching` assembles on the deflagration / hybrid
branch (after its root `v₊` is known) conserves the energy flux. -/
theorem template_deflagration_energy_flux (hq : q.WF) (ht : IsTemplateOf t q.hydro) {vp vm : ℝ}
    (hvp : 0 < vp) (hvp1 : vp < 1) (hvm : 0 < vm) (hvm1 : vm < 1)
    (hw : 0 ≤ wFromAlpha t (alphaCode vp vm t.cb2)) :
    let r := deflagTpTm t vm vp
    r.1 = vp ∧ r.2.1 = vm ∧
    energyFlux (q.hydro.wHighT r.2.2.1) vp = energyFlux (q.hydro.wLowT r.2.2.2) vm := by
  intro r
  refine ⟨rfl, rfl, ?_⟩
  have hT : 0 ≤ t.Tnucl * WG.R.rpow (wFromAlpha t (alphaCode vp vm t.cb2)) (1 / t.mu) := by
    rw [Tnucl_eq ht]; exact mul_nonneg hq.Tn_pos.le (Real.rpow_nonneg hw _)
  exact findTm_energyFlux hq ht hvp hvp1 hvm hvm1 hT

example : ∃ (q : TPar) (t : TemplP) (vp vm : ℝ), q.WF ∧ IsTemplateOf t q.hydro ∧ 0 < vp ∧ vp < 1 ∧
    0 < vm ∧ vm < 1 ∧ 0 ≤ wFromAlpha t (alphaCode vp vm t.cb2) := by
  refine ⟨q0, t0, 3 / 10, 1 / 2, q0_WF, t0_isTemplate, by norm_num, by norm_num, by norm_num,
    by norm_num, le_of_lt (wFromAlpha_pos ?_)⟩
  rw [t0_wNum, t0_wDen, t0_cb2]; norm_num [alphaCode]

/-- **T02.T3** The template detonation `(vw, v₋, Tn, T₋)` conserves BOTH fluxes of the template equation of state,
exactly (`Conservation` of `Lemmas.Hydro`: energy flux and momentum flux agree on the two sides). -/
theorem template_detonation_conservation (hq : q.WF) (ht : IsTemplateOf t q.hydro) (hnu : 2 < q.nu)
    (hal : 0 ≤ t.alN) {vw : ℝ} (hJ : t.vJ ≤ vw) (hvw1 : vw < 1) :
    let r := detonationVAndT t vw
    Conservation q.hydro r.1 r.2.1 r.2.2.1 r.2.2.2 := by
  obtain ⟨hvw0, hd, hge, hlt⟩ := det_side_conditions hq ht hnu hal hJ hvw1
  obtain ⟨hsq, hpos, -, h0, -, -⟩ := template_cb_facts hq ht hnu
  have hvm0 : 0 < detVm t vw := lt_of_lt_of_le hpos hge
  rw [detonationVAndT_eq]
  simp only [Conservation, energyFlux, momentumFlux]
  rw [Tnucl_eq ht]
  have E := findTm_energyFlux hq ht hvw0 hvw1 hvm0 hlt hq.Tn_pos.le
  have h1 : 1 - vw ^ 2 ≠ 0 := by nlinarith
  have h2 : 1 - detVm t vw ^ 2 ≠ 0 := by nlinarith
  refine ⟨E, (momentum_iff_alpha hq ht h1 hvm0.ne' h2 hq.Tn_pos E).mpr ?_⟩
  rw [alphaAt_Tn ht]
  exact (detQuad_iff_alpha hvm0.ne' h0.ne' h1).mp (detVm_root hvw0.ne' hd)

example : ∃ (q : TPar) (t : TemplP) (vw : ℝ), q.WF ∧ IsTemplateOf t q.hydro ∧ 2 < q.nu ∧ 0 < t.alN ∧
    t.vJ ≤ vw ∧ vw < 1 :=
  ⟨q0, t0, (t0.vJ + 1) / 2, q0_WF, t0_isTemplate, by norm_num [q0], by rw [t0_alN]; norm_num,
    by linarith [t0_vJ_lt_one], by linarith [t0_vJ_lt_one]⟩

/-- **T02.T4** The boundary constants the template `findHydroBoundaries` hands to the wall equations are the fluxes of the
template equation of state on the + side, with the documented sign convention: `c1 = −w₊γ₊²v₊`, `c2 = w₊γ₊²v₊² + p₊`,
`velocityMid = −(v₊+v₋)/2`.  (With T02.T1–T3 they equal the fluxes on the − side as well.) -/
theorem template_boundary_constants (hq : q.WF) (ht : IsTemplateOf t q.hydro) (vp vm : ℝ) {Tp : ℝ}
    (hTp : 0 ≤ Tp) (Tm : ℝ) :
    (tmplBoundaries t vp vm Tp Tm).1 = -energyFlux (q.hydro.wHighT Tp) vp ∧
    (tmplBoundaries t vp vm Tp Tm).2.1 = momentumFlux (q.hydro.wHighT Tp) (q.hydro.pHighT Tp) vp ∧
    (tmplBoundaries t vp vm Tp Tm).2.2.2.2 = -(vp + vm) / 2 := by
  simp only [tmplBoundaries, energyFlux, momentumFlux]
  rw [wH_scale hq ht hTp, pH_scale hq ht hTp]
  unfold gammaSq
  refine ⟨?_, ?_, ?_⟩
  · simp only [pow_two, div_eq_mul_inv]; ring
  · simp only [pow_two, div_eq_mul_inv]; ring
  · ring

example : ∃ (q : TPar) (t : TemplP) (Tp : ℝ), q.WF ∧ IsTemplateOf t q.hydro ∧ 0 ≤ Tp :=
  ⟨q0, t0, 1, q0_WF, t0_isTemplate, by norm_num⟩

end Props.C02T
