/-
C06W — the velocity window cut by the tabulated temperature ranges: `Hydrodynamics.fastestDeflag` and
`Hydrodynamics.slowestDeton` (hydrodynamics.py:176-275).

`Model.Window.fastestDeflag`, `Model.Window.slowestDeton` are hand models of the two methods (executed against the
real methods with scripted stubs: exact agreement).  Here they are reasoned about over `ℝ` (`zero := 0`, `one := 1`).

Reading guide.  `tp vw`, `tm vw` are `T₊`, `T₋` of `findMatching(vw)`; `vJ`, `vMin`, `vLow = vBracketLow`,
`tMaxLow = TMaxLowT`, `tMaxHigh = TMaxHighT`; `endLow`, `endHigh` are `freeEnergyLow/High.maxPossibleTemperature[1]`
("the table ends because the phase genuinely disappears").  `root f a b` is the value of
`root_scalar(f, bracket=[a,b], method="brentq").root` when it does not raise; `brentq` raises `ValueError` exactly
when `f a * f b > 0`.
* `R` = result of `fastestDeflag`: `R.vmax` the returned velocity; `R.setLow`, `R.setHigh` what happens to
  `doesPhaseTraceLimitvmax[1]` (low-T phase) and `[0]` (high-T phase): `none` = left as it was, `some b` = set to `b`;
* `A = vMin + vLow`, `B = vJ - vLow` the ends of the bracket; `Early` the condition of the early return (line 194);
* `PL = (tm A - tMaxLow) * (tm B - tMaxLow)`, `PH` likewise for `tp`, `tMaxHigh`: the end products that decide
  whether `brentq` raises; `C1 = root (tm · - tMaxLow) A B`, `C2 = root (tp · - tMaxHigh) A B` the two roots;
* `S` = result of `slowestDeton` with `d = 1e-4`, `pad = 0.01` kept symbolic; `PD`, `CD` its end product and root.

The contract of the root finder is `Lemmas.Window.RootOKOn root f`, for the particular function `f` handed to it:
on an ordered bracket with `f a * f b ≤ 0` the result lies in the bracket and is an exact zero of `f`.  (The same
contract demanded of *all* functions is unsatisfiable — `Lemmas.Window.not_rootOK` — and for all continuous functions
it is satisfiable — `Lemmas.Window.exists_rootOKCont`, `RootOKCont.on_sub` gives `RootOKOn` for `tm · - c`.)
The examples use `Lemmas.Window.secant`, which is exact on affine functions.
-/
import Mathlib.Tactic
import Mathlib.Data.Real.Basic
import WallGoVerif.Model.Window
import WallGoVerif.Lemmas.Window

namespace Props.C06W

open Model.Window Lemmas.Window

variable (tp tm : ℝ → ℝ) (root : (ℝ → ℝ) → ℝ → ℝ → ℝ) (vJ vMin vLow tMaxLow tMaxHigh : ℝ) (endLow endHigh : Bool)
variable (d pad : ℝ)

local notation "R" => fastestDeflag (0 : ℝ) tp tm root vJ vMin vLow tMaxLow tMaxHigh endLow endHigh
local notation "A" => vMin + vLow
local notation "B" => vJ - vLow
local notation "Early" => (tm (vJ - vLow) < tMaxLow ∧ tp (vJ - vLow) < tMaxHigh)
local notation "fL" => (fun v : ℝ => tm v - tMaxLow)
local notation "fH" => (fun v : ℝ => tp v - tMaxHigh)
local notation "PL" => (tm (vMin + vLow) - tMaxLow) * (tm (vJ - vLow) - tMaxLow)
local notation "PH" => (tp (vMin + vLow) - tMaxHigh) * (tp (vJ - vLow) - tMaxHigh)
local notation "C1" => root (fun v : ℝ => tm v - tMaxLow) (vMin + vLow) (vJ - vLow)
local notation "C2" => root (fun v : ℝ => tp v - tMaxHigh) (vMin + vLow) (vJ - vLow)
local notation "S" => slowestDeton (0 : ℝ) 1 d pad tm root vJ tMaxLow
local notation "PD" => (tm (vJ + d) - tMaxLow) * (tm 1 - tMaxLow)
local notation "CD" => root (fun v : ℝ => tm v - tMaxLow) (vJ + d) 1

/-! ## `fastestDeflag` -/

/-! ### W2 — the early return -/

/-- **W2.** If both temperatures just below the Jouguet velocity (`vw = vJ - vBracketLow`) are strictly inside the
tabulated ranges, the method returns `vJ` without looking for a cut (line 198) — and the two flags
`doesPhaseTraceLimitvmax[0]`, `[1]` are LEFT AS THEY WERE: whatever an earlier call (or the constructor) stored in
them stays there.  This is a stale-state observation: after this return the flags do not describe the present call. -/
theorem deflag_eq_vJ_of_in_range (hL : tm B < tMaxLow) (hH : tp B < tMaxHigh) :
    (R).vmax = vJ ∧ (R).setHigh = none ∧ (R).setLow = none := by
  rw [fastestDeflag_early ⟨hL, hH⟩]; exact ⟨rfl, rfl, rfl⟩

example : ramp (3 / 5 - 1 / 10) < 1 ∧ ramp (3 / 5 - 1 / 10) < 1 := by norm_num [ramp]

/-- Converse for the flags: a flag is written (to either value) only if the early return was not taken. -/
theorem deflag_not_early_of_flag (h : (R).setLow ≠ none ∨ (R).setHigh ≠ none) : ¬ Early := by
  intro he
  rw [fastestDeflag_early he] at h
  rcases h with h | h <;> exact h rfl

example : (fastestDeflag (0 : ℝ) ramp ramp secant (3 / 5) 0 (1 / 10) (3 / 10) 1 false false).setLow ≠ none ∨
    (fastestDeflag (0 : ℝ) ramp ramp secant (3 / 5) 0 (1 / 10) (3 / 10) 1 false false).setHigh ≠ none := by
  left
  have h : (fastestDeflag (0 : ℝ) ramp ramp secant (3 / 5) 0 (1 / 10) (3 / 10) 1 false false).setLow = some true := by
    norm_num [fastestDeflag, cut, ramp]
  rw [h]; exact Option.some_ne_none _

/-! ### W3 — the value when the early return is not taken -/

/-- **W3.** When the early return is not taken, the result is exactly the smaller of two candidates (line 237); the
low-T candidate is `vJ` if `brentq` raised (`0 < PL`) and the root `C1` otherwise, same for the high-T candidate. -/
theorem deflag_vmax_eq (h : ¬ Early) :
    (R).vmax = min (if 0 < PL then vJ else C1) (if 0 < PH then vJ else C2) := by
  rw [fastestDeflag_late h]
  show min (cut 0 fL root A B vJ endLow).1 (cut 0 fH root A B vJ endHigh).1 = _
  rw [cut_fst_eq, cut_fst_eq]

example : ¬ (ramp (3 / 5 - 1 / 10) < 3 / 10 ∧ ramp (3 / 5 - 1 / 10) < 1) := by norm_num [ramp]

/-- **W3.** In every case the returned velocity is one of: the Jouguet velocity, the low-T root, the high-T root. -/
theorem deflag_vmax_cases : (R).vmax = vJ ∨ (R).vmax = C1 ∨ (R).vmax = C2 := by
  by_cases h : Early
  · left; rw [fastestDeflag_early h]
  · rw [deflag_vmax_eq _ _ _ _ _ _ _ _ _ _ h]
    rcases min_choice (if 0 < PL then vJ else C1) (if 0 < PH then vJ else C2) with hm | hm <;> rw [hm]
    · split_ifs
      · exact Or.inl rfl
      · exact Or.inr (Or.inl rfl)
    · split_ifs
      · exact Or.inl rfl
      · exact Or.inr (Or.inr rfl)

/-- **W3 (low-T cut).** Early return not taken and no equal strict signs of `T₋ - TMaxLowT` at the bracket ends:
with the root-finder contract on an ordered bracket, the low-T candidate `C1` is a velocity inside the bracket at
which `T₋ = TMaxLowT` exactly, and the returned velocity does not exceed it. -/
theorem deflag_cut_low (h : ¬ Early) (hs : PL ≤ 0) (hok : RootOKOn root fL) (hAB : A ≤ B) :
    tm C1 = tMaxLow ∧ A ≤ C1 ∧ C1 ≤ B ∧ (R).vmax ≤ C1 := by
  obtain ⟨h1, h2, h3⟩ := hok A B hAB hs
  refine ⟨sub_eq_zero.mp h3, h1, h2, ?_⟩
  rw [deflag_vmax_eq _ _ _ _ _ _ _ _ _ _ h, if_neg (not_lt.mpr hs)]
  exact min_le_left _ _

example : ¬ (ramp (3 / 5 - 1 / 10) < 3 / 10 ∧ ramp (3 / 5 - 1 / 10) < 1) ∧
    (ramp (0 + 1 / 10) - 3 / 10) * (ramp (3 / 5 - 1 / 10) - 3 / 10) ≤ 0 ∧
    RootOKOn secant (fun v => ramp v - 3 / 10) ∧ (0 : ℝ) + 1 / 10 ≤ 3 / 5 - 1 / 10 := by
  refine ⟨by norm_num [ramp], by norm_num [ramp], secant_ok_ramp _, by norm_num⟩

/-- **W3 (high-T cut).** The same for `T₊` and `TMaxHighT`. -/
theorem deflag_cut_high (h : ¬ Early) (hs : PH ≤ 0) (hok : RootOKOn root fH) (hAB : A ≤ B) :
    tp C2 = tMaxHigh ∧ A ≤ C2 ∧ C2 ≤ B ∧ (R).vmax ≤ C2 := by
  obtain ⟨h1, h2, h3⟩ := hok A B hAB hs
  refine ⟨sub_eq_zero.mp h3, h1, h2, ?_⟩
  rw [deflag_vmax_eq _ _ _ _ _ _ _ _ _ _ h, if_neg (not_lt.mpr hs)]
  exact min_le_right _ _

example : ¬ (nil (3 / 5 - 1 / 10) < 1 ∧ ramp (3 / 5 - 1 / 10) < 3 / 10) ∧
    (ramp (0 + 1 / 10) - 3 / 10) * (ramp (3 / 5 - 1 / 10) - 3 / 10) ≤ 0 ∧
    RootOKOn secant (fun v => ramp v - 3 / 10) ∧ (0 : ℝ) + 1 / 10 ≤ 3 / 5 - 1 / 10 := by
  refine ⟨by norm_num [ramp, nil], by norm_num [ramp], secant_ok_ramp _, by norm_num⟩

/-- the cut is computed correctly on the instance: `T₋ = vw`, `TMaxLowT = 3/10`: `vmax = 3/10 < vJ = 3/5` -/
example : (fastestDeflag (0 : ℝ) ramp ramp secant (3 / 5) 0 (1 / 10) (3 / 10) 1 false false).vmax = 3 / 10 := by
  norm_num [fastestDeflag, cut, ramp, secant, min2]

/-! ### W1 — never above the Jouguet velocity -/

/-- **W1.** On an ordered bracket with `0 ≤ vBracketLow` the returned velocity never exceeds `vJ`.  The root-finder
contract is needed for only ONE of the two functions (if a candidate is `vJ` the minimum is `≤ vJ` anyway; if both
are roots, one of them in the bracket suffices). -/
theorem deflag_le_vJ (hok : RootOKOn root fL ∨ RootOKOn root fH) (hAB : A ≤ B) (hv : 0 ≤ vLow) :
    (R).vmax ≤ vJ := by
  by_cases h : Early
  · rw [fastestDeflag_early h]
  · have hB : B ≤ vJ := by linarith
    rw [fastestDeflag_late h]
    show min (cut 0 fL root A B vJ endLow).1 (cut 0 fH root A B vJ endHigh).1 ≤ vJ
    by_cases hL : 0 < fL A * fL B
    · exact (min_le_left _ _).trans (cut_fst_raise hL).le
    by_cases hH : 0 < fH A * fH B
    · exact (min_le_right _ _).trans (cut_fst_raise hH).le
    rcases hok with hok | hok
    · exact (min_le_left _ _).trans (cut_fst_le hok hAB hB)
    · exact (min_le_right _ _).trans (cut_fst_le hok hAB hB)

example : (RootOKOn secant (fun v => ramp v - 3 / 10) ∨ RootOKOn secant (fun v => ramp v - 1)) ∧
    (0 : ℝ) + 1 / 10 ≤ 3 / 5 - 1 / 10 ∧ (0 : ℝ) ≤ 1 / 10 :=
  ⟨Or.inl (secant_ok_ramp _), by norm_num, by norm_num⟩

/-- **W1, the hypothesis `0 ≤ vBracketLow` is needed.**  With a negative `vBracketLow` the bracket reaches above `vJ` and a
root above `vJ` is returned: `vJ = 3/5`, `vBracketLow = -1/10`, `T₋ = T₊ = vw`, both maxima `13/20`: result `13/20`. -/
theorem deflag_le_vJ_needs_vLow_nonneg :
    (RootOKOn secant (fun v => ramp v - 13 / 20)) ∧ (0 : ℝ) + -1 / 10 ≤ 3 / 5 - -1 / 10 ∧
    ¬ (fastestDeflag (0 : ℝ) ramp ramp secant (3 / 5) 0 (-1 / 10) (13 / 20) (13 / 20) false false).vmax ≤ 3 / 5 := by
  refine ⟨secant_ok_ramp _, by norm_num, ?_⟩
  norm_num [fastestDeflag, cut, ramp, secant, min2]

/-- **W1, lower side.** With the contract for both functions the returned velocity is also not below the lower end
of the bracket (`vMin + vBracketLow`). -/
theorem deflag_ge_bracket (hokL : RootOKOn root fL) (hokH : RootOKOn root fH) (hAB : A ≤ B) (hv : 0 ≤ vLow) :
    A ≤ (R).vmax := by
  have hAJ : A ≤ vJ := by linarith
  by_cases h : Early
  · rw [fastestDeflag_early h]; exact hAJ
  · rw [deflag_vmax_eq _ _ _ _ _ _ _ _ _ _ h]
    refine le_min ?_ ?_
    · split_ifs with hL
      · exact hAJ
      · exact (hokL A B hAB (not_lt.mp hL)).1
    · split_ifs with hH
      · exact hAJ
      · exact (hokH A B hAB (not_lt.mp hH)).1

example : RootOKOn secant (fun v => ramp v - 3 / 10) ∧ RootOKOn secant (fun v => ramp v - 1) ∧
    (0 : ℝ) + 1 / 10 ≤ 3 / 5 - 1 / 10 ∧ (0 : ℝ) ≤ 1 / 10 :=
  ⟨secant_ok_ramp _, secant_ok_ramp _, by norm_num, by norm_num⟩

/-! ### W4 — the flags -/

/-- **W4.** Exact characterisation of what happens to the two flags when the early return is not taken.
Low-T flag `doesPhaseTraceLimitvmax[1]`: set to `False` iff `brentq` raised (`0 < PL`, equal strict signs, line 217);
set to `True` iff a root was returned and the low-T table end is not a genuine disappearance of the phase
(line 212-213); LEFT UNTOUCHED iff a root was returned and the table end is a genuine disappearance — stale state
again: the flag then keeps whatever an earlier call stored.  Same for the high-T flag `[0]`. -/
theorem deflag_flags (h : ¬ Early) :
    ((R).setLow = some false ↔ 0 < PL) ∧
    ((R).setLow = some true ↔ ¬ 0 < PL ∧ endLow = false) ∧
    ((R).setLow = none ↔ ¬ 0 < PL ∧ endLow = true) ∧
    ((R).setHigh = some false ↔ 0 < PH) ∧
    ((R).setHigh = some true ↔ ¬ 0 < PH ∧ endHigh = false) ∧
    ((R).setHigh = none ↔ ¬ 0 < PH ∧ endHigh = true) := by
  rw [fastestDeflag_late h]
  exact ⟨cut_snd_eq_some_false_iff (f := fL), cut_snd_eq_some_true_iff (f := fL), cut_snd_eq_none_iff (f := fL),
    cut_snd_eq_some_false_iff (f := fH), cut_snd_eq_some_true_iff (f := fH), cut_snd_eq_none_iff (f := fH)⟩

example : ¬ (ramp (3 / 5 - 1 / 10) < 3 / 10 ∧ ramp (3 / 5 - 1 / 10) < 1) := by norm_num [ramp]

/-- **W4, meaning of "the low-T phase tracing limits vmax".**  If the call sets `doesPhaseTraceLimitvmax[1] = True`
then: the early return was not taken, `brentq` did not raise, the low-T table end is NOT a genuine disappearance of
the phase (`endLow = false`), and — with the root-finder contract on an ordered bracket — the low-T candidate is a
velocity in the bracket where `T₋ = TMaxLowT` exactly, and the returned velocity does not exceed it. -/
theorem deflag_limited_means_table (h : (R).setLow = some true) (hok : RootOKOn root fL) (hAB : A ≤ B) :
    ¬ Early ∧ PL ≤ 0 ∧ endLow = false ∧ tm C1 = tMaxLow ∧ A ≤ C1 ∧ C1 ≤ B ∧ (R).vmax ≤ C1 := by
  have hne : ¬ Early := deflag_not_early_of_flag _ _ _ _ _ _ _ _ _ _ (Or.inl (by rw [h]; simp))
  obtain ⟨hs, he⟩ := (deflag_flags _ _ _ _ _ _ _ _ _ _ hne).2.1.mp h
  exact ⟨hne, not_lt.mp hs, he, deflag_cut_low _ _ _ _ _ _ _ _ _ _ hne (not_lt.mp hs) hok hAB⟩

example : (fastestDeflag (0 : ℝ) ramp ramp secant (3 / 5) 0 (1 / 10) (3 / 10) 1 false false).setLow = some true ∧
    RootOKOn secant (fun v => ramp v - 3 / 10) ∧ (0 : ℝ) + 1 / 10 ≤ 3 / 5 - 1 / 10 := by
  refine ⟨by norm_num [fastestDeflag, cut, ramp], secant_ok_ramp _, by norm_num⟩

/-- **W4**, the same for the high-T flag `doesPhaseTraceLimitvmax[0]`. -/
theorem deflag_limited_means_table_high (h : (R).setHigh = some true) (hok : RootOKOn root fH) (hAB : A ≤ B) :
    ¬ Early ∧ PH ≤ 0 ∧ endHigh = false ∧ tp C2 = tMaxHigh ∧ A ≤ C2 ∧ C2 ≤ B ∧ (R).vmax ≤ C2 := by
  have hne : ¬ Early := deflag_not_early_of_flag _ _ _ _ _ _ _ _ _ _ (Or.inr (by rw [h]; simp))
  obtain ⟨hs, he⟩ := (deflag_flags _ _ _ _ _ _ _ _ _ _ hne).2.2.2.2.1.mp h
  exact ⟨hne, not_lt.mp hs, he, deflag_cut_high _ _ _ _ _ _ _ _ _ _ hne (not_lt.mp hs) hok hAB⟩

example : (fastestDeflag (0 : ℝ) ramp nil secant (3 / 5) 0 (1 / 10) 1 (3 / 10) false false).setHigh = some true ∧
    RootOKOn secant (fun v => ramp v - 3 / 10) ∧ (0 : ℝ) + 1 / 10 ≤ 3 / 5 - 1 / 10 := by
  refine ⟨by norm_num [fastestDeflag, cut, ramp, nil], secant_ok_ramp _, by norm_num⟩

/-- **W4, the flag can be `True` although the other phase gives the cut.**  `setLow = some true` says that a low-T
root exists in the bracket, not that it is the smaller candidate: instance `T₋ = T₊ = vw`, `TMaxLowT = 2/5`,
`TMaxHighT = 3/10`: both flags are set to `True`, the returned velocity is the high-T root `3/10`, strictly below
the low-T root `2/5`. -/
theorem deflag_flag_true_not_binding :
    (fastestDeflag (0 : ℝ) ramp ramp secant (3 / 5) 0 (1 / 10) (2 / 5) (3 / 10) false false).setLow = some true ∧
    (fastestDeflag (0 : ℝ) ramp ramp secant (3 / 5) 0 (1 / 10) (2 / 5) (3 / 10) false false).setHigh = some true ∧
    (fastestDeflag (0 : ℝ) ramp ramp secant (3 / 5) 0 (1 / 10) (2 / 5) (3 / 10) false false).vmax = 3 / 10 ∧
    secant (fun v => ramp v - 2 / 5) (0 + 1 / 10) (3 / 5 - 1 / 10) = 2 / 5 := by
  refine ⟨?_, ?_, ?_, ?_⟩ <;> norm_num [fastestDeflag, cut, ramp, secant, min2]

/-! ### W5 — `brentq` raises in both blocks -/

/-- **W5.** Early return not taken and equal strict signs at the bracket ends for both functions: both `brentq` calls
raise, the Jouguet velocity is returned and both flags are set to `False` (lines 215-217, 233-235). -/
theorem deflag_no_cut_when_brentq_raises_both (h : ¬ Early) (hL : 0 < PL) (hH : 0 < PH) :
    (R).vmax = vJ ∧ (R).setLow = some false ∧ (R).setHigh = some false := by
  obtain ⟨h1, -, -, h4, -, -⟩ := deflag_flags _ _ _ _ _ _ _ _ endLow endHigh h
  refine ⟨?_, h1.mpr hL, h4.mpr hH⟩
  rw [deflag_vmax_eq _ _ _ _ _ _ _ _ _ _ h, if_pos hL, if_pos hH, min_self]

example : ¬ (two (3 / 5 - 1 / 10) < 1 ∧ nil (3 / 5 - 1 / 10) < 1) ∧
    0 < (two (0 + 1 / 10) - 1) * (two (3 / 5 - 1 / 10) - 1) ∧
    0 < (nil (0 + 1 / 10) - 1) * (nil (3 / 5 - 1 / 10) - 1) := by
  norm_num [two, nil]

/-- **W5, finding.**  If `T₋` is strictly ABOVE `TMaxLowT` at both ends of the bracket (in particular when it is above
on the whole window: no wall velocity of the window is admissible) the low-T block contributes nothing: `brentq`
raises, the `except ValueError` branch stores `vJ` and sets the flag to `False`.  If the high-T block does not cut
either, the method returns the Jouguet velocity — the largest velocity of the window — instead of signalling that no
velocity is admissible.  (`except ValueError` cannot tell "in range everywhere" from "out of range everywhere".) -/
theorem deflag_out_of_range_uncaught (hA : tMaxLow < tm A) (hB : tMaxLow < tm B) (hH : 0 < PH) :
    (R).vmax = vJ ∧ (R).setLow = some false ∧ (R).setHigh = some false := by
  have hne : ¬ Early := fun he => absurd he.1 (not_lt.mpr hB.le)
  exact deflag_no_cut_when_brentq_raises_both _ _ _ _ _ _ _ _ _ _ hne
    (mul_pos (sub_pos.mpr hA) (sub_pos.mpr hB)) hH

example : (1 : ℝ) < two (0 + 1 / 10) ∧ (1 : ℝ) < two (3 / 5 - 1 / 10) ∧
    0 < (nil (0 + 1 / 10) - 1) * (nil (3 / 5 - 1 / 10) - 1) := by
  norm_num [two, nil]

/-- **W5, finding, concrete witness.**  `T₋ = 2` for every wall velocity, `TMaxLowT = 1` (out of range everywhere),
`T₊ = 0`, `TMaxHighT = 1` (in range everywhere), `vJ = 3/5`, bracket `[1/10, 1/2]`: the method returns `vJ = 3/5` and
sets both flags to `False`. -/
theorem deflag_out_of_range_uncaught_witness :
    (∀ v, (1 : ℝ) < two v) ∧ (∀ v, nil v < (1 : ℝ)) ∧
    (fastestDeflag (0 : ℝ) nil two secant (3 / 5) 0 (1 / 10) 1 1 false false).vmax = 3 / 5 ∧
    (fastestDeflag (0 : ℝ) nil two secant (3 / 5) 0 (1 / 10) 1 1 false false).setLow = some false ∧
    (fastestDeflag (0 : ℝ) nil two secant (3 / 5) 0 (1 / 10) 1 1 false false).setHigh = some false := by
  refine ⟨fun v => by norm_num [two], fun v => by norm_num [nil], ?_⟩
  exact deflag_out_of_range_uncaught nil two secant (3 / 5) 0 (1 / 10) 1 1 false false
    (by norm_num [two]) (by norm_num [two]) (by norm_num [nil])

/-- **W5, finding, second form.**  Same situation for `T₋` (above `TMaxLowT` at both ends), but the high-T block
finds a root: the method returns that root and reports "high-T phase limits vmax", although `T₋` is out of range at
the returned velocity as well.  Instance: `T₋ = 2 > TMaxLowT = 1` everywhere, `T₊ = vw`, `TMaxHighT = 3/10`:
returned `3/10`. -/
theorem deflag_out_of_range_cut_by_other_witness :
    (∀ v, (1 : ℝ) < two v) ∧
    (fastestDeflag (0 : ℝ) ramp two secant (3 / 5) 0 (1 / 10) 1 (3 / 10) false false).vmax = 3 / 10 ∧
    (fastestDeflag (0 : ℝ) ramp two secant (3 / 5) 0 (1 / 10) 1 (3 / 10) false false).setLow = some false ∧
    (fastestDeflag (0 : ℝ) ramp two secant (3 / 5) 0 (1 / 10) 1 (3 / 10) false false).setHigh = some true := by
  refine ⟨fun v => by norm_num [two], ?_, ?_, ?_⟩ <;>
    norm_num [fastestDeflag, cut, ramp, two, secant, min2]

/-! ## `slowestDeton` -/

/-! ### W6 — the three branches -/

/-- **W6.** If `T₋` at `vw = 1` is strictly above `TMaxLowT` the method returns `1` (line 257-258). -/
theorem deton_one (h : tMaxLow < tm 1) : S = 1 := slowestDeton_one h

example : (1 : ℝ) < two 1 := by norm_num [two]

/-- **W6.** `T₋(1) ≤ TMaxLowT` and equal strict signs of `T₋ - TMaxLowT` at `vJ + d` and `1`: `brentq` raises and the
Jouguet velocity is returned (line 274-275). -/
theorem deton_vJ_of_no_sign_change (h1 : ¬ tMaxLow < tm 1) (h : 0 < PD) : S = vJ := slowestDeton_vJ h1 h

example : ¬ (1 : ℝ) < nil 1 ∧ 0 < (nil (1 / 2 + 1 / 10000) - 1) * (nil 1 - 1) := by norm_num [nil]

/-- **W6.** Otherwise (`T₋(1) ≤ TMaxLowT`, no equal strict signs) the result is `min 1 (c + pad)` where, by the
root-finder contract, `c ∈ [vJ + d, 1]` and `T₋(c) = TMaxLowT` exactly (lines 264-272). -/
theorem deton_root (h1 : ¬ tMaxLow < tm 1) (h : ¬ 0 < PD) (hok : RootOKOn root fL) (hv : vJ + d ≤ 1) :
    S = min 1 (CD + pad) ∧ tm CD = tMaxLow ∧ vJ + d ≤ CD ∧ CD ≤ 1 := by
  obtain ⟨h2, h3, h4⟩ := hok (vJ + d) 1 hv (not_lt.mp h)
  exact ⟨slowestDeton_root h1 h, sub_eq_zero.mp h4, h2, h3⟩

example : ¬ (1 / 4 : ℝ) < down 1 ∧ ¬ 0 < (down (1 / 2 + 1 / 10000) - 1 / 4) * (down 1 - 1 / 4) ∧
    RootOKOn secant (fun v => down v - 1 / 4) ∧ (1 / 2 : ℝ) + 1 / 10000 ≤ 1 := by
  refine ⟨by norm_num [down], by norm_num [down], secant_ok_down _, by norm_num⟩

/-- the root branch on the instance `T₋ = 1 - vw`, `TMaxLowT = 1/4`: root `3/4`, result `3/4 + 1/100` -/
example : slowestDeton (0 : ℝ) 1 (1 / 10000) (1 / 100) down secant (1 / 2) (1 / 4) = 19 / 25 := by
  norm_num [slowestDeton, down, secant, min2]

/-- **W6.** With `0 ≤ d`, `0 ≤ pad`, `vJ + d ≤ 1` and the root-finder contract the result lies in `[vJ, 1]`. -/
theorem deton_ge_vJ (hd : 0 ≤ d) (hpad : 0 ≤ pad) (hv : vJ + d ≤ 1) (hok : RootOKOn root fL) :
    vJ ≤ S ∧ S ≤ 1 := by
  have hJ1 : vJ ≤ 1 := by linarith
  by_cases h1 : tMaxLow < tm 1
  · rw [slowestDeton_one h1]; exact ⟨hJ1, le_rfl⟩
  by_cases h : 0 < PD
  · rw [slowestDeton_vJ h1 h]; exact ⟨le_rfl, hJ1⟩
  · obtain ⟨hS, -, h2, -⟩ := deton_root tm root vJ tMaxLow d pad h1 h hok hv
    rw [hS]
    exact ⟨le_min hJ1 (by linarith), min_le_left _ _⟩

example : (0 : ℝ) ≤ 1 / 10000 ∧ (0 : ℝ) ≤ 1 / 100 ∧ (1 / 2 : ℝ) + 1 / 10000 ≤ 1 ∧
    RootOKOn secant (fun v => down v - 1 / 4) :=
  ⟨by norm_num, by norm_num, by norm_num, secant_ok_down _⟩

/-! ### W6 — what the return value `vJ` means -/

/-- **W6, sign logic of the `except ValueError` branch.**  The branch `return self.vJ` (line 275) is reached exactly
when BOTH end temperatures are STRICTLY below `TMaxLowT`: `T₋(vJ + d) < TMaxLowT` and `T₋(1) < TMaxLowT`.  In
particular it cannot be reached with `T₋(vJ + d) ≥ TMaxLowT` (the first test excludes `T₋(1) > TMaxLowT`, and
`T₋(1) = TMaxLowT` or `T₋(vJ+d) = TMaxLowT` make the product zero, which `brentq` accepts). -/
theorem deton_except_branch_iff :
    (¬ tMaxLow < tm 1 ∧ 0 < PD) ↔ (tm (vJ + d) < tMaxLow ∧ tm 1 < tMaxLow) := by
  constructor
  · rintro ⟨h1, h⟩
    obtain ⟨ha, hb⟩ := both_neg_of_mul_pos_of_nonpos (sub_nonpos.mpr (not_lt.mp h1)) h
    exact ⟨sub_neg.mp ha, sub_neg.mp hb⟩
  · rintro ⟨ha, hb⟩
    exact ⟨not_lt.mpr hb.le, mul_pos_of_neg_of_neg (sub_neg.mpr ha) (sub_neg.mpr hb)⟩

/-- **W6, meaning of the return value `vJ`.**  With `0 < d`, `0 ≤ pad`, `vJ + d ≤ 1` and the root-finder contract:
the method returns the Jouguet velocity if and only if both end temperatures are strictly below `TMaxLowT`
(`T₋(vJ + d) < TMaxLowT` and `T₋(1) < TMaxLowT`), i.e. both ends of the detonation branch are admissible. -/
theorem deton_eq_vJ_iff (hd : 0 < d) (hpad : 0 ≤ pad) (hv : vJ + d ≤ 1) (hok : RootOKOn root fL) :
    S = vJ ↔ (tm (vJ + d) < tMaxLow ∧ tm 1 < tMaxLow) := by
  rw [← deton_except_branch_iff]
  constructor
  · intro hS
    by_cases h1 : tMaxLow < tm 1
    · rw [slowestDeton_one h1] at hS; linarith
    by_cases h : 0 < PD
    · exact ⟨h1, h⟩
    · obtain ⟨hS', -, h2, -⟩ := deton_root tm root vJ tMaxLow d pad h1 h hok hv
      rw [hS'] at hS
      have : vJ < min 1 (CD + pad) := lt_min (by linarith) (by linarith)
      linarith
  · rintro ⟨h1, h⟩
    exact slowestDeton_vJ h1 h

example : (0 : ℝ) < 1 / 10000 ∧ (0 : ℝ) ≤ 1 / 100 ∧ (1 / 2 : ℝ) + 1 / 10000 ≤ 1 ∧
    RootOKOn secant (fun v => down v - 1 / 4) :=
  ⟨by norm_num, by norm_num, by norm_num, secant_ok_down _⟩

/-- **W6.** The `vJ` branch cannot be taken when `T₋(vJ + d) ≥ TMaxLowT`: if moreover `T₋(1) ≤ TMaxLowT`, the root
branch is taken (a sign change or a zero product), and the result is `min 1 (c + pad)` with `T₋(c) = TMaxLowT`. -/
theorem deton_root_of_top_out_of_range (ha : tMaxLow ≤ tm (vJ + d)) (h1 : ¬ tMaxLow < tm 1)
    (hok : RootOKOn root fL) (hv : vJ + d ≤ 1) :
    S = min 1 (CD + pad) ∧ tm CD = tMaxLow ∧ vJ + d ≤ CD ∧ CD ≤ 1 := by
  refine deton_root tm root vJ tMaxLow d pad h1 ?_ hok hv
  intro h
  exact absurd ((deton_except_branch_iff tm vJ tMaxLow d).mp ⟨h1, h⟩).1 (not_lt.mpr ha)

example : (1 / 4 : ℝ) ≤ down (1 / 2 + 1 / 10000) ∧ ¬ (1 / 4 : ℝ) < down 1 ∧
    RootOKOn secant (fun v => down v - 1 / 4) ∧ (1 / 2 : ℝ) + 1 / 10000 ≤ 1 := by
  refine ⟨by norm_num [down], by norm_num [down], secant_ok_down _, by norm_num⟩

/-- **W6.** When `T₋` is strictly below `TMaxLowT` on the whole interval (every detonation admissible) the method
returns `vJ`: the whole detonation branch down to the Jouguet velocity. -/
theorem deton_vJ_although_in_range_everywhere (h : ∀ v, tm v < tMaxLow) : S = vJ :=
  slowestDeton_vJ (not_lt.mpr (h 1).le) (mul_pos_of_neg_of_neg (sub_neg.mpr (h _)) (sub_neg.mpr (h _)))

example : ∀ v, nil v < (1 : ℝ) := fun v => by norm_num [nil]

/-- **W6, finding (interior not examined).**  Only the two end temperatures are looked at.  Instance:
`T₋(vw) = 1 - 16 (vw - 3/4)²`, `TMaxLowT = 1/2`, `vJ = 1/2`: both ends are below `TMaxLowT`, so `vJ` is returned
("all detonations admissible"), although `T₋(3/4) = 1 > TMaxLowT`.  Harmless if `T₋` is monotone in `vw` on the
detonation branch; the code does not check that. -/
theorem deton_vJ_interior_unchecked :
    slowestDeton (0 : ℝ) 1 (1 / 10000) (1 / 100) (fun v => 1 - 16 * (v - 3 / 4) ^ 2) secant (1 / 2) (1 / 2) = 1 / 2 ∧
    (1 / 2 : ℝ) < (fun v : ℝ => 1 - 16 * (v - 3 / 4) ^ 2) (3 / 4) ∧
    (1 / 2 : ℝ) + 1 / 10000 ≤ 3 / 4 ∧ (3 / 4 : ℝ) ≤ 1 := by
  refine ⟨?_, by norm_num, by norm_num, by norm_num⟩
  apply slowestDeton_vJ <;> norm_num

/-- **W6, finding (the value `1` is ambiguous).**  `1` is returned when `T₋(1) > TMaxLowT` ("no detonation
admissible") but also when the root lies within `pad` of `1`.  Instance: `T₋ = 1 - vw`, `TMaxLowT = 1/200`: the root
is `199/200`, `T₋(1) = 0 < TMaxLowT` (detonations with `vw ∈ [199/200, 1]` are admissible), result `1`. -/
theorem deton_one_ambiguous :
    slowestDeton (0 : ℝ) 1 (1 / 10000) (1 / 100) down secant (1 / 2) (1 / 200) = 1 ∧ down 1 < 1 / 200 ∧
    secant (fun v => down v - 1 / 200) (1 / 2 + 1 / 10000) 1 = 199 / 200 := by
  refine ⟨?_, by norm_num [down], ?_⟩ <;> norm_num [slowestDeton, down, secant, min2]

end Props.C06W
