/-
C01D — the scanning loop of `EOM.findWallVelocityDetonation` (equationOfMotion.py:246-380).

`Model.DetonScan.scan press propose vmin vmax nMin nMax only fuel` is a hand model, over `Rat`, of that loop
(differentially tested against the real method with scripted pressures / step proposals: exact agreement).

Reading guide.  `o := scan press propose vmin vmax nMin nMax only fuel`:
* `press v`               is `wallPressure(v, …)[0]`;
* `propose i vw1 vw2 p1 p2 posMax` is the value returned by `nextStepDeton` in pass `i`; its contract (result in
  `(pos2, posMax]`) is `Lemmas.DetonScan.ProposeOK` and appears only as a hypothesis (the proofs use only the
  upper half, `propose … ≤ posMax`);
* `o.probes`   = the `(velocity, pressure)` of every `wallPressure` call, in order;
* `o.brackets` = the `(vw2, vw3)` of every `solveWall` call, in order;
* `o.label`    = `.roots` if `listResults` is non-empty, otherwise the `ESolutionType` chosen at lines 345-379;
* `only`       = `onlySmallest`;  `fuel` bounds the number of passes of the `while` loop (the real loop has no such
  bound: theorems D4 show `fuel = nMax - 1` is always enough, "`nMax ≤ fuel + 1`" below means "enough fuel");
* `(vmax - vmin) / (nMax - 1)` is `stepSizeMin`, `(vmax - vmin) / (nMin - 1)` is `stepSizeMax`;
* `[x, y] <:+: o.probes` (`List.IsInfix`) says that `x, y` are CONSECUTIVE entries of `o.probes`.

The concrete pressures / proposals used in the `example`s (`pressLin`, `pressCubic`, `propMid`, …) are defined at
the end of `Lemmas/DetonScan.lean`.
-/
import Mathlib.Tactic
import WallGoVerif.Model.DetonScan
import WallGoVerif.Lemmas.DetonScan

namespace Props.C01D

open Model.DetonScan Lemmas.DetonScan

variable (press : Rat → Rat) (propose : Nat → Rat → Rat → Rat → Rat → Rat → Rat) (vmin vmax : Rat)
  (nMin nMax : Nat) (only : Bool) (fuel : Nat)

/-- the standing hypotheses are satisfiable (used by all theorems below that have hypotheses) -/
example : ProposeOK propMid ∧ ((6 / 10 : Rat) < 9 / 10) ∧ 2 ≤ 3 ∧ 2 ≤ 7 ∧ 3 ≤ 7 ∧ 7 ≤ 6 + 1 :=
  ⟨propMid_ok, by norm_num, by norm_num, by norm_num, by norm_num, by norm_num⟩

/-! ### D1 — what is handed to `solveWall` -/

/-- **D1.** Every bracket `(a, b)` handed to `solveWall` has the pressure going from non-positive at `a` to
non-negative at `b` (a stable root lies between), and `a, b` are two consecutive probed velocities (with their
pressures as recorded).  No hypothesis at all: holds for any proposal, any fuel, both `onlySmallest` modes.
Serves the clause "each returned detonation root is bracketed by a sign change of the pressure". -/
theorem brackets_are_sign_changes (a b : Rat)
    (h : (a, b) ∈ (scan press propose vmin vmax nMin nMax only fuel).brackets) :
    press a ≤ 0 ∧ 0 ≤ press b ∧
      ∃ l1 l2, (scan press propose vmin vmax nMin nMax only fuel).probes =
        l1 ++ (a, press a) :: (b, press b) :: l2 := by
  have hP := final_post press propose vmin vmax nMin nMax only fuel
  rw [scan_brackets] at h
  obtain ⟨h1, h2, l1, l2, h3⟩ := hP.sound (a, b) h
  exact ⟨h1, h2, l1, l2, by rw [scan_probes, ← h3]; simp⟩

example : (scan pressLin propMid (6 / 10) (9 / 10) 3 7 true 6).brackets = [(27 / 40, 3 / 4)] := by
  decide +kernel

/-- **D1, geometry.** Under the proposal contract every bracket is a proper interval inside the searched
window, not wider than `stepSizeMax`: `vmin ≤ a < b ≤ vmax`, `b - a ≤ stepSizeMax`. -/
theorem brackets_in_window (hP : ProposeOK propose) (hv : vmin < vmax) (hn : 2 ≤ nMin) (hnn : nMin ≤ nMax)
    (a b : Rat) (h : (a, b) ∈ (scan press propose vmin vmax nMin nMax only fuel).brackets) :
    vmin ≤ a ∧ a < b ∧ b ≤ vmax ∧ b - a ≤ (vmax - vmin) / ((nMin : Rat) - 1) := by
  have hPost := final_post press propose vmin vmax nMin nMax only fuel
  have h0 := stepMin_pos vmin vmax nMax hv (le_trans hn hnn)
  have h01 := stepMin_le_stepMax vmin vmax nMin nMax hv hn hnn
  have h1 := stepMin_pos vmin vmax nMin hv hn
  rw [scan_brackets] at h
  obtain ⟨_, _, hin⟩ := hPost.sound (a, b) h
  have hinc := hPost.incr h0
  have ha : (a, press a) ∈ (final press propose vmin vmax nMin nMax only fuel).probes :=
    hin.subset (by simp)
  have hb : (b, press b) ∈ (final press propose vmin vmax nMin nMax only fuel).probes :=
    hin.subset (by simp)
  refine ⟨?_, ?_, ?_, ?_⟩
  · exact head_le_of_pairwise hPost.head hinc _ ha
  · have := List.Pairwise.sublist (hin.sublist.map Prod.fst) hinc
    simpa using this
  · exact hPost.leAll hP.le h1 h0 hv.le _ hb
  · exact hPost.stepHi hP.le h1 h01 _ _ hin

example : ProposeOK propMid ∧ ((6 / 10 : Rat) < 9 / 10) ∧ 2 ≤ 3 ∧ 3 ≤ 7 ∧
    ((27 / 40 : Rat), (3 / 4 : Rat)) ∈ (scan pressLin propMid (6 / 10) (9 / 10) 3 7 false 6).brackets :=
  ⟨propMid_ok, by norm_num, by norm_num, by norm_num, by decide +kernel⟩

/-! ### D2 — the probed velocities -/

/-- **D2.** The probed velocities are strictly increasing, start at `vmin`, stay inside `[vmin, vmax]`, and every
recorded pressure is the pressure at the recorded velocity.  (Strict increase and the start need only
`0 < stepSizeMin`; `≤ vmax` is where the proposal contract `propose ≤ posMax` and `2 ≤ nMin` enter.) -/
theorem probes_increasing (hP : ProposeOK propose) (hv : vmin < vmax) (hn : 2 ≤ nMin) (hn' : 2 ≤ nMax) :
    ((scan press propose vmin vmax nMin nMax only fuel).probes.map Prod.fst).Pairwise (· < ·) ∧
    (scan press propose vmin vmax nMin nMax only fuel).probes.head? = some (vmin, press vmin) ∧
    ∀ x ∈ (scan press propose vmin vmax nMin nMax only fuel).probes,
      vmin ≤ x.1 ∧ x.1 ≤ vmax ∧ x.2 = press x.1 := by
  have hPost := final_post press propose vmin vmax nMin nMax only fuel
  have h0 := stepMin_pos vmin vmax nMax hv hn'
  have h1 := stepMin_pos vmin vmax nMin hv hn
  rw [scan_probes]
  refine ⟨hPost.incr h0, hPost.head, fun x hx => ⟨?_, ?_, hPost.graph x hx⟩⟩
  · exact head_le_of_pairwise hPost.head (hPost.incr h0) x hx
  · exact hPost.leAll hP.le h1 h0 hv.le x hx

example : (scan pressLin propMid (6 / 10) (9 / 10) 3 7 false 6).probes.map Prod.fst =
    [3 / 5, 27 / 40, 3 / 4, 33 / 40, 7 / 8] := by decide +kernel

/-! ### D3 — step sizes -/

/-- **D3.** Two consecutive probed velocities differ by at most `stepSizeMax`, and by at least `stepSizeMin`
except when the step was clipped at `vmax` (then the second one IS `vmax`, so this can only be the last step). -/
theorem step_sizes (hP : ProposeOK propose) (hv : vmin < vmax) (hn : 2 ≤ nMin) (hnn : nMin ≤ nMax)
    (x y : Rat × Rat) (h : [x, y] <:+: (scan press propose vmin vmax nMin nMax only fuel).probes) :
    ((vmax - vmin) / ((nMax : Rat) - 1) ≤ y.1 - x.1 ∨ y.1 = vmax) ∧
      y.1 - x.1 ≤ (vmax - vmin) / ((nMin : Rat) - 1) := by
  have hPost := final_post press propose vmin vmax nMin nMax only fuel
  have h0 := stepMin_pos vmin vmax nMax hv (le_trans hn hnn)
  have h01 := stepMin_le_stepMax vmin vmax nMin nMax hv hn hnn
  have h1 := stepMin_pos vmin vmax nMin hv hn
  rw [scan_probes] at h
  refine ⟨?_, hPost.stepHi hP.le h1 h01 x y h⟩
  rcases hPost.stepLo x y h with h2 | h2
  · exact Or.inl h2
  · right
    have hy : y ∈ (final press propose vmin vmax nMin nMax only fuel).probes := h.subset (by simp)
    exact le_antisymm (hPost.leAll hP.le h1 h0 hv.le y hy) h2

/-- D3 without the proposal contract: the lower bound on the step survives in the form
"`≥ stepSizeMin` or the new velocity is `≥ vmax`" for ANY proposal (it comes from the `max(…)` of line 301). -/
theorem step_sizes_lower_any_proposal
    (x y : Rat × Rat) (h : [x, y] <:+: (scan press propose vmin vmax nMin nMax only fuel).probes) :
    (vmax - vmin) / ((nMax : Rat) - 1) ≤ y.1 - x.1 ∨ vmax ≤ y.1 :=
  (final_post press propose vmin vmax nMin nMax only fuel).stepLo x y (by rwa [scan_probes] at h)

example : [((3 / 5 : Rat), (-1 / 10 : Rat)), (27 / 40, -1 / 40)] <:+:
    (scan pressLin propMid (6 / 10) (9 / 10) 3 7 false 6).probes :=
  ⟨[], [(3 / 4, 1 / 20), (33 / 40, 1 / 8), (7 / 8, 7 / 40)], by decide +kernel⟩

/-! ### D4 — termination -/

/-- **D4a.** The loop makes at most `nMax - 1` passes: with `fuel ≥ nMax - 1` the outcome does not depend on the
fuel any more (so the model with `fuel = nMax - 1` is the real, unbounded, `while` loop).  Needs no contract on
the proposal: progress comes from the `max(…, min(vmax, vw2 + stepSizeMin))` of line 301.  (Exact arithmetic;
in floating point `vmin + (nMax-1)*stepSizeMin` may fall one ulp short of `vmax`, which can cost one more pass.) -/
theorem terminates (hv : vmin < vmax) (hn : 2 ≤ nMax) (hf : nMax ≤ fuel + 1) :
    scan press propose vmin vmax nMin nMax only fuel =
      scan press propose vmin vmax nMin nMax only (nMax - 1) := by
  rw [scan_eq, scan_eq, final_stable press propose vmin vmax nMin nMax only fuel hv hn hf]

/-- D4a in the form asked for: every `fuel ≥ nMax` gives the same outcome as `fuel = nMax`. -/
theorem terminates_nMax (hv : vmin < vmax) (hn : 2 ≤ nMax) (hf : nMax ≤ fuel) :
    scan press propose vmin vmax nMin nMax only fuel =
      scan press propose vmin vmax nMin nMax only nMax := by
  rw [terminates press propose vmin vmax nMin nMax only fuel hv hn (by omega),
    terminates press propose vmin vmax nMin nMax only nMax hv hn (by omega)]

example : scan pressLin propMid (6 / 10) (9 / 10) 3 7 false 50 = scan pressLin propMid (6 / 10) (9 / 10) 3 7 false 7 :=
  terminates_nMax _ _ _ _ _ _ _ _ (by norm_num) (by norm_num) (by norm_num)

/-- **D4b.** At most `nMax` pressures are evaluated (`nbrPointsMax` really is the maximal number of points),
whatever the proposal and the fuel. The bound is attained (example below). -/
theorem probes_length_le (hv : vmin < vmax) (hn : 2 ≤ nMax) :
    (scan press propose vmin vmax nMin nMax only fuel).probes.length ≤ nMax := by
  have hPost := final_post press propose vmin vmax nMin nMax only fuel
  rw [scan_probes]
  set r := final press propose vmin vmax nMin nMax only fuel
  have h2 : (2 : Rat) ≤ nMax := by exact_mod_cast hn
  rcases hPost.len with h | ⟨h, hlt⟩
  · rw [h]
    by_cases hi : r.i = 0
    · omega
    · have := count_lt vmin vmax nMax hv hn _ (hPost.ilt hi)
      have h3 : (r.i : Rat) < nMax := by linarith
      have : r.i < nMax := by exact_mod_cast h3
      omega
  · rw [h]
    rcases hPost.prog with hp | hp
    · have := count_lt vmin vmax nMax hv hn (r.i : Rat) (lt_of_le_of_lt hp hlt)
      have h3 : ((r.i + 1 : Nat) : Rat) < nMax := by push_cast; linarith
      have : r.i + 1 < nMax := by exact_mod_cast h3
      omega
    · exact absurd hlt (not_lt.mpr hp)

example : (scan pressNeg propLow (6 / 10) (9 / 10) 3 7 true 6).probes.length = 7 := by decide +kernel
example : scan pressNeg propLow (6 / 10) (9 / 10) 3 7 true 100 = scan pressNeg propLow (6 / 10) (9 / 10) 3 7 true 6 :=
  terminates _ _ _ _ _ _ _ _ (by norm_num) (by norm_num) (by norm_num)

/-! ### D5 — completeness on the probed points -/

/-- **D5a.** Every pair of consecutive probes whose pressures are `≤ 0` then `≥ 0` was handed to `solveWall`.
Holds in BOTH modes and for any fuel (with `onlySmallest` the scan simply stops right after the first such
pair, so there is no later pair).  Serves the clause "no sign change seen by the scan is dropped". -/
theorem completeness_on_probes (x y : Rat × Rat)
    (h : [x, y] <:+: (scan press propose vmin vmax nMin nMax only fuel).probes)
    (hx : x.2 ≤ 0) (hy : 0 ≤ y.2) :
    (x.1, y.1) ∈ (scan press propose vmin vmax nMin nMax only fuel).brackets :=
  (final_post press propose vmin vmax nMin nMax only fuel).complete x y (by rwa [scan_probes] at h) hx hy

example : (scan pressCubicNeg propMid (6 / 10) (9 / 10) 3 7 false 6).brackets =
    [(3 / 5, 27 / 40), (33 / 40, 7 / 8)] := by decide +kernel

/-- **D5b.** With `onlySmallest` at most one bracket is produced; if there is one it is formed by the LAST two
probes, and no earlier pair of consecutive probes shows the pattern `≤ 0` then `≥ 0`: it is the first sign change
met when scanning upwards from `vmin`. -/
theorem only_smallest (ho : only = true) :
    (scan press propose vmin vmax nMin nMax only fuel).brackets = [] ∨
    ∃ l a b, (scan press propose vmin vmax nMin nMax only fuel).brackets = [(a, b)] ∧
      (scan press propose vmin vmax nMin nMax only fuel).probes = l ++ [(a, press a), (b, press b)] ∧
      ∀ x y, [x, y] <:+: l ++ [(a, press a)] → ¬ (x.2 ≤ 0 ∧ 0 ≤ y.2) :=
  (final_post press propose vmin vmax nMin nMax only fuel).onlyT ho

/-- D5b, counting form. -/
theorem only_smallest_length (ho : only = true) :
    (scan press propose vmin vmax nMin nMax only fuel).brackets.length ≤ 1 := by
  rcases only_smallest press propose vmin vmax nMin nMax only fuel ho with h | ⟨_, _, _, h, _⟩ <;> simp [h]

example : (scan pressCubicNeg propMid (6 / 10) (9 / 10) 3 7 true 6).brackets = [(3 / 5, 27 / 40)] := by
  decide +kernel

/-! ### D6 — the label `roots` -/

/-- **D6.** The outcome is "roots" exactly when at least one bracket was handed to `solveWall`
(`len(listResults) == 0` test of line 345). -/
theorem label_roots_iff :
    (scan press propose vmin vmax nMin nMax only fuel).label = .roots ↔
      (scan press propose vmin vmax nMin nMax only fuel).brackets ≠ [] := by
  rw [scan_label, scan_brackets]
  unfold labelOf
  split_ifs <;> simp_all

example : (scan pressLin propMid (6 / 10) (9 / 10) 3 7 true 6).label = .roots := by decide +kernel
example : (scan pressPos propMid (6 / 10) (9 / 10) 3 7 true 6).label ≠ .roots := by decide +kernel

/-! ### The dichotomy behind D7-D9 -/

/-- **Key fact for D7-D9.** Under the proposal contract and with enough fuel, a scan that produced no bracket
ended in exactly one of two ways:
* it reached `vmax`, `vmax` is the last probe, and the pressure there is strictly negative; or
* it stopped early (line 305): the last probe is below `vmax`, its pressure is strictly positive, and `vmax`
  (indeed no velocity `≥ vmax`) was never probed.
In particular the final pressure `pressure2` is never exactly `0` when no bracket was found. -/
theorem no_bracket_dichotomy (hP : ProposeOK propose) (hv : vmin < vmax) (hn : 2 ≤ nMin) (hn' : 2 ≤ nMax)
    (hf : nMax ≤ fuel + 1) (hb : (scan press propose vmin vmax nMin nMax only fuel).brackets = []) :
    ((scan press propose vmin vmax nMin nMax only fuel).probes.getLast? = some (vmax, press vmax) ∧
        press vmax < 0) ∨
    (∃ v, (scan press propose vmin vmax nMin nMax only fuel).probes.getLast? = some (v, press v) ∧
        v < vmax ∧ 0 < press v ∧
        ∀ x ∈ (scan press propose vmin vmax nMin nMax only fuel).probes, x.1 < vmax) := by
  have hPost := final_post press propose vmin vmax nMin nMax only fuel
  have hT := final_term press propose vmin vmax nMin nMax only fuel hv hn' hf
  have h0 := stepMin_pos vmin vmax nMax hv hn'
  have h1 := stepMin_pos vmin vmax nMin hv hn
  rw [scan_brackets] at hb
  rw [scan_probes]
  set r := final press propose vmin vmax nMin nMax only fuel
  have hlast := hPost.last hb
  have hp2 : r.p2 = press r.vw2 := by
    obtain ⟨ys, hys⟩ := List.getLast?_eq_some_iff.mp hlast
    exact hPost.graph (r.vw2, r.p2) (by rw [hys]; simp)
  rcases hT with hT | ⟨hlt, _, hpos⟩ | hT
  · left
    have hle := hPost.le hP.le h1 hv.le
    have heq : r.vw2 = vmax := le_antisymm hle (not_lt.mp hT)
    have hi : r.i ≠ 0 := by
      intro hi
      have := hPost.i0 hi
      rw [this] at heq
      exact absurd heq hv.ne
    have hneg := hPost.top hi hb heq
    rw [hp2, heq] at hlast hneg
    exact ⟨hlast, hneg⟩
  · right
    refine ⟨r.vw2, by rw [← hp2]; exact hlast, hlt, by rw [← hp2]; exact hpos, ?_⟩
    intro x hx
    exact lt_of_le_of_lt (hPost.below h0 hb x hx) hlt
  · exact absurd hb hT

example : (scan pressNeg propMid (6 / 10) (9 / 10) 3 7 true 6).brackets = [] ∧
    (scan pressNeg propMid (6 / 10) (9 / 10) 3 7 true 6).probes.getLast? = some (9 / 10, -1) := by
  decide +kernel
example : (scan pressPos propMid (6 / 10) (9 / 10) 3 7 true 6).brackets = [] ∧
    (scan pressPos propMid (6 / 10) (9 / 10) 3 7 true 6).probes.getLast? = some (7 / 8, 1) := by
  decide +kernel

/-! ### D7 — the label `runaway` -/

/-- **D7.** When the scan reports a runaway, then (proposal contract, enough fuel) no bracket was found, the
pressure at `vmin` is `≤ 0`, `vmax` was the last velocity probed and the pressure there is strictly negative:
"the pressure at the top of the searched window is negative". -/
theorem runaway_means_negative_top (hP : ProposeOK propose) (hv : vmin < vmax) (hn : 2 ≤ nMin)
    (hn' : 2 ≤ nMax) (hf : nMax ≤ fuel + 1)
    (hl : (scan press propose vmin vmax nMin nMax only fuel).label = .runaway) :
    (scan press propose vmin vmax nMin nMax only fuel).brackets = [] ∧ press vmin ≤ 0 ∧
      (scan press propose vmin vmax nMin nMax only fuel).probes.getLast? = some (vmax, press vmax) ∧
      press vmax < 0 := by
  have hb : (scan press propose vmin vmax nMin nMax only fuel).brackets = [] := by
    by_contra hc
    rw [(label_roots_iff press propose vmin vmax nMin nMax only fuel).mpr hc] at hl
    exact absurd hl (by decide)
  have hPost := final_post press propose vmin vmax nMin nMax only fuel
  have hdich := no_bracket_dichotomy press propose vmin vmax nMin nMax only fuel hP hv hn hn' hf hb
  rw [scan_label] at hl
  rw [scan_brackets] at hb
  have hlast := hPost.last hb
  unfold labelOf at hl
  rw [if_neg (by simp [hb])] at hl
  rw [scan_probes] at hdich ⊢
  rcases hdich with ⟨h1, h2⟩ | ⟨v, h1, _, h3, _⟩
  · rw [hlast] at h1
    have e := Option.some.inj h1
    have e2 : (final press propose vmin vmax nMin nMax only fuel).p2 = press vmax := congrArg Prod.snd e
    refine ⟨hb, ?_, by rw [hlast, h1], h2⟩
    by_contra hc
    rw [if_pos ⟨not_le.mp hc, by rw [e2]; exact h2⟩] at hl
    exact absurd hl (by decide)
  · exfalso
    rw [hlast] at h1
    have e2 : (final press propose vmin vmax nMin nMax only fuel).p2 = press v :=
      congrArg Prod.snd (Option.some.inj h1)
    rw [e2] at hl
    by_cases hc : press vmin > 0
    · rw [if_neg (by intro h; linarith [h.2]), if_pos ⟨hc, h3⟩] at hl
      exact absurd hl (by decide)
    · have := (hPost.neg hb (not_lt.mp hc)).1
      rw [e2] at this
      linarith

example : (scan pressNeg propMid (6 / 10) (9 / 10) 3 7 true 6).label = .runaway := by decide +kernel

/-- **D7, the remaining case (characterisation, no hypotheses).** The label is `runaway` with a POSITIVE pressure
at `vmin` exactly when no bracket was found and the last recorded pressure is exactly `0`: in that case the
final `else` of lines 370-378 reports "pressure too small, runaway" although the pressure is positive at the start
and not negative at the end. -/
theorem runaway_label_with_zero_final_pressure :
    ((scan press propose vmin vmax nMin nMax only fuel).label = .runaway ∧ 0 < press vmin) ↔
      ((scan press propose vmin vmax nMin nMax only fuel).brackets = [] ∧ 0 < press vmin ∧
        ∃ v, (scan press propose vmin vmax nMin nMax only fuel).probes.getLast? = some (v, 0)) := by
  have hPost := final_post press propose vmin vmax nMin nMax only fuel
  rw [scan_label, scan_brackets, scan_probes]
  set r := final press propose vmin vmax nMin nMax only fuel
  constructor
  · rintro ⟨hl, h0⟩
    have hb : r.brackets = [] := by
      by_contra hc
      unfold labelOf at hl
      rw [if_pos hc] at hl
      exact absurd hl (by decide)
    refine ⟨hb, h0, r.vw2, ?_⟩
    have hz : r.p2 = 0 := by
      unfold labelOf at hl
      rw [if_neg (by simp [hb])] at hl
      rcases lt_trichotomy r.p2 0 with h | h | h
      · rw [if_pos ⟨h0, h⟩] at hl; exact absurd hl (by decide)
      · exact h
      · rw [if_neg (by intro h'; linarith [h'.2]), if_pos ⟨h0, h⟩] at hl; exact absurd hl (by decide)
    rw [hPost.last hb, hz]
  · rintro ⟨hb, h0, v, hv⟩
    refine ⟨?_, h0⟩
    rw [hPost.last hb] at hv
    have hz : r.p2 = 0 := congrArg Prod.snd (Option.some.inj hv)
    unfold labelOf
    rw [if_neg (by simp [hb]), if_neg (by rw [hz]; intro h; exact lt_irrefl _ h.2),
      if_neg (by rw [hz]; intro h; exact lt_irrefl _ h.2)]

/-- **D7, finding (negative result for the odd case).** Under the proposal contract and with enough fuel the
situation of `runaway_label_with_zero_final_pressure` CANNOT occur: a reported runaway always has `p(vmin) ≤ 0`.
(Reason: a final pressure `0` at `vmax` with no bracket would need the previous pressure to be positive, and
then the early `break` of line 305 fires before `vmax` is evaluated.) -/
theorem runaway_zero_final_pressure_unreachable (hP : ProposeOK propose) (hv : vmin < vmax) (hn : 2 ≤ nMin)
    (hn' : 2 ≤ nMax) (hf : nMax ≤ fuel + 1) :
    ¬ ((scan press propose vmin vmax nMin nMax only fuel).label = .runaway ∧ 0 < press vmin) := by
  rintro ⟨hl, h0⟩
  have := (runaway_means_negative_top press propose vmin vmax nMin nMax only fuel hP hv hn hn' hf hl).2.1
  linarith

/-- **D7, witness that the contract is needed.** With a proposal that overshoots `vmax` (`propOver` answers `2`
for the window `[0, 1]`, violating `propose ≤ posMax`) the scan probes `v = 2 > vmax`; if the pressure there is
exactly `0` the outcome is labelled `runaway` although `p(vmin) = 1 > 0` and the final pressure is `0`, not
negative.  So `runaway_zero_final_pressure_unreachable` really depends on `nextStepDeton` respecting `posMax`. -/
theorem runaway_with_positive_start_witness :
    ¬ ProposeLe propOver ∧
    (scan pressSpike propOver 0 1 2 2 true 1).label = .runaway ∧ 0 < pressSpike 0 ∧
    (scan pressSpike propOver 0 1 2 2 true 1).probes = [(0, 1), (2, 0)] :=
  ⟨propOver_not_ok, by decide +kernel, by decide +kernel, by decide +kernel⟩

/-! ### D8 — the labels `deflagration` and `deflagrationOrRunaway` -/

/-- **D8a.** Label `deflagration` ⇒ no bracket, pressure positive at `vmin`, and the last recorded pressure is
positive (no hypotheses). -/
theorem deflagration_label (hl : (scan press propose vmin vmax nMin nMax only fuel).label = .deflagration) :
    0 < press vmin ∧ (scan press propose vmin vmax nMin nMax only fuel).brackets = [] ∧
      ∃ v p, (scan press propose vmin vmax nMin nMax only fuel).probes.getLast? = some (v, p) ∧ 0 < p := by
  have hPost := final_post press propose vmin vmax nMin nMax only fuel
  rw [scan_label] at hl
  rw [scan_brackets, scan_probes]
  set r := final press propose vmin vmax nMin nMax only fuel
  unfold labelOf at hl
  split_ifs at hl with h1 h2 h3
  have hb : r.brackets = [] := by simpa using h1
  exact ⟨h3.1, hb, r.vw2, r.p2, hPost.last hb, h3.2⟩

/-- **D8a, sharpened.** Under the proposal contract and with enough fuel, label `deflagration` means the scan
stopped EARLY: the last probe is below `vmax` with positive pressure and `vmax` itself was never evaluated. -/
theorem deflagration_label_early_stop (hP : ProposeOK propose) (hv : vmin < vmax) (hn : 2 ≤ nMin)
    (hn' : 2 ≤ nMax) (hf : nMax ≤ fuel + 1)
    (hl : (scan press propose vmin vmax nMin nMax only fuel).label = .deflagration) :
    ∃ v, (scan press propose vmin vmax nMin nMax only fuel).probes.getLast? = some (v, press v) ∧
      v < vmax ∧ 0 < press v ∧
      ∀ x ∈ (scan press propose vmin vmax nMin nMax only fuel).probes, x.1 < vmax := by
  obtain ⟨_, hb, v, p, hlast, hp⟩ := deflagration_label press propose vmin vmax nMin nMax only fuel hl
  rcases no_bracket_dichotomy press propose vmin vmax nMin nMax only fuel hP hv hn hn' hf hb with
    ⟨h1, h2⟩ | h
  · rw [hlast] at h1
    have : p = press vmax := congrArg Prod.snd (Option.some.inj h1)
    linarith
  · exact h

example : (scan pressPos propMid (6 / 10) (9 / 10) 3 7 true 6).label = .deflagration := by decide +kernel

/-- **D8b.** Label `deflagrationOrRunaway` ⇒ no bracket, pressure positive at `vmin`, last recorded pressure
negative (no hypotheses). -/
theorem deflagrationOrRunaway_label
    (hl : (scan press propose vmin vmax nMin nMax only fuel).label = .deflagrationOrRunaway) :
    0 < press vmin ∧ (scan press propose vmin vmax nMin nMax only fuel).brackets = [] ∧
      ∃ v p, (scan press propose vmin vmax nMin nMax only fuel).probes.getLast? = some (v, p) ∧ p < 0 := by
  have hPost := final_post press propose vmin vmax nMin nMax only fuel
  rw [scan_label] at hl
  rw [scan_brackets, scan_probes]
  set r := final press propose vmin vmax nMin nMax only fuel
  unfold labelOf at hl
  split_ifs at hl with h1 h2
  have hb : r.brackets = [] := by simpa using h1
  exact ⟨h2.1, hb, r.vw2, r.p2, hPost.last hb, h2.2⟩

/-- **D8b, sharpened.** Under the proposal contract and with enough fuel, label `deflagrationOrRunaway` means what
the message of line 355 says: pressure positive at `vmin`, `vmax` was probed (last), pressure negative there. -/
theorem deflagrationOrRunaway_label_top (hP : ProposeOK propose) (hv : vmin < vmax) (hn : 2 ≤ nMin)
    (hn' : 2 ≤ nMax) (hf : nMax ≤ fuel + 1)
    (hl : (scan press propose vmin vmax nMin nMax only fuel).label = .deflagrationOrRunaway) :
    0 < press vmin ∧
      (scan press propose vmin vmax nMin nMax only fuel).probes.getLast? = some (vmax, press vmax) ∧
      press vmax < 0 := by
  obtain ⟨h0, hb, v, p, hlast, hp⟩ :=
    deflagrationOrRunaway_label press propose vmin vmax nMin nMax only fuel hl
  rcases no_bracket_dichotomy press propose vmin vmax nMin nMax only fuel hP hv hn hn' hf hb with
    h | ⟨w, h1, _, h3, _⟩
  · exact ⟨h0, h⟩
  · rw [hlast] at h1
    have : p = press w := congrArg Prod.snd (Option.some.inj h1)
    linarith

example : (scan pressDown propMid (6 / 10) (9 / 10) 3 7 true 6).label = .deflagrationOrRunaway := by
  decide +kernel

/-! ### D9 — the early stop -/

/-- **D9.** If the scan ends without a bracket and without having probed `vmax`, the last probed pressure is
positive (it can only have left through the `vw3 == vmax and pressure2 > 0` break of line 305). -/
theorem early_stop_only_when_positive (hP : ProposeOK propose) (hv : vmin < vmax) (hn : 2 ≤ nMin)
    (hn' : 2 ≤ nMax) (hf : nMax ≤ fuel + 1)
    (hb : (scan press propose vmin vmax nMin nMax only fuel).brackets = [])
    (hnot : ∀ x ∈ (scan press propose vmin vmax nMin nMax only fuel).probes, x.1 ≠ vmax) :
    ∃ v, (scan press propose vmin vmax nMin nMax only fuel).probes.getLast? = some (v, press v) ∧
      v < vmax ∧ 0 < press v := by
  rcases no_bracket_dichotomy press propose vmin vmax nMin nMax only fuel hP hv hn hn' hf hb with
    ⟨h1, _⟩ | ⟨v, h1, h2, h3, _⟩
  · exact absurd rfl (hnot _ (List.mem_of_getLast? h1))
  · exact ⟨v, h1, h2, h3⟩

example : (scan pressPos propMid (6 / 10) (9 / 10) 3 7 true 6).brackets = [] ∧
    (scan pressPos propMid (6 / 10) (9 / 10) 3 7 true 6).probes.map Prod.fst =
      [3 / 5, 27 / 40, 3 / 4, 33 / 40, 7 / 8] := by decide +kernel

/-! ### An observation on exact zeros -/

/-- **Observation (all-roots mode).** Because the test of line 327 is `pressure3 >= 0 >= pressure2` with both
inequalities non-strict, a probe that lands EXACTLY on a root produces two brackets for that one root:
`pressCubic` has a single stable root (`3/4`) in `[6/10, 9/10]`, the midpoint proposal probes `3/4` exactly, and
`solveWall` is called on `(27/40, 3/4)` and again on `(3/4, 33/40)`. -/
theorem exact_zero_probe_double_bracket :
    (scan pressCubic propMid (6 / 10) (9 / 10) 3 7 false 6).brackets = [(27 / 40, 3 / 4), (3 / 4, 33 / 40)] ∧
    pressCubic (3 / 4) = 0 := by
  constructor <;> decide +kernel

end Props.C01D
