/-
Property C04, part L: the loop of `findPlasmaProfile` and its success flag ("At every grid point where the profile solver reports
success …").  Statements are about the executable model `Model/ProfileLoop.lean` at `α := ℝ`, `zero := 0`, tied to the real method by
the correspondence run of the C04 check (scripted `findPlasmaProfilePoint` results).  Only property theorems and examples.
-/
import WallGoVerif.Model.ProfileLoop
import WallGoVerif.Lemmas.EOM

namespace Props.C04L

open Model.ProfileLoop

/-- **T04L.0** The executable model is the pure model `Lemmas.EOM.findPlasmaProfileModel` that `Props.C04` (T04.4) speaks about. -/
theorem model_agrees_with_C04 (pts : List (ℝ × ℝ)) :
    findPlasmaProfile (0 : ℝ) pts = Lemmas.EOM.findPlasmaProfileModel pts := by
  rfl

/-- **T04L.1** `successTemperatureProfile` stays `True` exactly when EVERY grid point returned a positive temperature; a single
failure (`return 0, 0` of the point solver, or any `T ≤ 0`) clears it for the whole profile.  No hypotheses. -/
theorem success_iff_all_positive (pts : List (ℝ × ℝ)) :
    (findPlasmaProfile (0 : ℝ) pts).2 = true ↔ ∀ r ∈ pts, 0 < r.1 := by
  rw [model_agrees_with_C04]
  unfold Lemmas.EOM.findPlasmaProfileModel
  rw [Lemmas.EOM.foldl_profileStep_flag]
  simp

example : (findPlasmaProfile (0 : ℝ) [(1, -1 / 2), (2, -1 / 3)]).2 = true := by
  rw [success_iff_all_positive]; intro r hr; simp at hr; rcases hr with rfl | rfl <;> norm_num

/-- **T04L.2** One entry per grid point, whatever happened. -/
theorem length_eq (pts : List (ℝ × ℝ)) : (findPlasmaProfile (0 : ℝ) pts).1.length = pts.length := by
  unfold findPlasmaProfile
  suffices h : ∀ (acc : List (ℝ × ℝ) × Bool), (pts.foldl (profileStep (0 : ℝ)) acc).1.length = acc.1.length + pts.length by
    simpa using h ([], true)
  induction pts with
  | nil => intro acc; simp
  | cons r t ih =>
    intro acc
    rw [List.foldl_cons, ih]
    unfold profileStep
    split_ifs <;> simp <;> omega

/-- **T04L.3** When all points succeed the profile IS the list of returned points (nothing is copied or altered). -/
theorem profile_eq_of_all_positive (pts : List (ℝ × ℝ)) (h : ∀ r ∈ pts, 0 < r.1) :
    (findPlasmaProfile (0 : ℝ) pts).1 = pts := by
  unfold findPlasmaProfile
  suffices hs : ∀ (acc : List (ℝ × ℝ) × Bool), (pts.foldl (profileStep (0 : ℝ)) acc).1 = acc.1 ++ pts by
    simpa using hs ([], true)
  induction pts with
  | nil => intro acc; simp
  | cons r t ih =>
    intro acc
    have hr : 0 < r.1 := h r (by simp)
    rw [List.foldl_cons, ih (fun x hx => h x (by simp [hx]))]
    unfold profileStep
    rw [if_pos hr]
    simp

example : ∃ pts : List (ℝ × ℝ), pts ≠ [] ∧ ∀ r ∈ pts, 0 < r.1 := ⟨[(1, 0)], by simp, by simp⟩

/-- **T04L.4 (what a failed FIRST point stores)** a failure at index 0 copies "the previous entry" of the zero-initialised arrays:
the profile starts with `(0, 0)` and the flag is cleared. -/
theorem first_point_failure : findPlasmaProfile (0 : ℝ) [(0, 0), (3, -1 / 2)] = ([(0, 0), (3, -1 / 2)], false) := by
  simp [findPlasmaProfile, profileStep]

/-- **T04L.5** a later failure copies the last stored point. -/
theorem later_failure_copies : findPlasmaProfile (0 : ℝ) [(2, -1 / 3), (0, 0), (3, -1 / 2)] =
    ([(2, -1 / 3), (2, -1 / 3), (3, -1 / 2)], false) := by
  simp [findPlasmaProfile, profileStep]

end Props.C04L
