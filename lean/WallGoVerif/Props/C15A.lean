/-
Property C15, the `α₊` bracket of `HydrodynamicsTemplateModel.solveAlpha` (src/WallGo/hydrodynamicsTemplateModel.py).

`solveAlpha` brackets the root in `α₊` from below by `α₊` evaluated at the largest allowed `v₊`, where
`α₊(v₊) = (v₋ − v₊)(cb² − v₋v₊)/(3 cb² v₋ (1 − v₊²))` (= `Lemmas.Template.alphaCode v₊ v₋ cb²`).  That is a lower bound only where
`α₊` is decreasing in `v₊`, i.e. on `[0, v₋]`; beyond `v₊ = v₋` (where it vanishes) it grows again.  Before repair 501ff7f the bound
was taken at `min(cs²/vw, vw)`, which exceeds `v₋ = cb` for hybrids with `cb < vw < cs²/cb`, and excluded the physical solution; now it
is taken at `min(min(cs²/vw, vw), v₋)`.  Only property theorems and non-vacuity examples.
-/
import WallGoVerif.Lemmas.Template
import Mathlib.Tactic

namespace Props.C15A

open Lemmas.Template

/-- **T15A.1** `alphaCode` is the expression `solveAlpha` uses for its lower bracket end. -/
theorem alphaCode_eq_code {vp vm cb2 : ℝ} (hvm : vm ≠ 0) (hcb : cb2 ≠ 0) (hvp : 1 - vp ^ 2 ≠ 0) :
    alphaCode vp vm cb2 = (vm - vp) * (cb2 - vm * vp) / (3 * cb2 * vm * (1 - vp ^ 2)) := by
  unfold alphaCode
  field_simp
  ring

example : ∃ vp vm cb2 : ℝ, vm ≠ 0 ∧ cb2 ≠ 0 ∧ 1 - vp ^ 2 ≠ 0 := ⟨1 / 3, 1 / 2, 1 / 4, by norm_num, by norm_num, by norm_num⟩

/-- **T15A.2** `α₊` vanishes at `v₊ = v₋`. -/
theorem alpha_zero_at_vm {vm cb2 : ℝ} (hvm : vm ≠ 0) : alphaCode vm vm cb2 = 0 := by
  unfold alphaCode
  rw [div_self hvm]
  simp

/-- **T15A.3** On `[0, v₋]` (with `v₋² ≤ cb² < 1`, as for deflagrations `v₋ = vw ≤ cb` and hybrids `v₋ = cb`) `α₊` is STRICTLY DECREASING in
`v₊`: a larger `v₊` needs a smaller `α₊`. -/
theorem alpha_strictAnti {vm cb2 vp1 vp2 : ℝ} (hvm : 0 < vm) (hle : vm ^ 2 ≤ cb2) (hcb1 : cb2 < 1)
    (h1 : 0 ≤ vp1) (h12 : vp1 < vp2) (h2 : vp2 ≤ vm) :
    alphaCode vp2 vm cb2 < alphaCode vp1 vm cb2 := by
  have hcb0 : 0 < cb2 := lt_of_lt_of_le (by positivity) hle
  have hvm1 : vm < 1 := by nlinarith
  have hd1 : 0 < 1 - vp1 ^ 2 := by nlinarith
  have hd2 : 0 < 1 - vp2 ^ 2 := by nlinarith
  rw [alphaCode_eq_code hvm.ne' hcb0.ne' hd2.ne', alphaCode_eq_code hvm.ne' hcb0.ne' hd1.ne']
  rw [div_lt_div_iff₀ (by positivity) (by positivity)]
  have hk : 0 < 3 * cb2 * vm := by positivity
  -- N(v2) D(v1) < N(v1) D(v2), with N(v) = (vm - v)(cb2 - vm v), D(v) = 1 - v^2
  have key : (vm - vp2) * (cb2 - vm * vp2) * (1 - vp1 ^ 2) < (vm - vp1) * (cb2 - vm * vp1) * (1 - vp2 ^ 2) := by
    have hδ : 0 < vp2 - vp1 := by linarith
    -- difference = (vp2 - vp1) * [ (cb2 + vm^2)(1 + vp1 vp2) - vm (1 + cb2)(vp1 + vp2) ]
    have hdiff : (vm - vp1) * (cb2 - vm * vp1) * (1 - vp2 ^ 2) - (vm - vp2) * (cb2 - vm * vp2) * (1 - vp1 ^ 2)
        = (vp2 - vp1) * ((cb2 + vm ^ 2) * (1 + vp1 * vp2) - vm * (1 + cb2) * (vp1 + vp2)) := by ring
    have hpos : 0 < (cb2 + vm ^ 2) * (1 + vp1 * vp2) - vm * (1 + cb2) * (vp1 + vp2) := by
      -- G(vp1, vp2) = g(vp2) + (vp2 - vp1) * s,  g(vp2) = g(vm) + (vm - vp2) * t,  g(vm) = (cb2 - vm^2)(1 - vm^2)
      have hvm2 : vm ^ 2 < 1 := by nlinarith
      have hs : 0 < vm * (1 + cb2) - (cb2 + vm ^ 2) * vp2 := by
        have : (cb2 + vm ^ 2) * vp2 ≤ (cb2 + vm ^ 2) * vm := by
          apply mul_le_mul_of_nonneg_left h2; positivity
        nlinarith [mul_pos hvm (sub_pos.mpr hvm2)]
      have ht : 0 ≤ 2 * vm * (1 + cb2) - (cb2 + vm ^ 2) * (vp2 + vm) := by
        have hv2 : 0 ≤ vp2 := le_trans h1 h12.le
        have : (cb2 + vm ^ 2) * (vp2 + vm) ≤ (cb2 + vm ^ 2) * (2 * vm) := by
          apply mul_le_mul_of_nonneg_left (by linarith); positivity
        nlinarith [mul_pos hvm (sub_pos.mpr hvm2)]
      have hg : 0 ≤ (cb2 - vm ^ 2) * (1 - vm ^ 2) := mul_nonneg (sub_nonneg.mpr hle) (sub_pos.mpr hvm2).le
      have e : (cb2 + vm ^ 2) * (1 + vp1 * vp2) - vm * (1 + cb2) * (vp1 + vp2)
          = (cb2 - vm ^ 2) * (1 - vm ^ 2) + (vm - vp2) * (2 * vm * (1 + cb2) - (cb2 + vm ^ 2) * (vp2 + vm))
            + (vp2 - vp1) * (vm * (1 + cb2) - (cb2 + vm ^ 2) * vp2) := by ring
      rw [e]
      have h3 : 0 ≤ (vm - vp2) * (2 * vm * (1 + cb2) - (cb2 + vm ^ 2) * (vp2 + vm)) := mul_nonneg (sub_nonneg.mpr h2) ht
      have h4 : 0 < (vp2 - vp1) * (vm * (1 + cb2) - (cb2 + vm ^ 2) * vp2) := mul_pos hδ hs
      linarith
    nlinarith [mul_pos hδ hpos]
  nlinarith [mul_pos hk (sub_pos.mpr key)]

example : ∃ vm cb2 vp1 vp2 : ℝ, 0 < vm ∧ vm ^ 2 ≤ cb2 ∧ cb2 < 1 ∧ 0 ≤ vp1 ∧ vp1 < vp2 ∧ vp2 ≤ vm :=
  ⟨1 / 2, 1 / 4, 1 / 5, 2 / 5, by norm_num, by norm_num, by norm_num, by norm_num, by norm_num, by norm_num⟩

/-- **T15A.4** On `[0, v₋]` the required `α₊` is non-negative (zero exactly at `v₊ = v₋`). -/
theorem alpha_nonneg {vm cb2 vp : ℝ} (hvm : 0 < vm) (hle : vm ^ 2 ≤ cb2) (hcb1 : cb2 < 1) (h0 : 0 ≤ vp) (h1 : vp ≤ vm) :
    0 ≤ alphaCode vp vm cb2 := by
  rcases h1.eq_or_lt with rfl | hlt
  · rw [alpha_zero_at_vm hvm.ne']
  · rw [← alpha_zero_at_vm (cb2 := cb2) hvm.ne']
    exact (alpha_strictAnti hvm hle hcb1 h0 hlt le_rfl).le

/-- **T15A.5 (the repaired bound is sound)** for ANY upper bound `B ≥ 0` on `v₊`, every admissible `v₊ ∈ [0, min(B, v₋)]` needs an `α₊` at or above
`α₊(min(B, v₋))`, the lower bracket end `solveAlpha` now uses: the bracket never excludes an admissible solution. -/
theorem bound_valid_below_vm {vm cb2 B vp : ℝ} (hvm : 0 < vm) (hle : vm ^ 2 ≤ cb2) (hcb1 : cb2 < 1) (h0 : 0 ≤ vp)
    (hvp : vp ≤ min B vm) : alphaCode (min B vm) vm cb2 ≤ alphaCode vp vm cb2 := by
  rcases hvp.eq_or_lt with rfl | hlt
  · exact le_rfl
  · exact (alpha_strictAnti hvm hle hcb1 h0 hlt (min_le_right _ _)).le

example : ∃ vm cb2 B vp : ℝ, 0 < vm ∧ vm ^ 2 ≤ cb2 ∧ cb2 < 1 ∧ 0 ≤ vp ∧ vp ≤ min B vm :=
  ⟨1 / 2, 1 / 4, 3 / 4, 2 / 5, by norm_num, by norm_num, by norm_num, by norm_num, by norm_num [min_def]⟩

/-- **T15A.6 (beyond `v₋` the relation grows again)** for a hybrid (`v₋² = cb²`) and `v₋ < v₊ < 1` the required `α₊` is positive again: together
with T15A.2/T15A.4 this is the non-monotonicity that made the old bound wrong. -/
theorem alpha_grows_beyond_vm {vm cb2 vp : ℝ} (hvm : 0 < vm) (heq : vm ^ 2 = cb2) (h1 : vm < vp) (h2 : vp < 1) :
    0 < alphaCode vp vm cb2 := by
  have hcb0 : 0 < cb2 := by rw [← heq]; positivity
  have hd : 0 < 1 - vp ^ 2 := by nlinarith
  rw [alphaCode_eq_code hvm.ne' hcb0.ne' hd.ne']
  apply div_pos _ (by positivity)
  have : cb2 - vm * vp = vm * (vm - vp) := by rw [← heq]; ring
  rw [this]
  nlinarith [mul_pos hvm (mul_pos (sub_pos.mpr h1) (sub_pos.mpr h1))]

/-- **T15A.7 (why the bound taken at `min(cs²/vw, vw)` was wrong)** hybrid with `cb = 1/2`: the admissible `v₊ = 2/5 < v₋` needs `α₊ = 1/63`, but an
upper bound `B = 3/4 > v₋` on `v₊` turned into the "lower bound" `α₊(B) = 4/21` — the physical solution was outside the bracket. -/
theorem bound_invalid_above_vm : ∃ vm cb2 B vp : ℝ, vm ^ 2 = cb2 ∧ vm < B ∧ B < 1 ∧ 0 < vp ∧ vp < vm ∧
    alphaCode vp vm cb2 < alphaCode B vm cb2 := by
  refine ⟨1 / 2, 1 / 4, 3 / 4, 2 / 5, by norm_num, by norm_num, by norm_num, by norm_num, by norm_num, ?_⟩
  norm_num [alphaCode]

/-! ### the generated bracket end -/

open Gen.R.Template in
/-- **T15A.8 (regenerated from the source)** the lower bracket end computed by `solveAlpha` (fragment `alMinBracket`, regenerated from
hydrodynamicsTemplateModel.py on every run) is `max(α₊(min(B, v₋)), (μ−ν)/(3μ), 0) + 1e-10` with `v₋ = min(cb, vw)` and
`B = min(cs²/vw, vw)` (or `B = v₋` without the constraint): the bound is taken at `min(B, v₋)`, never above `v₋`. -/
theorem generated_bracket_end (s : Gen.R.Template.TemplP) (vw : ℝ) (c : Bool)
    (hvm : min s.cb vw ≠ 0) (hcb : s.cb2 ≠ 0)
    (hd : 1 - (min (if c = true then min (s.cs2 / vw) vw else min s.cb vw) (min s.cb vw)) ^ 2 ≠ 0) :
    alMinBracket s vw c =
      max (max (alphaCode (min (if c = true then min (s.cs2 / vw) vw else min s.cb vw) (min s.cb vw)) (min s.cb vw) s.cb2)
        ((s.mu - s.nu) / (3 * s.mu))) 0 + 1 / 10000000000 := by
  unfold alMinBracket
  simp only [WG.R.pmin_eq_min, WG.R.pmax_eq_max]
  rw [alphaCode_eq_code hvm hcb hd]

open Gen.R.Template in
/-- **T15A.9 (soundness of the generated bracket end)** under the facts the constructor establishes (`cb² = cb2`, `0 < cb`, `cb2 < 1`) and `0 < vw`:
every admissible `v₊ ∈ [0, min(B, v₋)]` has `α₊(v₊) ≥` the `α₊`-term of the generated bound. -/
theorem generated_bracket_sound (s : Gen.R.Template.TemplP) {vw vp : ℝ} (c : Bool) (hcb : s.cb ^ 2 = s.cb2) (hcb0 : 0 < s.cb) (hcb1 : s.cb2 < 1)
    (hvw : 0 < vw) (h0 : 0 ≤ vp)
    (hvp : vp ≤ min (if c = true then min (s.cs2 / vw) vw else min s.cb vw) (min s.cb vw)) :
    alphaCode (min (if c = true then min (s.cs2 / vw) vw else min s.cb vw) (min s.cb vw)) (min s.cb vw) s.cb2 ≤ alphaCode vp (min s.cb vw) s.cb2 := by
  have hvm : 0 < min s.cb vw := lt_min hcb0 hvw
  have hle : (min s.cb vw) ^ 2 ≤ s.cb2 := by
    rw [← hcb]
    exact pow_le_pow_left₀ hvm.le (min_le_left _ _) 2
  exact bound_valid_below_vm hvm hle hcb1 h0 hvp

example : ∃ (s : Gen.R.Template.TemplP) (vw vp : ℝ), s.cb ^ 2 = s.cb2 ∧ 0 < s.cb ∧ s.cb2 < 1 ∧ 0 < vw ∧ 0 ≤ vp ∧
    vp ≤ min (min (s.cs2 / vw) vw) (min s.cb vw) :=
  ⟨{ cb2 := 1 / 4, cs2 := 1 / 3, alN := 0, psiN := 1, cb := 1 / 2, cs := 0, wN := 1, pN := 0, Tnucl := 1, nu := 5, mu := 4, vJ := 0, vMin := 0,
     epsilon := 0 }, 11 / 20, 2 / 5, by norm_num, by norm_num, by norm_num, by norm_num, by norm_num, by norm_num [min_def]⟩

end Props.C15A
