/-
Property C14: "Loading a directory of collision files yields, for every ordered particle pair,
exactly the numbers stored for that pair, and either a complete array is installed or a
collision-load error is raised leaving any previously loaded array in place. Changing the polynomial
basis does not change the result of applying the collision operator to any distribution.
Interpolating to a smaller momentum grid gives, for each particle pair independently of which other
particles are present, the original operator's action on every low-order distribution evaluated at
the new grid points."

Code: src/WallGo/collisionArray.py (`newFromDirectory`, `changeBasis`,
`interpolateCollisionArray`), src/WallGo/boltzmann.py `loadCollisions`,
src/WallGo/polynomial.py `changeBasis(…, inverseTranspose=True)` and `evaluate`.

Model: `Model.Collision` (hand model of the loading logic: which file goes to which block, which
conditions raise `CollisionLoadError`, when the solver attribute is replaced).  The numerical part
(basis change, interpolation) is linear algebra over `Matrix _ _ ℝ`:

* `T[i][n] = T̄_n(x_i)` (the matrix `_chebyshevMatrix`, `Model.Poly.chebyshevMatrix`, nonsingular on
  distinct nodes by `Props.C16Cheb.chebyshevMatrix_injective`) maps the Chebyshev coefficients `c` of
  a distribution to its cardinal coefficients (grid values) `v = T *ᵥ c`.
* The collision tensor `C[a, pz, pp, b, j, k]` acts on a distribution by contracting its last
  (polynomial) axes `j, k` (and the particle axis `b`) with the distribution's coefficients.  We
  write one polynomial axis as the column index of a matrix and everything else as the row index.
* `E[p'][p] = C_p(x'_{p'})`: values of the source grid's cardinal functions at the target nodes
  (what `evaluate` multiplies with along the axes (1,2)).
* `P = embed k k'`: 0/1 embedding of the first `k'` Chebyshev orders (the slice
  `[..., :N'-1, :N'-1]`).

Sections: A loading (T14.1, T14.1'), B `loadCollisions` (T14.2), C basis change (T14.3),
D interpolation (T14.4), E the `moveaxis`/`reshape` fact.
-/
import WallGoVerif.Lemmas.Collision
import WallGoVerif.Lemmas.CollisionCheb
import WallGoVerif.Props.C16Cheb

namespace Props.C14

open Model.Collision Lemmas.Collision Matrix

/-! ## A. `newFromDirectory`: which numbers end up where, and when it fails -/

section Loading
variable {B : Type} {dir : Dir B} {gridN n : Nat}

/-- **T14.1 (a): block (i, j) is exactly the dataset stored in file (i, j).**
After a successful load the list of assignments `collisionFileArray[i,:,:,j,:,:] = dataset` has one
entry for every ordered pair `(i, j)`, `i, j < n`, exactly once and in loop order
(`keys = pairs n`, which has no duplicates and contains precisely the pairs below `n`); the entry
for `(i, j)` is the dataset of the file of `(i, j)`; and no entry carries any other data.
(C14: "for every ordered particle pair, exactly the numbers stored for that pair".) -/
theorem load_blocks {l : Loaded B} (h : newFromDirectory dir gridN n = .ok l) :
    l.blocks.map Prod.fst = pairs n ∧ (pairs n).Nodup ∧
    (∀ i j, (i, j) ∈ pairs n ↔ i < n ∧ j < n) ∧
    (∀ i j, i < n → j < n → ∃ f, dir i j = some f ∧ ((i, j), f.block) ∈ l.blocks) ∧
    (∀ e ∈ l.blocks, ∃ f, dir e.1.1 e.1.2 = some f ∧ e.2 = f.block) := by
  obtain ⟨acc, hacc, _, hbl, _⟩ := newFromDirectory_eq_ok h
  have hI := readAll_inv hacc
  have hfiles : ∀ e ∈ l.blocks, ∃ f, dir e.1.1 e.1.2 = some f ∧ e.2 = f.block := by
    intro e he
    rw [hbl] at he
    obtain ⟨f, _, _, h1, h2, _⟩ := hI.files e he
    exact ⟨f, h1, h2⟩
  refine ⟨by rw [hbl]; exact hI.keys, pairs_nodup n, fun i j => mem_pairs, ?_, hfiles⟩
  intro i j hi hj
  have hmem : (i, j) ∈ l.blocks.map Prod.fst := by
    rw [hbl, hI.keys]; exact mem_pairs.mpr ⟨hi, hj⟩
  obtain ⟨e, he, hek⟩ := List.mem_map.mp hmem
  obtain ⟨f, h1, h2⟩ := hfiles e he
  obtain ⟨⟨i', j'⟩, d⟩ := e
  simp only [Prod.mk.injEq] at hek
  obtain ⟨rfl, rfl⟩ := hek
  exact ⟨f, h1, by simpa [← h2] using he⟩

/-- **T14.1 (d): a successful load has at least one particle.** -/
theorem load_nonempty {l : Loaded B} (h : newFromDirectory dir gridN n = .ok l) : 0 < n := by
  obtain ⟨acc, hacc, hfirst, _, _⟩ := newFromDirectory_eq_ok h
  rcases Nat.eq_zero_or_pos n with rfl | hn
  · have h0 : readAll dir gridN 0 = .ok { first := none, blocks := [] } := rfl
    rw [h0] at hacc
    cases hacc
    cases hfirst
  · exact hn

/-- **T14.1 (b): a loaded array is homogeneous and usable.** After a successful load every file has
the recorded basis size and basis type, the basis is a known one, and the target grid is not larger
than the stored grid (so `interpolateCollisionArray`'s assertion cannot fail). -/
theorem load_metadata {l : Loaded B} (h : newFromDirectory dir gridN n = .ok l) :
    (∀ i j, i < n → j < n → ∃ f, dir i j = some f ∧ f.size = l.size ∧ f.basis = l.basis) ∧
    l.basis ≠ .other ∧ gridN ≤ l.size := by
  obtain ⟨acc, hacc, hfirst, hbl, _⟩ := newFromDirectory_eq_ok h
  have hI := readAll_inv hacc
  have key : ∀ i j, i < n → j < n → ∃ f, dir i j = some f ∧ f.size = l.size ∧ f.basis = l.basis ∧
      gridN ≤ l.size ∧ l.basis ≠ .other := by
    intro i j hi hj
    have hmem : (i, j) ∈ acc.blocks.map Prod.fst := by
      rw [hI.keys]; exact mem_pairs.mpr ⟨hi, hj⟩
    obtain ⟨e, he, hek⟩ := List.mem_map.mp hmem
    obtain ⟨f, s, b, h1, _, h3, h4, h5, h6, h7⟩ := hI.files e he
    rw [hfirst] at h3
    cases h3
    rw [hek] at h1
    exact ⟨f, h1, h4, h5, h6, h7⟩
  have hn : 0 < n := load_nonempty h
  obtain ⟨f, _, _, _, h4, h5⟩ := key 0 0 hn hn
  exact ⟨fun i j hi hj => by
    obtain ⟨f, h1, h2, h3, _⟩ := key i j hi hj
    exact ⟨f, h1, h2, h3⟩, h5, h4⟩

/-- **T14.1 (c): interpolation is requested exactly when the stored size differs from the grid.** -/
theorem load_interpolated {l : Loaded B} (h : newFromDirectory dir gridN n = .ok l) :
    l.interpolated = true ↔ l.size ≠ gridN := by
  obtain ⟨_, _, _, _, hi⟩ := newFromDirectory_eq_ok h
  rw [hi]; simp

/-- **T14.1' (errors are not spurious).** If there is at least one particle, every file is present,
all files record the same basis size `s ≥ grid.N` and the same known basis `b`, then the load
succeeds, with exactly that size and basis. -/
theorem load_succeeds {s : Nat} {b : Basis} (hn : 0 < n) (hb : b ≠ .other) (hs : gridN ≤ s)
    (hall : ∀ i j, i < n → j < n → ∃ f, dir i j = some f ∧ f.size = s ∧ f.basis = b) :
    ∃ l, newFromDirectory dir gridN n = .ok l ∧ l.size = s ∧ l.basis = b := by
  obtain ⟨acc, hacc⟩ := foldlM_ok (dir := dir) hs hb (pairs n) { first := none, blocks := [] }
    (fun p hp => hall p.1 p.2 (mem_pairs'.mp hp).1 (mem_pairs'.mp hp).2) (Or.inl rfl)
  have hacc' : readAll dir gridN n = .ok acc := hacc
  have hI := readAll_inv hacc'
  cases hfirst : acc.first with
  | none =>
    have := hI.first_none hfirst
    rw [pairs_eq_nil] at this
    omega
  | some sb =>
    obtain ⟨s', b'⟩ := sb
    have hl : newFromDirectory dir gridN n
        = .ok { size := s', basis := b', blocks := acc.blocks, interpolated := decide (s' ≠ gridN) } := by
      unfold newFromDirectory
      rw [hacc']
      simp only [hfirst]
    obtain ⟨f, h1, h2, h3⟩ := (load_metadata hl).1 0 0 hn hn
    obtain ⟨f', h1', h2', h3'⟩ := hall 0 0 hn hn
    rw [h1] at h1'
    cases h1'
    exact ⟨_, hl, by rw [← h2, ← h2'], by rw [← h3, ← h3']⟩

/-- **T14.1' (complete list of error conditions).** `newFromDirectory` raises `CollisionLoadError`
if and only if there is no particle, or for some ordered pair `(i, j)` the file is missing, records a
basis size smaller than the target grid, records an unknown basis, or disagrees in basis size or
basis type with the first file read (pair `(0, 0)`).
(For `n = 0` the Python code fails with `UnboundLocalError` rather than `CollisionLoadError`; the model
maps that to the same error value, see the model's comment.) -/
theorem load_error_iff :
    newFromDirectory dir gridN n = .error .loadError ↔
      n = 0 ∨ ∃ i j, i < n ∧ j < n ∧
        (dir i j = none ∨ ∃ f, dir i j = some f ∧
          (gridN > f.size ∨ f.basis = .other ∨
            ∃ f0, dir 0 0 = some f0 ∧ (f.size ≠ f0.size ∨ f.basis ≠ f0.basis))) := by
  constructor
  · intro herr
    by_contra hne
    push Not at hne
    obtain ⟨hn0, hall⟩ := hne
    have hn : 0 < n := Nat.pos_of_ne_zero hn0
    obtain ⟨h00, _⟩ := hall 0 0 hn hn
    obtain ⟨f0, hf0⟩ := Option.ne_none_iff_exists'.mp h00
    obtain ⟨_, hf0'⟩ := hall 0 0 hn hn
    obtain ⟨hs0, hb0, _⟩ := hf0' f0 hf0
    obtain ⟨l, hl, _⟩ := load_succeeds (dir := dir) (gridN := gridN) (s := f0.size) (b := f0.basis)
      hn hb0 (by omega) (fun i j hi hj => by
        obtain ⟨hne, hf⟩ := hall i j hi hj
        obtain ⟨f, hfe⟩ := Option.ne_none_iff_exists'.mp hne
        obtain ⟨_, _, hagree⟩ := hf f hfe
        obtain ⟨e1, e2⟩ := hagree f0 hf0
        exact ⟨f, hfe, e1, e2⟩)
    rw [hl] at herr
    cases herr
  · intro hd
    cases hres : newFromDirectory dir gridN n with
    | error e => rw [err_eq e]
    | ok l =>
      exfalso
      have hn := load_nonempty hres
      obtain ⟨hfiles, hbasis, hsize⟩ := load_metadata hres
      rcases hd with rfl | ⟨i, j, hi, hj, hbad⟩
      · omega
      · obtain ⟨f, hf, hfs, hfb⟩ := hfiles i j hi hj
        rcases hbad with hnone | ⟨f', hf', hbad⟩
        · rw [hnone] at hf; cases hf
        · rw [hf] at hf'
          cases hf'
          rcases hbad with h1 | h1 | ⟨f0, hf0, h1⟩
          · omega
          · exact hbasis (hfb ▸ h1)
          · obtain ⟨g, hg, hgs, hgb⟩ := hfiles 0 0 hn hn
            rw [hg] at hf0
            cases hf0
            rcases h1 with h1 | h1
            · exact h1 (hfs.trans hgs.symm)
            · exact h1 (hfb.trans hgb.symm)

/-- every error value is the single exception class `CollisionLoadError`: a load either succeeds or
raises `CollisionLoadError`. -/
theorem load_ok_or_loadError :
    (∃ l, newFromDirectory dir gridN n = .ok l) ∨ newFromDirectory dir gridN n = .error .loadError := by
  cases h : newFromDirectory dir gridN n with
  | error e => right; rw [err_eq e]
  | ok l => left; exact ⟨l, rfl⟩

end Loading

/-! ### Non-vacuity for section A -/

/-- a concrete successful load: two particles, stored size 7, cardinal basis, grid size 5; the four
blocks are installed in loop order and interpolation is requested. -/
example : newFromDirectory dirGood 5 2 = .ok
    { size := 7, basis := .cardinal,
      blocks := [((0, 0), 0), ((0, 1), 1), ((1, 0), 10), ((1, 1), 11)], interpolated := true } := by
  rfl

/-- same files, grid of the stored size: no interpolation -/
example : newFromDirectory dirGood 7 2 = .ok
    { size := 7, basis := .cardinal,
      blocks := [((0, 0), 0), ((0, 1), 1), ((1, 0), 10), ((1, 1), 11)], interpolated := false } := by
  rfl

/-- the hypotheses of `load_succeeds` hold for `dirGood` -/
example : (0 < 2) ∧ Basis.cardinal ≠ .other ∧ 5 ≤ 7 ∧
    ∀ i j, i < 2 → j < 2 → ∃ f, dirGood i j = some f ∧ f.size = 7 ∧ f.basis = .cardinal := by
  refine ⟨by decide, by decide, by decide, ?_⟩
  intro i j hi hj
  exact ⟨{ size := 7, basis := .cardinal, block := 10 * i + j }, by simp [dirGood, hi, hj], rfl, rfl⟩

/-- missing file → `CollisionLoadError` -/
example : newFromDirectory dirMissing 5 2 = .error .loadError := by rfl
/-- basis-size mismatch between files → `CollisionLoadError` -/
example : newFromDirectory dirSizeMismatch 5 2 = .error .loadError := by rfl
/-- basis-type mismatch between files → `CollisionLoadError` -/
example : newFromDirectory dirBasisMismatch 5 2 = .error .loadError := by rfl
/-- unknown basis → `CollisionLoadError` -/
example : newFromDirectory dirUnknownBasis 5 2 = .error .loadError := by rfl
/-- target grid larger than the stored one → `CollisionLoadError` -/
example : newFromDirectory dirGood 8 2 = .error .loadError := by rfl
/-- no particles → error -/
example : newFromDirectory dirGood 5 0 = .error .loadError := by rfl
/-- the right-hand side of `load_error_iff` for the directory with a missing file -/
example : (2 = 0) ∨ ∃ i j, i < 2 ∧ j < 2 ∧
    (dirMissing i j = none ∨ ∃ f, dirMissing i j = some f ∧
      ((5 : Nat) > f.size ∨ f.basis = .other ∨
        ∃ f0, dirMissing 0 0 = some f0 ∧ (f.size ≠ f0.size ∨ f.basis ≠ f0.basis))) :=
  Or.inr ⟨1, 0, by decide, by decide, Or.inl rfl⟩

/-! ## B. `BoltzmannSolver.loadCollisions` -/

section LoadCollisions
variable {B : Type} (cur : Option (Loaded B)) (dir : Dir B) (gridN n : Nat)

/-- **T14.2 (failure leaves the installed array in place).** If `loadCollisions` raises, the solver's
`collisionArray` attribute is what it was before the call — whatever it was, including "not set" —
the exception is `CollisionLoadError`, and it is the one raised by `newFromDirectory`. -/
theorem loadCollisions_error {e : Err} (h : (loadCollisions cur dir gridN n).2 = some e) :
    (loadCollisions cur dir gridN n).1 = cur ∧ e = .loadError ∧
      newFromDirectory dir gridN n = .error .loadError := by
  unfold loadCollisions at h ⊢
  cases hres : newFromDirectory dir gridN n with
  | error e' => exact ⟨rfl, err_eq e, by rw [err_eq e']⟩
  | ok l => rw [hres] at h; cases h

/-- **T14.2 (success installs a complete array).** If `loadCollisions` returns normally, the attribute
is the array produced by a successful `newFromDirectory` (to which T14.1 applies: all `n²` blocks). -/
theorem loadCollisions_ok (h : (loadCollisions cur dir gridN n).2 = none) :
    ∃ l, newFromDirectory dir gridN n = .ok l ∧ (loadCollisions cur dir gridN n).1 = some l := by
  unfold loadCollisions at h ⊢
  cases hres : newFromDirectory dir gridN n with
  | error e' => rw [hres] at h; cases h
  | ok l => exact ⟨l, rfl, rfl⟩

/-- **T14.2 (dichotomy).** Either a complete array is installed, or `CollisionLoadError` is raised and
the previous value is kept. -/
theorem loadCollisions_dichotomy :
    (∃ l, newFromDirectory dir gridN n = .ok l ∧ loadCollisions cur dir gridN n = (some l, none)) ∨
    loadCollisions cur dir gridN n = (cur, some .loadError) := by
  unfold loadCollisions
  cases hres : newFromDirectory dir gridN n with
  | error e' => right; rw [err_eq e']
  | ok l => left; exact ⟨l, rfl, rfl⟩

/-- every error of the model is `CollisionLoadError` -/
theorem err_unique (e : Err) : e = .loadError := err_eq e

end LoadCollisions

/-- a previously loaded array survives a failed load … -/
example :
    let old : Loaded Nat := { size := 7, basis := .cardinal, blocks := [((0, 0), 42)], interpolated := false }
    loadCollisions (some old) dirMissing 5 2 = (some old, some .loadError) := by rfl
/-- … "nothing loaded" also survives … -/
example : loadCollisions (none : Option (Loaded Nat)) dirMissing 5 2 = (none, some .loadError) := by rfl
/-- … and a successful load replaces it. -/
example : (loadCollisions (none : Option (Loaded Nat)) dirGood 5 2).2 = none := by rfl

/-! ## C. Basis change preserves the action of the collision operator -/

section BasisChange
variable {m n : ℕ}

/-- **T14.3 (Cardinal → Chebyshev).** Convention read off the code:
`Polynomial.changeBasis(newBasis, inverseTranspose=True)` builds `tnMatrix[i][n] = T̄_n(x_i) = T`,
inverts it when the new basis is Chebyshev, and then replaces it by the transpose of its inverse; the
contraction `new[…, a, …] = Σ_b tnMatrix[a, b] · old[…, b, …]` along a polynomial axis is therefore
`new[a] = Σ_b T[b, a] · old[b]`, i.e. `C' = C * T` on that (column) axis.  Since `T` maps Chebyshev
coefficients `c` to grid values `v = T *ᵥ c`, the transformed operator applied to the Chebyshev
coefficients gives the same result as the original operator applied to the grid values.
(C14: "changing the polynomial basis does not change the result of applying the collision operator".) -/
theorem toChebyshev_action (C : Matrix (Fin m) (Fin n) ℝ) (T : Matrix (Fin n) (Fin n) ℝ)
    (c : Fin n → ℝ) : (C * T) *ᵥ c = C *ᵥ (T *ᵥ c) := by
  rw [Matrix.mulVec_mulVec]

/-- **T14.3 (Chebyshev → Cardinal).** With `newBasis = 'Cardinal'` the code's matrix is
`(T⁻¹)ᵀ`, i.e. `C'' = C' * T⁻¹` on the column axis; applied to the grid values `T *ᵥ c` of a
distribution it gives what the Chebyshev-form operator gives on the coefficients `c`. -/
theorem toCardinal_action (C' : Matrix (Fin m) (Fin n) ℝ) (T : Matrix (Fin n) (Fin n) ℝ)
    (hT : IsUnit T.det) (c : Fin n → ℝ) : (C' * T⁻¹) *ᵥ (T *ᵥ c) = C' *ᵥ c := by
  rw [Matrix.mulVec_mulVec, Matrix.mul_assoc, Matrix.nonsing_inv_mul _ hT, Matrix.mul_one]

/-- **T14.3 (same statement for an arbitrary vector of grid values).** `C' * T⁻¹` applied to grid
values `v` is `C'` applied to the Chebyshev coefficients `T⁻¹ *ᵥ v` of the interpolant of `v`. -/
theorem toCardinal_action' (C' : Matrix (Fin m) (Fin n) ℝ) (T : Matrix (Fin n) (Fin n) ℝ)
    (v : Fin n → ℝ) : (C' * T⁻¹) *ᵥ v = C' *ᵥ (T⁻¹ *ᵥ v) := by
  rw [Matrix.mulVec_mulVec]

/-- **T14.3 (round trip).** Cardinal → Chebyshev → Cardinal returns the original tensor. -/
theorem roundtrip_cardinal (C : Matrix (Fin m) (Fin n) ℝ) (T : Matrix (Fin n) (Fin n) ℝ)
    (hT : IsUnit T.det) : (C * T) * T⁻¹ = C :=
  Matrix.mul_nonsing_inv_cancel_right T C hT

/-- **T14.3 (round trip, other direction).** Chebyshev → Cardinal → Chebyshev returns the original. -/
theorem roundtrip_chebyshev (C' : Matrix (Fin m) (Fin n) ℝ) (T : Matrix (Fin n) (Fin n) ℝ)
    (hT : IsUnit T.det) : (C' * T⁻¹) * T = C' :=
  Matrix.nonsing_inv_mul_cancel_right T C' hT

/-- **T14.3 (both polynomial axes).** The tensor has two polynomial axes `j` (pz) and `k` (pp), each
transformed by its own matrix (`changeBasis` loops over the axes): `C'[r, j', k'] =
Σ_{j k} C[r, j, k] T₁[j, j'] T₂[k, k']`.  Its action on the coefficient array `c[j', k']` of a
distribution equals the action of `C` on the transformed (tensor-product) coefficients
`Σ_{j' k'} T₁[j, j'] T₂[k, k'] c[j', k']`.  `r` stands for all remaining indices. -/
theorem changeBasis_two_axes {p a b a' b' : ℕ} (C : Fin p → Fin a → Fin b → ℝ)
    (T₁ : Matrix (Fin a) (Fin a') ℝ) (T₂ : Matrix (Fin b) (Fin b') ℝ) (c : Fin a' → Fin b' → ℝ)
    (r : Fin p) :
    ∑ j', ∑ k', (∑ j, ∑ k, C r j k * T₁ j j' * T₂ k k') * c j' k'
      = ∑ j, ∑ k, C r j k * (∑ j', ∑ k', T₁ j j' * T₂ k k' * c j' k') := by
  simp only [Finset.sum_mul, Finset.mul_sum]
  calc ∑ j', ∑ k', ∑ j, ∑ k, C r j k * T₁ j j' * T₂ k k' * c j' k'
      = ∑ j', ∑ j, ∑ k', ∑ k, C r j k * T₁ j j' * T₂ k k' * c j' k' :=
        Finset.sum_congr rfl fun j' _ => Finset.sum_comm
    _ = ∑ j, ∑ j', ∑ k', ∑ k, C r j k * T₁ j j' * T₂ k k' * c j' k' := Finset.sum_comm
    _ = ∑ j, ∑ j', ∑ k, ∑ k', C r j k * T₁ j j' * T₂ k k' * c j' k' :=
        Finset.sum_congr rfl fun j _ => Finset.sum_congr rfl fun j' _ => Finset.sum_comm
    _ = ∑ j, ∑ k, ∑ j', ∑ k', C r j k * T₁ j j' * T₂ k k' * c j' k' :=
        Finset.sum_congr rfl fun j _ => Finset.sum_comm
    _ = ∑ j, ∑ k, ∑ j', ∑ k', C r j k * (T₁ j j' * T₂ k k' * c j' k') := by
        simp only [mul_assoc]

end BasisChange

/-- numeric instance of `toChebyshev_action`, `toCardinal_action`, `roundtrip_cardinal`: a 2×2
operator, an invertible `T` (det = −2 ≠ 0). -/
example : IsUnit (!![1, 1; 1, -1] : Matrix (Fin 2) (Fin 2) ℝ).det := by
  simp [Matrix.det_fin_two]; norm_num

example : ((!![2, 3; 5, 7] : Matrix (Fin 2) (Fin 2) ℝ) * !![1, 1; 1, -1]) *ᵥ ![1, 2]
    = !![2, 3; 5, 7] *ᵥ (!![1, 1; 1, -1] *ᵥ ![1, 2]) :=
  toChebyshev_action _ _ _

/-- … and the common value is computed directly: `(3, 8)` for both sides. -/
example : ((!![2, 3; 5, 7] : Matrix (Fin 2) (Fin 2) ℝ) * !![1, 1; 1, -1]) *ᵥ ![1, 2] = ![3, 8] := by
  ext i; fin_cases i <;> simp [Matrix.mulVec, dotProduct, Matrix.mul_apply, Fin.sum_univ_two] <;> norm_num

/-! ### The hypothesis `IsUnit T.det` holds for the code's matrix -/

section CodeMatrix
open Model.Poly Lemmas.CollisionCheb

/-- **T14.3 (the code's `T` is invertible).** `chebMat d false xs m` is the matrix
`tnMatrix[i][n] = T̄_n(x_i)` that `Polynomial.changeBasis` builds for direction `d` (`pz` or `pp`)
with `endpoints=False` (entries: `chebMat_apply`; its product with a coefficient list is the model's
`changeBasis('Cardinal')`: `mulVec_chebMat`).  On a complete grid `xs` of distinct nodes starting at
`−1` and ending at `+1` its determinant is a unit, by `Props.C16Cheb.chebyshevMatrix_injective`. So the
hypothesis `IsUnit T.det` of `toCardinal_action`, `roundtrip_cardinal`, `roundtrip_chebyshev` is
satisfied by the matrices the code uses, and `np.linalg.inv` in `changeBasis` is well defined. -/
theorem code_matrix_isUnit_det (d : Model.Poly.Dir) (xs : List ℝ) (hnd : xs.Nodup)
    (hfirst : xs.head? = some (-1)) (hlast : xs.getLast? = some 1) (m : ℕ)
    (hm : m = (kept d false xs).length) : IsUnit (chebMat d false xs m).det :=
  chebMat_isUnit_det d false xs hnd (fun _ _ => hfirst) (fun _ => hlast) m hm

/-- **T14.3 for the code's matrices**: Cardinal → Chebyshev → Cardinal on the grid's own nodes returns
the original collision tensor, and the Chebyshev-form operator acts on coefficients as the
cardinal-form operator acts on grid values. -/
theorem code_basis_change (d : Model.Poly.Dir) (xs : List ℝ) (hnd : xs.Nodup)
    (hfirst : xs.head? = some (-1)) (hlast : xs.getLast? = some 1) {r m : ℕ}
    (hm : m = (kept d false xs).length) (C : Matrix (Fin r) (Fin m) ℝ) (c : Fin m → ℝ) :
    (C * chebMat d false xs m) * (chebMat d false xs m)⁻¹ = C ∧
    (C * chebMat d false xs m) *ᵥ c = C *ᵥ (chebMat d false xs m *ᵥ c) :=
  ⟨roundtrip_cardinal C _ (code_matrix_isUnit_det d xs hnd hfirst hlast m hm),
   toChebyshev_action C _ c⟩

/-- non-vacuity: the grid's nodes `−cos(jπ/M)`, `M = 4`, direction `pz` (3 interior nodes, orders 2,3,4). -/
example : IsUnit (chebMat .pz false (Lemmas.Lobatto.lobNodes 4) 3).det :=
  code_matrix_isUnit_det .pz _ (Props.C16Cheb.lobNodes_ok (by norm_num)).1
    (Props.C16Cheb.lobNodes_ok (by norm_num)).2.1 (Props.C16Cheb.lobNodes_ok (by norm_num)).2.2 3
    (by simp [Lemmas.ChebyshevModel.kept_length, restrictionOf, Lemmas.ChebyshevModel.minOrder])

end CodeMatrix

/-! ## D. Interpolation to a smaller grid -/

section Interpolation
variable {q q' k k' : ℕ}

/-- **T14.4 (the interpolated operator acts like the original one on low-order distributions).**
`interpolateCollisionArray` brings the source to the Chebyshev basis on the column axes (`Cch`),
evaluates along the cardinal (momentum) axes at the target nodes (`E * ·`) and keeps the first `k'`
Chebyshev orders (`· * P`).  Applied to target-grid Chebyshev coefficients `c'` the result is: pad `c'`
with zeros (`P *ᵥ c'`, a low-order distribution on the source grid), apply the original operator
(`Cch *ᵥ ·`, values at the source nodes), and evaluate the cardinal interpolant of these values at the
new grid points (`E *ᵥ ·`). -/
theorem interp_action (E : Matrix (Fin q') (Fin q) ℝ) (Cch : Matrix (Fin q) (Fin k) ℝ)
    (c' : Fin k' → ℝ) :
    (E * Cch * embed k k') *ᵥ c' = E *ᵥ (Cch *ᵥ (embed k k' *ᵥ c')) := by
  rw [Matrix.mulVec_mulVec, Matrix.mulVec_mulVec, Matrix.mul_assoc]

/-- **T14.4 (`· * P` is the slice `[..., :k']`).** -/
theorem mul_embed_apply (h : k' ≤ k) (Cch : Matrix (Fin q) (Fin k) ℝ) (i : Fin q) (j : Fin k') :
    (Cch * embed k k') i j = Cch i ⟨j, lt_of_lt_of_le j.2 h⟩ := by
  rw [embed_eq_select h, mul_select_apply]

/-- **T14.4 (entries of the interpolated operator)**: literally what the code computes —
`evaluate` forms `Σ_p C_p(x'_{p'}) · coeff[p, j]` for every order `j`, then the orders `j < k'` are kept. -/
theorem interp_apply (h : k' ≤ k) (E : Matrix (Fin q') (Fin q) ℝ) (Cch : Matrix (Fin q) (Fin k) ℝ)
    (p' : Fin q') (j : Fin k') :
    (E * Cch * embed k k') p' j = ∑ p, E p' p * Cch p ⟨j, lt_of_lt_of_le j.2 h⟩ := by
  rw [Matrix.mul_assoc, Matrix.mul_apply]
  simp only [mul_embed_apply h]

/-- **T14.4 (`P *ᵥ c'` is `c'` padded with zeros).** -/
theorem embed_mulVec_apply (h : k' ≤ k) (c' : Fin k' → ℝ) (i : Fin k) :
    (embed k k' *ᵥ c') i = if hi : (i : ℕ) < k' then c' ⟨i, hi⟩ else 0 := by
  rw [embed_eq_select h]
  split_ifs with hi
  · have := select_mulVec_apply (fun j : Fin k' => (⟨j, lt_of_lt_of_le j.2 h⟩ : Fin k))
      (fun a b hab => by simpa [Fin.ext_iff] using hab) c' ⟨i, hi⟩
    simpa using this
  · apply select_mulVec_apply_of_notMem
    intro j hj
    apply hi
    rw [hj]
    exact j.2

/-- **T14.4 (two polynomial axes at once).** The code slices both polynomial axes
(`[..., :N'-1, :N'-1]`); on the flattened column index this is the selection of the columns `ι j`
for an injective `ι` (the pairs of kept orders).  Same statement with `select ι` in place of `embed`:
the interpolated operator acts as "pad (`c'` placed at the kept orders, zero elsewhere), apply the
original operator, evaluate at the new nodes", and `· * select ι` just picks the columns `ι j`. -/
theorem interp_action_select (E : Matrix (Fin q') (Fin q) ℝ) (Cch : Matrix (Fin q) (Fin k) ℝ)
    (ι : Fin k' → Fin k) (hι : Function.Injective ι) (c' : Fin k' → ℝ) :
    (E * Cch * select ι) *ᵥ c' = E *ᵥ (Cch *ᵥ (select ι *ᵥ c')) ∧
    (∀ i j, (Cch * select ι) i j = Cch i (ι j)) ∧
    (∀ j, (select ι *ᵥ c') (ι j) = c' j) ∧
    (∀ i, (∀ j, i ≠ ι j) → (select ι *ᵥ c') i = 0) := by
  refine ⟨?_, mul_select_apply Cch ι, select_mulVec_apply ι hι c',
    fun i hi => select_mulVec_apply_of_notMem ι c' i hi⟩
  rw [Matrix.mulVec_mulVec, Matrix.mulVec_mulVec, Matrix.mul_assoc]

/-- **T14.4 (independence of other particles, 1).** Block `(a, b)` of the interpolated tensor depends
only on block `(a, b)` of the source. -/
theorem interp_local {np : ℕ} (E : Matrix (Fin q') (Fin q) ℝ) (P : Matrix (Fin k) (Fin k') ℝ)
    (A A' : Fin np → Fin np → Matrix (Fin q) (Fin k) ℝ) (a b : Fin np) (h : A a b = A' a b) :
    interp E P A a b = interp E P A' a b := by
  unfold interp; rw [h]

/-- **T14.4 (independence of other particles, 2).** Interpolating the tensor of a sub-collection of
particles (`σ` selects/reorders them) gives the corresponding blocks of the interpolated full tensor:
the result for a pair does not depend on which other particles are present. -/
theorem interp_restrict {np np' : ℕ} (E : Matrix (Fin q') (Fin q) ℝ) (P : Matrix (Fin k) (Fin k') ℝ)
    (A : Fin np → Fin np → Matrix (Fin q) (Fin k) ℝ) (σ : Fin np' → Fin np) (a b : Fin np') :
    interp E P (fun a b => A (σ a) (σ b)) a b = interp E P A (σ a) (σ b) := rfl

/-- **T14.4 (per-pair statement).** For every ordered pair the interpolated block acts on target
coefficients as: pad, apply that pair's original block, interpolate to the new nodes. -/
theorem interp_block_action {np : ℕ} (E : Matrix (Fin q') (Fin q) ℝ)
    (A : Fin np → Fin np → Matrix (Fin q) (Fin k) ℝ) (a b : Fin np) (c' : Fin k' → ℝ) :
    interp E (embed k k') A a b *ᵥ c' = E *ᵥ (A a b *ᵥ (embed k k' *ᵥ c')) :=
  interp_action E (A a b) c'

end Interpolation

/-- numeric instance for section D: `q = 3` source nodes, `q' = 2` target nodes, `k = 3 → k' = 2` orders. -/
example : ((!![1, 0, 0; 0, 1/2, 1/2] : Matrix (Fin 2) (Fin 3) ℝ)
      * (!![1, 2, 3; 4, 5, 6; 7, 8, 10] : Matrix (Fin 3) (Fin 3) ℝ) * embed 3 2) *ᵥ ![1, 1]
    = (!![1, 0, 0; 0, 1/2, 1/2] : Matrix (Fin 2) (Fin 3) ℝ)
        *ᵥ ((!![1, 2, 3; 4, 5, 6; 7, 8, 10] : Matrix (Fin 3) (Fin 3) ℝ) *ᵥ (embed 3 2 *ᵥ ![1, 1])) :=
  interp_action _ _ _

/-- the padded vector and the truncated matrix of that instance, computed directly -/
example : embed 3 2 *ᵥ ![1, 1] = ![1, 1, 0] := by
  ext i; fin_cases i <;> simp [embed, Matrix.mulVec, dotProduct, Fin.sum_univ_two]

example : (!![1, 2, 3; 4, 5, 6; 7, 8, 10] : Matrix (Fin 3) (Fin 3) ℝ) * embed 3 2
    = !![1, 2; 4, 5; 7, 8] := by
  ext i j; fin_cases i <;> fin_cases j <;> simp [embed, Matrix.mul_apply, Fin.sum_univ_three]

/-- an injective selection for `interp_action_select`: orders `(0,1) ↦ (0,2)` of three -/
example : Function.Injective (![0, 2] : Fin 2 → Fin 3) := by decide

/-! ## E. `moveaxis` before `reshape` -/

/-- **T14.4 (correct rearrangement).** `evaluate` returns point-major data `f(p', a, b)` (flat buffer
`buf` of shape `(q', np, np)`).  After `np.moveaxis(·, 0, 1)` and the reshape, entry `(a, p', b)` of the
result (shape `(np, q', np)`) is `f(p', a, b)`. -/
theorem moveaxis_correct {q np a p b : ℕ} (buf : List ℕ) (ha : a < np) (hp : p < q) (hb : b < np) :
    unflat3 (moveaxisThenReshape q np buf) q np a p b = unflat3 buf np np p a b := by
  unfold moveaxisThenReshape
  rw [unflat3_flatten3 _ ha hp hb]

/-- **T14.4 (the plain reshape reads the wrong entry unless np ≤ 1 or q' ≤ 1).** Reinterpreting the
flat `(q', np, np)` buffer as `(np, q', np)` without moving axes reads, at position `(a, p', b)`, the
flat index `(a q' + p') np + b` instead of `(p' np + a) np + b`; the two coincide for all admissible
indices iff there is at most one particle or at most one target point. -/
theorem reshape_index_agree_iff {q np : ℕ} :
    (∀ a p b, a < np → p < q → b < np → flat3 q np a p b = flat3 np np p a b) ↔ np ≤ 1 ∨ q ≤ 1 := by
  constructor
  · intro h
    by_contra hne
    push Not at hne
    have := h 0 1 0 (by omega) (by omega) (by omega)
    simp only [flat3] at this
    have h2 : np * np = np := by simpa using this.symm
    nlinarith
  · rintro (h | h) a p b ha hp hb
    · have : np = 1 := by omega
      subst this
      have : a = 0 := by omega
      subst this
      simp [flat3]
    · have : q = 1 := by omega
      subst this
      have : p = 0 := by omega
      subst this
      simp [flat3]

/-- **Counterexample (the defect the code had).** With two target points and two particles, data
`0..7`: the plain reshape leaves the buffer `[0,1,2,3,4,5,6,7]`, so block `(a=0, b=·)` at point `p'=1`
would be `[2,3]`, which is `f(p'=0, a=1, ·)` — the data of a different particle; the correct array is
`[0,1,4,5,2,3,6,7]`. -/
example : reshapeWrong 2 2 (List.range 8) ≠ moveaxisThenReshape 2 2 (List.range 8) := by decide

example : moveaxisThenReshape 2 2 (List.range 8) = [0, 1, 4, 5, 2, 3, 6, 7] := by decide

example : unflat3 (reshapeWrong 2 2 (List.range 8)) 2 2 0 1 0 = 2 ∧
    unflat3 (moveaxisThenReshape 2 2 (List.range 8)) 2 2 0 1 0 = 4 ∧
    unflat3 (List.range 8) 2 2 1 0 0 = 4 := by decide

/-- with a single particle the two coincide (here `q' = 4`) -/
example : reshapeWrong 4 1 (List.range 4) = moveaxisThenReshape 4 1 (List.range 4) := by decide

end Props.C14
