/-
Property C01 — `EOM.solveWall` (src/WallGo/equationOfMotion.py:404-689) and the convergence loop of
`EOM.wallPressure` (equationOfMotion.py:863-955).

"Whenever the wall solver reports success with a finite wall velocity, the total pressure on the wall
changes sign (negative below, positive above) within the configured absolute velocity tolerance around
that velocity, the velocity lies inside the hydrodynamically allowed window for its solution type, and the
temperatures … returned with it are those of the converged solution at that velocity.  When it reports a
runaway, the pressure at the top of the searched window is negative and no velocity is returned; an
unsuccessful run is always labelled as an error.  The result is a function of the model and settings only."

What is proved, about which object: the decision model `Model/SolveWall.lean` (tied to the Python code by
differential testing).  The physics is NOT modelled: `press v` is what `wallPressure(v, wallParamsGuess)[0]`
returns, `brent a b` is what `scipy.optimize.root_scalar(…, bracket=[a, b])` returns (root, converged),
`flagsAt v` are the flags the solver object carries after the final `wallPressure(v)` call.  The theorems
establish: success ⇒ the bracket handed to brentq had `p(vLo) ≤ 0 ≤ p(vMax)`, the reported velocity is
brentq's answer inside that bracket and every flag examined belongs to that velocity (T01.1); the runaway
and error labelling (T01.2, T01.3); purity and that the model's fuel is immaterial (T01.4); what "converged"
/ "gave up" mean for the inner pressure loop, and that its length is not bounded by `maxIterations`
(T01.5).  That brentq's answer is within `xtol` of a sign change is brentq's own contract and is monitored
numerically on the real code.  Helper lemmas: `Lemmas/SolveWall.lean`.
-/
import WallGoVerif.Lemmas.SolveWall

namespace Props.C01

open Model.SolveWall Lemmas.SolveWall

/-! ## T01.1 success with a finite velocity -/

/-- **T01.1.** If `solveWall` reports success together with a velocity `v`, then (assuming only
`vMin < vMax` and that the root finder returns a point of the bracket it is given):
the pressure at `vMax` is `≥ 0`; the lower bracket end actually used is `vMin·2^k` where the pressure was
positive at each of the `k` earlier trial values and is `≤ 0` there, and it lies strictly below `vMax` (and
at or above `vMin` when `vMin ≥ 0`); `v` is exactly what brentq returned for that bracket, with
`converged = True`, and lies inside it; all five status flags read at the end are those of the final
`wallPressure(v)` call and are good; the label is `detonation` iff `v > vJ`, otherwise `deflagration`
(branches 10 / 9).  (C01: "changes sign …", "inside the … window", "those of the converged solution at that
velocity".) -/
theorem success_velocity_spec (press : Rat → Rat) (vMin vMax vJ : Rat)
    (brent : Rat → Rat → Rat × Bool) (flagsAt : Rat → Flags) (fuel : Nat) (o : Out) (v : Rat)
    (ho : solveWall press vMin vMax vJ brent flagsAt fuel = o)
    (hs : o.success = true) (hv : o.velocity = some v) (hlt : vMin < vMax)
    (hbrent : ∀ a b, a ≤ b → a ≤ (brent a b).1 ∧ (brent a b).1 ≤ b) :
    0 ≤ press vMax ∧
    (∃ k : Nat, k < fuel ∧ o.vMinFinal = vMin * 2 ^ k ∧ (∀ j : Nat, j < k → 0 < press (vMin * 2 ^ j))) ∧
    press o.vMinFinal ≤ 0 ∧
    o.vMinFinal < vMax ∧ (0 ≤ vMin → vMin ≤ o.vMinFinal) ∧
    o.vMinFinal ≤ v ∧ v ≤ vMax ∧
    brent o.vMinFinal vMax = (v, true) ∧
    ((flagsAt v).succTemp = true ∧ (flagsAt v).tMinusIn = true ∧ (flagsAt v).tPlusIn = true ∧
      (flagsAt v).succPress = true ∧ (flagsAt v).saturates = false) ∧
    (o.typ = .detonation ↔ vJ < v) ∧ (o.typ = .deflagration ↔ ¬ vJ < v) ∧
    (o.branch = 10 ↔ vJ < v) ∧ (o.branch = 9 ↔ ¬ vJ < v) := by
  rw [solveWall_eq] at ho
  split at ho
  · subst ho; simp at hv
  · rename_i hp
    cases hd : doubling press vMax fuel vMin (press vMin) with
    | none => rw [hd] at ho; subst ho; simp at hv
    | some r =>
      obtain ⟨vLo, pLo⟩ := r
      rw [hd] at ho
      simp only at ho
      subst ho
      simp only [Option.some.injEq] at hv hs ⊢
      subst hv
      obtain ⟨k, hk, hvLo, hpLo, hle, hall, hbd⟩ := doubling_some_spec _ _ _ _ _ _ hd
      obtain ⟨h1, _, _, h4, _, _, _⟩ :=
        finalBranch_spec (flagsAt (brent vLo vMax).1) (brent vLo vMax).2 (brent vLo vMax).1 vJ
      obtain ⟨f1, f2, f3, f4, f5, f6⟩ := h1.1 hs
      obtain ⟨t1, t2, t3, t4⟩ := h4 hs
      have hLoMax : vLo < vMax := by
        rcases Nat.eq_zero_or_pos k with rfl | hk0
        · simpa [hvLo] using hlt
        · rw [hvLo]; exact hbd k hk0 le_rfl
      have hin := hbrent vLo vMax (le_of_lt hLoMax)
      refine ⟨not_lt.1 hp, ⟨k, hk, hvLo, hall⟩, hpLo ▸ hle, hLoMax, fun h0 => ?_, hin.1, hin.2,
        Prod.ext rfl f5, ⟨f1, f2, f3, f4, f6⟩, t1, t2, t3, t4⟩
      rw [hvLo]
      have : (1 : Rat) ≤ 2 ^ k := one_le_pow₀ (by norm_num)
      nlinarith

/-- non-vacuity of T01.1 (with one doubling of `vMin`): pressure `+1` below `3/20`, `v − 1/2` above;
`vMin = 1/10` is doubled once; bisection-like `brent`; deflagration at `v = 11/20`. -/
example :
    solveWall (fun v => if v < 3 / 20 then 1 else v - 1 / 2) (1 / 10) (9 / 10) (7 / 10)
      (fun a b => ((a + b) / 2, true)) (fun _ => ⟨true, true, true, true, false⟩) 64
    = { success := true, typ := .deflagration, velocity := some (11 / 20), branch := 9,
        vMinFinal := 1 / 5 } := by decide +kernel

/-- the root-finder contract assumed in T01.1 is satisfiable -/
example : ∀ a b : Rat, a ≤ b →
    a ≤ ((fun a b : Rat => ((a + b) / 2, true)) a b).1 ∧ ((fun a b : Rat => ((a + b) / 2, true)) a b).1 ≤ b := by
  intro a b h; constructor <;> simp only <;> linarith

/-! ## T01.2 runaway -/

/-- **T01.2.** The result is labelled `runaway` exactly when the pressure at the top of the searched
window is negative; then no velocity is returned, `success = True`, and it is the first
`setSuccessState` call.  No hypotheses. -/
theorem runaway_spec (press : Rat → Rat) (vMin vMax vJ : Rat)
    (brent : Rat → Rat → Rat × Bool) (flagsAt : Rat → Flags) (fuel : Nat) (o : Out)
    (ho : solveWall press vMin vMax vJ brent flagsAt fuel = o) :
    (o.typ = .runaway ↔ press vMax < 0) ∧
    (press vMax < 0 → o.velocity = none ∧ o.success = true ∧ o.branch = 1 ∧ o.vMinFinal = vMin) := by
  rw [solveWall_eq] at ho
  split at ho
  · rename_i hp; subst ho; simp [hp]
  · rename_i hp
    cases hd : doubling press vMax fuel vMin (press vMin) with
    | none => rw [hd] at ho; subst ho; simp [hp]
    | some r =>
      obtain ⟨vLo, pLo⟩ := r
      rw [hd] at ho
      simp only at ho
      subst ho
      obtain ⟨_, _, h3, _⟩ :=
        finalBranch_spec (flagsAt (brent vLo vMax).1) (brent vLo vMax).2 (brent vLo vMax).1 vJ
      simp [hp, h3]

example : solveWall (fun v => v - 1) (1 / 10) (9 / 10) (7 / 10)
      (fun a b => ((a + b) / 2, true)) (fun _ => ⟨true, true, true, true, false⟩) 64
    = { success := true, typ := .runaway, velocity := none, branch := 1, vMinFinal := 1 / 10 } := by
  decide +kernel

/-! ## T01.3 failure is always labelled as an error -/

/-- **T01.3.** `success = False` iff the label is `ERROR` (so a successful run is never labelled `ERROR`
and an unsuccessful one never anything else); no velocity is returned exactly in the first two branches
(runaway, "pressure at vw=0 positive"); success exactly in branches 1, 9, 10.  No hypotheses. -/
theorem failure_is_error (press : Rat → Rat) (vMin vMax vJ : Rat)
    (brent : Rat → Rat → Rat × Bool) (flagsAt : Rat → Flags) (fuel : Nat) (o : Out)
    (ho : solveWall press vMin vMax vJ brent flagsAt fuel = o) :
    (o.success = false ↔ o.typ = .error) ∧ (o.success = true → o.typ ≠ .error) ∧
    (o.velocity = none ↔ o.branch = 1 ∨ o.branch = 2) ∧
    (1 ≤ o.branch ∧ o.branch ≤ 10) ∧
    (o.success = true ↔ o.branch = 1 ∨ o.branch = 9 ∨ o.branch = 10) := by
  rw [solveWall_eq] at ho
  split at ho
  · subst ho; simp
  · cases hd : doubling press vMax fuel vMin (press vMin) with
    | none => rw [hd] at ho; subst ho; simp
    | some r =>
      obtain ⟨vLo, pLo⟩ := r
      rw [hd] at ho
      simp only at ho
      subst ho
      obtain ⟨_, h2, _, _, h5, h6, h7⟩ :=
        finalBranch_spec (flagsAt (brent vLo vMax).1) (brent vLo vMax).2 (brent vLo vMax).1 vJ
      dsimp only
      generalize finalBranch (flagsAt (brent vLo vMax).1) (brent vLo vMax).2 (brent vLo vMax).1 vJ = fb
        at h2 h5 h6 h7
      refine ⟨h2, fun hs he => ?_, ?_, ⟨by omega, h6⟩, ?_⟩
      · rw [← h2] at he; rw [hs] at he; cases he
      · simp only [reduceCtorEq, false_iff]; omega
      · rw [h7]; constructor
        · intro h; exact Or.inr h
        · rintro (h | h)
          · omega
          · exact h

/-! ### every outcome branch is reachable -/

/-- branch 2: the pressure is positive all the way up -/
example : solveWall (fun _ => 1) (1 / 10) (9 / 10) (7 / 10)
      (fun a b => ((a + b) / 2, true)) (fun _ => ⟨true, true, true, true, false⟩) 64
    = { success := false, typ := .error, velocity := none, branch := 2, vMinFinal := 1 / 10 } := by
  decide +kernel

/-- branch 3: temperature profile not found -/
example : solveWall (fun v => v - 1 / 2) (1 / 10) (9 / 10) (7 / 10)
      (fun a b => ((a + b) / 2, true)) (fun _ => ⟨false, true, true, true, false⟩) 64
    = { success := false, typ := .error, velocity := some (1 / 2), branch := 3, vMinFinal := 1 / 10 } := by
  decide +kernel

/-- branch 4: `T-` outside the traced range -/
example : solveWall (fun v => v - 1 / 2) (1 / 10) (9 / 10) (7 / 10)
      (fun a b => ((a + b) / 2, true)) (fun _ => ⟨true, true, false, true, false⟩) 64
    = { success := false, typ := .error, velocity := some (1 / 2), branch := 4, vMinFinal := 1 / 10 } := by
  decide +kernel

/-- branch 5: `T+` outside the traced range -/
example : solveWall (fun v => v - 1 / 2) (1 / 10) (9 / 10) (7 / 10)
      (fun a b => ((a + b) / 2, true)) (fun _ => ⟨true, true, true, false, false⟩) 64
    = { success := false, typ := .error, velocity := some (1 / 2), branch := 5, vMinFinal := 1 / 10 } := by
  decide +kernel

/-- branch 6: the pressure loop gave up -/
example : solveWall (fun v => v - 1 / 2) (1 / 10) (9 / 10) (7 / 10)
      (fun a b => ((a + b) / 2, true)) (fun _ => ⟨true, false, true, true, false⟩) 64
    = { success := false, typ := .error, velocity := some (1 / 2), branch := 6, vMinFinal := 1 / 10 } := by
  decide +kernel

/-- branch 7: brentq did not converge -/
example : solveWall (fun v => v - 1 / 2) (1 / 10) (9 / 10) (7 / 10)
      (fun a b => ((a + b) / 2, false)) (fun _ => ⟨true, true, true, true, false⟩) 64
    = { success := false, typ := .error, velocity := some (1 / 2), branch := 7, vMinFinal := 1 / 10 } := by
  decide +kernel

/-- branch 8: a wall parameter sits on its bound -/
example : solveWall (fun v => v - 1 / 2) (1 / 10) (9 / 10) (7 / 10)
      (fun a b => ((a + b) / 2, true)) (fun _ => ⟨true, true, true, true, true⟩) 64
    = { success := false, typ := .error, velocity := some (1 / 2), branch := 8, vMinFinal := 1 / 10 } := by
  decide +kernel

/-- branch 9: deflagration -/
example : solveWall (fun v => v - 1 / 2) (1 / 10) (9 / 10) (7 / 10)
      (fun a b => ((a + b) / 2, true)) (fun _ => ⟨true, true, true, true, false⟩) 64
    = { success := true, typ := .deflagration, velocity := some (1 / 2), branch := 9,
        vMinFinal := 1 / 10 } := by decide +kernel

/-- branch 10: detonation (`vJ = 2/5 < v`) -/
example : solveWall (fun v => v - 1 / 2) (1 / 10) (9 / 10) (2 / 5)
      (fun a b => ((a + b) / 2, true)) (fun _ => ⟨true, true, true, true, false⟩) 64
    = { success := true, typ := .detonation, velocity := some (1 / 2), branch := 10,
        vMinFinal := 1 / 10 } := by decide +kernel

/-! ## T01.4 purity; the fuel of the model is immaterial -/

/-- **T01.4a.** The model has no hidden state: equal inputs (extensionally) give equal results. -/
theorem solveWall_pure (press press' : Rat → Rat) (vMin vMax vJ : Rat)
    (brent brent' : Rat → Rat → Rat × Bool) (flagsAt flagsAt' : Rat → Flags) (fuel : Nat)
    (hp : ∀ x, press x = press' x) (hb : ∀ a b, brent a b = brent' a b)
    (hf : ∀ x, flagsAt x = flagsAt' x) :
    solveWall press vMin vMax vJ brent flagsAt fuel = solveWall press' vMin vMax vJ brent' flagsAt' fuel := by
  obtain rfl : press = press' := funext hp
  obtain rfl : brent = brent' := funext fun a => funext (hb a)
  obtain rfl : flagsAt = flagsAt' := funext hf
  rfl

/-- **T01.4a, sharper.** Outside the root finder the pressure is consulted only at `vMax` and on the
doubling grid `vMin·2^j`. -/
theorem solveWall_depends_on_grid (press press' : Rat → Rat) (vMin vMax vJ : Rat)
    (brent : Rat → Rat → Rat × Bool) (flagsAt : Rat → Flags) (fuel : Nat)
    (hmax : press vMax = press' vMax) (hgrid : ∀ j : Nat, press (vMin * 2 ^ j) = press' (vMin * 2 ^ j)) :
    solveWall press vMin vMax vJ brent flagsAt fuel = solveWall press' vMin vMax vJ brent flagsAt fuel := by
  rw [solveWall_eq, solveWall_eq, hmax, doubling_congr press press' vMax fuel vMin hgrid]

example : ∀ j : Nat, (fun v : Rat => v - 1 / 2) ((1 / 10) * 2 ^ j) = (fun v : Rat => v - 1 / 2) ((1 / 10) * 2 ^ j) :=
  fun _ => rfl

/-- **T01.4b.** With `vMax ≤ vMin·2^fuel` (i.e. `fuel ≥ log₂(vMax/vMin)`) and `fuel ≥ 1`, a `none` result
of the doubling loop is the genuine exit of the Python loop — the pressure was positive at
`vMin, 2·vMin, …, 2^k·vMin` and `2^(k+1)·vMin ≥ vMax` — and never fuel exhaustion. -/
theorem doubling_terminates (press : Rat → Rat) (vMin vMax : Rat) (fuel : Nat)
    (hfuel : vMax ≤ vMin * 2 ^ fuel) (h1 : 1 ≤ fuel)
    (h : doubling press vMax fuel vMin (press vMin) = none) :
    ∃ k : Nat, k < fuel ∧ (∀ j : Nat, j ≤ k → 0 < press (vMin * 2 ^ j)) ∧
      (∀ j : Nat, 1 ≤ j → j ≤ k → vMin * 2 ^ j < vMax) ∧ vMax ≤ vMin * 2 ^ (k + 1) :=
  doubling_none_spec press vMax fuel vMin hfuel h1 h

/-- **T01.4b'.** Under the same condition more fuel changes nothing: the whole result of `solveWall` is
independent of the fuel. -/
theorem solveWall_fuel_irrelevant (press : Rat → Rat) (vMin vMax vJ : Rat)
    (brent : Rat → Rat → Rat × Bool) (flagsAt : Rat → Flags) (fuel fuel' : Nat)
    (hfuel : vMax ≤ vMin * 2 ^ fuel) (h1 : 1 ≤ fuel) (hle : fuel ≤ fuel') :
    solveWall press vMin vMax vJ brent flagsAt fuel = solveWall press vMin vMax vJ brent flagsAt fuel' := by
  rw [solveWall_eq, solveWall_eq, doubling_fuel press vMax fuel fuel' vMin hfuel h1 hle]

/-- the harness's fuel 64 suffices whenever `vMin ≥ vMax·2⁻⁶²` (and `vMin ≥ 0`) -/
theorem fuel_64_enough (press : Rat → Rat) (vMin vMax vJ : Rat)
    (brent : Rat → Rat → Rat × Bool) (flagsAt : Rat → Flags) (fuel' : Nat)
    (h0 : 0 ≤ vMin) (h62 : vMax ≤ vMin * 2 ^ 62) (hle : 64 ≤ fuel') :
    solveWall press vMin vMax vJ brent flagsAt 64 = solveWall press vMin vMax vJ brent flagsAt fuel' := by
  refine solveWall_fuel_irrelevant press vMin vMax vJ brent flagsAt 64 fuel' ?_ (by norm_num) hle
  have : vMin * 2 ^ 62 ≤ vMin * 2 ^ 64 := by nlinarith
  linarith

example : (9 / 10 : Rat) ≤ (1 / 10) * 2 ^ 62 := by norm_num

/-- non-vacuity of `doubling_terminates` -/
example : doubling (fun _ => 1) (9 / 10) 64 (1 / 10) 1 = none := by decide +kernel

/-! ## T01.5 the convergence loop of `wallPressure` -/

/-- **T01.5a.** An iteration ends the loop with `successWallPressure = True` only if it returns the
pressure of that very iteration and, with `errTol = max(rtol·|p|, atol)·multiplier`, the change of the
pressure w.r.t. the previous iteration is below `errTol` (or `errorSolver < errTol` in the cautious mode)
AND `errorSolver ≤ errTol`.  Hypothesis: the list of earlier pressures is non-empty (always true in the
code: it starts as `[pressure]`). -/
theorem loop_converged_spec (rtol atol : Rat) (maxIter : Nat) (s : LoopState) (p e q : Rat)
    (hne : s.pressures ≠ [])
    (h : loopBody rtol atol maxIter s p e = .converged q) :
    q = p ∧
    (|p - s.pressures.getLast hne| < max (rtol * |p|) atol * s.multiplier ∨
      (e < max (rtol * |p|) atol * s.multiplier ∧ s.improve = true)) ∧
    e ≤ max (rtol * |p|) atol * s.multiplier := by
  obtain ⟨hq, hc, he⟩ := (loopBody_converged_iff ..).1 h
  unfold convTest at hc
  rw [prevP_eq s p hne] at hc
  simp only [errTolOf, absR_eq_abs, maxR_eq_max] at hc he
  exact ⟨hq, hc, he⟩

/-- **T01.5a, whole loop.** If the loop run over a stream of observations converges with value `q`, then
`q` is the pressure of the last iteration executed and that iteration met the tolerance. -/
theorem runLoop_converged_spec (rtol atol : Rat) (maxIter : Nat) (s : LoopState)
    (obs : List (Rat × Rat)) (q : Rat) (h : runLoop rtol atol maxIter s obs = .converged q) :
    ∃ pre e post s1, obs = pre ++ (q, e) :: post ∧ runLoop rtol atol maxIter s pre = .running s1 ∧
      convTest rtol atol s1 q e ∧ e ≤ errTolOf rtol atol s1 q := by
  obtain ⟨pre, p, e, post, s1, hobs, hrun, hbody⟩ := runLoop_converged _ _ _ _ _ _ h
  obtain ⟨rfl, hc, he⟩ := (loopBody_converged_iff ..).1 hbody
  exact ⟨pre, e, post, s1, hobs, hrun, hc, he⟩

/-- non-vacuity: second pressure equal to the first, `errorSolver = 0`: converged -/
example : (match loopBody (1 / 10) (1 / 100) 10 ⟨0, 1, false, [1]⟩ 1 0 with
    | .converged q => decide (q = 1) | _ => false) = true := by decide +kernel

/-- **T01.5b.** An iteration gives up (`successWallPressure = False`) only when the iteration counter has
reached `maxIterations − 1` and the convergence test failed; the value returned is the mean of the last
(at most four) pressures. -/
theorem loop_gaveUp_spec (rtol atol : Rat) (maxIter : Nat) (s : LoopState) (p e q : Rat)
    (h : loopBody rtol atol maxIter s p e = .gaveUp q) :
    s.i + 1 ≥ maxIter - 1 ∧ ¬ convTest rtol atol s p e ∧
    (let tail := (s.pressures ++ [p]).drop (s.pressures.length + 1 - 4)
     q = tail.sum / (tail.length : Nat) ∧ tail.length = min 4 (s.pressures.length + 1)) := by
  obtain ⟨hq, hc, hi⟩ := (loopBody_gaveUp_iff ..).1 h
  refine ⟨hi, hc, ?_, ?_⟩
  · rw [hq]; unfold meanLast4
    simp only [List.length_append, List.length_cons, List.length_nil, Nat.zero_add]
    rw [List.sum_eq_foldl]
  · simp only [List.length_drop, List.length_append, List.length_cons, List.length_nil]
    omega

/-- non-vacuity: oscillating pressures 1, 2, 1 with `maxIterations = 3`: gives up at `i = 2` with the mean 4/3 -/
example : (match runLoop (1 / 10) (1 / 100) 3 ⟨0, 1, false, [1]⟩ [(2, 0), (1, 0), (2, 0)] with
    | .gaveUp q => decide (q = 4 / 3) | _ => false) = true := by decide +kernel

/-- **T01.5c.** Along the loop the multiplier never increases and stays positive if it starts positive
(it starts at `1.0`); the counter advances by one per iteration and the pressures are appended in order;
once switched on, the cautious mode stays on. -/
theorem multiplier_antitone (rtol atol : Rat) (maxIter : Nat) (s s' : LoopState)
    (obs : List (Rat × Rat)) (h : runLoop rtol atol maxIter s obs = .running s')
    (hm : 0 < s.multiplier) :
    0 < s'.multiplier ∧ s'.multiplier ≤ s.multiplier ∧ s'.i = s.i + obs.length ∧
      s'.pressures = s.pressures ++ obs.map Prod.fst ∧ (s.improve = true → s'.improve = true) := by
  obtain ⟨hi, hp, himp, hmul⟩ := runLoop_running _ _ _ _ _ _ h
  exact ⟨(hmul hm).1, (hmul hm).2, hi, hp, himp⟩

/-- **T01.5d (finding).** The branch "pressures agree but `errorSolver > errTol`" halves the multiplier and
continues WITHOUT looking at `maxIterations`: the outcome of such an iteration is the same for every value
of `maxIter`. -/
theorem halving_branch_ignores_maxIter (rtol atol : Rat) (s : LoopState) (p e : Rat)
    (h1 : convTest rtol atol s p e) (h2 : errTolOf rtol atol s p < e) :
    ∃ imp, ∀ maxIter, loopBody rtol atol maxIter s p e =
      .running { i := s.i + 1, multiplier := s.multiplier / 2, improve := imp,
                 pressures := s.pressures ++ [p] } :=
  loopBody_ignores_maxIter rtol atol s p e h1 h2

/-- **T01.5d (finding, infinite family).** With `rtol = 1/10`, `atol = 1/100`, constant pressure `1` and
`errorSolver = 1` in every iteration, the loop is still running after `n` iterations for EVERY `n` and
EVERY `maxIter`, the multiplier being `2⁻ⁿ`: the number of iterations is not bounded by `maxIterations`;
in floating point the loop ends only when the multiplier underflows to `0` (then `errTol = 0` and the
first test fails), i.e. after more than a thousand iterations. -/
theorem iterations_not_bounded_by_maxIter (maxIter n : Nat) :
    ∃ s', runLoop (1 / 10) (1 / 100) maxIter ⟨0, 1, false, [1]⟩ (List.replicate n (1, 1)) = .running s' ∧
      s'.i = n ∧ s'.multiplier = (1 / 2) ^ n := by
  obtain ⟨s', h, hi, hm⟩ := runLoop_constant_stream maxIter n ⟨0, 1, false, [1]⟩ (by simp)
    (by intro x hx; simpa using hx) (by norm_num) (by norm_num)
  exact ⟨s', h, by simpa using hi, by rw [hm, halfPow_eq]; simp⟩

/-- the same, concretely and by evaluation: `maxIterations = 3`, still running after 10 iterations -/
theorem iterations_bounded_partial :
    (match runLoop (1 / 10) (1 / 100) 3 ⟨0, 1, false, [1]⟩ (List.replicate 10 (1, 1)) with
     | .running s => decide (s.i = 10 ∧ s.multiplier = 1 / 1024)
     | _ => false) = true := by decide +kernel

/-! ## T01.8 the deflagration/hybrid entry point never reports a detonation -/

/-- **T01.8.**  `findWallVelocityDeflagrationHybrid` calls `solveWall` with `vMax = min(vJ, fastestDeflag())`, so `vMax ≤ vJ`
(for `fastestDeflag` itself see `Props.C06W.deflag_le_vJ`).  Then a successful result with a velocity is labelled `deflagration`
(which covers hybrids), never `detonation`, and the velocity is at most the Jouguet velocity: the reported velocity lies in the
window of its solution type.  (C01: "inside the hydrodynamically allowed window for its solution type".) -/
theorem deflagration_entry_never_detonation (press : Rat → Rat) (vMin vMax vJ : Rat)
    (brent : Rat → Rat → Rat × Bool) (flagsAt : Rat → Flags) (fuel : Nat) (o : Out) (v : Rat)
    (ho : solveWall press vMin vMax vJ brent flagsAt fuel = o)
    (hs : o.success = true) (hv : o.velocity = some v) (hlt : vMin < vMax) (hJ : vMax ≤ vJ)
    (hbrent : ∀ a b, a ≤ b → a ≤ (brent a b).1 ∧ (brent a b).1 ≤ b) :
    o.typ = .deflagration ∧ v ≤ vJ ∧ o.typ ≠ .detonation := by
  obtain ⟨_, _, _, _, _, _, hvmax, _, _, hdet, hdef, _, _⟩ :=
    success_velocity_spec press vMin vMax vJ brent flagsAt fuel o v ho hs hv hlt hbrent
  have hle : v ≤ vJ := le_trans hvmax hJ
  have hn : ¬ vJ < v := not_lt.2 hle
  refine ⟨hdef.2 hn, hle, ?_⟩
  intro h
  exact hn (hdet.1 h)

/-- non-vacuity: the instance of T01.1 has `vMax = 9/10`; with `vJ = 9/10` the hypothesis `vMax ≤ vJ` holds and the result is a deflagration -/
example :
    (solveWall (fun v => if v < 3 / 20 then 1 else v - 1 / 2) (1 / 10) (9 / 10) (9 / 10)
      (fun a b => ((a + b) / 2, true)) (fun _ => ⟨true, true, true, true, false⟩) 64).typ = .deflagration
    ∧ ((9 : Rat) / 10 ≤ 9 / 10) := by
  constructor
  · decide +kernel
  · norm_num

end Props.C01
