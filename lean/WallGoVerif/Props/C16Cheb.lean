/-
Property C16 (Chebyshev-basis and quadrature part): "converting between the cardinal and Chebyshev
representations and back returns the same coefficients, evaluation returns the polynomial's value in
either representation, differentiation returns its exact derivative at all grid points including the
boundaries, and integration against a weight returns the exact integral whenever the integrand lies
in the exactness class of Gauss-Chebyshev-Lobatto quadrature."

Code: src/WallGo/polynomial.py (`chebyshev`, `changeBasis`, `evaluate`, `_chebyshevMatrix`,
`_chebyshevDeriv`, `integrate`), src/WallGo/grid.py:116-122 (nodes `-cos(jπ/M)`).
Model: `Model.Poly` at `α := ℝ`, `zero := 0`, `one := 1`, `two := 2`, `ofNat := Nat.cast`.
`Tbar r n : ℝ[X]` is the restricted Chebyshev polynomial (`T_n`, `T_n − 1`, or `T_n − (1 | X)`),
`chebPoly d e len c = Σ_j c_j • Tbar _ n_j` the polynomial represented by coefficients `c`,
`lobNodes M = [-cos(jπ/M) : j = 0..M]` the complete grid of a direction and
`codeQuad φ d e xs (π/M)` the number `Σ_j φ(x_j)·√(1-x_j²)·weight_j` formed by `integrate`.
The cardinal-basis half of C16 is in `Props/C16.lean`.
-/
import WallGoVerif.Lemmas.Lobatto

namespace Props.C16Cheb
open Model.Poly Polynomial Polynomial.Chebyshev Lemmas.ChebyshevModel Lemmas.Lobatto Lob Real

/-! ## A. `eval_chebyt`, `eval_chebyu` -/

/-- The three-term recurrence used for `T_n` (scipy `eval_chebyt` at integer order) is Mathlib's Chebyshev
polynomial of the first kind. (C16: evaluation in the Chebyshev representation.) -/
theorem chebT_eq (n : ℕ) (x : ℝ) : chebT (1 : ℝ) 2 n x = (T ℝ n).eval x :=
  Lemmas.ChebyshevModel.chebT_eq n x

/-- The recurrence used for `U_n` (scipy `eval_chebyu`) is Mathlib's Chebyshev polynomial of the second
kind. (C16: differentiation.) -/
theorem chebU_eq (n : ℕ) (x : ℝ) : chebU (1 : ℝ) 2 n x = (U ℝ n).eval x :=
  Lemmas.ChebyshevModel.chebU_eq n x

example : chebT (1 : ℝ) 2 3 (1 / 2) = -1 := by norm_num [chebT, chebT.go]
example : chebU (1 : ℝ) 2 2 (1 / 2) = 0 := by norm_num [chebU, chebU.go]

/-! ## B. restricted families satisfy the boundary conditions -/

/-- `chebyshev(x, n, restriction)` is the evaluation of the polynomial `Tbar r n`. -/
theorem chebyshev_eq_eval (r : Restriction) (n : ℕ) (x : ℝ) :
    chebyshev (1 : ℝ) 2 r n x = (Tbar r n).eval x := chebyshev_eq r n x

/-- restriction `'full'` (directions z, pz without end points): every basis function vanishes at
`x = +1` … -/
theorem full_at_one (n : ℕ) : chebyshev (1 : ℝ) 2 .full n 1 = 0 := by
  rw [chebyshev_eq]; exact Tbar_full_eval_one n

/-- … and at `x = −1` (because `T_n(−1) = (−1)^n`: `1` is subtracted for even `n`, `x` for odd `n`). -/
theorem full_at_neg_one (n : ℕ) : chebyshev (1 : ℝ) 2 .full n (-1) = 0 := by
  rw [chebyshev_eq]; exact Tbar_full_eval_neg_one n

/-- restriction `'partial'` (direction pp without end points): every basis function vanishes at
`x = +1`. -/
theorem onesided_at_one (n : ℕ) : chebyshev (1 : ℝ) 2 .onesided n 1 = 0 := by
  rw [chebyshev_eq]; exact Tbar_onesided_eval_one n

/-- the restricted functions are not identically zero: `T̄_2(0) = T_2(0) − 1 = −2`. -/
example : chebyshev (1 : ℝ) 2 .full 2 0 = -2 := by norm_num [chebyshev, chebT, chebT.go]

/-! ## C. `_chebyshevDeriv` holds the exact derivatives, boundary nodes included -/

/-- **Entries of `_chebyshevDeriv`.** Entry `[a][b]` is the derivative of the `b`-th (restricted) basis
function at node `a` of the *complete* grid (rows run over all nodes, so `a = 0` and `a = len−1`, the
boundaries, are covered; `xs` is arbitrary).  In particular the model's/code's correction
"subtract 1 iff restriction is 'full' and `n` is odd" is exactly the derivative of the subtracted
`1` (even `n`) resp. `x` (odd `n`), and nothing is subtracted for `'partial'`. -/
theorem chebyshevDeriv_entry (d : Dir) (e : Bool) (xs : List ℝ) (a b : ℕ) (ha : a < xs.length)
    (hb : b < (orders d e xs.length).length) :
    HasDerivAt (fun y => chebyshev (1 : ℝ) 2 (restrictionOf d e) ((orders d e xs.length).getD b 0) y)
      (((chebyshevDeriv (0 : ℝ) 1 2 Nat.cast d e xs).getD a []).getD b 0) (xs.getD a 0) := by
  rw [chebyshevDeriv_eq]
  simp only [List.getD_eq_getElem?_getD, List.getElem?_map, List.getElem?_eq_getElem ha,
    List.getElem?_eq_getElem hb, Option.map_some, Option.getD_some]
  exact hasDerivAt_chebyshev _ _ _

/-- the same for a single basis function, any restriction, any point -/
theorem chebyshev_hasDerivAt (r : Restriction) (n : ℕ) (x : ℝ) :
    HasDerivAt (fun y => chebyshev (1 : ℝ) 2 r n y)
      ((let u := if n = 0 then 0 else (n : ℝ) * chebU (1 : ℝ) 2 (n - 1) x
        if r = .full ∧ n % 2 = 1 then u - 1 else u)) x :=
  hasDerivAt_chebyshev r n x

/-- **Differentiation of an expansion is exact at every node.** Row `a` of
`_chebyshevDeriv(direction, endpoints) · c` is the derivative at node `x_a` (any node of the complete
grid, boundaries included) of the function represented by the Chebyshev coefficients `c`. -/
theorem mulVec_chebyshevDeriv_exact (d : Dir) (e : Bool) (xs c : List ℝ) (a : ℕ) (ha : a < xs.length) :
    HasDerivAt (fun y => evalChebyshev (0 : ℝ) 1 2 d e xs.length c y)
      ((mulVec (0 : ℝ) (chebyshevDeriv (0 : ℝ) 1 2 Nat.cast d e xs) c).getD a 0) (xs.getD a 0) := by
  rw [chebyshevDeriv_eq, mulVec]
  simp only [List.getD_eq_getElem?_getD, List.getElem?_map, List.getElem?_eq_getElem ha,
    Option.map_some, Option.getD_some]
  exact hasDerivAt_evalChebyshev d e xs.length c _

/-- non-vacuity: `d/dx (T_3 − x) = 3·U_2 − 1`, at the boundary node `x = −1` this is `8`. -/
example : ((chebyshevDeriv (0 : ℝ) 1 2 Nat.cast .z false [-1, 0, 1 / 2, 1]).getD 0 []).getD 1 0 = 8 := by
  norm_num [chebyshevDeriv, orders, restrictionOf, chebU, chebU.go, List.range, List.range.loop]

/-! ## D. evaluation, basis property, nonsingular basis change -/

/-- **Evaluation in the Chebyshev representation returns the polynomial's value.**
`evalChebyshev … c x` is the value at `x` of the polynomial `Σ_j c_j • T̄_{n_j}`. -/
theorem evalChebyshev_exact (d : Dir) (e : Bool) (len : ℕ) (c : List ℝ) (x : ℝ) :
    evalChebyshev (0 : ℝ) 1 2 d e len c x = (chebPoly d e len c).eval x :=
  Lemmas.ChebyshevModel.evalChebyshev_exact d e len c x

/-- the represented polynomial, written out: with `k0` the lowest order of the direction
(0 with end points; 2 for z, pz and 1 for pp without) `chebPoly = Σ_j c_j • T̄_{j+k0}`. -/
theorem chebPoly_eq (d : Dir) (e : Bool) (len : ℕ) (c : List ℝ)
    (hc : c.length = (orders d e len).length) :
    chebPoly d e len c = ∑ j ∈ Finset.range c.length,
      c.getD j 0 • Tbar (restrictionOf d e) (j + minOrder (restrictionOf d e)) :=
  chebPoly_eq_finset_sum d e len c hc

example : (orders .z false 5).length = 3 ∧ ([1, 2, 3] : List ℝ).length = 3 := by decide

/-- **Basis property, independence.** For each restriction the functions `T̄_n`, `n ≥ k0`, are linearly
independent (`T̄_n` has degree exactly `n`). -/
theorem restricted_family_linearIndependent (r : Restriction) :
    LinearIndependent ℝ (fun j : ℕ => Tbar r (j + minOrder r)) := Tbar_linearIndependent r

/-- **Basis property, spanning ('full').** `{T̄_n : 2 ≤ n ≤ M}` spans the polynomials of degree `≤ M`
that vanish at `x = ±1`: every function representable in the cardinal basis on the interior nodes
(boundary values zero) has Chebyshev coefficients. -/
theorem full_family_spans (M : ℕ) (p : ℝ[X]) (hdeg : p.natDegree ≤ M)
    (h1 : p.eval 1 = 0) (hm1 : p.eval (-1) = 0) :
    p ∈ Submodule.span ℝ ((fun n => Tbar .full n) '' Set.Icc 2 M) :=
  mem_span_Tbar_full M p hdeg h1 hm1

example : ((1 : ℝ[X]) - X ^ 2).natDegree ≤ 2 ∧ ((1 : ℝ[X]) - X ^ 2).eval 1 = 0
    ∧ ((1 : ℝ[X]) - X ^ 2).eval (-1) = 0 := by
  refine ⟨by compute_degree, by simp, by simp⟩

/-- **Basis property, spanning ('partial').** `{T_n − 1 : 1 ≤ n ≤ M}` spans the polynomials of degree
`≤ M` that vanish at `x = 1`. -/
theorem onesided_family_spans (M : ℕ) (p : ℝ[X]) (hdeg : p.natDegree ≤ M) (h1 : p.eval 1 = 0) :
    p ∈ Submodule.span ℝ ((fun n => Tbar .onesided n) '' Set.Icc 1 M) :=
  mem_span_Tbar_onesided M p hdeg h1

example : ((1 : ℝ[X]) - X).natDegree ≤ 1 ∧ ((1 : ℝ[X]) - X).eval 1 = 0 := by
  refine ⟨by compute_degree, by simp⟩

/-- Chebyshev → cardinal: the product `_chebyshevMatrix · c` used by `changeBasis('Cardinal')` is the
list of values of the represented function at the kept nodes (the cardinal coefficients). -/
theorem toCardinal_eq_values (d : Dir) (e : Bool) (xs c : List ℝ) :
    mulVec (0 : ℝ) (chebyshevMatrix 1 2 d e xs) c
      = (kept d e xs).map (fun x => evalChebyshev (0 : ℝ) 1 2 d e xs.length c x) :=
  mulVec_chebyshevMatrix d e xs c

/-- **The basis-change matrix is nonsingular** (all directions, with or without end points): if the
nodes are distinct and the dropped end nodes are `−1` (z, pz) and `+1`, the square matrix
`T̄_{n_j}(x_i)` has trivial kernel.  This is what makes `np.linalg.inv(tnMatrix)` in `changeBasis`
well defined.  (The hypothesis `c.length = #orders` is needed because `zipWith` truncates.) -/
theorem chebyshevMatrix_injective (d : Dir) (e : Bool) (xs : List ℝ) (hnd : xs.Nodup)
    (hfirst : e = false → d ≠ .pp → xs.head? = some (-1))
    (hlast : e = false → xs.getLast? = some 1)
    (c : List ℝ) (hc : c.length = (orders d e xs.length).length)
    (h : mulVec (0 : ℝ) (chebyshevMatrix 1 2 d e xs) c
      = List.replicate (kept d e xs).length 0) :
    c = List.replicate c.length 0 :=
  Lemmas.ChebyshevModel.chebyshevMatrix_injective d e xs hnd hfirst hlast c hc h

/-- **Round trip Chebyshev → cardinal → Chebyshev returns the same coefficients**: any `c'` that
reproduces the cardinal coefficients `_chebyshevMatrix · c` (in particular the one computed with the
inverse matrix) equals `c`. Conversely cardinal → Chebyshev → cardinal is the identity because
`M · (M⁻¹ v) = v` for the nonsingular `M`. -/
theorem roundtrip_unique (d : Dir) (e : Bool) (xs : List ℝ) (hnd : xs.Nodup)
    (hfirst : e = false → d ≠ .pp → xs.head? = some (-1))
    (hlast : e = false → xs.getLast? = some 1)
    (c c' : List ℝ) (hc : c.length = (orders d e xs.length).length)
    (hc' : c'.length = (orders d e xs.length).length)
    (h : mulVec (0 : ℝ) (chebyshevMatrix 1 2 d e xs) c
      = mulVec (0 : ℝ) (chebyshevMatrix 1 2 d e xs) c') :
    c = c' :=
  chebyshevMatrix_solution_unique d e xs hnd hfirst hlast c c' hc hc' h

/-- **Round trip cardinal → Chebyshev → cardinal.** For any cardinal coefficients `v` (values at the kept
nodes) Chebyshev coefficients `c` with `_chebyshevMatrix · c = v` exist (the square matrix is onto, so
`np.linalg.inv` exists and `c = M⁻¹ v`), they are unique (`roundtrip_unique`), the Chebyshev expansion
takes the values `v` at the kept nodes, and converting back (`M · c`) returns `v`. -/
theorem toChebyshev_exists (d : Dir) (e : Bool) (xs : List ℝ) (hnd : xs.Nodup)
    (hfirst : e = false → d ≠ .pp → xs.head? = some (-1))
    (hlast : e = false → xs.getLast? = some 1)
    (v : List ℝ) (hv : v.length = (kept d e xs).length) :
    ∃ c : List ℝ, c.length = (orders d e xs.length).length ∧
      mulVec (0 : ℝ) (chebyshevMatrix 1 2 d e xs) c = v ∧
      (kept d e xs).map (fun x => evalChebyshev (0 : ℝ) 1 2 d e xs.length c x) = v := by
  obtain ⟨c, hc, h⟩ := chebyshevMatrix_surjective d e xs hnd hfirst hlast v hv
  exact ⟨c, hc, h, by rw [← mulVec_chebyshevMatrix, h]⟩

example : ([3, -1, 2] : List ℝ).length = (kept .z false (lobNodes 4)).length := by
  simp [kept_length, restrictionOf, minOrder]

/-- the hypotheses on the node list hold for the grids built by grid.py (any `M ≥ 1`) -/
theorem lobNodes_ok {M : ℕ} (hM : M ≠ 0) :
    (lobNodes M).Nodup ∧ (lobNodes M).head? = some (-1) ∧ (lobNodes M).getLast? = some 1 :=
  ⟨lobNodes_nodup M, lobNodes_head? M, lobNodes_getLast? hM⟩

/-- non-vacuity of `chebyshevMatrix_injective`/`roundtrip_unique`: the real grid with `M = 4`,
direction z, no end points, three coefficients. -/
example (c c' : List ℝ) (hc : c.length = 3) (hc' : c'.length = 3)
    (h : mulVec (0 : ℝ) (chebyshevMatrix 1 2 .z false (lobNodes 4)) c
      = mulVec (0 : ℝ) (chebyshevMatrix 1 2 .z false (lobNodes 4)) c') : c = c' :=
  roundtrip_unique .z false (lobNodes 4) (lobNodes_nodup 4) (fun _ _ => lobNodes_head? 4)
    (fun _ => lobNodes_getLast? (by norm_num)) c c' (by simpa [orders] using hc)
    (by simpa [orders] using hc') h

/-! ## E. Gauss–Chebyshev–Lobatto exactness -/

/-- **Gauss–Chebyshev–Lobatto quadrature is exact for polynomials of degree `≤ 2M−1`.**
`(π/M)·Σ″_{j=0..M} g(cos(jπ/M)) = ∫_{-1}^{1} g(x)/√(1−x²) dx`, `Σ″` = end terms halved
(`lobW M j = 1/2` for `j ∈ {0, M}`, `1` otherwise). -/
theorem gauss_lobatto_exact {M : ℕ} (hM : M ≠ 0) (g : ℝ[X]) (hg : g.natDegree ≤ 2 * M - 1) :
    (π / M) * ∑ j ∈ Finset.range (M + 1), lobW M j * g.eval (cos (j * π / M))
      = ∫ x in (-1 : ℝ)..1, g.eval x / √(1 - x ^ 2) :=
  Lob.gauss_lobatto_exact hM g hg

/-- the same at the code's nodes `x_j = −cos(jπ/M)` (the node set is symmetric: `j ↦ M − j`). -/
theorem gauss_lobatto_exact_code_nodes {M : ℕ} (hM : M ≠ 0) (g : ℝ[X])
    (hg : g.natDegree ≤ 2 * M - 1) :
    (π / M) * ∑ j ∈ Finset.range (M + 1), lobW M j * g.eval (-cos (j * π / M))
      = ∫ x in (-1 : ℝ)..1, g.eval x / √(1 - x ^ 2) :=
  Lob.gauss_lobatto_exact_neg hM g hg

/-- non-vacuity, `M = 2`, `g = X³ + X²` (degree `3 = 2M − 1`): the rule gives
`(π/2)·(g(1)/2 + g(0) + g(−1)/2) = π/2`, hence `∫_{-1}^{1} (x³+x²)/√(1−x²) dx = π/2`. -/
example : ∫ x in (-1 : ℝ)..1, (X ^ 3 + X ^ 2 : ℝ[X]).eval x / √(1 - x ^ 2) = π / 2 := by
  rw [← gauss_lobatto_exact (M := 2) (by norm_num) (X ^ 3 + X ^ 2) (by compute_degree)]
  simp [Finset.sum_range_succ, lobW]
  ring

/-! ## F. the weights of `integrate` and exactness of `integrate` -/

/-- with end points the weights of `integrate` are the Lobatto weights `π/M·(1/2, 1, …, 1, 1/2)`. -/
theorem gclWeights_endpoints (p : ℝ) (d : Dir) (M : ℕ) :
    gclWeights p (1 / 2) d true (M + 1) = (List.range (M + 1)).map (fun j => p * lobW M j) :=
  Lemmas.Lobatto.gclWeights_endpoints p d M

/-- without end points, z and pz: all `len − 2` weights equal `π/M`. -/
theorem gclWeights_full (p : ℝ) (d : Dir) (hd : d ≠ .pp) (len : ℕ) :
    gclWeights p (1 / 2) d false len = List.replicate (len - 1 - 1) p :=
  Lemmas.Lobatto.gclWeights_full p d hd len

/-- without end points, pp: `π/(N−1)`, the first one (node `x = −1`) halved. -/
theorem gclWeights_pp (p : ℝ) (len : ℕ) :
    gclWeights p (1 / 2) .pp false len
      = (List.range (len - 1)).map (fun b => if b = 0 then p * (1 / 2) else p) :=
  Lemmas.Lobatto.gclWeights_pp p len

/-- **End points and their special weights are immaterial.** For every direction and both values of
`endpoints`, the number formed by `integrate` on the Lobatto grid equals `π/M` times the sum over the
interior nodes only, because the end nodes carry the factor `√(1−x²) = 0`; this covers the halved end
weights with `endpoints = True` and the halved first weight of the half-open pp grid. -/
theorem codeQuad_eq_interior {M : ℕ} (hM : M ≠ 0) (φ : ℝ → ℝ) (d : Dir) (e : Bool) (p : ℝ) :
    codeQuad φ d e (lobNodes M) p
      = p * ∑ j ∈ Finset.Ico 1 M, φ (node M j) * √(1 - node M j ^ 2) :=
  Lemmas.Lobatto.codeQuad_eq_interior hM φ d e p

/-- consequently `endpoints = False` and `endpoints = True` integrate to the same number. -/
theorem codeQuad_endpoints_immaterial {M : ℕ} (hM : M ≠ 0) (φ : ℝ → ℝ) (d : Dir) (p : ℝ) :
    codeQuad φ d false (lobNodes M) p = codeQuad φ d true (lobNodes M) p :=
  Lemmas.Lobatto.codeQuad_endpoints_immaterial hM φ d p

/-- **`integrate` is exact on the exactness class.** If `φ = P·w` (nodal values of polynomial times
weight) is such that `φ(x)·√(1−x²)` coincides on `(−1,1)` with a polynomial `g` of degree `≤ 2M−1`
whose end values cancel (`g(1) + g(−1) = 0`), then the number formed by `integrate`,
`Σ_j φ(x_j)·√(1−x_j²)·weight_j`, equals `∫_{-1}^{1} φ(x) dx`, for every direction and both
`endpoints` settings.  (`g(1)+g(−1)=0` is forced: the code's sum never sees `g(±1)`, whereas the
Lobatto rule adds `(π/2M)(g(1)+g(−1))`.) -/
theorem integrate_exact {M : ℕ} (hM : M ≠ 0) (d : Dir) (e : Bool) (φ : ℝ → ℝ) (g : ℝ[X])
    (hg : g.natDegree ≤ 2 * M - 1)
    (hφ : ∀ x ∈ Set.Ioo (-1 : ℝ) 1, φ x * √(1 - x ^ 2) = g.eval x)
    (hends : g.eval 1 + g.eval (-1) = 0) :
    codeQuad φ d e (lobNodes M) (π / M) = ∫ x in (-1 : ℝ)..1, φ x :=
  codeQuad_exact hM d e φ g hg hφ hends

/-- the form asked for in the property: agreement on the *closed* interval (then `g(±1) = 0`
automatically, since `√(1−x²)` vanishes there). -/
theorem integrate_exact_closed {M : ℕ} (hM : M ≠ 0) (d : Dir) (e : Bool) (φ : ℝ → ℝ) (g : ℝ[X])
    (hg : g.natDegree ≤ 2 * M - 1)
    (hφ : ∀ x ∈ Set.Icc (-1 : ℝ) 1, φ x * √(1 - x ^ 2) = g.eval x) :
    codeQuad φ d e (lobNodes M) (π / M) = ∫ x in (-1 : ℝ)..1, φ x := by
  have h1 : g.eval 1 = 0 := by
    rw [← hφ 1 (by norm_num)]; simp
  have hm1 : g.eval (-1) = 0 := by
    rw [← hφ (-1) (by norm_num)]; simp
  exact codeQuad_exact hM d e φ g hg (fun x hx => hφ x ⟨hx.1.le, hx.2.le⟩) (by rw [h1, hm1]; ring)

/-- non-vacuity, `M = 2`: `φ(x) = (1+x)·√(1−x²)`, `g = (1−X²)(1+X)` of degree `3 = 2M−1`; the code's sum
is `(π/2)·φ(0)·1 = π/2 = ∫_{-1}^{1} (1+x)√(1−x²) dx`. -/
example (d : Dir) (e : Bool) :
    codeQuad (fun x => (1 + x) * √(1 - x ^ 2)) d e (lobNodes 2) (π / (2 : ℕ))
      = ∫ x in (-1 : ℝ)..1, (1 + x) * √(1 - x ^ 2) := by
  refine integrate_exact_closed (M := 2) (by norm_num) d e _ ((1 - X ^ 2) * (1 + X)) ?_ ?_
  · compute_degree
  · intro x hx
    have h : 0 ≤ 1 - x ^ 2 := by nlinarith [hx.1, hx.2]
    simp only [eval_mul, eval_sub, eval_one, eval_pow, eval_X, eval_add]
    rw [mul_assoc, Real.mul_self_sqrt h]; ring

end Props.C16Cheb
