/-
Property C09.  "If temperature and fluid velocity are constant through the wall and there are no
out-of-equilibrium particles — or if the field-dependent part of the potential does not depend on
temperature — the pressure computed on a wall equals the effective potential at the low-temperature
minimum minus that at the high-temperature minimum, whatever the wall widths and offsets.  The field
gradient used in that integral is the exact derivative of the field profile."

Statements are about the hand model `Model/EOM.lean` of `wallProfile` (src/WallGo/equationOfMotion.py)
at `α := ℝ`, `tanh := Real.tanh`, `cosh := Real.cosh`, and about the continuum integral that
`_intermediatePressureResults` approximates:
`pressure = eomPoly.integrate(weight = −dz/dχ)` with `eomPoly = Σ_i ∂_iV(φ(z)) φ_i'(z)` on the grid,
i.e. `−∫_{-1}^{1} Σ_i ∂_iV φ_i' (dz/dχ) dχ = −∫_ℝ Σ_i ∂_iV φ_i' dz`.
(The quadrature itself is covered by C16.)  Helper lemmas: `Lemmas/EOM.lean`.
-/
import WallGoVerif.Lemmas.EOM
import WallGoVerif.Props.C17

namespace Props.C09

open Model.EOM Lemmas.EOM Filter Topology MeasureTheory Set

/-! ## T09.1  The gradient is the exact derivative of the profile -/

/-- **T09.1** `dPhidz` returned by `wallProfile` is the exact `z`-derivative of `fields`, for each
field, at every `z`, for all parameters.  No hypothesis: even for the degenerate width `L = 0` the
statement holds in the model (profile constant, gradient `x/0 = 0`); in floating point `L = 0`
gives `nan`/`inf`, but widths are clamped to be positive before use. -/
theorem hasDerivAt_fieldProfile (lo hi L δ z : ℝ) :
    HasDerivAt (fun z => fieldProfile Real.tanh (1 / 2) 1 z lo hi L δ)
      (fieldGradient Real.cosh (1 / 2) z lo hi L δ) z :=
  Lemmas.EOM.hasDerivAt_fieldProfile lo hi L δ z

/-- **T09.1 (all fields)** entry `i` of the second list returned by `wallProfile` is the derivative
with respect to `z` of entry `i` of the first list. -/
theorem wallProfile_hasDerivAt (lo hi w o : List ℝ) (z : ℝ) (i : ℕ) (hi' : i < lo.length) :
    HasDerivAt (fun z => (wallProfile Real.tanh Real.cosh (1 / 2) 1 z lo hi w o).1.getD i 0)
      ((wallProfile Real.tanh Real.cosh (1 / 2) 1 z lo hi w o).2.getD i 0) z := by
  simp only [wallProfile_fst, wallProfile_snd, getD_map_range _ hi']
  exact Lemmas.EOM.hasDerivAt_fieldProfile _ _ _ _ z

/-- **T09.1 (limits)** for a positive width the profile tends to the high-temperature vev far in
front of the wall (`z → +∞`) and to the low-temperature vev far behind it (`z → −∞`). -/
theorem tendsto_fieldProfile (lo hi δ : ℝ) {L : ℝ} (hL : 0 < L) :
    Tendsto (fun z => fieldProfile Real.tanh (1 / 2) 1 z lo hi L δ) atTop (𝓝 hi) ∧
    Tendsto (fun z => fieldProfile Real.tanh (1 / 2) 1 z lo hi L δ) atBot (𝓝 lo) :=
  ⟨tendsto_fieldProfile_atTop lo hi δ hL, tendsto_fieldProfile_atBot lo hi δ hL⟩

/-- Non-vacuity / sanity: at the wall centre (`z/L + δ = 0`) the profile is the mid-point of the two
vevs and the gradient is `(φ_high − φ_low)/(2L)`. -/
example : fieldProfile Real.tanh (1 / 2) 1 (2 : ℝ) 1 5 4 (-1 / 2) = 3 ∧
    fieldGradient Real.cosh (1 / 2) (2 : ℝ) 1 5 4 (-1 / 2) = 1 / 2 := by
  constructor
  · simp [fieldProfile]; norm_num
  · simp [fieldGradient]; norm_num

/-! ## T09.2  Pressure = V(low) − V(high) -/

/-- **T09.2 (one field)** Let `V` be the effective potential as a function of the field at the
(constant) temperature of the wall, differentiable with continuous derivative `V'`.  Then the
integrand `V'(φ(z)) φ'(z)` is integrable and
`∫_ℝ −V'(φ(z)) φ'(z) dz = V(φ_low) − V(φ_high)`, for every width `L > 0` and offset `δ`.
Integrability is *proved* (from the `cosh⁻²` decay), not assumed.  Hypothesis: `0 < L`. -/
theorem pressure_single (V V' : ℝ → ℝ) (hV : ∀ x, HasDerivAt V (V' x) x) (hV' : Continuous V')
    (lo hi δ : ℝ) {L : ℝ} (hL : 0 < L) :
    Integrable (fun z => V' (fieldProfile Real.tanh (1 / 2) 1 z lo hi L δ)
        * fieldGradient Real.cosh (1 / 2) z lo hi L δ) ∧
    ∫ z, -(V' (fieldProfile Real.tanh (1 / 2) 1 z lo hi L δ)
        * fieldGradient Real.cosh (1 / 2) z lo hi L δ) = V lo - V hi :=
  pressure_identity_single V V' hV hV' lo hi δ hL

/-- Non-vacuity of T09.2 (one field): the quartic `V(φ) = φ⁴/4 − φ²/2` with `V' = φ³ − φ`,
vevs `φ_low = 1`, `φ_high = 0`, width `2`, offset `1/3`. -/
example : ∃ (V V' : ℝ → ℝ), (∀ x, HasDerivAt V (V' x) x) ∧ Continuous V' ∧ (0 : ℝ) < 2 ∧
    V 1 - V 0 = -1 / 4 := by
  refine ⟨fun x => x ^ 4 / 4 - x ^ 2 / 2, fun x => x ^ 3 - x, fun x => ?_, by fun_prop,
    by norm_num, by norm_num⟩
  have h := ((hasDerivAt_pow 4 x).div_const 4).sub ((hasDerivAt_pow 2 x).div_const 2)
  refine h.congr_deriv ?_
  push_cast; ring

/-- **T09.2 (n fields)** `V : ℝⁿ → ℝ` differentiable with continuous derivative `V'`
(`∂_iV(x) = V'(x) e_i`).  For the `n`-component tanh profile with vevs `lo`, `hi`, widths `L_i > 0`
and offsets `δ_i`, the integrand `Σ_i ∂_iV(φ(z)) φ_i'(z)` is integrable and
`∫_ℝ −Σ_i ∂_iV(φ(z)) φ_i'(z) dz = V(φ_low) − V(φ_high)`: the pressure does not depend on the widths
and offsets.  Hypothesis: all `L_i > 0`. -/
theorem pressure_multi {n : ℕ} (V : (Fin n → ℝ) → ℝ) (V' : (Fin n → ℝ) → ((Fin n → ℝ) →L[ℝ] ℝ))
    (hV : ∀ x, HasFDerivAt V (V' x) x) (hV' : Continuous V')
    (lo hi L δ : Fin n → ℝ) (hL : ∀ i, 0 < L i) :
    Integrable (fun z => ∑ i, V' (fun j => fieldProfile Real.tanh (1 / 2) 1 z (lo j) (hi j) (L j) (δ j))
        (Pi.single i 1) * fieldGradient Real.cosh (1 / 2) z (lo i) (hi i) (L i) (δ i)) ∧
    ∫ z, -(∑ i, V' (fun j => fieldProfile Real.tanh (1 / 2) 1 z (lo j) (hi j) (L j) (δ j))
        (Pi.single i 1) * fieldGradient Real.cosh (1 / 2) z (lo i) (hi i) (L i) (δ i))
      = V lo - V hi :=
  pressure_identity_multi V V' hV hV' lo hi L δ hL

/-- Non-vacuity of T09.2 (n fields): a linear potential on `ℝ²` (constant, hence continuous,
derivative) with widths `(1, 2)`. -/
example : ∃ (V : (Fin 2 → ℝ) → ℝ) (V' : (Fin 2 → ℝ) → ((Fin 2 → ℝ) →L[ℝ] ℝ)) (L : Fin 2 → ℝ),
    (∀ x, HasFDerivAt V (V' x) x) ∧ Continuous V' ∧ (∀ i, 0 < L i) ∧
    V ![1, 2] - V ![0, 0] = 1 := by
  refine ⟨fun x => (ContinuousLinearMap.proj (R := ℝ) (φ := fun _ : Fin 2 => ℝ) 0) x,
    fun _ => ContinuousLinearMap.proj (R := ℝ) (φ := fun _ : Fin 2 => ℝ) 0, ![1, 2],
    fun x => (ContinuousLinearMap.proj (R := ℝ) (φ := fun _ : Fin 2 => ℝ) 0).hasFDerivAt,
    continuous_const, ?_, by simp⟩
  intro i; fin_cases i <;> simp

/-- **T09.2 (temperature-independent field part)** If `Veff(φ, T) = V₀(φ) + f(T)` and
`dV(φ, T)` denotes `∂Veff/∂φ` (what `derivField` returns), then for an *arbitrary* temperature
profile `T(z)` the pressure integrand is that of `V₀`, hence the pressure is
`V₀(φ_low) − V₀(φ_high) = Veff(φ_low, T) − Veff(φ_high, T)` for every `T`.
Hypotheses: `V₀` has continuous derivative; `0 < L`. -/
theorem pressure_single_T_independent (Veff dV : ℝ → ℝ → ℝ) (V0 V0' f : ℝ → ℝ)
    (hsplit : ∀ φ T, Veff φ T = V0 φ + f T)
    (hdV : ∀ φ T, HasDerivAt (fun φ => Veff φ T) (dV φ T) φ)
    (hV0 : ∀ x, HasDerivAt V0 (V0' x) x) (hV0' : Continuous V0')
    (Tz : ℝ → ℝ) (lo hi δ : ℝ) {L : ℝ} (hL : 0 < L) (T : ℝ) :
    ∫ z, -(dV (fieldProfile Real.tanh (1 / 2) 1 z lo hi L δ) (Tz z)
        * fieldGradient Real.cosh (1 / 2) z lo hi L δ) = Veff lo T - Veff hi T := by
  have hd : ∀ φ T, dV φ T = V0' φ := by
    intro φ T
    have h1 : HasDerivAt (fun φ => Veff φ T) (V0' φ) φ := by
      have h := (hV0 φ).add_const (f T)
      have e : (fun φ => Veff φ T) = fun φ => V0 φ + f T := funext fun φ => hsplit φ T
      rw [e]; exact h
    exact (hdV φ T).unique h1
  simp only [hd, hsplit]
  rw [(pressure_identity_single V0 V0' hV0 hV0' lo hi δ hL).2]
  ring

/-- Non-vacuity: `Veff(φ,T) = (φ⁴/4 − φ²/2) + T⁴` splits as required. -/
example : ∃ (Veff dV : ℝ → ℝ → ℝ) (V0 V0' f : ℝ → ℝ), (∀ φ T, Veff φ T = V0 φ + f T) ∧
    (∀ φ T, HasDerivAt (fun φ => Veff φ T) (dV φ T) φ) ∧ (∀ x, HasDerivAt V0 (V0' x) x) ∧
    Continuous V0' := by
  have hD : ∀ x : ℝ, HasDerivAt (fun x : ℝ => x ^ 4 / 4 - x ^ 2 / 2) (x ^ 3 - x) x := by
    intro x
    have h := ((hasDerivAt_pow 4 x).div_const 4).sub ((hasDerivAt_pow 2 x).div_const 2)
    refine h.congr_deriv ?_
    push_cast; ring
  refine ⟨fun φ T => (φ ^ 4 / 4 - φ ^ 2 / 2) + T ^ 4, fun φ _ => φ ^ 3 - φ,
    fun x => x ^ 4 / 4 - x ^ 2 / 2, fun x => x ^ 3 - x, fun T => T ^ 4, fun _ _ => rfl,
    fun φ T => (hD φ).add_const _, hD, by fun_prop⟩

/-! ## T09.3  Change of variables to the compact coordinate -/

/-- **T09.3 (improper version)** For a grid map `z : (-1,1) → ℝ` with derivative `J = dz/dχ`
(C17: Jacobian = derivative), strictly increasing (C17), with `z → −∞` at `χ → −1⁺` and `z → +∞`
at `χ → 1⁻`: `∫_ℝ g(z) dz = ∫_{(-1,1)} g(z(χ)) J(χ) dχ` for every `g`.  Both sides are Bochner
integrals, so the identity also says that one is integrable iff the other is.  Uses Mathlib's
`MeasureTheory.integral_image_eq_integral_deriv_smul_of_monotoneOn`. -/
theorem integral_comp_gridmap (z J : ℝ → ℝ) (g : ℝ → ℝ)
    (hderiv : ∀ χ ∈ Ioo (-1 : ℝ) 1, HasDerivAt z (J χ) χ)
    (hmono : StrictMonoOn z (Ioo (-1 : ℝ) 1))
    (hbot : Tendsto z (𝓝[>] (-1 : ℝ)) atBot) (htop : Tendsto z (𝓝[<] (1 : ℝ)) atTop) :
    ∫ x, g x = ∫ χ in Ioo (-1 : ℝ) 1, g (z χ) * J χ :=
  Lemmas.EOM.integral_comp_gridmap z J g hderiv hmono hbot htop

/-- **T09.2 + T09.3** The continuum quantity that `eomPoly.integrate(weight = −dz/dχ)` approximates,
`∫_{(-1,1)} (V'(φ(z(χ))) φ'(z(χ))) · (−J(χ)) dχ`, equals `V(φ_low) − V(φ_high)`, for every admissible
grid map and all wall widths `L > 0` and offsets. -/
theorem pressure_on_grid (V V' : ℝ → ℝ) (hV : ∀ x, HasDerivAt V (V' x) x) (hV' : Continuous V')
    (lo hi δ : ℝ) {L : ℝ} (hL : 0 < L) (z J : ℝ → ℝ)
    (hderiv : ∀ χ ∈ Ioo (-1 : ℝ) 1, HasDerivAt z (J χ) χ)
    (hmono : StrictMonoOn z (Ioo (-1 : ℝ) 1))
    (hbot : Tendsto z (𝓝[>] (-1 : ℝ)) atBot) (htop : Tendsto z (𝓝[<] (1 : ℝ)) atTop) :
    ∫ χ in Ioo (-1 : ℝ) 1, (V' (fieldProfile Real.tanh (1 / 2) 1 (z χ) lo hi L δ)
        * fieldGradient Real.cosh (1 / 2) (z χ) lo hi L δ) * (-J χ) = V lo - V hi := by
  have h := Lemmas.EOM.integral_comp_gridmap z J
    (fun x => -(V' (fieldProfile Real.tanh (1 / 2) 1 x lo hi L δ)
        * fieldGradient Real.cosh (1 / 2) x lo hi L δ)) hderiv hmono hbot htop
  rw [(pressure_identity_single V V' hV hV' lo hi δ hL).2] at h
  rw [h]
  refine setIntegral_congr_fun measurableSet_Ioo (fun χ _ => ?_)
  ring

/-- **T09.3 (instantiated at the generated simple `Grid`)** `Grid.decompactify`'s position map
`z(χ) = Lχ/√(1−χ²)` with the Jacobian reported by `Grid.compactificationDerivatives` satisfies all
hypotheses of `integral_comp_gridmap` when `positionFalloff > 0` (derivative and monotonicity from
C17, limits proved in `Lemmas/EOM.lean`); hence on that grid the continuum value of
`eomPoly.integrate(weight = −dzdchi)` is `V(φ_low) − V(φ_high)` for every width `L > 0` and offset.
This also shows that the hypotheses of T09.3 are satisfiable (non-vacuity). -/
theorem pressure_on_simple_grid (s : Gen.R.Grid.GridP) (a b : ℝ) (hs : 0 < s.positionFalloff)
    (V V' : ℝ → ℝ) (hV : ∀ x, HasDerivAt V (V' x) x) (hV' : Continuous V')
    (lo hi δ : ℝ) {L : ℝ} (hL : 0 < L) :
    ∫ χ in Ioo (-1 : ℝ) 1,
      (V' (fieldProfile Real.tanh (1 / 2) 1 (Gen.R.Grid.decompactify s χ a b).1 lo hi L δ)
        * fieldGradient Real.cosh (1 / 2) (Gen.R.Grid.decompactify s χ a b).1 lo hi L δ)
        * (-(Gen.R.Grid.compactificationDerivatives s χ a b).1) = V lo - V hi :=
  pressure_on_grid V V' hV hV' lo hi δ hL (fun χ => (Gen.R.Grid.decompactify s χ a b).1)
    (fun χ => (Gen.R.Grid.compactificationDerivatives s χ a b).1)
    (fun _ hχ => Props.C17.grid_hasDerivAt_z s a b (abs_lt.mpr hχ))
    (Props.C17.grid_strictMonoOn_z s a b hs)
    (tendsto_gridz_left s a b hs) (tendsto_gridz_right s a b hs)

/-- Non-vacuity of `pressure_on_simple_grid`: a grid with `positionFalloff = 1`. -/
example : ∃ s : Gen.R.Grid.GridP, 0 < s.positionFalloff := ⟨⟨1, 1⟩, by norm_num⟩

end Props.C09
