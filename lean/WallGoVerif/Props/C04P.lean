/-
Property C04, part P: *which* root of the `T³³` equation `findPlasmaProfilePoint` looks for.

Statements are about the computable hand model `Model/ProfilePoint.lean` of the branch logic of
`EOM.findPlasmaProfilePoint` (src/WallGo/equationOfMotion.py) at `α := ℝ` with the code's constants
`zero = 0`, `tiny = 1e-10`, `up = 1.2`, `down = 0.8`:

  `profilePoint lhs 0 1e-10 1.2 0.8 Tn Tplus Tminus tmin`

where `lhs T` stands for `temperatureProfileEqLHS(fields, dPhidz, T, s1, s2)` — an ARBITRARY function
`ℝ → ℝ` in every theorem below — and `tmin` for the position `minRes.x` returned by the bounded
minimiser.  The three possible results are `.minimum T` (early return of the minimiser's position),
`.noSolution` (`return 0, 0`) and `.root a b` (the bracket `(tempAtMinimum, testTemp)` handed to
`root_scalar`).  The multiplier is `m = tMultiplier 0 1e-10 1.2 0.8 Tn Tplus Tminus tmin`
(`max(Tplus/tmin, 1.2)`, or `min(Tminus/tmin, 0.8)` when `|Tn − Tplus| < 1e-10`).
The loop evaluates `lhs` at the test temperatures `tmin·m^(j+1)`, `j = 0, 1, …, 101`.
Helper lemmas: `Lemmas/ProfilePoint.lean`.
-/
import WallGoVerif.Lemmas.ProfilePoint

namespace Props.C04P

open Model.ProfilePoint Lemmas.ProfilePoint

/-! ## The multiplier -/

/-- **T04P.0 (same multiplier as in C04)** The multiplier of the computable model, with the code's
constants, is the real-number multiplier `Lemmas.EOM.tMultiplier` about which `Props.C04`
(`tMultiplier_deflagration`, `tMultiplier_detonation`) speaks.  No hypotheses. -/
theorem multiplier_agrees_with_C04 (Tn Tplus Tminus tmin : ℝ) :
    tMultiplier (0 : ℝ) 1e-10 1.2 0.8 Tn Tplus Tminus tmin =
      Lemmas.EOM.tMultiplier Tn Tplus Tminus tmin :=
  tMultiplier_eq Tn Tplus Tminus tmin

/-! ## The three outcomes -/

/-- **T04P.1 (early return)** The position of the minimum is returned *iff* the left-hand side is not
negative there (`if lhs(minRes.x) >= 0`), and the temperature returned is exactly the minimiser's
`tmin`; in that case no root of the `T³³` equation is sought at all.  No hypotheses. -/
theorem minimum_iff (lhs : ℝ → ℝ) (Tn Tplus Tminus tmin T : ℝ) :
    profilePoint lhs 0 1e-10 1.2 0.8 Tn Tplus Tminus tmin = .minimum T ↔
      0 ≤ lhs tmin ∧ T = tmin :=
  profilePoint_minimum_iff lhs _ _ _ Tn Tplus Tminus tmin T

/-- Non-vacuity of T04P.1: `lhs T = (T − 1)²` has its minimum `0` at `tmin = 1`; the minimiser's
position is returned. -/
example : profilePoint (fun T : ℝ => (T - 1) ^ 2) 0 1e-10 1.2 0.8 1 1 3 1 = .minimum 1 := by
  rw [minimum_iff]; norm_num

/-- **T04P.2 (complete description of the bracket)** The code hands the bracket `(a, b)` to
`root_scalar` *iff* `lhs(tmin) < 0` and there is a pass count `k ≤ 101` with `a = tmin·m^k`,
`b = tmin·m^(k+1)`, `lhs` negative at all earlier test temperatures `tmin·m^(j+1)` (`j < k`) and not
negative at `b`.  No hypotheses. -/
theorem root_iff (lhs : ℝ → ℝ) (Tn Tplus Tminus tmin a b : ℝ) :
    profilePoint lhs 0 1e-10 1.2 0.8 Tn Tplus Tminus tmin = .root a b ↔
      lhs tmin < 0 ∧ ∃ k ≤ 101,
        a = tmin * tMultiplier (0 : ℝ) 1e-10 1.2 0.8 Tn Tplus Tminus tmin ^ k ∧
        b = tmin * tMultiplier (0 : ℝ) 1e-10 1.2 0.8 Tn Tplus Tminus tmin ^ (k + 1) ∧
        (∀ j < k, lhs (tmin * tMultiplier (0 : ℝ) 1e-10 1.2 0.8 Tn Tplus Tminus tmin ^ (j + 1)) < 0) ∧
        0 ≤ lhs (tmin * tMultiplier (0 : ℝ) 1e-10 1.2 0.8 Tn Tplus Tminus tmin ^ (k + 1)) :=
  profilePoint_root_iff lhs _ _ _ Tn Tplus Tminus tmin a b

/-- **T04P.3 (geometric bracket)** If a bracket `(a, b)` is handed to the root finder then
`a = tmin·m^k`, `b = tmin·m^(k+1)` for some number of passes `k ≤ 101`, and the left-hand side was
negative at every earlier test temperature `tmin·m^(j+1)`, `j < k`.  No hypotheses. -/
theorem root_bracket_geometric (lhs : ℝ → ℝ) (Tn Tplus Tminus tmin a b : ℝ)
    (h : profilePoint lhs 0 1e-10 1.2 0.8 Tn Tplus Tminus tmin = .root a b) :
    ∃ k ≤ 101,
      a = tmin * tMultiplier (0 : ℝ) 1e-10 1.2 0.8 Tn Tplus Tminus tmin ^ k ∧
      b = tmin * tMultiplier (0 : ℝ) 1e-10 1.2 0.8 Tn Tplus Tminus tmin ^ (k + 1) ∧
      ∀ j < k, lhs (tmin * tMultiplier (0 : ℝ) 1e-10 1.2 0.8 Tn Tplus Tminus tmin ^ (j + 1)) < 0 := by
  obtain ⟨-, k, hk, ha, hb, hneg, -⟩ := (root_iff lhs Tn Tplus Tminus tmin a b).mp h
  exact ⟨k, hk, ha, hb, hneg⟩

/-- **T04P.4 (sign change)** The bracket handed to `root_scalar` always has a sign change:
`lhs(a) < 0 ≤ lhs(b)`.  (`a` is either `tmin`, where `lhs` is negative because the early return was
not taken, or the previous test temperature, where the loop condition `lhs < 0` held.)  So
`root_scalar` is never called with an invalid bracket, for any function `lhs`.  No hypotheses. -/
theorem root_bracket_sign_change (lhs : ℝ → ℝ) (Tn Tplus Tminus tmin a b : ℝ)
    (h : profilePoint lhs 0 1e-10 1.2 0.8 Tn Tplus Tminus tmin = .root a b) :
    lhs a < 0 ∧ 0 ≤ lhs b := by
  obtain ⟨h0, k, -, ha, hb, hneg, hb0⟩ := (root_iff lhs Tn Tplus Tminus tmin a b).mp h
  refine ⟨?_, by rw [hb]; exact hb0⟩
  rw [ha]
  cases k with
  | zero => simpa using h0
  | succ k => exact hneg k (Nat.lt_succ_self k)

/-- **T04P.5 (giving up)** `return 0, 0` happens *iff* the left-hand side is negative at the minimiser
and at all 102 test temperatures `tmin·m^(j+1)`, `j = 0 … 101`.  No hypotheses. -/
theorem noSolution_iff (lhs : ℝ → ℝ) (Tn Tplus Tminus tmin : ℝ) :
    profilePoint lhs 0 1e-10 1.2 0.8 Tn Tplus Tminus tmin = .noSolution ↔
      lhs tmin < 0 ∧ ∀ j ≤ 101,
        lhs (tmin * tMultiplier (0 : ℝ) 1e-10 1.2 0.8 Tn Tplus Tminus tmin ^ (j + 1)) < 0 :=
  profilePoint_noSolution_iff lhs _ _ _ Tn Tplus Tminus tmin

/-- Non-vacuity of T04P.5: a left-hand side that is negative everywhere (`lhs = −1`) makes the code
give up, whatever the temperatures. -/
example (Tn Tplus Tminus tmin : ℝ) :
    profilePoint (fun _ : ℝ => -1) 0 1e-10 1.2 0.8 Tn Tplus Tminus tmin = .noSolution := by
  rw [noSolution_iff]
  exact ⟨by norm_num, fun _ _ => by norm_num⟩

/-- **T04P.6 (exhaustive, exclusive case split)** Exactly one of the three things happens, decided by
the signs of `lhs` at `tmin` and at the test temperatures: early return iff `0 ≤ lhs(tmin)`; otherwise
give up iff all 102 test values are negative; otherwise a bracket is produced.  No hypotheses. -/
theorem outcome_cases (lhs : ℝ → ℝ) (Tn Tplus Tminus tmin : ℝ) :
    (0 ≤ lhs tmin ∧ profilePoint lhs 0 1e-10 1.2 0.8 Tn Tplus Tminus tmin = .minimum tmin) ∨
    (lhs tmin < 0 ∧ profilePoint lhs 0 1e-10 1.2 0.8 Tn Tplus Tminus tmin = .noSolution) ∨
    (lhs tmin < 0 ∧ ∃ a b, profilePoint lhs 0 1e-10 1.2 0.8 Tn Tplus Tminus tmin = .root a b) := by
  rcases le_or_gt 0 (lhs tmin) with h | h
  · exact Or.inl ⟨h, (minimum_iff lhs Tn Tplus Tminus tmin tmin).mpr ⟨h, rfl⟩⟩
  · right
    rcases neg_or_first
      (fun j => lhs (tmin * tMultiplier (0 : ℝ) 1e-10 1.2 0.8 Tn Tplus Tminus tmin ^ (j + 1))) 101
      with hall | ⟨k, hk, hneg, h0⟩
    · exact Or.inl ⟨h, (noSolution_iff lhs Tn Tplus Tminus tmin).mpr ⟨h, hall⟩⟩
    · exact Or.inr ⟨h, _, _, (root_iff lhs Tn Tplus Tminus tmin _ _).mpr
        ⟨h, k, hk, rfl, rfl, hneg, h0⟩⟩

/-! ## Detonation branch: the root below the minimum -/

/-- **T04P.7 (detonation multiplier)** If `|Tn − Tplus| < 1e-10` and `0 < tmin`, the multiplier is
`min(Tminus/tmin, 0.8)`: it is at most `0.8`, the first test temperature `tmin·m` is at or below
`Tminus` and at or below `0.8·tmin` (hence strictly below `tmin`); and `m > 0` when `Tminus > 0`.
Hypotheses: detonation test true, `0 < tmin` (`0 < Tminus` only for the positivity of `m`). -/
theorem detonation_multiplier {Tn Tplus Tminus tmin : ℝ} (hdet : |Tn - Tplus| < 1e-10)
    (ht : 0 < tmin) :
    tMultiplier (0 : ℝ) 1e-10 1.2 0.8 Tn Tplus Tminus tmin = min (Tminus / tmin) 0.8 ∧
    tMultiplier (0 : ℝ) 1e-10 1.2 0.8 Tn Tplus Tminus tmin ≤ 0.8 ∧
    tmin * tMultiplier (0 : ℝ) 1e-10 1.2 0.8 Tn Tplus Tminus tmin ≤ Tminus ∧
    tmin * tMultiplier (0 : ℝ) 1e-10 1.2 0.8 Tn Tplus Tminus tmin ≤ 0.8 * tmin ∧
    (0 < Tminus → 0 < tMultiplier (0 : ℝ) 1e-10 1.2 0.8 Tn Tplus Tminus tmin) := by
  obtain ⟨h1, h2, h3⟩ := detonation_mult_bounds (Tminus := Tminus) hdet ht
  refine ⟨tMultiplier_detonation hdet, h1, h2, ?_, h3⟩
  nlinarith

/-- **T04P.8 (a detonation always searches BELOW the minimum)** If `|Tn − Tplus| < 1e-10`,
`0 < tmin` and `0 < Tminus`, every bracket `(a, b)` handed to the root finder satisfies
`0 < b < a ≤ tmin`: the root is sought on the low-temperature side of the minimum of the left-hand
side — whatever the value of `Tminus`, in particular also when `Tminus > tmin` (then `m = 0.8` and the
high-temperature root, the one on the side where `Tminus` lies, is never looked for).
Hypotheses: detonation test true, `0 < tmin`, `0 < Tminus`. -/
theorem detonation_searches_below (lhs : ℝ → ℝ) {Tn Tplus Tminus tmin : ℝ}
    (hdet : |Tn - Tplus| < 1e-10) (ht : 0 < tmin) (hTm : 0 < Tminus) (a b : ℝ)
    (h : profilePoint lhs 0 1e-10 1.2 0.8 Tn Tplus Tminus tmin = .root a b) :
    0 < b ∧ b < a ∧ a ≤ tmin := by
  obtain ⟨-, hle, -, -, hpos⟩ := detonation_multiplier (Tminus := Tminus) hdet ht
  obtain ⟨k, -, ha, hb, -⟩ := root_bracket_geometric lhs Tn Tplus Tminus tmin a b h
  have hlt : tMultiplier (0 : ℝ) 1e-10 1.2 0.8 Tn Tplus Tminus tmin < 1 :=
    lt_of_le_of_lt hle (by norm_num)
  rw [ha, hb]
  exact geom_below ht (hpos hTm) hlt k

/-- Non-vacuity of T04P.3, T04P.4, T04P.7, T04P.8 with `Tminus` ABOVE the minimiser:
`lhs T = (T − 1)(T − 4)` (roots `1` and `4`, minimum at `tmin = 5/2`), detonation `Tn = Tplus = 1`,
`Tminus = 3 > tmin`.  The multiplier is `min(3/2.5, 0.8) = 0.8`; the test temperatures
`2, 1.6, 1.28, 1.024` give negative values and `0.8192` a positive one: the bracket is
`(1.024, 0.8192)` around the LOWER root `T = 1`, although `Tminus = 3` lies on the side of the upper
root `T = 4`. -/
example : |(1 : ℝ) - 1| < 1e-10 ∧ (0 : ℝ) < 5 / 2 ∧ (0 : ℝ) < 3 ∧ (5 / 2 : ℝ) < 3 ∧
    profilePoint (fun T : ℝ => (T - 1) * (T - 4)) 0 1e-10 1.2 0.8 1 1 3 (5 / 2) =
      .root (128 / 125) (512 / 625) := by
  refine ⟨by norm_num, by norm_num, by norm_num, by norm_num, ?_⟩
  have hm : tMultiplier (0 : ℝ) 1e-10 1.2 0.8 1 1 3 (5 / 2) = 4 / 5 := by
    rw [tMultiplier_detonation (by norm_num)]; norm_num [min_def]
  rw [root_iff, hm]
  refine ⟨by norm_num, 4, by norm_num, by norm_num, by norm_num, ?_, by norm_num⟩
  intro j hj
  interval_cases j <;> norm_num

/-! ## Deflagration / hybrid branch: the root above the minimum -/

/-- **T04P.9 (deflagration multiplier)** If the detonation test `|Tn − Tplus| < 1e-10` fails, the
multiplier is `max(Tplus/tmin, 1.2) ≥ 1.2`, and for `0 < tmin` the first test temperature is at least
`Tplus` and at least `1.2·tmin`.  Hypotheses: detonation test false (`0 < tmin` for the last two). -/
theorem deflagration_multiplier {Tn Tplus Tminus tmin : ℝ} (hdef : ¬ |Tn - Tplus| < 1e-10) :
    tMultiplier (0 : ℝ) 1e-10 1.2 0.8 Tn Tplus Tminus tmin = max (Tplus / tmin) 1.2 ∧
    1.2 ≤ tMultiplier (0 : ℝ) 1e-10 1.2 0.8 Tn Tplus Tminus tmin ∧
    (0 < tmin → Tplus ≤ tmin * tMultiplier (0 : ℝ) 1e-10 1.2 0.8 Tn Tplus Tminus tmin ∧
      1.2 * tmin ≤ tmin * tMultiplier (0 : ℝ) 1e-10 1.2 0.8 Tn Tplus Tminus tmin) := by
  obtain ⟨h1, h2⟩ := deflagration_mult_bounds (Tminus := Tminus) (tmin := tmin) hdef
  refine ⟨tMultiplier_deflagration hdef, h1, fun ht => ⟨h2 ht, ?_⟩⟩
  nlinarith

/-- **T04P.10 (a deflagration/hybrid always searches ABOVE the minimum)** If the detonation test
fails and `0 < tmin`, every bracket `(a, b)` handed to the root finder satisfies `tmin ≤ a < b`.
Hypotheses: detonation test false, `0 < tmin`. -/
theorem deflagration_searches_above (lhs : ℝ → ℝ) {Tn Tplus Tminus tmin : ℝ}
    (hdef : ¬ |Tn - Tplus| < 1e-10) (ht : 0 < tmin) (a b : ℝ)
    (h : profilePoint lhs 0 1e-10 1.2 0.8 Tn Tplus Tminus tmin = .root a b) :
    tmin ≤ a ∧ a < b := by
  obtain ⟨-, hge, -⟩ := deflagration_multiplier (Tminus := Tminus) (tmin := tmin) hdef
  obtain ⟨k, -, ha, hb, -⟩ := root_bracket_geometric lhs Tn Tplus Tminus tmin a b h
  have hgt : 1 < tMultiplier (0 : ℝ) 1e-10 1.2 0.8 Tn Tplus Tminus tmin :=
    lt_of_lt_of_le (by norm_num) hge
  rw [ha, hb]
  exact geom_above ht hgt k

/-- Non-vacuity of T04P.9, T04P.10 (and again T04P.3, T04P.4): the same `lhs T = (T − 1)(T − 4)`,
`tmin = 5/2`, now with `Tn = 1`, `Tplus = 11/10` (deflagration), `Tminus = 3`.  The multiplier is
`max(0.44, 1.2) = 1.2`; test temperatures `3, 3.6` give negative values, `4.32` a positive one: the
bracket `(3.6, 4.32)` surrounds the UPPER root `T = 4`. -/
example : (¬ |(1 : ℝ) - 11 / 10| < 1e-10) ∧ (0 : ℝ) < 5 / 2 ∧
    profilePoint (fun T : ℝ => (T - 1) * (T - 4)) 0 1e-10 1.2 0.8 1 (11 / 10) 3 (5 / 2) =
      .root (18 / 5) (108 / 25) := by
  have hdef : ¬ |(1 : ℝ) - 11 / 10| < 1e-10 := by
    rw [abs_of_neg (by norm_num)]; norm_num
  refine ⟨hdef, by norm_num, ?_⟩
  have hm : tMultiplier (0 : ℝ) 1e-10 1.2 0.8 1 (11 / 10) 3 (5 / 2) = 6 / 5 := by
    rw [tMultiplier_deflagration hdef]; norm_num [max_def]
  rw [root_iff, hm]
  refine ⟨by norm_num, 2, by norm_num, by norm_num, by norm_num, ?_, by norm_num⟩
  intro j hj
  interval_cases j <;> norm_num

/-! ## The two branches look for different roots -/

/-- **T04P.11 (the branches are disjoint)** For the same left-hand side and the same minimiser
`tmin > 0`, a bracket produced on the detonation branch (`|Tn − Tplus| < 1e-10`, `Tminus > 0`) and a
bracket produced on the deflagration branch (test false for `Tn', Tplus'`) lie on opposite sides of
`tmin`: `0 < b < a ≤ tmin ≤ a' < b'`.  The two intervals share at most the single point `tmin`, where
`lhs < 0`, so the two branches can never bracket the same root.
Hypotheses: `0 < tmin`, `0 < Tminus`, one test true, the other false. -/
theorem branches_disjoint (lhs : ℝ → ℝ) {Tn Tplus Tminus Tn' Tplus' Tminus' tmin : ℝ}
    (ht : 0 < tmin) (hTm : 0 < Tminus)
    (hdet : |Tn - Tplus| < 1e-10) (hdef : ¬ |Tn' - Tplus'| < 1e-10) (a b a' b' : ℝ)
    (h : profilePoint lhs 0 1e-10 1.2 0.8 Tn Tplus Tminus tmin = .root a b)
    (h' : profilePoint lhs 0 1e-10 1.2 0.8 Tn' Tplus' Tminus' tmin = .root a' b') :
    0 < b ∧ b < a ∧ a ≤ tmin ∧ tmin ≤ a' ∧ a' < b' ∧ lhs tmin < 0 := by
  obtain ⟨h1, h2, h3⟩ := detonation_searches_below lhs hdet ht hTm a b h
  obtain ⟨h4, h5⟩ := deflagration_searches_above lhs hdef ht a' b' h'
  exact ⟨h1, h2, h3, h4, h5, ((root_iff lhs Tn Tplus Tminus tmin a b).mp h).1⟩

/-- Non-vacuity of T04P.11: the two examples above (`lhs T = (T − 1)(T − 4)`, `tmin = 5/2`) give the
brackets `(1.024, 0.8192)` and `(3.6, 4.32)`, and indeed `0.8192 < 1.024 ≤ 2.5 ≤ 3.6 < 4.32`. -/
example : (512 / 625 : ℝ) < 128 / 125 ∧ (128 / 125 : ℝ) ≤ 5 / 2 ∧ (5 / 2 : ℝ) ≤ 18 / 5 ∧
    (18 / 5 : ℝ) < 108 / 25 := by
  norm_num

end Props.C04P
