/-
Property C12 — `BoltzmannSolver.solveBoltzmannEquations` / `buildLinearEquations`
(src/WallGo/boltzmann.py:209-263, 432-626).

"For a homogeneous background the solved deviation vanishes identically; for any background the
returned deviation satisfies the assembled linear system; the deviation, as a function on phase space,
and all quantities derived from it are the same whichever polynomial basis is chosen in position and
in momentum."

What is proved, about which object:
* the source term: the GENERATED `Gen.R.Boltz.sourceTerm` (regenerated from the source on every run);
* the spectral derivative of the profiles: `Model.Poly.cardinalDeriv`/`mulVec` (Props/C16);
* the assembled operator: `Lemmas.Boltz.opMat`, whose entries are `liouvilleEntry + collisionEntry` of the
  data-flow model `Model/Boltz.lean` (`op_entry_eq_model`), as a `Matrix` over the index
  `(particle, i, j, k)`; `np.linalg.solve` enters only through its contract
  (non-singular `A`, `A·x = s`), which is monitored numerically on the real code.
Sections: T12.1 homogeneous background, T12.2 basis independence, T12.3 solve contract, T12.4 reshaping.
Helper lemmas: `Lemmas/Boltz.lean`.
-/
import WallGoVerif.Lemmas.Boltz

namespace Props.C12

open Gen.R.Boltz Model.Boltz Model.Poly Lemmas.Boltz Lemmas.CollisionCheb Matrix Finset

/-! ## T12.1 homogeneous background ⇒ zero deviation -/

/-- **T12.1a.** The generated source term vanishes whenever the three profile derivatives
(`dv/dχ`, `dT/dχ`, `dm²/dχ`) vanish — for all values of every other argument (wall velocity, momenta,
temperature, statistics, Jacobians; also at the `f_eq'` cut-off and with `T = 0`, where the real-number
model's division by zero yields `0`).  (C12: "for a homogeneous background …".) -/
theorem source_zero_of_homogeneous (vw pz E v T dv dT dm stat dxi dpz dpp : ℝ)
    (h : dv = 0 ∧ dT = 0 ∧ dm = 0) :
    (sourceTerm vw pz E v T dv dT dm stat dxi dpz dpp).1 = 0 := by
  obtain ⟨rfl, rfl, rfl⟩ := h
  exact sourceTerm_fst_zero vw pz E v T stat dxi dpz dpp

example : (sourceTerm 0 1 1 0 1 0 0 0 1 1 1 1).1 = 0 :=
  source_zero_of_homogeneous _ _ _ _ _ _ _ _ _ _ _ _ ⟨rfl, rfl, rfl⟩

/-- the hypothesis is satisfiable, and the source is not identically zero otherwise: with
`dT/dχ = 1` (other derivatives `0`), `v_w = v = 0`, `p_z = E = T = 1`, bosons, the source is
`f_eq'(1)·1·(p_z·E) ≠ 0`. -/
example : (sourceTerm 0 1 1 0 1 0 1 0 1 1 1 1).1 ≠ 0 := by
  have h1 : ¬ ((1 : ℝ) > 88722839111673 / 125000000000) := by norm_num
  have hne : Real.exp 1 - 2 + Real.exp (-1) ≠ 0 := by
    have h2 : Real.exp 1 > 2 := by
      have := Real.add_one_lt_exp (x := 1) (by norm_num); linarith
    have := Real.exp_pos (-1)
    linarith
  simp [sourceTerm, dfeq, h1, hne]

/-- **T12.1b.** The spectral derivative that `buildLinearEquations` applies to the background profiles
(`Polynomial.derivative` in the cardinal basis with end points: `_cardinalDeriv(·, True)` times the nodal
values) annihilates constants, at EVERY node, boundaries included, on any list of distinct nodes.  Hence
for a homogeneous background `dT/dχ`, `dv/dχ` and every `dm_a²/dχ` vanish at every grid point. -/
theorem derivative_of_constant_profile_zero {xs : List ℝ} (h : xs.Nodup) (d : Dir) (c : ℝ) :
    mulVec (0 : ℝ) (cardinalDeriv (0 : ℝ) 1 d true xs) (xs.map (fun _ => c)) = xs.map (fun _ => 0) :=
  cardinalDeriv_const h d c

/-- non-vacuity + numeric check on `xs = [-1, -1/2, 1/3, 1]`, constant `7`. -/
example : mulVec (0 : ℝ) (cardinalDeriv (0 : ℝ) 1 .z true [-1, -1/2, 1/3, 1]) [7, 7, 7, 7] = [0, 0, 0, 0] := by
  have := derivative_of_constant_profile_zero (xs := [-1, -1/2, 1/3, 1]) (by norm_num) .z 7
  simpa using this

/-- **T12.1d (finite-difference branch).** Any derivative matrix with zero row sums (true of every
consistent finite-difference matrix, in particular of the `findiff` matrices of accuracy 2 used by the
'Finite Difference' branch) annihilates constant vectors; so the three profile derivatives vanish for a
homogeneous background in that branch too. -/
theorem fd_derivative_of_constant_zero {ι κ : Type*} [Fintype κ] (D : Matrix ι κ ℝ)
    (h : ∀ i, ∑ j, D i j = 0) (c : ℝ) : D *ᵥ (fun _ => c) = 0 :=
  mulVec_const_of_row_sums_zero D h c

/-- non-vacuity: the 3-point second-order one-sided/central/one-sided stencil on a uniform grid `h = 1`. -/
example : (!![-3/2, 2, -1/2; -1/2, 0, 1/2; 1/2, -2, 3/2] : Matrix (Fin 3) (Fin 3) ℝ) *ᵥ (fun _ => 5) = 0 :=
  fd_derivative_of_constant_zero _ (by intro i; fin_cases i <;> simp [Fin.sum_univ_three] <;> norm_num) 5

/-- **T12.1c.** A non-singular assembled operator (`IsUnit A.det`, the precondition of
`np.linalg.solve`) has trivial kernel: `A·x = 0 → x = 0`. -/
theorem solution_of_zero_source_zero {ι : Type*} [Fintype ι] [DecidableEq ι] (A : Matrix ι ι ℝ)
    (hA : IsUnit A.det) (x : ι → ℝ) (h : A *ᵥ x = 0) : x = 0 :=
  mulVec_eq_zero_of_isUnit_det A hA x h

/-- **T12.1 (assembled).** Let the background be homogeneous: the temperature, velocity and mass-squared
profiles are constant lists on the position grid `xs` (distinct nodes).  Let the derivative profiles be
computed as the code does (spectral derivative of the nodal values), let every entry of the source vector
be the generated `sourceTerm` evaluated with the derivative values at the row's position index
`pos r` (and arbitrary other arguments), and let `x` solve the non-singular system `A·x = s`.
Then `x = 0`: the solved deviation vanishes identically.
(C12: "For a homogeneous background the solved deviation vanishes identically".) -/
theorem homogeneous_background_solution_zero {ι : Type*} [Fintype ι] [DecidableEq ι]
    {xs : List ℝ} (hnd : xs.Nodup) (T0 v0 : ℝ) (msq0 : ι → ℝ)
    (A : Matrix ι ι ℝ) (hA : IsUnit A.det) (pos : ι → ℕ)
    (vw : ℝ) (pz E v T stat dxi dpz dpp : ι → ℝ) (s x : ι → ℝ)
    (hs : ∀ r, s r = (sourceTerm vw (pz r) (E r) (v r) (T r)
      ((mulVec (0 : ℝ) (cardinalDeriv (0 : ℝ) 1 .z true xs) (xs.map fun _ => v0)).getD (pos r) 0)
      ((mulVec (0 : ℝ) (cardinalDeriv (0 : ℝ) 1 .z true xs) (xs.map fun _ => T0)).getD (pos r) 0)
      ((mulVec (0 : ℝ) (cardinalDeriv (0 : ℝ) 1 .z true xs) (xs.map fun _ => msq0 r)).getD (pos r) 0)
      (stat r) (dxi r) (dpz r) (dpp r)).1)
    (hx : A *ᵥ x = s) : x = 0 := by
  have hz : ∀ (c : ℝ) (r : ι),
      (mulVec (0 : ℝ) (cardinalDeriv (0 : ℝ) 1 .z true xs) (xs.map fun _ => c)).getD (pos r) 0 = 0 := by
    intro c r
    rw [cardinalDeriv_const hnd .z c, List.getD_eq_getElem?_getD, List.getElem?_map]
    cases xs[pos r]? <;> rfl
  exact solution_zero_of_homogeneous A hA vw pz E v T _ _ _ stat dxi dpz dpp s x hs
    (fun r => hz v0 r) (fun r => hz T0 r) (fun r => hz (msq0 r) r) hx

/-- non-vacuity: a `2 × 2` non-singular operator (det `= −2`), two position nodes. -/
example (x : Fin 2 → ℝ) (vw : ℝ) (pz E v T stat dxi dpz dpp : Fin 2 → ℝ)
    (hx : (!![1, 1; 1, -1] : Matrix (Fin 2) (Fin 2) ℝ) *ᵥ x = fun r => (sourceTerm vw (pz r) (E r) (v r) (T r)
      ((mulVec (0 : ℝ) (cardinalDeriv (0 : ℝ) 1 .z true [-1, 1]) ([-1, 1].map fun _ => 3)).getD r 0)
      ((mulVec (0 : ℝ) (cardinalDeriv (0 : ℝ) 1 .z true [-1, 1]) ([-1, 1].map fun _ => 100)).getD r 0)
      ((mulVec (0 : ℝ) (cardinalDeriv (0 : ℝ) 1 .z true [-1, 1]) ([-1, 1].map fun _ => 2)).getD r 0)
      (stat r) (dxi r) (dpz r) (dpp r)).1) : x = 0 :=
  homogeneous_background_solution_zero (ι := Fin 2) (xs := [-1, 1]) (by norm_num) 100 3 (fun _ => 2)
    (!![1, 1; 1, -1] : Matrix (Fin 2) (Fin 2) ℝ)
    (by simp [Matrix.det_fin_two]; norm_num) (fun r : Fin 2 => (r : ℕ))
    vw pz E v T stat dxi dpz dpp _ x (fun _ => rfl) hx

/-! ## T12.2 basis independence -/

section Basis
variable {P : Type} [Fintype P] [DecidableEq P] {m n p : ℕ}

omit [Fintype P] in
/-- **T12.2 (the operator model is the code's data flow).** Entry `[a,i,j,k ; b,l,m',n']` of `opMat`, with
the coefficient fields `A = dχ/dξ_i · P_wall`, `B = dχ/dξ_i · dρ_z/dp_z,j · (γ_w/2) · dm²/dχ_{a,i}`,
`t_i = multiplier · T_i²`, is `liouvilleEntry + collisionEntry` of `Model/Boltz.lean` — the hand model
that is differential-tested against `buildLinearEquations` (all particle pairs; the Liouville part carries
`δ_ab`). -/
theorem op_entry_eq_model (dchidxi : Fin m → ℝ) (pWall : P → Fin m → Fin n → Fin p → ℝ)
    (drzdpz : Fin n → ℝ) (gammaWall : ℝ) (dMsq : P → Fin m → ℝ) (mult : ℝ) (temp : Fin m → ℝ)
    (DChi TChi : Matrix (Fin m) (Fin m) ℝ) (DRz TRz : Matrix (Fin n) (Fin n) ℝ)
    (TRp : Matrix (Fin p) (Fin p) ℝ) (C : P → Fin n → Fin p → P → Fin n → Fin p → ℝ)
    (a b : P) (i l : Fin m) (j m' : Fin n) (k n' : Fin p) :
    opMat (fun a i j k => dchidxi i * pWall a i j k)
        (fun a i j _ => dchidxi i * drzdpz j * (gammaWall / 2) * dMsq a i)
        (fun i => mult * (temp i * temp i)) DChi TChi DRz TRz TRp C (((a, i), j), k) (((b, l), m'), n')
      = liouvilleEntry (0 : ℝ) 2 (decide (a = b)) (dchidxi i) (pWall a i j k) (drzdpz j) gammaWall
          (dMsq a i) (DChi i l) (TRz j m') (TRp k n') (TChi i l) (DRz j m')
        + collisionEntry mult (temp i) (TChi i l) (C a j k b m' n') :=
  opMat_eq_model dchidxi pWall drzdpz gammaWall dMsq mult temp DChi TChi DRz TRz TRp C a b i l j m' k n'

/-- **T12.2 (operator in a general basis).** In the Cardinal basis the intertwiners are identities and the
derivative matrices are `Dχ`, `Dz`; in a general basis pair the intertwiners are the collocation matrices
`T_M`, `T_z`, `T_p`, the derivative matrices are `Dχ·T_M`, `Dz·T_z` (see `chebyshev_deriv_matrix_eq`) and the
collision array is transformed on its two column axes (`collisionChangeBasis`, C14).  Then
`Op_B = Op_card · (1 ⊗ T_M ⊗ T_z ⊗ T_p)`: entrywise
`Op_B[a,i,j,k; b,l,m',n'] = Σ_{l0 m0 n0} Op_card[a,i,j,k; b,l0,m0,n0]·T_M[l0,l]·T_z[m0,m']·T_p[n0,n']`.
No hypothesis on the matrices. -/
theorem operator_basis_change (A B : P → Fin m → Fin n → Fin p → ℝ) (t : Fin m → ℝ)
    (Dχ TM : Matrix (Fin m) (Fin m) ℝ) (Dz Tz : Matrix (Fin n) (Fin n) ℝ)
    (Tp : Matrix (Fin p) (Fin p) ℝ) (C : P → Fin n → Fin p → P → Fin n → Fin p → ℝ) :
    opMat A B t (Dχ * TM) TM (Dz * Tz) Tz Tp (collisionChangeBasis C Tz Tp)
      = opMat A B t Dχ 1 Dz 1 1 C * basisKron TM Tz Tp :=
  opMat_basis_change A B t Dχ TM Dz Tz Tp C

omit [Fintype P] in
/-- the entries of the tensor-product basis change: `δ_ab · T_M[l0,l] · T_z[m0,m'] · T_p[n0,n']` -/
theorem basisKron_entry (TM : Matrix (Fin m) (Fin m) ℝ) (Tz : Matrix (Fin n) (Fin n) ℝ)
    (Tp : Matrix (Fin p) (Fin p) ℝ) (r c : Idx P m n p) :
    basisKron (P := P) TM Tz Tp r c
      = (if r.1.1.1 = c.1.1.1 then 1 else 0) * TM r.1.1.2 c.1.1.2 * Tz r.1.2 c.1.2 * Tp r.2 c.2 :=
  basisKron_apply TM Tz Tp r c

/-- **T12.2 (the deviation as a function on phase space is basis independent).** If `x` solves the
Cardinal-basis system and `y` the general-basis system with the SAME source (the source does not involve
the basis), and the Cardinal operator is non-singular, then `x = (1 ⊗ T_M ⊗ T_z ⊗ T_p)·y`: the grid values
(= cardinal coefficients) of the function represented by `y` are exactly `x`.
(C12: "the deviation, as a function on phase space, … [is] the same whichever polynomial basis is
chosen".) -/
theorem solution_basis_independent (A B : P → Fin m → Fin n → Fin p → ℝ) (t : Fin m → ℝ)
    (Dχ TM : Matrix (Fin m) (Fin m) ℝ) (Dz Tz : Matrix (Fin n) (Fin n) ℝ)
    (Tp : Matrix (Fin p) (Fin p) ℝ) (C : P → Fin n → Fin p → P → Fin n → Fin p → ℝ)
    (hcard : IsUnit (opMat A B t Dχ 1 Dz 1 1 C).det) (s x y : Idx P m n p → ℝ)
    (hx : opMat A B t Dχ 1 Dz 1 1 C *ᵥ x = s)
    (hy : opMat A B t (Dχ * TM) TM (Dz * Tz) Tz Tp (collisionChangeBasis C Tz Tp) *ᵥ y = s) :
    x = basisKron TM Tz Tp *ᵥ y :=
  solution_basis_change A B t Dχ TM Dz Tz Tp C hcard s x y hx hy

/-- **T12.2 (solvability is basis independent).** With invertible collocation matrices (C14/C16Cheb:
`code_matrix_isUnit_det`) the operator in the general basis is non-singular iff the Cardinal one is. -/
theorem operator_nonsingular_iff (A B : P → Fin m → Fin n → Fin p → ℝ) (t : Fin m → ℝ)
    (Dχ TM : Matrix (Fin m) (Fin m) ℝ) (Dz Tz : Matrix (Fin n) (Fin n) ℝ)
    (Tp : Matrix (Fin p) (Fin p) ℝ) (C : P → Fin n → Fin p → P → Fin n → Fin p → ℝ)
    (hM : IsUnit TM.det) (hz : IsUnit Tz.det) (hp : IsUnit Tp.det) :
    IsUnit (opMat A B t (Dχ * TM) TM (Dz * Tz) Tz Tp (collisionChangeBasis C Tz Tp)).det
      ↔ IsUnit (opMat A B t Dχ 1 Dz 1 1 C).det := by
  rw [opMat_basis_change, Matrix.det_mul]
  have hK := basisKron_det_isUnit (P := P) TM Tz Tp hM hz hp
  constructor
  · intro h; exact (IsUnit.mul_iff.mp h).1
  · intro h; exact h.mul hK

/-- **T12.2 (derived quantities).** Every moment computed by `getDeltas` — which first converts the solution
to the Cardinal basis, i.e. applies `1 ⊗ T_M ⊗ T_z ⊗ T_p` — is the same for the two solutions: for each
particle `a` and position `i`, any weight array and quadrature factors.
(C12: "… and all quantities derived from it are the same".) -/
theorem moments_basis_independent (A B : P → Fin m → Fin n → Fin p → ℝ) (t : Fin m → ℝ)
    (Dχ TM : Matrix (Fin m) (Fin m) ℝ) (Dz Tz : Matrix (Fin n) (Fin n) ℝ)
    (Tp : Matrix (Fin p) (Fin p) ℝ) (C : P → Fin n → Fin p → P → Fin n → Fin p → ℝ)
    (hcard : IsUnit (opMat A B t Dχ 1 Dz 1 1 C).det) (s x y : Idx P m n p → ℝ)
    (hx : opMat A B t Dχ 1 Dz 1 1 C *ᵥ x = s)
    (hy : opMat A B t (Dχ * TM) TM (Dz * Tz) Tz Tp (collisionChangeBasis C Tz Tp) *ᵥ y = s)
    (a : P) (i : Fin m) (W : List (List ℝ)) (sz sp : List ℝ) :
    moment (0 : ℝ) (List.ofFn fun j : Fin n => List.ofFn fun k : Fin p => x (((a, i), j), k)) W sz sp
      = moment (0 : ℝ) (List.ofFn fun j : Fin n => List.ofFn fun k : Fin p =>
          (basisKron TM Tz Tp *ᵥ y) (((a, i), j), k)) W sz sp := by
  rw [solution_basis_independent A B t Dχ TM Dz Tz Tp C hcard s x y hx hy]

/-- **T12.2 (the hypothesis `DChi_B = Dχ·T_M`, `DRz_B = Dz·T_z` holds for the code's matrices).**
For direction `z` or `pz` without end points, on distinct nodes running from `−1` to `+1`:
`_chebyshevDeriv` (all nodes × orders) `= _cardinalDeriv` (all nodes × interior nodes) `· _chebyshevMatrix`
(interior nodes × orders).  The code uses the interior rows `[1:-1]` of both derivative matrices, i.e. the
same row selection on both sides of this identity. -/
theorem chebyshev_deriv_matrix_eq {xs : List ℝ} (hnd : xs.Nodup) {d : Dir} (hd : d ≠ .pp)
    (h0 : xs.getD 0 0 = -1) (h1 : xs.getD (xs.length - 1) 0 = 1) (k : ℕ)
    (hk : k = (kept d false xs).length) :
    toMatrix (chebyshevDeriv (0 : ℝ) 1 2 Nat.cast d false xs) xs.length k
      = toMatrix (cardinalDeriv (0 : ℝ) 1 d false xs) xs.length k * chebMat d false xs k :=
  chebyshevDeriv_eq_mul hnd hd h0 h1 k hk

/-- … in particular for any selection `ρ` of rows (the code: interior rows). -/
theorem chebyshev_deriv_matrix_eq_rows {xs : List ℝ} (hnd : xs.Nodup) {d : Dir} (hd : d ≠ .pp)
    (h0 : xs.getD 0 0 = -1) (h1 : xs.getD (xs.length - 1) 0 = 1) (k : ℕ)
    (hk : k = (kept d false xs).length) (ρ : Fin k → Fin xs.length) :
    (toMatrix (chebyshevDeriv (0 : ℝ) 1 2 Nat.cast d false xs) xs.length k).submatrix ρ id
      = (toMatrix (cardinalDeriv (0 : ℝ) 1 d false xs) xs.length k).submatrix ρ id
          * chebMat d false xs k := by
  rw [chebyshev_deriv_matrix_eq hnd hd h0 h1 k hk]
  ext i j
  simp [Matrix.mul_apply]

end Basis

/-- non-vacuity of `chebyshev_deriv_matrix_eq`: the nodes `[-1, -1/2, 1/3, 1]`, direction `z`
(two interior nodes, orders 2 and 3). -/
example : toMatrix (chebyshevDeriv (0 : ℝ) 1 2 Nat.cast .z false [-1, -1/2, 1/3, 1]) 4 2
    = toMatrix (cardinalDeriv (0 : ℝ) 1 .z false [-1, -1/2, 1/3, 1]) 4 2
        * chebMat .z false [-1, -1/2, 1/3, 1] 2 :=
  chebyshev_deriv_matrix_eq (xs := [-1, -1/2, 1/3, 1]) (by norm_num) (by decide) (by norm_num)
    (by norm_num) 2 (by simp [kept, keptRange])

/-- non-vacuity of `operator_basis_change`/`solution_basis_independent`/`operator_nonsingular_iff`: one
particle, `m = n = p = 1`, `Dχ = (2)`, `Dz = (3)`, `C = 5`, `A = B = t = 1`, collocation "matrices" `(2)`,
`(3)`, `(4)`.  The Cardinal operator is the `1 × 1` matrix `(2 − 3 + 5) = (4)`, non-singular. -/
example :
    IsUnit (opMat (P := Unit) (m := 1) (n := 1) (p := 1) (fun _ _ _ _ => 1) (fun _ _ _ _ => 1) (fun _ => 1)
      !![2] 1 !![3] 1 1 (fun _ _ _ _ _ _ => 5)).det := by
  have : (opMat (P := Unit) (m := 1) (n := 1) (p := 1) (fun _ _ _ _ => 1) (fun _ _ _ _ => 1) (fun _ => 1)
      !![2] 1 !![3] 1 1 (fun _ _ _ _ _ _ => 5)).det = 4 := by
    rw [Matrix.det_eq_elem_of_card_eq_one (by simp) ((((), 0), 0), 0)]
    simp [opMat]
    norm_num
  rw [this]; exact isUnit_iff_ne_zero.mpr (by norm_num)

/-- … and a full instance of `solution_basis_independent`: source `8`, Cardinal solution `x = 2`
(`4·2 = 8`), general-basis solution `y = 1/12` (`Op_B = 4·(2·3·4) = 96`, `96/12 = 8`); indeed
`(T_M ⊗ T_z ⊗ T_p)·y = 24/12 = 2 = x`. -/
example :
    (fun _ => (2 : ℝ)) = basisKron (P := Unit) (!![2] : Matrix (Fin 1) (Fin 1) ℝ) !![3] !![4] *ᵥ (fun _ => 1 / 12) := by
  refine solution_basis_independent (P := Unit) (m := 1) (n := 1) (p := 1) (fun _ _ _ _ => 1)
    (fun _ _ _ _ => 1) (fun _ => 1) !![2] !![2] !![3] !![3] !![4] (fun _ _ _ _ _ _ => 5) ?_ (fun _ => 8) _ _ ?_ ?_
  · rw [Matrix.det_eq_elem_of_card_eq_one (by simp) ((((), 0), 0), 0)]
    simp [opMat]
    norm_num
  · funext r
    simp [Matrix.mulVec, dotProduct, opMat, Matrix.one_apply, Fin.fin_one_eq_zero]
    norm_num
  · funext r
    simp [Matrix.mulVec, dotProduct, opMat, collisionChangeBasis, Matrix.mul_apply]
    norm_num

example : IsUnit (!![2] : Matrix (Fin 1) (Fin 1) ℝ).det ∧ IsUnit (!![3] : Matrix (Fin 1) (Fin 1) ℝ).det
    ∧ IsUnit (!![4] : Matrix (Fin 1) (Fin 1) ℝ).det := by
  simp [Matrix.det_unique]

/-! ## T12.3 the solve contract -/

/-- **T12.3.** The contract of `np.linalg.solve` for a non-singular operator: `x = A⁻¹ s` satisfies the
assembled system `A·x = s` (and is its only solution, `solution_of_zero_source_zero`).  That the floating
point result satisfies it to rounding is monitored numerically on the real code (backward error).
(C12: "for any background the returned deviation satisfies the assembled linear system".) -/
theorem solve_contract_residual {ι : Type*} [Fintype ι] [DecidableEq ι] (A : Matrix ι ι ℝ)
    (hA : IsUnit A.det) (s : ι → ℝ) : A *ᵥ (A⁻¹ *ᵥ s) = s := by
  rw [Matrix.mulVec_mulVec, Matrix.mul_nonsing_inv _ hA, Matrix.one_mulVec]

/-- uniqueness: any `x` with `A·x = s` is `A⁻¹ s`. -/
theorem solve_contract_unique {ι : Type*} [Fintype ι] [DecidableEq ι] (A : Matrix ι ι ℝ)
    (hA : IsUnit A.det) (s x : ι → ℝ) (h : A *ᵥ x = s) : x = A⁻¹ *ᵥ s := by
  rw [← h, Matrix.mulVec_mulVec, Matrix.nonsing_inv_mul _ hA, Matrix.one_mulVec]

example : IsUnit (!![1, 1; 1, -1] : Matrix (Fin 2) (Fin 2) ℝ).det := by
  simp [Matrix.det_fin_two]; norm_num

/-! ## T12.4 reshaping -/

/-- **T12.4.** The C-order flattening `(a,i,j,k) ↦ ((a·nM + i)·nN + j)·nN + k` used by
`np.reshape(·, order="C")` for the operator (both index groups), the source, and the solution is injective
on the index box … -/
theorem flatIndex_injective {nM nN a i j k a' i' j' k' : ℕ} (hi : i < nM) (hj : j < nN) (hk : k < nN)
    (hi' : i' < nM) (hj' : j' < nN) (hk' : k' < nN)
    (h : flatIndex nM nN a i j k = flatIndex nM nN a' i' j' k') :
    a = a' ∧ i = i' ∧ j = j' ∧ k = k' :=
  flatIndex_inj hi hj hk hi' hj' hk' h

/-- … maps into `[0, np·nM·nN·nN)` … -/
theorem flatIndex_lt_total {np nM nN a i j k : ℕ} (ha : a < np) (hi : i < nM) (hj : j < nN) (hk : k < nN) :
    flatIndex nM nN a i j k < np * nM * nN * nN :=
  flatIndex_lt ha hi hj hk

/-- … and is a bijection of the index box onto `Fin (np·nM·nN·nN)`. -/
theorem flatIndex_bijective (np nM nN : ℕ) :
    ∃ e : Idx (Fin np) nM nN nN ≃ Fin (np * nM * nN * nN),
      ∀ r, (e r : ℕ) = flatIndex nM nN r.1.1.1 r.1.1.2 r.1.2 r.2 :=
  ⟨flatEquiv np nM nN, flatEquiv_val np nM nN⟩

/-- **T12.4.** Reshaping operator and source with the same bijection preserves the linear system:
`x` solves the tensor-index system iff its flattening solves the flattened system; so the reshaped
solution returned by `solveBoltzmannEquations` (reshaped back with the same C order) is the solution of
the tensor-index system. -/
theorem reshape_preserves_system {ι κ : Type*} [Fintype ι] [Fintype κ] (e : ι ≃ κ) (A : Matrix ι ι ℝ)
    (x s : ι → ℝ) :
    Matrix.reindex e e A *ᵥ (x ∘ e.symm) = s ∘ e.symm ↔ A *ᵥ x = s :=
  reindex_system e A x s

/-- non-vacuity: `np = 2, nM = 3, nN = 2`: `(1, 2, 1, 0) ↦ ((1·3+2)·2+1)·2+0 = 22 < 24`. -/
example : flatIndex 3 2 1 2 1 0 = 22 ∧ flatIndex 3 2 1 2 1 0 < 2 * 3 * 2 * 2 := by decide

end Props.C12
