/-
Property C10 — equation of state (`Thermodynamics` in `src/WallGo/thermodynamics.py`).

"In both phases and at every temperature - inside the tabulated range and in the extrapolated regions
below and above it - energy density, enthalpy and sound speed obey e = T dp/dT - p, w = T dp/dT,
cs^2 = (dp/dT)/(de/dT), and the reported first and second temperature derivatives of the pressure are
the derivatives of the reported pressure. Pressure, its first two derivatives and the sound speed are
continuous across the boundaries of the tabulated range, and inside the range the pressure is minus
the effective potential at the phase's minimum."

All statements are about the GENERATED definitions in `Gen/R/Thermo.lean`.
* `Extrapolated s` : the 12 template-model fields of `s` have the values assigned by `setExtrapolate`.
* `WF s`           : side conditions (see `Lemmas/Thermo.lean`): `0 < TMin < TMax`, and at each of the
                     boundary temperatures `dp ≠ 0`, `de ≠ 0`, `dp + de ≠ 0`.
* The spline (`FHigh`, `dFHigh`, `ddFHigh`, …) is an oracle; its contract appears as explicit hypotheses.
Sections: T10.3 identities, T10.1 continuity, T10.2 derivatives and `csq = dp/de`, T10.4 `alpha`.
The `…LowT` theorems are the `…HighT` theorems with the names swapped (same code in Python).
-/
import WallGoVerif.Lemmas.Thermo

namespace Props.C10

open Gen.R.Thermo Lemmas.Thermo Set Filter Topology

variable {s : ThermoP}

/-! ## High-temperature phase -/

/-! ### T10.3 identities -/

/-- `eHighT` returns `T·dp/dT − p` at every temperature (all three regions); no hypotheses.
Clause "e = T dp/dT - p". -/
theorem eHighT_eq (T : ℝ) : eHighT s T = T * dpHighT s T - pHighT s T := rfl

/-- `wHighT` returns `T·dp/dT` at every temperature; no hypotheses. Clause "w = T dp/dT". -/
theorem wHighT_eq (T : ℝ) : wHighT s T = T * dpHighT s T := rfl

/-- enthalpy is `e + p` at every temperature; no hypotheses. -/
theorem wHighT_eq_e_add_p (T : ℝ) : wHighT s T = eHighT s T + pHighT s T := by
  unfold wHighT eHighT; ring

/-- `deHighT` returns `T·d²p/dT²` at every temperature; no hypotheses. Together with
`hasDerivAt_eHighT` this makes `deHighT` the derivative of `eHighT`. -/
theorem deHighT_eq (T : ℝ) : deHighT s T = T * ddpHighT s T := rfl

/-- inside the tabulated range the sound speed is `dp/de`. Clause "cs^2 = (dp/dT)/(de/dT)" (in range). -/
theorem csqHighT_inside {T : ℝ} (h1 : s.TMinHighT ≤ T) (h2 : T ≤ s.TMaxHighT) :
    csqHighT s T = dpHighT s T / deHighT s T :=
  Phase.csq_of_mem (ph := highPhase s) h1 h2

/-- inside the tabulated range the pressure is minus the free energy (the effective potential at the
phase's minimum). Clause "inside the range the pressure is minus the effective potential". -/
theorem pHighT_inside {T : ℝ} (h1 : s.TMinHighT ≤ T) (h2 : T ≤ s.TMaxHighT) :
    pHighT s T = -s.FHigh T :=
  Phase.p_of_mem (ph := highPhase s) h1 h2

/-- inside the tabulated range `dpHighT` is minus the spline's first derivative. -/
theorem dpHighT_inside {T : ℝ} (h1 : s.TMinHighT ≤ T) (h2 : T ≤ s.TMaxHighT) :
    dpHighT s T = -s.dFHigh T :=
  Phase.dp_of_mem (ph := highPhase s) h1 h2

/-- inside the tabulated range `ddpHighT` is minus the spline's second derivative. -/
theorem ddpHighT_inside {T : ℝ} (h1 : s.TMinHighT ≤ T) (h2 : T ≤ s.TMaxHighT) :
    ddpHighT s T = -s.ddFHigh T :=
  Phase.ddp_of_mem (ph := highPhase s) h1 h2

/-! ### T10.1 continuity across the boundaries -/

/-- With the parameters chosen by `setExtrapolate`, the low-side template model evaluated AT `TMin`
reproduces the in-range pressure, its first and its second derivative there.
Uses: `Extrapolated` (mu, a, eps at Min), `0 < TMin`, `TMin ≤ TMax`, `dp(TMin) ≠ 0`,
`dp(TMin) + de(TMin) ≠ 0`. (The first conjunct needs only the `eps` equation and `TMin ≤ TMax`.) -/
theorem match_TMinHighT (hE : Extrapolated s) (hW : WF s) :
    1 / 3 * s.aMinHighT * s.TMinHighT ^ s.muMinHighT - s.epsilonMinHighT = -s.FHigh s.TMinHighT ∧
    1 / 3 * s.muMinHighT * s.aMinHighT * s.TMinHighT ^ (s.muMinHighT - 1) = -s.dFHigh s.TMinHighT ∧
    1 / 3 * s.muMinHighT * (s.muMinHighT - 1) * s.aMinHighT * s.TMinHighT ^ (s.muMinHighT - 2)
      = -s.ddFHigh s.TMinHighT := by
  have hP := hW.high
  have hle := hP.TMin_lt_TMax.le
  exact ⟨(Phase.matchMin_p hE.high).trans (Phase.p_of_mem le_rfl hle),
    (Phase.matchMin_dp hE.high hle hP.TMin_pos hP.dpMin hP.dwMin).trans (Phase.dp_of_mem le_rfl hle),
    (Phase.matchMin_ddp hE.high hle hP.TMin_pos hP.dpMin hP.dwMin).trans
      (Phase.ddp_of_mem le_rfl hle)⟩

/-- Same at `TMax` for the high-side template model.
Uses: `Extrapolated` (mu, a, eps at Max), `0 < TMin < TMax`, `dp(TMax) ≠ 0`, `dp(TMax) + de(TMax) ≠ 0`. -/
theorem match_TMaxHighT (hE : Extrapolated s) (hW : WF s) :
    1 / 3 * s.aMaxHighT * s.TMaxHighT ^ s.muMaxHighT - s.epsilonMaxHighT = -s.FHigh s.TMaxHighT ∧
    1 / 3 * s.muMaxHighT * s.aMaxHighT * s.TMaxHighT ^ (s.muMaxHighT - 1) = -s.dFHigh s.TMaxHighT ∧
    1 / 3 * s.muMaxHighT * (s.muMaxHighT - 1) * s.aMaxHighT * s.TMaxHighT ^ (s.muMaxHighT - 2)
      = -s.ddFHigh s.TMaxHighT := by
  have hP := hW.high
  have hle := hP.TMin_lt_TMax.le
  exact ⟨(Phase.matchMax_p hE.high).trans (Phase.p_of_mem hle le_rfl),
    (Phase.matchMax_dp hE.high hle hP.TMax_pos hP.dpMax hP.dwMax).trans (Phase.dp_of_mem hle le_rfl),
    (Phase.matchMax_ddp hE.high hle hP.TMax_pos hP.dpMax hP.dwMax).trans
      (Phase.ddp_of_mem hle le_rfl)⟩

/-- Approaching `TMin` from BELOW (extrapolated region), `p`, `dp`, `ddp`, `csq` tend to their values at
`TMin` (which are the in-range, spline values). No hypothesis on the spline is needed. -/
theorem tendsto_left_TMinHighT (hE : Extrapolated s) (hW : WF s) :
    Tendsto (pHighT s) (𝓝[<] s.TMinHighT) (𝓝 (pHighT s s.TMinHighT)) ∧
    Tendsto (dpHighT s) (𝓝[<] s.TMinHighT) (𝓝 (dpHighT s s.TMinHighT)) ∧
    Tendsto (ddpHighT s) (𝓝[<] s.TMinHighT) (𝓝 (ddpHighT s s.TMinHighT)) ∧
    Tendsto (csqHighT s) (𝓝[<] s.TMinHighT) (𝓝 (csqHighT s s.TMinHighT)) := by
  have hP := hW.high
  exact ⟨Phase.p_tendsto_left_TMin hE.high hP.TMin_lt_TMax.le hP.TMin_pos.ne',
    Phase.dp_tendsto_left_TMin hE.high hP, Phase.ddp_tendsto_left_TMin hE.high hP,
    Phase.csq_tendsto_left_TMin (ph := highPhase s) hP.TMin_lt_TMax.le⟩

/-- Approaching `TMax` from ABOVE (extrapolated region), `p`, `dp`, `ddp`, `csq` tend to their values at
`TMax`. No hypothesis on the spline is needed. -/
theorem tendsto_right_TMaxHighT (hE : Extrapolated s) (hW : WF s) :
    Tendsto (pHighT s) (𝓝[>] s.TMaxHighT) (𝓝 (pHighT s s.TMaxHighT)) ∧
    Tendsto (dpHighT s) (𝓝[>] s.TMaxHighT) (𝓝 (dpHighT s s.TMaxHighT)) ∧
    Tendsto (ddpHighT s) (𝓝[>] s.TMaxHighT) (𝓝 (ddpHighT s s.TMaxHighT)) ∧
    Tendsto (csqHighT s) (𝓝[>] s.TMaxHighT) (𝓝 (csqHighT s s.TMaxHighT)) := by
  have hP := hW.high
  exact ⟨Phase.p_tendsto_right_TMax hE.high hP.TMin_lt_TMax.le hP.TMax_pos.ne',
    Phase.dp_tendsto_right_TMax hE.high hP, Phase.ddp_tendsto_right_TMax hE.high hP,
    Phase.csq_tendsto_right_TMax (ph := highPhase s) hP.TMin_lt_TMax.le⟩

/-- `p`, `dp`, `ddp`, `csq` are (two-sided) continuous at `TMin`, provided the spline functions are
right-continuous there. (`csq` needs neither `Extrapolated` nor the `dp`-conditions, only
`TMin < TMax`, `de(TMin) ≠ 0` and right-continuity of `dF`, `ddF`.)
Clause "continuous across the boundaries of the tabulated range". -/
theorem continuousAt_TMinHighT (hE : Extrapolated s) (hW : WF s)
    (hF : ContinuousWithinAt s.FHigh (Ici s.TMinHighT) s.TMinHighT)
    (hdF : ContinuousWithinAt s.dFHigh (Ici s.TMinHighT) s.TMinHighT)
    (hddF : ContinuousWithinAt s.ddFHigh (Ici s.TMinHighT) s.TMinHighT) :
    ContinuousAt (pHighT s) s.TMinHighT ∧ ContinuousAt (dpHighT s) s.TMinHighT ∧
    ContinuousAt (ddpHighT s) s.TMinHighT ∧ ContinuousAt (csqHighT s) s.TMinHighT := by
  have hP := hW.high
  exact ⟨Phase.p_continuousAt_TMin hE.high hP.TMin_lt_TMax hP.TMin_pos.ne' hF,
    Phase.dp_continuousAt_TMin hE.high hP hdF, Phase.ddp_continuousAt_TMin hE.high hP hddF,
    Phase.csq_continuousAt_TMin (ph := highPhase s) hP.TMin_lt_TMax hP.deMin hdF hddF⟩

/-- `p`, `dp`, `ddp`, `csq` are (two-sided) continuous at `TMax`, provided the spline functions are
left-continuous there. -/
theorem continuousAt_TMaxHighT (hE : Extrapolated s) (hW : WF s)
    (hF : ContinuousWithinAt s.FHigh (Iic s.TMaxHighT) s.TMaxHighT)
    (hdF : ContinuousWithinAt s.dFHigh (Iic s.TMaxHighT) s.TMaxHighT)
    (hddF : ContinuousWithinAt s.ddFHigh (Iic s.TMaxHighT) s.TMaxHighT) :
    ContinuousAt (pHighT s) s.TMaxHighT ∧ ContinuousAt (dpHighT s) s.TMaxHighT ∧
    ContinuousAt (ddpHighT s) s.TMaxHighT ∧ ContinuousAt (csqHighT s) s.TMaxHighT := by
  have hP := hW.high
  exact ⟨Phase.p_continuousAt_TMax hE.high hP.TMin_lt_TMax hP.TMax_pos.ne' hF,
    Phase.dp_continuousAt_TMax hE.high hP hdF, Phase.ddp_continuousAt_TMax hE.high hP hddF,
    Phase.csq_continuousAt_TMax (ph := highPhase s) hP.TMin_lt_TMax hP.deMax hdF hddF⟩

/-! ### T10.2 derivatives -/

/-- Below the range (`0 < T < TMin`): `dpHighT` is the derivative of `pHighT` and `ddpHighT` the derivative
of `dpHighT`. No `Extrapolated`/`WF` needed (only `T ≠ 0`). -/
theorem hasDerivAt_below_HighT {T : ℝ} (hT0 : 0 < T) (hT : T < s.TMinHighT) :
    HasDerivAt (pHighT s) (dpHighT s T) T ∧ HasDerivAt (dpHighT s) (ddpHighT s T) T :=
  ⟨Phase.hasDerivAt_p_of_lt (ph := highPhase s) hT0.ne' hT,
    Phase.hasDerivAt_dp_of_lt (ph := highPhase s) hT0.ne' hT⟩

/-- Above the range (`T > TMax`, `T > 0`): same. Needs `TMin ≤ TMax` (otherwise the `T < TMin` branch
could fire first) and `T ≠ 0`. -/
theorem hasDerivAt_above_HighT (hle : s.TMinHighT ≤ s.TMaxHighT) {T : ℝ} (hT0 : 0 < T)
    (hT : s.TMaxHighT < T) :
    HasDerivAt (pHighT s) (dpHighT s T) T ∧ HasDerivAt (dpHighT s) (ddpHighT s T) T :=
  ⟨Phase.hasDerivAt_p_of_gt (ph := highPhase s) hle hT0.ne' hT,
    Phase.hasDerivAt_dp_of_gt (ph := highPhase s) hle hT0.ne' hT⟩

/-- Strictly inside the range: same, from the spline contract at `T`. -/
theorem hasDerivAt_inside_HighT {T : ℝ} (h1 : s.TMinHighT < T) (h2 : T < s.TMaxHighT)
    (hF : HasDerivAt s.FHigh (s.dFHigh T) T) (hdF : HasDerivAt s.dFHigh (s.ddFHigh T) T) :
    HasDerivAt (pHighT s) (dpHighT s T) T ∧ HasDerivAt (dpHighT s) (ddpHighT s T) T :=
  ⟨Phase.hasDerivAt_p_of_mem (ph := highPhase s) h1 h2 hF,
    Phase.hasDerivAt_dp_of_mem (ph := highPhase s) h1 h2 hdF⟩

/-- AT the lower boundary: the two one-sided derivatives agree (by `match_TMinHighT`), so `pHighT`,
`dpHighT` are differentiable at `TMin` with the reported derivatives. Only the spline's RIGHT
derivative at `TMin` is assumed. -/
theorem hasDerivAt_TMinHighT (hE : Extrapolated s) (hW : WF s)
    (hF : HasDerivWithinAt s.FHigh (s.dFHigh s.TMinHighT) (Ici s.TMinHighT) s.TMinHighT)
    (hdF : HasDerivWithinAt s.dFHigh (s.ddFHigh s.TMinHighT) (Ici s.TMinHighT) s.TMinHighT) :
    HasDerivAt (pHighT s) (dpHighT s s.TMinHighT) s.TMinHighT ∧
    HasDerivAt (dpHighT s) (ddpHighT s s.TMinHighT) s.TMinHighT :=
  ⟨Phase.hasDerivAt_p_TMin hE.high hW.high hF, Phase.hasDerivAt_dp_TMin hE.high hW.high hdF⟩

/-- AT the upper boundary; only the spline's LEFT derivative at `TMax` is assumed. -/
theorem hasDerivAt_TMaxHighT (hE : Extrapolated s) (hW : WF s)
    (hF : HasDerivWithinAt s.FHigh (s.dFHigh s.TMaxHighT) (Iic s.TMaxHighT) s.TMaxHighT)
    (hdF : HasDerivWithinAt s.dFHigh (s.ddFHigh s.TMaxHighT) (Iic s.TMaxHighT) s.TMaxHighT) :
    HasDerivAt (pHighT s) (dpHighT s s.TMaxHighT) s.TMaxHighT ∧
    HasDerivAt (dpHighT s) (ddpHighT s s.TMaxHighT) s.TMaxHighT :=
  ⟨Phase.hasDerivAt_p_TMax hE.high hW.high hF, Phase.hasDerivAt_dp_TMax hE.high hW.high hdF⟩

/-- At EVERY `T > 0` (below, at the boundaries, inside, above) the reported first derivative is the
derivative of the reported pressure, given the spline contract on the closed tabulated range.
Clause "the reported first … derivative of the pressure is the derivative of the reported pressure". -/
theorem hasDerivAt_pHighT (hE : Extrapolated s) (hW : WF s)
    (hF : ∀ T, s.TMinHighT ≤ T → T ≤ s.TMaxHighT → HasDerivAt s.FHigh (s.dFHigh T) T)
    {T : ℝ} (hT : 0 < T) : HasDerivAt (pHighT s) (dpHighT s T) T :=
  Phase.hasDerivAt_p hE.high hW.high hF hT

/-- At EVERY `T > 0` the reported second derivative is the derivative of the reported first derivative. -/
theorem hasDerivAt_dpHighT (hE : Extrapolated s) (hW : WF s)
    (hdF : ∀ T, s.TMinHighT ≤ T → T ≤ s.TMaxHighT → HasDerivAt s.dFHigh (s.ddFHigh T) T)
    {T : ℝ} (hT : 0 < T) : HasDerivAt (dpHighT s) (ddpHighT s T) T :=
  Phase.hasDerivAt_dp hE.high hW.high hdF hT

/-- Consequently `deHighT` is the derivative of `eHighT` at every `T > 0`
(so `csq = dp/de` really is `(dp/dT)/(de/dT)`). -/
theorem hasDerivAt_eHighT (hE : Extrapolated s) (hW : WF s)
    (hF : ∀ T, s.TMinHighT ≤ T → T ≤ s.TMaxHighT → HasDerivAt s.FHigh (s.dFHigh T) T)
    (hdF : ∀ T, s.TMinHighT ≤ T → T ≤ s.TMaxHighT → HasDerivAt s.dFHigh (s.ddFHigh T) T)
    {T : ℝ} (hT : 0 < T) : HasDerivAt (eHighT s) (deHighT s T) T := by
  have h1 := hasDerivAt_pHighT hE hW hF hT
  have h2 := hasDerivAt_dpHighT hE hW hdF hT
  have h3 := ((hasDerivAt_id T).mul h2).sub h1
  refine h3.congr_deriv ?_
  simp only [id, deHighT]; ring

/-- Sound speed at EVERY `T > 0`, all three regions: `csq = dp/de`. Outside the range the code returns
the boundary value; it coincides with `dp/de` of the template model because that ratio is the constant
`1/(mu−1)`. Uses `Extrapolated`, `0 < TMin < TMax`, `dp ≠ 0`, `dp + de ≠ 0` at the boundaries
(`de ≠ 0` is not used here; see `deHighT_ne_zero_outside`). Clause "cs^2 = (dp/dT)/(de/dT)". -/
theorem csq_is_dp_over_de_HighT (hE : Extrapolated s) (hW : WF s) {T : ℝ} (hT : 0 < T) :
    csqHighT s T = dpHighT s T / deHighT s T :=
  Phase.csq_eq hE.high hW.high hT

/-- In the extrapolated regions the denominator `de` does not vanish (so the quotient above is
genuine there). This is where `de(TMin) ≠ 0`, `de(TMax) ≠ 0` are used. -/
theorem deHighT_ne_zero_outside (hE : Extrapolated s) (hW : WF s) {T : ℝ} (hT0 : 0 < T)
    (hT : T < s.TMinHighT ∨ s.TMaxHighT < T) : deHighT s T ≠ 0 := by
  rcases hT with h | h
  · exact Phase.de_ne_zero_of_lt hE.high hW.high hT0 h
  · exact Phase.de_ne_zero_of_gt hE.high hW.high h

/-- The sound speed used in the extrapolated regions is `1/(mu−1)` (template model), i.e. the
`mu` fields are consistent with the boundary sound speeds. Needs only `TMin ≤ TMax`. -/
theorem csqHighT_boundary (hE : Extrapolated s) (hle : s.TMinHighT ≤ s.TMaxHighT) :
    csqHighT s s.TMinHighT = 1 / (s.muMinHighT - 1) ∧
    csqHighT s s.TMaxHighT = 1 / (s.muMaxHighT - 1) :=
  ⟨Phase.csq_TMin_eq hE.high hle, Phase.csq_TMax_eq hE.high hle⟩

/-! ## Low-temperature phase -/

/-! ### T10.3 identities -/

/-- `eLowT` returns `T·dp/dT − p` at every temperature (all three regions); no hypotheses.
Clause "e = T dp/dT - p". -/
theorem eLowT_eq (T : ℝ) : eLowT s T = T * dpLowT s T - pLowT s T := rfl

/-- `wLowT` returns `T·dp/dT` at every temperature; no hypotheses. Clause "w = T dp/dT". -/
theorem wLowT_eq (T : ℝ) : wLowT s T = T * dpLowT s T := rfl

/-- enthalpy is `e + p` at every temperature; no hypotheses. -/
theorem wLowT_eq_e_add_p (T : ℝ) : wLowT s T = eLowT s T + pLowT s T := by
  unfold wLowT eLowT; ring

/-- `deLowT` returns `T·d²p/dT²` at every temperature; no hypotheses. Together with
`hasDerivAt_eLowT` this makes `deLowT` the derivative of `eLowT`. -/
theorem deLowT_eq (T : ℝ) : deLowT s T = T * ddpLowT s T := rfl

/-- inside the tabulated range the sound speed is `dp/de`. Clause "cs^2 = (dp/dT)/(de/dT)" (in range). -/
theorem csqLowT_inside {T : ℝ} (h1 : s.TMinLowT ≤ T) (h2 : T ≤ s.TMaxLowT) :
    csqLowT s T = dpLowT s T / deLowT s T :=
  Phase.csq_of_mem (ph := lowPhase s) h1 h2

/-- inside the tabulated range the pressure is minus the free energy (the effective potential at the
phase's minimum). Clause "inside the range the pressure is minus the effective potential". -/
theorem pLowT_inside {T : ℝ} (h1 : s.TMinLowT ≤ T) (h2 : T ≤ s.TMaxLowT) :
    pLowT s T = -s.FLow T :=
  Phase.p_of_mem (ph := lowPhase s) h1 h2

/-- inside the tabulated range `dpLowT` is minus the spline's first derivative. -/
theorem dpLowT_inside {T : ℝ} (h1 : s.TMinLowT ≤ T) (h2 : T ≤ s.TMaxLowT) :
    dpLowT s T = -s.dFLow T :=
  Phase.dp_of_mem (ph := lowPhase s) h1 h2

/-- inside the tabulated range `ddpLowT` is minus the spline's second derivative. -/
theorem ddpLowT_inside {T : ℝ} (h1 : s.TMinLowT ≤ T) (h2 : T ≤ s.TMaxLowT) :
    ddpLowT s T = -s.ddFLow T :=
  Phase.ddp_of_mem (ph := lowPhase s) h1 h2

/-! ### T10.1 continuity across the boundaries -/

/-- With the parameters chosen by `setExtrapolate`, the low-side template model evaluated AT `TMin`
reproduces the in-range pressure, its first and its second derivative there.
Uses: `Extrapolated` (mu, a, eps at Min), `0 < TMin`, `TMin ≤ TMax`, `dp(TMin) ≠ 0`,
`dp(TMin) + de(TMin) ≠ 0`. (The first conjunct needs only the `eps` equation and `TMin ≤ TMax`.) -/
theorem match_TMinLowT (hE : Extrapolated s) (hW : WF s) :
    1 / 3 * s.aMinLowT * s.TMinLowT ^ s.muMinLowT - s.epsilonMinLowT = -s.FLow s.TMinLowT ∧
    1 / 3 * s.muMinLowT * s.aMinLowT * s.TMinLowT ^ (s.muMinLowT - 1) = -s.dFLow s.TMinLowT ∧
    1 / 3 * s.muMinLowT * (s.muMinLowT - 1) * s.aMinLowT * s.TMinLowT ^ (s.muMinLowT - 2)
      = -s.ddFLow s.TMinLowT := by
  have hP := hW.low
  have hle := hP.TMin_lt_TMax.le
  exact ⟨(Phase.matchMin_p hE.low).trans (Phase.p_of_mem le_rfl hle),
    (Phase.matchMin_dp hE.low hle hP.TMin_pos hP.dpMin hP.dwMin).trans (Phase.dp_of_mem le_rfl hle),
    (Phase.matchMin_ddp hE.low hle hP.TMin_pos hP.dpMin hP.dwMin).trans
      (Phase.ddp_of_mem le_rfl hle)⟩

/-- Same at `TMax` for the high-side template model.
Uses: `Extrapolated` (mu, a, eps at Max), `0 < TMin < TMax`, `dp(TMax) ≠ 0`, `dp(TMax) + de(TMax) ≠ 0`. -/
theorem match_TMaxLowT (hE : Extrapolated s) (hW : WF s) :
    1 / 3 * s.aMaxLowT * s.TMaxLowT ^ s.muMaxLowT - s.epsilonMaxLowT = -s.FLow s.TMaxLowT ∧
    1 / 3 * s.muMaxLowT * s.aMaxLowT * s.TMaxLowT ^ (s.muMaxLowT - 1) = -s.dFLow s.TMaxLowT ∧
    1 / 3 * s.muMaxLowT * (s.muMaxLowT - 1) * s.aMaxLowT * s.TMaxLowT ^ (s.muMaxLowT - 2)
      = -s.ddFLow s.TMaxLowT := by
  have hP := hW.low
  have hle := hP.TMin_lt_TMax.le
  exact ⟨(Phase.matchMax_p hE.low).trans (Phase.p_of_mem hle le_rfl),
    (Phase.matchMax_dp hE.low hle hP.TMax_pos hP.dpMax hP.dwMax).trans (Phase.dp_of_mem hle le_rfl),
    (Phase.matchMax_ddp hE.low hle hP.TMax_pos hP.dpMax hP.dwMax).trans
      (Phase.ddp_of_mem hle le_rfl)⟩

/-- Approaching `TMin` from BELOW (extrapolated region), `p`, `dp`, `ddp`, `csq` tend to their values at
`TMin` (which are the in-range, spline values). No hypothesis on the spline is needed. -/
theorem tendsto_left_TMinLowT (hE : Extrapolated s) (hW : WF s) :
    Tendsto (pLowT s) (𝓝[<] s.TMinLowT) (𝓝 (pLowT s s.TMinLowT)) ∧
    Tendsto (dpLowT s) (𝓝[<] s.TMinLowT) (𝓝 (dpLowT s s.TMinLowT)) ∧
    Tendsto (ddpLowT s) (𝓝[<] s.TMinLowT) (𝓝 (ddpLowT s s.TMinLowT)) ∧
    Tendsto (csqLowT s) (𝓝[<] s.TMinLowT) (𝓝 (csqLowT s s.TMinLowT)) := by
  have hP := hW.low
  exact ⟨Phase.p_tendsto_left_TMin hE.low hP.TMin_lt_TMax.le hP.TMin_pos.ne',
    Phase.dp_tendsto_left_TMin hE.low hP, Phase.ddp_tendsto_left_TMin hE.low hP,
    Phase.csq_tendsto_left_TMin (ph := lowPhase s) hP.TMin_lt_TMax.le⟩

/-- Approaching `TMax` from ABOVE (extrapolated region), `p`, `dp`, `ddp`, `csq` tend to their values at
`TMax`. No hypothesis on the spline is needed. -/
theorem tendsto_right_TMaxLowT (hE : Extrapolated s) (hW : WF s) :
    Tendsto (pLowT s) (𝓝[>] s.TMaxLowT) (𝓝 (pLowT s s.TMaxLowT)) ∧
    Tendsto (dpLowT s) (𝓝[>] s.TMaxLowT) (𝓝 (dpLowT s s.TMaxLowT)) ∧
    Tendsto (ddpLowT s) (𝓝[>] s.TMaxLowT) (𝓝 (ddpLowT s s.TMaxLowT)) ∧
    Tendsto (csqLowT s) (𝓝[>] s.TMaxLowT) (𝓝 (csqLowT s s.TMaxLowT)) := by
  have hP := hW.low
  exact ⟨Phase.p_tendsto_right_TMax hE.low hP.TMin_lt_TMax.le hP.TMax_pos.ne',
    Phase.dp_tendsto_right_TMax hE.low hP, Phase.ddp_tendsto_right_TMax hE.low hP,
    Phase.csq_tendsto_right_TMax (ph := lowPhase s) hP.TMin_lt_TMax.le⟩

/-- `p`, `dp`, `ddp`, `csq` are (two-sided) continuous at `TMin`, provided the spline functions are
right-continuous there. (`csq` needs neither `Extrapolated` nor the `dp`-conditions, only
`TMin < TMax`, `de(TMin) ≠ 0` and right-continuity of `dF`, `ddF`.)
Clause "continuous across the boundaries of the tabulated range". -/
theorem continuousAt_TMinLowT (hE : Extrapolated s) (hW : WF s)
    (hF : ContinuousWithinAt s.FLow (Ici s.TMinLowT) s.TMinLowT)
    (hdF : ContinuousWithinAt s.dFLow (Ici s.TMinLowT) s.TMinLowT)
    (hddF : ContinuousWithinAt s.ddFLow (Ici s.TMinLowT) s.TMinLowT) :
    ContinuousAt (pLowT s) s.TMinLowT ∧ ContinuousAt (dpLowT s) s.TMinLowT ∧
    ContinuousAt (ddpLowT s) s.TMinLowT ∧ ContinuousAt (csqLowT s) s.TMinLowT := by
  have hP := hW.low
  exact ⟨Phase.p_continuousAt_TMin hE.low hP.TMin_lt_TMax hP.TMin_pos.ne' hF,
    Phase.dp_continuousAt_TMin hE.low hP hdF, Phase.ddp_continuousAt_TMin hE.low hP hddF,
    Phase.csq_continuousAt_TMin (ph := lowPhase s) hP.TMin_lt_TMax hP.deMin hdF hddF⟩

/-- `p`, `dp`, `ddp`, `csq` are (two-sided) continuous at `TMax`, provided the spline functions are
left-continuous there. -/
theorem continuousAt_TMaxLowT (hE : Extrapolated s) (hW : WF s)
    (hF : ContinuousWithinAt s.FLow (Iic s.TMaxLowT) s.TMaxLowT)
    (hdF : ContinuousWithinAt s.dFLow (Iic s.TMaxLowT) s.TMaxLowT)
    (hddF : ContinuousWithinAt s.ddFLow (Iic s.TMaxLowT) s.TMaxLowT) :
    ContinuousAt (pLowT s) s.TMaxLowT ∧ ContinuousAt (dpLowT s) s.TMaxLowT ∧
    ContinuousAt (ddpLowT s) s.TMaxLowT ∧ ContinuousAt (csqLowT s) s.TMaxLowT := by
  have hP := hW.low
  exact ⟨Phase.p_continuousAt_TMax hE.low hP.TMin_lt_TMax hP.TMax_pos.ne' hF,
    Phase.dp_continuousAt_TMax hE.low hP hdF, Phase.ddp_continuousAt_TMax hE.low hP hddF,
    Phase.csq_continuousAt_TMax (ph := lowPhase s) hP.TMin_lt_TMax hP.deMax hdF hddF⟩

/-! ### T10.2 derivatives -/

/-- Below the range (`0 < T < TMin`): `dpLowT` is the derivative of `pLowT` and `ddpLowT` the derivative
of `dpLowT`. No `Extrapolated`/`WF` needed (only `T ≠ 0`). -/
theorem hasDerivAt_below_LowT {T : ℝ} (hT0 : 0 < T) (hT : T < s.TMinLowT) :
    HasDerivAt (pLowT s) (dpLowT s T) T ∧ HasDerivAt (dpLowT s) (ddpLowT s T) T :=
  ⟨Phase.hasDerivAt_p_of_lt (ph := lowPhase s) hT0.ne' hT,
    Phase.hasDerivAt_dp_of_lt (ph := lowPhase s) hT0.ne' hT⟩

/-- Above the range (`T > TMax`, `T > 0`): same. Needs `TMin ≤ TMax` (otherwise the `T < TMin` branch
could fire first) and `T ≠ 0`. -/
theorem hasDerivAt_above_LowT (hle : s.TMinLowT ≤ s.TMaxLowT) {T : ℝ} (hT0 : 0 < T)
    (hT : s.TMaxLowT < T) :
    HasDerivAt (pLowT s) (dpLowT s T) T ∧ HasDerivAt (dpLowT s) (ddpLowT s T) T :=
  ⟨Phase.hasDerivAt_p_of_gt (ph := lowPhase s) hle hT0.ne' hT,
    Phase.hasDerivAt_dp_of_gt (ph := lowPhase s) hle hT0.ne' hT⟩

/-- Strictly inside the range: same, from the spline contract at `T`. -/
theorem hasDerivAt_inside_LowT {T : ℝ} (h1 : s.TMinLowT < T) (h2 : T < s.TMaxLowT)
    (hF : HasDerivAt s.FLow (s.dFLow T) T) (hdF : HasDerivAt s.dFLow (s.ddFLow T) T) :
    HasDerivAt (pLowT s) (dpLowT s T) T ∧ HasDerivAt (dpLowT s) (ddpLowT s T) T :=
  ⟨Phase.hasDerivAt_p_of_mem (ph := lowPhase s) h1 h2 hF,
    Phase.hasDerivAt_dp_of_mem (ph := lowPhase s) h1 h2 hdF⟩

/-- AT the lower boundary: the two one-sided derivatives agree (by `match_TMinLowT`), so `pLowT`,
`dpLowT` are differentiable at `TMin` with the reported derivatives. Only the spline's RIGHT
derivative at `TMin` is assumed. -/
theorem hasDerivAt_TMinLowT (hE : Extrapolated s) (hW : WF s)
    (hF : HasDerivWithinAt s.FLow (s.dFLow s.TMinLowT) (Ici s.TMinLowT) s.TMinLowT)
    (hdF : HasDerivWithinAt s.dFLow (s.ddFLow s.TMinLowT) (Ici s.TMinLowT) s.TMinLowT) :
    HasDerivAt (pLowT s) (dpLowT s s.TMinLowT) s.TMinLowT ∧
    HasDerivAt (dpLowT s) (ddpLowT s s.TMinLowT) s.TMinLowT :=
  ⟨Phase.hasDerivAt_p_TMin hE.low hW.low hF, Phase.hasDerivAt_dp_TMin hE.low hW.low hdF⟩

/-- AT the upper boundary; only the spline's LEFT derivative at `TMax` is assumed. -/
theorem hasDerivAt_TMaxLowT (hE : Extrapolated s) (hW : WF s)
    (hF : HasDerivWithinAt s.FLow (s.dFLow s.TMaxLowT) (Iic s.TMaxLowT) s.TMaxLowT)
    (hdF : HasDerivWithinAt s.dFLow (s.ddFLow s.TMaxLowT) (Iic s.TMaxLowT) s.TMaxLowT) :
    HasDerivAt (pLowT s) (dpLowT s s.TMaxLowT) s.TMaxLowT ∧
    HasDerivAt (dpLowT s) (ddpLowT s s.TMaxLowT) s.TMaxLowT :=
  ⟨Phase.hasDerivAt_p_TMax hE.low hW.low hF, Phase.hasDerivAt_dp_TMax hE.low hW.low hdF⟩

/-- At EVERY `T > 0` (below, at the boundaries, inside, above) the reported first derivative is the
derivative of the reported pressure, given the spline contract on the closed tabulated range.
Clause "the reported first … derivative of the pressure is the derivative of the reported pressure". -/
theorem hasDerivAt_pLowT (hE : Extrapolated s) (hW : WF s)
    (hF : ∀ T, s.TMinLowT ≤ T → T ≤ s.TMaxLowT → HasDerivAt s.FLow (s.dFLow T) T)
    {T : ℝ} (hT : 0 < T) : HasDerivAt (pLowT s) (dpLowT s T) T :=
  Phase.hasDerivAt_p hE.low hW.low hF hT

/-- At EVERY `T > 0` the reported second derivative is the derivative of the reported first derivative. -/
theorem hasDerivAt_dpLowT (hE : Extrapolated s) (hW : WF s)
    (hdF : ∀ T, s.TMinLowT ≤ T → T ≤ s.TMaxLowT → HasDerivAt s.dFLow (s.ddFLow T) T)
    {T : ℝ} (hT : 0 < T) : HasDerivAt (dpLowT s) (ddpLowT s T) T :=
  Phase.hasDerivAt_dp hE.low hW.low hdF hT

/-- Consequently `deLowT` is the derivative of `eLowT` at every `T > 0`
(so `csq = dp/de` really is `(dp/dT)/(de/dT)`). -/
theorem hasDerivAt_eLowT (hE : Extrapolated s) (hW : WF s)
    (hF : ∀ T, s.TMinLowT ≤ T → T ≤ s.TMaxLowT → HasDerivAt s.FLow (s.dFLow T) T)
    (hdF : ∀ T, s.TMinLowT ≤ T → T ≤ s.TMaxLowT → HasDerivAt s.dFLow (s.ddFLow T) T)
    {T : ℝ} (hT : 0 < T) : HasDerivAt (eLowT s) (deLowT s T) T := by
  have h1 := hasDerivAt_pLowT hE hW hF hT
  have h2 := hasDerivAt_dpLowT hE hW hdF hT
  have h3 := ((hasDerivAt_id T).mul h2).sub h1
  refine h3.congr_deriv ?_
  simp only [id, deLowT]; ring

/-- Sound speed at EVERY `T > 0`, all three regions: `csq = dp/de`. Outside the range the code returns
the boundary value; it coincides with `dp/de` of the template model because that ratio is the constant
`1/(mu−1)`. Uses `Extrapolated`, `0 < TMin < TMax`, `dp ≠ 0`, `dp + de ≠ 0` at the boundaries
(`de ≠ 0` is not used here; see `deLowT_ne_zero_outside`). Clause "cs^2 = (dp/dT)/(de/dT)". -/
theorem csq_is_dp_over_de_LowT (hE : Extrapolated s) (hW : WF s) {T : ℝ} (hT : 0 < T) :
    csqLowT s T = dpLowT s T / deLowT s T :=
  Phase.csq_eq hE.low hW.low hT

/-- In the extrapolated regions the denominator `de` does not vanish (so the quotient above is
genuine there). This is where `de(TMin) ≠ 0`, `de(TMax) ≠ 0` are used. -/
theorem deLowT_ne_zero_outside (hE : Extrapolated s) (hW : WF s) {T : ℝ} (hT0 : 0 < T)
    (hT : T < s.TMinLowT ∨ s.TMaxLowT < T) : deLowT s T ≠ 0 := by
  rcases hT with h | h
  · exact Phase.de_ne_zero_of_lt hE.low hW.low hT0 h
  · exact Phase.de_ne_zero_of_gt hE.low hW.low h

/-- The sound speed used in the extrapolated regions is `1/(mu−1)` (template model), i.e. the
`mu` fields are consistent with the boundary sound speeds. Needs only `TMin ≤ TMax`. -/
theorem csqLowT_boundary (hE : Extrapolated s) (hle : s.TMinLowT ≤ s.TMaxLowT) :
    csqLowT s s.TMinLowT = 1 / (s.muMinLowT - 1) ∧
    csqLowT s s.TMaxLowT = 1 / (s.muMaxLowT - 1) :=
  ⟨Phase.csq_TMin_eq hE.low hle, Phase.csq_TMax_eq hE.low hle⟩

/-! ## T10.4 `alpha` -/

/-- `alpha` returns `((eHigh − eLow) − (pHigh − pLow)/csqLow) / 3 / wHigh` at every `T`; no hypotheses. -/
theorem alpha_eq (T : ℝ) :
    alpha s T = ((eHighT s T - eLowT s T) - (pHighT s T - pLowT s T) / csqLowT s T) / 3
      / wHighT s T := rfl

/-! ## Non-vacuity

`exS` (in `Lemmas/Thermo.lean`): tabulated range `[1,2]` in both phases, `FHigh T = -T⁴`,
`FLow T = -T⁴/2 - 1`, template parameters `mu = 4`, `a = 3` resp. `3/2`, `eps = 0` resp. `-1`. -/

/-- all hypotheses used in this file are simultaneously satisfiable by a non-trivial state. -/
example : ∃ s : ThermoP, Extrapolated s ∧ WF s ∧
    (∀ T, HasDerivAt s.FHigh (s.dFHigh T) T) ∧ (∀ T, HasDerivAt s.dFHigh (s.ddFHigh T) T) ∧
    (∀ T, HasDerivAt s.FLow (s.dFLow T) T) ∧ (∀ T, HasDerivAt s.dFLow (s.ddFLow T) T) ∧
    Continuous s.ddFHigh ∧ Continuous s.ddFLow :=
  ⟨exS, exS_Extrapolated, exS_WF, exS_contract_FHigh, exS_contract_dFHigh, exS_contract_FLow,
    exS_contract_dFLow, by unfold exS; fun_prop, by unfold exS; fun_prop⟩

/-- the temperature side conditions `0 < T < TMin`, `TMin < T < TMax`, `TMax < T` are all inhabited
for `exS`. -/
example : (0 < (1 / 2 : ℝ) ∧ (1 / 2 : ℝ) < exS.TMinHighT) ∧
    (exS.TMinHighT < 3 / 2 ∧ (3 / 2 : ℝ) < exS.TMaxHighT) ∧ exS.TMaxHighT < 3 := by
  norm_num [exS]

/-- the theorems apply to `exS`: e.g. sound speed and derivative of the pressure at `T = 1/2`
(extrapolated region) and continuity at `TMin = 1`. -/
example : csqHighT exS (1 / 2) = dpHighT exS (1 / 2) / deHighT exS (1 / 2) :=
  csq_is_dp_over_de_HighT exS_Extrapolated exS_WF (by norm_num)

example : HasDerivAt (pHighT exS) (dpHighT exS (1 / 2)) (1 / 2) :=
  hasDerivAt_pHighT exS_Extrapolated exS_WF (fun T _ _ => exS_contract_FHigh T) (by norm_num)

example : HasDerivAt (pLowT exS) (dpLowT exS exS.TMaxLowT) exS.TMaxLowT :=
  hasDerivAt_pLowT exS_Extrapolated exS_WF (fun T _ _ => exS_contract_FLow T) (by norm_num [exS])

example : ContinuousAt (ddpHighT exS) exS.TMinHighT :=
  (continuousAt_TMinHighT exS_Extrapolated exS_WF
    (exS_contract_FHigh _).continuousAt.continuousWithinAt
    (exS_contract_dFHigh _).continuousAt.continuousWithinAt
    (by unfold exS; fun_prop)).2.2.1

end Props.C10
