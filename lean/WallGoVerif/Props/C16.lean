/-
Property C16 (cardinal / Lagrange part) — `Polynomial` in `src/WallGo/polynomial.py`.

"For any polynomial representable on the grid, … evaluation returns the polynomial's value at any
point (and its grid values at grid points), differentiation returns its exact derivative at all grid
points including the boundaries … all of these are linear."

All statements are about the hand model `Model/Poly.lean` (tied to the Python class by differential
testing, harness/props/C16.py) instantiated at `α := ℝ`, `zero := 0`, `one := 1`.
* `xs : List ℝ` is the complete node list of one direction (end points included); the only hypothesis
  on it is `xs.Nodup` (distinct nodes).  `lobatto_nodes_nodup` shows that the Gauss–Lobatto nodes
  `-cos(jπ/n)` used by the grid satisfy it.
* `C_j := Lagrange.basis (range xs.length) (fun k => xs.getD k 0) j` is Mathlib's Lagrange basis
  polynomial on these nodes (`cardinal_eq_lagrange_fin` gives the `Fin`-indexed form).
* "representable on the grid": `p : ℝ[X]` with `p.natDegree < xs.length`; with `endpoints = false`
  additionally `p` vanishes at the dropped end nodes (both for `z`, `pz`; the last one for `pp`).
Sections: T16.2 cardinal functions and evaluation, T16.3 derivative matrix, T16.6 linearity and
axis-wise application, Gauss–Lobatto nodes, non-vacuity.
(The Chebyshev-basis and quadrature parts of C16 are in `Props/C16Cheb.lean`.)
-/
import WallGoVerif.Lemmas.PolyCardinal

namespace Props.C16

open Model.Poly Polynomial Finset

/-! ## T16.2 cardinal functions, evaluation -/

/-- T16.2a. On distinct nodes the code's `cardinal(x, j)` is 1 at node `j` and 0 at every other node
(`C_j(x_i) = δ_ij`). Clause "its grid values at grid points". -/
theorem cardinal_at_node {xs : List ℝ} (h : xs.Nodup) {i j : ℕ} (hi : i < xs.length)
    (hj : j < xs.length) : cardinal (0 : ℝ) 1 xs j xs[i] = if i = j then 1 else 0 := by
  rw [← List.getD_eq_getElem xs 0 hi]
  exact Lemmas.PolyCardinal.cardinal_at_node h hi hj

/-- T16.2b. On distinct nodes the code's masked product `cardinal(x, j)` is the value at `x` of
Mathlib's `j`-th Lagrange basis polynomial on the node list, for every real `x`. -/
theorem cardinal_eq_lagrange {xs : List ℝ} (h : xs.Nodup) {j : ℕ} (hj : j < xs.length) (x : ℝ) :
    cardinal (0 : ℝ) 1 xs j x =
      (Lagrange.basis (range xs.length) (fun k => xs.getD k 0) j).eval x :=
  Lemmas.PolyCardinal.cardinal_eq_lagrange h hj x

/-- T16.2b, `Fin`-indexed form: the same with the basis indexed by `Fin xs.length` and nodes `xs[i]`. -/
theorem cardinal_eq_lagrange_fin {xs : List ℝ} (h : xs.Nodup) {j : ℕ} (hj : j < xs.length) (x : ℝ) :
    cardinal (0 : ℝ) 1 xs j x =
      (Lagrange.basis (Finset.univ : Finset (Fin xs.length)) (fun i => xs[i]) ⟨j, hj⟩).eval x := by
  rw [Lemmas.PolyCardinal.basis_fin_eq xs hj]
  exact Lemmas.PolyCardinal.cardinal_eq_lagrange h hj x

/-- T16.2c, end points kept (any direction). If the coefficients are the grid values of a polynomial of
degree `< xs.length`, `evaluate` (cardinal basis) returns the polynomial's value at EVERY real `x`.
Clause "evaluation returns the polynomial's value at any point". -/
theorem evalCardinal_exact_endpoints {xs : List ℝ} (h : xs.Nodup) (d : Dir) {p : ℝ[X]}
    (hp : p.natDegree < xs.length) (x : ℝ) :
    evalCardinal (0 : ℝ) 1 d true xs (xs.map (fun t => p.eval t)) x = p.eval x := by
  have := Lemmas.PolyCardinal.evalCardinal_exact h d true hp
    (Lemmas.PolyCardinal.vanishes_endpoints d xs _) x
  rwa [Lemmas.PolyCardinal.kept_endpoints] at this

/-- T16.2c, `endpoints = False`, directions `z`, `pz` (both end nodes dropped). For a polynomial of degree
`< xs.length` vanishing at the first and the last node, the expansion on the interior nodes returns
the polynomial's value at every real `x`. (For `xs.length ≤ 1` the statement is still true.) -/
theorem evalCardinal_exact_interior {xs : List ℝ} (h : xs.Nodup) {d : Dir} (hd : d ≠ Dir.pp) {p : ℝ[X]}
    (hp : p.natDegree < xs.length) (h0 : p.eval (xs.getD 0 0) = 0)
    (h1 : p.eval (xs.getD (xs.length - 1) 0) = 0) (x : ℝ) :
    evalCardinal (0 : ℝ) 1 d false xs ((kept d false xs).map (fun t => p.eval t)) x = p.eval x :=
  Lemmas.PolyCardinal.evalCardinal_exact h d false hp
    (Lemmas.PolyCardinal.vanishes_interior hd xs _ h0 h1) x

/-- T16.2c, `endpoints = False`, direction `pp` (only the last node dropped). For a polynomial of degree
`< xs.length` vanishing at the last node, the expansion on the kept nodes returns the polynomial's
value at every real `x`. -/
theorem evalCardinal_exact_pp {xs : List ℝ} (h : xs.Nodup) {p : ℝ[X]}
    (hp : p.natDegree < xs.length) (h1 : p.eval (xs.getD (xs.length - 1) 0) = 0) (x : ℝ) :
    evalCardinal (0 : ℝ) 1 Dir.pp false xs ((kept Dir.pp false xs).map (fun t => p.eval t)) x =
      p.eval x :=
  Lemmas.PolyCardinal.evalCardinal_exact h Dir.pp false hp
    (Lemmas.PolyCardinal.vanishes_pp xs _ h1) x

/-- `_cardinalMatrix` is the identity: for ANY coefficient list `c` of the right length (one entry per
kept node) the cardinal expansion takes the value `c[i]` at the `i`-th kept node `xs[lo + i]`.
Clause "(and its grid values at grid points)". -/
theorem evalCardinal_at_kept_node {xs : List ℝ} (h : xs.Nodup) (d : Dir) (e : Bool) {c : List ℝ}
    (hc : c.length = (keptRange d e xs.length).2 - (keptRange d e xs.length).1) {i : ℕ}
    (hi : i < c.length) :
    evalCardinal (0 : ℝ) 1 d e xs c (xs.getD ((keptRange d e xs.length).1 + i) 0) = c.getD i 0 :=
  Lemmas.PolyCardinal.evalCardinal_at_kept_node h d e hc hi

/-! ## T16.3 derivative matrix -/

/-- T16.3a. The code's `derivWithEndpoints[i, j]` (diagonal `Σ_{k≠i} 1/(x_i-x_k)`, off-diagonal masked
product divided by `x_i - x_j`) is the derivative of the `i`-th cardinal polynomial at node `j`,
`C_i'(x_j)` — also when `i` or `j` is a boundary node. -/
theorem cardinalDerivEntry_eq {xs : List ℝ} (h : xs.Nodup) {i j : ℕ} (hi : i < xs.length)
    (hj : j < xs.length) :
    cardinalDerivEntry (0 : ℝ) 1 xs i j =
      (derivative (Lagrange.basis (range xs.length) (fun k => xs.getD k 0) i)).eval xs[j] := by
  rw [← List.getD_eq_getElem xs 0 hj]
  exact Lemmas.PolyCardinal.cardinalDerivEntry_eq h hi hj

/-- T16.3b, end points kept. `_cardinalDeriv(direction, True)` applied to the grid values of a polynomial
of degree `< xs.length` gives the exact derivative at ALL grid points, boundaries included.
Clause "differentiation returns its exact derivative at all grid points including the boundaries". -/
theorem cardinalDeriv_exact_endpoints {xs : List ℝ} (h : xs.Nodup) (d : Dir) {p : ℝ[X]}
    (hp : p.natDegree < xs.length) :
    mulVec (0 : ℝ) (cardinalDeriv (0 : ℝ) 1 d true xs) (xs.map (fun t => p.eval t)) =
      xs.map (fun t => (derivative p).eval t) := by
  have := Lemmas.PolyCardinal.cardinalDeriv_exact h d true hp
    (Lemmas.PolyCardinal.vanishes_endpoints d xs _)
  rwa [Lemmas.PolyCardinal.kept_endpoints] at this

/-- T16.3b, `endpoints = False`, directions `z`, `pz`. The (all nodes) × (interior nodes) matrix applied
to the interior grid values of a polynomial of degree `< xs.length` vanishing at both end nodes gives
its exact derivative at ALL grid points, the two boundary nodes included. -/
theorem cardinalDeriv_exact_interior {xs : List ℝ} (h : xs.Nodup) {d : Dir} (hd : d ≠ Dir.pp) {p : ℝ[X]}
    (hp : p.natDegree < xs.length) (h0 : p.eval (xs.getD 0 0) = 0)
    (h1 : p.eval (xs.getD (xs.length - 1) 0) = 0) :
    mulVec (0 : ℝ) (cardinalDeriv (0 : ℝ) 1 d false xs) ((kept d false xs).map (fun t => p.eval t)) =
      xs.map (fun t => (derivative p).eval t) :=
  Lemmas.PolyCardinal.cardinalDeriv_exact h d false hp
    (Lemmas.PolyCardinal.vanishes_interior hd xs _ h0 h1)

/-- T16.3b, `endpoints = False`, direction `pp`: same with only the last node dropped. -/
theorem cardinalDeriv_exact_pp {xs : List ℝ} (h : xs.Nodup) {p : ℝ[X]}
    (hp : p.natDegree < xs.length) (h1 : p.eval (xs.getD (xs.length - 1) 0) = 0) :
    mulVec (0 : ℝ) (cardinalDeriv (0 : ℝ) 1 Dir.pp false xs)
        ((kept Dir.pp false xs).map (fun t => p.eval t)) =
      xs.map (fun t => (derivative p).eval t) :=
  Lemmas.PolyCardinal.cardinalDeriv_exact h Dir.pp false hp
    (Lemmas.PolyCardinal.vanishes_pp xs _ h1)

/-! ## T16.6 linearity, axis-wise application -/

/-- T16.6a. Evaluation in the cardinal basis is linear in the coefficient vector:
`eval(c₁ + a·c₂) = eval(c₁) + a·eval(c₂)` (no hypothesis on the nodes). Clause "all of these are linear". -/
theorem evalCardinal_linear (d : Dir) (e : Bool) (xs : List ℝ) (a : ℝ) {c₁ c₂ : List ℝ}
    (hlen : c₁.length = c₂.length) (x : ℝ) :
    evalCardinal (0 : ℝ) 1 d e xs (List.zipWith (fun u w => u + a * w) c₁ c₂) x =
      evalCardinal (0 : ℝ) 1 d e xs c₁ x + a * evalCardinal (0 : ℝ) 1 d e xs c₂ x :=
  Lemmas.PolyCardinal.evalCardinal_axpy d e xs a hlen x

/-- T16.6a, homogeneity alone: `eval(a·c) = a·eval(c)`. -/
theorem evalCardinal_smul (d : Dir) (e : Bool) (xs : List ℝ) (a : ℝ) (c : List ℝ) (x : ℝ) :
    evalCardinal (0 : ℝ) 1 d e xs (c.map (fun u => a * u)) x = a * evalCardinal (0 : ℝ) 1 d e xs c x :=
  Lemmas.PolyCardinal.evalCardinal_smul d e xs a c x

/-- T16.6a. Matrix application (differentiation, basis change, any matrix `D`) is linear in the
coefficient vector: `D(c₁ + a·c₂) = D c₁ + a·D c₂`. Clause "all of these are linear". -/
theorem mulVec_linear (D : List (List ℝ)) (a : ℝ) {c₁ c₂ : List ℝ} (hlen : c₁.length = c₂.length) :
    mulVec (0 : ℝ) D (List.zipWith (fun u w => u + a * w) c₁ c₂) =
      List.zipWith (fun u w => u + a * w) (mulVec (0 : ℝ) D c₁) (mulVec (0 : ℝ) D c₂) :=
  Lemmas.PolyCardinal.mulVec_axpy D a hlen

/-- T16.6a, homogeneity alone: `D(a·c) = a·D c`. -/
theorem mulVec_smul (D : List (List ℝ)) (a : ℝ) (c : List ℝ) :
    mulVec (0 : ℝ) D (c.map (fun u => a * u)) = (mulVec (0 : ℝ) D c).map (fun u => a * u) :=
  Lemmas.PolyCardinal.mulVec_smul D a c

/-- T16.6b, abstract form. Applying a matrix `A` along the first axis of a rank-2 tensor and a matrix `B`
along the second axis commute (entry `(i, k)` of both orders). Clause "applied axis by axis". -/
theorem axes_comm {a a' b b' : ℕ} (A : Fin a' → Fin a → ℝ) (B : Fin b' → Fin b → ℝ)
    (t : Fin a → Fin b → ℝ) (i : Fin a') (k : Fin b') :
    ∑ l, B k l * (∑ j, A i j * t j l) = ∑ j, A i j * (∑ l, B k l * t j l) := by
  simp only [Finset.mul_sum]
  rw [Finset.sum_comm]
  exact Finset.sum_congr rfl fun j _ => Finset.sum_congr rfl fun l _ => by ring

/-- T16.6b for the code's flat layout: entry `(i, k)` of `applyAxis A [a, b] 0 t` (row-major `t` of shape
`a × b`) is `Σ_j A[i][j] · t[j][k]`. -/
theorem applyAxis_axis0_entry (A : List (List ℝ)) (a b : ℕ) (t : List ℝ) {i k : ℕ}
    (hi : i < A.length) (hk : k < b) :
    (applyAxis (0 : ℝ) A [a, b] 0 t).getD (i * b + k) 0 =
      ∑ j ∈ range a, (A.getD i []).getD j 0 * t.getD (j * b + k) 0 :=
  Lemmas.PolyCardinal.applyAxis_axis0_getD A a b t hi hk

/-- T16.6b for the code's flat layout: entry `(o, i)` of `applyAxis B [a, b] 1 t` is `Σ_j B[i][j] · t[o][j]`
(the result has shape `a × B.length`). -/
theorem applyAxis_axis1_entry (B : List (List ℝ)) (a b : ℕ) (t : List ℝ) {o i : ℕ}
    (ho : o < a) (hi : i < B.length) :
    (applyAxis (0 : ℝ) B [a, b] 1 t).getD (o * B.length + i) 0 =
      ∑ j ∈ range b, (B.getD i []).getD j 0 * t.getD (o * b + j) 0 :=
  Lemmas.PolyCardinal.applyAxis_axis1_getD B a b t ho hi

/-- T16.6b for the code's flat layout. On a rank-2 row-major tensor of shape `a × b`, applying `A` along
axis 0 and then `B` along axis 1 gives the same flat array as `B` along axis 1 and then `A` along
axis 0 (the intermediate shapes are `A.length × b` resp. `a × B.length`); no hypothesis at all. -/
theorem applyAxis_comm (A B : List (List ℝ)) (a b : ℕ) (t : List ℝ) :
    applyAxis (0 : ℝ) B [A.length, b] 1 (applyAxis (0 : ℝ) A [a, b] 0 t) =
      applyAxis (0 : ℝ) A [a, B.length] 0 (applyAxis (0 : ℝ) B [a, b] 1 t) :=
  Lemmas.PolyCardinal.applyAxis_comm A B a b t

/-! ## Gauss–Lobatto nodes -/

/-- The Chebyshev–Gauss–Lobatto nodes `-cos(jπ/n)`, `j = 0, …, n` (`n ≥ 1`) used by the grid are strictly
increasing. -/
theorem lobatto_nodes_strictly_increasing {n : ℕ} (hn : 1 ≤ n) :
    ((List.range (n + 1)).map (fun j : ℕ => -Real.cos (j * Real.pi / n))).Pairwise (· < ·) :=
  Lemmas.PolyCardinal.lobatto_pairwise_lt hn

/-- … hence distinct: the hypothesis `xs.Nodup` of all theorems above holds for the grid's nodes. -/
theorem lobatto_nodes_nodup {n : ℕ} (hn : 1 ≤ n) :
    ((List.range (n + 1)).map (fun j : ℕ => -Real.cos (j * Real.pi / n))).Nodup :=
  Lemmas.PolyCardinal.lobatto_nodup hn

/-! ## Non-vacuity: `xs = [-1, -1/2, 1/3, 1]`, `p = X³ - X` (vanishes at `±1`) -/

-- `xs0`, `p0` and the facts `xs0_nodup`, `p0_natDegree`, `p0_first`, `p0_last`, `kept_values`,
-- `deriv_values` about them are in `Lemmas/PolyCardinal.lean` (section "example data").
open Lemmas.PolyCardinal (xs0 p0 xs0_nodup p0_natDegree p0_first p0_last)

/-- non-vacuity of T16.2a/b, T16.3a: the node list is `Nodup` and has indices `< 4`. -/
example : cardinal (0 : ℝ) 1 xs0 1 xs0[2] = 0 := by
  have := cardinal_at_node xs0_nodup (i := 2) (j := 1) (by simp [xs0]) (by simp [xs0])
  simpa using this

example : cardinal (0 : ℝ) 1 xs0 2 xs0[2] = 1 := by
  have := cardinal_at_node xs0_nodup (i := 2) (j := 2) (by simp [xs0]) (by simp [xs0])
  simpa using this

/-- direct numeric check of the model (no theorem used): `C_1(1/3) = 0`, `C_2(1/3) = 1`, `C_1(0) = 8/15`. -/
example : cardinal (0 : ℝ) 1 xs0 1 (1/3) = 0 ∧ cardinal (0 : ℝ) 1 xs0 2 (1/3) = 1 ∧
    cardinal (0 : ℝ) 1 xs0 1 0 = 8/15 := by
  refine ⟨?_, ?_, ?_⟩ <;> norm_num [cardinal, Model.Poly.prod, xs0]

/-- non-vacuity of T16.2c (all three variants): hypotheses hold for `xs0`, `p0`. -/
example (x : ℝ) :
    evalCardinal (0 : ℝ) 1 Dir.z true xs0 (xs0.map (fun t => p0.eval t)) x = p0.eval x :=
  evalCardinal_exact_endpoints xs0_nodup Dir.z p0_natDegree x

example (x : ℝ) :
    evalCardinal (0 : ℝ) 1 Dir.z false xs0 ((kept Dir.z false xs0).map (fun t => p0.eval t)) x =
      p0.eval x :=
  evalCardinal_exact_interior xs0_nodup (by decide) p0_natDegree p0_first p0_last x

example (x : ℝ) :
    evalCardinal (0 : ℝ) 1 Dir.pp false xs0 ((kept Dir.pp false xs0).map (fun t => p0.eval t)) x =
      p0.eval x :=
  evalCardinal_exact_pp xs0_nodup p0_natDegree p0_last x

/-- direct numeric check of the model (no theorem used): the interior expansion with coefficients
`[3/8, -8/27]` evaluated at `x = 2` (outside the grid) gives `p0(2) = 6`. -/
example : evalCardinal (0 : ℝ) 1 Dir.z false xs0 [3/8, -8/27] 2 = 6 := by
  norm_num [evalCardinal, keptRange, cardinal, Model.Poly.prod, Model.Poly.sum, xs0, List.zipIdx]

/-- non-vacuity of T16.3b (all three variants). -/
example :
    mulVec (0 : ℝ) (cardinalDeriv (0 : ℝ) 1 Dir.pz true xs0) (xs0.map (fun t => p0.eval t)) =
      xs0.map (fun t => (derivative p0).eval t) :=
  cardinalDeriv_exact_endpoints xs0_nodup Dir.pz p0_natDegree

example :
    mulVec (0 : ℝ) (cardinalDeriv (0 : ℝ) 1 Dir.z false xs0)
        ((kept Dir.z false xs0).map (fun t => p0.eval t)) =
      xs0.map (fun t => (derivative p0).eval t) :=
  cardinalDeriv_exact_interior xs0_nodup (by decide) p0_natDegree p0_first p0_last

example :
    mulVec (0 : ℝ) (cardinalDeriv (0 : ℝ) 1 Dir.pp false xs0)
        ((kept Dir.pp false xs0).map (fun t => p0.eval t)) =
      xs0.map (fun t => (derivative p0).eval t) :=
  cardinalDeriv_exact_pp xs0_nodup p0_natDegree p0_last

/-- direct numeric check of the model (no theorem used): the 4 × 2 interior derivative matrix applied to
`[3/8, -8/27]` gives `p0' = 3x² - 1` at all four nodes, the boundary nodes `±1` included. -/
example : mulVec (0 : ℝ) (cardinalDeriv (0 : ℝ) 1 Dir.z false xs0) [3/8, -8/27] = [2, -1/4, -2/3, 2] := by
  norm_num [mulVec, cardinalDeriv, keptRange, cardinalDerivEntry, Model.Poly.prod, Model.Poly.sum, xs0,
    List.range_succ]

/-- the same concrete identity obtained from the theorem `cardinalDeriv_exact_interior`. -/
example : mulVec (0 : ℝ) (cardinalDeriv (0 : ℝ) 1 Dir.z false xs0) [3/8, -8/27] = [2, -1/4, -2/3, 2] := by
  rw [← Lemmas.PolyCardinal.kept_values, ← Lemmas.PolyCardinal.deriv_values]
  exact cardinalDeriv_exact_interior xs0_nodup (by decide) p0_natDegree p0_first p0_last

/-- non-vacuity of T16.6a: two coefficient lists of equal length. -/
example (x : ℝ) :
    evalCardinal (0 : ℝ) 1 Dir.z false xs0 (List.zipWith (fun u w => u + 5 * w) [1, 2] [3, 4]) x =
      evalCardinal (0 : ℝ) 1 Dir.z false xs0 [1, 2] x
        + 5 * evalCardinal (0 : ℝ) 1 Dir.z false xs0 [3, 4] x :=
  evalCardinal_linear Dir.z false xs0 5 (c₁ := [1, 2]) (c₂ := [3, 4]) rfl x

example :
    mulVec (0 : ℝ) [[1, 2], [3, 4]] (List.zipWith (fun u w => u + 5 * w) [1, 2] [3, 4]) =
      List.zipWith (fun u w => u + 5 * w) (mulVec (0 : ℝ) [[1, 2], [3, 4]] [1, 2])
        (mulVec (0 : ℝ) [[1, 2], [3, 4]] [3, 4]) :=
  mulVec_linear _ 5 (c₁ := [1, 2]) (c₂ := [3, 4]) rfl

/-- non-vacuity of the entry lemmas of T16.6b: a 2 × 2 matrix on a 2 × 3 tensor. -/
example : (applyAxis (0 : ℝ) [[1, 2], [3, 4]] [2, 3] 0 [1, 2, 3, 4, 5, 6]).getD (1 * 3 + 2) 0 = 33 := by
  rw [applyAxis_axis0_entry _ _ _ _ (by simp) (by norm_num)]
  norm_num [Finset.sum_range_succ]

/-- non-vacuity of the Lobatto lemma: `n = 3`. -/
example : ((List.range 4).map (fun j : ℕ => -Real.cos (j * Real.pi / (3 : ℕ)))).Nodup :=
  lobatto_nodes_nodup (n := 3) (by norm_num)

end Props.C16
