/-
Property C11 — `FreeEnergy.tracePhase` (src/WallGo/freeEnergy.py:240-444) and
`Thermodynamics.findCriticalTemperature` (src/WallGo/thermodynamics.py:183-272).

"Every tabulated point of a traced phase is a local minimum … If the minimum ceases to exist inside the
requested temperature range the table stops before that point and flags the end as a genuine
disappearance; otherwise the table covers the requested range up to the documented safety margin and the
end is not flagged.  The critical temperature returned for two traced phases is where their free energies
cross, with the low-temperature phase favoured below it."

What is proved, about which object: the bookkeeping model `Model/Tracer.lean` (tied to the Python code by
differential testing).  The numerics (RK45 steps, re-minimisation, Hessian eigenvalues, free-energy values,
brentq) are NOT modelled: they enter as the list of step records the integrator produced (`Step.t`,
`eigPos` = "smallest Hessian eigenvalue > 0 at the re-minimised point", `tiny`) and as the function
`dF = F_low − F_high`.  "Is a local minimum" therefore reads: "is `T0` or a record with `eigPos = true`".

The model includes the replace rule of the loop: an accepted step at rounding distance (`< 1e-8·dT`) from
the previously stored temperature REPLACES that node instead of being appended (two almost coincident
spline nodes are avoided).  Which records are consumed is unaffected (`acceptedPrefix`); what is stored is
`pushAll` of their temperatures.

Sections: T11.1a which records are tabulated (and the replace rule, concretely); T11.1b ordering of the
table; T11.1b' no two almost coincident nodes inside one direction; T11.1c flags and safety margin;
T11.1d flagged / unflagged ends; T11.1e errors and the single-downward-node quirk; T11.2 the bracket
handed to brentq.  Helper lemmas: `Lemmas/Tracer.lean`.
-/
import Mathlib.Data.Rat.Floor
import WallGoVerif.Lemmas.Tracer

namespace Props.C11

open Model.Tracer Lemmas.Tracer

/-! ## T11.1a which step records end up in the table -/

/-- **T11.1a.** One direction of the tracing loop consumes exactly the LONGEST prefix `P` of the step
records in which every record is accepted (`acceptedPrefix`: minimum still exists, step not tiny, `t`
different from the temperature stored just before) and stores their temperatures in `TList` with the
replace rule (`pushAll`: a temperature within `1e-8·dT` of the last stored one replaces it, any other is
appended).  Hence the result is a sublist of `acc ++ P.map t` (at most one node per accepted record, in
order), everything stored before the last point of `acc` stays in place, the result ends at the temperature
of the last accepted record, and its length is `acc.length +` the number of appended records.  Every record
of `P` has `eigPos = true ∧ tiny = false`, and the record following `P` (if there is one) is one on which
the loop breaks: its eigenvalue is non-positive, or the step is tiny, or its `t` repeats the last stored
temperature.  (C11: "the table stops before the first point where the minimum has ceased to exist".) -/
theorem runDirection_sound (steps : List Step) (acc : List Rat) (dT : Rat) :
    ∃ P rest, steps = P ++ rest ∧ P = acceptedPrefix steps acc.getLast? ∧
      runDirection steps acc dT = pushAll dT acc (P.map Step.t) ∧
      (runDirection steps acc dT).Sublist (acc ++ P.map Step.t) ∧
      acc.dropLast <+: runDirection steps acc dT ∧
      (runDirection steps acc dT).getLast? = lastT acc.getLast? P ∧
      (runDirection steps acc dT).length = acc.length + appended dT acc.getLast? (P.map Step.t) ∧
      (∀ s ∈ P, s.eigPos = true ∧ s.tiny = false) ∧
      (∀ s rest', rest = s :: rest' →
        s.eigPos = false ∨ s.tiny = true ∨ lastT acc.getLast? P = some s.t) := by
  obtain ⟨rest, hrest⟩ := acceptedPrefix_prefix steps acc.getLast?
  refine ⟨_, rest, hrest.symm, rfl, runDirection_eq steps acc dT, ?_, ?_, ?_, ?_,
    acceptedPrefix_good _ _, ?_⟩
  · rw [runDirection_eq]; exact pushAll_sublist _ _ _
  · rw [runDirection_eq]; exact dropLast_prefix_pushAll _ _ _
  · rw [runDirection_eq, getLast?_pushAll, List.getLast?_map]
    unfold lastT
    cases (acceptedPrefix steps acc.getLast?).getLast? <;> simp
  · rw [runDirection_eq, length_pushAll]
  · rintro s rest' rfl
    have := acceptedPrefix_maximal steps acc.getLast? s rest' hrest.symm
    unfold accepted at this
    cases h1 : s.eigPos <;> cases h2 : s.tiny <;> simp_all

/-- **T11.1a (no rounding steps).** If no step record lies within `1e-8·dT` of its predecessor (the first one:
of the last stored temperature) — in particular whenever `dT ≤ 0` — the replace rule is never used and the
result is `acc ++` the temperatures of the accepted prefix: ONE node per accepted record. -/
theorem runDirection_no_rounding (steps : List Step) (acc : List Rat) (dT : Rat)
    (hfar : (acc.getLast?.toList ++ steps.map Step.t).IsChain
      (fun a b => dT / 100000000 ≤ |b - a|)) :
    runDirection steps acc dT = acc ++ (acceptedPrefix steps acc.getLast?).map Step.t := by
  rw [runDirection_eq]
  refine pushAll_eq_append_of_far dT acc _ (hfar.prefix ?_)
  exact (List.prefix_append_right_inj _).2 ((acceptedPrefix_prefix steps _).map Step.t)

/-- **T11.1a, element-wise.** Every temperature in the result of one direction that was not already stored
is the `t` of a step record with a positive smallest eigenvalue and a non-tiny step, and ALL records
before it also had a positive eigenvalue (the loop had not broken before).  (Unchanged by the replace rule:
a replacing temperature is itself the `t` of an accepted record.) -/
theorem appended_sound (steps : List Step) (acc : List Rat) (dT : Rat) (x : Rat)
    (hx : x ∈ runDirection steps acc dT) :
    x ∈ acc ∨ ∃ pre s post, steps = pre ++ s :: post ∧ s.t = x ∧ s.eigPos = true ∧ s.tiny = false ∧
      ∀ y ∈ pre, y.eigPos = true ∧ y.tiny = false := by
  rw [runDirection_eq] at hx
  rcases mem_pushAll hx with hx | hx
  · exact Or.inl hx
  · right
    obtain ⟨s, hs, rfl⟩ := List.mem_map.1 hx
    obtain ⟨pre, post, hP⟩ := List.append_of_mem hs
    obtain ⟨rest, hrest⟩ := acceptedPrefix_prefix steps acc.getLast?
    have hg := acceptedPrefix_good steps acc.getLast?
    refine ⟨pre, s, post ++ rest, ?_, rfl, (hg s hs).1, (hg s hs).2, fun y hy => hg y ?_⟩
    · rw [← hrest, hP]; simp
    · rw [hP]; simp [hy]

/-- non-vacuity: three accepted steps, then the eigenvalue turns non-positive; the fourth and fifth
records (the fifth would again be fine) are not tabulated. -/
example : runDirection [⟨105, true, false⟩, ⟨110, true, false⟩, ⟨112, true, false⟩,
      ⟨113, false, false⟩, ⟨114, true, false⟩] [100] 1 = [100, 105, 110, 112] := by decide +kernel

/-- non-vacuity of the "repeated temperature" clause: a record whose `t` equals the stored one stops the loop -/
example : runDirection [⟨105, true, false⟩, ⟨105, true, false⟩, ⟨110, true, false⟩] [100] 1 = [100, 105] := by
  decide +kernel

/-- non-vacuity of `runDirection_no_rounding`: consecutive temperatures at least `1e-8` apart (`dT = 1`) -/
example : ((([100] : List Rat).getLast?).toList ++ ([⟨105, true, false⟩, ⟨110, true, false⟩] : List Step).map Step.t).IsChain
    (fun a b => (1 : Rat) / 100000000 ≤ |b - a|) := by
  simp only [List.getLast?_singleton, Option.toList_some, List.map_cons, List.map_nil, List.singleton_append]
  refine List.isChain_cons_cons.2 ⟨by norm_num, List.isChain_cons_cons.2 ⟨by norm_num, List.isChain_singleton _⟩⟩

/-- **Replace rule, concrete.** `T0 = 1`, `dT = 1/10`: the integrator steps to `11/10` and then makes a final
step of rounding size `1e-12 < 1e-8·dT = 1e-9`.  The list ends EXACTLY at that last `t`, and the node
`11/10` at distance `1e-12` from it is gone: no near-duplicate spline node. -/
theorem rounding_step_replaces :
    runDirection [⟨11 / 10, true, false⟩, ⟨11 / 10 + 1 / 1000000000000, true, false⟩] [1] (1 / 10)
      = [1, 11 / 10 + 1 / 1000000000000] := by decide +kernel

/-- … and at the level of `tracePhase`: the last upward step (of rounding size) lands on
`TMax = 16/10 + 1e-12`; the table ends exactly at `TMax`, contains no node at `16/10`, and the upper end
is NOT flagged as a disappearance (`maxFlag = false`). -/
theorem rounding_step_replaces_unflagged :
    tracePhase 1 (1 / 2) (16 / 10 + 1 / 1000000000000) (1 / 10)
      [⟨11 / 10, true, false⟩, ⟨12 / 10, true, false⟩, ⟨13 / 10, true, false⟩, ⟨14 / 10, true, false⟩,
       ⟨15 / 10, true, false⟩, ⟨16 / 10, true, false⟩, ⟨16 / 10 + 1 / 1000000000000, true, false⟩] []
    = .ok { table := [1, 11 / 10, 12 / 10, 13 / 10, 14 / 10, 15 / 10, 16 / 10 + 1 / 1000000000000],
            minPossible := 12 / 10, minFlag := true,
            maxPossible := 14 / 10 + 1 / 1000000000000, maxFlag := false } := by decide +kernel

/-- a step at distance exactly `1e-8·dT` is NOT a rounding step (strict `<`): it is appended -/
example : runDirection [⟨11 / 10, true, false⟩, ⟨11 / 10 + 1 / 1000000000, true, false⟩] [1] (1 / 10)
      = [1, 11 / 10, 11 / 10 + 1 / 1000000000] := by decide +kernel

/-! ## T11.1b the table is strictly increasing -/

/-- **T11.1b.** If the upward integrator times are strictly increasing and above `T0`, and the downward
ones strictly decreasing and below `T0` (what RK45 produces), then the abscissae handed to the
interpolation table are strictly increasing (also under the replace rule: the stored list is a sublist of
the accepted temperatures), and `min(TFullList)` / `max(TFullList)` are the first / last entry.
`T0` itself is a node PROVIDED the first upward record is not a rounding step from `T0`
(`T0 + 1e-8·dT ≤ t`); otherwise that record replaces `T0`, see `T0_replaced`. -/
theorem table_sorted (T0 TMin TMax dT : Rat) (up down : List Step) (r : Result)
    (h : tracePhase T0 TMin TMax dT up down = .ok r)
    (hup : (up.map Step.t).Pairwise (· < ·)) (hup0 : ∀ s ∈ up, T0 < s.t)
    (hdown : (down.map Step.t).Pairwise (· > ·)) (hdown0 : ∀ s ∈ down, s.t < T0) :
    r.table.Pairwise (· < ·) ∧
      ((∀ s, up.head? = some s → T0 + dT / 100000000 ≤ s.t) → T0 ∈ r.table) ∧
      r.table.head? = some (listMin r.table T0) ∧ r.table.getLast? = some (listMax r.table T0) := by
  obtain ⟨tf, htf, _, rfl⟩ := (tracePhase_ok_iff ..).1 h
  have hs := fullTable_sorted htf hup hup0 hdown hdown0
  have hne := fullTable_ne_nil htf
  refine ⟨hs, fun hfirst => T0_mem_fullTable htf (fun s hs' => ?_), ?_, ?_⟩
  · have h1 := hfirst s hs'
    have h2 := hup0 s (List.mem_of_mem_head? hs')
    rw [abs_of_pos (by linarith)]; linarith
  · cases tf with
    | nil => exact absurd rfl hne
    | cons x t => simp [listMin_sorted x t T0 hs]
  · show tf.getLast? = some (listMax tf T0)
    rw [listMax_sorted tf T0 hne hs, List.getLast?_eq_some_getLast hne]

/-- a concrete successful trace: up to a spinodal at 115, down to the requested `TMin = 80` -/
example : tracePhase 100 80 120 1
      [⟨105, true, false⟩, ⟨110, true, false⟩, ⟨115, false, false⟩]
      [⟨95, true, false⟩, ⟨90, true, false⟩, ⟨80, true, false⟩]
    = .ok { table := [80, 90, 95, 100, 105, 110], minPossible := 82, minFlag := false,
            maxPossible := 108, maxFlag := true } := by decide +kernel

/-- **Observation (replace rule reaches `T0`).** `TList` of the first direction starts as `[T0]`, so a FIRST
upward record at rounding distance from `T0` replaces `T0`: the starting temperature is then not a node of
the table (the table starts `1e-12` above it).  The hypotheses of `table_sorted` hold here. -/
theorem T0_replaced :
    tracePhase 1 1 2 (1 / 10)
      [⟨1 + 1 / 1000000000000, true, false⟩, ⟨11 / 10, true, false⟩, ⟨12 / 10, true, false⟩,
       ⟨13 / 10, true, false⟩, ⟨14 / 10, true, false⟩, ⟨15 / 10, true, false⟩, ⟨16 / 10, true, false⟩] []
    = .ok { table := [1 + 1 / 1000000000000, 11 / 10, 12 / 10, 13 / 10, 14 / 10, 15 / 10, 16 / 10],
            minPossible := 12 / 10 + 1 / 1000000000000, minFlag := true,
            maxPossible := 14 / 10, maxFlag := true } := by decide +kernel

/-! ## T11.1b' no two almost coincident nodes -/

/-- **No coincident nodes, upward direction.** If the stored list `acc` is already separated (consecutive
entries `a, b` satisfy `a + 1e-8·dT ≤ b`), every step record lies above the last stored temperature and
the step temperatures are strictly increasing, then ALL consecutive entries of the result satisfy
`a + 1e-8·dT ≤ b` — the last pair included, also when the final step replaced the last node (the replacing
temperature lies further from the node before it than the replaced one did).  No sign condition on `dT`;
with `0 < dT` this says that consecutive nodes differ by at least `1e-8·dT > 0`. -/
theorem no_coincident_nodes_up (steps : List Step) (acc : List Rat) (dT : Rat)
    (hacc : acc.IsChain (fun a b => a + dT / 100000000 ≤ b))
    (hlast : ∀ l, acc.getLast? = some l → ∀ s ∈ steps, l < s.t)
    (hmono : (steps.map Step.t).Pairwise (· < ·)) :
    (runDirection steps acc dT).IsChain (fun a b => a + dT / 100000000 ≤ b) := by
  have := runDirection_sep dT 1 (Or.inl rfl) steps acc
    (hacc.imp (fun a b h => by unfold Lemmas.Tracer.Sep; linarith))
    (fun l hl s hs => by have := hlast l hl s hs; linarith)
    (hmono.imp (fun h => by linarith))
  exact this.imp (fun a b h => by unfold Lemmas.Tracer.Sep at h; linarith)

/-- **No coincident nodes, downward direction** (list in storage order, i.e. descending): consecutive entries
`a, b` of the result satisfy `b + 1e-8·dT ≤ a`. -/
theorem no_coincident_nodes_down (steps : List Step) (acc : List Rat) (dT : Rat)
    (hacc : acc.IsChain (fun a b => b + dT / 100000000 ≤ a))
    (hlast : ∀ l, acc.getLast? = some l → ∀ s ∈ steps, s.t < l)
    (hmono : (steps.map Step.t).Pairwise (· > ·)) :
    (runDirection steps acc dT).IsChain (fun a b => b + dT / 100000000 ≤ a) := by
  have := runDirection_sep dT (-1) (Or.inr rfl) steps acc
    (hacc.imp (fun a b h => by unfold Lemmas.Tracer.Sep; linarith))
    (fun l hl s hs => by have := hlast l hl s hs; linarith)
    (hmono.imp (fun h => by linarith))
  exact this.imp (fun a b h => by unfold Lemmas.Tracer.Sep at h; linarith)

/-- **No coincident nodes, assembled table.** Under the hypotheses of `table_sorted` the table is
`lo ++ hi` where `hi` is the list of the upward direction, `lo` is the reversed list of the downward
direction (or empty, if that list had fewer than two nodes and was discarded), and inside `lo` and inside `hi`
consecutive nodes `a, b` satisfy `a + 1e-8·dT ≤ b`; with `0 < dT`: `1e-8·dT ≤ |b − a|`.
NOT covered — and false, see `junction_not_separated` — is the junction: the first downward node against
the first node of the upward list (the replace rule needs a non-empty `TList`, and `TList` is emptied before
the second direction). -/
theorem no_coincident_nodes (T0 TMin TMax dT : Rat) (up down : List Step) (r : Result)
    (h : tracePhase T0 TMin TMax dT up down = .ok r)
    (hup : (up.map Step.t).Pairwise (· < ·)) (hup0 : ∀ s ∈ up, T0 < s.t)
    (hdown : (down.map Step.t).Pairwise (· > ·)) :
    ∃ lo hi, r.table = lo ++ hi ∧ hi = runDirection up [T0] dT ∧
      (lo = [] ∨ lo = (runDirection down [] dT).reverse) ∧
      lo.IsChain (fun a b => a + dT / 100000000 ≤ b) ∧
      hi.IsChain (fun a b => a + dT / 100000000 ≤ b) ∧
      (0 < dT → lo.IsChain (fun a b => dT / 100000000 ≤ |b - a|) ∧
        hi.IsChain (fun a b => dT / 100000000 ≤ |b - a|)) := by
  obtain ⟨tf, htf, _, rfl⟩ := (tracePhase_ok_iff ..).1 h
  obtain ⟨lo, h1, h2, h3, h4⟩ := fullTable_sep htf hup hup0 hdown
  refine ⟨lo, _, h1, (runDirection_up dT T0 up).symm, ?_, h3, h4, fun hd => ⟨?_, ?_⟩⟩
  · rw [runDirection_down]; exact h2
  · exact h3.imp (fun a b hab => by rw [abs_of_pos (by linarith [div_pos hd (by norm_num : (0 : Rat) < 100000000)])]; linarith)
  · exact h4.imp (fun a b hab => by rw [abs_of_pos (by linarith [div_pos hd (by norm_num : (0 : Rat) < 100000000)])]; linarith)

/-- non-vacuity of `no_coincident_nodes_up`: `acc = [1]`, two increasing steps above it, `dT = 1/10` -/
example : ([1] : List Rat).IsChain (fun a b => a + (1 / 10 : Rat) / 100000000 ≤ b) ∧
    (∀ l, ([1] : List Rat).getLast? = some l →
      ∀ s ∈ ([⟨11 / 10, true, false⟩, ⟨11 / 10 + 1 / 1000000000000, true, false⟩] : List Step), l < s.t) ∧
    (([⟨11 / 10, true, false⟩, ⟨11 / 10 + 1 / 1000000000000, true, false⟩] : List Step).map Step.t).Pairwise (· < ·) := by
  refine ⟨List.isChain_singleton _, ?_, ?_⟩
  · intro l hl s hs
    simp only [List.getLast?_singleton, Option.some.injEq] at hl
    subst hl
    simp only [List.mem_cons, List.not_mem_nil, or_false] at hs
    rcases hs with rfl | rfl <;> norm_num
  · simp only [List.map_cons, List.map_nil, List.pairwise_cons, List.mem_cons, List.not_mem_nil,
      or_false, forall_eq, List.Pairwise.nil, and_true, IsEmpty.forall_iff, implies_true]
    norm_num

/-- non-vacuity of `no_coincident_nodes_down`: `TList` empty, three decreasing steps, the last of rounding size -/
example : runDirection [⟨9 / 10, true, false⟩, ⟨8 / 10, true, false⟩, ⟨8 / 10 - 1 / 1000000000000, true, false⟩]
      [] (1 / 10) = [9 / 10, 8 / 10 - 1 / 1000000000000] := by decide +kernel

/-- non-vacuity of `no_coincident_nodes`: see `rounding_step_replaces_unflagged` (monotone records, `0 < dT`,
the last step of rounding size) and the two-directional trace below, whose last step in each direction has
rounding size. -/
example : tracePhase 1 (1 / 2 - 1 / 1000000000000) (15 / 10 + 1 / 1000000000000) (1 / 10)
      [⟨12 / 10, true, false⟩, ⟨15 / 10, true, false⟩, ⟨15 / 10 + 1 / 1000000000000, true, false⟩]
      [⟨8 / 10, true, false⟩, ⟨1 / 2, true, false⟩, ⟨1 / 2 - 1 / 1000000000000, true, false⟩]
    = .ok { table := [1 / 2 - 1 / 1000000000000, 8 / 10, 1, 12 / 10, 15 / 10 + 1 / 1000000000000],
            minPossible := 7 / 10 - 1 / 1000000000000, minFlag := false,
            maxPossible := 13 / 10 + 1 / 1000000000000, maxFlag := false } := by decide +kernel

/-- **Observation (junction).** The replace rule does not protect the junction of the two directions: `TList`
is emptied before the downward direction, so its first step is appended whatever its distance to `T0`.
Here the first downward record lies `1e-12` below `T0 = 1` (`1e-8·dT = 1e-9`): the table contains the two
almost coincident nodes `1 − 1e-12` and `1`. -/
theorem junction_not_separated :
    tracePhase 1 (1 / 2) 2 (1 / 10)
      [⟨12 / 10, true, false⟩, ⟨15 / 10, true, false⟩]
      [⟨1 - 1 / 1000000000000, true, false⟩, ⟨8 / 10, true, false⟩]
    = .ok { table := [8 / 10, 1 - 1 / 1000000000000, 1, 12 / 10, 15 / 10],
            minPossible := 1, minFlag := true, maxPossible := 13 / 10, maxFlag := true } := by
  decide +kernel

/-! ## T11.1c flags and the 2·dT safety margin -/

/-- **T11.1c.** On success: the lower end is flagged as a genuine disappearance exactly when the smallest
tabulated temperature lies strictly above the requested `TMin`, the upper end exactly when the largest
lies strictly below `TMax`; the advertised range is `[min + 2·dT, max − 2·dT]` and it is non-empty.
No hypotheses. -/
theorem flags_iff (T0 TMin TMax dT : Rat) (up down : List Step) (r : Result)
    (h : tracePhase T0 TMin TMax dT up down = .ok r) :
    (r.minFlag = true ↔ TMin < listMin r.table T0) ∧
    (r.maxFlag = true ↔ listMax r.table T0 < TMax) ∧
    r.minPossible = listMin r.table T0 + 2 * dT ∧
    r.maxPossible = listMax r.table T0 - 2 * dT ∧
    r.minPossible < r.maxPossible ∧
    listMin r.table T0 ∈ r.table ∧ listMax r.table T0 ∈ r.table ∧
    (∀ x ∈ r.table, listMin r.table T0 ≤ x ∧ x ≤ listMax r.table T0) := by
  obtain ⟨tf, htf, hlt, rfl⟩ := (tracePhase_ok_iff ..).1 h
  have hne := fullTable_ne_nil htf
  exact ⟨by simp, by simp, rfl, rfl, hlt, listMin_mem _ _ hne, listMax_mem _ _ hne,
    fun x hx => ⟨listMin_le _ _ _ hx, le_listMax _ _ _ hx⟩⟩

/-- the table must span more than `4·dT`, otherwise the run fails with "Temperature range negative" -/
theorem negativeRange_iff (T0 TMin TMax dT : Rat) (up down : List Step) :
    tracePhase T0 TMin TMax dT up down = .error .negativeRange ↔
      ∃ tf, fullTable dT T0 up down = some tf ∧ listMax tf T0 - listMin tf T0 ≤ 4 * dT := by
  rw [tracePhase_eq]
  cases h : fullTable dT T0 up down with
  | none => simp
  | some tf =>
    by_cases hr : listMin tf T0 + 2 * dT < listMax tf T0 - 2 * dT
    · simp only [hr, not_true_eq_false, if_false, Option.some.injEq, exists_eq_left']
      constructor
      · intro h; cases h
      · intro h; linarith
    · simp only [hr, not_false_eq_true, if_true, Option.some.injEq, exists_eq_left', true_iff]
      linarith

example : tracePhase 100 80 120 3 [⟨105, true, false⟩, ⟨110, true, false⟩] [] = .error .negativeRange := by
  decide +kernel

/-! ## T11.1d which ends are flagged -/

/-- **T11.1d (upper end reached).** If the LAST accepted upward record sits exactly at `TMax` (the integrator
finished at its bound) and nothing lies above `TMax`, the upper end is NOT flagged as a disappearance.
(Under the replace rule it must be the last accepted record: an earlier accepted record at `TMax` can be
replaced by a later one at rounding distance, see the example after this theorem.  The last accepted
temperature is always a node, whether it was appended or replaced its predecessor.) -/
theorem reaches_end_unflagged (T0 TMin TMax dT : Rat) (up down : List Step) (r : Result)
    (h : tracePhase T0 TMin TMax dT up down = .ok r)
    (hreach : (acceptedPrefix up (some T0)).getLast?.map Step.t = some TMax)
    (hup : ∀ s ∈ up, s.t ≤ TMax) (hT0 : T0 ≤ TMax) (hdown : ∀ s ∈ down, s.t ≤ TMax) :
    r.maxFlag = false ∧ r.maxPossible = TMax - 2 * dT := by
  obtain ⟨tf, htf, _, rfl⟩ := (tracePhase_ok_iff ..).1 h
  have hmem : TMax ∈ tf := lastUp_mem_fullTable htf _ (by rw [upTimes, List.getLast?_map]; exact hreach)
  have hmax : listMax tf T0 = TMax := by
    rw [listMax_eq_iff _ _ _ (fullTable_ne_nil htf)]
    refine ⟨hmem, fun x hx => ?_⟩
    rcases mem_fullTable htf x hx with rfl | hx | hx
    · exact hT0
    · obtain ⟨s', hs', _, _, rfl⟩ := mem_upTimes hx; exact hup s' hs'
    · obtain ⟨s', hs', _, _, rfl⟩ := mem_downTimes hx; exact hdown s' hs'
  simp [hmax]

/-- why `reaches_end_unflagged` needs the LAST accepted record at `TMax`: an accepted record at `TMax = 120`
followed by a (non-monotone) record `1e-12` below it is replaced; the table ends below `TMax` and the end is
flagged.  (With strictly increasing times and nothing above `TMax` a record at `TMax` is necessarily the
last one.) -/
example : tracePhase 100 80 120 1
      [⟨110, true, false⟩, ⟨120, true, false⟩, ⟨120 - 1 / 1000000000000, true, false⟩] []
    = .ok { table := [100, 110, 120 - 1 / 1000000000000], minPossible := 102, minFlag := true,
            maxPossible := 118 - 1 / 1000000000000, maxFlag := true } := by decide +kernel

/-- **T11.1d (lower end reached).** Symmetric statement for `TMin` — but it needs AT LEAST TWO stored
downward nodes (hypothesis `h2`, forced by the proof): a single stored downward node is thrown away
(see `single_down_step_reaching_TMin_flagged`).  Under the replace rule the count is that of the NODES
(`TList` of the downward direction), not of the accepted records: two accepted records at rounding distance
from each other give one node. -/
theorem reaches_start_unflagged (T0 TMin TMax dT : Rat) (up down : List Step) (r : Result)
    (h : tracePhase T0 TMin TMax dT up down = .ok r)
    (h2 : 2 ≤ (runDirection down [] dT).length)
    (hreach : (acceptedPrefix down none).getLast?.map Step.t = some TMin)
    (hup : ∀ s ∈ up, TMin ≤ s.t) (hT0 : TMin ≤ T0) (hdown : ∀ s ∈ down, TMin ≤ s.t) :
    r.minFlag = false ∧ r.minPossible = TMin + 2 * dT := by
  obtain ⟨tf, htf, _, rfl⟩ := (tracePhase_ok_iff ..).1 h
  rw [runDirection_down] at h2
  have hmem : TMin ∈ tf :=
    lastDown_mem_fullTable htf (by omega) _ (by rw [downTimes, List.getLast?_map]; exact hreach)
  have hmin : listMin tf T0 = TMin := by
    rw [listMin_eq_iff _ _ _ (fullTable_ne_nil htf)]
    refine ⟨hmem, fun x hx => ?_⟩
    rcases mem_fullTable htf x hx with rfl | hx | hx
    · exact hT0
    · obtain ⟨s', hs', _, _, rfl⟩ := mem_upTimes hx; exact hup s' hs'
    · obtain ⟨s', hs', _, _, rfl⟩ := mem_downTimes hx; exact hdown s' hs'
  simp [hmin]

/-- non-vacuity of `reaches_end_unflagged` / `reaches_start_unflagged`: both bounds reached, no flag -/
example : tracePhase 100 80 120 1
      [⟨110, true, false⟩, ⟨120, true, false⟩] [⟨90, true, false⟩, ⟨80, true, false⟩]
    = .ok { table := [80, 90, 100, 110, 120], minPossible := 82, minFlag := false,
            maxPossible := 118, maxFlag := false } := by decide +kernel
example : (acceptedPrefix [⟨110, true, false⟩, ⟨120, true, false⟩] (some 100)).getLast?.map Step.t = some 120 ∧
    (acceptedPrefix [⟨90, true, false⟩, ⟨80, true, false⟩] none).getLast?.map Step.t = some 80 ∧
    2 ≤ (runDirection [⟨90, true, false⟩, ⟨80, true, false⟩] [] 1).length := by decide +kernel

/-- **Finding (quirk).** The downward integrator reaches the requested `TMin = 99` in ONE accepted step.
The step is discarded (`len(TList) > 1` fails), so the table starts at `T0 = 100`, the lower end IS
flagged as a genuine disappearance of the phase and `minPossibleTemperature = 102 > T0`, although the
minimum exists all the way down to `TMin`. -/
theorem single_down_step_reaching_TMin_flagged :
    tracePhase 100 99 120 1 [⟨105, true, false⟩, ⟨110, true, false⟩] [⟨99, true, false⟩]
    = .ok { table := [100, 105, 110], minPossible := 102, minFlag := true,
            maxPossible := 108, maxFlag := true } := by decide +kernel

/-- **Finding (quirk, replace rule).** The same happens when the downward integrator reaches `TMin` in TWO
accepted steps the second of which has rounding size: the two records give ONE node, which is discarded. -/
theorem merged_down_steps_reaching_TMin_flagged :
    tracePhase 100 99 120 1 [⟨105, true, false⟩, ⟨110, true, false⟩]
      [⟨99 + 1 / 1000000000000, true, false⟩, ⟨99, true, false⟩]
    = .ok { table := [100, 105, 110], minPossible := 102, minFlag := true,
            maxPossible := 108, maxFlag := true } := by decide +kernel

/-- **T11.1d (spinodal above).** If some upward record has a non-positive eigenvalue and every record
tabulated before it lies below `TMax`, then the upper end IS flagged, and (with increasing times) every
table entry lies strictly below the temperature of that record: the table stops before the point where
the minimum has ceased to exist. -/
theorem stops_at_spinodal_flagged (T0 TMin TMax dT : Rat) (up down : List Step) (r : Result)
    (h : tracePhase T0 TMin TMax dT up down = .ok r)
    (pre post : List Step) (s : Step) (hsplit : up = pre ++ s :: post) (hs : s.eigPos = false)
    (hacc : ∀ x ∈ acceptedPrefix up (some T0), x.t < TMax) (hT0 : T0 < TMax)
    (hup : (up.map Step.t).Pairwise (· < ·)) (hup0 : ∀ x ∈ up, T0 < x.t)
    (hdown0 : ∀ x ∈ down, x.t < T0) :
    r.maxFlag = true ∧ ∀ x ∈ r.table, x < s.t := by
  obtain ⟨tf, htf, _, rfl⟩ := (tracePhase_ok_iff ..).1 h
  have hsT0 : T0 < s.t := hup0 s (by rw [hsplit]; simp)
  have key : ∀ x ∈ tf, x < TMax ∧ x < s.t := by
    intro x hx
    rcases mem_fullTable htf x hx with rfl | hx | hx
    · exact ⟨hT0, hsT0⟩
    · obtain ⟨y, hy, rfl⟩ := List.mem_map.1 hx
      refine ⟨hacc y hy, ?_⟩
      have hypre : y ∈ pre := by
        have := acceptedPrefix_stops pre s post (some T0) hs
        rw [← hsplit] at this
        exact this.subset hy
      rw [hsplit, List.map_append, List.map_cons] at hup
      exact (List.pairwise_append.1 hup).2.2 _ (List.mem_map_of_mem hypre) _ List.mem_cons_self
    · obtain ⟨s', hs', _, _, rfl⟩ := mem_downTimes hx
      exact ⟨lt_trans (hdown0 s' hs') hT0, lt_trans (hdown0 s' hs') hsT0⟩
  refine ⟨?_, fun x hx => (key x hx).2⟩
  have := (key _ (listMax_mem tf T0 (fullTable_ne_nil htf))).1
  simp [this]

/-- **T11.1d (spinodal below).** Same for the downward direction; here the single-step quirk is harmless
(the flag is set either way). -/
theorem stops_at_spinodal_flagged_down (T0 TMin TMax dT : Rat) (up down : List Step) (r : Result)
    (h : tracePhase T0 TMin TMax dT up down = .ok r)
    (pre post : List Step) (s : Step) (hsplit : down = pre ++ s :: post) (hs : s.eigPos = false)
    (hacc : ∀ x ∈ acceptedPrefix down none, TMin < x.t) (hT0 : TMin < T0)
    (hdown : (down.map Step.t).Pairwise (· > ·)) (hdown0 : ∀ x ∈ down, x.t < T0)
    (hup0 : ∀ x ∈ up, T0 < x.t) :
    r.minFlag = true ∧ ∀ x ∈ r.table, s.t < x := by
  obtain ⟨tf, htf, _, rfl⟩ := (tracePhase_ok_iff ..).1 h
  have hsT0 : s.t < T0 := hdown0 s (by rw [hsplit]; simp)
  have key : ∀ x ∈ tf, TMin < x ∧ s.t < x := by
    intro x hx
    rcases mem_fullTable htf x hx with rfl | hx | hx
    · exact ⟨hT0, hsT0⟩
    · obtain ⟨s', hs', _, _, rfl⟩ := mem_upTimes hx
      exact ⟨lt_trans hT0 (hup0 s' hs'), lt_trans hsT0 (hup0 s' hs')⟩
    · obtain ⟨y, hy, rfl⟩ := List.mem_map.1 hx
      refine ⟨hacc y hy, ?_⟩
      have hypre : y ∈ pre := by
        have := acceptedPrefix_stops pre s post none hs
        rw [← hsplit] at this
        exact this.subset hy
      rw [hsplit, List.map_append, List.map_cons] at hdown
      exact (List.pairwise_append.1 hdown).2.2 _ (List.mem_map_of_mem hypre) _ List.mem_cons_self
  refine ⟨?_, fun x hx => (key x hx).2⟩
  have := (key _ (listMin_mem tf T0 (fullTable_ne_nil htf))).1
  simp [this]

/-- non-vacuity: spinodal at 115 above and at 85 below; both ends flagged, table strictly inside (85, 115) -/
example : tracePhase 100 80 120 1
      [⟨105, true, false⟩, ⟨110, true, false⟩, ⟨115, false, false⟩, ⟨120, true, false⟩]
      [⟨95, true, false⟩, ⟨90, true, false⟩, ⟨85, false, false⟩]
    = .ok { table := [90, 95, 100, 105, 110], minPossible := 92, minFlag := true,
            maxPossible := 108, maxFlag := true } := by decide +kernel

/-- **Observation.** By `flags_iff` the flag only says "the table ends strictly inside the requested
range"; it is ALSO raised when the loop stopped for a reason other than a vanishing eigenvalue: here the
step size collapsed at 110 (`tiny = true`, eigenvalue still positive) and the upper end is flagged as a
genuine disappearance all the same.  (The same holds for a repeated temperature, an RK45 failure or a
`RuntimeWarning`, which all end the list of records.) -/
theorem tiny_step_flagged :
    tracePhase 100 80 120 1 [⟨105, true, false⟩, ⟨110, true, false⟩, ⟨110 + 1 / 1000, true, true⟩]
      [⟨90, true, false⟩, ⟨80, true, false⟩]
    = .ok { table := [80, 90, 100, 105, 110], minPossible := 82, minFlag := false,
            maxPossible := 108, maxFlag := true } := by decide +kernel

/-! ## T11.1e errors; a single downward step is discarded -/

/-- **T11.1e.** "Failed to trace phase" is raised exactly when at most ONE downward node and NO upward node
besides `T0` is stored.  In terms of the step records: the temperatures of the accepted downward records
form a chain of rounding steps (each within `1e-8·dT` of its predecessor — trivially so if at most one record
is accepted), and those of the accepted upward records form such a chain starting at `T0` (trivially so if
none is accepted). -/
theorem failedToTrace_iff (T0 TMin TMax dT : Rat) (up down : List Step) :
    tracePhase T0 TMin TMax dT up down = .error .failedToTrace ↔
      ((acceptedPrefix down none).map Step.t).IsChain (fun a b => |b - a| < dT / 100000000) ∧
      (T0 :: (acceptedPrefix up (some T0)).map Step.t).IsChain (fun a b => |b - a| < dT / 100000000) := by
  have key := fullTable_eq_none_iff dT T0 up down
  unfold downTimes upTimes at key
  rw [tracePhase_eq, ← key]
  cases h : fullTable dT T0 up down with
  | none => simp
  | some tf =>
    simp only [reduceCtorEq, iff_false]
    split <;> simp

/-- the same in terms of node counts: at most one downward node, and `T0` is the only upward node -/
theorem failedToTrace_iff_length (T0 TMin TMax dT : Rat) (up down : List Step) :
    tracePhase T0 TMin TMax dT up down = .error .failedToTrace ↔
      (runDirection down [] dT).length ≤ 1 ∧ (runDirection up [T0] dT).length ≤ 1 := by
  rw [failedToTrace_iff, runDirection_down, runDirection_up, length_downTable, length_upTable,
    ← appended_none_le_one_iff, ← appended_some_eq_zero_iff]
  unfold downTimes upTimes
  omega

/-- **T11.1e (sufficient, as before the replace rule).** At most one accepted downward record and no accepted
upward record: tracing fails. -/
theorem failedToTrace_of_few (T0 TMin TMax dT : Rat) (up down : List Step)
    (hd : (acceptedPrefix down none).length ≤ 1) (hu : acceptedPrefix up (some T0) = []) :
    tracePhase T0 TMin TMax dT up down = .error .failedToTrace := by
  rw [failedToTrace_iff, hu]
  refine ⟨?_, List.isChain_singleton _⟩
  match hP : acceptedPrefix down none, hd with
  | [], _ => exact List.isChain_nil
  | [_], _ => exact List.isChain_singleton _

/-- **T11.1e (no rounding steps).** If no record lies within `1e-8·dT` of its predecessor (`T0` for the first
upward one), the criterion is the one of the code without the replace rule: at most ONE downward record and
NO upward record is accepted. -/
theorem failedToTrace_iff_of_no_rounding (T0 TMin TMax dT : Rat) (up down : List Step)
    (hfarU : (T0 :: up.map Step.t).IsChain (fun a b => dT / 100000000 ≤ |b - a|))
    (hfarD : (down.map Step.t).IsChain (fun a b => dT / 100000000 ≤ |b - a|)) :
    tracePhase T0 TMin TMax dT up down = .error .failedToTrace ↔
      (acceptedPrefix down none).length ≤ 1 ∧ acceptedPrefix up (some T0) = [] := by
  refine ⟨fun h => ?_, fun h => failedToTrace_of_few _ _ _ _ _ _ h.1 h.2⟩
  obtain ⟨h1, h2⟩ := (failedToTrace_iff ..).1 h
  have hD := length_le_one_of_near_far dT _ h1
    (hfarD.prefix ((acceptedPrefix_prefix down none).map Step.t))
  have hU := length_le_one_of_near_far dT _ h2
    (hfarU.prefix ((List.prefix_cons_inj T0).2 ((acceptedPrefix_prefix up (some T0)).map Step.t)))
  simp only [List.length_map, List.length_cons] at hD hU
  exact ⟨hD, List.eq_nil_of_length_eq_zero (by omega)⟩

/-- non-vacuity of `failedToTrace_iff_of_no_rounding`'s hypotheses (`T0 = 100`, `dT = 1`) -/
example : ((100 : Rat) :: ([⟨105, false, false⟩] : List Step).map Step.t).IsChain
      (fun a b => (1 : Rat) / 100000000 ≤ |b - a|) ∧
    (([⟨95, false, false⟩] : List Step).map Step.t).IsChain (fun a b => (1 : Rat) / 100000000 ≤ |b - a|) := by
  refine ⟨List.isChain_cons_cons.2 ⟨by norm_num, List.isChain_singleton _⟩, List.isChain_singleton _⟩

/-- **Observation (replace rule).** Tracing can now fail although several records were accepted in each
direction: all of them are rounding steps, so no second node is ever stored. -/
theorem all_rounding_steps_fail :
    tracePhase 1 0 2 (1 / 10)
      [⟨1 + 1 / 1000000000000, true, false⟩, ⟨1 + 2 / 1000000000000, true, false⟩]
      [⟨1 - 1 / 1000000000000, true, false⟩, ⟨1 - 2 / 1000000000000, true, false⟩]
    = .error .failedToTrace := by decide +kernel

/-- the error is reachable: the very first record in each direction already sits at a spinodal -/
example : tracePhase 100 80 120 1 [⟨105, false, false⟩] [⟨95, false, false⟩] = .error .failedToTrace := by
  decide +kernel

/-- **Quirk (documented).** A SINGLE accepted downward step is discarded: the table consists of the upward
branch only, and the point at `T = 95` (a perfectly good local minimum) is not tabulated … -/
theorem single_down_step_discarded :
    tracePhase 100 80 120 1 [⟨105, true, false⟩, ⟨110, true, false⟩] [⟨95, true, false⟩, ⟨90, false, false⟩]
    = .ok { table := [100, 105, 110], minPossible := 102, minFlag := true,
            maxPossible := 108, maxFlag := true } := by decide +kernel

/-- … and if in addition no upward step is accepted, tracing fails although one step was successful. -/
theorem single_down_step_fails :
    tracePhase 100 80 120 1 [⟨105, false, false⟩] [⟨95, true, false⟩, ⟨90, false, false⟩]
    = .error .failedToTrace := by decide +kernel

/-! ## T11.2 the bracket handed to brentq -/

/-- **T11.2.** If the coarse loop returns a bracket `(a, b)` then `b = a + dT`, `a` is the `k`-th grid point
`TMax − k·dT` (`1 ≤ k ≤ fuel`) and lies strictly above `TMin`; the sign of `ΔF` at `a` differs from the
sign at `TMax`, while at every earlier grid point `TMax − j·dT`, `j < k` — in particular at
`b = TMax − (k−1)·dT` — the sign equals the sign at `TMax`.  With `dT ≥ 0` (hypothesis needed only for
this clause) `b ≤ TMax`.  No other hypotheses. -/
theorem criticalBracket_spec (dF : Rat → Rat) (TMin TMax dT : Rat) (fuel : Nat) (a b : Rat)
    (h : criticalBracket dF TMin TMax dT fuel = some (a, b)) :
    b = a + dT ∧ TMin < a ∧
    ∃ k : Nat, 1 ≤ k ∧ k ≤ fuel ∧ a = TMax - k * dT ∧ b = TMax - (k - 1 : Nat) * dT ∧
      sgn (dF a) ≠ sgn (dF TMax) ∧
      (∀ j : Nat, j < k → sgn (dF (TMax - j * dT)) = sgn (dF TMax)) ∧
      sgn (dF b) = sgn (dF TMax) ∧
      (0 ≤ dT → b ≤ TMax) := by
  unfold criticalBracket at h
  cases hc : coarseLoop dF TMin dT (sgn (dF TMax)) fuel TMax with
  | none => simp [hc] at h
  | some a' =>
    simp only [hc, Option.map_some, Option.some.injEq, Prod.mk.injEq] at h
    obtain ⟨rfl, rfl⟩ := h
    obtain ⟨k, hk1, hkf, hak, hmin, hsg, hall⟩ := coarseLoop_spec _ _ _ _ _ _ _ hc
    obtain ⟨k', rfl⟩ : ∃ k', k = k' + 1 := ⟨k - 1, by omega⟩
    have hb : a' + dT = TMax - ((k' + 1 - 1 : Nat) : Rat) * dT := by
      rw [hak]; simp only [Nat.add_sub_cancel]; push_cast; ring
    have hall' : ∀ j : Nat, j < k' + 1 → sgn (dF (TMax - j * dT)) = sgn (dF TMax) := by
      intro j hj
      rcases Nat.eq_zero_or_pos j with rfl | hpos
      · simp
      · exact (hall j hpos hj).2
    refine ⟨rfl, hmin, k' + 1, hk1, hkf, hak, hb, hsg, hall', ?_, fun hd => ?_⟩
    · rw [hb]; exact hall' _ (by omega)
    · rw [hb]
      have : 0 ≤ ((k' + 1 - 1 : Nat) : Rat) * dT := mul_nonneg (Nat.cast_nonneg _) hd
      linarith

/-- **T11.2 (brentq's precondition).** The signs of `ΔF` at the two ends of the returned bracket differ,
hence `ΔF(a)·ΔF(b) ≤ 0` — exactly what `scipy.optimize.brentq` checks (`f(a)·f(b) > 0` raises).  The
product is `< 0` unless one end is itself a root: `ΔF(a) = 0` is possible (then `a` is the crossing), and
`ΔF(b) = 0` happens only if `ΔF(TMax) = 0` (degenerate start).  In exact arithmetic; in floating point
`T + TStep` need not reproduce the previous grid point. -/
theorem bracket_sign_change (dF : Rat → Rat) (TMin TMax dT : Rat) (fuel : Nat) (a b : Rat)
    (h : criticalBracket dF TMin TMax dT fuel = some (a, b)) :
    sgn (dF a) ≠ sgn (dF b) ∧ dF a * dF b ≤ 0 ∧
      (dF a ≠ 0 → dF TMax ≠ 0 → dF a * dF b < 0) ∧ (dF b = 0 ↔ dF TMax = 0) := by
  obtain ⟨_, _, k, _, _, _, _, hne, _, hb, _⟩ := criticalBracket_spec _ _ _ _ _ _ _ h
  rw [← hb] at hne
  have hb0 : dF b = 0 ↔ dF TMax = 0 := by rw [← sgn_eq_zero_iff, ← sgn_eq_zero_iff, hb]
  have hle : dF a * dF b ≤ 0 := by
    by_contra hpos
    rcases mul_pos_iff.1 (not_le.1 hpos) with ⟨h1, h2⟩ | ⟨h1, h2⟩
    · exact hne (((sgn_eq_one_iff _).2 h1).trans ((sgn_eq_one_iff _).2 h2).symm)
    · exact hne (((sgn_eq_neg_one_iff _).2 h1).trans ((sgn_eq_neg_one_iff _).2 h2).symm)
  refine ⟨hne, hle, fun ha ht => lt_of_le_of_ne hle ?_, hb0⟩
  exact mul_ne_zero ha (fun hb' => ht (hb0.1 hb'))

/-- **T11.2 (direction clause, conditional).** With `ΔF = F_low − F_high`: IF the high-temperature phase
is favoured at `TMax` (`ΔF(TMax) > 0`), then `ΔF > 0` at the upper end `b` of the bracket and at all coarse
grid points above it, and `ΔF(a) ≤ 0`: the low-temperature phase is favoured (or degenerate) just below
the bracket.  The hypothesis `0 < ΔF(TMax)` is NOT checked by the code, see `direction_unchecked`. -/
theorem lowT_favoured_below (dF : Rat → Rat) (TMin TMax dT : Rat) (fuel : Nat) (a b : Rat)
    (h : criticalBracket dF TMin TMax dT fuel = some (a, b)) (hdir : 0 < dF TMax) :
    dF a ≤ 0 ∧ 0 < dF b := by
  obtain ⟨_, _, k, _, _, _, _, hne, _, hb, _⟩ := criticalBracket_spec _ _ _ _ _ _ _ h
  rw [(sgn_eq_one_iff _).2 hdir] at hne hb
  exact ⟨not_lt.1 (fun hpos => hne ((sgn_eq_one_iff _).2 hpos)), (sgn_eq_one_iff _).1 hb⟩

/-- non-vacuity of `criticalBracket_spec`, `bracket_sign_change`, `lowT_favoured_below`:
`ΔF(T) = T − 9/2`, positive at `TMax = 10`; bracket `(4, 5)`. -/
example : criticalBracket (fun T => T - 9 / 2) 0 10 1 20 = some (4, 5) := by decide +kernel
example : (0 : Rat) < (fun T : Rat => T - 9 / 2) 10 := by norm_num

/-- a bracket whose lower end is itself the root (`sgn ΔF(a) = 0`) -/
example : criticalBracket (fun T => T - 5) 0 10 1 20 = some (5, 6) := by decide +kernel

/-- the loop can fail: no sign change on the grid strictly above `TMin` -/
example : criticalBracket (fun T => T + 1) 0 10 1 20 = none := by decide +kernel

/-- **Finding (direction never checked).** `ΔF(T) = 9/2 − T`: at `TMax = 10` the LOW-temperature phase is
favoured (`ΔF < 0`), below the crossing the high-temperature phase is — the phases are the wrong way
round.  The coarse loop nevertheless returns the bracket `(4, 5)` with `ΔF(4) > 0`, and
`findCriticalTemperature` would return the crossing as "critical temperature" without complaint. -/
theorem direction_unchecked :
    let dF : Rat → Rat := fun T => 9 / 2 - T
    dF 10 < 0 ∧ criticalBracket dF 0 10 1 20 = some (4, 5) ∧ 0 < dF 4 := by
  decide +kernel

/-- **T11.2 (termination / fuel).** Once `(fuel + 1)·dT ≥ TMax − TMin` the result of the coarse loop does
not depend on the fuel: the model's fuel bound is not what stops the loop. -/
theorem criticalBracket_fuel_irrelevant (dF : Rat → Rat) (TMin TMax dT : Rat) (fuel fuel' : Nat)
    (hf : TMax - TMin ≤ (fuel + 1 : Nat) * dT) (hle : fuel ≤ fuel') :
    criticalBracket dF TMin TMax dT fuel = criticalBracket dF TMin TMax dT fuel' := by
  unfold criticalBracket
  rw [coarseLoop_fuel dF TMin dT _ fuel fuel' TMax hf hle]

/-- the same with the bound in the form `fuel ≥ ⌈(TMax − TMin)/dT⌉ + 1`, `dT > 0` -/
theorem criticalBracket_fuel_ceil (dF : Rat → Rat) (TMin TMax dT : Rat) (fuel fuel' : Nat)
    (hdT : 0 < dT) (hf : ⌈(TMax - TMin) / dT⌉₊ + 1 ≤ fuel) (hle : fuel ≤ fuel') :
    criticalBracket dF TMin TMax dT fuel = criticalBracket dF TMin TMax dT fuel' := by
  refine criticalBracket_fuel_irrelevant dF TMin TMax dT fuel fuel' ?_ hle
  have h1 : (TMax - TMin) / dT ≤ (⌈(TMax - TMin) / dT⌉₊ : Rat) := Nat.le_ceil _
  have h2 : ((⌈(TMax - TMin) / dT⌉₊ : Rat)) + 1 ≤ (fuel : Rat) := by exact_mod_cast hf
  have h3 : TMax - TMin ≤ (⌈(TMax - TMin) / dT⌉₊ : Rat) * dT := (div_le_iff₀ hdT).1 h1
  push_cast
  nlinarith

example : (⌈((10 : Rat) - 0) / 1⌉₊ + 1 ≤ 20) := by
  have : ⌈((10 : Rat) - 0) / 1⌉₊ = 10 := by
    rw [Nat.ceil_eq_iff (by norm_num)]; norm_num
  omega

end Props.C11
