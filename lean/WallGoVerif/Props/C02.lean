/-
Property C02: "Energy and momentum flux are conserved across the wall … the two boundary constants
handed to the wall equations equal those fluxes on both sides (with the documented sign convention)".

All statements are about the GENERATED definitions in `Gen/R/Hydro.lean`
(`vpvmAndvpovm`, `matchingVp`, `matchingLTE`, `tmFromvpsq`, `matchDetonPost`, `hydroBoundaries`).
-/
import WallGoVerif.Lemmas.Hydro

namespace Props.C02

open Gen.R.Hydro Gen.R.Helpers WG.R Lemmas.Hydro

/-- **T02.1** (`Conservation s vp vm Tp Tm` := energy flux `w γ² v` and momentum flux
`w γ² v² + p` agree on the two sides, see `Lemmas.Hydro.Conservation`.)  The pair `(v₊v₋, v₊/v₋)` returned by `Hydrodynamics.vpvmAndvpovm(Tp, Tm)` encodes
exactly energy- and momentum-flux conservation: a pair of velocities reproduces the two returned
numbers iff both fluxes are conserved.  Minimal hypotheses: `w = e + p` (EOSOK), `v₊² ≠ 1`,
`v₋² ≠ 1`, `v₋ ≠ 0`, `e₊ ≠ e₋` (otherwise the code switches to its `1e50` fallback, see
`junction_fails_degenerate`) and `e₊ + p₋ ≠ 0`.  (C02, clause "energy and momentum flux are conserved
across the wall".) -/
theorem junction_iff_conservation (s : HydroP) (hs : EOSOK s) (Tp Tm vp vm : ℝ)
    (hvp : vp ^ 2 ≠ 1) (hvm : vm ^ 2 ≠ 1) (hvm0 : vm ≠ 0)
    (hC : s.eHighT Tp ≠ s.eLowT Tm) (hD : s.eHighT Tp + s.pLowT Tm ≠ 0) :
    (vp * vm = (vpvmAndvpovm s Tp Tm).1 ∧ vp / vm = (vpvmAndvpovm s Tp Tm).2) ↔
      Conservation s vp vm Tp Tm :=
  junction_iff_conservation_hydro s hs Tp Tm vp vm hvp hvm hvm0 hC hD

/-- **T02.1 (physical range)** Same statement for subluminal positive speeds `0 < v± < 1`. -/
theorem junction_iff_conservation_physical (s : HydroP) (hs : EOSOK s) (Tp Tm vp vm : ℝ)
    (hvp0 : 0 < vp) (hvp1 : vp < 1) (hvm0 : 0 < vm) (hvm1 : vm < 1)
    (hC : s.eHighT Tp ≠ s.eLowT Tm) (hD : s.eHighT Tp + s.pLowT Tm ≠ 0) :
    (vp * vm = (vpvmAndvpovm s Tp Tm).1 ∧ vp / vm = (vpvmAndvpovm s Tp Tm).2) ↔
      Conservation s vp vm Tp Tm :=
  junction_iff_conservation s hs Tp Tm vp vm (sq_ne_one_of_mem hvp0 hvp1)
    (sq_ne_one_of_mem hvm0 hvm1) hvm0.ne' hC hD

/-- Non-vacuity of T02.1: bag model `a₊ = 63, a₋ = 45, ε = 2`, `T₊ = T₋ = 1`, `v₊ = 2/5`,
`v₋ = 1/2` satisfies every hypothesis and both sides of the equivalence. -/
example : ∃ (s : HydroP) (Tp Tm vp vm : ℝ), EOSOK s ∧ 0 < vp ∧ vp < 1 ∧ 0 < vm ∧ vm < 1 ∧
    s.eHighT Tp ≠ s.eLowT Tm ∧ s.eHighT Tp + s.pLowT Tm ≠ 0 ∧
    (vp * vm = (vpvmAndvpovm s Tp Tm).1 ∧ vp / vm = (vpvmAndvpovm s Tp Tm).2) ∧
    Conservation s vp vm Tp Tm := by
  refine ⟨bag 63 45 2, 1, 1, 2 / 5, 1 / 2, bag_EOSOK _ _ _, by norm_num, by norm_num, by norm_num,
    by norm_num, by simp [bag]; norm_num, by simp [bag]; norm_num, ?_, ?_⟩
  · constructor <;> (simp [vpvmAndvpovm, bag]; norm_num)
  · constructor <;> (simp [energyFlux, momentumFlux, gammaSq, bag]; norm_num)

/-- **T02.1 (necessity of `e₊ ≠ e₋`)** In the degenerate case `e₊ = e₋` the fallback value
`(p₊-p₋)·1e50` of `vpvmAndvpovm` is *not* `v₊v₋` for any conserved state with non-zero speeds:
conservation then forces `p₊ = p₋`, hence the code's `vpvm = 0`. -/
theorem junction_fails_degenerate (s : HydroP) (hs : EOSOK s) (Tp Tm vp vm : ℝ)
    (hvp : vp ^ 2 ≠ 1) (hvm : vm ^ 2 ≠ 1) (hvp0 : vp ≠ 0) (hvm0 : vm ≠ 0)
    (hC : s.eHighT Tp = s.eLowT Tm) (hcons : Conservation s vp vm Tp Tm) :
    (vpvmAndvpovm s Tp Tm).1 = 0 ∧ vp * vm ≠ (vpvmAndvpovm s Tp Tm).1 := by
  obtain ⟨E, M⟩ := hcons
  rw [hs.w_high, hs.w_low, energyFlux_eq_iff hvp hvm] at E
  rw [hs.w_high, hs.w_low, momentumFlux_eq_iff hvp hvm] at M
  have hdet : (1 - vp ^ 2) * (1 - vm ^ 2) ≠ 0 :=
    mul_ne_zero (one_sub_sq_ne_zero hvp) (one_sub_sq_ne_zero hvm)
  have h : (1 - vp ^ 2) * (1 - vm ^ 2) * (s.pHighT Tp - s.pLowT Tm) = 0 := by
    rw [hC] at E M
    linear_combination (-(vp + vm)) * E + (1 + vp * vm) * M
  have hp : s.pHighT Tp - s.pLowT Tm = 0 := (mul_eq_zero.mp h).resolve_left hdet
  have h0 : (vpvmAndvpovm s Tp Tm).1 = 0 := by
    rw [vpvmAndvpovm_fst_degenerate s Tp Tm hC, hp, zero_mul]
  exact ⟨h0, by rw [h0]; exact mul_ne_zero hvp0 hvm0⟩

/-- **T02.1b** The residual of `matchDeflagOrHyb.matching` (prescribed `v₊`) vanishes iff
`v₊v₋·(v₊/v₋) = v₊²` and `v₊v₋/(v₊/v₋) = min(vw², cs²(T₋))`: the positive rescaling factor `c ≥ 16`
does not change the zero set.  No hypotheses.  (C02, "matching solutions conserve the fluxes".) -/
theorem matchingVp_zero_iff (s : HydroP) (m : ℝ × ℝ) (vw vp : ℝ) (Tpm0 : ℝ × ℝ) :
    matchingVp s m vw vp Tpm0 = (0, 0) ↔
      (vpvmAndvpovm s (inverseMappingT s m).1 (inverseMappingT s m).2).1 *
          (vpvmAndvpovm s (inverseMappingT s m).1 (inverseMappingT s m).2).2 = vp ^ 2 ∧
      (vpvmAndvpovm s (inverseMappingT s m).1 (inverseMappingT s m).2).1 /
          (vpvmAndvpovm s (inverseMappingT s m).1 (inverseMappingT s m).2).2 =
        pmin (vw ^ 2) (s.csqLowT (inverseMappingT s m).2) := by
  rw [matchingVp_eq]
  exact pair_mul_eq_zero_iff (scaleC_pos _ _).ne'

/-- **T02.1b (LTE variant)** Same for the residual with `v₊²` fixed by entropy conservation
(`vpsqLTE T₊ T₋ v₋² = (T₋² - T₊²(1 - v₋²))/T₋²`). -/
theorem matchingLTE_zero_iff (s : HydroP) (m : ℝ × ℝ) (vw : ℝ) (Tpm0 : ℝ × ℝ) :
    matchingLTE s m vw Tpm0 = (0, 0) ↔
      (vpvmAndvpovm s (inverseMappingT s m).1 (inverseMappingT s m).2).1 *
          (vpvmAndvpovm s (inverseMappingT s m).1 (inverseMappingT s m).2).2 =
        vpsqLTE (inverseMappingT s m).1 (inverseMappingT s m).2
          (pmin (vw ^ 2) (s.csqLowT (inverseMappingT s m).2)) ∧
      (vpvmAndvpovm s (inverseMappingT s m).1 (inverseMappingT s m).2).1 /
          (vpvmAndvpovm s (inverseMappingT s m).1 (inverseMappingT s m).2).2 =
        pmin (vw ^ 2) (s.csqLowT (inverseMappingT s m).2) := by
  rw [matchingLTE_eq]
  exact pair_mul_eq_zero_iff (scaleC_pos _ _).ne'

/-- The rescaling factor is bounded below by 16 whatever the arguments (Lean's `x/0 = 0`
included), so it can never create or destroy a root. -/
theorem matching_scale_ge (Tpm Tpm0 : ℝ × ℝ) : 16 ≤ scaleC Tpm Tpm0 := scaleC_ge Tpm Tpm0

/-- **T02.1b + T02.1** A root of the `matchDeflagOrHyb` residual (prescribed `v₊`) *with positive
`v₊/v₋`* is exactly a flux-conserving state.  Here `(Tp, Tm)` are the temperatures the residual is
evaluated at and `vm` is the positive square root of `min(vw², cs²(T₋))`.
The sign condition `0 < vpovm` is forced: the squared system also has the spurious solution branch
`vpvm < 0, vpovm < 0` (`Lemmas.Hydro.sq_system_spurious`), which the code does not exclude. -/
theorem matchingVp_zero_iff_conservation (s : HydroP) (hs : EOSOK s) (m : ℝ × ℝ)
    (vw vp vm Tp Tm : ℝ) (Tpm0 : ℝ × ℝ)
    (hT : inverseMappingT s m = (Tp, Tm))
    (hvp0 : 0 < vp) (hvp1 : vp < 1) (hvm0 : 0 < vm) (hvm1 : vm < 1)
    (hvm : vm ^ 2 = pmin (vw ^ 2) (s.csqLowT Tm))
    (hC : s.eHighT Tp ≠ s.eLowT Tm) (hD : s.eHighT Tp + s.pLowT Tm ≠ 0) :
    (matchingVp s m vw vp Tpm0 = (0, 0) ∧ 0 < (vpvmAndvpovm s Tp Tm).2) ↔
      Conservation s vp vm Tp Tm := by
  rw [matchingVp_zero_iff, hT, ← hvm, and_assoc, sq_system_iff hvp0 hvm0]
  exact junction_iff_conservation_physical s hs Tp Tm vp vm hvp0 hvp1 hvm0 hvm1 hC hD

/-- **T02.1b + T02.1 (LTE)** A root of the LTE residual with positive `v₊/v₋` is exactly a
flux-conserving state whose `v₊` is the entropy-conserving one (`vp² = vpsqLTE Tp Tm vm²`). -/
theorem matchingLTE_zero_iff_conservation (s : HydroP) (hs : EOSOK s) (m : ℝ × ℝ)
    (vw vp vm Tp Tm : ℝ) (Tpm0 : ℝ × ℝ)
    (hT : inverseMappingT s m = (Tp, Tm))
    (hvp0 : 0 < vp) (hvp1 : vp < 1) (hvm0 : 0 < vm) (hvm1 : vm < 1)
    (hvm : vm ^ 2 = pmin (vw ^ 2) (s.csqLowT Tm))
    (hvp : vp ^ 2 = vpsqLTE Tp Tm (vm ^ 2))
    (hC : s.eHighT Tp ≠ s.eLowT Tm) (hD : s.eHighT Tp + s.pLowT Tm ≠ 0) :
    (matchingLTE s m vw Tpm0 = (0, 0) ∧ 0 < (vpvmAndvpovm s Tp Tm).2) ↔
      Conservation s vp vm Tp Tm := by
  rw [matchingLTE_zero_iff, hT, ← hvm, ← hvp, and_assoc, sq_system_iff hvp0 hvm0]
  exact junction_iff_conservation_physical s hs Tp Tm vp vm hvp0 hvp1 hvm0 hvm1 hC hD

/-- Non-vacuity of `matchingVp_zero_iff_conservation`: bag model `(63, 45, 2)`, mapped temperatures
`(0,0) ↦ (T₊,T₋) = (1,1)`, deflagration `vw = v₋ = 1/2 < 1/√3`, `v₊ = 2/5`: all hypotheses hold and
the residual is `(0,0)`. -/
example : ∃ (s : HydroP) (m : ℝ × ℝ) (vw vp vm Tp Tm : ℝ) (Tpm0 : ℝ × ℝ), EOSOK s ∧
    inverseMappingT s m = (Tp, Tm) ∧ 0 < vp ∧ vp < 1 ∧ 0 < vm ∧ vm < 1 ∧
    vm ^ 2 = pmin (vw ^ 2) (s.csqLowT Tm) ∧
    s.eHighT Tp ≠ s.eLowT Tm ∧ s.eHighT Tp + s.pLowT Tm ≠ 0 ∧
    matchingVp s m vw vp Tpm0 = (0, 0) ∧ 0 < (vpvmAndvpovm s Tp Tm).2 := by
  refine ⟨bag 63 45 2, (0, 0), 1 / 2, 2 / 5, 1 / 2, 1, 1, (1, 1), bag_EOSOK _ _ _,
    bag_inverseMappingT_zero _ _ _, by norm_num, by norm_num, by norm_num, by norm_num,
    ?_, by simp [bag]; norm_num, by simp [bag]; norm_num, ?_, ?_⟩
  · simp [pmin, bag]; norm_num
  · rw [matchingVp_zero_iff, bag_inverseMappingT_zero]
    constructor
    · simp [vpvmAndvpovm, bag]; norm_num
    · simp [vpvmAndvpovm, pmin, bag]; norm_num
  · simp [vpvmAndvpovm, bag]; norm_num

/-- **T02.2 (detonation)** If `T₋` is a root of the residual `tmFromvpsq` that `matchDeton` hands to
`brentq` (called, as in the code, with `eHighT := wHighT(Tp) - pHighT(Tp)`), then the tuple returned by
`matchDeton` has `v₊ = vw`, `T₊ = Tn` unchanged, `0 < v₋`, and conserves energy and momentum flux.
Hypotheses forced by the proof: `0 < vp`, `vp ≠ 1` (for `vp = 1` the code returns `vm = 1`, where
`γ²` is infinite), `e₊ ≠ e₋`, `0 < v₊/v₋` as computed by `vpvmAndvpovm` (this makes the argument of the
square root positive and selects the physical sign) and `vpvm ≠ vpovm` (i.e. `v₋ ≠ 1`). -/
theorem matchDeton_conservation (s : HydroP) (hs : EOSOK s) (vp Tp Tm : ℝ)
    (hvp0 : 0 < vp) (hvp1 : vp ≠ 1)
    (hC : s.eHighT Tp ≠ s.eLowT Tm)
    (hpos : 0 < (vpvmAndvpovm s Tp Tm).2)
    (hne : (vpvmAndvpovm s Tp Tm).1 ≠ (vpvmAndvpovm s Tp Tm).2)
    (hres : tmFromvpsq s vp (s.pHighT Tp) (s.wHighT Tp - s.pHighT Tp) Tm = 0) :
    (matchDetonPost s vp Tp Tm).1 = vp ∧ (matchDetonPost s vp Tp Tm).2.2.1 = Tp ∧
    (matchDetonPost s vp Tp Tm).2.2.2 = Tm ∧ 0 < (matchDetonPost s vp Tp Tm).2.1 ∧
    (matchDetonPost s vp Tp Tm).2.1 ^ 2 = (vpvmAndvpovm s Tp Tm).1 / (vpvmAndvpovm s Tp Tm).2 ∧
    Conservation s vp (matchDetonPost s vp Tp Tm).2.1 Tp Tm := by
  rw [matchDetonPost_eq]
  simp only [if_neg hvp1]
  refine ⟨trivial, trivial, trivial, ?_⟩
  set a := (vpvmAndvpovm s Tp Tm).1 with ha
  set b := (vpvmAndvpovm s Tp Tm).2 with hb
  have hD : s.eHighT Tp + s.pLowT Tm ≠ 0 := by
    intro h0
    rw [hb, vpvmAndvpovm_snd, h0, div_zero] at hpos
    exact lt_irrefl _ hpos
  have hC' : s.eHighT Tp - s.eLowT Tm ≠ 0 := sub_ne_zero.mpr hC
  -- the residual says `vp² = a b`
  have hab : a * b = vp ^ 2 := by
    rw [tmFromvpsq_eq, hs.w_high, hs.w_low] at hres
    rw [ha, hb, vpvmAndvpovm_fst s Tp Tm hC, vpvmAndvpovm_snd]
    have e1 : s.eHighT Tp + s.pHighT Tp - s.pHighT Tp = s.eHighT Tp := by ring
    have e2 : s.eLowT Tm + s.pLowT Tm - s.pLowT Tm = s.eLowT Tm := by ring
    rw [e1, e2] at hres
    field_simp
    field_simp at hres
    linear_combination -hres
  have hapos : 0 < a := by
    have : 0 < a * b := by rw [hab]; positivity
    exact (pos_iff_pos_of_mul_pos this).mpr hpos
  have hq : 0 < a / b := div_pos hapos hpos
  have hvm0 : 0 < Real.sqrt (a / b) := Real.sqrt_pos.mpr hq
  have hvmsq : Real.sqrt (a / b) ^ 2 = a / b := Real.sq_sqrt hq.le
  have hvm1 : Real.sqrt (a / b) ^ 2 ≠ 1 := by
    rw [hvmsq]; intro h; exact hne ((div_eq_one_iff_eq hpos.ne').mp h)
  have hvp : vp ^ 2 ≠ 1 := by
    intro h
    have : vp = 1 := by
      have := (pow_left_inj₀ hvp0.le (by norm_num : (0:ℝ) ≤ 1) (by norm_num : 2 ≠ 0)).mp
        (by rw [h]; norm_num : vp ^ 2 = 1 ^ 2)
      exact this
    exact hvp1 this
  refine ⟨hvm0, hvmsq, ?_⟩
  have hj := (sq_system_iff hvp0 hvm0).mp ⟨hab, hvmsq.symm, hpos⟩
  exact (junction_iff_conservation s hs Tp Tm vp _ hvp hvm1 hvm0.ne' hC hD).mp hj

/-- Non-vacuity of T02.2: bag model `(81/4, 48, 11/4)`, `T₊ = T₋ = 1`, `v₊ = 4/5` (then `v₋ = 3/5`,
`vpvm = 12/25`, `vpovm = 4/3`): the residual vanishes and all hypotheses hold. -/
example : ∃ (s : HydroP) (vp Tp Tm : ℝ), EOSOK s ∧ 0 < vp ∧ vp ≠ 1 ∧
    s.eHighT Tp ≠ s.eLowT Tm ∧ 0 < (vpvmAndvpovm s Tp Tm).2 ∧
    (vpvmAndvpovm s Tp Tm).1 ≠ (vpvmAndvpovm s Tp Tm).2 ∧
    tmFromvpsq s vp (s.pHighT Tp) (s.wHighT Tp - s.pHighT Tp) Tm = 0 := by
  refine ⟨bag (81 / 4) 48 (11 / 4), 4 / 5, 1, 1, bag_EOSOK _ _ _, by norm_num, by norm_num,
    by simp [bag]; norm_num, by simp [vpvmAndvpovm, bag]; norm_num,
    by simp [vpvmAndvpovm, bag]; norm_num, by simp [tmFromvpsq, bag]; norm_num⟩

/-- **T02.3 (boundary constants)** `findHydroBoundaries` returns `c1 = -(energy flux in front)`,
`c2 = momentum flux in front`, the temperatures unchanged and `velocityMid = -(v₊+v₋)/2`
(the minus signs are the documented convention change: in the wall equations the fluid moves in the
negative direction).  No hypotheses. -/
theorem hydroBoundaries_spec (s : HydroP) (vp vm Tp Tm : ℝ) :
    (hydroBoundaries s vp vm Tp Tm).1 = -energyFlux (s.wHighT Tp) vp ∧
    (hydroBoundaries s vp vm Tp Tm).2.1 = momentumFlux (s.wHighT Tp) (s.pHighT Tp) vp ∧
    (hydroBoundaries s vp vm Tp Tm).2.2.1 = Tp ∧
    (hydroBoundaries s vp vm Tp Tm).2.2.2.1 = Tm ∧
    (hydroBoundaries s vp vm Tp Tm).2.2.2.2 = -(vp + vm) / 2 := by
  rw [hydroBoundaries_eq]
  refine ⟨?_, ?_, rfl, rfl, ?_⟩
  · simp only [energyFlux]; ring
  · simp only [momentumFlux]; ring
  · simp only; ring

/-- **T02.3 (both sides)** If the matching state conserves the fluxes then the two constants are
also minus the energy flux / the momentum flux *behind* the wall.  (C02, clause "the two boundary
constants … equal those fluxes on both sides".) -/
theorem hydroBoundaries_both_sides (s : HydroP) (vp vm Tp Tm : ℝ)
    (hcons : Conservation s vp vm Tp Tm) :
    (hydroBoundaries s vp vm Tp Tm).1 = -energyFlux (s.wLowT Tm) vm ∧
    (hydroBoundaries s vp vm Tp Tm).2.1 = momentumFlux (s.wLowT Tm) (s.pLowT Tm) vm := by
  obtain ⟨h1, h2, -⟩ := hydroBoundaries_spec s vp vm Tp Tm
  rw [h1, h2, hcons.1, hcons.2]
  exact ⟨rfl, rfl⟩

/-- Non-vacuity of T02.3: the bag-model state of the first example is conserving, and its
constants are `c1 = -40`, `c2 = 35`, `velocityMid = -9/20`. -/
example : Conservation (bag 63 45 2) (2 / 5) (1 / 2) 1 1 ∧
    hydroBoundaries (bag 63 45 2) (2 / 5) (1 / 2) 1 1 = (-40, 35, 1, 1, -9 / 20) := by
  constructor
  · constructor <;> (simp [energyFlux, momentumFlux, gammaSq, bag]; norm_num)
  · simp [hydroBoundaries, gammaSq, bag]; norm_num

/-- **T02.2 + T02.3** End-to-end for detonations: the constants computed from the `matchDeton` tuple
equal the fluxes on both sides. -/
theorem matchDeton_boundaries (s : HydroP) (hs : EOSOK s) (vp Tp Tm : ℝ)
    (hvp0 : 0 < vp) (hvp1 : vp ≠ 1)
    (hC : s.eHighT Tp ≠ s.eLowT Tm)
    (hpos : 0 < (vpvmAndvpovm s Tp Tm).2)
    (hne : (vpvmAndvpovm s Tp Tm).1 ≠ (vpvmAndvpovm s Tp Tm).2)
    (hres : tmFromvpsq s vp (s.pHighT Tp) (s.wHighT Tp - s.pHighT Tp) Tm = 0) :
    (hydroBoundaries s vp (matchDetonPost s vp Tp Tm).2.1 Tp Tm).1
        = -energyFlux (s.wLowT Tm) (matchDetonPost s vp Tp Tm).2.1 ∧
    (hydroBoundaries s vp (matchDetonPost s vp Tp Tm).2.1 Tp Tm).2.1
        = momentumFlux (s.wLowT Tm) (s.pLowT Tm) (matchDetonPost s vp Tp Tm).2.1 :=
  hydroBoundaries_both_sides s vp _ Tp Tm
    (matchDeton_conservation s hs vp Tp Tm hvp0 hvp1 hC hpos hne hres).2.2.2.2.2

end Props.C02
