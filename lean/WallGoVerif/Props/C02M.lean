/-
C02M — decision logic of `Hydrodynamics.findMatching` (hydrodynamics.py:700-791).

`Model.Matching.findMatching` is a hand model of that method (executed at `Float` against the real method with
scripted stubs: exact agreement on all branches).  Here it is reasoned about over `ℝ` (`zero := 0`, `one := 1`).

Reading guide.  For `p : Phys ℝ`, `o : Oracles ℝ`:
* `D p`                      is `shockTnuclDiff`,          `S p vw` is `solveVpmax`;
* `min vw (p.csqHighTn / vw)` is the first guess `vpmax` of line 731 (sound speed at `Tn`);
* `upperBound p o 0 vw vLow = (dmin, vpmax, dmax, events)` is the state after lines 737-756
  (`.1 = shockTnuclDiffMin`, `.2.1 = vpmax`, `.2.2.1 = shockTnuclDiffMax`, `.2.2.2 = solver calls so far`);
* `o.minim (sgn 0 1 dmax) vLow vpmax = (extremum.x, extremum.fun)` is the `minimize_scalar` call of line 766;
* `findMatching p o 0 1 eps vw vJ vJt vLow = (outcome, list of solver calls)`; `eps` is the `1e-6` of line 778,
  `vJt` is `template.vJ`, `vLow` is `vBracketLow`.
Oracle contracts `RootOK`, `MinimOK` are defined in `Lemmas/Matching.lean`; they appear only as hypotheses.
-/
import Mathlib.Tactic
import Mathlib.Data.Real.Basic
import WallGoVerif.Model.Matching
import WallGoVerif.Lemmas.Matching

namespace Props.C02M

open Model.Matching Lemmas.Matching

variable (p : Phys ℝ) (o : Oracles ℝ) (eps vw vJ vJt vLow : ℝ)

/-! ### T1 — detonation branch -/

/-- **T1.** `findMatching` delegates to `matchDeton` exactly when `vw > vJ` (line 721); in every other case one of
the two deflagration/hybrid outcomes is produced. -/
theorem detonation_iff :
    (findMatching p o 0 1 eps vw vJ vJt vLow).1 = .detonation ↔ vJ < vw := by
  rw [findMatching_eq]
  split_ifs with h <;> simp [h]

/-- T1, discriminator form. -/
theorem isDetonation_iff' :
    (findMatching p o 0 1 eps vw vJ vJt vLow).1.isDetonation ↔ vJ < vw := by
  rw [isDetonation_iff]; exact detonation_iff p o eps vw vJ vJt vLow

/-- In the detonation branch no solver is called. -/
theorem detonation_no_events (h : vJ < vw) :
    findMatching p o 0 1 eps vw vJ vJt vLow = (.detonation, []) := by
  rw [findMatching_eq, if_pos h]

/-- non-vacuity: both sides of T1 occur -/
example : ∃ vJ vw : ℝ, vJ < vw := ⟨1/2, 3/4, by norm_num⟩
example : ∃ vJ vw : ℝ, ¬ vJ < vw := ⟨3/4, 1/2, by norm_num⟩

/-! ### T2 — a sign change on the first bracket is used as is -/

/-- **T2.** If (not a detonation and) `shockTnuclDiff` already changes sign between `vBracketLow` and the first guess
`vpmax = min(vw, csq(Tn)/vw)`, then the model's own equation of state is used, the root finder is called with exactly
that bracket, and nothing else is called (no re-evaluation of `vpmax`, no minimiser, no template). -/
theorem exact_when_bracketed (hdet : ¬ vJ < vw)
    (h : D p vLow * D p (min vw (p.csqHighTn / vw)) ≤ 0) :
    findMatching p o 0 1 eps vw vJ vJt vLow =
      (.root (o.rootD vLow (min vw (p.csqHighTn / vw))),
        [Event.rootD vLow (min vw (p.csqHighTn / vw))]) := by
  rw [findMatching_eq, if_neg hdet, upperBound_not_refined o (not_refined_of_bracketed h)]
  simp only [if_pos h, List.nil_append]

/-- non-vacuity of T2: instance A (`D v = v - 1/4`, `vw = 1/2`, `vJ = 3/4`, `vLow = 1/100`) -/
example : ¬ ((3/4 : ℝ) < 1/2) ∧ D pA (1/100) * D pA (min (1/2) (pA.csqHighTn / (1/2))) ≤ 0 := by
  simp only [pA, D_mkPhys, csqHighTn_mkPhys]
  norm_num [linD]

/-! ### T3, T10 — when the template approximation is used -/

/-- **T3 (characterisation).** The outcome is the template approximation if and only if: not a detonation, no sign
change between `vBracketLow` and the (possibly re-evaluated) upper bound, and the bounded minimiser reported a
strictly positive extremum of `sgn(dmax)·shockTnuclDiff`. -/
theorem isTemplate_iff' :
    (findMatching p o 0 1 eps vw vJ vJt vLow).1.isTemplate ↔
      ¬ vJ < vw ∧
      0 < (upperBound p o 0 vw vLow).1 * (upperBound p o 0 vw vLow).2.2.1 ∧
      0 < (o.minim (sgn 0 1 (upperBound p o 0 vw vLow).2.2.1) vLow (upperBound p o 0 vw vLow).2.1).2 := by
  rw [findMatching_eq]
  split_ifs with h1 h2 h3
  · simp [h1]
  · simp [h1, not_lt.mpr h2]
  · simp [h1, not_le.mp h2, h3]
  · simp [h3]

/-- **T3.** The approximate template matching is used ONLY when there is no sign change between `vBracketLow` and the
refined upper bound and the bounded minimiser reported a positive extremum of `σ·shockTnuclDiff`. -/
theorem template_only_if {v : ℝ} (h : (findMatching p o 0 1 eps vw vJ vJt vLow).1 = .template v) :
    0 < (upperBound p o 0 vw vLow).1 * (upperBound p o 0 vw vLow).2.2.1 ∧
      0 < (o.minim (sgn 0 1 (upperBound p o 0 vw vLow).2.2.1) vLow (upperBound p o 0 vw vLow).2.1).2 :=
  ((isTemplate_iff' p o eps vw vJ vJt vLow).mp ((isTemplate_iff _).mpr ⟨v, h⟩)).2

/-- non-vacuity of T3, T4, T8 (hypothesis "the outcome is a template"): instance C -/
example : (findMatching pC oC 0 1 (1/1000000) (1/2) (3/4) (7/10) (1/100)).1 = .template (1/2) := by
  rw [fmC]

/-- **T10.** If `shockTnuclDiff(vBracketLow)` and `shockTnuclDiffMax` (at the refined bound) do not have the same
strict sign, the template approximation is not used. -/
theorem sign_change_implies_not_template
    (h : D p vLow * (upperBound p o 0 vw vLow).2.2.1 ≤ 0) :
    ¬ (findMatching p o 0 1 eps vw vJ vJt vLow).1.isTemplate := by
  intro ht
  have h1 := ((isTemplate_iff' p o eps vw vJ vJt vLow).mp ht).2.1
  rw [upperBound_fst] at h1
  exact absurd h1 (not_lt.mpr h)

/-- non-vacuity of T10: instance B (sign change only after `vpmax` was re-evaluated) -/
example : D pB (1/100) * (upperBound pB oB 0 (2/3) (1/100)).2.2.1 ≤ 0 := by
  rw [ubB]; simp only [pB, D_mkPhys]; norm_num [linD]

/-! ### T4, T5 — the minimiser branch -/

/-- **T4.** Under the minimal contract of the bounded minimiser, a template outcome means that no sign change was
seen at any of the three points that were looked at: `shockTnuclDiff` has the same strict sign at `vBracketLow`, at
the refined upper bound and at the point returned by the minimiser. -/
theorem template_means_no_sign_change_seen (hM : MinimOK (D p) o.minim)
    (hle : vLow ≤ (upperBound p o 0 vw vLow).2.1)
    (h : (findMatching p o 0 1 eps vw vJ vJt vLow).1.isTemplate) :
    (0 < D p vLow ∧ 0 < D p (upperBound p o 0 vw vLow).2.1 ∧
        0 < D p (o.minim (sgn 0 1 (upperBound p o 0 vw vLow).2.2.1) vLow (upperBound p o 0 vw vLow).2.1).1) ∨
      (D p vLow < 0 ∧ D p (upperBound p o 0 vw vLow).2.1 < 0 ∧
        D p (o.minim (sgn 0 1 (upperBound p o 0 vw vLow).2.2.1) vLow (upperBound p o 0 vw vLow).2.1).1 < 0) := by
  obtain ⟨-, h1, h2⟩ := (isTemplate_iff' p o eps vw vJ vJt vLow).mp h
  rw [(hM _ _ _ hle).2.2] at h2
  rw [upperBound_fst] at h1
  rw [upperBound_dmax] at h1 h2 ⊢
  exact same_sign_of_pos h1 h2

/-- non-vacuity of T4: instance C satisfies the contract and the ordering hypothesis -/
example : MinimOK (D pC) oC.minim ∧ (1/100 : ℝ) ≤ (upperBound pC oC 0 (1/2) (1/100)).2.1 ∧
    (findMatching pC oC 0 1 (1/1000000) (1/2) (3/4) (7/10) (1/100)).1.isTemplate := by
  refine ⟨minimOK_mkPhys_left quadD _ _, ?_, ?_⟩
  · rw [ubC]; norm_num
  · rw [fmC]; trivial

/-- **T5.** In the branch where the minimiser's value is non-positive, the final `root_scalar` call of line 783
receives a valid bracket: `shockTnuclDiff(vBracketLow)·shockTnuclDiff(extremum.x) ≤ 0` (so it cannot raise
"f(a) and f(b) must have different signs"). -/
theorem minim_bracket_valid (hM : MinimOK (D p) o.minim)
    (hle : vLow ≤ (upperBound p o 0 vw vLow).2.1)
    (h1 : 0 < (upperBound p o 0 vw vLow).1 * (upperBound p o 0 vw vLow).2.2.1)
    (h2 : (o.minim (sgn 0 1 (upperBound p o 0 vw vLow).2.2.1) vLow (upperBound p o 0 vw vLow).2.1).2 ≤ 0) :
    D p vLow *
      D p (o.minim (sgn 0 1 (upperBound p o 0 vw vLow).2.2.1) vLow (upperBound p o 0 vw vLow).2.1).1 ≤ 0 := by
  rw [(hM _ _ _ hle).2.2] at h2
  rw [upperBound_fst] at h1
  exact bracket_of_nonpos h1 h2

/-- non-vacuity of T5: instance E (minimiser returns `5/16`, inside the dip of the quadratic) -/
example : MinimOK (D pC) oE.minim ∧ (1/100 : ℝ) ≤ (upperBound pC oE 0 (1/2) (1/100)).2.1 ∧
    0 < (upperBound pC oE 0 (1/2) (1/100)).1 * (upperBound pC oE 0 (1/2) (1/100)).2.2.1 ∧
    (oE.minim (sgn 0 1 (upperBound pC oE 0 (1/2) (1/100)).2.2.1) (1/100)
      (upperBound pC oE 0 (1/2) (1/100)).2.1).2 ≤ 0 := by
  refine ⟨minimOK_mkPhys_clamp quadD _ _ _, ?_, ?_, ?_⟩
  · rw [ubC]; norm_num
  · rw [ubC]; norm_num
  · rw [ubC]
    have hs : sgn (0:ℝ) 1 (1/32) = 1 := sgn_of_pos (by norm_num)
    simp only [hs]
    norm_num [oE, mkOracles, clampMinim, quadD]

/-- **T5, call-level form.** Every `root_scalar(shockTnuclDiff, bracket=[a, b])` call that `findMatching` makes
receives a bracket with `shockTnuclDiff(a)·shockTnuclDiff(b) ≤ 0`. -/
theorem rootD_calls_valid (hM : MinimOK (D p) o.minim)
    (hle : vLow ≤ (upperBound p o 0 vw vLow).2.1) {a b : ℝ}
    (hmem : Event.rootD a b ∈ (findMatching p o 0 1 eps vw vJ vJt vLow).2) :
    D p a * D p b ≤ 0 := by
  have hev : Event.rootD a b ∉ (upperBound p o 0 vw vLow).2.2.2 := by
    rcases upperBound_vpmax_cases p o vw vLow with ⟨-, -, he⟩ | ⟨-, -, he⟩ <;> (rw [he]; simp)
  rw [findMatching_eq] at hmem
  split_ifs at hmem with h1 h2 h3
  · simp at hmem
  · simp only [List.mem_append, List.mem_singleton, Event.rootD.injEq, hev, false_or] at hmem
    obtain ⟨ha, hb⟩ := hmem
    rw [upperBound_fst, upperBound_dmax] at h2
    rw [ha, hb]
    exact h2
  · simp [hev] at hmem
  · simp only [List.mem_append, List.mem_singleton, Event.rootD.injEq, hev, false_or, reduceCtorEq,
      or_false] at hmem
    obtain ⟨ha, hb⟩ := hmem
    rw [ha, hb]
    exact minim_bracket_valid p o vw vLow hM hle (not_le.mp h2) (not_lt.mp h3)

/-- non-vacuity: instance E makes such a call (on `[1/100, 5/16]`) -/
example : Event.rootD (1/100 : ℝ) (5/16) ∈ (findMatching pC oE 0 1 (1/1000000) (1/2) (3/4) (7/10) (1/100)).2 := by
  rw [fmE]; simp

/-- Every `root_scalar(solveVpmax, bracket=[a, b])` call receives an ordered bracket with a sign change. -/
theorem rootS_calls_valid {a b : ℝ}
    (hmem : Event.rootS a b ∈ (findMatching p o 0 1 eps vw vJ vJt vLow).2) :
    a ≤ b ∧ S p vw a * S p vw b ≤ 0 := by
  rw [findMatching_eq] at hmem
  rcases upperBound_vpmax_cases p o vw vLow with ⟨hr, -, he⟩ | ⟨-, -, he⟩
  · have key : a = min vw (p.csqHighTn / vw) ∧ b = vw := by
      rw [he] at hmem
      split_ifs at hmem <;> simp at hmem <;> exact hmem
    obtain ⟨rfl, rfl⟩ := key
    exact ⟨vpmax0_le_vw p _, by rw [mul_comm]; exact hr.2⟩
  · rw [he] at hmem
    split_ifs at hmem <;> simp at hmem

/-- non-vacuity: instance B makes such a call (on `[3/8, 2/3]`) -/
example : Event.rootS (3/8 : ℝ) (2/3) ∈ (findMatching pB oB 0 1 (1/1000000) (2/3) (3/4) (7/10) (1/100)).2 := by
  rw [fmB]; simp

/-! ### T6 — the re-evaluated upper bound -/

/-- **T6a.** Under the root-finder contract for `solveVpmax`, the re-evaluated upper bound only moves UP from the
first guess `min(vw, csq(Tn)/vw)` and never beyond the wall velocity.  (The first guess itself is `≤ vw`:
`Lemmas.Matching.vpmax0_le_vw`.) -/
theorem refined_bound_range (hS : RootOK (S p vw) o.rootS) :
    min vw (p.csqHighTn / vw) ≤ (upperBound p o 0 vw vLow).2.1 ∧ (upperBound p o 0 vw vLow).2.1 ≤ vw :=
  upperBound_vpmax_range vLow hS

/-- **T6b.** In the refined case (no sign change on the first bracket, sign change of `solveVpmax` on
`[vpmax₀, vw]`) the new upper bound solves `vpmax = csqHigh(T₊(vpmax))/vw`: the sound speed is evaluated at `T₊`
rather than `Tn`; exactly one `rootS` call on `[vpmax₀, vw]` was made. -/
theorem refined_bound_solves (hS : RootOK (S p vw) o.rootS)
    (hr : 0 < D p vLow * D p (min vw (p.csqHighTn / vw)) ∧
      S p vw vw * S p vw (min vw (p.csqHighTn / vw)) ≤ 0) :
    S p vw (upperBound p o 0 vw vLow).2.1 = 0 ∧
      (upperBound p o 0 vw vLow).2.1 = p.csqHigh (p.tp (upperBound p o 0 vw vLow).2.1) / vw ∧
      (upperBound p o 0 vw vLow).2.2.2 = [Event.rootS (min vw (p.csqHighTn / vw)) vw] := by
  have h0 : S p vw (upperBound p o 0 vw vLow).2.1 = 0 := by
    rw [upperBound_refined o hr]
    exact (hS _ _ (vpmax0_le_vw p vw) (by rw [mul_comm]; exact hr.2)).2.2
  refine ⟨h0, ?_, ?_⟩
  · unfold S at h0; linarith
  · rw [upperBound_refined o hr]

/-- **T6c.** Outside the refined case the upper bound is the first guess and no `rootS` call is made. -/
theorem unrefined_bound
    (hr : ¬ (0 < D p vLow * D p (min vw (p.csqHighTn / vw)) ∧
      S p vw vw * S p vw (min vw (p.csqHighTn / vw)) ≤ 0)) :
    (upperBound p o 0 vw vLow).2.1 = min vw (p.csqHighTn / vw) ∧ (upperBound p o 0 vw vLow).2.2.2 = [] := by
  rw [upperBound_not_refined o hr]; exact ⟨rfl, rfl⟩

/-- non-vacuity of T6a/T6b: instance B (`csq(Tn) = 1/4 < csq(T₊) = 1/3`, `vw = 2/3`): the contract holds, the refined
case occurs and the bound moves from `3/8` up to `1/2` -/
example : RootOK (S pB (2/3)) oB.rootS ∧
    (0 < D pB (1/100) * D pB (min (2/3) (pB.csqHighTn / (2/3))) ∧
      S pB (2/3) (2/3) * S pB (2/3) (min (2/3) (pB.csqHighTn / (2/3))) ≤ 0) ∧
    min (2/3) (pB.csqHighTn / (2/3)) = 3/8 ∧ (upperBound pB oB 0 (2/3) (1/100)).2.1 = 1/2 := by
  refine ⟨rootOK_S_mkPhys _ _ _ _ _ _, refinedB, ?_, ?_⟩
  · simp only [pB, csqHighTn_mkPhys]; norm_num
  · rw [ubB]

/-- non-vacuity of T6c: instance A -/
example : ¬ (0 < D pA (1/100) * D pA (min (1/2) (pA.csqHighTn / (1/2))) ∧
      S pA (1/2) (1/2) * S pA (1/2) (min (1/2) (pA.csqHighTn / (1/2))) ≤ 0) := by
  simp only [pA, D_mkPhys, S_mkPhys, csqHighTn_mkPhys]
  norm_num [linD]

/-! ### T7 — a root outcome is an exact matching -/

/-- **T7.** With ideal root finders, a contract-respecting minimiser and `vBracketLow ≤ vpmax₀`: whenever the model's
own equation of state is used (`.root vp`), the returned `v₊` makes the shock integration arrive exactly at the
nucleation temperature (`shockTnuclDiff vp = 0`) and lies in `[vBracketLow, vw]`. -/
theorem root_outcome_solves (hD : RootOK (D p) o.rootD) (hS : RootOK (S p vw) o.rootS)
    (hM : MinimOK (D p) o.minim) (hlow : vLow ≤ min vw (p.csqHighTn / vw)) {vp : ℝ}
    (h : (findMatching p o 0 1 eps vw vJ vJt vLow).1 = .root vp) :
    D p vp = 0 ∧ vLow ≤ vp ∧ vp ≤ vw := by
  obtain ⟨hr1, hr2⟩ := upperBound_vpmax_range (p := p) (o := o) vLow hS
  have hle : vLow ≤ (upperBound p o 0 vw vLow).2.1 := hlow.trans hr1
  rw [findMatching_eq] at h
  by_cases h1 : vJ < vw
  · rw [if_pos h1] at h; simp at h
  rw [if_neg h1] at h
  by_cases h2 : (upperBound p o 0 vw vLow).1 * (upperBound p o 0 vw vLow).2.2.1 ≤ 0
  · rw [if_pos h2] at h
    simp only [Outcome.root.injEq] at h
    subst h
    rw [upperBound_fst, upperBound_dmax] at h2
    obtain ⟨ha, hb, hz⟩ := hD _ _ hle h2
    exact ⟨hz, ha, hb.trans hr2⟩
  rw [if_neg h2] at h
  by_cases h3 :
      0 < (o.minim (sgn 0 1 (upperBound p o 0 vw vLow).2.2.1) vLow (upperBound p o 0 vw vLow).2.1).2
  · rw [if_pos h3] at h; simp at h
  rw [if_neg h3] at h
  simp only [Outcome.root.injEq] at h
  subst h
  have hbr := minim_bracket_valid p o vw vLow hM hle (not_le.mp h2) (not_lt.mp h3)
  obtain ⟨hx1, hx2, -⟩ := hM (sgn 0 1 (upperBound p o 0 vw vLow).2.2.1) vLow _ hle
  obtain ⟨ha, hb, hz⟩ := hD _ _ hx1 hbr
  exact ⟨hz, ha, hb.trans (hx2.trans hr2)⟩

/-- non-vacuity of T7: instance B satisfies all four hypotheses and produces a root outcome (`v₊ = 7/16`) -/
example : RootOK (D pB) oB.rootD ∧ RootOK (S pB (2/3)) oB.rootS ∧ MinimOK (D pB) oB.minim ∧
    (1/100 : ℝ) ≤ min (2/3) (pB.csqHighTn / (2/3)) ∧
    (findMatching pB oB 0 1 (1/1000000) (2/3) (3/4) (7/10) (1/100)).1 = .root (7/16) := by
  refine ⟨rootOK_D_lin _ _ _ _ _, rootOK_S_mkPhys _ _ _ _ _ _, minimOK_mkPhys_left _ _ _, ?_, ?_⟩
  · simp only [pB, csqHighTn_mkPhys]; norm_num
  · rw [fmB]

/-! ### T8 — which wall velocity the template solver is asked about -/

/-- **T8 (value).** The wall velocity handed to the template model is always `min(vw, template.vJ - eps)`.  In
particular the `else` branch of lines 779-780 (`max(vw, template.vJ + eps)`) is never taken: it sits under
`vw ≤ vJ`, which is already implied by not being in the detonation branch. -/
theorem template_value {v : ℝ} (h : (findMatching p o 0 1 eps vw vJ vJt vLow).1 = .template v) :
    v = min vw (vJt - eps) := by
  rw [findMatching_eq] at h
  split_ifs at h
  simp only [Outcome.template.injEq] at h
  exact h.symm

/-- **T8.** For `eps > 0`, the template solver is asked on the deflagration/hybrid side of ITS OWN Jouguet velocity
(`vwTemplate < template.vJ`), with a wall velocity not above the requested one; and the request was not a detonation.
(The hypothesis `¬ vJ < vw` of the requested statement is not needed: it follows from the outcome.) -/
theorem template_side (heps : 0 < eps) {v : ℝ}
    (h : (findMatching p o 0 1 eps vw vJ vJt vLow).1 = .template v) :
    v < vJt ∧ v ≤ vw ∧ ¬ vJ < vw := by
  have hv := template_value p o eps vw vJ vJt vLow h
  refine ⟨?_, ?_, ?_⟩
  · rw [hv]; exact lt_of_le_of_lt (min_le_right _ _) (by linarith)
  · rw [hv]; exact min_le_left _ _
  · exact ((isTemplate_iff' p o eps vw vJ vJt vLow).mp ((isTemplate_iff _).mpr ⟨v, h⟩)).1

/-- non-vacuity of T8: instance C with `eps = 1e-6` -/
example : (0 : ℝ) < 1/1000000 ∧
    (findMatching pC oC 0 1 (1/1000000) (1/2) (3/4) (7/10) (1/100)).1 = .template (1/2) := by
  refine ⟨by norm_num, ?_⟩
  rw [fmC]

/-! ### T9 — the possible sequences of solver calls -/

/-- **T9.** At most three solver calls are made, and the sequence of calls has one of seven shapes:
none (detonation), `[rootD]`, `[rootS, rootD]`, `[minim]`, `[rootS, minim]`, `[minim, rootD]`,
`[rootS, minim, rootD]`. -/
theorem events_bounded :
    (findMatching p o 0 1 eps vw vJ vJt vLow).2.length ≤ 3 ∧
      (findMatching p o 0 1 eps vw vJ vJt vLow).2.map Event.kind ∈
        [[], [EvKind.rootD], [EvKind.rootS, EvKind.rootD], [EvKind.minim], [EvKind.rootS, EvKind.minim],
          [EvKind.minim, EvKind.rootD], [EvKind.rootS, EvKind.minim, EvKind.rootD]] := by
  rw [findMatching_eq]
  rcases upperBound_vpmax_cases p o vw vLow with ⟨-, -, he⟩ | ⟨-, -, he⟩ <;> rw [he] <;>
    split_ifs <;> simp

/-- **T9, outcome-wise.** The shape of the call sequence determines and is determined by the outcome: a template
outcome ends with the minimiser call, a root outcome ends with a `rootD` call, a detonation makes no call. -/
theorem events_last :
    ((findMatching p o 0 1 eps vw vJ vJt vLow).1.isDetonation ∧
        (findMatching p o 0 1 eps vw vJ vJt vLow).2 = []) ∨
      ((findMatching p o 0 1 eps vw vJ vJt vLow).1.isRoot ∧
        ((findMatching p o 0 1 eps vw vJ vJt vLow).2.map Event.kind).getLast? = some EvKind.rootD) ∨
      ((findMatching p o 0 1 eps vw vJ vJt vLow).1.isTemplate ∧
        ((findMatching p o 0 1 eps vw vJ vJt vLow).2.map Event.kind).getLast? = some EvKind.minim) := by
  rw [findMatching_eq]
  split_ifs <;> simp

/-- non-vacuity: five of the shapes are realised by instances A, B, C, E and by a detonation -/
example : (findMatching pA oA 0 1 (1/1000000) (1/2) (3/4) (7/10) (1/100)).2.map Event.kind = [EvKind.rootD] := by
  rw [fmA]; rfl
example : (findMatching pB oB 0 1 (1/1000000) (2/3) (3/4) (7/10) (1/100)).2.map Event.kind =
    [EvKind.rootS, EvKind.rootD] := by
  rw [fmB]; rfl
example : (findMatching pC oC 0 1 (1/1000000) (1/2) (3/4) (7/10) (1/100)).2.map Event.kind = [EvKind.minim] := by
  rw [fmC]; rfl
example : (findMatching pC oE 0 1 (1/1000000) (1/2) (3/4) (7/10) (1/100)).2.map Event.kind =
    [EvKind.minim, EvKind.rootD] := by
  rw [fmE]; rfl
example : (findMatching pA oA 0 1 (1/1000000) (9/10) (3/4) (7/10) (1/100)).2.map Event.kind = [] := by
  rw [detonation_no_events _ _ _ _ _ _ _ (by norm_num)]; rfl

/-! ### A negative fact: an exact matching that exists can be replaced by the approximation -/

/-- **Finding (limits of the logic).**  There are a physics `p`, ideal root finders and a bounded minimiser
satisfying `MinimOK` (it returns the left end of the bounds) such that `shockTnuclDiff` has two zeros strictly
inside `(vBracketLow, vpmax)`, is negative between them and positive at both ends, and nevertheless `findMatching`
answers with the template approximation.  I.e. when the bounded minimiser does not find the negative dip, an exact
matching that exists (any of the two zeros; `rootD` would find one on `[vBracketLow, 5/16]`, see instance E) is
silently replaced by the constant-sound-speed approximation: the decision "no solution with the model's own EOS"
rests entirely on the quality of a local minimiser started on a function with the same sign at both ends. -/
theorem interior_root_can_be_missed :
    ∃ (p : Phys ℝ) (o : Oracles ℝ) (eps vw vJ vJt vLow r₁ r₂ : ℝ),
      RootOK (D p) o.rootD ∧ RootOK (S p vw) o.rootS ∧ MinimOK (D p) o.minim ∧
      0 < eps ∧ ¬ vJ < vw ∧
      vLow < r₁ ∧ r₁ < r₂ ∧ r₂ < (upperBound p o 0 vw vLow).2.1 ∧
      D p r₁ = 0 ∧ D p r₂ = 0 ∧ (∀ x, r₁ < x → x < r₂ → D p x < 0) ∧
      0 < D p vLow ∧ 0 < D p (upperBound p o 0 vw vLow).2.1 ∧
      (findMatching p o 0 1 eps vw vJ vJt vLow).1.isTemplate := by
  refine ⟨pC, oC', 1/1000000, 1/2, 3/4, 7/10, 1/100, 1/4, 3/8, ?_, ?_, ?_, by norm_num, by norm_num,
    by norm_num, by norm_num, ?_, ?_, ?_, ?_, ?_, ?_, ?_⟩
  · have : D pC = quadD := by funext x; simp [pC]
    rw [this]; exact rootOK_quadRoot
  · have : S pC (1/2) = fun x => x - (1/3) / (1/2) := by funext x; simp [pC]
    rw [this]; exact rootOK_const _
  · exact minimOK_mkPhys_left quadD _ _
  · rw [ubC]; norm_num
  · simp [pC, quadD]
  · simp [pC, quadD]
  · intro x h1 h2
    simp only [pC, D_mkPhys, quadD]
    exact mul_neg_of_pos_of_neg (by linarith) (by linarith)
  · simp only [pC, D_mkPhys, quadD]; norm_num
  · rw [ubC]; simp only [pC, D_mkPhys, quadD]; norm_num
  · rw [fmC']; trivial

end Props.C02M
