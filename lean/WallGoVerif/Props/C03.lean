/-
Property C03: "Integrating the self-similar fluid equations from the state in front of the wall out to the
shock front, and crossing the front with energy-flux conservation, arrives at plasma at rest at the
nucleation temperature; for constant sound speed the momentum-flux condition at the front holds as well;
for detonations T+ = Tn, v+ = vw; the efficiency factor equals the kinetic-energy integral."

Provable core (the ODE integrator and the root finders are oracles): the right-hand sides integrated by
`Hydrodynamics.shockDE` are the textbook self-similar flow equations, `TiiShock`/`shock` are energy-flux
continuity / the shock-front condition, these imply momentum-flux continuity for constant sound speed, and
the template solver's front residual (`_shooting`) encodes the same two conditions.

Only property theorems and non-vacuity examples; helpers are in `Lemmas/Template.lean`.
-/
import WallGoVerif.Lemmas.Template

namespace Props.C03

open Gen.R.Helpers Gen.R.Hydro Gen.R.Template Lemmas.Template

/-! ## T03.1  `shockDE` is the textbook self-similar flow with `v` as independent variable -/

/-- T03.1a. Second component of `shockDE`: `dT/dv = T γ²(v) μ(ξ,v)` with `μ(ξ,v) = (ξ−v)/(1−ξv)`
(`boostVelocity`). -/
theorem shockDE_T_equation (s : HydroP) (v xi T : ℝ) (b : Bool) :
    (shockDE s v (xi, T) b).2 = T * gammaSq v * boostVelocity xi v := by
  rw [shockDE_eq]

/-- T03.1b. First component of `shockDE`: `dξ/dv = γ²(1 − vξ)(μ²/cs² − 1) ξ/(2v)`. -/
theorem shockDE_xi_equation (s : HydroP) (v xi T : ℝ) (b : Bool) :
    (shockDE s v (xi, T) b).1
      = gammaSq v * (1 - v * xi) * (boostVelocity xi v ^ 2 / csqOf s T b - 1) * xi / (2 * v) := by
  rw [shockDE_eq]; simp only [csqOf, div_div]

/-- T03.1c. `dξ/dv` of `shockDE` is the reciprocal of the textbook
`dv/dξ = 2v / (ξ γ² (1 − vξ)(μ²/cs² − 1))` (eq. (2.27) of arXiv:1004.4187), wherever the latter is defined
and non-zero. -/
theorem shockDE_xi_inverse_textbook (s : HydroP) {v xi T : ℝ} (b : Bool) (hv : v ≠ 0) (hxi : xi ≠ 0)
    (hg : gammaSq v ≠ 0) (h1 : 1 - v * xi ≠ 0) (h2 : boostVelocity xi v ^ 2 / csqOf s T b - 1 ≠ 0) :
    (shockDE s v (xi, T) b).1
      * (2 * v / (xi * gammaSq v * (1 - v * xi) * (boostVelocity xi v ^ 2 / csqOf s T b - 1))) = 1 := by
  rw [shockDE_xi_equation]
  field_simp

example : ∃ (s : HydroP) (v xi T : ℝ) (b : Bool), v ≠ 0 ∧ xi ≠ 0 ∧ gammaSq v ≠ 0 ∧ 1 - v * xi ≠ 0 ∧
    boostVelocity xi v ^ 2 / csqOf s T b - 1 ≠ 0 := by
  refine ⟨q0.hydro, 1 / 10, 1 / 2, 1, true, by norm_num, by norm_num, by norm_num [gammaSq],
    by norm_num, ?_⟩
  norm_num [csqOf, boostVelocity, TPar.hydro, q0]

/-- T03.1d. Chain rule: `(dT/dv)/(dξ/dv)` of `shockDE` is the textbook temperature profile
`dT/dξ = T γ² μ · dv/dξ`. -/
theorem shockDE_dT_dxi (s : HydroP) {v xi T : ℝ} (b : Bool) (hv : v ≠ 0) (hxi : xi ≠ 0)
    (hg : gammaSq v ≠ 0) (h1 : 1 - v * xi ≠ 0) (h2 : boostVelocity xi v ^ 2 / csqOf s T b - 1 ≠ 0) :
    (shockDE s v (xi, T) b).2 / (shockDE s v (xi, T) b).1
      = T * gammaSq v * boostVelocity xi v
        * (2 * v / (xi * gammaSq v * (1 - v * xi) * (boostVelocity xi v ^ 2 / csqOf s T b - 1))) := by
  have h := shockDE_xi_inverse_textbook s b hv hxi hg h1 h2
  have h0 : (shockDE s v (xi, T) b).1 ≠ 0 := left_ne_zero_of_mul_eq_one h
  rw [shockDE_T_equation, div_eq_iff h0]
  linear_combination (-(T * gammaSq v * boostVelocity xi v)) * h

example : ∃ (s : HydroP) (v xi T : ℝ) (b : Bool), v ≠ 0 ∧ xi ≠ 0 ∧ gammaSq v ≠ 0 ∧ 1 - v * xi ≠ 0 ∧
    boostVelocity xi v ^ 2 / csqOf s T b - 1 ≠ 0 := by
  refine ⟨q0.hydro, 1 / 10, 1 / 2, 1, false, by norm_num, by norm_num, by norm_num [gammaSq],
    by norm_num, ?_⟩
  norm_num [csqOf, boostVelocity, TPar.hydro, q0]

/-- T03.1e. Consistency of the temperature form with the enthalpy form of the flow equations: for any EOS
with `dw/dT = (1 + 1/cs²) w/T`, a solution `T(v)` of `dT/dv = (shockDE).2` gives
`d w(T(v))/dv = (1 + 1/cs²) w γ² μ` (eq. (2.28) of arXiv:1004.4187 in terms of `v`). -/
theorem enthalpy_form_consistent (s : HydroP) {Tf : ℝ → ℝ} {v xi : ℝ} (hT : Tf v ≠ 0)
    (hw : HasDerivAt s.wHighT ((1 + 1 / s.csqHighT (Tf v)) * s.wHighT (Tf v) / Tf v) (Tf v))
    (hTf : HasDerivAt Tf (shockDE s v (xi, Tf v) true).2 v) :
    HasDerivAt (fun v => s.wHighT (Tf v))
      ((1 + 1 / s.csqHighT (Tf v)) * s.wHighT (Tf v) * gammaSq v * boostVelocity xi v) v := by
  have h := hw.comp v hTf
  rw [shockDE_T_equation] at h
  refine HasDerivAt.congr_deriv (f := fun v => s.wHighT (Tf v)) h ?_
  field_simp

example : ∃ (s : HydroP) (Tf : ℝ → ℝ) (v xi : ℝ), Tf v ≠ 0 ∧
    HasDerivAt s.wHighT ((1 + 1 / s.csqHighT (Tf v)) * s.wHighT (Tf v) / Tf v) (Tf v) ∧
    HasDerivAt Tf (shockDE s v (xi, Tf v) true).2 v := by
  refine ⟨q0.hydro, fun x => 1 + (shockDE q0.hydro (1 / 10) (1 / 2, 1) true).2 * (x - 1 / 10), 1 / 10,
    1 / 2, by norm_num, ?_, ?_⟩
  · have e : (1 : ℝ) + (shockDE q0.hydro (1 / 10) (1 / 2, 1) true).2 * (1 / 10 - 1 / 10) = 1 := by
      rw [sub_self, mul_zero, add_zero]
    simp only [e]
    have h := hasDerivAt_wH q0 (T := 1) (by norm_num)
    convert h using 1
    norm_num [TPar.hydro, q0]
  · have e : (1 : ℝ) + (shockDE q0.hydro (1 / 10) (1 / 2, 1) true).2 * (1 / 10 - 1 / 10) = 1 := by
      rw [sub_self, mul_zero, add_zero]
    simp only [e]
    have h := (((hasDerivAt_id (1 / 10 : ℝ)).sub_const (1 / 10)).const_mul
      (shockDE q0.hydro (1 / 10) (1 / 2, 1) true).2).const_add 1
    simpa using h

/-- T03.1f. The hypothesis of T03.1e is the general thermodynamic identity: with `w = T p'` and
`cs² = p'/(T p'')` one has `dw/dT = (1 + 1/cs²) w/T`. -/
theorem dw_dT_identity {dp : ℝ → ℝ} {ddp T : ℝ} (hT : T ≠ 0) (hdp : dp T ≠ 0)
    (h : HasDerivAt dp ddp T) :
    HasDerivAt (fun T => T * dp T) ((1 + 1 / (dp T / (T * ddp))) * (T * dp T) / T) T := by
  have h' := (hasDerivAt_id' T).mul h
  refine h'.congr_deriv ?_
  field_simp

example : ∃ (dp : ℝ → ℝ) (ddp T : ℝ), T ≠ 0 ∧ dp T ≠ 0 ∧ HasDerivAt dp ddp T :=
  ⟨fun T => 4 * T, 4, 1, by norm_num, by norm_num,
    by simpa using (hasDerivAt_id (1 : ℝ)).const_mul (4 : ℝ)⟩

/-! ## T03.2  The shock front -/

/-- T03.2a. `TiiShock(tn) = 0` is energy-flux continuity across the shock front, in the front's rest frame,
with plasma at rest at temperature `tn` ahead: `w₊(tn) γ²(ξsh) ξsh = w₊(Tsh) γ²(u) u`,
`u = μ(ξsh, vsh)`. (Despite its name the function is the `T^{0i}` component, not `T^{ii}`.) -/
theorem TiiShock_zero_iff_energy_flux (s : HydroP) (xi v T tn : ℝ) :
    TiiShock s xi v T tn = 0
      ↔ s.wHighT tn * gammaSq xi * xi
          = s.wHighT T * gammaSq (boostVelocity xi v) * boostVelocity xi v := by
  unfold TiiShock
  rw [sub_eq_zero]
  have e : s.wHighT tn * xi / (1 - xi ^ 2) = s.wHighT tn * gammaSq xi * xi := by
    unfold gammaSq; rw [pow_two]; ring
  rw [e]
  constructor <;> intro h <;> linarith

/-- T03.2b. The terminal event `shock` of `solveHydroShock` vanishes iff `μ(ξ,v)·ξ = cs²(T)`. -/
theorem shockEvent_zero_iff (s : HydroP) (v xi T : ℝ) :
    shockEvent s v (xi, T) = 0 ↔ boostVelocity xi v * xi = s.csqHighT T := by
  unfold shockEvent; exact sub_eq_zero

/-- T03.2c. For a constant-sound-speed high-temperature phase (`p = w/μ − ε`, `cs² = 1/(μ−1)`): at the shock
front found by the general solver (`shock = 0`) energy-flux continuity (`TiiShock = 0`) *implies*
momentum-flux continuity `w(tn)γ²(ξ)ξ² + p(tn) = w(T)γ²(u)u² + p(T)`. -/
theorem front_momentum_of_energy {s : HydroP} {mu eps : ℝ} (hs : ConstSoundHigh s mu eps)
    {xi v T tn : ℝ} (hmu : mu ≠ 0) (hmu1 : mu - 1 ≠ 0)
    (hxi : xi ≠ 0) (hu : boostVelocity xi v ≠ 0) (hxi1 : 1 - xi ^ 2 ≠ 0)
    (hu1 : 1 - boostVelocity xi v ^ 2 ≠ 0)
    (hfront : shockEvent s v (xi, T) = 0) (hE : TiiShock s xi v T tn = 0) :
    s.wHighT tn * gammaSq xi * xi ^ 2 + s.pHighT tn
      = s.wHighT T * gammaSq (boostVelocity xi v) * boostVelocity xi v ^ 2 + s.pHighT T := by
  rw [TiiShock_zero_iff_energy_flux] at hE
  rw [shockEvent_zero_iff, (hs T).2] at hfront
  rw [(hs tn).1, (hs T).1, ← sub_eq_zero, front_momentum_defect hxi hu hxi1 hu1 hmu hE]
  have : (mu - 1) * xi * boostVelocity xi v - 1 = 0 := by
    have : (mu - 1) * (boostVelocity xi v * xi) = 1 := by rw [hfront]; field_simp
    linear_combination this
  rw [this]; simp

example : ∃ (s : HydroP) (mu eps xi v T tn : ℝ), ConstSoundHigh s mu eps ∧ mu ≠ 0 ∧ mu - 1 ≠ 0 ∧
    xi ≠ 0 ∧ boostVelocity xi v ≠ 0 ∧ 1 - xi ^ 2 ≠ 0 ∧ 1 - boostVelocity xi v ^ 2 ≠ 0 ∧
    shockEvent s v (xi, T) = 0 ∧ TiiShock s xi v T tn = 0 := by
  -- a genuine shock on `q0` (μ = 4): `ξ = 2/3`, `v = 1/4`, `u = 1/2`, `ξu = 1/3 = cs²`, `w(T)/w(Tn) = 9/5`
  refine ⟨q0.hydro, 4, 1 / 10, 2 / 3, 1 / 4, T0x, q0.hydro.Tnucl, constSoundHigh_hydro q0_WF,
    by norm_num, by norm_num, by norm_num, by rw [boost_example]; norm_num, by norm_num,
    by rw [boost_example]; norm_num, front_example_event, front_example_energy⟩

/-- T03.2d. Converse: if both fluxes are continuous across a front with non-zero energy flux and a genuine
jump (`ξ ≠ u`), then the front moves with `ξ·u = cs²` — the event the general solver stops at. -/
theorem front_condition_of_fluxes {s : HydroP} {mu eps : ℝ} (hs : ConstSoundHigh s mu eps)
    {xi v T tn : ℝ} (hmu : mu ≠ 0) (hmu1 : mu - 1 ≠ 0)
    (hxi : xi ≠ 0) (hu : boostVelocity xi v ≠ 0) (hxi1 : 1 - xi ^ 2 ≠ 0)
    (hu1 : 1 - boostVelocity xi v ^ 2 ≠ 0) (hw : s.wHighT tn ≠ 0) (hjump : xi ≠ boostVelocity xi v)
    (hE : TiiShock s xi v T tn = 0)
    (hM : s.wHighT tn * gammaSq xi * xi ^ 2 + s.pHighT tn
      = s.wHighT T * gammaSq (boostVelocity xi v) * boostVelocity xi v ^ 2 + s.pHighT T) :
    shockEvent s v (xi, T) = 0 := by
  rw [TiiShock_zero_iff_energy_flux] at hE
  rw [shockEvent_zero_iff, (hs T).2]
  rw [(hs tn).1, (hs T).1, momentum_iff_factor hxi hu hxi1 hu1 hmu hw hE] at hM
  rcases mul_eq_zero.mp hM with h | h
  · exact absurd (sub_eq_zero.mp h) hjump
  · field_simp; linear_combination h

example : ∃ (s : HydroP) (mu eps xi v T tn : ℝ), ConstSoundHigh s mu eps ∧ mu ≠ 0 ∧ mu - 1 ≠ 0 ∧
    xi ≠ 0 ∧ boostVelocity xi v ≠ 0 ∧ 1 - xi ^ 2 ≠ 0 ∧ 1 - boostVelocity xi v ^ 2 ≠ 0 ∧
    s.wHighT tn ≠ 0 ∧ xi ≠ boostVelocity xi v ∧ TiiShock s xi v T tn = 0 ∧
    s.wHighT tn * gammaSq xi * xi ^ 2 + s.pHighT tn
      = s.wHighT T * gammaSq (boostVelocity xi v) * boostVelocity xi v ^ 2 + s.pHighT T := by
  refine ⟨q0.hydro, 4, 1 / 10, 2 / 3, 1 / 4, T0x, q0.hydro.Tnucl, constSoundHigh_hydro q0_WF,
    by norm_num, by norm_num, by norm_num, by rw [boost_example]; norm_num, by norm_num,
    by rw [boost_example]; norm_num, ?_, by rw [boost_example]; norm_num, front_example_energy,
    front_example_momentum⟩
  rw [hydro_Tnucl, show q0.Tn = 1 from rfl, q0_wH_one]; norm_num

/-! ## T03.3  The template solver's front residual encodes the same conditions -/

section template
variable {q : TPar} {t : TemplP}

/-- T03.3a. At a point where the front condition `μ(ξ,v) ξ = cs²` holds (where both solvers stop
integrating), the residual returned by the template `_shooting` (with `wmSW = w₊(T)/w₊(Tn)`, i.e. units
`w₊(Tn) = 1`) vanishes **iff** the general solver's `TiiShock(Tn) = 0`, i.e. iff crossing the front with
energy-flux conservation lands on plasma at rest at the nucleation temperature. -/
theorem shooting_residual_iff_energy_flux (hq : q.WF) (ht : IsTemplateOf t q.hydro) {xi v T : ℝ}
    (hxi : 0 < xi) (hxi1 : xi < 1) (hu : 0 < boostVelocity xi v) (hu1 : boostVelocity xi v < 1)
    (hT : 0 < T) (hfront : shockEvent q.hydro v (xi, T) = 0) :
    shootResidual t xi (boostVelocity xi v) (q.hydro.wHighT T / t.wN) = 0
      ↔ TiiShock q.hydro xi v T q.hydro.Tnucl = 0 := by
  have hw := wN_pos hq ht
  have hwT := wH_pos hq hT
  have hmu := hq.mu_gt
  have hden : (q.mu - 1) + q.hydro.wHighT T / t.wN ≠ 0 := by
    have : 0 < (q.mu - 1) + q.hydro.wHighT T / t.wN := by
      have : 0 < q.mu - 1 := by linarith
      positivity
    exact this.ne'
  rw [shockEvent_zero_iff] at hfront
  have hf : (q.mu - 1) * xi * boostVelocity xi v = 1 := by
    have h1 : q.mu - 1 ≠ 0 := by linarith
    have : (q.mu - 1) * (boostVelocity xi v * xi) = 1 := by
      rw [hfront]; simp only [TPar.hydro]; field_simp
    linear_combination this
  rw [TiiShock_zero_iff_energy_flux, hydro_Tnucl, show q.hydro.wHighT q.Tn = t.wN from ht.wN.symm]
  unfold shootResidual
  rw [mu_eq hq ht]
  exact residual_iff_energy hxi hu hxi1 hu1 hw.ne' hden hf

example : ∃ (q : TPar) (t : TemplP) (xi v T : ℝ), q.WF ∧ IsTemplateOf t q.hydro ∧ 0 < xi ∧ xi < 1 ∧
    0 < boostVelocity xi v ∧ boostVelocity xi v < 1 ∧ 0 < T ∧ shockEvent q.hydro v (xi, T) = 0 :=
  -- `ξ = 2/3`, `v = 1/4` gives `u = μ(ξ,v) = 1/2` and `ξ u = 1/3 = cs²`
  ⟨q0, t0, 2 / 3, 1 / 4, T0x, q0_WF, t0_isTemplate, by norm_num, by norm_num,
    by rw [boost_example]; norm_num, by rw [boost_example]; norm_num, T0x_pos, front_example_event⟩

/-- T03.3b. Given energy-flux continuity (`TiiShock(Tn) = 0`), the `_shooting` residual vanishes **iff**
momentum flux is continuous across the front as well. (No front condition assumed here.) -/
theorem shooting_residual_iff_momentum_flux (hq : q.WF) (ht : IsTemplateOf t q.hydro) {xi v T : ℝ}
    (hxi : 0 < xi) (hxi1 : xi < 1) (hu : 0 < boostVelocity xi v) (hu1 : boostVelocity xi v < 1)
    (hT : 0 < T) (hE : TiiShock q.hydro xi v T q.hydro.Tnucl = 0) :
    shootResidual t xi (boostVelocity xi v) (q.hydro.wHighT T / t.wN) = 0
      ↔ q.hydro.wHighT q.Tn * gammaSq xi * xi ^ 2 + q.hydro.pHighT q.Tn
          = q.hydro.wHighT T * gammaSq (boostVelocity xi v) * boostVelocity xi v ^ 2
            + q.hydro.pHighT T := by
  have hw := wN_pos hq ht
  have hwT := wH_pos hq hT
  have hmu := hq.mu_gt
  have hden : (q.mu - 1) + q.hydro.wHighT T / t.wN ≠ 0 := by
    have : 0 < (q.mu - 1) + q.hydro.wHighT T / t.wN := by
      have : 0 < q.mu - 1 := by linarith
      positivity
    exact this.ne'
  rw [TiiShock_zero_iff_energy_flux, hydro_Tnucl] at hE
  have hs := constSoundHigh_hydro hq
  have h1 : 1 - xi ^ 2 ≠ 0 := by nlinarith
  have h2 : 1 - boostVelocity xi v ^ 2 ≠ 0 := by nlinarith
  rw [(hs q.Tn).1, (hs T).1,
    momentum_iff_factor hxi.ne' hu.ne' h1 h2 (by linarith) (wH_pos hq hq.Tn_pos).ne' hE]
  unfold shootResidual
  rw [mu_eq hq ht, ht.wN]
  exact residual_iff_factor hxi hu hxi1 hu1 (wH_pos hq hq.Tn_pos).ne' (by rwa [ht.wN] at hden) hE

example : ∃ (q : TPar) (t : TemplP) (xi v T : ℝ), q.WF ∧ IsTemplateOf t q.hydro ∧ 0 < xi ∧ xi < 1 ∧
    0 < boostVelocity xi v ∧ boostVelocity xi v < 1 ∧ 0 < T ∧
    TiiShock q.hydro xi v T q.hydro.Tnucl = 0 :=
  ⟨q0, t0, 2 / 3, 1 / 4, T0x, q0_WF, t0_isTemplate, by norm_num, by norm_num,
    by rw [boost_example]; norm_num, by rw [boost_example]; norm_num, T0x_pos, front_example_energy⟩

/-- T03.3c. In particular the two shock conditions of the general solver (energy- and momentum-flux
continuity with plasma at rest at `Tn` ahead) imply that the template residual vanishes. -/
theorem shooting_residual_zero_of_fluxes (hq : q.WF) (ht : IsTemplateOf t q.hydro) {xi v T : ℝ}
    (hxi : 0 < xi) (hxi1 : xi < 1) (hu : 0 < boostVelocity xi v) (hu1 : boostVelocity xi v < 1)
    (hT : 0 < T) (hE : TiiShock q.hydro xi v T q.hydro.Tnucl = 0)
    (hM : q.hydro.wHighT q.Tn * gammaSq xi * xi ^ 2 + q.hydro.pHighT q.Tn
          = q.hydro.wHighT T * gammaSq (boostVelocity xi v) * boostVelocity xi v ^ 2
            + q.hydro.pHighT T) :
    shootResidual t xi (boostVelocity xi v) (q.hydro.wHighT T / t.wN) = 0 :=
  (shooting_residual_iff_momentum_flux hq ht hxi hxi1 hu hu1 hT hE).mpr hM

example : ∃ (q : TPar) (t : TemplP) (xi v T : ℝ), q.WF ∧ IsTemplateOf t q.hydro ∧ 0 < xi ∧ xi < 1 ∧
    0 < boostVelocity xi v ∧ boostVelocity xi v < 1 ∧ 0 < T ∧
    TiiShock q.hydro xi v T q.hydro.Tnucl = 0 ∧
    q.hydro.wHighT q.Tn * gammaSq xi * xi ^ 2 + q.hydro.pHighT q.Tn
          = q.hydro.wHighT T * gammaSq (boostVelocity xi v) * boostVelocity xi v ^ 2
            + q.hydro.pHighT T :=
  ⟨q0, t0, 2 / 3, 1 / 4, T0x, q0_WF, t0_isTemplate, by norm_num, by norm_num,
    by rw [boost_example]; norm_num, by rw [boost_example]; norm_num, T0x_pos, front_example_energy,
    front_example_momentum⟩

end template

/-! ## T03.4  Detonations -/

/-- T03.4. `matchDeton` returns the `v₊` and `T₊` it was given unchanged; the caller passes `v₊ = vw`,
`T₊ = Tnucl` (plasma in front of a detonation is unperturbed). -/
theorem matchDeton_keeps_vp_Tp (s : HydroP) (vp Tp Tm : ℝ) :
    (matchDetonPost s vp Tp Tm).1 = vp ∧ (matchDetonPost s vp Tp Tm).2.2.1 = Tp ∧
    (matchDetonPost s vp Tp Tm).2.2.2 = Tm :=
  ⟨rfl, rfl, rfl⟩

/-! ## T03.5  Efficiency-factor integrand -/

/-- T03.5. The integrand `ξ² v² γ²(v) w` of `efficiencyFactor` is `ξ²` times the kinetic energy density
`w γ² v²` of the fluid. -/
theorem kappaIntegrand_kinetic (xi v w : ℝ) :
    kappaIntegrand xi v w = xi ^ 2 * (w * gammaSq v * v ^ 2) := by
  unfold kappaIntegrand; ring

end Props.C03
