/-
Property C13 — `BoltzmannSolver.getDeltas` (src/WallGo/boltzmann.py:120-207).

"The four moments returned for a given deviation from equilibrium equal the momentum-space integrals
of that deviation weighted by 1, p_z², E² and E·p_z over d³p/((2π)³E), exactly for every deviation
whose integrand lies in the polynomial space of the grid. …  Moments are linear in the deviation."

What is proved, about which object:
* the pointwise weights: the GENERATED `Gen.R.Boltz.deltaIntegrand`, `weightDelta00/02/20/11`
  (regenerated from the source on every run);
* the momentum maps and Jacobians: the GENERATED `Gen.R.Grid.decompactify`,
  `compactificationDerivatives` (Props/C17 proves Jacobian = derivative);
* the double sum: the hand model `Model.Boltz.moment` (tied to `getDeltas` by differential testing),
  on the Gauss–Lobatto grids `lobNodes M = [-cos(jπ/M)]` with the weights `Model.Poly.gclWeights` of
  `Polynomial.integrate` (Props/C16Cheb).
Sections: T13.1 the weights are the measure, T13.2 the moment is a double quadrature and it is exact,
T13.4 linearity, and the chain "returned moment = momentum-space integral".
Helper lemmas: `Lemmas/Boltz.lean`.
-/
import WallGoVerif.Lemmas.Boltz

namespace Props.C13

open Gen.R.Boltz Model.Boltz Model.Poly Lemmas.Boltz Lemmas.Lobatto Lob Real Set MeasureTheory Finset

/-! ## T13.1 the weights handed to `integrate` are the measure `d³p/((2π)³E)` -/

/-- **T13.1.** With `(E, I) = deltaIntegrand msq pz pp dξ/dχ dp_z/dρ_z dp_∥/dρ_∥` as computed by
`getDeltas`: `E = √(m² + p_z² + p_∥²)`, `I = (dp_z/dρ_z)(dp_∥/dρ_∥)·p_∥/(4π²E)`, and the four arrays handed
to `integrate` are `I`, `p_z²·I`, `E²·I`, `E·p_z·I`.
Meaning: `d³p/((2π)³E)` in cylindrical coordinates is `2π p_∥ dp_∥ dp_z/((2π)³E) = p_∥ dp_∥ dp_z/(4π²E)`
(`d3p_cylindrical`), and `dp_z = (dp_z/dρ_z) dρ_z`, `dp_∥ = (dp_∥/dρ_∥) dρ_∥` with the Jacobians of
Props/C17 (`measure_compact_coordinates`).  The position Jacobian `dξ/dχ` is (correctly) not used.
(C13: "weighted by 1, p_z², E² and E p_z over d³p/((2π)³E)".) -/
theorem weights_are_measure (msq pz pp dxi dpz dpp : ℝ) :
    let EI := deltaIntegrand msq pz pp dxi dpz dpp
    EI.1 = √(msq + pz ^ 2 + pp ^ 2) ∧
    EI.2 = dpz * dpp * pp / (4 * π ^ 2 * EI.1) ∧
    weightDelta00 pz EI.1 EI.2 = EI.2 ∧
    weightDelta02 pz EI.1 EI.2 = pz ^ 2 * EI.2 ∧
    weightDelta20 pz EI.1 EI.2 = EI.1 ^ 2 * EI.2 ∧
    weightDelta11 pz EI.1 EI.2 = EI.1 * pz * EI.2 :=
  ⟨rfl, rfl, rfl, rfl, rfl, rfl⟩

/-- concrete instance: `m² = 0`, `p_z = 3`, `p_∥ = 4` gives `E = 5`; with unit Jacobians `I = 4/(20π²)`. -/
example : (deltaIntegrand 0 3 4 1 1 1).1 = 5 ∧ (deltaIntegrand 0 3 4 1 1 1).2 = 4 / (4 * π ^ 2 * 5) := by
  have h : √((0 : ℝ) + 3 ^ 2 + 4 ^ 2) = 5 := by
    rw [show ((0 : ℝ) + 3 ^ 2 + 4 ^ 2) = 5 ^ 2 by norm_num]; exact Real.sqrt_sq (by norm_num)
  refine ⟨h, ?_⟩
  rw [deltaIntegrand_snd, h]; norm_num

/-- **T13.1, substitution in `p_z`.** For `T > 0` and ANY function `F` (no integrability hypothesis: both
sides are the Bochner integral, `0` in the non-integrable case, consistently)
`∫_ℝ F(p_z) dp_z = ∫_{-1}^{1} (dp_z/dρ_z)·F(p_z(ρ_z)) dρ_z` with the grid's map `p_z = 2T·artanh ρ_z` and the
grid's reported Jacobian `2T/(1−ρ_z²)`. -/
theorem measure_pz_substitution (s : Gen.R.Grid.GridP) (hT : 0 < s.momentumFalloffT) (a b : ℝ) (F : ℝ → ℝ) :
    ∫ pz, F pz = ∫ ρ in (-1 : ℝ)..1, (Gen.R.Grid.compactificationDerivatives s a ρ b).2.1
      * F (Gen.R.Grid.decompactify s a ρ b).2.1 :=
  integral_pz_subst hT F

/-- **T13.1, substitution in `p_∥`.** `∫_0^∞ G(p_∥) dp_∥ = ∫_{-1}^{1} (dp_∥/dρ_∥)·G(p_∥(ρ_∥)) dρ_∥` with
`p_∥ = −T·log((1−ρ_∥)/2)`, Jacobian `T/(1−ρ_∥)`; `T > 0`, any `G`. -/
theorem measure_pp_substitution (s : Gen.R.Grid.GridP) (hT : 0 < s.momentumFalloffT) (a b : ℝ) (G : ℝ → ℝ) :
    ∫ pp in Ioi 0, G pp = ∫ ρ in (-1 : ℝ)..1, (Gen.R.Grid.compactificationDerivatives s a b ρ).2.2
      * G (Gen.R.Grid.decompactify s a b ρ).2.2 :=
  integral_pp_subst hT G

/-- **T13.1, the measure identity.** For `T > 0`, any `g`, any `m²`:
`∫dp_z ∫_0^∞ dp_∥ g(p_z,p_∥)·p_∥/(4π²E) = ∫_{-1}^{1}dρ_z ∫_{-1}^{1}dρ_∥ g(p_z(ρ_z), p_∥(ρ_∥))·I(ρ_z,ρ_∥)`
where `I` is the second component of the generated `deltaIntegrand` evaluated with the generated grid
maps and Jacobians — i.e. exactly the array `integrand` of `getDeltas`.  Iterated integrals; no
integrability hypothesis is needed (two 1-D substitutions, no Fubini). -/
theorem measure_compact_coordinates (s : Gen.R.Grid.GridP) (hT : 0 < s.momentumFalloffT) (a b : ℝ)
    (msq dxi : ℝ) (g : ℝ → ℝ → ℝ) :
    ∫ pz, ∫ pp in Ioi 0, g pz pp * (pp / (4 * π ^ 2 * √(msq + pz ^ 2 + pp ^ 2)))
      = ∫ ρz in (-1 : ℝ)..1, ∫ ρp in (-1 : ℝ)..1,
          g (Gen.R.Grid.decompactify s a ρz b).2.1 (Gen.R.Grid.decompactify s a b ρp).2.2 *
            (deltaIntegrand msq (Gen.R.Grid.decompactify s a ρz b).2.1
              (Gen.R.Grid.decompactify s a b ρp).2.2 dxi
              (Gen.R.Grid.compactificationDerivatives s a ρz b).2.1
              (Gen.R.Grid.compactificationDerivatives s a b ρp).2.2).2 :=
  measure_compact hT msq dxi g

/-- **T13.1, cylindrical coordinates.** For an integrand that depends on the transverse momentum
`q = p_⊥ ∈ ℝ²` only through `p_∥ = |q|`:
`∫dp_z ∫d²q g(p_z,|q|)/((2π)³E) = ∫dp_z ∫_0^∞ dp_∥ g(p_z,p_∥)·p_∥/(4π²E)`, `E = √(m²+p_z²+|q|²)`.
(Iterated integrals, no hypothesis.) -/
theorem d3p_cylindrical (msq : ℝ) (g : ℝ → ℝ → ℝ) :
    ∫ pz : ℝ, ∫ q : ℝ × ℝ, g pz (√(q.1 ^ 2 + q.2 ^ 2))
        / ((2 * π) ^ 3 * √(msq + pz ^ 2 + (q.1 ^ 2 + q.2 ^ 2)))
      = ∫ pz : ℝ, ∫ pp in Ioi (0 : ℝ), g pz pp * (pp / (4 * π ^ 2 * √(msq + pz ^ 2 + pp ^ 2))) :=
  Lemmas.Boltz.d3p_cylindrical msq g

/-- the hypothesis `0 < momentumFalloffT` is satisfiable -/
example : ∃ s : Gen.R.Grid.GridP, 0 < s.momentumFalloffT := ⟨⟨1, 100⟩, by norm_num⟩

/-- **T13.1, all four moments as momentum-space integrals in compact coordinates.** For a deviation
`δf(p_z, p_∥)` and a kernel `K(p_z, E)`: the momentum-space integral of `K·δf` over `d³p/((2π)³E)` equals
the compact-coordinate integral of `δf` against `K·I`.  With `K = 1, p_z², E², E·p_z` the weight `K·I` is
`weightDelta00/02/20/11`, the arrays used by `getDeltas`. -/
theorem momentum_integral_compact (s : Gen.R.Grid.GridP) (hT : 0 < s.momentumFalloffT) (a b : ℝ)
    (msq dxi : ℝ) (δf : ℝ → ℝ → ℝ) (K : ℝ → ℝ → ℝ) :
    ∫ pz : ℝ, ∫ q : ℝ × ℝ,
        K pz (√(msq + pz ^ 2 + (q.1 ^ 2 + q.2 ^ 2))) * δf pz (√(q.1 ^ 2 + q.2 ^ 2))
          / ((2 * π) ^ 3 * √(msq + pz ^ 2 + (q.1 ^ 2 + q.2 ^ 2)))
      = ∫ ρz in (-1 : ℝ)..1, ∫ ρp in (-1 : ℝ)..1,
          let pz := (Gen.R.Grid.decompactify s a ρz b).2.1
          let pp := (Gen.R.Grid.decompactify s a b ρp).2.2
          let EI := deltaIntegrand msq pz pp dxi (Gen.R.Grid.compactificationDerivatives s a ρz b).2.1
            (Gen.R.Grid.compactificationDerivatives s a b ρp).2.2
          δf pz pp * (K pz EI.1 * EI.2) := by
  have e : ∀ q : ℝ × ℝ, √(q.1 ^ 2 + q.2 ^ 2) ^ 2 = q.1 ^ 2 + q.2 ^ 2 := fun q =>
    Real.sq_sqrt (add_nonneg (sq_nonneg _) (sq_nonneg _))
  have h1 := Lemmas.Boltz.d3p_cylindrical msq
    (fun pz pp => K pz (√(msq + pz ^ 2 + pp ^ 2)) * δf pz pp)
  simp only [e] at h1
  rw [h1, measure_compact hT msq dxi]
  refine intervalIntegral.integral_congr fun ρz _ => intervalIntegral.integral_congr fun ρp _ => ?_
  simp only [deltaIntegrand_fst, (grid_maps_eq s a b ρz).1, (grid_maps_eq s a b ρp).2.1,
    (grid_maps_eq s a b ρz).2.2.1, (grid_maps_eq s a b ρp).2.2.2]
  ring

/-- the four kernels give the four generated weights -/
theorem kernels_are_weights (pz E I : ℝ) :
    (fun _ _ : ℝ => (1 : ℝ)) pz E * I = weightDelta00 pz E I ∧
    (fun pz _ : ℝ => pz ^ 2) pz E * I = weightDelta02 pz E I ∧
    (fun _ E : ℝ => E ^ 2) pz E * I = weightDelta20 pz E I ∧
    (fun pz E : ℝ => E * pz) pz E * I = weightDelta11 pz E I :=
  ⟨by simp [weightDelta00], rfl, rfl, rfl⟩

/-! ## T13.2 the returned moment is a double Gauss–Chebyshev–Lobatto sum, and the sum is exact -/

/-- **T13.2 (sum form).** For an `n × p` deviation array `δf` and weight array `W` and the
`√(1−ρ²)·weight` factors `sz` (`n` of them) and `sp` (`p` of them), the number formed by
`Polynomial.integrate((2,3), W)` on cardinal coefficients is the finite double sum
`Σ_j Σ_k δf_jk · W_jk · sz_j · sp_k`. -/
theorem moment_is_double_quadrature {n p : ℕ} (F W : List (List ℝ)) (sz sp : List ℝ) (hF : F.length = n)
    (hW : W.length = n) (hsz : sz.length = n) (hsp : sp.length = p)
    (hFr : ∀ r ∈ F, r.length = p) (hWr : ∀ r ∈ W, r.length = p) :
    moment (0 : ℝ) F W sz sp
      = ∑ j ∈ range n, ∑ k ∈ range p,
          (F.getD j []).getD k 0 * (W.getD j []).getD k 0 * sz.getD j 0 * sp.getD k 0 :=
  moment_eq_sum F W sz sp hF hW hsz hsp hFr hWr

/-- the same without any shape hypothesis (`zipWith` truncates ragged inputs to the common lengths) -/
theorem moment_is_double_quadrature_general (F W : List (List ℝ)) (sz sp : List ℝ) :
    moment (0 : ℝ) F W sz sp
      = ∑ j ∈ range (min (min F.length W.length) sz.length),
          ∑ k ∈ range (min (min (F.getD j []).length (W.getD j []).length) sp.length),
            (F.getD j []).getD k 0 * (W.getD j []).getD k 0 * sz.getD j 0 * sp.getD k 0 :=
  moment_eq_sum_min F W sz sp

/-- non-vacuity / numeric check: a `2 × 2` example, `1·5·10·1000 + 2·6·10·100 + 3·7·1·1000 + 4·8·1·100`. -/
example : moment (0 : ℝ) [[1, 2], [3, 4]] [[5, 6], [7, 8]] [10, 1] [1000, 100] = 86200 := by
  rw [moment_is_double_quadrature (n := 2) (p := 2) _ _ _ _ rfl rfl rfl rfl (by simp) (by simp)]
  norm_num [Finset.sum_range_succ]

/-- **T13.2 (on the grid).** On the Lobatto grids (`Mz` = `grid.N` for `p_z`, `Mp` = `grid.N − 1` for `p_∥`;
any directions/`endpoints` flags) with `sz`, `sp` the `√(1−ρ²)·weight` factors of `integrate`, the moment of
the nodal values of `δ` against the nodal values of `w` is the nested `integrate` sum `codeQuad ∘ codeQuad`
of Props/C16Cheb. -/
theorem moment_on_grid (dz dp : Dir) (ez ep : Bool) (Mz Mp : ℕ) (δ w : ℝ → ℝ → ℝ) :
    moment (0 : ℝ)
        ((kept dz ez (lobNodes Mz)).map fun x => (kept dp ep (lobNodes Mp)).map fun y => δ x y)
        ((kept dz ez (lobNodes Mz)).map fun x => (kept dp ep (lobNodes Mp)).map fun y => w x y)
        (quadFactors dz ez Mz) (quadFactors dp ep Mp)
      = codeQuad (fun x => codeQuad (fun y => δ x y * w x y) dp ep (lobNodes Mp) (π / Mp))
          dz ez (lobNodes Mz) (π / Mz) :=
  moment_eq_codeQuad dz dp ez ep Mz Mp δ w

/-- **T13.2 (exactness).** Let `Φ(ρ_z,ρ_∥) = δ(ρ_z,ρ_∥)·w(ρ_z,ρ_∥)` (deviation times weight in compact
coordinates).  If `Φ·√(1−ρ_z²)·√(1−ρ_∥²)` agrees on `[−1,1]²` with a polynomial
`Σ_{a ≤ 2Mz−1, b ≤ 2Mp−1} c_ab ρ_z^a ρ_∥^b` (for the code `Mz = N`, `Mp = N−1`: degrees `≤ 2N−1` and `≤ 2N−3`),
the moment sum equals `∫_{-1}^{1}∫_{-1}^{1} Φ dρ_∥ dρ_z`, for every direction/`endpoints` setting.
(The polynomial then automatically vanishes on the boundary of the square, which is what makes the
end-point-free sum of the code agree with the Lobatto rule.)
(C13: "exactly for every deviation whose integrand lies in the polynomial space of the grid".) -/
theorem moment_exact {Mz Mp : ℕ} (hz : Mz ≠ 0) (hp : Mp ≠ 0) (dz dp : Dir) (ez ep : Bool)
    (δ w : ℝ → ℝ → ℝ) (c : ℕ → ℕ → ℝ)
    (hΦ : ∀ x ∈ Icc (-1 : ℝ) 1, ∀ y ∈ Icc (-1 : ℝ) 1,
      δ x y * w x y * √(1 - x ^ 2) * √(1 - y ^ 2)
        = ∑ a ∈ range (2 * Mz), ∑ b ∈ range (2 * Mp), c a b * x ^ a * y ^ b) :
    moment (0 : ℝ)
        ((kept dz ez (lobNodes Mz)).map fun x => (kept dp ep (lobNodes Mp)).map fun y => δ x y)
        ((kept dz ez (lobNodes Mz)).map fun x => (kept dp ep (lobNodes Mp)).map fun y => w x y)
        (quadFactors dz ez Mz) (quadFactors dp ep Mp)
      = ∫ x in (-1 : ℝ)..1, ∫ y in (-1 : ℝ)..1, δ x y * w x y :=
  Lemmas.Boltz.moment_exact hz hp dz dp ez ep δ w c hΦ

/-- non-vacuity of `moment_exact`: `Mz = Mp = 2`, `δ = (1+x)(1+y)`, `w = √(1−x²)√(1−y²)`; then
`δ·w·√·√ = (1−x²)(1+x)(1−y²)(1+y)` has degree `3 = 2M−1` in each variable, with coefficients
`c_ab = u_a u_b`, `u = (1, 1, −1, −1)`. -/
example :
    moment (0 : ℝ)
        ((kept .pz false (lobNodes 2)).map fun x => (kept .pp false (lobNodes 2)).map fun y =>
          (1 + x) * (1 + y))
        ((kept .pz false (lobNodes 2)).map fun x => (kept .pp false (lobNodes 2)).map fun y =>
          √(1 - x ^ 2) * √(1 - y ^ 2))
        (quadFactors .pz false 2) (quadFactors .pp false 2)
      = ∫ x in (-1 : ℝ)..1, ∫ y in (-1 : ℝ)..1, (1 + x) * (1 + y) * (√(1 - x ^ 2) * √(1 - y ^ 2)) := by
  refine moment_exact (Mz := 2) (Mp := 2) (by norm_num) (by norm_num) .pz .pp false false _ _
    (fun a b => (![1, 1, -1, -1] : Fin 4 → ℝ) (Fin.ofNat 4 a) * (![1, 1, -1, -1] : Fin 4 → ℝ) (Fin.ofNat 4 b))
    ?_
  intro x hx y hy
  have hx' : 0 ≤ 1 - x ^ 2 := by nlinarith [hx.1, hx.2]
  have hy' : 0 ≤ 1 - y ^ 2 := by nlinarith [hy.1, hy.2]
  have e1 : (1 + x) * (1 + y) * (√(1 - x ^ 2) * √(1 - y ^ 2)) * √(1 - x ^ 2) * √(1 - y ^ 2)
      = (1 + x) * (1 + y) * (√(1 - x ^ 2) * √(1 - x ^ 2)) * (√(1 - y ^ 2) * √(1 - y ^ 2)) := by ring
  rw [e1, Real.mul_self_sqrt hx', Real.mul_self_sqrt hy']
  simp [Finset.sum_range_succ, Fin.ofNat]
  ring

/-- **C13, the chain.** For a deviation `δf(p_z,p_∥)` and a kernel `K(p_z,E)` (`1`, `p_z²`, `E²`, `E·p_z`): if
deviation × weight lies in the polynomial class of the grid (hypothesis `hΦ` of `moment_exact` for
`δ = δf∘maps`, `w = K·I`), then the number returned by `getDeltas` — the moment of the nodal values of `δf`
against the nodal values of the generated weight — equals the momentum-space integral
`∫dp_z∫d²p_⊥ K·δf/((2π)³E)`. -/
theorem returned_moment_eq_momentum_integral (s : Gen.R.Grid.GridP) (hT : 0 < s.momentumFalloffT)
    (a b msq dxi : ℝ) (δf K : ℝ → ℝ → ℝ) {Mz Mp : ℕ} (hz : Mz ≠ 0) (hp : Mp ≠ 0) (dz dp : Dir)
    (ez ep : Bool) (c : ℕ → ℕ → ℝ)
    (δ w : ℝ → ℝ → ℝ)
    (hδ : δ = fun ρz ρp => δf (Gen.R.Grid.decompactify s a ρz b).2.1 (Gen.R.Grid.decompactify s a b ρp).2.2)
    (hw : w = fun ρz ρp =>
      let pz := (Gen.R.Grid.decompactify s a ρz b).2.1
      let pp := (Gen.R.Grid.decompactify s a b ρp).2.2
      let EI := deltaIntegrand msq pz pp dxi (Gen.R.Grid.compactificationDerivatives s a ρz b).2.1
        (Gen.R.Grid.compactificationDerivatives s a b ρp).2.2
      K pz EI.1 * EI.2)
    (hΦ : ∀ x ∈ Icc (-1 : ℝ) 1, ∀ y ∈ Icc (-1 : ℝ) 1,
      δ x y * w x y * √(1 - x ^ 2) * √(1 - y ^ 2)
        = ∑ a ∈ range (2 * Mz), ∑ b ∈ range (2 * Mp), c a b * x ^ a * y ^ b) :
    moment (0 : ℝ)
        ((kept dz ez (lobNodes Mz)).map fun x => (kept dp ep (lobNodes Mp)).map fun y => δ x y)
        ((kept dz ez (lobNodes Mz)).map fun x => (kept dp ep (lobNodes Mp)).map fun y => w x y)
        (quadFactors dz ez Mz) (quadFactors dp ep Mp)
      = ∫ pz : ℝ, ∫ q : ℝ × ℝ,
          K pz (√(msq + pz ^ 2 + (q.1 ^ 2 + q.2 ^ 2))) * δf pz (√(q.1 ^ 2 + q.2 ^ 2))
            / ((2 * π) ^ 3 * √(msq + pz ^ 2 + (q.1 ^ 2 + q.2 ^ 2))) := by
  rw [moment_exact hz hp dz dp ez ep δ w c hΦ, momentum_integral_compact s hT a b msq dxi δf K, hδ, hw]

/-- non-vacuity of `returned_moment_eq_momentum_integral` with the REAL weights: grid `T = 1`, `m² = 0`,
kernel `K = 1` (Δ00), `Mz = Mp = 2`, and the deviation `exDeltaF` for which
`δf·I·√(1−ρ_z²)√(1−ρ_∥²) = (1−ρ_z²)(1−ρ_∥²)` (coefficients `c_ab = u_a u_b`, `u = (1,0,−1,0)`); the
polynomial class of the chain theorem is not empty and not only `δf = 0`. -/
example :
    let s : Gen.R.Grid.GridP := ⟨1, 1⟩
    let δ : ℝ → ℝ → ℝ := fun ρz ρp =>
      exDeltaF (Gen.R.Grid.decompactify s 0 ρz 0).2.1 (Gen.R.Grid.decompactify s 0 0 ρp).2.2
    let w : ℝ → ℝ → ℝ := fun ρz ρp =>
      let pz := (Gen.R.Grid.decompactify s 0 ρz 0).2.1
      let pp := (Gen.R.Grid.decompactify s 0 0 ρp).2.2
      let EI := deltaIntegrand 0 pz pp 1 (Gen.R.Grid.compactificationDerivatives s 0 ρz 0).2.1
        (Gen.R.Grid.compactificationDerivatives s 0 0 ρp).2.2
      (fun _ _ : ℝ => (1 : ℝ)) pz EI.1 * EI.2
    moment (0 : ℝ)
        ((kept .pz false (lobNodes 2)).map fun x => (kept .pp false (lobNodes 2)).map fun y => δ x y)
        ((kept .pz false (lobNodes 2)).map fun x => (kept .pp false (lobNodes 2)).map fun y => w x y)
        (quadFactors .pz false 2) (quadFactors .pp false 2)
      = ∫ pz : ℝ, ∫ q : ℝ × ℝ,
          1 * exDeltaF pz (√(q.1 ^ 2 + q.2 ^ 2)) / ((2 * π) ^ 3 * √(0 + pz ^ 2 + (q.1 ^ 2 + q.2 ^ 2))) := by
  intro s δ w
  exact returned_moment_eq_momentum_integral s (by norm_num [s]) 0 0 0 1 exDeltaF (fun _ _ => 1)
    (Mz := 2) (Mp := 2) (by norm_num) (by norm_num) .pz .pp false false
    (fun a b => (![1, 0, -1, 0] : Fin 4 → ℝ) (Fin.ofNat 4 a) * (![1, 0, -1, 0] : Fin 4 → ℝ) (Fin.ofNat 4 b))
    δ w rfl rfl (fun x hx y hy => exDeltaF_poly x hx y hy)

/-! ## T13.4 linearity -/

/-- **T13.4.** The moment is linear in the deviation: `moment(F + c·G) = moment(F) + c·moment(G)` for
deviation arrays of the same shape (any weight array, any quadrature factors).
(C13: "Moments are linear in the deviation".) -/
theorem moment_linear (c : ℝ) (F G W : List (List ℝ)) (sz sp : List ℝ) (hlen : F.length = G.length)
    (hrow : ∀ j < F.length, (F.getD j []).length = (G.getD j []).length) :
    moment (0 : ℝ) (List.zipWith (List.zipWith (fun a b => a + c * b)) F G) W sz sp
      = moment (0 : ℝ) F W sz sp + c * moment (0 : ℝ) G W sz sp :=
  moment_axpy c F G W sz sp hlen hrow

/-- **T13.4.** The zero deviation has zero moments (no hypothesis on shapes). -/
theorem moment_zero (F W : List (List ℝ)) (sz sp : List ℝ) (h0 : ∀ r ∈ F, ∀ x ∈ r, x = (0 : ℝ)) :
    moment (0 : ℝ) F W sz sp = 0 :=
  Lemmas.Boltz.moment_zero F W sz sp h0

/-- non-vacuity of `moment_linear`: two `2 × 2` arrays. -/
example :
    moment (0 : ℝ) (List.zipWith (List.zipWith (fun a b => a + 3 * b)) [[1, 2], [3, 4]] [[0, 1], [1, 0]])
        [[5, 6], [7, 8]] [10, 1] [1000, 100]
      = moment (0 : ℝ) [[1, 2], [3, 4]] [[5, 6], [7, 8]] [10, 1] [1000, 100]
        + 3 * moment (0 : ℝ) [[0, 1], [1, 0]] [[5, 6], [7, 8]] [10, 1] [1000, 100] :=
  moment_linear 3 _ _ _ _ _ rfl (by intro j hj; simp only [List.length_cons, List.length_nil] at hj; interval_cases j <;> rfl)

/-- non-vacuity of `moment_zero`. -/
example : moment (0 : ℝ) [[0, 0], [0, 0]] [[5, 6], [7, 8]] [10, 1] [1000, 100] = 0 :=
  moment_zero _ _ _ _ (by simp)

end Props.C13
