/-
Property C19: "The first and second derivatives, gradients and Hessians computed by the numerical
differentiation helpers are exact, up to rounding, for every polynomial whose degree does not
exceed the number of stencil points minus one, at every evaluation point, for every step size,
for central stencils and for the one-sided stencils used next to a domain bound, and never
evaluate the function outside the stated bounds.  Results have the shape of the input."

Code: src/WallGo/helpers.py:12-426 (`derivative`, `gradient`, `hessian` and their tables).
Model: `Model.Deriv` instantiated at `K = ℝ`, `c = cR = fun q : ℚ => (q : ℝ)`; tables are the
generated `Gen.Q.Tables`.  "Up to rounding" = the theorems are exact statements over ℝ.
-/
import WallGoVerif.Lemmas.Stencil

namespace Props.C19
open Model.Deriv Gen.Q.Tables Lemmas.Stencil

/-! ## T19.1  Moment conditions of the generated tables -/

/-- **Moment conditions, all rows.** For every one of the four table pairs used by `derivative`
(`n ∈ {1,2}`, `order ∈ {2,4}`), every row (central and one-sided) has as many coefficients as
positions and satisfies `Σᵢ cᵢ·pᵢ^k = n!·[k = n]` for every `k ≤ #points − 1`.  Checked by kernel
evaluation on the regenerated tables, whatever rows they contain. (C19: exactness clause.) -/
theorem moments_all : ∀ n ∈ [1, 2], ∀ order ∈ [2, 4], tableOK n order = true := by
  decide +kernel

/-- Every row of the four tables has exactly `order + n − 1` stencil points and the tables are
non-empty (so that the row index computed from `offset` is always in range). -/
theorem rowLen_all : ∀ n ∈ [1, 2], ∀ order ∈ [2, 4], rowLenOK n order = true := by
  decide +kernel

/-- **Central rows are one degree better.** Row 0 of each table satisfies the moment conditions
also for `k = #points` (by symmetry). -/
theorem moments_central_extra : ∀ n ∈ [1, 2], ∀ order ∈ [2, 4], centralOK n order = true := by
  decide +kernel

/-- **One-sided rows are tight.** Every row with index `≥ 1` of each table violates the moment
condition of degree `k = #points`; so "degree ≤ #points − 1" cannot be improved for them. -/
theorem moments_oneSided_tight : ∀ n ∈ [1, 2], ∀ order ∈ [2, 4], oneSidedTight n order = true := by
  decide +kernel

/-- Unfolded form of `moments_all` (what the Boolean check means). -/
theorem moments_row (n order : ℕ) (hn : n = 1 ∨ n = 2) (ho : order = 2 ∨ order = 4) (r : ℕ)
    (hr : r < (posTable n order).length) :
    ∀ k < ((posTable n order).getD r []).length,
      momentSum ((posTable n order).getD r []) ((coeffTable n order).getD r []) k
        = if k = n then (n.factorial : ℚ) else 0 := by
  have hT : tableOK n order = true := moments_all n (by simp; tauto) order (by simp; tauto)
  intro k hk
  exact row_moments hT hr k (by omega)

example : momentSum ((posTable 2 4).getD 3 []) ((coeffTable 2 4).getD 3 []) 2 = 2 := by
  decide +kernel

/-! ## T19.2  Exactness of `derivative` -/

/-- The number of points at which `derivative` evaluates `f` is `order + n − 1`
(2 resp. 4 for first derivatives, 3 resp. 5 for second derivatives), whatever row is selected. -/
theorem positions_length (n order : ℕ) (hn : n = 1 ∨ n = 2) (ho : order = 2 ∨ order = 4)
    (x h : ℝ) (b : Bounds ℝ) : (positions cR n order x h b).length = order + n - 1 := by
  have hL : rowLenOK n order = true := rowLen_all n (by simp; tauto) order (by simp; tauto)
  have h0 : 0 < (posTable n order).length := by
    unfold rowLenOK at hL; simp only [Bool.and_eq_true, decide_eq_true_eq] at hL; exact hL.1
  unfold positions
  rw [List.length_map]
  exact row_length hL (pyIndex_lt h0 _)

/-- **Exactness of `derivative`.** For `n ∈ {1,2}`, `order ∈ {2,4}`, *any* bounds, any evaluation
point, any non-zero step, whichever (central or one-sided) row the offset logic selects, the
value returned by `derivative` for a polynomial of degree `≤ #stencil points − 1` is exactly its
`n`-th derivative at `x`. (C19: main exactness clause for first and second derivatives.) -/
theorem derivative_exact (n order : ℕ) (hn : n = 1 ∨ n = 2) (ho : order = 2 ∨ order = 4)
    (b : Bounds ℝ) (x h : ℝ) (hh : h ≠ 0) (P : Polynomial ℝ)
    (hP : P.natDegree ≤ (positions cR n order x h b).length - 1) :
    derivative cR (fun y => P.eval y) n order x h b
      = ((Polynomial.derivative)^[n] P).eval x := by
  have hT : tableOK n order = true := moments_all n (by simp; tauto) order (by simp; tauto)
  have hL : rowLenOK n order = true := rowLen_all n (by simp; tauto) order (by simp; tauto)
  have h0 : 0 < (posTable n order).length := by
    unfold rowLenOK at hL; simp only [Bool.and_eq_true, decide_eq_true_eq] at hL; exact hL.1
  have hr := pyIndex_lt h0 (offset cR order x h b)
  unfold positions at hP
  rw [List.length_map] at hP
  unfold derivative
  exact applyStencil_exact _ _ n _ (row_moments hT hr) P hP x h hh

/-- Same with the degree bound spelled out: degree `≤ order + n − 2`. -/
theorem derivative_exact' (n order : ℕ) (hn : n = 1 ∨ n = 2) (ho : order = 2 ∨ order = 4)
    (b : Bounds ℝ) (x h : ℝ) (hh : h ≠ 0) (P : Polynomial ℝ)
    (hP : P.natDegree ≤ order + n - 2) :
    derivative cR (fun y => P.eval y) n order x h b
      = ((Polynomial.derivative)^[n] P).eval x := by
  apply derivative_exact n order hn ho b x h hh P
  rw [positions_length n order hn ho]; omega

/-- **Central stencil: one more degree.** When the central row is selected (`rowOf = 0`, see
`central_when_fits`), `derivative` is exact for polynomials of degree `≤ #stencil points`. -/
theorem derivative_exact_central (n order : ℕ) (hn : n = 1 ∨ n = 2) (ho : order = 2 ∨ order = 4)
    (b : Bounds ℝ) (x h : ℝ) (hh : h ≠ 0) (hrow : rowOf cR n order x h b = 0)
    (P : Polynomial ℝ) (hP : P.natDegree ≤ (positions cR n order x h b).length) :
    derivative cR (fun y => P.eval y) n order x h b
      = ((Polynomial.derivative)^[n] P).eval x := by
  have hC : centralOK n order = true :=
    moments_central_extra n (by simp; tauto) order (by simp; tauto)
  unfold positions at hP
  rw [List.length_map, hrow] at hP
  unfold derivative
  simp only [hrow]
  exact applyStencil_exact _ _ n _ ((momentsOK_iff _ _ _ _).mp hC) P hP x h hh

/-- **Tightness for one-sided rows.** For every one-sided row `r ≥ 1` of every table, the monomial
of degree `m = #points` is *not* differentiated exactly at `x = 0` (the stencil gives a non-zero
value while the true `n`-th derivative vanishes): the degree class of `derivative_exact` is
sharp for the stencils used next to a bound. -/
theorem oneSided_not_exact (n order : ℕ) (hn : n = 1 ∨ n = 2) (ho : order = 2 ∨ order = 4)
    (r : ℕ) (hr1 : 1 ≤ r) (hr : r < (posTable n order).length) (h : ℝ) (hh : h ≠ 0) :
    applyStencil cR ((posTable n order).getD r []) ((coeffTable n order).getD r [])
        (fun y => (Polynomial.X ^ (order + n - 1) : Polynomial ℝ).eval y) n 0 h
      ≠ ((Polynomial.derivative)^[n] (Polynomial.X ^ (order + n - 1) : Polynomial ℝ)).eval 0 := by
  have hL : rowLenOK n order = true := rowLen_all n (by simp; tauto) order (by simp; tauto)
  have hT := oneSidedTight_row (moments_oneSided_tight n (by simp; tauto) order (by simp; tauto))
    hr hr1
  rw [row_length hL hr] at hT
  have hmn : order + n - 1 - n ≠ 0 := by rcases hn with rfl | rfl <;> rcases ho with rfl | rfl <;> simp
  simp only [Polynomial.eval_pow, Polynomial.eval_X]
  rw [applyStencil_pow_at_zero, Polynomial.iterate_derivative_X_pow_eq_smul]
  simp only [Polynomial.eval_smul, Polynomial.eval_pow, Polynomial.eval_X, smul_eq_mul,
    zero_pow hmn, mul_zero]
  have : ((momentSum ((posTable n order).getD r []) ((coeffTable n order).getD r [])
      (order + n - 1) : ℚ) : ℝ) ≠ 0 := by exact_mod_cast hT
  positivity

/-! ## T19.3  Gradient and Hessian -/

/-- **Exactness of one gradient component.** `gradient` uses the *central* first-derivative row
(`order` points) along each axis; for a polynomial restriction `t ↦ P(t)` of degree `≤ order`
(2 points: degree 2; 4 points: degree 4 — one better than "#points − 1" by symmetry) the
component equals `P'(0)`, for every non-zero step. (C19: gradient clause.) -/
theorem gradComp_exact (order : ℕ) (ho : order = 2 ∨ order = 4) (h : ℝ) (hh : h ≠ 0)
    (P : Polynomial ℝ) (hP : P.natDegree ≤ order) :
    gradComp cR order (fun t => P.eval t) h = (Polynomial.derivative P).eval 0 := by
  have hC : centralOK 1 order = true :=
    moments_central_extra 1 (by simp) order (by simp; tauto)
  have hL : rowLenOK 1 order = true := rowLen_all 1 (by simp) order (by simp; tauto)
  have h0 : 0 < (posTable 1 order).length := by
    unfold rowLenOK at hL; simp only [Bool.and_eq_true, decide_eq_true_eq] at hL; exact hL.1
  have hlen := row_length hL h0
  rw [gradComp_eq_applyStencil]
  unfold firstPos0 firstCoeff0
  rw [applyStencil_exact _ _ 1 _ ((momentsOK_iff _ _ _ _).mp hC) P (by rw [hlen]; omega) 0 h hh]
  rfl

/-- the mixed moments `Σₖ cₖ pₖ^a qₖ^b = [a = 1 ∧ b = 1]` of the Hessian stencils hold for all
`a + b ≤ order + 1` (3 for the 4-point stencil, 5 for the 8-point stencil). -/
theorem hessMoments_all : ∀ order ∈ [2, 4],
    hessMomentsOK ((hessPos order).getD 0 []) ((hessPos order).getD 1 []) (hessCoeff order)
      (order + 1) = true := by
  decide +kernel

/-- the diagonal (`i = j`) use of the Hessian stencils is a second-derivative stencil whose
moments `Σₖ cₖ (pₖ+qₖ)^k = 2·[k = 2]` hold for all `k ≤ order + 1`. -/
theorem diagMoments_all : ∀ order ∈ [2, 4],
    momentsOK (diagPos order) (hessCoeff order) 2 (order + 1) = true := by
  decide +kernel

/-- **Mixed Hessian entry on monomials.** For `g(s,t) = s^a·t^b` with total degree
`a + b ≤ order + 1` (≤ 3 for order 2, ≤ 5 for order 4) and non-zero steps, the off-diagonal
Hessian entry equals the true mixed derivative `∂ₛ∂ₜ g(0,0) = [a = 1 ∧ b = 1]`.
NOTE (scope of C19): the order-4 mixed stencil has 8 points, but it is *not* exact up to total
degree `8 − 1 = 7`; the provable class is total degree `≤ 5` (see `hessEntry_mixed_deg6_wrong`). -/
theorem hessEntry_monomial_exact (order : ℕ) (ho : order = 2 ∨ order = 4) (a b : ℕ)
    (hab : a + b ≤ order + 1) (hi hj : ℝ) (hhi : hi ≠ 0) (hhj : hj ≠ 0) :
    hessEntry cR order (fun s t => s ^ a * t ^ b) hi hj = if a = 1 ∧ b = 1 then 1 else 0 := by
  have hM := (hessMomentsOK_iff _ _ _ _).mp (hessMoments_all order (by simp; tauto)) a b hab
  rw [hessEntry_monomial, hM]
  split_ifs with h11
  · obtain ⟨rfl, rfl⟩ := h11
    push_cast; field_simp
  · simp

/-- **Mixed Hessian entry on polynomials (linearity).** For any finite linear combination
`g(s,t) = Σ_{(a,b)∈S} w(a,b)·s^a·t^b` of monomials of total degree `≤ order + 1`, the
off-diagonal entry is exactly the coefficient of `s·t`, i.e. `∂ₛ∂ₜ g(0,0)`. -/
theorem hessEntry_poly_exact (order : ℕ) (ho : order = 2 ∨ order = 4) (S : Finset (ℕ × ℕ))
    (w : ℕ × ℕ → ℝ) (hS : ∀ ab ∈ S, ab.1 + ab.2 ≤ order + 1) (hi hj : ℝ)
    (hhi : hi ≠ 0) (hhj : hj ≠ 0) :
    hessEntry cR order (fun s t => ∑ ab ∈ S, w ab * (s ^ ab.1 * t ^ ab.2)) hi hj
      = if (1, 1) ∈ S then w (1, 1) else 0 := by
  rw [hessEntry_finset_sum S w (fun ab s t => s ^ ab.1 * t ^ ab.2)]
  have : ∀ ab ∈ S, w ab * hessEntry cR order (fun s t => s ^ ab.1 * t ^ ab.2) hi hj
      = if ab = (1, 1) then w (1, 1) else 0 := by
    intro ab hab
    rw [hessEntry_monomial_exact order ho ab.1 ab.2 (hS ab hab) hi hj hhi hhj]
    by_cases h11 : ab = (1, 1)
    · subst h11; simp
    · have : ¬ (ab.1 = 1 ∧ ab.2 = 1) := fun h => h11 (Prod.ext h.1 h.2)
      simp [this, h11]
  rw [Finset.sum_congr rfl this, Finset.sum_ite_eq']

/-- `hessEntry` is linear in the function it differentiates. -/
theorem hessEntry_linear (order : ℕ) (f g : ℝ → ℝ → ℝ) (a b hi hj : ℝ) :
    hessEntry cR order (fun s t => a * f s t + b * g s t) hi hj
      = a * hessEntry cR order f hi hj + b * hessEntry cR order g hi hj :=
  hessEntry_add_smul f g a b order hi hj

/-- **Diagonal Hessian entry.** For `i = j` the code evaluates `g(s,t) = G(s+t)` with one step
size; for a polynomial `G = P` of degree `≤ order + 1` (3 resp. 5) the entry equals `P''(0)`. -/
theorem hessEntry_diag_exact (order : ℕ) (ho : order = 2 ∨ order = 4) (h : ℝ) (hh : h ≠ 0)
    (P : Polynomial ℝ) (hP : P.natDegree ≤ order + 1) :
    hessEntry cR order (fun s t => P.eval (s + t)) h h
      = ((Polynomial.derivative)^[2] P).eval 0 := by
  rw [hessEntry_diag order (fun y => P.eval y) h]
  exact applyStencil_exact _ _ 2 _
    ((momentsOK_iff _ _ _ _).mp (diagMoments_all order (by simp; tauto))) P hP 0 h hh

/-- **Tightness witness, order 4 (8-point mixed stencil).** On `g(s,t) = s³t³` (total degree 6,
below "#points − 1 = 7") the stencil returns `−4·hᵢ²·hⱼ²`, whereas `∂ₛ∂ₜ g(0,0) = 0`. Hence the
literal reading "exact up to degree #points − 1" is false for the order-4 mixed Hessian stencil;
the true class is total degree `≤ 5` (`hessEntry_monomial_exact`). -/
theorem hessEntry_mixed_deg6_wrong (hi hj : ℝ) (hhi : hi ≠ 0) (hhj : hj ≠ 0) :
    hessEntry cR 4 (fun s t => s ^ 3 * t ^ 3) hi hj = -4 * hi ^ 2 * hj ^ 2
      ∧ hessEntry cR 4 (fun s t => s ^ 3 * t ^ 3) hi hj ≠ 0 := by
  have hM : hessMoment ((hessPos 4).getD 0 []) ((hessPos 4).getD 1 []) (hessCoeff 4) 3 3 = -4 := by
    decide +kernel
  have e : hessEntry cR 4 (fun s t => s ^ 3 * t ^ 3) hi hj = -4 * hi ^ 2 * hj ^ 2 := by
    rw [hessEntry_monomial, hM]; push_cast; field_simp
  refine ⟨e, ?_⟩
  rw [e]; positivity

/-- **Tightness witness, order 2 (4-point mixed stencil).** On `g(s,t) = s·t³` (total degree 4)
the stencil returns `hⱼ²` instead of `0`: total degree `≤ 3 = #points − 1` is sharp. -/
theorem hessEntry_mixed_deg4_wrong (hi hj : ℝ) (hhi : hi ≠ 0) (hhj : hj ≠ 0) :
    hessEntry cR 2 (fun s t => s ^ 1 * t ^ 3) hi hj = hj ^ 2
      ∧ hessEntry cR 2 (fun s t => s ^ 1 * t ^ 3) hi hj ≠ 0 := by
  have hM : hessMoment ((hessPos 2).getD 0 []) ((hessPos 2).getD 1 []) (hessCoeff 2) 1 3 = 1 := by
    decide +kernel
  have e : hessEntry cR 2 (fun s t => s ^ 1 * t ^ 3) hi hj = hj ^ 2 := by
    rw [hessEntry_monomial, hM]; push_cast; field_simp
  refine ⟨e, ?_⟩
  rw [e]; positivity

/-- **Tightness witness, diagonal.** For `G(y) = y^(order+2)` the diagonal entry is
`h^order · M` with `M = 8` (order 2) resp. `−128` (order 4), not `G''(0) = 0`. -/
theorem hessEntry_diag_tight (h : ℝ) (hh : h ≠ 0) :
    hessEntry cR 2 (fun s t => (s + t) ^ 4) h h = 8 * h ^ 2 ∧
    hessEntry cR 4 (fun s t => (s + t) ^ 6) h h = -128 * h ^ 4 := by
  have h2 : momentSum (diagPos 2) (hessCoeff 2) 4 = 8 := by decide +kernel
  have h4 : momentSum (diagPos 4) (hessCoeff 4) 6 = -128 := by decide +kernel
  constructor
  · rw [hessEntry_diag 2 (fun y => y ^ 4) h, applyStencil_pow_at_zero, h2]; push_cast; field_simp
  · rw [hessEntry_diag 4 (fun y => y ^ 6) h, applyStencil_pow_at_zero, h4]; push_cast; field_simp

/-! ## T19.4  Evaluation points stay inside the bounds -/

set_option linter.unusedSimpArgs false in
/-- **Master in-bounds theorem.** `n ∈ {1,2}`, `order ∈ {2,4}`, step `h > 0`, `x` inside the bounds.
If, *whenever both bounds are finite*, the interval is at least `(order + n − 1)·h` wide
(2h, 3h, 4h, 5h for (n,order) = (1,2), (2,2), (1,4), (2,4)), then every point at which
`derivative` evaluates `f` lies inside the bounds.  The width hypothesis is forced by the code
(see `narrow_bounds_escape*`: it is the weakest uniform one) and is vacuous for half-lines. -/
theorem positions_in_bounds (n order : ℕ) (hn : n = 1 ∨ n = 2) (ho : order = 2 ∨ order = 4)
    (x h : ℝ) (b : Bounds ℝ) (hh : 0 < h) (hx : InBounds b x)
    (hw : ∀ l u, b.lo = some l → b.hi = some u → ((order + n - 1 : ℕ) : ℝ) * h ≤ u - l) :
    ∀ y ∈ positions cR n order x h b, InBounds b y := by
  intro y hy
  rcases b with ⟨_ | l, _ | u⟩
  · simp [InBounds]
  · have hxu : x ≤ u := hx.2 u rfl
    clear hx hw
    rcases hn with rfl | rfl <;> rcases ho with rfl | rfl <;>
    ( pos_unfold
      by_cases A1 : u < x + h <;> by_cases A2 : u < x + 2 * h <;>
        simp [A1, A2, pyIndex] at hy ⊢ <;>
      (casesm* _ ∨ _ <;> subst y <;> linarith))
  · have hxl : l ≤ x := hx.1 l rfl
    clear hx hw
    rcases hn with rfl | rfl <;> rcases ho with rfl | rfl <;>
    ( pos_unfold
      by_cases B1 : x - h < l <;> by_cases B2 : x - 2 * h < l <;>
        simp [B1, B2, pyIndex] at hy ⊢ <;>
      (casesm* _ ∨ _ <;> subst y <;> linarith))
  · have hw' := hw l u rfl rfl
    have hxl : l ≤ x := hx.1 l rfl
    have hxu : x ≤ u := hx.2 u rfl
    clear hx hw
    rcases hn with rfl | rfl <;> rcases ho with rfl | rfl <;>
    ( norm_num at hw'
      pos_unfold
      by_cases A1 : u < x + h <;> by_cases A2 : u < x + 2 * h <;>
      by_cases B1 : x - h < l <;> by_cases B2 : x - 2 * h < l <;>
        simp [A1, A2, B1, B2, pyIndex] at hy ⊢ <;>
      (casesm* _ ∨ _ <;> subst y <;> constructor <;> linarith))

/-- **(a) Two finite bounds, wide enough.** If `lo ≤ x ≤ hi`, `h > 0` and
`hi − lo ≥ (order + n − 1)·h`, every evaluation point of `derivative` is in `[lo, hi]`. -/
theorem positions_in_bounds_wide (n order : ℕ) (hn : n = 1 ∨ n = 2) (ho : order = 2 ∨ order = 4)
    (x h lo hi : ℝ) (hh : 0 < h) (hlo : lo ≤ x) (hhi : x ≤ hi)
    (hw : ((order + n - 1 : ℕ) : ℝ) * h ≤ hi - lo) :
    ∀ y ∈ positions cR n order x h ⟨some lo, some hi⟩, lo ≤ y ∧ y ≤ hi := by
  intro y hy
  have := positions_in_bounds n order hn ho x h ⟨some lo, some hi⟩ hh
    ⟨fun l hl => by cases hl; exact hlo, fun u hu => by cases hu; exact hhi⟩
    (fun l u hl hu => by cases hl; cases hu; exact hw) y hy
  exact ⟨this.1 lo rfl, this.2 hi rfl⟩

/-- **(b) Half-lines (the only way WallGo itself calls `derivative`: bounds `(0, ∞)`).**
If at least one bound is infinite, then with *no* width hypothesis every evaluation point
respects the finite bound. -/
theorem positions_in_bounds_halfline (n order : ℕ) (hn : n = 1 ∨ n = 2)
    (ho : order = 2 ∨ order = 4) (x h : ℝ) (b : Bounds ℝ) (hh : 0 < h) (hx : InBounds b x)
    (hb : b.lo = none ∨ b.hi = none) :
    ∀ y ∈ positions cR n order x h b, InBounds b y := by
  apply positions_in_bounds n order hn ho x h b hh hx
  intro l u hl hu
  rcases hb with hb | hb
  · rw [hb] at hl; cases hl
  · rw [hb] at hu; cases hu

/-- **(c) The central stencil is used whenever it fits.** If `x ± (order/2)·h` respects the
finite bounds (and `h ≥ 0`), the selected row is the central row 0 — so `derivative_exact_central`
applies away from the bounds. -/
theorem central_when_fits (n order : ℕ) (hn : n = 1 ∨ n = 2) (ho : order = 2 ∨ order = 4)
    (x h : ℝ) (b : Bounds ℝ) (hh : 0 ≤ h)
    (hlo : ∀ l, b.lo = some l → l ≤ x - ((order / 2 : ℕ) : ℝ) * h)
    (hhi : ∀ u, b.hi = some u → x + ((order / 2 : ℕ) : ℝ) * h ≤ u) :
    rowOf cR n order x h b = 0 := by
  rcases ho with rfl | rfl
  · -- order 2: only `x ± h` is tested
    rcases b with ⟨_ | l, _ | u⟩
    · rcases hn with rfl | rfl <;> simp [rowOf, offset, aboveHi, belowLo, pyIndex]
    · have h1 := hhi u rfl
      norm_num at h1
      have A1 : ¬ u < x + h := by linarith
      rcases hn with rfl | rfl <;> simp [rowOf, offset, aboveHi, belowLo, pyIndex, A1]
    · have h1 := hlo l rfl
      norm_num at h1
      have B1 : ¬ x - h < l := by linarith
      rcases hn with rfl | rfl <;> simp [rowOf, offset, aboveHi, belowLo, pyIndex, B1]
    · have h1 := hhi u rfl
      have h2 := hlo l rfl
      norm_num at h1 h2
      have A1 : ¬ u < x + h := by linarith
      have B1 : ¬ x - h < l := by linarith
      rcases hn with rfl | rfl <;> simp [rowOf, offset, aboveHi, belowLo, pyIndex, A1, B1]
  · -- order 4: `x ± h` and `x ± 2h` are tested
    rcases b with ⟨_ | l, _ | u⟩
    · rcases hn with rfl | rfl <;> simp [rowOf, offset, aboveHi, belowLo, pyIndex]
    · have h1 := hhi u rfl
      norm_num at h1
      have A1 : ¬ u < x + h := by linarith
      have A2 : ¬ u < x + 2 * h := by linarith
      rcases hn with rfl | rfl <;> simp [rowOf, offset, aboveHi, belowLo, pyIndex, A1, A2]
    · have h1 := hlo l rfl
      norm_num at h1
      have B1 : ¬ x - h < l := by linarith
      have B2 : ¬ x - 2 * h < l := by linarith
      rcases hn with rfl | rfl <;> simp [rowOf, offset, aboveHi, belowLo, pyIndex, B1, B2]
    · have h1 := hhi u rfl
      have h2 := hlo l rfl
      norm_num at h1 h2
      have A1 : ¬ u < x + h := by linarith
      have A2 : ¬ u < x + 2 * h := by linarith
      have B1 : ¬ x - h < l := by linarith
      have B2 : ¬ x - 2 * h < l := by linarith
      rcases hn with rfl | rfl <;>
        simp [rowOf, offset, aboveHi, belowLo, pyIndex, A1, A2, B1, B2]

/-- **(d) Known defect: narrow two-sided bounds.** `lo = 0`, `hi = 1`, `x = 1/2`, `h = 3/8`,
`n = 1`, `order = 4`: `lo ≤ x ≤ hi`, `hi − lo = 1 < 4h`, the tests `x+2h > hi` and `x−2h < lo`
cancel in `offset`, the central row is used and `f` is evaluated at `5/4 > hi` (and `−1/4 < lo`).
So the in-bounds clause of C19 is false for the code without a width hypothesis. -/
theorem narrow_bounds_escape :
    ∃ y ∈ positions cR 1 4 (1/2) (3/8) ⟨some 0, some 1⟩, ¬ InBounds ⟨some 0, some 1⟩ y := by
  refine ⟨5/4, ?_, ?_⟩
  · simp only [positions, rowOf, offset, aboveHi, belowLo, posTable, FIRST_DERIV_POS_4, cR]
    norm_num [pyIndex]
  · simp only [InBounds]; norm_num

/-- The same instance on the executable `K = ℚ` model: the four evaluation points. -/
theorem narrow_bounds_escape_rat :
    positions (K := ℚ) id 1 4 (1/2) (3/8) ⟨some 0, some 1⟩ = [-1/4, 1/8, 7/8, 5/4] := by
  decide +kernel

/-- **The width hypothesis `(order + n − 1)·h ≤ hi − lo` is the weakest uniform one.** On `[0,1]`
(`K = ℚ` model), for each `(n, order)` a step with `(order + n − 2)·h ≤ 1 < (order + n − 1)·h`
and an `x ∈ [0,1]` whose first evaluation point is negative:
(1,2): `h = 3/4`; (2,2): `h = 2/5`; (1,4): `h = 3/10`; (2,4): `h = 9/40`. -/
theorem width_hypothesis_sharp :
    positions (K := ℚ) id 1 2 (1/2) (3/4) ⟨some 0, some 1⟩ = [-1/4, 5/4] ∧
    positions (K := ℚ) id 2 2 (7/10) (2/5) ⟨some 0, some 1⟩ = [-1/10, 3/10, 7/10] ∧
    positions (K := ℚ) id 1 4 (4/5) (3/10) ⟨some 0, some 1⟩ = [-1/10, 1/5, 1/2, 4/5] ∧
    positions (K := ℚ) id 2 4 (4/5) (9/40) ⟨some 0, some 1⟩
      = [-1/10, 1/8, 7/20, 23/40, 4/5] := by
  decide +kernel

/-- **The hypothesis `h > 0` is needed** (the Python code never checks the sign of a user-supplied
`dx`): with bounds `(0, ∞)`, `x = 0`, `h = −1` no test fires, the central row is used and `f` is
evaluated at `−1` and `−2` (`K = ℚ` model). Exactness (`derivative_exact`) only needs `h ≠ 0`. -/
theorem negative_step_escape :
    positions (K := ℚ) id 1 4 0 (-1) ⟨some 0, none⟩ = [2, 1, -1, -2] := by
  decide +kernel

/-! ## T19.5  Linearity and shapes -/

/-- `derivative` is linear in `f` (the selected row does not depend on `f`). -/
theorem derivative_linear (f g : ℝ → ℝ) (a b' : ℝ) (n order : ℕ) (x h : ℝ) (b : Bounds ℝ) :
    derivative cR (fun y => a * f y + b' * g y) n order x h b
      = a * derivative cR f n order x h b + b' * derivative cR g n order x h b := by
  unfold derivative
  exact applyStencil_linear _ _ f g a b' n x h

/-- `gradient` appends one axis of the length of the axis selection to the batch shape. -/
theorem gradShape_spec (s : List ℕ) (a : ℕ) :
    (gradShape s a).length = s.length + 1 ∧ (gradShape s a).dropLast = s
      ∧ (gradShape s a).getLast? = some a := by
  simp [gradShape]

/-- `hessian` appends two axes (lengths of the two axis selections) to the batch shape. -/
theorem hessShape_spec (s : List ℕ) (a b : ℕ) :
    (hessShape s a b).length = s.length + 2 ∧ (hessShape s a b).take s.length = s
      ∧ (hessShape s a b).drop s.length = [a, b] := by
  simp [hessShape]

/-- a normalised axis index is a valid axis. -/
theorem normAxis_lt (d : ℕ) (i : ℤ) (j : ℕ) (hj : normAxis d i = some j) : j < d := by
  unfold normAxis at hj
  split_ifs at hj with hc
  · have hd : 0 < d := by omega
    cases hj
    exact pyIndex_lt hd i

/-- non-negative indices are kept. -/
theorem normAxis_nonneg (d : ℕ) (i : ℤ) (h0 : 0 ≤ i) (h1 : i < d) :
    normAxis d i = some i.toNat := by
  unfold normAxis pyIndex
  rw [if_pos ⟨by omega, h1⟩, Int.emod_eq_of_lt h0 h1]

/-- negative indices count from the end: `i ↦ d + i`. -/
theorem normAxis_neg (d : ℕ) (i : ℤ) (h0 : -(d : ℤ) ≤ i) (h1 : i < 0) :
    normAxis d i = some ((d : ℤ) + i).toNat := by
  unfold normAxis pyIndex
  rw [if_pos ⟨h0, by omega⟩]
  have : i % (d : ℤ) = (i + d) % (d : ℤ) := by simp
  rw [this, Int.emod_eq_of_lt (by omega) (by omega), add_comm]

/-- indices outside `[-d, d)` are rejected (the Python `assert`). -/
theorem normAxis_none (d : ℕ) (i : ℤ) (h : i < -(d : ℤ) ∨ (d : ℤ) ≤ i) : normAxis d i = none := by
  unfold normAxis
  rw [if_neg (by omega)]

/-! ## Non-vacuity / concrete instances -/

/-- a cubic next to the lower bound (`x = lo = 0`, one-sided row 2 is used): direct evaluation of
the model gives the exact derivative `-2`. -/
example : derivative cR (fun y => y ^ 3 - 2 * y + 1) 1 4 0 (1/2) ⟨some 0, none⟩ = -2 := by
  simp only [derivative, applyStencil, rowOf, offset, aboveHi, belowLo, posTable, coeffTable,
    FIRST_DERIV_POS_4, FIRST_DERIV_COEFF_4, cR, hpow]
  norm_num [pyIndex, show Int.toNat 2 = 2 from rfl]

/-- the same on the executable `ℚ` model. -/
example : derivative (K := ℚ) id (fun y => y ^ 3 - 2 * y + 1) 1 4 0 (1/2) ⟨some 0, none⟩ = -2 := by
  decide +kernel

open Polynomial in
/-- `derivative_exact` has satisfiable hypotheses and gives the same number. -/
example : derivative cR (fun y => (X ^ 3 - 2 * X + 1 : ℝ[X]).eval y) 1 4 0 (1/2) ⟨some 0, none⟩
    = -2 := by
  rw [derivative_exact 1 4 (by simp) (by simp) _ 0 (1/2) (by norm_num) (X ^ 3 - 2 * X + 1)
    (by rw [positions_length 1 4 (by simp) (by simp)]; compute_degree)]
  simp

open Polynomial in
/-- `central_when_fits` + `derivative_exact_central`: `X⁴` (degree = #points) at `x = 2`. -/
example : derivative cR (fun y => (X ^ 4 : ℝ[X]).eval y) 1 4 2 (1/2) ⟨some 0, none⟩ = 32 := by
  have hrow : rowOf cR 1 4 (2 : ℝ) (1/2) ⟨some 0, none⟩ = 0 :=
    central_when_fits 1 4 (by simp) (by simp) 2 (1/2) _ (by norm_num)
      (fun l hl => by cases hl; norm_num) (fun u hu => by cases hu)
  rw [derivative_exact_central 1 4 (by simp) (by simp) _ 2 (1/2) (by norm_num) hrow (X ^ 4)
    (by rw [positions_length 1 4 (by simp) (by simp)]; compute_degree)]
  simp; norm_num

example : applyStencil cR ((posTable 1 4).getD 2 []) ((coeffTable 1 4).getD 2 [])
    (fun y => (Polynomial.X ^ (4 + 1 - 1) : Polynomial ℝ).eval y) 1 0 1
    ≠ ((Polynomial.derivative)^[1] (Polynomial.X ^ (4 + 1 - 1) : Polynomial ℝ)).eval 0 :=
  oneSided_not_exact 1 4 (by simp) (by simp) 2 (by norm_num) (by decide) 1 one_ne_zero

open Polynomial in
example : gradComp cR 4 (fun t => (X ^ 4 + 3 * X : ℝ[X]).eval t) (1/10) = 3 := by
  rw [gradComp_exact 4 (by simp) (1/10) (by norm_num) (X ^ 4 + 3 * X) (by compute_degree)]
  simp

example : hessEntry cR 4 (fun s t => s ^ 1 * t ^ 1) (1/10) (1/5) = 1 := by
  rw [hessEntry_monomial_exact 4 (by simp) 1 1 (by norm_num) _ _ (by norm_num) (by norm_num)]
  simp

example : hessEntry cR 4 (fun s t => s ^ 2 * t ^ 3) (1/10) (1/5) = 0 := by
  rw [hessEntry_monomial_exact 4 (by simp) 2 3 (by norm_num) _ _ (by norm_num) (by norm_num)]
  simp

example : hessEntry cR 2
    (fun s t => ∑ ab ∈ ({(1, 1), (2, 1), (0, 0)} : Finset (ℕ × ℕ)),
      (fun ab : ℕ × ℕ => (ab.1 + 7 * ab.2 : ℝ)) ab * (s ^ ab.1 * t ^ ab.2)) (1/10) (1/5) = 8 := by
  rw [hessEntry_poly_exact 2 (by simp) _ _ (by decide) _ _ (by norm_num) (by norm_num)]
  norm_num

open Polynomial in
example : hessEntry cR 4 (fun s t => (X ^ 5 + 3 * X ^ 2 : ℝ[X]).eval (s + t)) (1/10) (1/10) = 6 := by
  rw [hessEntry_diag_exact 4 (by simp) (1/10) (by norm_num) (X ^ 5 + 3 * X ^ 2)
    (by compute_degree)]
  simp; norm_num

example : hessEntry cR 4 (fun s t => s ^ 3 * t ^ 3) 1 1 = -4 := by
  rw [(hessEntry_mixed_deg6_wrong 1 1 one_ne_zero one_ne_zero).1]; norm_num

/-- width exactly `4h` (`n = 1`, `order = 4`), `x` at the upper bound. -/
example : ∀ y ∈ positions cR 1 4 1 (1/4) ⟨some 0, some 1⟩, (0 : ℝ) ≤ y ∧ y ≤ 1 :=
  positions_in_bounds_wide 1 4 (by simp) (by simp) 1 (1/4) 0 1 (by norm_num) (by norm_num)
    (by norm_num) (by norm_num)

/-- WallGo's own usage: bounds `(0, ∞)`, `x` at the bound, any positive step. -/
example : ∀ y ∈ positions cR 2 4 0 1 ⟨some 0, none⟩, InBounds ⟨some 0, none⟩ y :=
  positions_in_bounds_halfline 2 4 (by simp) (by simp) 0 1 _ (by norm_num)
    ⟨fun l hl => by cases hl; exact le_rfl, fun u hu => by cases hu⟩ (Or.inr rfl)

example : rowOf cR 2 4 (1 : ℝ) (1/4) ⟨some 0, some 2⟩ = 0 :=
  central_when_fits 2 4 (by simp) (by simp) 1 (1/4) _ (by norm_num)
    (fun l hl => by cases hl; norm_num) (fun u hu => by cases hu; norm_num)

example : normAxis 3 (-1) = some 2 ∧ normAxis 3 2 = some 2 ∧ normAxis 3 3 = none
    ∧ normAxis 3 (-4) = none := by decide

example : normAxis 3 (-3) = some 0 := by
  have := normAxis_neg 3 (-3) (by norm_num) (by norm_num); simpa using this

end Props.C19
