/-
Property C17.  "On every grid the map from compact to physical coordinates is strictly increasing
in each direction, sends the compact origin to the wall centre, and the reported Jacobian equals
the derivative of that map at every point; the inverse map offered by the same grid object undoes
it.  For the three-scale position map the slope at the centre equals the wall thickness divided by
the fraction of points assigned to the wall."

All statements are about the GENERATED real-number copies `Gen.R.Grid.*` (src/WallGo/grid.py) and
`Gen.R.Grid3.*` (src/WallGo/grid3Scales.py).  Helper lemmas: `Lemmas/GridMaps.lean`.
-/
import WallGoVerif.Lemmas.GridMaps

namespace Props.C17

open Set WG.GridMaps

/-! ## Simple grid (`Grid`) -/

section Simple
open Gen.R.Grid

/-- [Jacobian = derivative, position] `Grid.compactificationDerivatives` reports
`L/(1-χ²)^{3/2}`, which is the derivative of `Grid.decompactify`'s `z = Lχ/√(1-χ²)` at every
`|χ| < 1`. No condition on `L`. (Outside `|χ| < 1` nothing is claimed: there the model's `√` of a
negative number is `0`.) -/
theorem grid_hasDerivAt_z (s : GridP) (a b : ℝ) {χ : ℝ} (hχ : |χ| < 1) :
    HasDerivAt (fun χ => (decompactify s χ a b).1) (compactificationDerivatives s χ a b).1 χ :=
  hasDerivAt_zmap s.positionFalloff hχ

/-- [Jacobian = derivative, p_z] `2T/(1-ρ²)` is the derivative of `p_z = 2T·artanh ρ` at every
`|ρ| < 1`. No condition on `T`. -/
theorem grid_hasDerivAt_pz (s : GridP) (a b : ℝ) {ρ : ℝ} (hρ : |ρ| < 1) :
    HasDerivAt (fun ρ => (decompactify s a ρ b).2.1) (compactificationDerivatives s a ρ b).2.1 ρ :=
  hasDerivAt_pzmap s.momentumFalloffT hρ

/-- [Jacobian = derivative, p_∥] `T/(1-ρ)` is the derivative of `p_∥ = -T·log((1-ρ)/2)` at every
`ρ ≠ 1` (in particular on the grid's domain `[-1,1)`). No condition on `T`. -/
theorem grid_hasDerivAt_pp (s : GridP) (a b : ℝ) {ρ : ℝ} (hρ : ρ ≠ 1) :
    HasDerivAt (fun ρ => (decompactify s a b ρ).2.2) (compactificationDerivatives s a b ρ).2.2 ρ :=
  hasDerivAt_ppmap s.momentumFalloffT hρ

/-- [positivity] the position Jacobian is positive on `(-1,1)` when `positionFalloff > 0`. -/
theorem grid_jacobian_z_pos (s : GridP) (a b : ℝ) (hL : 0 < s.positionFalloff) {χ : ℝ}
    (hχ : |χ| < 1) : 0 < (compactificationDerivatives s χ a b).1 := by
  have hw := one_sub_sq_pos hχ
  show 0 < s.positionFalloff / WG.R.rpow (1 - χ ^ 2) (3 / 2 : ℝ)
  rw [rpow_three_halves hw]
  have := Real.sqrt_pos.mpr hw
  positivity

/-- [positivity] the `p_z` Jacobian is positive on `(-1,1)` when `momentumFalloffT > 0`. -/
theorem grid_jacobian_pz_pos (s : GridP) (a b : ℝ) (hT : 0 < s.momentumFalloffT) {ρ : ℝ}
    (hρ : |ρ| < 1) : 0 < (compactificationDerivatives s a ρ b).2.1 := by
  have hw := one_sub_sq_pos hρ
  show 0 < 2 * s.momentumFalloffT / (1 - ρ ^ 2)
  positivity

/-- [positivity] the `p_∥` Jacobian is positive for `ρ < 1` when `momentumFalloffT > 0`. -/
theorem grid_jacobian_pp_pos (s : GridP) (a b : ℝ) (hT : 0 < s.momentumFalloffT) {ρ : ℝ}
    (hρ : ρ < 1) : 0 < (compactificationDerivatives s a b ρ).2.2 := by
  show 0 < s.momentumFalloffT / (1 - ρ)
  exact div_pos hT (by linarith)

/-- [strictly increasing, position] -/
theorem grid_strictMonoOn_z (s : GridP) (a b : ℝ) (hL : 0 < s.positionFalloff) :
    StrictMonoOn (fun χ => (decompactify s χ a b).1) (Ioo (-1) 1) :=
  strictMonoOn_of_hasDerivAt_pos (convex_Ioo _ _)
    (f' := fun χ => (compactificationDerivatives s χ a b).1)
    (fun _ hx => grid_hasDerivAt_z s a b (abs_lt.mpr hx))
    (fun _ hx => grid_jacobian_z_pos s a b hL (abs_lt.mpr hx))

/-- [strictly increasing, p_z] -/
theorem grid_strictMonoOn_pz (s : GridP) (a b : ℝ) (hT : 0 < s.momentumFalloffT) :
    StrictMonoOn (fun ρ => (decompactify s a ρ b).2.1) (Ioo (-1) 1) :=
  strictMonoOn_of_hasDerivAt_pos (convex_Ioo _ _)
    (f' := fun ρ => (compactificationDerivatives s a ρ b).2.1)
    (fun _ hx => grid_hasDerivAt_pz s a b (abs_lt.mpr hx))
    (fun _ hx => grid_jacobian_pz_pos s a b hT (abs_lt.mpr hx))

/-- [strictly increasing, p_∥] on the whole half-line `ρ < 1` (which contains the grid's `[-1,1)`). -/
theorem grid_strictMonoOn_pp (s : GridP) (a b : ℝ) (hT : 0 < s.momentumFalloffT) :
    StrictMonoOn (fun ρ => (decompactify s a b ρ).2.2) (Iio 1) :=
  strictMonoOn_of_hasDerivAt_pos (convex_Iio _)
    (f' := fun ρ => (compactificationDerivatives s a b ρ).2.2)
    (fun _ hx => grid_hasDerivAt_pp s a b (ne_of_lt hx))
    (fun _ hx => grid_jacobian_pp_pos s a b hT hx)

/-- [inverse undoes it: compactify ∘ decompactify = id] for compact inputs in the domain
(`|χ|<1`, `|ρz|<1`, `ρp<1`), given `positionFalloff > 0` and `momentumFalloffT ≠ 0`.
`positionFalloff > 0` is used by the proof (for `L < 0` the first component would come back
as `-χ`, since `√(L²+z²) = |L|/√(1-χ²)`). -/
theorem grid_compactify_decompactify (s : GridP) (hL : 0 < s.positionFalloff)
    (hT : s.momentumFalloffT ≠ 0) {χ ρz ρp : ℝ} (hχ : |χ| < 1) (hρz : |ρz| < 1) (hρp : ρp < 1) :
    compactify s (decompactify s χ ρz ρp).1 (decompactify s χ ρz ρp).2.1
      (decompactify s χ ρz ρp).2.2 = (χ, ρz, ρp) := by
  refine Prod.ext ?_ (Prod.ext ?_ ?_)
  · exact zcompact_zmap hL hχ
  · exact pzcompact_pzmap hT hρz
  · exact ppcompact_ppmap hT hρp

/-- [inverse undoes it: decompactify ∘ compactify = id] for ALL physical inputs (any real `z`,
`pz`, `pp`), given `positionFalloff > 0` and `momentumFalloffT ≠ 0`. -/
theorem grid_decompactify_compactify (s : GridP) (hL : 0 < s.positionFalloff)
    (hT : s.momentumFalloffT ≠ 0) (z pz pp : ℝ) :
    decompactify s (compactify s z pz pp).1 (compactify s z pz pp).2.1
      (compactify s z pz pp).2.2 = (z, pz, pp) := by
  refine Prod.ext ?_ (Prod.ext ?_ ?_)
  · exact zmap_zcompact hL z
  · exact pzmap_pzcompact hT pz
  · exact ppmap_ppcompact hT pp

/-- [compactify lands in the domain] `|χ|<1`, `|ρz|<1` for all physical inputs and `ρp ∈ [-1,1)`
for `pp ≥ 0` (`T > 0`, `L ≠ 0`). -/
theorem grid_compactify_mem (s : GridP) (hL : s.positionFalloff ≠ 0) (hT : 0 < s.momentumFalloffT)
    (z pz : ℝ) {pp : ℝ} (hpp : 0 ≤ pp) :
    |(compactify s z pz pp).1| < 1 ∧ |(compactify s z pz pp).2.1| < 1 ∧
      -1 ≤ (compactify s z pz pp).2.2 ∧ (compactify s z pz pp).2.2 < 1 := by
  refine ⟨zcompact_abs_lt_one hL z, ?_, ppcompact_mem hT hpp⟩
  exact abs_lt.mpr ⟨Real.neg_one_lt_tanh _, Real.tanh_lt_one _⟩

/-- [origin ↦ wall centre] the simple grid is centred at `0`: `z(0) = 0` and `p_z(0) = 0`
(no hypotheses). -/
theorem grid_origin (s : GridP) (a b c d : ℝ) :
    (decompactify s 0 a b).1 = 0 ∧ (decompactify s c 0 d).2.1 = 0 := by
  constructor
  · show s.positionFalloff * 0 / √(1 - 0 ^ 2) = 0
    simp
  · show 2 * s.momentumFalloffT * WG.R.artanh 0 = 0
    rw [WG.GridMaps.artanh_zero]; ring

/-- non-vacuity of the simple-grid hypotheses. -/
example : ∃ s : GridP, 0 < s.positionFalloff ∧ 0 < s.momentumFalloffT ∧ s.momentumFalloffT ≠ 0 ∧
    ∃ χ : ℝ, |χ| < 1 ∧ χ ≠ 0 :=
  ⟨⟨2, 3⟩, by norm_num, by norm_num, by norm_num, 1 / 2, by norm_num [abs_lt], by norm_num⟩

end Simple

/-! ## Three-scale grid (`Grid3Scales`) -/

section ThreeScales
open Gen.R.Grid3

/-- non-vacuity: a concrete record in the state `_updateParameters` leaves
(`L=1, r=1/2, σ=1/10`, tails `5`, centre `2`), with `σ < 1`. -/
example : ∃ s : Grid3P, Grid3WF s ∧ s.smoothing < 1 ∧ s.wallCenter ≠ 0 :=
  ⟨goodGrid, goodGrid_wf, by norm_num [goodGrid], by norm_num [goodGrid]⟩

/-- [Jacobian = derivative, position] the value reported by
`Grid3Scales.compactificationDerivatives` is the derivative of `Grid3Scales.decompactify`'s
position map `totalMapping(χ) − totalMapping(0) + wallCenter` at every `|χ| < 1`.
Only `aIn ≠ 0`, `aOut ≠ 0`, `ratioPointsWall ≠ 0` are used (no sign, no `r < 1`, no relation
between `aIn/aOut` and the other parameters). -/
theorem grid3_hasDerivAt_z (s : Grid3P) (a b : ℝ) (haIn : s.aIn ≠ 0) (haOut : s.aOut ≠ 0)
    (hr : s.ratioPointsWall ≠ 0) {χ : ℝ} (hχ : |χ| < 1) :
    HasDerivAt (fun χ => (decompactify s χ a b).1) (compactificationDerivatives s χ a b).1 χ :=
  hasDerivAt_decompactify3_fst a b haIn haOut hr hχ

/-- Same, for every record produced by `_updateParameters`. -/
theorem grid3_hasDerivAt_z_of_wf (s : Grid3P) (h : Grid3WF s) (a b : ℝ) {χ : ℝ} (hχ : |χ| < 1) :
    HasDerivAt (fun χ => (decompactify s χ a b).1) (compactificationDerivatives s χ a b).1 χ :=
  grid3_hasDerivAt_z s a b h.aIn_pos.ne' h.aOut_pos.ne' h.ratio_pos.ne' hχ

/-- [origin ↦ wall centre] `z(0) = wallCenter`, unconditionally. -/
theorem grid3_origin (s : Grid3P) (a b : ℝ) : (decompactify s 0 a b).1 = s.wallCenter := by
  rw [decompactify_fst_eq]; ring

/-- [slope at the centre] for every record produced by `_updateParameters` the reported Jacobian
at `χ = 0` is exactly `wallThickness / ratioPointsWall` (this is where the formulas for
`aIn`, `aOut` are used). -/
theorem grid3_centre_slope (s : Grid3P) (h : Grid3WF s) (a b : ℝ) :
    (compactificationDerivatives s 0 a b).1 = s.wallThickness / s.ratioPointsWall := by
  rw [compactificationDerivatives_fst_eq, h.fstep_zero]; simp

/-- ... and it is the true slope of the position map there. -/
theorem grid3_centre_hasDerivAt (s : Grid3P) (h : Grid3WF s) (a b : ℝ) :
    HasDerivAt (fun χ => (decompactify s χ a b).1) (s.wallThickness / s.ratioPointsWall) 0 := by
  have := grid3_hasDerivAt_z_of_wf s h a b (χ := 0) (by simp)
  rwa [grid3_centre_slope s h] at this

/-- [lower bound] for every record produced by `_updateParameters` and `|χ| < 1`,
`dz/dχ ≥ (1-σ)·L / (r·(1-χ²))`.  (Holds for every `σ > 0`; it is informative only for `σ < 1`.) -/
theorem grid3_jacobian_z_lower (s : Grid3P) (h : Grid3WF s) (a b : ℝ) {χ : ℝ} (hχ : |χ| < 1) :
    (1 - s.smoothing) * s.wallThickness / (s.ratioPointsWall * (1 - χ ^ 2))
      ≤ (compactificationDerivatives s χ a b).1 := by
  rw [compactificationDerivatives_fst_eq, ← div_div]
  exact div_le_div_of_nonneg_right (h.fstep_ge χ) (one_sub_sq_pos hχ).le

/-- [positivity] with the documented restriction `smoothing < 1` (NOT asserted by the constructor)
the position Jacobian is positive on `(-1,1)`. -/
theorem grid3_jacobian_z_pos (s : Grid3P) (h : Grid3WF s) (hσ : s.smoothing < 1) (a b : ℝ) {χ : ℝ}
    (hχ : |χ| < 1) : 0 < (compactificationDerivatives s χ a b).1 := by
  refine lt_of_lt_of_le ?_ (grid3_jacobian_z_lower s h a b hχ)
  have h1 := h.wallThickness_pos
  have h2 := h.ratio_pos
  have h3 := one_sub_sq_pos hχ
  have h4 : 0 < 1 - s.smoothing := by linarith
  positivity

/-- [strictly increasing, position] under `Grid3WF` and `smoothing < 1`.  The extra hypothesis
`smoothing < 1` is forced: see `smoothing_ge_one_not_monotone`. -/
theorem grid3_strictMonoOn_z (s : Grid3P) (h : Grid3WF s) (hσ : s.smoothing < 1) (a b : ℝ) :
    StrictMonoOn (fun χ => (decompactify s χ a b).1) (Ioo (-1) 1) :=
  strictMonoOn_of_hasDerivAt_pos (convex_Ioo _ _)
    (f' := fun χ => (compactificationDerivatives s χ a b).1)
    (fun _ hx => grid3_hasDerivAt_z_of_wf s h a b (abs_lt.mpr hx))
    (fun _ hx => grid3_jacobian_z_pos s h hσ a b (abs_lt.mpr hx))

/-- non-vacuity of `grid3_strictMonoOn_z` / `grid3_jacobian_z_pos` on the concrete record. -/
example : StrictMonoOn (fun χ => (decompactify goodGrid χ 0 0).1) (Ioo (-1) 1) :=
  grid3_strictMonoOn_z goodGrid goodGrid_wf (by norm_num [goodGrid]) 0 0

/-- [DEFECT witness] The constructor's `assert smoothing > 0` is too weak.  The record
`L=1, r=1/2, σ=3, tailIn=107, tailOut=8` passes every `assert` of `_updateParameters`, yet the
reported (= true) Jacobian of the position map is negative at `χ = 1/2`, so the map is not even
weakly increasing on `(-1,1)`. -/
theorem smoothing_ge_one_not_monotone :
    ∃ s : Grid3P, Grid3WF s ∧ 1 ≤ s.smoothing ∧
      (∃ χ ∈ Ioo (-1 : ℝ) 1, (compactificationDerivatives s χ 0 0).1 < 0) ∧
      ¬ MonotoneOn (fun χ => (decompactify s χ 0 0).1) (Ioo (-1) 1) := by
  have hmem : (1 / 2 : ℝ) ∈ Ioo (-1 : ℝ) 1 := by constructor <;> norm_num
  have hneg : (compactificationDerivatives badGrid (1 / 2) 0 0).1 < 0 := by
    rw [compactificationDerivatives_fst_eq]
    exact div_neg_of_neg_of_pos badGrid_fstep_neg (by norm_num)
  refine ⟨badGrid, badGrid_wf, by norm_num [badGrid], ⟨1 / 2, hmem, hneg⟩, ?_⟩
  intro hmono
  have hd := grid3_hasDerivAt_z_of_wf badGrid badGrid_wf 0 0 (χ := 1 / 2) (abs_lt.mpr hmem)
  exact absurd (deriv_nonneg_of_monotoneOn_Ioo hmem hmono hd) (not_le.mpr hneg)

/-- [Jacobian = derivative, p_z] same formulas as the simple grid. -/
theorem grid3_hasDerivAt_pz (s : Grid3P) (a b : ℝ) {ρ : ℝ} (hρ : |ρ| < 1) :
    HasDerivAt (fun ρ => (decompactify s a ρ b).2.1) (compactificationDerivatives s a ρ b).2.1 ρ :=
  hasDerivAt_pzmap s.momentumFalloffT hρ

/-- [Jacobian = derivative, p_∥] -/
theorem grid3_hasDerivAt_pp (s : Grid3P) (a b : ℝ) {ρ : ℝ} (hρ : ρ ≠ 1) :
    HasDerivAt (fun ρ => (decompactify s a b ρ).2.2) (compactificationDerivatives s a b ρ).2.2 ρ :=
  hasDerivAt_ppmap s.momentumFalloffT hρ

/-- [positivity, momenta] for `momentumFalloffT > 0`. -/
theorem grid3_jacobian_p_pos (s : Grid3P) (a b : ℝ) (hT : 0 < s.momentumFalloffT) {ρ : ℝ} :
    (|ρ| < 1 → 0 < (compactificationDerivatives s a ρ b).2.1) ∧
    (ρ < 1 → 0 < (compactificationDerivatives s a b ρ).2.2) := by
  constructor
  · intro hρ
    have hw := one_sub_sq_pos hρ
    show 0 < 2 * s.momentumFalloffT / (1 - ρ ^ 2)
    positivity
  · intro hρ
    show 0 < s.momentumFalloffT / (1 - ρ)
    exact div_pos hT (by linarith)

/-- [strictly increasing, p_z] -/
theorem grid3_strictMonoOn_pz (s : Grid3P) (a b : ℝ) (hT : 0 < s.momentumFalloffT) :
    StrictMonoOn (fun ρ => (decompactify s a ρ b).2.1) (Ioo (-1) 1) :=
  strictMonoOn_of_hasDerivAt_pos (convex_Ioo _ _)
    (f' := fun ρ => (compactificationDerivatives s a ρ b).2.1)
    (fun _ hx => grid3_hasDerivAt_pz s a b (abs_lt.mpr hx))
    (fun _ hx => (grid3_jacobian_p_pos s a b hT).1 (abs_lt.mpr hx))

/-- [strictly increasing, p_∥] -/
theorem grid3_strictMonoOn_pp (s : Grid3P) (a b : ℝ) (hT : 0 < s.momentumFalloffT) :
    StrictMonoOn (fun ρ => (decompactify s a b ρ).2.2) (Iio 1) :=
  strictMonoOn_of_hasDerivAt_pos (convex_Iio _)
    (f' := fun ρ => (compactificationDerivatives s a b ρ).2.2)
    (fun _ hx => grid3_hasDerivAt_pp s a b (ne_of_lt hx))
    (fun _ hx => (grid3_jacobian_p_pos s a b hT).2 hx)

/-- [origin, p_z] `p_z(0) = 0`. -/
theorem grid3_origin_pz (s : Grid3P) (a b : ℝ) : (decompactify s a 0 b).2.1 = 0 := by
  rw [decompactify_snd_eq, WG.GridMaps.artanh_zero]; ring

/-- [inverse, momenta] the `compactify` a `Grid3Scales` object offers is the inherited
`Grid.compactify` (with `positionFalloff = wallThickness`); on the two momentum components it
undoes `Grid3Scales.decompactify`, in both directions (`momentumFalloffT ≠ 0`). -/
theorem grid3_momentum_inverse (s : Grid3P) (hT : s.momentumFalloffT ≠ 0) (x y : ℝ) :
    (∀ ρz ρp a, |ρz| < 1 → ρp < 1 →
      (Gen.R.Grid.compactify (baseGrid s) x (decompactify s a ρz ρp).2.1
        (decompactify s a ρz ρp).2.2).2 = (ρz, ρp)) ∧
    (∀ pz pp,
      (decompactify s y (Gen.R.Grid.compactify (baseGrid s) x pz pp).2.1
        (Gen.R.Grid.compactify (baseGrid s) x pz pp).2.2).2 = (pz, pp)) := by
  constructor
  · intro ρz ρp a hρz hρp
    exact Prod.ext (pzcompact_pzmap hT hρz) (ppcompact_ppmap hT hρp)
  · intro pz pp
    exact Prod.ext (pzmap_pzcompact hT pz) (ppmap_ppcompact hT pp)

/-- [DEFECT: "the inverse map offered by the same grid object undoes it" FAILS for the position
component of `Grid3Scales`]  `Grid3Scales` inherits `Grid.compactify`, which is not the inverse
of the three-scale position map: for every record produced by `_updateParameters` there is a
`χ ∈ (-1,1)` with `compactify(decompactify(χ)) ≠ χ`. -/
theorem grid3_inherited_compactify_not_inverse (s : Grid3P) (h : Grid3WF s) (a b a' b' : ℝ) :
    ¬ ∀ χ ∈ Ioo (-1 : ℝ) 1,
      (Gen.R.Grid.compactify (baseGrid s) (decompactify s χ a b).1 a' b').1 = χ :=
  inherited_compactify_not_inverse h a b a' b'

end ThreeScales

end Props.C17
