/-
Property C08.  "Translating the origin of field space, reflecting a field, or permuting the order
of the fields — with the potential transformed consistently — leaves the wall velocity … and the set
of wall widths unchanged, and moves phase locations, field profiles and relative wall offsets in the
obvious way."

Provable core about the hand model `Model/EOM.lean` (src/WallGo/equationOfMotion.py: `wallProfile`,
kinetic term of `action`, `temperatureProfileEqLHS`, `_updateGrid`, `_toWallParams`) at `α := ℝ`:
every closed-form piece that enters the wall-velocity computation is equivariant/invariant under the
three field-space symmetries.  Helper lemmas: `Lemmas/EOM.lean`.
-/
import WallGoVerif.Lemmas.EOM

namespace Props.C08

open Model.EOM Lemmas.EOM

/-! ## T08.1  Equivariance of the profile, invariance of kinetic term and `T³³` equation -/

/-- **T08.1 (translation)** shifting both vevs by `a` shifts the profile by `a` and leaves the
gradient unchanged.  No hypotheses. -/
theorem fieldProfile_translate (z lo hi L δ a : ℝ) :
    fieldProfile Real.tanh (1 / 2) 1 z (lo + a) (hi + a) L δ
      = fieldProfile Real.tanh (1 / 2) 1 z lo hi L δ + a ∧
    fieldGradient Real.cosh (1 / 2) z (lo + a) (hi + a) L δ
      = fieldGradient Real.cosh (1 / 2) z lo hi L δ := by
  constructor
  · simp only [fieldProfile]; ring
  · simp only [fieldGradient]; ring

/-- **T08.1 (reflection)** negating both vevs negates the profile and the gradient.  No hypotheses. -/
theorem fieldProfile_reflect (z lo hi L δ : ℝ) :
    fieldProfile Real.tanh (1 / 2) 1 z (-lo) (-hi) L δ
      = -fieldProfile Real.tanh (1 / 2) 1 z lo hi L δ ∧
    fieldGradient Real.cosh (1 / 2) z (-lo) (-hi) L δ
      = -fieldGradient Real.cosh (1 / 2) z lo hi L δ := by
  constructor
  · simp only [fieldProfile]; ring
  · simp only [fieldGradient]; ring

/-- **T08.1 (permutation)** `wallProfile` acts field by field: re-indexing all four input lists by
`σ` (entry `i` ↦ entry `σ i`; a permutation of `{0,…,n−1}` when "permuting the order of the fields")
re-indexes both output lists in the same way.  Hypotheses: the four lists have the same length `n`
and `σ` maps `{0,…,n−1}` into itself (bijectivity is not needed). -/
theorem wallProfile_permute (σ : ℕ → ℕ) (z : ℝ) (lo hi w o : List ℝ)
    (hhi : hi.length = lo.length) (hw : w.length = lo.length) (ho : o.length = lo.length)
    (hσ : ∀ i < lo.length, σ i < lo.length) :
    wallProfile Real.tanh Real.cosh (1 / 2) 1 z (reindex σ lo) (reindex σ hi) (reindex σ w)
        (reindex σ o)
      = (reindex σ (wallProfile Real.tanh Real.cosh (1 / 2) 1 z lo hi w o).1,
         reindex σ (wallProfile Real.tanh Real.cosh (1 / 2) 1 z lo hi w o).2) :=
  wallProfile_reindex σ z lo hi w o hhi hw ho hσ

/-- what `reindex` does: entry `i` of `reindex σ l` is entry `σ i` of `l`, and the length is kept. -/
theorem reindex_spec (σ : ℕ → ℕ) (l : List ℝ) :
    (reindex σ l).length = l.length ∧
    ∀ i < l.length, ∀ d, (reindex σ l).getD i d = l.getD (σ i) (1 / 2) :=
  ⟨reindex_length σ l, fun _ hi d => reindex_getD σ l hi d⟩

/-- Non-vacuity of the permutation statement: swapping two fields. `σ = (0 1)` satisfies the
hypotheses for lists of length two and `reindex σ [a, b] = [b, a]`. -/
example : (∀ i < [(1 : ℝ), 2].length, (fun i => 1 - i) i < [(1 : ℝ), 2].length) ∧
    reindex (fun i => 1 - i) [(3 : ℝ), 7] = [7, 3] := by
  constructor
  · intro i hi; simp only [List.length_cons, List.length_nil] at hi ⊢; omega
  · simp [reindex, List.range_succ]

/-- **T08.1 (kinetic term, translation and reflection)** the kinetic part of the action depends on
the vevs only through `φ_high − φ_low` squared. -/
theorem kinetic_translate_reflect (lo hi w : List ℝ) (a : ℝ) :
    kinetic 0 6 (lo.map (· + a)) (hi.map (· + a)) w = kinetic 0 6 lo hi w ∧
    kinetic 0 6 (lo.map Neg.neg) (hi.map Neg.neg) w = kinetic 0 6 lo hi w := by
  constructor
  · simp only [kinetic_eq]
    congr 1
    induction hi generalizing lo w with
    | nil => simp
    | cons x t ih => cases lo with
      | nil => simp
      | cons y t' => cases w with
        | nil => simp
        | cons c t'' =>
          simp only [List.map_cons, List.zip_cons_cons, List.cons.injEq]
          exact ⟨by ring, ih t' t''⟩
  · simp only [kinetic_eq]
    congr 1
    induction hi generalizing lo w with
    | nil => simp
    | cons x t ih => cases lo with
      | nil => simp
      | cons y t' => cases w with
        | nil => simp
        | cons c t'' =>
          simp only [List.map_cons, List.zip_cons_cons, List.cons.injEq]
          exact ⟨by ring, ih t' t''⟩

/-- **T08.1 (kinetic term, permutation)** the kinetic part is a sum over the fields of a function of
the triple `(φ_high,i, φ_low,i, L_i)`: any simultaneous permutation of the three lists
(`List.Perm` of the zipped triples) leaves it unchanged. -/
theorem kinetic_permute {lo hi w lo' hi' w' : List ℝ}
    (h : (List.zip hi (List.zip lo w)).Perm (List.zip hi' (List.zip lo' w'))) :
    kinetic 0 6 lo hi w = kinetic 0 6 lo' hi' w' :=
  kinetic_perm h

/-- Non-vacuity: swapping the two fields of `hi = [5, 1], lo = [2, 3], w = [4, 7]` is such a
permutation. -/
example : (List.zip [(5 : ℝ), 1] (List.zip [(2 : ℝ), 3] [(4 : ℝ), 7])).Perm
    (List.zip [(1 : ℝ), 5] (List.zip [(3 : ℝ), 2] [(7 : ℝ), 4])) := by
  simp only [List.zip_cons_cons, List.zip_nil_right]
  exact List.Perm.swap _ _ _

/-- **T08.1 (`temperatureProfileEqLHS`)** depends on `dPhidz` only through `Σ_i (φ_i')²`: it is
unchanged when any subset of the gradients is negated (reflection of those fields) and when the
gradients are permuted.  No further hypotheses. -/
theorem tempEqLHS_signflip_perm (veff w s1 s2 : ℝ) {d d' : List ℝ} :
    (List.Forall₂ (fun a b => b = a ∨ b = -a) d d' →
      tempEqLHS Real.sqrt 0 (1 / 2) 4 d veff w s1 s2 = tempEqLHS Real.sqrt 0 (1 / 2) 4 d' veff w s1 s2) ∧
    (d.Perm d' →
      tempEqLHS Real.sqrt 0 (1 / 2) 4 d veff w s1 s2 = tempEqLHS Real.sqrt 0 (1 / 2) 4 d' veff w s1 s2) :=
  ⟨fun h => tempEqLHS_congr (sumsq_signflip h) veff w s1 s2,
   fun h => tempEqLHS_congr ((h.map _).sum_eq) veff w s1 s2⟩

/-- Non-vacuity: `[1, -2, 3]` and `[1, 2, -3]` are related by sign flips; `[1,2,3] ~ [3,1,2]`. -/
example : List.Forall₂ (fun a b : ℝ => b = a ∨ b = -a) [1, -2, 3] [1, 2, -3] ∧
    ([1, 2, 3] : List ℝ).Perm [3, 1, 2] := by
  constructor
  · refine List.Forall₂.cons (Or.inl rfl) (List.Forall₂.cons (Or.inr (by norm_num))
      (List.Forall₂.cons (Or.inr rfl) List.Forall₂.nil))
  · exact (List.Perm.cons 1 (List.Perm.swap 3 2 [])).trans (List.Perm.swap 3 1 [2])

/-! ## T08.2  `_updateGrid` depends only on the multiset of (offset, width) pairs -/

/-- **T08.2** `_updateGrid` uses the wall parameters only through `max_i (1−δ_i)L_i` and
`min_i (−1−δ_i)L_i`, so any simultaneous permutation of widths and offsets (`List.Perm` of the
zipped pairs) gives the same four grid scales.  All numeric constants are left generic. -/
theorem updateGrid_permute {widths offsets widths' offsets' : List ℝ}
    (h : (List.zip offsets widths).Perm (List.zip offsets' widths'))
    (one two half log2 c105 vmid mfp : ℝ) (b : Bool) (smoothing ratio zero : ℝ) :
    updateGrid Real.sqrt one two half log2 c105 widths offsets vmid mfp b smoothing ratio zero
      = updateGrid Real.sqrt one two half log2 c105 widths' offsets' vmid mfp b smoothing ratio
          zero :=
  updateGrid_perm h one two half log2 c105 vmid mfp b smoothing ratio zero

/-- `maxL`/`minL` really are the maximum and minimum (`np.max`, `np.min`) of a non-empty list. -/
theorem maxL_minL_spec {l : List ℝ} (hl : l ≠ []) (d : ℝ) :
    (maxL l d ∈ l ∧ ∀ x ∈ l, x ≤ maxL l d) ∧ (minL l d ∈ l ∧ ∀ x ∈ l, minL l d ≤ x) :=
  ⟨maxL_spec hl d, minL_spec hl d⟩

/-- Non-vacuity of T08.2: a three-field swap of the pairs. -/
example : (List.zip [(0 : ℝ), 1, -1] [(2 : ℝ), 3, 4]).Perm (List.zip [(1 : ℝ), 0, -1] [(3 : ℝ), 2, 4]) := by
  simp only [List.zip_cons_cons, List.zip_nil_right]
  exact List.Perm.swap _ _ _

/-! ## T08.3  Re-pinning the offsets -/

/-- **T08.3 (z-translation = offset shift)** translating the wall by `a` in `z` is the same as
changing the offset of a field of width `L` by `a/L`.  No hypothesis (holds even for `L = 0` in the
model since `(z+a)/0 = z/0 + a/0`). -/
theorem fieldProfile_shift (z a lo hi L δ : ℝ) :
    fieldProfile Real.tanh (1 / 2) 1 (z + a) lo hi L δ
      = fieldProfile Real.tanh (1 / 2) 1 z lo hi L (δ + a / L) ∧
    fieldGradient Real.cosh (1 / 2) (z + a) lo hi L δ
      = fieldGradient Real.cosh (1 / 2) z lo hi L (δ + a / L) := by
  have e : (z + a) / L + δ = z / L + (δ + a / L) := by rw [add_div]; ring
  constructor
  · simp only [fieldProfile, e]
  · simp only [fieldGradient, e]

/-- **T08.3 (re-pinning)** `_toWallParams` pins the offset of the FIRST field to `0`.  If the fields
are re-ordered so that field `k` (width `L_k ≠ 0`, offset `δ_k`) comes first, the same physical wall,
translated by `a = −δ_k L_k`, has offsets `δ_i' = δ_i − δ_k L_k / L_i`; in particular `δ_k' = 0`.
Hypothesis: `L_k ≠ 0` (only for `δ_k' = 0`). -/
theorem repin (z lo hi Li δi Lk δk : ℝ) (hLk : Lk ≠ 0) :
    fieldProfile Real.tanh (1 / 2) 1 (z - δk * Lk) lo hi Li δi
      = fieldProfile Real.tanh (1 / 2) 1 z lo hi Li (δi - δk * Lk / Li) ∧
    fieldGradient Real.cosh (1 / 2) (z - δk * Lk) lo hi Li δi
      = fieldGradient Real.cosh (1 / 2) z lo hi Li (δi - δk * Lk / Li) ∧
    δk - δk * Lk / Lk = 0 := by
  have h := fieldProfile_shift z (-(δk * Lk)) lo hi Li δi
  have e1 : z + -(δk * Lk) = z - δk * Lk := by ring
  have e2 : δi + -(δk * Lk) / Li = δi - δk * Lk / Li := by ring
  rw [e1, e2] at h
  exact ⟨h.1, h.2, by field_simp; ring⟩

/-- **T08.3 (all fields at once)** for lists of equal length: evaluating `wallProfile` at `z + a`
equals evaluating it at `z` with every offset shifted by `a/L_i`. -/
theorem wallProfile_shift (z a : ℝ) (lo hi w o : List ℝ)
    (hw : w.length = lo.length) (ho : o.length = lo.length) :
    wallProfile Real.tanh Real.cosh (1 / 2) 1 (z + a) lo hi w o
      = wallProfile Real.tanh Real.cosh (1 / 2) 1 z lo hi w
          (List.zipWith (fun δ L => δ + a / L) o w) := by
  have key : ∀ i < lo.length, (List.zipWith (fun δ L => δ + a / L) o w).getD i (1 / 2)
      = o.getD i (1 / 2) + a / w.getD i (1 / 2) := by
    intro i hi
    have h1 : i < o.length := ho ▸ hi
    have h2 : i < w.length := hw ▸ hi
    simp [List.getD_eq_getElem?_getD, h1, h2]
  refine Prod.ext ?_ ?_
  · rw [wallProfile_fst, wallProfile_fst]
    refine List.map_congr_left fun i hi => ?_
    rw [key i (List.mem_range.mp hi)]
    exact (fieldProfile_shift z a _ _ _ _).1
  · rw [wallProfile_snd, wallProfile_snd]
    refine List.map_congr_left fun i hi => ?_
    rw [key i (List.mem_range.mp hi)]
    exact (fieldProfile_shift z a _ _ _ _).2

/-- `_toWallParams` puts offset `0` first: the head of the returned offsets is `0` and the widths
are the first `n` entries. -/
theorem toWallParams_spec (n : ℕ) (arr : List ℝ) :
    (toWallParams (0 : ℝ) n arr).1 = arr.take n ∧
    (toWallParams (0 : ℝ) n arr).2 = 0 :: arr.drop n := ⟨rfl, rfl⟩

/-- Non-vacuity of T08.3: two fields with widths `(2, 4)` and offsets `(0, 1/2)`; re-pinning on the
second field (`L_k = 4 ≠ 0`, `δ_k = 1/2`, `a = −2`) gives offsets `(−1, 0)`. -/
example : (4 : ℝ) ≠ 0 ∧ (0 : ℝ) - 1 / 2 * 4 / 2 = -1 ∧ (1 / 2 : ℝ) - 1 / 2 * 4 / 4 = 0 := by
  norm_num

end Props.C08
