/-
Property C05: "LTE wall velocity conserves entropy flux: T₊ γ₊ = T₋ γ₋".

Statements about the GENERATED `deflagPostLTE`, `matchingLTE` (Gen/R/Hydro.lean) and about the pure
decision model `Lemmas.Hydro.findvwLTE` of `Hydrodynamics.findvwLTE` (hydrodynamics.py:833-906).
-/
import WallGoVerif.Lemmas.Hydro

namespace Props.C05

open Gen.R.Hydro Gen.R.Helpers WG.R Lemmas.Hydro

/-- **T05.1 (squared form)** The `v₊` that `matchDeflagOrHyb(vw)` (no `vp` given) computes from the
solved temperatures, `v₊ = sqrt(T₋² - T₊²(1-v₋²))/T₋`, satisfies `(T₊γ₊)² = (T₋γ₋)²` with the returned
`v₋`.  Minimal hypotheses: `T₊ ≠ 0`, `T₋ ≠ 0` and a non-negative radicand (otherwise numpy returns
NaN and the code raises).  `v₋ < 1` is not needed: for `v₋² = 1` both sides are `0` under Lean's
`x/0 = 0`.  (C05, the entropy-flux identity itself.) -/
theorem deflagPostLTE_entropy_sq (s : HydroP) (vw Tp Tm : ℝ) (hTp : Tp ≠ 0) (hTm : Tm ≠ 0)
    (hrad : 0 ≤ Tm ^ 2 - Tp ^ 2 * (1 - (deflagPostLTE s vw Tp Tm).2.1 ^ 2)) :
    (deflagPostLTE s vw Tp Tm).2.2.1 ^ 2 * gammaSq (deflagPostLTE s vw Tp Tm).1 =
      (deflagPostLTE s vw Tp Tm).2.2.2 ^ 2 * gammaSq (deflagPostLTE s vw Tp Tm).2.1 := by
  rw [deflagPostLTE_eq] at hrad ⊢
  exact entropy_sq_of_sqrt hTp hTm hrad

/-- **T05.1** `T₊ γ₊ = T₋ γ₋` for the tuple returned by `matchDeflagOrHyb(vw)` when the
temperatures are positive (`γ = sqrt(gammaSq v)`). -/
theorem deflagPostLTE_entropy (s : HydroP) (vw Tp Tm : ℝ) (hTp : 0 < Tp) (hTm : 0 < Tm)
    (hrad : 0 ≤ Tm ^ 2 - Tp ^ 2 * (1 - (deflagPostLTE s vw Tp Tm).2.1 ^ 2)) :
    (deflagPostLTE s vw Tp Tm).2.2.1 * Real.sqrt (gammaSq (deflagPostLTE s vw Tp Tm).1) =
      (deflagPostLTE s vw Tp Tm).2.2.2 * Real.sqrt (gammaSq (deflagPostLTE s vw Tp Tm).2.1) :=
  entropy_of_sq (by rw [deflagPostLTE_eq]; exact hTp.le) (by rw [deflagPostLTE_eq]; exact hTm.le)
    (deflagPostLTE_entropy_sq s vw Tp Tm hTp.ne' hTm.ne' hrad)

/-- The returned `v₊` is a genuine subluminal speed (`0 ≤ v₊ < 1`) as soon as `T₊,T₋ > 0`,
`v₋ < 1` and the radicand is non-negative, so `γ₊` above is the honest Lorentz factor. -/
theorem deflagPostLTE_vp_range (s : HydroP) (vw Tp Tm : ℝ) (hTp : 0 < Tp) (hTm : 0 < Tm)
    (hvm : (deflagPostLTE s vw Tp Tm).2.1 < 1)
    (hrad : 0 ≤ Tm ^ 2 - Tp ^ 2 * (1 - (deflagPostLTE s vw Tp Tm).2.1 ^ 2)) :
    0 ≤ (deflagPostLTE s vw Tp Tm).1 ∧ (deflagPostLTE s vw Tp Tm).1 < 1 := by
  rw [deflagPostLTE_eq] at hvm hrad ⊢
  simp only at hvm hrad ⊢
  have hvm0 := deflagVm_nonneg vw (s.csqLowT Tm)
  set vm := deflagVm vw (s.csqLowT Tm)
  refine ⟨by positivity, ?_⟩
  rw [div_lt_one hTm]
  have hlt : Tm ^ 2 - Tp ^ 2 * (1 - vm ^ 2) < Tm ^ 2 := by
    have : 0 < 1 - vm ^ 2 := by nlinarith
    have : 0 < Tp ^ 2 * (1 - vm ^ 2) := by positivity
    linarith
  calc Real.sqrt (Tm ^ 2 - Tp ^ 2 * (1 - vm ^ 2)) < Real.sqrt (Tm ^ 2) :=
        Real.sqrt_lt_sqrt hrad hlt
    _ = Tm := Real.sqrt_sq hTm.le

/-- Non-vacuity of T05.1: bag model, `vw = 1/2` (so `v₋ = 1/2`), `T₊ = 1`, `T₋ = 11/10`:
the hypotheses of all three theorems above hold (radicand `= 0.46`). -/
example : ∃ (s : HydroP) (vw Tp Tm : ℝ), 0 < Tp ∧ 0 < Tm ∧ (deflagPostLTE s vw Tp Tm).2.1 < 1 ∧
    0 ≤ Tm ^ 2 - Tp ^ 2 * (1 - (deflagPostLTE s vw Tp Tm).2.1 ^ 2) := by
  refine ⟨bag 63 45 2, 1 / 2, 1, 11 / 10, by norm_num, by norm_num, ?_, ?_⟩
  all_goals
    rw [deflagPostLTE_eq]
    have h : deflagVm (1 / 2) ((bag 63 45 2).csqLowT (11 / 10)) = 1 / 2 :=
      deflagVm_deflagration (by norm_num) (by simp [bag]; norm_num)
    simp only [h]
    norm_num

/-- **T05.1 (residual)** The value `vpsq` used inside `matching` when `vp is None` satisfies
`T₊²/(1-vpsq) = T₋²/(1-vmsq)`, i.e. `T₊²γ₊² = T₋²γ₋²`: entropy-flux conservation is built into the
2×2 system.  Needs only `T₊ ≠ 0`, `T₋ ≠ 0`. -/
theorem matchingLTE_vpsq_entropy (Tp Tm vmsq : ℝ) (hTp : Tp ≠ 0) (hTm : Tm ≠ 0) :
    Tp ^ 2 / (1 - vpsqLTE Tp Tm vmsq) = Tm ^ 2 / (1 - vmsq) :=
  vpsqLTE_entropy hTp hTm

/-- … and it is the *only* such value (`v₋² ≠ 1`, `x ≠ 1`, `T₋ ≠ 0`). -/
theorem matchingLTE_vpsq_unique (Tp Tm vmsq x : ℝ) (hTm : Tm ≠ 0) (hv : vmsq ≠ 1) (hx : x ≠ 1)
    (h : Tp ^ 2 / (1 - x) = Tm ^ 2 / (1 - vmsq)) : x = vpsqLTE Tp Tm vmsq :=
  vpsqLTE_unique hTm hv hx h

example : (1 : ℝ) ≠ 0 ∧ (11 / 10 : ℝ) ≠ 0 ∧ (1 / 4 : ℝ) ≠ 1 ∧ vpsqLTE 1 (11 / 10) (1 / 4) ≠ 1 := by
  refine ⟨by norm_num, by norm_num, by norm_num, ?_⟩
  unfold vpsqLTE; norm_num

/-- **T05.1 (system)** `matchingLTE = (0,0)` iff the junction products equal the
entropy-conserving `v₊²` and the prescribed `v₋² = min(vw², cs²)`; together with
`Props.C02.matchingLTE_zero_iff_conservation` this says: a root of the LTE system is a state
conserving energy flux, momentum flux *and* entropy flux.  No hypotheses. -/
theorem matchingLTE_zero_iff (s : HydroP) (m : ℝ × ℝ) (vw : ℝ) (Tpm0 : ℝ × ℝ) :
    matchingLTE s m vw Tpm0 = (0, 0) ↔
      (vpvmAndvpovm s (inverseMappingT s m).1 (inverseMappingT s m).2).1 *
          (vpvmAndvpovm s (inverseMappingT s m).1 (inverseMappingT s m).2).2 =
        vpsqLTE (inverseMappingT s m).1 (inverseMappingT s m).2
          (pmin (vw ^ 2) (s.csqLowT (inverseMappingT s m).2)) ∧
      (vpvmAndvpovm s (inverseMappingT s m).1 (inverseMappingT s m).2).1 /
          (vpvmAndvpovm s (inverseMappingT s m).1 (inverseMappingT s m).2).2 =
        pmin (vw ^ 2) (s.csqLowT (inverseMappingT s m).2) := by
  rw [matchingLTE_eq]
  exact pair_mul_eq_zero_iff (scaleC_pos _ _).ne'

/-- The post-processing is consistent with the residual: when `0 ≤ min(vw², cs²)` the `v₊` returned by
`matchDeflagOrHyb` squares to the `vpsq` used in the residual (radicand ≥ 0). -/
theorem deflagPostLTE_vp_sq (s : HydroP) (vw Tp Tm : ℝ)
    (hmin : 0 ≤ min (vw ^ 2) (s.csqLowT Tm))
    (hrad : 0 ≤ Tm ^ 2 - Tp ^ 2 * (1 - (deflagPostLTE s vw Tp Tm).2.1 ^ 2)) :
    (deflagPostLTE s vw Tp Tm).1 ^ 2 = vpsqLTE Tp Tm (pmin (vw ^ 2) (s.csqLowT Tm)) := by
  rw [deflagPostLTE_eq] at hrad ⊢
  simp only at hrad ⊢
  rw [div_pow, Real.sq_sqrt hrad, deflagVm_sq_of_nonneg hmin, pmin_eq_min, vpsqLTE]

/-! ### T05.2: decision structure of `findvwLTE` -/

/-- **T05.2 (a)** If the model of `findvwLTE` returns a value strictly between 0 and 1, that value
is the root returned by the final `root_scalar(shockTnuclDiff, bracket=(vmin,vmax))`, and the
bracket had been validated: `shockTnuclDiff(vmax) ≤ 0`, `self.success`, `shockTnuclDiff(vmin) ≥ 0`.
No contract on the solver is needed for this direction. -/
theorem findvwLTE_interior (i : LTEIn) (h0 : 0 < findvwLTE i) (h1 : findvwLTE i < 1) :
    ∃ vmax, lteVmax i = some vmax ∧ i.diff vmax ≤ 0 ∧ i.success vmax = true ∧
      0 ≤ i.diff i.vMin ∧ findvwLTE i = i.root i.vMin vmax := by
  rcases findvwLTE_cases i with ⟨-, h⟩ | ⟨_, -, -, h⟩ | ⟨_, -, -, -, -, h⟩ | ⟨vmax, hf, h⟩
  · rw [h] at h1; exact absurd h1 (lt_irrefl _)
  · rw [h] at h1; exact absurd h1 (lt_irrefl _)
  · rw [h] at h0; exact absurd h0 (lt_irrefl _)
  · exact ⟨vmax, hf.1, hf.2.1, hf.2.2.1, hf.2.2.2, h⟩

/-- **T05.2 (a')** Conversely, under the solver contract (`0 < vmin`, `vmax < 1`,
`vmin ≤ root ≤ vmax`) a validated bracket produces a value strictly between 0 and 1. -/
theorem findvwLTE_final (i : LTEIn) (hc : LTEContract i) (vmax : ℝ) (hf : LTEFinal i vmax) :
    findvwLTE i = i.root i.vMin vmax ∧ 0 < findvwLTE i ∧ findvwLTE i < 1 := by
  obtain ⟨hv, hd, hs, hm⟩ := hf
  have hr : findvwLTE i = i.root i.vMin vmax := by
    unfold findvwLTE
    rw [hv]
    simp [not_lt.mpr hd, hs, not_lt.mpr hm]
  have := hc.root_mem vmax hv
  refine ⟨hr, ?_, ?_⟩
  · rw [hr]; exact lt_of_lt_of_le hc.vMin_pos this.1
  · rw [hr]; exact lt_of_le_of_lt this.2 (hc.vmax_lt vmax hv)

/-- **T05.2 (b)** Under the solver contract, the model returns `1` only for one of three named
reasons: (i) the shock front is behind the wall at `vJ` and no shock root exists (`ValueError`),
(ii) `shockTnuclDiff(vmax) > 0`, (iii) the matching at `vmax` did not converge. -/
theorem findvwLTE_eq_one (i : LTEIn) (hc : LTEContract i) (h : findvwLTE i = 1) :
    (i.shockAtVmax > 0 ∧ i.rootShock = none) ∨
    (∃ vmax, lteVmax i = some vmax ∧ i.diff vmax > 0) ∨
    (∃ vmax, lteVmax i = some vmax ∧ i.success vmax = false) := by
  rcases findvwLTE_cases i with ⟨hn, -⟩ | ⟨vmax, hv, hd | hs, -⟩ | ⟨_, -, -, -, -, h'⟩ | ⟨vmax, hf, -⟩
  · exact Or.inl ((lteVmax_eq_none_iff i).mp hn)
  · exact Or.inr (Or.inl ⟨vmax, hv, hd⟩)
  · exact Or.inr (Or.inr ⟨vmax, hv, hs⟩)
  · rw [h] at h'; norm_num at h'
  · have := (findvwLTE_final i hc vmax hf).2.2
    rw [h] at this; exact absurd this (lt_irrefl _)

/-- **T05.2 (c)** Under the solver contract, the model returns `0` only if the bracket top was
acceptable (`shockTnuclDiff(vmax) ≤ 0`, converged) and `shockTnuclDiff(vmin) < 0`. -/
theorem findvwLTE_eq_zero (i : LTEIn) (hc : LTEContract i) (h : findvwLTE i = 0) :
    ∃ vmax, lteVmax i = some vmax ∧ i.diff vmax ≤ 0 ∧ i.success vmax = true ∧
      i.diff i.vMin < 0 := by
  rcases findvwLTE_cases i with ⟨-, h'⟩ | ⟨_, -, -, h'⟩ | ⟨vmax, hv, hd, hs, hm, -⟩ | ⟨vmax, hf, -⟩
  · rw [h] at h'; norm_num at h'
  · rw [h] at h'; norm_num at h'
  · exact ⟨vmax, hv, hd, hs, hm⟩
  · have := (findvwLTE_final i hc vmax hf).2.1
    rw [h] at this; exact absurd this (lt_irrefl _)

/-- Non-vacuity of T05.2: an input satisfying the contract for which the final branch is taken
(`vJ = 0.8`, shock ahead of the wall, `diff(v) = 1/2 - v`, root `1/2`). -/
example : ∃ i : LTEIn, LTEContract i ∧ (∃ vmax, LTEFinal i vmax) ∧
    0 < findvwLTE i ∧ findvwLTE i < 1 := by
  let i : LTEIn := { vMin := 1 / 10, vJ := 4 / 5, shockAtVmax := -1, rootShock := none,
                     diff := fun v => 1 / 2 - v, success := fun _ => true,
                     root := fun _ _ => 1 / 2 }
  have hv : lteVmax i = some (4 / 5 - 1e-10) := by
    simp [lteVmax, i]
  have hc : LTEContract i := by
    refine ⟨by norm_num [i], ?_, ?_⟩
    · intro vmax h; rw [hv] at h; cases h; norm_num
    · intro vmax h; rw [hv] at h; cases h; norm_num [i]
  have hf : LTEFinal i (4 / 5 - 1e-10) := by
    refine ⟨hv, ?_, rfl, ?_⟩ <;> norm_num [i]
  exact ⟨i, hc, ⟨_, hf⟩, (findvwLTE_final i hc _ hf).2⟩

/-- Non-vacuity of the `= 1` and `= 0` clauses. -/
example : ∃ i : LTEIn, LTEContract i ∧ findvwLTE i = 1 := by
  let i : LTEIn := { vMin := 1 / 10, vJ := 4 / 5, shockAtVmax := 1, rootShock := none,
                     diff := fun v => 1 / 2 - v, success := fun _ => true,
                     root := fun _ _ => 1 / 2 }
  have hv : lteVmax i = none := by simp [lteVmax, i]
  refine ⟨i, ⟨by norm_num [i], ?_, ?_⟩, ?_⟩
  · intro vmax h; rw [hv] at h; cases h
  · intro vmax h; rw [hv] at h; cases h
  · unfold findvwLTE; rw [hv]

example : ∃ i : LTEIn, LTEContract i ∧ findvwLTE i = 0 := by
  let i : LTEIn := { vMin := 1 / 10, vJ := 4 / 5, shockAtVmax := -1, rootShock := none,
                     diff := fun _ => -1, success := fun _ => true,
                     root := fun _ _ => 1 / 2 }
  have hv : lteVmax i = some (4 / 5 - 1e-10) := by simp [lteVmax, i]
  refine ⟨i, ⟨by norm_num [i], ?_, ?_⟩, ?_⟩
  · intro vmax h; rw [hv] at h; cases h; norm_num
  · intro vmax h; rw [hv] at h; cases h; norm_num [i]
  · unfold findvwLTE; rw [hv]; norm_num [i]

end Props.C05
