/-
C06J — the bracket search of `Hydrodynamics.findJouguetVelocity` (hydrodynamics.py:126-160).

`Model.Jouguet.search` is a hand model of lines 129-157 (executed against the real method with stubs: exact
agreement).  Here it is reasoned about over `ℝ` (`zero := 0`, `two := 2`).

Reading guide.  `f` is `vpDerivNum`, `Tn = Tnucl`, `TMaxLow = thermodynamics.TMaxLowT`, `TMaxHydro = self.TMaxHydro`;
`fuel` bounds the number of loop iterations of the model (the Python loop has no bound; J5 shows that
`⌈(TMaxHydro - T0)/Tn⌉₊ + 1` is always enough when `0 < Tn`).
* `R = search f 0 2 Tn TMaxLow TMaxHydro fuel`; `R.1` is the window `(Tmin, Tmax, bracket1, bracket2, #iterations)`
  after the `while` loop of line 133, `R.2` is the `root_scalar` call of lines 139-157;
* `T0 = min (max (2*Tn) TMaxLow) TMaxHydro` is the first `Tmax` (line 130);
* `V k` (`Lemmas.Jouguet.visit`) is the k-th temperature at which `f` may be evaluated: `V 0 = Tn`,
  `V (k+1) = min (T0 + k*Tn) TMaxHydro` (theorems `visit_zero`, `visit_succ` below).
Hypothesis `0 < Tn` (nucleation temperature positive) is used exactly where it is listed.
-/
import Mathlib.Tactic
import Mathlib.Data.Real.Basic
import Mathlib.Algebra.Order.Floor.Semiring
import Mathlib.Topology.Order.IntermediateValue
import Mathlib.Topology.Instances.Real.Lemmas
import WallGoVerif.Model.Jouguet
import WallGoVerif.Lemmas.Jouguet

namespace Props.C06J

open Model.Jouguet Lemmas.Jouguet

variable (f g : ℝ → ℝ) (Tn TMaxLow TMaxHydro : ℝ) (fuel : ℕ)

local notation "R" => search f 0 2 Tn TMaxLow TMaxHydro fuel
local notation "T0" => min (max (2 * Tn) TMaxLow) TMaxHydro
local notation "V" => visit Tn TMaxLow TMaxHydro

/-! ### the progression of temperatures -/

/-- The first visited temperature is the nucleation temperature (line 129). -/
theorem visit_zero : V 0 = Tn := rfl

/-- The later visited temperatures are `T0, T0+Tn, T0+2Tn, …`, cut off at the ceiling `TMaxHydro` (lines 130, 135). -/
theorem visit_succ (k : ℕ) : V (k + 1) = min (T0 + k * Tn) TMaxHydro := rfl

/-- The first upper end never exceeds the ceiling (needed by J3; holds by the outer `min` of line 130). -/
theorem first_upper_end_le_ceiling : T0 ≤ TMaxHydro := min_le_right _ _

/-! ### J1 — stored residuals -/

/-- **J1.** For every fuel, `bracket1`, `bracket2` are the values of `f` at the ends of the final window. -/
theorem window_values : (R).1.b1 = f (R).1.tmin ∧ (R).1.b2 = f (R).1.tmax := by
  rw [search_fst]
  exact ⟨(inv_final fuel).b1, (inv_final fuel).b2⟩

/-- The final window is `[V n, V (n+1)]` where `n` is the number of loop iterations (serves J4, J6, J7). -/
theorem window_on_progression :
    (R).1.tmin = V (R).1.steps ∧ (R).1.tmax = V ((R).1.steps + 1) := by
  rw [search_fst]
  exact ⟨(inv_final fuel).tmin, (inv_final fuel).tmax⟩

/-- Every window before the final one had residuals of equal strict sign and an upper end strictly below the ceiling
(this is exactly why the loop went on), so that its upper end is `T0 + k*Tn` without cut-off (serves J2, J4, J5). -/
theorem earlier_windows (k : ℕ) (hk : k < (R).1.steps) :
    0 < f (V k) * f (V (k + 1)) ∧ V (k + 1) < TMaxHydro ∧ V (k + 1) = T0 + k * Tn := by
  rw [search_fst] at hk
  have h := (inv_final (f := f) (Tn := Tn) (TL := TMaxLow) (TH := TMaxHydro) fuel).prev k hk
  exact ⟨h.1, h.2, visit_succ_eq_of_lt h.2⟩

/-- non-vacuity of `earlier_windows`: `f = x - 5/2`, `Tn = 1`, `TMaxHydro = 10`: one iteration, `k = 0` -/
example : 0 < (search lin 0 2 1 0 10 5).1.steps := by
  norm_num [search, widen, min2, max2, lin]

/-! ### J4 — same sign before the final window -/

/-- **J4.** If the loop iterated at all, `f` has the strict sign of `f Tn` at every temperature visited up to and
including the lower end of the final window: `Tn, T0, T0+Tn, …, w.tmin`. -/
theorem same_sign_until_window (hs : 0 < (R).1.steps) (k : ℕ) (hk : k ≤ (R).1.steps) :
    0 < f Tn * f (V k) := by
  rw [search_fst] at hs hk
  exact (inv_final fuel).same_sign' hs k hk

/-- J4 as a statement about the list of visited temperatures `[V 0, …, V n]`, `V n = w.tmin`. -/
theorem same_sign_until_window_list (hs : 0 < (R).1.steps) :
    ∀ t ∈ (List.range ((R).1.steps + 1)).map V, 0 < f Tn * f t := by
  intro t ht
  obtain ⟨k, hk, rfl⟩ := List.mem_map.mp ht
  exact same_sign_until_window f Tn TMaxLow TMaxHydro fuel hs k (Nat.lt_succ_iff.mp (List.mem_range.mp hk))

/-- J4 as an invariant of the window: either the loop never iterated and the window still starts at `Tn`, or the
residual at its lower end has the strict sign of `f Tn`. -/
theorem window_invariant :
    ((R).1.steps = 0 ∧ (R).1.tmin = Tn) ∨ 0 < f Tn * (R).1.b1 := by
  rw [search_fst]
  exact (inv_final fuel).start_or_sign

/-- non-vacuity of J4: `f = (x-5/4)(x-7/4)(x-5/2)`, `Tn = 1`: one iteration -/
example : 0 < (search cubic3 0 2 1 0 10 5).1.steps := by
  norm_num [search, widen, min2, max2, cubic3]

/-! ### J2 — the bracketing call -/

/-- The call is `brentq` on `[Tn, w.tmax]` exactly when the final residuals do not have equal strict signs
(line 139). -/
theorem brentq_iff (a b : ℝ) :
    (R).2 = .brentq a b ↔ (R).1.b1 * (R).1.b2 ≤ 0 ∧ a = Tn ∧ b = (R).1.tmax := by
  rw [search_fst]; exact call_brentq_iff fuel a b

/-- **J2.** When `brentq` is called, its bracket is `[Tn, w.tmax]` (line 143) — wider than the window
`[w.tmin, w.tmax]` on which the sign change was seen — and it is nevertheless a valid bracket:
`f Tn * f w.tmax ≤ 0`.  No hypothesis on `Tn` is needed. -/
theorem brentq_bracket_valid (a b : ℝ) (h : (R).2 = .brentq a b) :
    a = Tn ∧ b = (R).1.tmax ∧ f Tn * f (R).1.tmax ≤ 0 := by
  obtain ⟨hb, ha, hb'⟩ := (brentq_iff f Tn TMaxLow TMaxHydro fuel a b).mp h
  rw [search_fst] at hb hb' ⊢
  exact ⟨ha, hb', (inv_final fuel).bracket hb⟩

/-- **J2, last window.** When `brentq` is called, the sign change is located in the last window, which lies inside
the bracket handed to `brentq` (`Tn ≤ w.tmin`; uses `0 < Tn`). -/
theorem brentq_last_window (hTn : 0 < Tn) (a b : ℝ) (h : (R).2 = .brentq a b) :
    (R).1.b1 * (R).1.b2 ≤ 0 ∧ f (R).1.tmin * f (R).1.tmax ≤ 0 ∧ Tn ≤ (R).1.tmin := by
  obtain ⟨hb, -, -⟩ := (brentq_iff f Tn TMaxLow TMaxHydro fuel a b).mp h
  have hv := window_values f Tn TMaxLow TMaxHydro fuel
  refine ⟨hb, by rw [← hv.1, ← hv.2]; exact hb, ?_⟩
  rw [search_fst]
  exact (inv_final fuel).tn_le_tmin hTn.le

/-- **J2, root.** If moreover `Tn < TMaxHydro` and `f` is continuous on the last window, that window contains a
root of `f` (intermediate value theorem). -/
theorem root_in_last_window (hTn : 0 < Tn) (hTH : Tn < TMaxHydro) (a b : ℝ) (h : (R).2 = .brentq a b)
    (hc : ContinuousOn f (Set.Icc (R).1.tmin (R).1.tmax)) :
    ∃ x ∈ Set.Icc (R).1.tmin (R).1.tmax, f x = 0 := by
  obtain ⟨-, hb, -⟩ := brentq_last_window f Tn TMaxLow TMaxHydro fuel hTn a b h
  refine exists_root_of_mul_nonpos ?_ hc hb
  have hi := inv_final (f := f) (Tn := Tn) (TL := TMaxLow) (TH := TMaxHydro) fuel
  rw [search_fst]
  rcases Nat.eq_zero_or_pos (final f Tn TMaxLow TMaxHydro fuel).steps with h0 | hpos
  · rw [hi.tmin, hi.tmax, h0, Lemmas.Jouguet.visit_zero, zero_add, visit_one]
    exact ((tn_lt_tmax0_iff hTn).mpr hTH).le
  · exact (hi.tmin_lt_tmax_of_pos hTn hpos).le

/-- non-vacuity of J2 (all three theorems): `f = x - 5/2`, `Tn = 1`, `TMaxLow = 0`, `TMaxHydro = 10`: the call is
`brentq` on `[1, 3]`, the last window is `[2, 3]`, `f` is continuous. -/
example : (0 : ℝ) < 1 ∧ (1 : ℝ) < 10 ∧ (search lin 0 2 1 0 10 5).2 = .brentq 1 3 ∧
    (search lin 0 2 1 0 10 5).1.tmin = 2 ∧
    ContinuousOn lin (Set.Icc (search lin 0 2 1 0 10 5).1.tmin (search lin 0 2 1 0 10 5).1.tmax) := by
  refine ⟨by norm_num, by norm_num, ?_, ?_, continuous_lin.continuousOn⟩ <;>
    norm_num [search, widen, min2, max2, lin]

/-- **J2, negative result (finding).**  The bracket handed to `brentq` can contain roots that the bracket search
itself has stepped over.  Instance: `f = (x-5/4)(x-7/4)(x-5/2)`, `Tn = 1`, `TMaxLow = 0`, `TMaxHydro = 10`, any
fuel `≥ 1`.  The first window `[1, 2]` has ends of equal strict sign (it hides the two roots `5/4`, `7/4`), the
loop moves on to `[2, 3]`, which shows a strict sign change and contains only the root `5/2`; the call is
`brentq` on `[1, 3]`, which contains all three roots.  Which of them is returned is up to `brentq`; the code does
not restrict the root finder to the window where it located the sign change. -/
theorem brentq_may_return_other_root (fuel : ℕ) (hf : 1 ≤ fuel) :
    (search cubic3 0 2 1 0 10 fuel).1.tmin = 2 ∧ (search cubic3 0 2 1 0 10 fuel).1.tmax = 3 ∧
    (search cubic3 0 2 1 0 10 fuel).1.b1 * (search cubic3 0 2 1 0 10 fuel).1.b2 < 0 ∧
    (search cubic3 0 2 1 0 10 fuel).2 = .brentq 1 3 ∧
    0 < cubic3 1 * cubic3 2 ∧
    (∀ x, cubic3 x = 0 ↔ x = 5 / 4 ∨ x = 7 / 4 ∨ x = 5 / 2) ∧
    (∀ x ∈ Set.Icc (1 : ℝ) 3, cubic3 x = 0 ↔ x = 5 / 4 ∨ x = 7 / 4 ∨ x = 5 / 2) ∧
    (∀ x ∈ Set.Icc (2 : ℝ) 3, cubic3 x = 0 ↔ x = 5 / 2) := by
  obtain ⟨m, rfl⟩ := Nat.exists_eq_add_of_le' hf
  have hc0 : Cond 10 (init cubic3 1 0 10) := by
    norm_num [Cond, init, tmax0, cubic3]
  have hc1 : ¬ Cond 10 (step cubic3 1 10 (init cubic3 1 0 10)) := by
    norm_num [Cond, step, init, tmax0, cubic3]
  have hfin : final cubic3 1 0 10 (m + 1) = step cubic3 1 10 (init cubic3 1 0 10) := by
    rw [final_succ_pos hc0, widen_of_not_cond hc1]
  rw [search_eq, hfin]
  refine ⟨?_, ?_, ?_, ?_, ?_, cubic3_eq_zero_iff, ?_, ?_⟩
  · norm_num [step, init, tmax0]
  · norm_num [step, init, tmax0]
  · norm_num [step, init, tmax0, cubic3]
  · norm_num [step, init, tmax0, cubic3]
  · norm_num [cubic3]
  · intro x _; exact cubic3_eq_zero_iff x
  · intro x hx
    rw [cubic3_eq_zero_iff]
    obtain ⟨h2, _⟩ := hx
    constructor
    · rintro (h | h | h)
      · rw [h] at h2; norm_num at h2
      · rw [h] at h2; norm_num at h2
      · exact h
    · exact fun h => Or.inr (Or.inr h)

/-- the three roots do lie in the bracket `[1, 3]`, two of them outside the last window `[2, 3]` -/
example : (5 / 4 : ℝ) ∈ Set.Icc (1 : ℝ) 3 ∧ (7 / 4 : ℝ) ∈ Set.Icc (1 : ℝ) 3 ∧ (5 / 2 : ℝ) ∈ Set.Icc (2 : ℝ) 3 ∧
    (5 / 4 : ℝ) ∉ Set.Icc (2 : ℝ) 3 ∧ (7 / 4 : ℝ) ∉ Set.Icc (2 : ℝ) 3 := by
  norm_num [Set.mem_Icc]

/-! ### J3 — the secant call -/

/-- The call is `secant` with starting points `Tn`, `w.tmax` exactly when the final residuals have equal strict
signs (line 148). -/
theorem secant_iff (x0 x1 : ℝ) :
    (R).2 = .secant x0 x1 ↔ 0 < (R).1.b1 * (R).1.b2 ∧ x0 = Tn ∧ x1 = (R).1.tmax := by
  rw [search_fst]; exact call_secant_iff fuel x0 x1

/-- The upper end of the window never exceeds the ceiling (invariant used by J3, part of J6). -/
theorem tmax_le_ceiling : (R).1.tmax ≤ TMaxHydro := by
  rw [search_fst]; exact (inv_final fuel).tmax_le

/-- **J3.** The secant method is used only if the final residuals have equal strict signs; its starting points are
`Tn` and `w.tmax`; and if the loop did not stop for lack of fuel (`¬ w.tmax < TMaxHydro`), the ceiling was reached
exactly. -/
theorem secant_only_if (x0 x1 : ℝ) (h : (R).2 = .secant x0 x1) :
    x0 = Tn ∧ x1 = (R).1.tmax ∧ 0 < (R).1.b1 * (R).1.b2 ∧
      (¬ (R).1.tmax < TMaxHydro → (R).1.tmax = TMaxHydro) := by
  obtain ⟨hb, h0, h1⟩ := (secant_iff f Tn TMaxLow TMaxHydro fuel x0 x1).mp h
  exact ⟨h0, h1, hb, fun hn => le_antisymm (tmax_le_ceiling f Tn TMaxLow TMaxHydro fuel) (not_lt.mp hn)⟩

/-- non-vacuity of J3: `f = 1`, `Tn = 1`, `TMaxHydro = 4`: windows `[1,2]`, `[2,3]`, `[3,4]`, then `secant(1, 4)` -/
example : (search one 0 2 1 0 4 5).2 = .secant 1 4 ∧ ¬ (search one 0 2 1 0 4 5).1.tmax < 4 := by
  norm_num [search, widen, min2, max2, one]

/-! ### J5 — termination -/

/-- The model cannot iterate more often than its fuel. -/
theorem steps_le_fuel : (R).1.steps ≤ fuel := by
  rw [search_fst]
  have := widen_steps_le (f := f) (Tn := Tn) (TH := TMaxHydro) fuel (init f Tn TMaxLow TMaxHydro)
  simpa [final, init] using this

/-- If fewer iterations than the fuel were used, the loop ended because its condition (line 133) became false. -/
theorem loop_exit_of_steps_lt_fuel (h : (R).1.steps < fuel) :
    ¬ (0 < (R).1.b1 * (R).1.b2 ∧ (R).1.tmax < TMaxHydro) := by
  rw [search_fst] at h ⊢
  exact widen_stop fuel _ (by simpa [final, init] using h)

/-- non-vacuity -/
example : (search one 0 2 1 0 4 5).1.steps < 5 := by
  norm_num [search, widen, min2, max2, one]

/-- **J5, bound.** With `0 < Tn` the number of iterations satisfies `steps * Tn < (TMaxHydro - T0) + Tn`
(strict; for `steps ≥ 1` this is `T0 + (steps-1)*Tn < TMaxHydro`), for every fuel. -/
theorem steps_bound (hTn : 0 < Tn) : ((R).1.steps : ℝ) * Tn < (TMaxHydro - T0) + Tn := by
  rw [search_fst]; exact (inv_final fuel).steps_bound hTn

/-- **J5, bound (integer form).** `steps ≤ ⌈(TMaxHydro - T0)/Tn⌉₊`, for every fuel.  The bound is attained when `f`
never changes sign (see the example below). -/
theorem steps_le_ceil (hTn : 0 < Tn) : (R).1.steps ≤ ⌈(TMaxHydro - T0) / Tn⌉₊ := by
  rw [search_fst]; exact (inv_final fuel).steps_le_ceil hTn

/-- the bound is attained: `f = 1`, `Tn = 1`, `TMaxHydro = 4`: `T0 = 2`, two iterations -/
example : (search one 0 2 1 0 4 5).1.steps = 2 ∧ ((4 : ℝ) - min (max (2 * 1) 0) 4) / 1 = 2 := by
  norm_num [search, widen, min2, max2, one]

/-- **J5.** With `0 < Tn` and `N = ⌈(TMaxHydro - T0)/Tn⌉₊ + 1`: for every `fuel ≥ N` the result equals the result
for `N` (so the unbounded Python loop terminates with exactly this result), and the loop condition of line 133 is
false at the end. -/
theorem terminates (hTn : 0 < Tn) (hf : ⌈(TMaxHydro - T0) / Tn⌉₊ + 1 ≤ fuel) :
    R = search f 0 2 Tn TMaxLow TMaxHydro (⌈(TMaxHydro - T0) / Tn⌉₊ + 1) ∧
      ¬ (0 < (R).1.b1 * (R).1.b2 ∧ (R).1.tmax < TMaxHydro) := by
  constructor
  · rw [search_eq, search_eq, final_fuel_indep hTn hf]; rfl
  · rw [search_fst]; exact final_not_cond hTn hf

/-- non-vacuity of J5: `Tn = 1`, `TMaxLow = 0`, `TMaxHydro = 4`: `N = 3 ≤ 5` -/
example : (0 : ℝ) < 1 ∧ ⌈((4 : ℝ) - min (max (2 * 1) 0) 4) / 1⌉₊ + 1 ≤ 5 := by
  have : ((4 : ℝ) - min (max (2 * 1) 0) 4) / 1 = (2 : ℕ) := by norm_num
  rw [this, Nat.ceil_natCast]; norm_num

/-- **J3 + J5.** With sufficient fuel, a secant call means that the ceiling was reached: `w.tmax = TMaxHydro`. -/
theorem secant_ceiling_reached (hTn : 0 < Tn) (hf : ⌈(TMaxHydro - T0) / Tn⌉₊ + 1 ≤ fuel) (x0 x1 : ℝ)
    (h : (R).2 = .secant x0 x1) : (R).1.tmax = TMaxHydro := by
  obtain ⟨-, -, hb, hc⟩ := secant_only_if f Tn TMaxLow TMaxHydro fuel x0 x1 h
  exact hc fun hlt => (terminates f Tn TMaxLow TMaxHydro fuel hTn hf).2 ⟨hb, hlt⟩

/-- **J3 + J4.** The secant method is used only if `f` has one and the same strict sign at every sampled temperature
`Tn, T0, T0+Tn, …, w.tmin, w.tmax` (with sufficient fuel `w.tmax` is the ceiling, by `secant_ceiling_reached`). -/
theorem secant_same_sign_everywhere (x0 x1 : ℝ) (h : (R).2 = .secant x0 x1) (k : ℕ)
    (hk : k ≤ (R).1.steps + 1) : 0 < f Tn * f (V k) := by
  obtain ⟨hb, -, -⟩ := (secant_iff f Tn TMaxLow TMaxHydro fuel x0 x1).mp h
  rw [search_fst] at hb hk
  have hi := inv_final (f := f) (Tn := Tn) (TL := TMaxLow) (TH := TMaxHydro) fuel
  rw [hi.b1, hi.b2, hi.tmin, hi.tmax] at hb
  rcases Nat.eq_zero_or_pos (final f Tn TMaxLow TMaxHydro fuel).steps with h0 | hpos
  · rw [h0] at hb hk
    have hne : f Tn ≠ 0 := by
      intro h0'; rw [Lemmas.Jouguet.visit_zero, h0'] at hb; simp at hb
    interval_cases k
    · exact mul_self_pos.mpr hne
    · exact hb
  · rcases Nat.lt_succ_iff_lt_or_eq.mp (Nat.lt_succ_iff.mpr hk) with hk' | rfl
    · exact hi.same_sign' hpos k (Nat.lt_succ_iff.mp hk')
    · exact mul_pos_trans (hi.same_sign' hpos _ le_rfl) hb

/-- non-vacuity: see the `secant(1, 4)` instance above; with sufficient fuel -/
example : (search one 0 2 1 0 4 5).2 = .secant 1 4 ∧ (search one 0 2 1 0 4 5).1.tmax = 4 := by
  norm_num [search, widen, min2, max2, one]

/-! ### J6 — geometry of the window -/

/-- **J6a.** If the loop never iterated, the window is `[Tn, T0]`. -/
theorem window_zero_steps (h : (R).1.steps = 0) : (R).1.tmin = Tn ∧ (R).1.tmax = T0 := by
  obtain ⟨h1, h2⟩ := window_on_progression f Tn TMaxLow TMaxHydro fuel
  rw [h] at h1 h2
  exact ⟨h1, by rw [h2, zero_add]; exact visit_one⟩

/-- **J6b.** If the loop iterated `n ≥ 1` times, the lower end is `T0 + (n-1)*Tn`, strictly below the ceiling, and
`2*Tn ≤ T0 < TMaxHydro`. -/
theorem window_pos_steps (h : 0 < (R).1.steps) :
    (R).1.tmin = T0 + ((R).1.steps - 1 : ℕ) * Tn ∧ (R).1.tmin < TMaxHydro ∧
      2 * Tn ≤ T0 ∧ T0 < TMaxHydro := by
  rw [search_fst] at h ⊢
  have hi := inv_final (f := f) (Tn := Tn) (TL := TMaxLow) (TH := TMaxHydro) fuel
  exact ⟨(hi.tmin_eq_of_pos h).1, (hi.tmin_eq_of_pos h).2, (hi.two_tn_le h).1, (hi.two_tn_le h).2⟩

/-- **J6c.** With `0 ≤ Tn` the window never starts below `Tn`. -/
theorem tn_le_tmin (hTn : 0 ≤ Tn) : Tn ≤ (R).1.tmin := by
  rw [search_fst]; exact (inv_final fuel).tn_le_tmin hTn

/-- **J6d.** With `0 < Tn`, the first window `[Tn, T0]` is non-degenerate iff the ceiling lies above `Tn`. -/
theorem tn_lt_first_upper_end_iff (hTn : 0 < Tn) : Tn < T0 ↔ Tn < TMaxHydro :=
  tn_lt_tmax0_iff hTn

/-- **J6e (exact).** With `0 < Tn`, the final window is non-degenerate and correctly oriented iff the loop iterated
or `Tn < TMaxHydro`. -/
theorem tmin_lt_tmax_iff (hTn : 0 < Tn) :
    (R).1.tmin < (R).1.tmax ↔ (0 < (R).1.steps ∨ Tn < TMaxHydro) := by
  rw [search_fst]
  have hi := inv_final (f := f) (Tn := Tn) (TL := TMaxLow) (TH := TMaxHydro) fuel
  rcases Nat.eq_zero_or_pos (final f Tn TMaxLow TMaxHydro fuel).steps with h0 | hpos
  · rw [hi.tmin, hi.tmax, h0, Lemmas.Jouguet.visit_zero, zero_add, visit_one, tn_lt_tmax0_iff hTn]
    simp
  · exact ⟨fun _ => Or.inl hpos, fun _ => hi.tmin_lt_tmax_of_pos hTn hpos⟩

/-- **J6.** With `0 < Tn < TMaxHydro` (the code sets `TMaxHydro = tmax*Tn`, `tmax > 1`):
`Tn ≤ w.tmin < w.tmax ≤ TMaxHydro`, for every fuel. -/
theorem window_ordered (hTn : 0 < Tn) (hTH : Tn < TMaxHydro) :
    Tn ≤ (R).1.tmin ∧ (R).1.tmin < (R).1.tmax ∧ (R).1.tmax ≤ TMaxHydro :=
  ⟨tn_le_tmin f Tn TMaxLow TMaxHydro fuel hTn.le,
    (tmin_lt_tmax_iff f Tn TMaxLow TMaxHydro fuel hTn).mpr (Or.inr hTH),
    tmax_le_ceiling f Tn TMaxLow TMaxHydro fuel⟩

/-- non-vacuity of J6 -/
example : (0 : ℝ) < 1 ∧ (1 : ℝ) < 10 ∧ (search lin 0 2 1 0 10 5).1.steps = 1 ∧
    (search lin 0 2 1 0 10 0).1.steps = 0 := by
  norm_num [search, widen, min2, max2, lin]

/-- The hypothesis `Tn < TMaxHydro` of J6 cannot be dropped: with `TMaxHydro ≤ Tn` the window is `[Tn, TMaxHydro]`,
degenerate or reversed (instance `Tn = 2`, `TMaxHydro = 1`). -/
example : (search one 0 2 2 0 1 5).1.tmin = 2 ∧ (search one 0 2 2 0 1 5).1.tmax = 1 := by
  norm_num [search, widen, min2, max2, one]

/-! ### J7 — the result depends on `f` only through the visited temperatures -/

/-- **J7.** If `g` agrees with `f` at the temperatures visited by the run on `f` (`V 0, …, V (n+1)`, `n` the number of
iterations of that run), the run on `g` yields the same window and the same call. -/
theorem deterministic
    (h : ∀ k, k ≤ (R).1.steps + 1 → f (V k) = g (V k)) :
    search g 0 2 Tn TMaxLow TMaxHydro fuel = R := by
  rw [search_fst] at h
  rw [search_eq, search_eq, final_congr fuel h]

/-- J7, coarse form: agreement on the whole progression `Tn, T0, min(T0+k*Tn, TMaxHydro)` suffices. -/
theorem deterministic' (h : ∀ k, f (V k) = g (V k)) :
    search g 0 2 Tn TMaxLow TMaxHydro fuel = R :=
  deterministic f g Tn TMaxLow TMaxHydro fuel fun k _ => h k

/-- non-vacuity of J7: `g = f + (x-1)(x-2)(x-3)` agrees with `f = x - 5/2` on `V 0 = 1`, `V 1 = 2`, `V 2 = 3`
(the run on `f` makes one iteration) and differs elsewhere. -/
example : (search lin 0 2 1 0 10 5).1.steps = 1 ∧
    (∀ k, k ≤ 1 + 1 → lin (visit 1 0 10 k) = (fun x => lin x + (x - 1) * (x - 2) * (x - 3)) (visit 1 0 10 k)) ∧
    lin 4 ≠ (fun x => lin x + (x - 1) * (x - 2) * (x - 3)) 4 := by
  refine ⟨by norm_num [search, widen, min2, max2, lin], ?_, by norm_num [lin]⟩
  intro k hk
  interval_cases k <;> norm_num [visit, tmax0, lin]

end Props.C06J
