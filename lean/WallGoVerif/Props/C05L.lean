/-
Property C05, decision logic of `Hydrodynamics.findvwLTE` on the EXECUTABLE model `Model.LTE.findvwLTE`
(the model that is differentially tested against the Python method), at `α := ℝ` with the constants of the code
(`0`, `1e-10`, `1e-6`).

C05: "When the LTE solver returns a velocity strictly between its two sentinel values, the hydrodynamic matching at that
velocity satisfies T₊γ₊ = T₋γ₋ in addition to energy-momentum conservation and the nucleation-temperature boundary
condition.  When it returns the runaway sentinel the entropy mismatch keeps one sign over the whole deflagration/hybrid
window, and when it returns the static sentinel the mismatch already has the stopping sign at the smallest allowed
velocity."

This file: which outcome is produced under which tests (all three clauses), that an interior value is a root of the
nucleation-temperature mismatch handed to a validated bracket (clause 1, boundary condition), that the static sentinel
comes with the stopping sign at `vMin` (clause 3), and that the runaway sentinel is decided from the END POINT of the window
only (clause 2 is therefore not a theorem about the code: `runaway_does_not_test_interior`).
Helper lemmas and the concrete instances are in `Lemmas/LTE.lean`.
-/
import WallGoVerif.Lemmas.LTE
import WallGoVerif.Props.C05

namespace Props.C05L

open Model.LTE Lemmas.LTE

/-! ### Link with the older decision model (T05.2 of `Props.C05`) -/

/-- **Link.** The float returned for the outcome of the executable model (`1` for runaway, `0` for static, the root
otherwise) equals the value of the older ℝ-only decision model `Lemmas.Hydro.findvwLTE` fed with what the executable
model observes (`shock(vJ - 1e-10)`, the shock root, `shockTnuclDiff`, the convergence flag of each matching, the final
root).  Hence theorems T05.2 of `Props.C05` (`findvwLTE_interior`, `findvwLTE_final`, `findvwLTE_eq_one`,
`findvwLTE_eq_zero`) speak about the model that is tested against the Python code.  Serves all three clauses of C05. -/
theorem model_agrees_with_C05 (P : Phys ℝ) (O : Oracles ℝ) (Tn vMin vJ sqrtCs : ℝ) :
    value (findvwLTE P O 0 1e-10 1e-6 Tn vMin vJ sqrtCs)
      = Lemmas.Hydro.findvwLTE (toLTEIn P O Tn vMin vJ sqrtCs) :=
  value_findvwLTE P O Tn vMin vJ sqrtCs

/-- **T05.2 (a) transported to the executable model.** If the returned float is strictly between the two sentinels,
it is the number returned by the final root finder for the bracket `(vMin, vmax)`, and that bracket had been validated
(`shockTnuclDiff(vmax) ≤ 0`, matching at `vmax` converged, `shockTnuclDiff(vMin) ≥ 0`).  Obtained from
`Props.C05.findvwLTE_interior` through the link; serves clause 1 of C05. -/
theorem model_inherits_T05_2 (P : Phys ℝ) (O : Oracles ℝ) (Tn vMin vJ sqrtCs : ℝ)
    (h0 : 0 < value (findvwLTE P O 0 1e-10 1e-6 Tn vMin vJ sqrtCs))
    (h1 : value (findvwLTE P O 0 1e-10 1e-6 Tn vMin vJ sqrtCs) < 1) :
    ∃ vmax, vmaxOf P O 0 1e-10 1e-6 vJ sqrtCs = some vmax ∧ diff P Tn vmax ≤ 0 ∧
      (P.mtch vmax).2.2 = true ∧ 0 ≤ diff P Tn vMin ∧
      value (findvwLTE P O 0 1e-10 1e-6 Tn vMin vJ sqrtCs) = O.rootD vMin vmax := by
  rw [model_agrees_with_C05] at h0 h1 ⊢
  obtain ⟨vmax, hv, h⟩ := Props.C05.findvwLTE_interior _ h0 h1
  exact ⟨vmax, by rw [vmaxOf_eq_lteVmax P O Tn vMin vJ sqrtCs]; exact hv, h⟩

/-- Non-vacuity of `model_inherits_T05_2`: `vJ = 3/5`, mismatch `1/2 - vw`, returned float `1/2`. -/
example :
    0 < value (findvwLTE (demoPhys (1 / 2) true) (demoOracles none (1 / 2)) 0 1e-10 1e-6 1 (1 / 10) (3 / 5) (577 / 1000)) ∧
    value (findvwLTE (demoPhys (1 / 2) true) (demoOracles none (1 / 2)) 0 1e-10 1e-6 1 (1 / 10) (3 / 5) (577 / 1000)) < 1 := by
  have h : findvwLTE (demoPhys (1 / 2) true) (demoOracles none (1 / 2)) 0 1e-10 1e-6 1 (1 / 10) (3 / 5) (577 / 1000)
      = .root (1 / 10) (3 / 5 - 1e-10) (1 / 2) :=
    (findvwLTE_eq_root_iff ..).mpr ⟨rfl, demo_vmaxOf_deflag .., rfl, by norm_num, rfl, by norm_num⟩
  rw [h]; norm_num

/-! ### The three outcomes -/

/-- **Outcome table.** Exhaustive and mutually exclusive description of what the code returns (the three right-hand
sides describe the three distinct constructors of one value):
* runaway sentinel `1` exactly when the shock front is behind the wall at `vJ - 1e-10` and the shock root finder raised
  `ValueError`, or, with `vmax` the top of the window, `shockTnuclDiff(vmax) > 0` or the matching at `vmax` did not converge;
* static sentinel `0` exactly when the window top exists, `shockTnuclDiff(vmax) ≤ 0`, the matching at `vmax` converged and
  `shockTnuclDiff(vMin) < 0`;
* a root `v` with bracket `(a, b)` exactly when `a = vMin`, `b = vmax`, `v` is what the final root finder returns for that
  bracket, `shockTnuclDiff(vmax) ≤ 0`, the matching at `vmax` converged and `shockTnuclDiff(vMin) ≥ 0`.
Serves all three clauses of C05 (it says which tests each return value certifies). -/
theorem outcome_cases (P : Phys ℝ) (O : Oracles ℝ) (Tn vMin vJ sqrtCs : ℝ) :
    (findvwLTE P O 0 1e-10 1e-6 Tn vMin vJ sqrtCs = .runaway ↔
      (0 < shock P (vJ - 1e-10) ∧ O.rootS sqrtCs vJ = none) ∨
      ∃ vmax, vmaxOf P O 0 1e-10 1e-6 vJ sqrtCs = some vmax ∧
        (0 < diff P Tn vmax ∨ (P.mtch vmax).2.2 = false)) ∧
    (findvwLTE P O 0 1e-10 1e-6 Tn vMin vJ sqrtCs = .static ↔
      ∃ vmax, vmaxOf P O 0 1e-10 1e-6 vJ sqrtCs = some vmax ∧ diff P Tn vmax ≤ 0 ∧
        (P.mtch vmax).2.2 = true ∧ diff P Tn vMin < 0) ∧
    (∀ a b v, findvwLTE P O 0 1e-10 1e-6 Tn vMin vJ sqrtCs = .root a b v ↔
      a = vMin ∧ vmaxOf P O 0 1e-10 1e-6 vJ sqrtCs = some b ∧ v = O.rootD vMin b ∧
        diff P Tn b ≤ 0 ∧ (P.mtch b).2.2 = true ∧ 0 ≤ diff P Tn vMin) :=
  ⟨findvwLTE_eq_runaway_iff P O Tn vMin vJ sqrtCs, findvwLTE_eq_static_iff P O Tn vMin vJ sqrtCs,
    fun a b v => findvwLTE_eq_root_iff P O Tn vMin vJ sqrtCs a b v⟩

/-- **Exhaustiveness.** Nothing else can be returned: runaway, static, or the root found in the bracket
`(vMin, vmax)` where `vmax` is the window top.  Companion of `outcome_cases`. -/
theorem outcome_exhaustive (P : Phys ℝ) (O : Oracles ℝ) (Tn vMin vJ sqrtCs : ℝ) :
    findvwLTE P O 0 1e-10 1e-6 Tn vMin vJ sqrtCs = .runaway ∨
    findvwLTE P O 0 1e-10 1e-6 Tn vMin vJ sqrtCs = .static ∨
    ∃ vmax, vmaxOf P O 0 1e-10 1e-6 vJ sqrtCs = some vmax ∧
      findvwLTE P O 0 1e-10 1e-6 Tn vMin vJ sqrtCs = .root vMin vmax (O.rootD vMin vmax) :=
  findvwLTE_trichotomy P O Tn vMin vJ sqrtCs

/-! ### The window `[vMin, vmax]` -/

/-- **Top of the velocity window.** If the shock front is ahead of the wall at `vJ - 1e-10` (`shock ≤ 0`, pure
deflagration up to the Jouguet velocity) the top is `vJ - 1e-10`; otherwise it is `r - 1e-6` where `r` is what the shock
root finder returned for the bracket `[cs(Tn), vJ]` (no top if it raised `ValueError`).  The third part is the converse:
these are the only ways a top can arise.  Serves clauses 1 and 2 of C05 (it fixes the "deflagration/hybrid window"). -/
theorem window_top (P : Phys ℝ) (O : Oracles ℝ) (vJ sqrtCs : ℝ) :
    (shock P (vJ - 1e-10) ≤ 0 → vmaxOf P O 0 1e-10 1e-6 vJ sqrtCs = some (vJ - 1e-10)) ∧
    (0 < shock P (vJ - 1e-10) →
      vmaxOf P O 0 1e-10 1e-6 vJ sqrtCs = (O.rootS sqrtCs vJ).map (fun r => r - 1e-6)) ∧
    (∀ vmax, vmaxOf P O 0 1e-10 1e-6 vJ sqrtCs = some vmax ↔
      (shock P (vJ - 1e-10) ≤ 0 ∧ vmax = vJ - 1e-10) ∨
      (0 < shock P (vJ - 1e-10) ∧ ∃ r, O.rootS sqrtCs vJ = some r ∧ vmax = r - 1e-6)) :=
  ⟨vmaxOf_of_shock_nonpos P O vJ sqrtCs, vmaxOf_of_shock_pos P O vJ sqrtCs,
    vmaxOf_eq_some_iff P O vJ sqrtCs⟩

/-- **The window top is below the Jouguet velocity.** Under the contract of the shock root finder that its root does not
exceed the upper bracket end (`r ≤ vJ`; the lower half `cs(Tn) ≤ r` of the bracket contract is not needed), the top of
the window is strictly smaller than `vJ`.  Serves clause 1 of C05 (the returned velocity is a deflagration/hybrid). -/
theorem window_top_lt_vJ (P : Phys ℝ) (O : Oracles ℝ) (vJ sqrtCs vmax : ℝ)
    (hS : ∀ r, O.rootS sqrtCs vJ = some r → r ≤ vJ)
    (h : vmaxOf P O 0 1e-10 1e-6 vJ sqrtCs = some vmax) : vmax < vJ := by
  rcases (vmaxOf_eq_some_iff P O vJ sqrtCs vmax).mp h with ⟨-, rfl⟩ | ⟨-, r, hr, rfl⟩
  · norm_num
  · have := hS r hr
    have h6 : (0 : ℝ) < 1e-6 := by norm_num
    linarith

/-- **Lower bound of the reduced top.** In the hybrid case the top is at least `cs(Tn) - 1e-6` under the other half of the
bracket contract (`cs(Tn) ≤ r`).  Nothing in the code compares the top with `vMin`. -/
theorem window_top_ge (P : Phys ℝ) (O : Oracles ℝ) (vJ sqrtCs vmax : ℝ)
    (hS : ∀ r, O.rootS sqrtCs vJ = some r → sqrtCs ≤ r)
    (hs : 0 < shock P (vJ - 1e-10))
    (h : vmaxOf P O 0 1e-10 1e-6 vJ sqrtCs = some vmax) : sqrtCs - 1e-6 ≤ vmax := by
  rcases (vmaxOf_eq_some_iff P O vJ sqrtCs vmax).mp h with ⟨h0, -⟩ | ⟨-, r, hr, rfl⟩
  · exact absurd hs (not_lt.mpr h0)
  · have := hS r hr
    linarith

/-- Non-vacuity of `window_top_lt_vJ` and `window_top_ge` (hybrid case): `vJ = 9/10`, `shock(vw) = vw/2 - 1/3` is
positive at `vJ - 1e-10`, the shock root finder returns `2/3`, and the top is `2/3 - 1e-6`. -/
example :
    (∀ r, (demoOracles (some (2 / 3)) (1 / 2)).rootS (577 / 1000) (9 / 10) = some r → 577 / 1000 ≤ r ∧ r ≤ 9 / 10) ∧
    0 < shock (demoPhys (1 / 2) true) (9 / 10 - 1e-10) ∧
    vmaxOf (demoPhys (1 / 2) true) (demoOracles (some (2 / 3)) (1 / 2)) 0 1e-10 1e-6 (9 / 10) (577 / 1000)
      = some (2 / 3 - 1e-6) := by
  refine ⟨?_, ?_, ?_⟩
  · intro r hr
    rw [demo_rootS] at hr
    cases hr
    norm_num
  · rw [demo_shock]; norm_num
  · rw [demo_vmaxOf_hybrid]; rfl

/-- Non-vacuity of the first part of `window_top` (deflagration case): `vJ = 3/5`. -/
example :
    shock (demoPhys (1 / 2) true) (3 / 5 - 1e-10) ≤ 0 ∧
    vmaxOf (demoPhys (1 / 2) true) (demoOracles none (1 / 2)) 0 1e-10 1e-6 (3 / 5) (577 / 1000)
      = some (3 / 5 - 1e-10) := by
  refine ⟨?_, demo_vmaxOf_deflag ..⟩
  rw [demo_shock]; norm_num

/-- **Which sound speed the shock test uses.** `shock(vw) = v₊·vw − cs²(T₊)` where `v₊`, `T₊` are those of the matching
at THAT `vw`: the sound speed of the symmetric phase is evaluated at the temperature in front of the wall, not at `Tn`.
The sign test `shock(vw) < 0` ("the shock front is ahead of the wall") is `v₊·vw < cs²(T₊)`.  True by definition of the
model; stated as a theorem so that a change of the model (e.g. `cs²(Tn)`) breaks it.  Serves the "deflagration/hybrid
window" of clause 2 of C05. -/
theorem shock_uses_temperature_in_front (P : Phys ℝ) (vw vp Tp : ℝ) (ok : Bool)
    (h : P.mtch vw = (vp, Tp, ok)) :
    shock P vw = vp * vw - P.csqHigh Tp ∧ (shock P vw < 0 ↔ vp * vw < P.csqHigh Tp) := by
  have hs : shock P vw = vp * vw - P.csqHigh Tp := by
    unfold shock
    rw [h]
  exact ⟨hs, by rw [hs, sub_neg]⟩

/-- Non-vacuity of `shock_uses_temperature_in_front`: a physics whose `cs²` depends on the temperature
(`cs²(T) = T/3`, `T₊ = 2`, `v₊ = 1/2`): `shock(1) = 1/2 - 2/3`, not `1/2 - 1/3`. -/
example :
    let P : Phys ℝ := { mtch := fun _ => (1 / 2, 2, true), shockTn := fun _ _ _ => 0, csqHigh := fun T => T / 3 }
    P.mtch 1 = (1 / 2, 2, true) ∧ shock P 1 = 1 / 2 - 2 / 3 := by
  intro P
  refine ⟨rfl, ?_⟩
  rw [(shock_uses_temperature_in_front P 1 (1 / 2) 2 true rfl).1]
  norm_num [P]

/-! ### Interior value: clause 1 of C05 (boundary condition) -/

/-- **The final bracket is always valid.** Whenever the code reaches the final `root_scalar`, the bracket is
`(vMin, vmax)` with `shockTnuclDiff(vmax) ≤ 0 ≤ shockTnuclDiff(vMin)` (a sign change or a zero end point, so the root
finder cannot raise), and the matching at `vmax` had converged.  Serves clause 1 of C05. -/
theorem root_bracket_valid (P : Phys ℝ) (O : Oracles ℝ) (Tn vMin vJ sqrtCs a b v : ℝ)
    (h : findvwLTE P O 0 1e-10 1e-6 Tn vMin vJ sqrtCs = .root a b v) :
    a = vMin ∧ diff P Tn b ≤ 0 ∧ 0 ≤ diff P Tn a ∧ (P.mtch b).2.2 = true := by
  obtain ⟨rfl, -, -, hb, hs, ha⟩ := (findvwLTE_eq_root_iff P O Tn vMin vJ sqrtCs a b v).mp h
  exact ⟨rfl, hb, ha, hs⟩

/-- **An interior value meets the nucleation-temperature boundary condition.** Assume the contract of the final root
finder for the bracket `(a, b)` it is handed: if `shockTnuclDiff(b) ≤ 0 ≤ shockTnuclDiff(a)` then the returned number is a
zero of `shockTnuclDiff` and lies in `[a, b]`; and the contract `r ≤ vJ` of the shock root finder.  Then for an outcome
`.root a b v`: integrating the shock from the matching at `v` gives exactly `Tn` ahead of the shock
(`solveHydroShock(v, v₊, T₊) = Tn` with `(v₊, T₊) = matchDeflagOrHyb(v)`), and `vMin ≤ v ≤ vmax < vJ`.
Serves clause 1 of C05 ("… and the nucleation-temperature boundary condition"). -/
theorem interior_meets_boundary_condition (P : Phys ℝ) (O : Oracles ℝ) (Tn vMin vJ sqrtCs a b v : ℝ)
    (h : findvwLTE P O 0 1e-10 1e-6 Tn vMin vJ sqrtCs = .root a b v)
    (hD : diff P Tn b ≤ 0 → 0 ≤ diff P Tn a →
      diff P Tn (O.rootD a b) = 0 ∧ a ≤ O.rootD a b ∧ O.rootD a b ≤ b)
    (hS : ∀ r, O.rootS sqrtCs vJ = some r → r ≤ vJ) :
    (∀ vp Tp ok, P.mtch v = (vp, Tp, ok) → P.shockTn v vp Tp = Tn) ∧
      vMin ≤ v ∧ v ≤ b ∧ b < vJ := by
  obtain ⟨rfl, hv, rfl, hb, -, ha⟩ := (findvwLTE_eq_root_iff P O Tn vMin vJ sqrtCs a b v).mp h
  obtain ⟨hz, hl, hu⟩ := hD hb ha
  refine ⟨?_, hl, hu, window_top_lt_vJ P O vJ sqrtCs b hS hv⟩
  intro vp Tp ok hm
  have : diff P Tn (O.rootD a b) = P.shockTn (O.rootD a b) vp Tp - Tn := by
    unfold diff
    rw [hm]
  rw [this] at hz
  exact sub_eq_zero.mp hz

/-- Non-vacuity of `root_bracket_valid` and `interior_meets_boundary_condition` (deflagration window): `vJ = 3/5`,
`Tn = 1`, `Tn(shock)(vw) = 1 + (1/2 - vw)`, the final root finder returns `1/2`.  The outcome is the root `1/2` in the
bracket `(1/10, 3/5 - 1e-10)` and both contracts hold. -/
example :
    findvwLTE (demoPhys (1 / 2) true) (demoOracles none (1 / 2)) 0 1e-10 1e-6 1 (1 / 10) (3 / 5) (577 / 1000)
      = .root (1 / 10) (3 / 5 - 1e-10) (1 / 2) ∧
    (diff (demoPhys (1 / 2) true) 1 (3 / 5 - 1e-10) ≤ 0 → 0 ≤ diff (demoPhys (1 / 2) true) 1 (1 / 10) →
      diff (demoPhys (1 / 2) true) 1 ((demoOracles none (1 / 2)).rootD (1 / 10) (3 / 5 - 1e-10)) = 0 ∧
      1 / 10 ≤ (demoOracles none (1 / 2)).rootD (1 / 10) (3 / 5 - 1e-10) ∧
      (demoOracles none (1 / 2)).rootD (1 / 10) (3 / 5 - 1e-10) ≤ 3 / 5 - 1e-10) ∧
    (∀ r, (demoOracles none (1 / 2)).rootS (577 / 1000) (3 / 5) = some r → r ≤ 3 / 5) := by
  refine ⟨?_, ?_, ?_⟩
  · exact (findvwLTE_eq_root_iff ..).mpr ⟨rfl, demo_vmaxOf_deflag .., rfl, by norm_num, rfl, by norm_num⟩
  · intro _ _
    simp only [demo_rootD, demo_diff]
    norm_num
  · intro r hr
    rw [demo_rootS] at hr
    cases hr

/-- Non-vacuity, hybrid window: `vJ = 9/10`, the shock root finder returns `2/3`, the bracket is
`(1/10, 2/3 - 1e-6)` and the root `1/2` is returned; the shock-root contract `r ≤ vJ` holds. -/
example :
    findvwLTE (demoPhys (1 / 2) true) (demoOracles (some (2 / 3)) (1 / 2)) 0 1e-10 1e-6 1 (1 / 10) (9 / 10) (577 / 1000)
      = .root (1 / 10) (2 / 3 - 1e-6) (1 / 2) ∧
    (∀ r, (demoOracles (some (2 / 3)) (1 / 2)).rootS (577 / 1000) (9 / 10) = some r → r ≤ 9 / 10) := by
  refine ⟨?_, ?_⟩
  · refine (findvwLTE_eq_root_iff ..).mpr ⟨rfl, ?_, rfl, by norm_num, rfl, by norm_num⟩
    rw [demo_vmaxOf_hybrid]; rfl
  · intro r hr
    rw [demo_rootS] at hr
    cases hr
    norm_num

/-! ### Static sentinel: clause 3 of C05 -/

/-- **The static sentinel has the stopping sign at `vMin`.** If the code returns `0`, then `shockTnuclDiff(vMin) < 0`
(and the top of the window had been accepted: `shockTnuclDiff(vmax) ≤ 0`, matching converged).  No contract on the
numerical tools is needed.  Serves clause 3 of C05 ("the mismatch already has the stopping sign at the smallest allowed
velocity"). -/
theorem static_has_stopping_sign (P : Phys ℝ) (O : Oracles ℝ) (Tn vMin vJ sqrtCs : ℝ)
    (h : findvwLTE P O 0 1e-10 1e-6 Tn vMin vJ sqrtCs = .static) :
    diff P Tn vMin < 0 ∧
      ∃ vmax, vmaxOf P O 0 1e-10 1e-6 vJ sqrtCs = some vmax ∧ diff P Tn vmax ≤ 0 ∧
        (P.mtch vmax).2.2 = true := by
  obtain ⟨vmax, hv, hd, hs, hm⟩ := (findvwLTE_eq_static_iff P O Tn vMin vJ sqrtCs).mp h
  exact ⟨hm, vmax, hv, hd, hs⟩

/-- Non-vacuity of `static_has_stopping_sign`: mismatch `-vw`, negative on the whole window. -/
example :
    findvwLTE (demoPhys 0 true) (demoOracles none (1 / 2)) 0 1e-10 1e-6 1 (1 / 10) (3 / 5) (577 / 1000) = .static :=
  (findvwLTE_eq_static_iff ..).mpr ⟨_, demo_vmaxOf_deflag .., by norm_num, rfl, by norm_num⟩

/-- **Negative result for the static sentinel.** The static sentinel is decided from the two END POINTS only: there is an
instance where the code returns `0` although the mismatch is positive somewhere inside the window (and vanishes at two
interior velocities where the matching converges).  Companion of `runaway_does_not_test_interior`. -/
theorem static_does_not_test_interior :
    ∃ (P : Phys ℝ) (O : Oracles ℝ) (Tn vMin vJ sqrtCs vmax : ℝ),
      findvwLTE P O 0 1e-10 1e-6 Tn vMin vJ sqrtCs = .static ∧
      vmaxOf P O 0 1e-10 1e-6 vJ sqrtCs = some vmax ∧ vMin < vmax ∧
      (∀ v, (P.mtch v).2.2 = true) ∧
      diff P Tn vMin < 0 ∧ diff P Tn vmax < 0 ∧
      (∃ v, vMin < v ∧ v < vmax ∧ 0 < diff P Tn v) ∧
      (∃ v, vMin < v ∧ v < vmax ∧ diff P Tn v = 0) := by
  refine ⟨wigglePhys (-1), demoOracles none 0, 1, 1 / 10, 3 / 5, 577 / 1000, 3 / 5 - 1e-10,
    ?_, wiggle_vmaxOf .., by norm_num, fun _ => rfl, by norm_num, by norm_num,
    ⟨2 / 5, by norm_num, by norm_num, by norm_num⟩, ⟨3 / 10, by norm_num, by norm_num, by norm_num⟩⟩
  exact (findvwLTE_eq_static_iff ..).mpr ⟨_, wiggle_vmaxOf .., by norm_num, rfl, by norm_num⟩

/-! ### Runaway sentinel: clause 2 of C05 -/

/-- **Why the runaway sentinel is returned.** If the code returns `1`, then one of exactly three things happened:
(i) the shock front is behind the wall at `vJ - 1e-10` and the shock root finder found no sign change (`ValueError`),
(ii) `shockTnuclDiff(vmax) > 0` at the top of the window, (iii) the matching at the top of the window did not converge.
No contract on the numerical tools is needed.  Serves clause 2 of C05: it identifies what the code has actually
checked (one point), cf. `runaway_does_not_test_interior`. -/
theorem runaway_reasons (P : Phys ℝ) (O : Oracles ℝ) (Tn vMin vJ sqrtCs : ℝ)
    (h : findvwLTE P O 0 1e-10 1e-6 Tn vMin vJ sqrtCs = .runaway) :
    (0 < shock P (vJ - 1e-10) ∧ O.rootS sqrtCs vJ = none) ∨
    (∃ vmax, vmaxOf P O 0 1e-10 1e-6 vJ sqrtCs = some vmax ∧ 0 < diff P Tn vmax) ∨
    (∃ vmax, vmaxOf P O 0 1e-10 1e-6 vJ sqrtCs = some vmax ∧ (P.mtch vmax).2.2 = false) := by
  rcases (findvwLTE_eq_runaway_iff P O Tn vMin vJ sqrtCs).mp h with h | ⟨vmax, hv, h | h⟩
  · exact Or.inl h
  · exact Or.inr (Or.inl ⟨vmax, hv, h⟩)
  · exact Or.inr (Or.inr ⟨vmax, hv, h⟩)

/-- Non-vacuity of `runaway_reasons`, reason (i): `vJ = 9/10`, `shock > 0` there, and no shock root. -/
example :
    findvwLTE (demoPhys (1 / 2) true) (demoOracles none (1 / 2)) 0 1e-10 1e-6 1 (1 / 10) (9 / 10) (577 / 1000) = .runaway ∧
    0 < shock (demoPhys (1 / 2) true) (9 / 10 - 1e-10) := by
  have hs : 0 < shock (demoPhys (1 / 2) true) (9 / 10 - 1e-10) := by rw [demo_shock]; norm_num
  exact ⟨(findvwLTE_eq_runaway_iff ..).mpr (Or.inl ⟨hs, rfl⟩), hs⟩

/-- Non-vacuity of `runaway_reasons`, reason (ii): mismatch `1 - vw`, positive at the top `3/5 - 1e-10`. -/
example :
    findvwLTE (demoPhys 1 true) (demoOracles none (1 / 2)) 0 1e-10 1e-6 1 (1 / 10) (3 / 5) (577 / 1000) = .runaway :=
  (findvwLTE_eq_runaway_iff ..).mpr (Or.inr ⟨_, demo_vmaxOf_deflag .., Or.inl (by norm_num)⟩)

/-- Non-vacuity of `runaway_reasons`, reason (iii): the mismatch `1/2 - vw` would give the root `1/2`, but the matching
reports failure, and the code returns `1`. -/
example :
    findvwLTE (demoPhys (1 / 2) false) (demoOracles none (1 / 2)) 0 1e-10 1e-6 1 (1 / 10) (3 / 5) (577 / 1000) = .runaway ∧
    diff (demoPhys (1 / 2) false) 1 (3 / 5 - 1e-10) ≤ 0 :=
  ⟨(findvwLTE_eq_runaway_iff ..).mpr (Or.inr ⟨_, demo_vmaxOf_deflag .., Or.inr rfl⟩), by norm_num⟩

/-- **Negative result for clause 2 of C05.** The runaway sentinel is decided from the TOP of the window only.  There is
an instance (all matchings converge, shock front ahead of the wall, `vMin = 1/10 < vmax = 3/5 - 1e-10`,
`shockTnuclDiff(vw) = (vw - 3/10)(vw - 1/2)`) in which the code returns `1` although the mismatch is positive at `vMin`,
negative at `vw = 2/5`, positive again at the top, and vanishes at the interior velocity `3/10` (a genuine solution of
the boundary condition that the code does not look for).  Hence "the mismatch keeps one sign over the whole window" is
NOT a consequence of the return value `1`; that clause of C05 can only be sampled, not proved. -/
theorem runaway_does_not_test_interior :
    ∃ (P : Phys ℝ) (O : Oracles ℝ) (Tn vMin vJ sqrtCs vmax : ℝ),
      findvwLTE P O 0 1e-10 1e-6 Tn vMin vJ sqrtCs = .runaway ∧
      vmaxOf P O 0 1e-10 1e-6 vJ sqrtCs = some vmax ∧ vMin < vmax ∧
      (∀ v, (P.mtch v).2.2 = true) ∧
      0 < diff P Tn vMin ∧ 0 < diff P Tn vmax ∧
      (∃ v, vMin < v ∧ v < vmax ∧ diff P Tn v < 0) ∧
      (∃ v, vMin < v ∧ v < vmax ∧ diff P Tn v = 0) := by
  refine ⟨wigglePhys 1, demoOracles none 0, 1, 1 / 10, 3 / 5, 577 / 1000, 3 / 5 - 1e-10,
    ?_, wiggle_vmaxOf .., by norm_num, fun _ => rfl, by norm_num, by norm_num,
    ⟨2 / 5, by norm_num, by norm_num, by norm_num⟩, ⟨3 / 10, by norm_num, by norm_num, by norm_num⟩⟩
  exact (findvwLTE_eq_runaway_iff ..).mpr (Or.inr ⟨_, wiggle_vmaxOf .., Or.inl (by norm_num)⟩)

end Props.C05L
