/-
Property C06: "Matching solutions are physically admissible and correctly classified … The Jouguet
velocity is the Chapman–Jouguet point".

Statements about the GENERATED `deflagPostVp`, `deflagPostLTE`, `matchDetonPost`, `vpDerivNum`,
`jouguetVp`, `vpvmAndvpovm` (Gen/R/Hydro.lean).
-/
import WallGoVerif.Lemmas.Hydro

namespace Props.C06

open Gen.R.Hydro Gen.R.Helpers WG.R Lemmas.Hydro

/-! ### T06.1: classification of the returned `v₋` -/

/-- **T06.1** The `v₋` returned by `matchDeflagOrHyb` (both variants return the same `v₋`) is
non-negative and satisfies `v₋² = max(min(vw², cs²(T₋)), 0)`.  No hypotheses. -/
theorem deflagPost_vm_sq (s : HydroP) (vw vp Tp Tm : ℝ) :
    (deflagPostVp s vw vp Tp Tm).2.1 = (deflagPostLTE s vw Tp Tm).2.1 ∧
    0 ≤ (deflagPostVp s vw vp Tp Tm).2.1 ∧
    (deflagPostVp s vw vp Tp Tm).2.1 ^ 2 = max (min (vw ^ 2) (s.csqLowT Tm)) 0 := by
  rw [deflagPostVp_eq, deflagPostLTE_eq]
  exact ⟨rfl, deflagVm_nonneg _ _, deflagVm_sq _ _⟩

/-- **T06.1** `v₋² = min(vw², cs²(T₋))` whenever that minimum is non-negative (i.e. `cs² ≥ 0`). -/
theorem deflagPost_vm_sq_min (s : HydroP) (vw vp Tp Tm : ℝ)
    (h : 0 ≤ min (vw ^ 2) (s.csqLowT Tm)) :
    (deflagPostVp s vw vp Tp Tm).2.1 ^ 2 = min (vw ^ 2) (s.csqLowT Tm) := by
  rw [deflagPostVp_eq]; exact deflagVm_sq_of_nonneg h

/-- **T06.1 (deflagration)** If the wall is subsonic w.r.t. the broken phase, `vw² ≤ cs²(T₋)`, and
`vw ≥ 0`, then `v₋ = vw`; in particular `v₋ ≤ cs(T₋)`. -/
theorem deflagPost_deflagration (s : HydroP) (vw vp Tp Tm : ℝ) (hvw : 0 ≤ vw)
    (h : vw ^ 2 ≤ s.csqLowT Tm) :
    (deflagPostVp s vw vp Tp Tm).2.1 = vw ∧ (deflagPostLTE s vw Tp Tm).2.1 = vw ∧
      vw ≤ Real.sqrt (s.csqLowT Tm) := by
  rw [deflagPostVp_eq, deflagPostLTE_eq]
  refine ⟨deflagVm_deflagration hvw h, deflagVm_deflagration hvw h, ?_⟩
  rw [← Real.sqrt_sq hvw]; exact Real.sqrt_le_sqrt h

/-- **T06.1 (hybrid)** If `0 ≤ cs²(T₋) ≤ vw²` then `v₋ = cs(T₋)` exactly (Jouguet condition behind
the wall) and `v₋ ≤ |vw|`. -/
theorem deflagPost_hybrid (s : HydroP) (vw vp Tp Tm : ℝ) (hc : 0 ≤ s.csqLowT Tm)
    (h : s.csqLowT Tm ≤ vw ^ 2) :
    (deflagPostVp s vw vp Tp Tm).2.1 = Real.sqrt (s.csqLowT Tm) ∧
    (deflagPostLTE s vw Tp Tm).2.1 = Real.sqrt (s.csqLowT Tm) ∧
    Real.sqrt (s.csqLowT Tm) ≤ |vw| := by
  rw [deflagPostVp_eq, deflagPostLTE_eq]
  refine ⟨deflagVm_hybrid hc h, deflagVm_hybrid hc h, ?_⟩
  rw [← Real.sqrt_sq_eq_abs]; exact Real.sqrt_le_sqrt h

/-- **T06.1 (bounds, any regime)** `v₋ ≤ |vw|` always and `v₋ ≤ cs(T₋)` whenever `cs² ≥ 0`:
the fluid never leaves the wall supersonically in a deflagration/hybrid. -/
theorem deflagPost_vm_le (s : HydroP) (vw vp Tp Tm : ℝ) :
    (deflagPostVp s vw vp Tp Tm).2.1 ≤ |vw| ∧
    (0 ≤ s.csqLowT Tm → (deflagPostVp s vw vp Tp Tm).2.1 ≤ Real.sqrt (s.csqLowT Tm)) := by
  rw [deflagPostVp_eq]
  exact ⟨deflagVm_le_abs _ _, fun hc => deflagVm_le_sqrt_csq hc⟩

/-- **T06.1 (degenerate input)** For a non-positive sound speed squared the code silently returns
`v₋ = 0` (the `max(·,0)` clamp) rather than failing. -/
theorem deflagPost_vm_of_csq_nonpos (s : HydroP) (vw vp Tp Tm : ℝ) (hc : s.csqLowT Tm ≤ 0) :
    (deflagPostVp s vw vp Tp Tm).2.1 = 0 := by
  rw [deflagPostVp_eq]; exact deflagVm_of_csq_neg hc

/-- **T06.1 (pass-through)** `matchDeflagOrHyb(vw, vp)` returns the prescribed `v₊` and the solved
temperatures unchanged; `matchDeton(vw)` returns `v₊ = vw` and `T₊ = Tn` unchanged. -/
theorem post_passthrough (s : HydroP) (vw vp Tp Tm : ℝ) :
    (deflagPostVp s vw vp Tp Tm).1 = vp ∧ (deflagPostVp s vw vp Tp Tm).2.2 = (Tp, Tm) ∧
    (deflagPostLTE s vw Tp Tm).2.2 = (Tp, Tm) ∧
    (matchDetonPost s vw Tp Tm).1 = vw ∧ (matchDetonPost s vw Tp Tm).2.2 = (Tp, Tm) :=
  ⟨rfl, rfl, rfl, rfl, rfl⟩

/-- Non-vacuity of T06.1: bag model (`cs² = 1/3`): `vw = 1/2` is a deflagration (`1/4 ≤ 1/3`),
`vw = 3/5` a hybrid (`1/3 ≤ 9/25`). -/
example : (0 : ℝ) ≤ 1 / 2 ∧ (1 / 2 : ℝ) ^ 2 ≤ (bag 63 45 2).csqLowT 1 ∧
    0 ≤ (bag 63 45 2).csqLowT 1 ∧ (bag 63 45 2).csqLowT 1 ≤ (3 / 5 : ℝ) ^ 2 ∧
    0 ≤ min ((1 / 2 : ℝ) ^ 2) ((bag 63 45 2).csqLowT 1) := by
  simp only [bag]; norm_num

/-! ### T06.2: Chapman–Jouguet -/

/-- **T06.2 (what is differentiated)** `findJouguetVelocity` returns `sqrt(V(T₋))` with
`V(T₋) = (p₊-p₋)(p₊+e₋)/((e₊-e₋)(e₊+p₋))`, which is `v₊v₋ · v₊/v₋ = v₊²` of `vpvmAndvpovm`. -/
theorem jouguetVp_eq_sqrt_Vsq (s : HydroP) (pH eH tm : ℝ) :
    jouguetVp s pH eH tm = Real.sqrt (Vsq s pH eH tm) ∧
    Vsq s pH eH tm = ((pH - s.pLowT tm) * (pH + s.eLowT tm)) /
        ((eH - s.eLowT tm) * (eH + s.pLowT tm)) :=
  ⟨jouguetVp_eq s pH eH tm, rfl⟩

/-- **T06.2 (derivative)** The function `vpDerivNum` whose root `findJouguetVelocity` searches is
exactly the numerator of `dV/dT₋` (quotient rule), given that `dpLowT`, `deLowT` are the derivatives
of `pLowT`, `eLowT` at `T₋` and the two denominator factors do not vanish.  Hence (denominator
squared being positive) roots of `vpDerivNum` are exactly the stationary points of `v₊²(T₋)`. -/
theorem hasDerivAt_Vsq_vpDerivNum (s : HydroP) (pH eH tm : ℝ)
    (hp : HasDerivAt s.pLowT (s.dpLowT tm) tm) (he : HasDerivAt s.eLowT (s.deLowT tm) tm)
    (h1 : eH - s.eLowT tm ≠ 0) (h2 : eH + s.pLowT tm ≠ 0) :
    HasDerivAt (Vsq s pH eH)
      (vpDerivNum s pH eH tm / ((eH - s.eLowT tm) * (eH + s.pLowT tm)) ^ 2) tm :=
  hasDerivAt_Vsq s pH eH tm hp he h1 h2

/-- Stationarity form of the previous theorem. -/
theorem deriv_Vsq_eq_zero_iff (s : HydroP) (pH eH tm : ℝ)
    (hp : HasDerivAt s.pLowT (s.dpLowT tm) tm) (he : HasDerivAt s.eLowT (s.deLowT tm) tm)
    (h1 : eH - s.eLowT tm ≠ 0) (h2 : eH + s.pLowT tm ≠ 0) :
    deriv (Vsq s pH eH) tm = 0 ↔ vpDerivNum s pH eH tm = 0 := by
  rw [(hasDerivAt_Vsq s pH eH tm hp he h1 h2).deriv, div_eq_zero_iff]
  have : ((eH - s.eLowT tm) * (eH + s.pLowT tm)) ^ 2 ≠ 0 := pow_ne_zero _ (mul_ne_zero h1 h2)
  simp [this]

/-- Non-vacuity: the bag model has the required derivatives and non-vanishing denominators at
`T₋ = 1` (with `p₊ = 19, e₊ = 65` the values at `T₊ = 1`). -/
example : ∃ (s : HydroP) (eH tm : ℝ), HasDerivAt s.pLowT (s.dpLowT tm) tm ∧
    HasDerivAt s.eLowT (s.deLowT tm) tm ∧ eH - s.eLowT tm ≠ 0 ∧ eH + s.pLowT tm ≠ 0 :=
  ⟨bag 63 45 2, 65, 1, bag_hasDerivAt_pLowT _ _ _ _, bag_hasDerivAt_eLowT _ _ _ _,
    by simp [bag]; norm_num, by simp [bag]; norm_num⟩

/-- **T06.2 (factorisation)** `vpDerivNum = w₊ · (e₋' (p₊-p₋)(e₊+p₋) - p₋' (p₊+e₋)(e₊-e₋))`. -/
theorem vpDerivNum_factorisation (s : HydroP) (pH eH tm : ℝ) :
    vpDerivNum s pH eH tm =
      (eH + pH) * (s.deLowT tm * (pH - s.pLowT tm) * (eH + s.pLowT tm)
        - s.dpLowT tm * (pH + s.eLowT tm) * (eH - s.eLowT tm)) :=
  vpDerivNum_factor s pH eH tm

/-- **T06.2 (Chapman–Jouguet characterisation)** For a state obeying the junction relations
returned by `vpvmAndvpovm` with non-zero speeds, the root condition `vpDerivNum = 0` used by
`findJouguetVelocity` holds iff the fluid leaves the wall exactly at the speed of sound of the
broken phase, `v₋² = p₋'/e₋'`.  Hypotheses forced by the proof: `v± ≠ 0`, `e₊ ≠ e₋` (code's
non-fallback branch), `w₊ = e₊ + p₊ ≠ 0`, `e₋' ≠ 0`; the remaining factors are non-zero
automatically because `v₊v₋ ≠ 0` and `v₊/v₋ ≠ 0`. -/
theorem chapmanJouguet (s : HydroP) (Tp tm vp vm : ℝ) (hvp : vp ≠ 0) (hvm : vm ≠ 0)
    (hC : s.eHighT Tp ≠ s.eLowT tm)
    (hw : s.eHighT Tp + s.pHighT Tp ≠ 0) (hde : s.deLowT tm ≠ 0)
    (hj1 : vp * vm = (vpvmAndvpovm s Tp tm).1) (hj2 : vp / vm = (vpvmAndvpovm s Tp tm).2) :
    vpDerivNum s (s.pHighT Tp) (s.eHighT Tp) tm = 0 ↔ s.dpLowT tm / s.deLowT tm = vm ^ 2 := by
  rw [vpvmAndvpovm_fst s Tp tm hC] at hj1
  rw [vpvmAndvpovm_snd] at hj2
  have hC' : s.eHighT Tp - s.eLowT tm ≠ 0 := sub_ne_zero.mpr hC
  have hq : (s.eLowT tm + s.pHighT Tp) / (s.eHighT Tp + s.pLowT tm) ≠ 0 := by
    rw [← hj2]; exact div_ne_zero hvp hvm
  have hB : s.pHighT Tp + s.eLowT tm ≠ 0 := by
    intro h; apply hq; rw [add_comm, h, zero_div]
  have hD : s.eHighT Tp + s.pLowT tm ≠ 0 := by
    intro h; apply hq; rw [h, div_zero]
  have hvmsq : vm ^ 2 = ((s.pHighT Tp - s.pLowT tm) * (s.eHighT Tp + s.pLowT tm)) /
      ((s.eHighT Tp - s.eLowT tm) * (s.pHighT Tp + s.eLowT tm)) := by
    have : vm ^ 2 = (vp * vm) / (vp / vm) := by field_simp
    rw [this, hj1, hj2]
    have hB' : s.eLowT tm + s.pHighT Tp ≠ 0 := by rwa [add_comm]
    field_simp
    ring
  rw [hvmsq]
  exact vpDerivNum_eq_zero_iff s _ _ tm hw hde hB hC'

/-- **T06.2 (CJ from conservation)** Same, starting from conservation of energy and momentum flux
for subluminal positive speeds. -/
theorem chapmanJouguet_of_conservation (s : HydroP) (hs : EOSOK s) (Tp tm vp vm : ℝ)
    (hvp0 : 0 < vp) (hvp1 : vp < 1) (hvm0 : 0 < vm) (hvm1 : vm < 1)
    (hC : s.eHighT Tp ≠ s.eLowT tm) (hD : s.eHighT Tp + s.pLowT tm ≠ 0)
    (hw : s.wHighT Tp ≠ 0) (hde : s.deLowT tm ≠ 0)
    (hcons : Conservation s vp vm Tp tm) :
    vpDerivNum s (s.pHighT Tp) (s.eHighT Tp) tm = 0 ↔ s.dpLowT tm / s.deLowT tm = vm ^ 2 := by
  obtain ⟨hj1, hj2⟩ := (junction_iff_conservation_hydro s hs Tp tm vp vm
    (sq_ne_one_of_mem hvp0 hvp1) (sq_ne_one_of_mem hvm0 hvm1) hvm0.ne' hC hD).mpr hcons
  rw [hs.w_high] at hw
  exact chapmanJouguet s Tp tm vp vm hvp0.ne' hvm0.ne' hC hw hde hj1 hj2

/-- **T06.2 (the returned number)** At a state obeying the junction relations with `v₊ ≥ 0`,
`v₋ ≠ 0`, the value `sqrt(V(T₋))` returned by `findJouguetVelocity` is `v₊` itself: so the returned
`vJ` is the `v₊` of the matching state at which `v₋ = cs(T₋)` (previous theorems), i.e. the
Chapman–Jouguet detonation velocity (`vw = v₊` for detonations). -/
theorem jouguetVp_eq_vp (s : HydroP) (Tp tm vp vm : ℝ) (hvp : 0 ≤ vp) (hvm : vm ≠ 0)
    (hC : s.eHighT Tp ≠ s.eLowT tm)
    (hj1 : vp * vm = (vpvmAndvpovm s Tp tm).1) (hj2 : vp / vm = (vpvmAndvpovm s Tp tm).2) :
    jouguetVp s (s.pHighT Tp) (s.eHighT Tp) tm = vp := by
  rw [vpvmAndvpovm_fst s Tp tm hC] at hj1
  rw [vpvmAndvpovm_snd] at hj2
  rw [jouguetVp_eq]
  have : Vsq s (s.pHighT Tp) (s.eHighT Tp) tm = vp ^ 2 := by
    unfold Vsq
    rw [mul_div_mul_comm, ← hj1, add_comm (s.pHighT Tp), ← hj2]
    field_simp
  rw [this, Real.sqrt_sq hvp]

/-- Non-vacuity of the Chapman–Jouguet theorems: the conserving bag-model state
(`v₊ = 2/5`, `v₋ = 1/2`, `T± = 1`) satisfies all hypotheses. -/
example : ∃ (s : HydroP) (Tp tm vp vm : ℝ), EOSOK s ∧ 0 < vp ∧ vp < 1 ∧ 0 < vm ∧ vm < 1 ∧
    s.eHighT Tp ≠ s.eLowT tm ∧ s.eHighT Tp + s.pLowT tm ≠ 0 ∧ s.wHighT Tp ≠ 0 ∧
    s.eHighT Tp + s.pHighT Tp ≠ 0 ∧ s.deLowT tm ≠ 0 ∧
    vp * vm = (vpvmAndvpovm s Tp tm).1 ∧ vp / vm = (vpvmAndvpovm s Tp tm).2 ∧
    Conservation s vp vm Tp tm := by
  refine ⟨bag 63 45 2, 1, 1, 2 / 5, 1 / 2, bag_EOSOK _ _ _, by norm_num, by norm_num, by norm_num,
    by norm_num, by simp [bag]; norm_num, by simp [bag]; norm_num, by simp [bag],
    by simp [bag]; norm_num, by simp [bag], ?_, ?_, ?_⟩
  · simp [vpvmAndvpovm, bag]; norm_num
  · simp [vpvmAndvpovm, bag]; norm_num
  · constructor <;> (simp [energyFlux, momentumFlux, gammaSq, bag]; norm_num)

/-- Non-vacuity (an actual Chapman–Jouguet point): bag model `a₊ = 3, a₋ = 3/4, ε = 1`, `T₊ = 1`,
`T₋ = 2`, `v₊ = √3/2`, `v₋ = 1/√3`.  All hypotheses of `chapmanJouguet` hold and *both* sides of
the equivalence are true (`vpDerivNum = 0` and `p₋'/e₋' = v₋² = 1/3`). -/
example : ∃ (s : HydroP) (Tp tm vp vm : ℝ), vp ≠ 0 ∧ vm ≠ 0 ∧ s.eHighT Tp ≠ s.eLowT tm ∧
    s.eHighT Tp + s.pHighT Tp ≠ 0 ∧ s.deLowT tm ≠ 0 ∧
    vp * vm = (vpvmAndvpovm s Tp tm).1 ∧ vp / vm = (vpvmAndvpovm s Tp tm).2 ∧
    vpDerivNum s (s.pHighT Tp) (s.eHighT Tp) tm = 0 ∧ s.dpLowT tm / s.deLowT tm = vm ^ 2 := by
  have h3 : Real.sqrt 3 * Real.sqrt 3 = 3 := Real.mul_self_sqrt (by norm_num)
  have h0 : Real.sqrt 3 ≠ 0 := by
    intro h; rw [h] at h3; norm_num at h3
  have hr1 : (vpvmAndvpovm (bag 3 (3 / 4) 1) 1 2).1 = 1 / 2 := by
    simp [vpvmAndvpovm, bag]; norm_num
  have hr2 : (vpvmAndvpovm (bag 3 (3 / 4) 1) 1 2).2 = 3 / 2 := by
    simp [vpvmAndvpovm, bag]; norm_num
  refine ⟨bag 3 (3 / 4) 1, 1, 2, Real.sqrt 3 / 2, Real.sqrt 3 / 3, by positivity, by positivity,
    by simp [bag]; norm_num, by simp [bag]; norm_num, by simp [bag], ?_, ?_, ?_, ?_⟩
  · rw [hr1]
    have : Real.sqrt 3 / 2 * (Real.sqrt 3 / 3) = (Real.sqrt 3 * Real.sqrt 3) / 6 := by ring
    rw [this, h3]; norm_num
  · rw [hr2]; field_simp
  · simp [vpDerivNum, bag]; norm_num
  · have : (Real.sqrt 3 / 3) ^ 2 = (Real.sqrt 3 * Real.sqrt 3) / 9 := by ring
    rw [this, h3]; simp [bag]; norm_num

/-! ### T06.4: ordering of `v₊` and `v₋` -/

/-- **T06.4** For a flux-conserving state with subluminal positive speeds and `e₊ + p₋ > 0`,
`v₊ < v₋` (deflagration-type ordering: the fluid is accelerated through the wall) iff
`e₋ + p₊ < e₊ + p₋`, i.e. iff `p₊ - p₋ < e₊ - e₋`.  This is the sign information carried by the
`vpovm` returned from `vpvmAndvpovm`. -/
theorem vp_lt_vm_iff (s : HydroP) (hs : EOSOK s) (Tp Tm vp vm : ℝ)
    (hvp0 : 0 < vp) (hvp1 : vp < 1) (hvm0 : 0 < vm) (hvm1 : vm < 1)
    (hC : s.eHighT Tp ≠ s.eLowT Tm) (hD : 0 < s.eHighT Tp + s.pLowT Tm)
    (hcons : Conservation s vp vm Tp Tm) :
    (vp < vm ↔ s.eLowT Tm + s.pHighT Tp < s.eHighT Tp + s.pLowT Tm) ∧
    (vp < vm ↔ (vpvmAndvpovm s Tp Tm).2 < 1) := by
  obtain ⟨-, hj2⟩ := (junction_iff_conservation_hydro s hs Tp Tm vp vm
    (sq_ne_one_of_mem hvp0 hvp1) (sq_ne_one_of_mem hvm0 hvm1) hvm0.ne' hC hD.ne').mpr hcons
  have h1 : vp < vm ↔ (vpvmAndvpovm s Tp Tm).2 < 1 := by
    rw [← hj2, div_lt_one hvm0]
  refine ⟨?_, h1⟩
  rw [h1, vpvmAndvpovm_snd, div_lt_one hD]

/-- **T06.4 (detonation-type ordering)** Under the same hypotheses `v₋ < v₊` iff
`e₊ + p₋ < e₋ + p₊`. -/
theorem vm_lt_vp_iff (s : HydroP) (hs : EOSOK s) (Tp Tm vp vm : ℝ)
    (hvp0 : 0 < vp) (hvp1 : vp < 1) (hvm0 : 0 < vm) (hvm1 : vm < 1)
    (hC : s.eHighT Tp ≠ s.eLowT Tm) (hD : 0 < s.eHighT Tp + s.pLowT Tm)
    (hcons : Conservation s vp vm Tp Tm) :
    vm < vp ↔ s.eHighT Tp + s.pLowT Tm < s.eLowT Tm + s.pHighT Tp := by
  obtain ⟨-, hj2⟩ := (junction_iff_conservation_hydro s hs Tp Tm vp vm
    (sq_ne_one_of_mem hvp0 hvp1) (sq_ne_one_of_mem hvm0 hvm1) hvm0.ne' hC hD.ne').mpr hcons
  rw [vpvmAndvpovm_snd] at hj2
  rw [← one_lt_div hvm0, hj2, one_lt_div hD]

/-- **T06.4 (both speeds positive ⇒ sign pattern)** For a conserving state with `0 < v± < 1` and
`e₊ + p₋ > 0` the two numbers returned by `vpvmAndvpovm` are positive; in particular
`p₊ - p₋` and `e₊ - e₋` have the same sign. -/
theorem vpvm_vpovm_pos (s : HydroP) (hs : EOSOK s) (Tp Tm vp vm : ℝ)
    (hvp0 : 0 < vp) (hvp1 : vp < 1) (hvm0 : 0 < vm) (hvm1 : vm < 1)
    (hC : s.eHighT Tp ≠ s.eLowT Tm) (hD : s.eHighT Tp + s.pLowT Tm ≠ 0)
    (hcons : Conservation s vp vm Tp Tm) :
    0 < (vpvmAndvpovm s Tp Tm).1 ∧ 0 < (vpvmAndvpovm s Tp Tm).2 := by
  obtain ⟨hj1, hj2⟩ := (junction_iff_conservation_hydro s hs Tp Tm vp vm
    (sq_ne_one_of_mem hvp0 hvp1) (sq_ne_one_of_mem hvm0 hvm1) hvm0.ne' hC hD).mpr hcons
  rw [← hj1, ← hj2]
  exact ⟨by positivity, by positivity⟩

/-- Non-vacuity of T06.4: deflagration-type bag state (`v₊ = 2/5 < v₋ = 1/2`, `(63,45,2)`) and
detonation-type bag state (`v₊ = 4/5 > v₋ = 3/5`, `(81/4,48,11/4)`), both conserving with
`e₊ + p₋ > 0`. -/
example : (Conservation (bag 63 45 2) (2 / 5) (1 / 2) 1 1 ∧
      0 < (bag 63 45 2).eHighT 1 + (bag 63 45 2).pLowT 1 ∧
      (bag 63 45 2).eHighT 1 ≠ (bag 63 45 2).eLowT 1) ∧
    (Conservation (bag (81 / 4) 48 (11 / 4)) (4 / 5) (3 / 5) 1 1 ∧
      0 < (bag (81 / 4) 48 (11 / 4)).eHighT 1 + (bag (81 / 4) 48 (11 / 4)).pLowT 1 ∧
      (bag (81 / 4) 48 (11 / 4)).eHighT 1 ≠ (bag (81 / 4) 48 (11 / 4)).eLowT 1) := by
  refine ⟨⟨⟨?_, ?_⟩, ?_, ?_⟩, ⟨⟨?_, ?_⟩, ?_, ?_⟩⟩ <;>
    (simp [energyFlux, momentumFlux, gammaSq, bag]; try norm_num)

end Props.C06
