/-
Property C04.  "At every grid point where the profile solver reports success, the returned
temperature and fluid velocity, together with the scalar-field gradient energy, the effective
potential and any out-of-equilibrium moments, reproduce the two conserved components of the
energy-momentum tensor given as boundary constants.  Far in front of and behind the wall the profile
tends to the hydrodynamic matching values (T+, −v+) and (T−, −v−)."

Statements are about the hand model `Model/EOM.lean` of `plasmaVelocity`, `temperatureProfileEqLHS`,
`deltaToTmunu` (src/WallGo/equationOfMotion.py) at `α := ℝ`, `sqrt := Real.sqrt`, and about the pure
models `tMultiplier`, `findPlasmaProfileModel` (Lemmas/EOM.lean) of the branch logic of
`findPlasmaProfilePoint` / `findPlasmaProfile`.  Helper lemmas: `Lemmas/EOM.lean`.

Conventions: plasma stress tensor with fluid velocity `v`, enthalpy `w`, potential `V`, gradient `φ'`:
`T³⁰ = w v/(1−v²)`, `T³³ = ½Σφ'² − V + w v²/(1−v²)`.  The code solves `T³⁰ = s1`, `T³³ = s2` with
`s1 = c1 − T³⁰_out`, `s2 = c2 − T³³_out`.
-/
import WallGoVerif.Lemmas.EOM
import WallGoVerif.Props.C02

namespace Props.C04

open Model.EOM Lemmas.EOM Lemmas.Hydro Gen.R.Hydro

/-! ## T04.1  `plasmaVelocity` solves the `T³⁰` equation -/

/-- **T04.1** For positive enthalpy `w` and `s1 ≠ 0` the velocity returned by `plasmaVelocity`
satisfies `w v/(1−v²) = s1` exactly, is subluminal and has the sign of `s1`.
(C04: "the returned … fluid velocity … reproduce[s] … T³⁰".)  Hypotheses: `0 < w`, `s1 ≠ 0`. -/
theorem plasmaVelocity_solves_T30 {w s1 : ℝ} (hw : 0 < w) (hs : s1 ≠ 0) :
    w * plasmaVelocity Real.sqrt 2 4 w s1 / (1 - plasmaVelocity Real.sqrt 2 4 w s1 ^ 2) = s1 ∧
    |plasmaVelocity Real.sqrt 2 4 w s1| < 1 ∧
    (0 < plasmaVelocity Real.sqrt 2 4 w s1 ↔ 0 < s1) ∧
    (plasmaVelocity Real.sqrt 2 4 w s1 < 0 ↔ s1 < 0) :=
  ⟨plasmaVelocity_T30 hw hs, plasmaVelocity_abs_lt_one hw hs, plasmaVelocity_pos_iff hw hs,
    plasmaVelocity_neg_iff hw hs⟩

/-- Non-vacuity of T04.1: `w = 3`, `s1 = 2` gives `v = 1/2` (`√25 = 5`). -/
example : (0 : ℝ) < 3 ∧ (2 : ℝ) ≠ 0 ∧ plasmaVelocity Real.sqrt 2 4 (3 : ℝ) 2 = 1 / 2 := by
  refine ⟨by norm_num, by norm_num, ?_⟩
  unfold plasmaVelocity
  rw [show (4 * (2 * 2) + 3 * 3 : ℝ) = 5 ^ 2 by norm_num, Real.sqrt_sq (by norm_num)]
  norm_num

/-- **T04.1 (uniqueness)** `plasmaVelocity` is the *only* subluminal solution of `w v/(1−v²) = s1`
(the other root of `s1 v² + w v − s1 = 0` is `−1/v`, superluminal). -/
theorem plasmaVelocity_unique {w s1 x : ℝ} (hw : 0 < w) (hs : s1 ≠ 0) (hx : |x| < 1)
    (h : w * x / (1 - x ^ 2) = s1) : x = plasmaVelocity Real.sqrt 2 4 w s1 :=
  Lemmas.EOM.plasmaVelocity_unique hw hs hx h

/-- Non-vacuity of uniqueness: `x = 1/2` is subluminal and solves the equation for `w = 3, s1 = 2`. -/
example : |(1 / 2 : ℝ)| < 1 ∧ (3 : ℝ) * (1 / 2) / (1 - (1 / 2) ^ 2) = 2 := by
  constructor
  · rw [abs_of_pos (by norm_num)]; norm_num
  · norm_num

/-- **T04.1 (s1 = 0)** When `s1 = 0` the code evaluates `(−w + |w|)/0`.  In Lean's real numbers
`x/0 = 0`, so the model returns `0` — which happens to be the physically correct root of
`w v/(1−v²) = 0`.  In IEEE arithmetic the Python expression is `0/0 = nan` for `w > 0` (and `±inf`
for `w < 0`): the code has no guard for `s1 = 0`.  No hypotheses. -/
theorem plasmaVelocity_s1_zero (w : ℝ) : plasmaVelocity Real.sqrt 2 4 w 0 = 0 := by
  simp [plasmaVelocity]

/-- **T04.1 (stable form)** For `w > 0`, `s1 ≠ 0` the returned value equals the cancellation-free
expression `2 s1/(w + √(4 s1² + w²))`, which is also well defined (and `0`) at `s1 = 0`. -/
theorem plasmaVelocity_stable_form {w s1 : ℝ} (hw : 0 < w) (hs : s1 ≠ 0) :
    plasmaVelocity Real.sqrt 2 4 w s1 = 2 * s1 / (w + Real.sqrt (4 * (s1 * s1) + w * w)) :=
  plasmaVelocity_stable hw hs

/-! ## T04.1b  `temperatureProfileEqLHS = 0` is the `T³³` equation -/

/-- **T04.1b** With `v = plasmaVelocity w s1`, the function whose root `findPlasmaProfilePoint`
seeks vanishes iff `½Σφ'² − V + w v²/(1−v²) = s2`.  Key identity: `w v²/(1−v²) = s1 v =
(−w + √(4 s1² + w²))/2`.  Hypotheses: `0 < w`, `s1 ≠ 0`. -/
theorem tempEqLHS_zero_iff_T33 {w s1 : ℝ} (hw : 0 < w) (hs : s1 ≠ 0) (dPhidz : List ℝ)
    (veff s2 : ℝ) :
    tempEqLHS Real.sqrt 0 (1 / 2) 4 dPhidz veff w s1 s2 = 0 ↔
      (1 / 2) * (dPhidz.map (fun d => d ^ 2)).sum - veff
        + w * plasmaVelocity Real.sqrt 2 4 w s1 ^ 2 / (1 - plasmaVelocity Real.sqrt 2 4 w s1 ^ 2)
        = s2 := by
  rw [tempEqLHS_eq, kineticFlux_eq hw hs]
  have e : (fun d : ℝ => d ^ 2) = fun d => d * d := by funext d; ring
  rw [e]
  constructor <;> intro h <;> linarith

/-- The residual itself: `temperatureProfileEqLHS = T³³(T, v(T)) − s2` (same hypotheses), so a
positive/negative value of the function is exactly the excess/deficit of `T³³`. -/
theorem tempEqLHS_eq_T33_residual {w s1 : ℝ} (hw : 0 < w) (hs : s1 ≠ 0) (dPhidz : List ℝ)
    (veff s2 : ℝ) :
    tempEqLHS Real.sqrt 0 (1 / 2) 4 dPhidz veff w s1 s2 =
      (1 / 2) * (dPhidz.map (fun d => d ^ 2)).sum - veff
        + w * plasmaVelocity Real.sqrt 2 4 w s1 ^ 2 / (1 - plasmaVelocity Real.sqrt 2 4 w s1 ^ 2)
        - s2 := by
  rw [tempEqLHS_eq, kineticFlux_eq hw hs]
  have e : (fun d : ℝ => d ^ 2) = fun d => d * d := by funext d; ring
  rw [e]; ring

/-- Non-vacuity of T04.1b: `w = 3, s1 = 2` (`v = 1/2`, `w v²/(1−v²) = 1`), gradients `[1, 2]`,
`V = 1/2`, `s2 = 3`: the function vanishes. -/
example : tempEqLHS Real.sqrt 0 (1 / 2) 4 [1, 2] (1 / 2) (3 : ℝ) 2 3 = 0 := by
  rw [tempEqLHS_eq]; unfold disc
  rw [show (4 * (2 * 2) + 3 * 3 : ℝ) = 5 ^ 2 by norm_num, Real.sqrt_sq (by norm_num)]
  norm_num

/-- **T04.1 + T04.1b (the property clause)** At a point where the root finder succeeded, i.e.
`temperatureProfileEqLHS(T) = 0` with `s1 = c1 − T³⁰_out`, `s2 = c2 − T³³_out`, the returned pair
`(T, v)` reproduces both boundary constants:
`w v/(1−v²) + T³⁰_out = c1` and `½Σφ'² − V + w v²/(1−v²) + T³³_out = c2`.
Hypotheses: `0 < w` (enthalpy at the returned `T`) and `c1 ≠ T³⁰_out`. -/
theorem profile_point_reproduces_Tmunu {w c1 c2 t30out t33out : ℝ} (hw : 0 < w)
    (hs : c1 - t30out ≠ 0) (dPhidz : List ℝ) (veff : ℝ)
    (hroot : tempEqLHS Real.sqrt 0 (1 / 2) 4 dPhidz veff w (c1 - t30out) (c2 - t33out) = 0) :
    let v := plasmaVelocity Real.sqrt 2 4 w (c1 - t30out)
    w * v / (1 - v ^ 2) + t30out = c1 ∧
    (1 / 2) * (dPhidz.map (fun d => d ^ 2)).sum - veff + w * v ^ 2 / (1 - v ^ 2) + t33out = c2 := by
  intro v
  have h1 := plasmaVelocity_T30 hw hs
  have h2 := (tempEqLHS_zero_iff_T33 hw hs dPhidz veff (c2 - t33out)).mp hroot
  exact ⟨by linarith, by linarith⟩

/-- Non-vacuity: `w = 3`, `c1 = 5/2`, `T³⁰_out = 1/2` (so `s1 = 2`), `c2 = 4`, `T³³_out = 1`
(`s2 = 3`), gradients `[1,2]`, `V = 1/2` satisfy all hypotheses. -/
example : (0 : ℝ) < 3 ∧ (5 / 2 - 1 / 2 : ℝ) ≠ 0 ∧
    tempEqLHS Real.sqrt 0 (1 / 2) 4 [1, 2] (1 / 2) (3 : ℝ) (5 / 2 - 1 / 2) (4 - 1) = 0 := by
  refine ⟨by norm_num, by norm_num, ?_⟩
  rw [tempEqLHS_eq]; unfold disc
  rw [show (4 * ((5 / 2 - 1 / 2) * (5 / 2 - 1 / 2)) + 3 * 3 : ℝ) = 5 ^ 2 by norm_num,
    Real.sqrt_sq (by norm_num)]
  norm_num

/-! ## T04.2  Asymptotic states -/

/-- **T04.2 (in front of the wall)** With the boundary constants of `findHydroBoundaries`
(`c1 = −energyFlux`, `c2 = momentumFlux` in front, C02), vanishing field gradient, potential
`V = −p₊(T₊)`, enthalpy `w₊(T₊)` and no out-of-equilibrium part, the pair `(T₊, −v₊)` solves both
equations: `plasmaVelocity = −v₊` and `temperatureProfileEqLHS = 0`.
Hypotheses: `0 < v₊ < 1`, `0 < w₊(T₊)`. -/
theorem asymptotic_front (s : HydroP) (vp vm Tp Tm : ℝ) (hv0 : 0 < vp) (hv1 : vp < 1)
    (hw : 0 < s.wHighT Tp) :
    plasmaVelocity Real.sqrt 2 4 (s.wHighT Tp) (hydroBoundaries s vp vm Tp Tm).1 = -vp ∧
    tempEqLHS Real.sqrt 0 (1 / 2) 4 [] (-s.pHighT Tp) (s.wHighT Tp)
      (hydroBoundaries s vp vm Tp Tm).1 (hydroBoundaries s vp vm Tp Tm).2.1 = 0 := by
  obtain ⟨h1, h2, -⟩ := Props.C02.hydroBoundaries_spec s vp vm Tp Tm
  rw [h1, h2]
  exact asymptotic_solves hw hv0 hv1

/-- **T04.2 (behind the wall)** If the matching state conserves energy and momentum flux
(`Conservation`, C02), then with `V = −p₋(T₋)`, enthalpy `w₋(T₋)`, zero gradient and no
out-of-equilibrium part the pair `(T₋, −v₋)` solves both equations for the *same* constants.
Hypotheses: `Conservation`, `0 < v₋ < 1`, `0 < w₋(T₋)`. -/
theorem asymptotic_behind (s : HydroP) (vp vm Tp Tm : ℝ) (hcons : Conservation s vp vm Tp Tm)
    (hv0 : 0 < vm) (hv1 : vm < 1) (hw : 0 < s.wLowT Tm) :
    plasmaVelocity Real.sqrt 2 4 (s.wLowT Tm) (hydroBoundaries s vp vm Tp Tm).1 = -vm ∧
    tempEqLHS Real.sqrt 0 (1 / 2) 4 [] (-s.pLowT Tm) (s.wLowT Tm)
      (hydroBoundaries s vp vm Tp Tm).1 (hydroBoundaries s vp vm Tp Tm).2.1 = 0 := by
  obtain ⟨h1, h2⟩ := Props.C02.hydroBoundaries_both_sides s vp vm Tp Tm hcons
  rw [h1, h2]
  exact asymptotic_solves hw hv0 hv1

/-- Non-vacuity of T04.2: the conserving bag-model state of C02 (`a = 63, b = 45, ε = 2`,
`v₊ = 2/5`, `v₋ = 1/2`, `T₊ = T₋ = 1`; `w₊ = 84`, `w₋ = 60`) satisfies all hypotheses of both
theorems. -/
example : Conservation (bag 63 45 2) (2 / 5) (1 / 2) 1 1 ∧ (0 : ℝ) < 2 / 5 ∧ (2 / 5 : ℝ) < 1 ∧
    (0 : ℝ) < 1 / 2 ∧ (1 / 2 : ℝ) < 1 ∧ 0 < (bag 63 45 2).wHighT 1 ∧ 0 < (bag 63 45 2).wLowT 1 := by
  refine ⟨?_, by norm_num, by norm_num, by norm_num, by norm_num, ?_, ?_⟩
  · constructor <;> (simp [energyFlux, momentumFlux, Gen.R.Helpers.gammaSq, bag]; norm_num)
  · simp [bag]
  · simp [bag]

/-! ## T04.3  `deltaToTmunu` -/

/-- **T04.3 (a)** The two numbers returned by `deltaToTmunu` are the `30` and `33` components of
the covariant expression (eq. (14) of arXiv:2204.13120)
`Σ_particles (g/2)[(3Δ20 − Δ02 − m²Δ00) u^μu^ν + (3Δ02 − Δ20 + m²Δ00) ū^μū^ν + 2Δ11 (u^μū^ν + ū^μu^ν)]
 − (g/2)(m²Δ00 + Δ02 − Δ20) η^{μν}` with `u = γ(1,v)`, `ū = γ(v,1)`, `η^{00} = −1`, `η^{33} = 1`,
`η^{30} = 0` (indices of `TmunuOut`: `0` = time, `1` = z).  No hypotheses (not even `|v| < 1`). -/
theorem deltaToTmunu_covariant (v : ℝ) (ps : List (PDelta ℝ)) :
    deltaToTmunu Real.sqrt 0 1 2 3 4 v ps =
      ((ps.map (fun p => TmunuOut p v 1 0)).sum, (ps.map (fun p => TmunuOut p v 1 1)).sum) := by
  rw [deltaToTmunu_eq]
  have e1 : t30One v = fun p => TmunuOut p v 1 0 := funext (t30One_eq v)
  have e2 : t33One v = fun p => TmunuOut p v 1 1 := funext (t33One_eq v)
  rw [e1, e2]

/-- the vectors entering `TmunuOut`, spelled out -/
theorem uVec_def (v : ℝ) : uVec v = ![gam v, gam v * v] ∧ ubarVec v = ![gam v * v, gam v] ∧
    gam v = Real.sqrt (1 / (1 - v * v)) := ⟨rfl, rfl, rfl⟩

/-- **T04.3 (b)** For `|v| < 1` the model's values are the wall-frame `30` and `33` components of
the boosted plasma-frame tensor `Λ T_pl Λᵀ` (boost along `z` with velocity `v`), summed over the
particles with weight `dofs`, where `T_pl⁰⁰ = Δ20`, `T_pl⁰³ = Δ11`, `T_pl³³ = Δ02`,
`T_pl¹¹ = T_pl²² = ½(Δ20 − Δ02 − m²Δ00)`.  Hypothesis `|v| < 1` (needed for `γ²(1−v²) = 1`). -/
theorem deltaToTmunu_is_boost {v : ℝ} (hv : |v| < 1) (ps : List (PDelta ℝ)) :
    deltaToTmunu Real.sqrt 0 1 2 3 4 v ps =
      ((ps.map (fun p => p.dofs * (boost v * Tplasma p * (boost v).transpose) 3 0)).sum,
       (ps.map (fun p => p.dofs * (boost v * Tplasma p * (boost v).transpose) 3 3)).sum) := by
  rw [deltaToTmunu_covariant]
  have e1 : (fun p : PDelta ℝ => TmunuOut p v 1 0) =
      fun p => p.dofs * (boost v * Tplasma p * (boost v).transpose) 3 0 :=
    funext fun p => TmunuOut_eq_boost p hv 1 0
  have e2 : (fun p : PDelta ℝ => TmunuOut p v 1 1) =
      fun p => p.dofs * (boost v * Tplasma p * (boost v).transpose) 3 3 :=
    funext fun p => TmunuOut_eq_boost p hv 1 1
  rw [e1, e2]

/-- **T04.3 (b')** All four `(t,z)` components of the covariant expression agree with the boosted
plasma-frame tensor, not only the two that the code uses. -/
theorem TmunuOut_is_boost (p : PDelta ℝ) {v : ℝ} (hv : |v| < 1) (μ ν : Fin 2) :
    TmunuOut p v μ ν = p.dofs * (boost v * Tplasma p * (boost v).transpose) (ix μ) (ix ν) :=
  TmunuOut_eq_boost p hv μ ν

/-- Non-vacuity of (b): `v = 3/5` is subluminal; with `γ = 5/4` one particle with
`g = 2, m² = 1, Δ00 = 1, Δ02 = 2, Δ20 = 3, Δ11 = 1/2` gives `T³⁰ = 2γ²[v(Δ20+Δ02) + (1+v²)Δ11]`. -/
example : |(3 / 5 : ℝ)| < 1 ∧
    (deltaToTmunu Real.sqrt 0 1 2 3 4 (3 / 5 : ℝ) [⟨2, 1, 1, 2, 3, 1 / 2⟩]).1 = 23 / 2 := by
  constructor
  · rw [abs_of_pos (by norm_num)]; norm_num
  · rw [deltaToTmunu_eq]
    have h : Real.sqrt (1 / (1 - 3 / 5 * (3 / 5))) = 5 / 4 := by
      rw [show (1 / (1 - 3 / 5 * (3 / 5)) : ℝ) = (5 / 4) ^ 2 by norm_num, Real.sqrt_sq (by norm_num)]
    simp only [List.map_cons, List.map_nil, List.sum_cons, List.sum_nil, t30One, h]
    norm_num

/-- **T04.3 (c, additivity over particles)** -/
theorem deltaToTmunu_append (v : ℝ) (ps₁ ps₂ : List (PDelta ℝ)) :
    deltaToTmunu Real.sqrt 0 1 2 3 4 v (ps₁ ++ ps₂) =
      deltaToTmunu Real.sqrt 0 1 2 3 4 v ps₁ + deltaToTmunu Real.sqrt 0 1 2 3 4 v ps₂ := by
  simp only [deltaToTmunu_eq, List.map_append, List.sum_append, Prod.mk_add_mk]

/-- **T04.3 (c, no particles)** without out-of-equilibrium particles both components vanish, so
`s1 = c1`, `s2 = c2`. -/
theorem deltaToTmunu_nil (v : ℝ) : deltaToTmunu Real.sqrt 0 1 2 3 4 v [] = (0, 0) := by
  simp [deltaToTmunu_eq]

/-- **T04.3 (c, linearity in the moments)** for one particle species the output is linear in
`(Δ00, Δ02, Δ20, Δ11)`. -/
theorem deltaToTmunu_linear (v g m a b x00 x02 x20 x11 y00 y02 y20 y11 : ℝ) :
    deltaToTmunu Real.sqrt 0 1 2 3 4 v
        [⟨g, m, a * x00 + b * y00, a * x02 + b * y02, a * x20 + b * y20, a * x11 + b * y11⟩] =
      a • deltaToTmunu Real.sqrt 0 1 2 3 4 v [⟨g, m, x00, x02, x20, x11⟩]
        + b • deltaToTmunu Real.sqrt 0 1 2 3 4 v [⟨g, m, y00, y02, y20, y11⟩] := by
  simp only [deltaToTmunu_eq, List.map_cons, List.map_nil, List.sum_cons, List.sum_nil, add_zero,
    t30One_lin, t33One_lin, Prod.smul_mk, Prod.mk_add_mk, smul_eq_mul]

/-- **T04.3 (c, homogeneity for any number of particles)** scaling all moments of all particles by
`a` scales the output by `a`. -/
theorem deltaToTmunu_scale (v a : ℝ) (ps : List (PDelta ℝ)) :
    deltaToTmunu Real.sqrt 0 1 2 3 4 v (ps.map (scaleDelta a)) =
      a • deltaToTmunu Real.sqrt 0 1 2 3 4 v ps := by
  simp only [deltaToTmunu_eq, List.map_map, Prod.smul_mk, smul_eq_mul]
  congr 1
  · rw [← List.sum_map_mul_left]; congr 1; apply List.map_congr_left; intro p _
    exact t30One_scale v a p
  · rw [← List.sum_map_mul_left]; congr 1; apply List.map_congr_left; intro p _
    exact t33One_scale v a p

/-- Rest frame (`v = 0`, `γ = 1`): the covariant expression reduces to the plasma-frame moments
`T⁰⁰ = gΔ20`, `T³⁰ = gΔ11`, `T³³ = gΔ02`; consistency of (a) and (b). -/
theorem TmunuOut_rest (p : PDelta ℝ) :
    TmunuOut p 0 0 0 = p.dofs * p.d20 ∧ TmunuOut p 0 1 0 = p.dofs * p.d11 ∧
    TmunuOut p 0 1 1 = p.dofs * p.d02 := by
  refine ⟨?_, ?_, ?_⟩ <;> simp [TmunuOut, uVec, ubarVec, eta2, gam_zero] <;> ring

/-! ## T04.4  Branch logic -/

/-- **T04.4 (deflagration / hybrid)** If `|Tn − T₊| ≥ 1e-10` the multiplier is `max(T₊/T_min, 1.2)`;
it is `≥ 1.2 > 1`, so for `T_min > 0` the first test temperature lies strictly above the minimiser
and is at least `T₊`. -/
theorem tMultiplier_deflagration {Tn Tplus Tminus Tmin : ℝ} (h : ¬ |Tn - Tplus| < 1e-10) :
    tMultiplier Tn Tplus Tminus Tmin = max (Tplus / Tmin) 1.2 ∧
    1 < tMultiplier Tn Tplus Tminus Tmin ∧
    (0 < Tmin → Tmin < Tmin * tMultiplier Tn Tplus Tminus Tmin ∧
      Tplus ≤ Tmin * tMultiplier Tn Tplus Tminus Tmin) := by
  have e : tMultiplier Tn Tplus Tminus Tmin = max (Tplus / Tmin) 1.2 := by
    unfold tMultiplier; rw [if_neg h]
  have h1 : (1.2 : ℝ) ≤ max (Tplus / Tmin) 1.2 := le_max_right _ _
  have h1' : (1 : ℝ) < max (Tplus / Tmin) 1.2 := lt_of_lt_of_le (by norm_num) h1
  refine ⟨e, by rw [e]; exact h1', fun hT => ?_⟩
  rw [e]
  constructor
  · nlinarith
  · have h2 : Tplus / Tmin ≤ max (Tplus / Tmin) 1.2 := le_max_left _ _
    calc Tplus = Tmin * (Tplus / Tmin) := by field_simp
      _ ≤ Tmin * max (Tplus / Tmin) 1.2 := by gcongr

/-- **T04.4 (detonation)** If `|Tn − T₊| < 1e-10` (by C03 a detonation has `T₊ = Tn`) the
multiplier is `min(T₋/T_min, 0.8) ≤ 0.8 < 1`: for `T_min > 0` the test temperature lies strictly
below the minimiser and is at most `T₋`. -/
theorem tMultiplier_detonation {Tn Tplus Tminus Tmin : ℝ} (h : |Tn - Tplus| < 1e-10) :
    tMultiplier Tn Tplus Tminus Tmin = min (Tminus / Tmin) 0.8 ∧
    tMultiplier Tn Tplus Tminus Tmin < 1 ∧
    (0 < Tmin → Tmin * tMultiplier Tn Tplus Tminus Tmin < Tmin ∧
      Tmin * tMultiplier Tn Tplus Tminus Tmin ≤ Tminus) := by
  have e : tMultiplier Tn Tplus Tminus Tmin = min (Tminus / Tmin) 0.8 := by
    unfold tMultiplier; rw [if_pos h]
  have h1 : min (Tminus / Tmin) 0.8 ≤ (0.8 : ℝ) := min_le_right _ _
  have h1' : min (Tminus / Tmin) 0.8 < (1 : ℝ) := lt_of_le_of_lt h1 (by norm_num)
  refine ⟨e, by rw [e]; exact h1', fun hT => ?_⟩
  rw [e]
  constructor
  · nlinarith
  · have h2 : min (Tminus / Tmin) 0.8 ≤ Tminus / Tmin := min_le_left _ _
    calc Tmin * min (Tminus / Tmin) 0.8 ≤ Tmin * (Tminus / Tmin) := by gcongr
      _ = Tminus := by field_simp

/-- Non-vacuity of both branches: `Tn = 1, T₊ = 1.1` is a deflagration case, `Tn = T₊ = 1` a
detonation case. -/
example : (¬ |(1 : ℝ) - 1.1| < 1e-10) ∧ |(1 : ℝ) - 1| < 1e-10 := by
  constructor
  · rw [abs_of_neg (by norm_num)]; norm_num
  · norm_num

/-- **T04.4 (bracket marching)** each pass through the `while` loop multiplies both ends of the
bracket by the multiplier: after `k` passes the bracket is `(T_min m^k, T_min m^{k+1})`; consecutive
brackets share an end point, so for `m > 1` (resp. `0 < m < 1`) they tile the half line above
(resp. the interval below) the minimiser without gaps. -/
theorem bracket_march (Tmin m : ℝ) (k : ℕ) :
    bracketAfter Tmin m 0 = (Tmin, Tmin * m) ∧
    bracketAfter Tmin m (k + 1) = ((bracketAfter Tmin m k).1 * m, (bracketAfter Tmin m k).2 * m) ∧
    (bracketAfter Tmin m (k + 1)).1 = (bracketAfter Tmin m k).2 := by
  refine ⟨by simp [bracketAfter], ?_, ?_⟩
  · simp only [bracketAfter, pow_succ]
    refine Prod.ext ?_ ?_ <;> simp only <;> ring
  · simp only [bracketAfter]

/-- **T04.4 (success flag)** `successTemperatureProfile` is `True` at the end of
`findPlasmaProfile` iff every call of `findPlasmaProfilePoint` returned `T > 0`; in that case the
profile consists exactly of the returned `(T, v)` pairs.  NOTE: the flag does **not** distinguish
the "no root" branch of `findPlasmaProfilePoint` (minimum of the residual `≥ 0`), which returns
the minimiser `T > 0` without solving the `T³³` equation. -/
theorem successFlag_iff (pts : List (ℝ × ℝ)) :
    ((findPlasmaProfileModel pts).2 = true ↔ ∀ r ∈ pts, 0 < r.1) ∧
    ((∀ r ∈ pts, 0 < r.1) → (findPlasmaProfileModel pts).1 = pts) ∧
    (findPlasmaProfileModel pts).1.length = pts.length := by
  refine ⟨?_, fun h => ?_, ?_⟩
  · unfold findPlasmaProfileModel; rw [foldl_profileStep_flag]; simp
  · unfold findPlasmaProfileModel; rw [foldl_profileStep_success _ _ h]; simp
  · unfold findPlasmaProfileModel; rw [foldl_profileStep_length]; simp

/-- **T04.4 (failure copies the previous point)** if the point after `pts` returns `T ≤ 0`, the
flag becomes `False` and the entry stored is the previous entry of the profile — or `(0, 0)` when
there is no previous entry (python's `temperatureProfile[-1]` of the zero-initialised array), i.e. a
failure at the very first grid point stores the temperature `0`. -/
theorem failure_copies_previous (pts : List (ℝ × ℝ)) (r : ℝ × ℝ) (hr : ¬ 0 < r.1) :
    findPlasmaProfileModel (pts ++ [r]) =
      ((findPlasmaProfileModel pts).1 ++ [(findPlasmaProfileModel pts).1.getLastD (0, 0)], false) ∧
    (findPlasmaProfileModel [r]).1 = [(0, 0)] := by
  constructor
  · unfold findPlasmaProfileModel
    rw [List.foldl_append, List.foldl_cons, List.foldl_nil]
    simp [profileStep, hr]
  · simp [findPlasmaProfileModel, profileStep, hr]

/-- Non-vacuity / illustration: profile `[(1, -0.5), (0, 0), (2, -0.4)]`: the middle point failed, the
first one is copied and the flag is `False`. -/
example : findPlasmaProfileModel [(1, -1 / 2), (0, 0), (2, -2 / 5)] =
    ([(1, -1 / 2), (1, -1 / 2), (2, -2 / 5)], false) := by
  simp [findPlasmaProfileModel, profileStep]

end Props.C04
