/-
Property C20 — thermal one-loop integrals `J_b`, `J_f`
(`src/WallGo/PotentialTools/integrals.py`), the interpolation tables shipped with the package
(`Data/InterpolationTable_J{b,f}.txt`) and the thermal sum
`EffectivePotentialNoResum.potentialOneLoopThermal`.

T20.1  the six integrand classmethods are the real / imaginary parts of the defining complex
       integrand (principal `√`, principal `log`); split point of `wrapper`; `SMALL_NUMBER` effect.
T20.2  thermal sum: massless ⇒ Stefan–Boltzmann, linearity, continuity, Boltzmann suppression.
T20.3  shipped tables: abscissae strictly increasing, uniformly spaced, span `[-20, 1000]`, 10000 rows.

Left as HYPOTHESES (not proved here): the values `J_b(0) = -π⁴/45`, `J_f(0) = -7π⁴/360`, the decay
bound `|J(x)| ≤ C e^{-√x}` and continuity of `J_b`, `J_f` (they are statements about improper
integrals; Mathlib has no ready Bose/Fermi integral).  The tabulated *ordinates* are not covered
here (they are compared with quadrature by the numerical harness).
-/
import Mathlib.Tactic
import WallGoVerif.Gen.Q.JTables
import WallGoVerif.Lemmas.Thermal
import WallGoVerif.Lemmas.JTable

namespace Props.C20

open Lemmas.Thermal Lemmas.JTable Gen.R.Integrals Gen.Q.JTables

/-! ## T20.1  integrands -/

/-- Where the radicand `r = y² + x` is negative, the principal square root is `i·√(-r)`; hence
`e^{-√(y²+x)} = e^{-iθ}` with `θ = √(-y²-x)`, which is the substitution made in
`_integrandNegativeReal/_integrandNegativeImaginary`. -/
theorem principal_sqrt_neg {r : ℝ} (hr : r < 0) :
    ((r : ℂ)) ^ ((1 / 2 : ℂ)) = (Real.sqrt (-r) : ℂ) * Complex.I :=
  cpow_half_of_neg hr

example : ((-3 : ℝ)) < 0 := by norm_num

/-- T20.1(a) (bosons, the core identity).  For every real `θ`, with `z = 1 - e^{-iθ}`:
`Re log z = log(2|sin(θ/2)|)` and `Im log z = arctan(1/tan(θ/2))`.  No side condition is needed:
at `cos(θ/2) = 0` Lean's `tan = 0`, `1/0 = 0` gives `arctan 0 = 0 = arg 2`; at the singular
points `sin(θ/2) = 0` (`z = 0`) both sides are `0` by Mathlib's conventions `log 0 = 0`. -/
theorem jb_log_re_im (θ : ℝ) :
    (Complex.log (1 - Complex.exp (-(θ : ℂ) * Complex.I))).re
        = Real.log (2 * |Real.sin (θ / 2)|) ∧
      (Complex.log (1 - Complex.exp (-(θ : ℂ) * Complex.I))).im
        = Real.arctan (1 / Real.tan (θ / 2)) :=
  ⟨log_zB_re θ, log_zB_im θ⟩

/-- T20.1(b) (fermions, the core identity).  With `w = 1 + e^{-iθ}`:
`Re log w = log(2|cos(θ/2)|)`, `Im log w = -arctan(tan(θ/2))` (every `θ`; at `cos(θ/2) = 0`,
i.e. `w = 0`, both sides are `0` by convention). -/
theorem jf_log_re_im (θ : ℝ) :
    (Complex.log (1 + Complex.exp (-(θ : ℂ) * Complex.I))).re
        = Real.log (2 * |Real.cos (θ / 2)|) ∧
      (Complex.log (1 + Complex.exp (-(θ : ℂ) * Complex.I))).im
        = -Real.arctan (Real.tan (θ / 2)) :=
  ⟨log_zF_re θ, log_zF_im θ⟩

/-- T20.1(a): on the region `y² + x < 0` the regulator-free versions of `_integrandNegativeReal`
and `_integrandNegativeImaginary` of `JbIntegral` are exactly the real and imaginary part of the
defining integrand `y² log(1 - exp(-√(y²+x)))` (`JbC`, principal `√` and `log`). -/
theorem jb_negative_integrands {x y : ℝ} (h : y ^ 2 + x < 0) :
    (JbC x y).re = JbNegRe0 x y ∧ (JbC x y).im = JbNegIm0 x y :=
  ⟨JbC_re_of_neg h, JbC_im_of_neg h⟩

/-- T20.1(b): same for `JfIntegral`; in particular the code's imaginary integrand
`+y² arctan(tan(θ/2))` is `Im(-y² log(1 + e^{-iθ}))`, the overall minus sign of `J_f` included. -/
theorem jf_negative_integrands {x y : ℝ} (h : y ^ 2 + x < 0) :
    (JfC x y).re = JfNegRe0 x y ∧ (JfC x y).im = JfNegIm0 x y :=
  ⟨JfC_re_of_neg h, JfC_im_of_neg h⟩

example : ((1 : ℝ)) ^ 2 + (-4) < 0 := by norm_num

/-- T20.1(c): for `y² + x ≥ 0` the defining integrands are real and equal the regulator-free
`_integrandPositiveReal` (imaginary part zero, as `wrapper` assumes). -/
theorem positive_integrands {x y : ℝ} (h : 0 ≤ y ^ 2 + x) :
    JbC x y = (JbPosRe0 x y : ℂ) ∧ JfC x y = (JfPosRe0 x y : ℂ) :=
  ⟨JbC_of_nonneg h, JfC_of_nonneg h⟩

example : (0 : ℝ) ≤ (3 : ℝ) ^ 2 + (-4) := by norm_num

/-- T20.1(d): `wrapper` splits the `y`-integration at `√|x|` for `x < 0`; this is exactly where the
radicand changes sign, so the negative-branch integrands are used precisely where `y² + x < 0`. -/
theorem wrapper_split_point {x y : ℝ} (hx : x < 0) (hy : 0 ≤ y) :
    y ^ 2 + x < 0 ↔ y < Real.sqrt |x| :=
  split_point hx hy

example : ((-4 : ℝ)) < 0 ∧ (0 : ℝ) ≤ 1 := by norm_num

/-- T20.1(e), explicit tie to the generated code: each generated integrand is the regulator-free
formula with `+ eps` (`eps = SMALL_NUMBER = 10⁻¹⁰⁰`) inserted inside `log` / `arctan`. -/
theorem generated_integrands_unfold (x y : ℝ) :
    JbPositiveReal x y = y ^ 2 * Real.log (1 - Real.exp (-Real.sqrt (y ^ 2 + x)) + eps) ∧
    JbNegativeReal x y
      = y ^ 2 * Real.log (2 * |Real.sin ((1 / 2 : ℝ) * Real.sqrt (-(y ^ 2) - x))| + eps) ∧
    JbNegativeImaginary x y
      = y ^ 2 * Real.arctan (1 / (Real.tan ((1 / 2 : ℝ) * Real.sqrt (-(y ^ 2) - x)) + eps)) ∧
    JfPositiveReal x y = -(y ^ 2) * Real.log (1 + Real.exp (-Real.sqrt (y ^ 2 + x)) + eps) ∧
    JfNegativeReal x y
      = -(y ^ 2) * Real.log (2 * |Real.cos ((1 / 2 : ℝ) * Real.sqrt (-(y ^ 2) - x))| + eps) ∧
    JfNegativeImaginary x y
      = y ^ 2 * Real.arctan (Real.tan ((1 / 2 : ℝ) * Real.sqrt (-(y ^ 2) - x)) + eps) :=
  ⟨JbPositiveReal_eq x y, JbNegativeReal_eq x y, JbNegativeImaginary_eq x y,
   JfPositiveReal_eq x y, JfNegativeReal_eq x y, JfNegativeImaginary_eq x y⟩

/-- T20.1(e): regulator error of the fermionic positive-branch and imaginary integrands is at most
`y²·10⁻¹⁰⁰`, uniformly (no side condition). -/
theorem jf_regulator_uniform (x y : ℝ) :
    |JfPositiveReal x y - JfPosRe0 x y| ≤ y ^ 2 * eps ∧
      |JfNegativeImaginary x y - JfNegIm0 x y| ≤ y ^ 2 * eps :=
  ⟨JfPositiveReal_sub x y, JfNegativeImaginary_sub x y⟩

/-- T20.1(e): the logarithmic integrands: away from the (integrable) logarithmic singularities
the generated integrand differs from the clean one by exactly `± y² log(1 + eps/a)`, where `a` is
the clean argument of the logarithm; in absolute value at most `y²·eps/a`. -/
theorem log_regulator_exact {x y : ℝ} :
    (Real.sin ((1 / 2 : ℝ) * Real.sqrt (-(y ^ 2) - x)) ≠ 0 →
      |JbNegativeReal x y - JbNegRe0 x y|
        ≤ y ^ 2 * (eps / (2 * |Real.sin ((1 / 2 : ℝ) * Real.sqrt (-(y ^ 2) - x))|))) ∧
    (Real.cos ((1 / 2 : ℝ) * Real.sqrt (-(y ^ 2) - x)) ≠ 0 →
      |JfNegativeReal x y - JfNegRe0 x y|
        ≤ y ^ 2 * (eps / (2 * |Real.cos ((1 / 2 : ℝ) * Real.sqrt (-(y ^ 2) - x))|))) ∧
    (0 < y ^ 2 + x →
      |JbPositiveReal x y - JbPosRe0 x y|
        ≤ y ^ 2 * (eps / (1 - Real.exp (-Real.sqrt (y ^ 2 + x))))) :=
  ⟨fun h => (JbNegativeReal_sub h).2, fun h => (JfNegativeReal_sub h).2,
   fun h => (JbPositiveReal_sub h).2⟩

/-- T20.1(e): bosonic imaginary integrand, `t = tan(θ/2)`, `t ≠ 0`, `t + eps ≠ 0`:
error at most `y²·eps/|t(t+eps)|`.  This one is NOT uniform: for `t ∈ (-eps, 0)` the regulated
value `arctan(1/(t+eps)) ≈ +π/2` has the opposite sign of the exact `arctan(1/t) ≈ -π/2` (a window
of width `10⁻¹⁰⁰` in `t`, invisible to quadrature). -/
theorem jb_imag_regulator {x y : ℝ}
    (ht : Real.tan ((1 / 2 : ℝ) * Real.sqrt (-(y ^ 2) - x)) ≠ 0)
    (ht' : Real.tan ((1 / 2 : ℝ) * Real.sqrt (-(y ^ 2) - x)) + eps ≠ 0) :
    |JbNegativeImaginary x y - JbNegIm0 x y|
      ≤ y ^ 2 * (eps / |Real.tan ((1 / 2 : ℝ) * Real.sqrt (-(y ^ 2) - x)) *
          (Real.tan ((1 / 2 : ℝ) * Real.sqrt (-(y ^ 2) - x)) + eps)|) :=
  JbNegativeImaginary_sub ht ht'

/-- non-vacuity for the side conditions above at `x = -4`, `y = 1` (`θ/2 = √3/2 ∈ (0, π/2)`). -/
example :
    Real.sin ((1 / 2 : ℝ) * Real.sqrt (-((1 : ℝ) ^ 2) - (-4))) ≠ 0 ∧
    Real.cos ((1 / 2 : ℝ) * Real.sqrt (-((1 : ℝ) ^ 2) - (-4))) ≠ 0 ∧
    Real.tan ((1 / 2 : ℝ) * Real.sqrt (-((1 : ℝ) ^ 2) - (-4))) ≠ 0 ∧
    Real.tan ((1 / 2 : ℝ) * Real.sqrt (-((1 : ℝ) ^ 2) - (-4))) + eps ≠ 0 := by
  have h3 : (-((1 : ℝ) ^ 2) - (-4)) = 3 := by norm_num
  rw [h3]
  have hpos : 0 < (1 / 2 : ℝ) * Real.sqrt 3 := by positivity
  have hlt : (1 / 2 : ℝ) * Real.sqrt 3 < Real.pi / 2 := by
    have : Real.sqrt 3 < 2 := by
      rw [Real.sqrt_lt' (by norm_num)]; norm_num
    have := Real.two_le_pi
    linarith
  have hs := Real.sin_pos_of_pos_of_lt_pi hpos (by linarith [Real.pi_pos])
  have hc := Real.cos_pos_of_mem_Ioo ⟨by linarith, hlt⟩
  have ht := Real.tan_pos_of_pos_of_lt_pi_div_two hpos hlt
  exact ⟨hs.ne', hc.ne', ht.ne', (add_pos ht eps_pos).ne'⟩

example : (0 : ℝ) < (3 : ℝ) ^ 2 + (-4) := by norm_num

/-! ## T20.2  thermal sum (`Model.Thermal.oneLoopThermal` at `α = ℝ`) -/

open Model.Thermal

/-- Massless particles: `m²/(T²+small) = 0` whatever the regulator, so only `J(0)` enters:
`V_T = (N_b J_b(0) + N_f J_f(0)) T⁴/(2π²)` with `N = Σ n`. -/
theorem massless (small : ℝ) (Jb Jf : ℝ → ℝ) (T : ℝ) (bs fs : List (ℝ × ℝ))
    (hb : ∀ p ∈ bs, p.1 = 0) (hf : ∀ p ∈ fs, p.1 = 0) :
    oneLoopThermal (0 : ℝ) 2 Real.pi small Jb Jf T bs fs
      = ((bs.map Prod.snd).sum * Jb 0 + (fs.map Prod.snd).sum * Jf 0) * T ^ 4
          / (2 * Real.pi ^ 2) :=
  VT_massless small Jb Jf T bs fs hb hf

/-- **Stefan–Boltzmann limit.**  HYPOTHESES: `J_b(0) = -π⁴/45`, `J_f(0) = -7π⁴/360` (values of the
defining integrals at zero; not proved here).  Then the massless thermal potential is
`-(π²/90)(N_b + 7/8·N_f) T⁴`. -/
theorem stefan_boltzmann (small : ℝ) (Jb Jf : ℝ → ℝ) (T : ℝ) (bs fs : List (ℝ × ℝ))
    (hb : ∀ p ∈ bs, p.1 = 0) (hf : ∀ p ∈ fs, p.1 = 0)
    (hJb : Jb 0 = -Real.pi ^ 4 / 45) (hJf : Jf 0 = -7 * Real.pi ^ 4 / 360) :
    oneLoopThermal (0 : ℝ) 2 Real.pi small Jb Jf T bs fs
      = -(Real.pi ^ 2 / 90) * ((bs.map Prod.snd).sum + 7 / 8 * (fs.map Prod.snd).sum) * T ^ 4 :=
  VT_stefan_boltzmann small Jb Jf T bs fs hb hf hJb hJf

/-- non-vacuity: a photon (2 d.o.f.) and a massless Dirac fermion (4 d.o.f.), with stand-in
functions having the right values at zero. -/
example :
    (∀ p ∈ [((0 : ℝ), (2 : ℝ))], p.1 = 0) ∧ (∀ p ∈ [((0 : ℝ), (4 : ℝ))], p.1 = 0) ∧
    (fun x : ℝ => -Real.pi ^ 4 / 45 + x) 0 = -Real.pi ^ 4 / 45 ∧
    (fun x : ℝ => -7 * Real.pi ^ 4 / 360 - x) 0 = -7 * Real.pi ^ 4 / 360 := by
  simp

/-- Additivity over the particle content (appending particle lists adds the potentials). -/
theorem additive (small : ℝ) (Jb Jf : ℝ → ℝ) (T : ℝ) (bs bs' fs fs' : List (ℝ × ℝ)) :
    oneLoopThermal (0 : ℝ) 2 Real.pi small Jb Jf T (bs ++ bs') (fs ++ fs')
      = oneLoopThermal (0 : ℝ) 2 Real.pi small Jb Jf T bs fs
        + oneLoopThermal (0 : ℝ) 2 Real.pi small Jb Jf T bs' fs' :=
  VT_append small Jb Jf T bs bs' fs fs'

/-- Homogeneity in the degrees of freedom (scaling every `n` by `c` scales the potential). -/
theorem homogeneous (small : ℝ) (Jb Jf : ℝ → ℝ) (T c : ℝ) (bs fs : List (ℝ × ℝ)) :
    oneLoopThermal (0 : ℝ) 2 Real.pi small Jb Jf T
        (bs.map (fun p => (p.1, c * p.2))) (fs.map (fun p => (p.1, c * p.2)))
      = c * oneLoopThermal (0 : ℝ) 2 Real.pi small Jb Jf T bs fs :=
  VT_scale small Jb Jf T c bs fs

/-- **Continuity in the masses (and the temperature).**  HYPOTHESES: `J_b`, `J_f` continuous;
`T² + small ≠ 0` along the family (automatic for the code's `small = 1e-100 > 0`, see
`denominator_never_zero`).  Masses and temperature may depend on any parameter `t`. -/
theorem continuous_in_masses {X : Type*} [TopologicalSpace X] (small : ℝ) (Jb Jf : ℝ → ℝ)
    (hJb : Continuous Jb) (hJf : Continuous Jf)
    (T : X → ℝ) (hT : Continuous T) (hne : ∀ t, T t * T t + small ≠ 0)
    (bs fs : List ((X → ℝ) × ℝ)) (hb : ∀ p ∈ bs, Continuous p.1) (hf : ∀ p ∈ fs, Continuous p.1) :
    Continuous fun t => oneLoopThermal (0 : ℝ) 2 Real.pi small Jb Jf (T t)
      (bs.map (fun p => (p.1 t, p.2))) (fs.map (fun p => (p.1 t, p.2))) :=
  continuous_VT small Jb Jf hJb hJf T hT hne bs fs hb hf

/-- with a positive regulator the denominator `T² + small` never vanishes. -/
theorem denominator_never_zero {small : ℝ} (hs : 0 < small) (T : ℝ) : T * T + small ≠ 0 :=
  denom_ne_zero hs T

example : (0 : ℝ) < eps := eps_pos

/-- non-vacuity: `X = ℝ`, `T t = t`, `small = 1e-100`, one boson of mass² `t² - 1` (which changes
sign), one fermion of mass² `t²`, `J = id`. -/
example : Continuous (id : ℝ → ℝ) ∧ Continuous (fun t : ℝ => t) ∧
    (∀ t : ℝ, t * t + eps ≠ 0) ∧
    (∀ p ∈ [((fun t : ℝ => t ^ 2 - 1), (1 : ℝ))], Continuous p.1) ∧
    (∀ p ∈ [((fun t : ℝ => t ^ 2), (4 : ℝ))], Continuous p.1) := by
  refine ⟨continuous_id, continuous_id, fun t => denom_ne_zero eps_pos t, ?_, ?_⟩
  · intro p hp; simp only [List.mem_singleton] at hp; subst hp; fun_prop
  · intro p hp; simp only [List.mem_singleton] at hp; subst hp; fun_prop

/-- Continuity in one mass² at fixed temperature: no condition on `T` at all. -/
theorem continuous_single (small : ℝ) (Jb Jf : ℝ → ℝ) (hJb : Continuous Jb) (hJf : Continuous Jf)
    (T n : ℝ) :
    (Continuous fun m => oneLoopThermal (0 : ℝ) 2 Real.pi small Jb Jf T [(m, n)] []) ∧
    (Continuous fun m => oneLoopThermal (0 : ℝ) 2 Real.pi small Jb Jf T [] [(m, n)]) :=
  ⟨continuous_VT_single_boson small Jb Jf hJb T n, continuous_VT_single_fermion small Jb Jf hJf T n⟩

example : Continuous (fun x : ℝ => x ^ 2) := by fun_prop

/-- **Boltzmann suppression of heavy particles.**  HYPOTHESIS: `|J(x)| ≤ C e^{-√x}` for `x ≥ x₀`
(large-argument decay of the integral; not proved here).  Then a boson (resp. fermion) of mass
`m ≥ 0` with `m² ≥ x₀ T²` contributes at most `|n|·C·e^{-m/T}·T⁴/(2π²)` (regulator `0`, `T > 0`). -/
theorem heavy_suppressed (Jb Jf : ℝ → ℝ) {C x0 : ℝ} {T m n : ℝ} (hT : 0 < T) (hm : 0 ≤ m)
    (hheavy : x0 * T ^ 2 ≤ m ^ 2) :
    ((∀ x, x0 ≤ x → |Jb x| ≤ C * Real.exp (-Real.sqrt x)) →
      |oneLoopThermal (0 : ℝ) 2 Real.pi 0 Jb Jf T [(m ^ 2, n)] []|
        ≤ |n| * C * Real.exp (-(m / T)) * T ^ 4 / (2 * Real.pi ^ 2)) ∧
    ((∀ x, x0 ≤ x → |Jf x| ≤ C * Real.exp (-Real.sqrt x)) →
      |oneLoopThermal (0 : ℝ) 2 Real.pi 0 Jb Jf T [] [(m ^ 2, n)]|
        ≤ |n| * C * Real.exp (-(m / T)) * T ^ 4 / (2 * Real.pi ^ 2)) :=
  ⟨fun hd => VT_heavy_boson Jb Jf hd hT hm hheavy, fun hd => VT_heavy_fermion Jb Jf hd hT hm hheavy⟩

/-- non-vacuity: `J(x) = -e^{-√x}`, `C = 1`, `x₀ = 1`, `T = 1`, `m = 3`. -/
example : (0 : ℝ) < 1 ∧ (0 : ℝ) ≤ 3 ∧ (1 : ℝ) * 1 ^ 2 ≤ 3 ^ 2 ∧
    (∀ x : ℝ, 1 ≤ x → |(fun x => -Real.exp (-Real.sqrt x)) x| ≤ 1 * Real.exp (-Real.sqrt x)) := by
  refine ⟨by norm_num, by norm_num, by norm_num, fun x _ => ?_⟩
  simp [abs_of_pos (Real.exp_pos _)]

/-! ## T20.3  shipped interpolation tables (abscissae)

The generator of `Gen/Q/JTables.lean` refuses non-finite entries, so every abscissa is an exact
rational (the decimal text of the data file, 15 significant digits).  Chunk `i` holds rows
`100·i … 100·(i+1)` inclusive.

Constants (defined in `Lemmas/JTable.lean`): `h = 1020102010201/10¹³` (nominal spacing `1020/9999`
truncated to 13 decimals) and `tol = 2·10⁻¹²`.  NB: `10⁻¹²` is NOT enough — the file stores 15
significant digits, i.e. 12 decimals above 100, and two steps deviate by `1.1·10⁻¹²`
(`spacing_1e12_fails`). -/

/-- every chunk of the `J_b` table has strictly increasing abscissae with spacing `h ± tol`, and
consecutive chunks overlap in one element (single kernel computation over all 100 chunks). -/
theorem jb_chunks_ok : chainOK h tol JbChunks = true := by decide +kernel

/-- The two tables use literally the same abscissae (kernel comparison of all 100 chunks). -/
theorem jb_jf_same_abscissae : JfChunks = JbChunks := by decide +kernel

/-- same for the `J_f` table.  (Obtained from `jb_jf_same_abscissae` to save ~20 s of kernel time;
`by decide +kernel` also proves it directly, should the two tables ever differ.) -/
theorem jf_chunks_ok : chainOK h tol JfChunks = true := jb_jf_same_abscissae ▸ jb_chunks_ok

/-- with tolerance `10⁻¹²` the spacing test fails (chunk 56, rows 5600–5700; also chunk 78). -/
theorem spacing_1e12_fails :
    adjOK h (1 / 10 ^ 12) JbX_56 = false ∧ adjOK h (1 / 10 ^ 12) JbX_78 = false := by
  decide +kernel

/-- per-chunk form of `jb_chunks_ok`. -/
theorem jb_chunks_adj : JbChunks.all (adjOK h tol) = true ∧ linksOK JbChunks = true := by
  have := jb_chunks_ok
  simpa [chainOK] using this

/-- per-chunk form of `jf_chunks_ok`. -/
theorem jf_chunks_adj : JfChunks.all (adjOK h tol) = true ∧ linksOK JfChunks = true := by
  have := jf_chunks_ok
  simpa [chainOK] using this

/-- The `J_b` abscissae are strictly increasing over the whole table (what `CubicSpline` needs). -/
theorem jb_table_strictly_increasing : (joinChunks JbChunks).Pairwise (· < ·) :=
  chainOK_pairwise_lt jb_chunks_ok

/-- The `J_f` abscissae are strictly increasing over the whole table. -/
theorem jf_table_strictly_increasing : (joinChunks JfChunks).Pairwise (· < ·) :=
  chainOK_pairwise_lt jf_chunks_ok

/-- The joined `J_b` table has `JbRows = 10000` rows. -/
theorem jb_table_length : (joinChunks JbChunks).length = JbRows ∧ JbRows = 10000 := by
  decide +kernel

/-- The joined `J_f` table has `JfRows = 10000` rows. -/
theorem jf_table_length : (joinChunks JfChunks).length = JfRows ∧ JfRows = 10000 := by
  decide +kernel

/-- first abscissa `-20`, last `1000`. -/
theorem jb_table_ends :
    (joinChunks JbChunks).head? = some (-20) ∧ (joinChunks JbChunks).getLast? = some 1000 := by
  decide +kernel

/-- `J_f` table: first abscissa `-20`, last `1000`. -/
theorem jf_table_ends :
    (joinChunks JfChunks).head? = some (-20) ∧ (joinChunks JfChunks).getLast? = some 1000 :=
  jb_jf_same_abscissae ▸ jb_table_ends

/-- The `J_b` table spans exactly `[-20, 1000]`: it starts at `-20`, ends at `1000`, and every
abscissa lies in between. -/
theorem jb_table_span :
    (joinChunks JbChunks).head? = some (-20) ∧ (joinChunks JbChunks).getLast? = some 1000 ∧
      ∀ x ∈ joinChunks JbChunks, -20 ≤ x ∧ x ≤ 1000 :=
  ⟨jb_table_ends.1, jb_table_ends.2,
    pairwise_lt_bounds jb_table_strictly_increasing jb_table_ends.1 jb_table_ends.2⟩

/-- The `J_f` table spans exactly `[-20, 1000]`. -/
theorem jf_table_span :
    (joinChunks JfChunks).head? = some (-20) ∧ (joinChunks JfChunks).getLast? = some 1000 ∧
      ∀ x ∈ joinChunks JfChunks, -20 ≤ x ∧ x ≤ 1000 :=
  ⟨jf_table_ends.1, jf_table_ends.2,
    pairwise_lt_bounds jf_table_strictly_increasing jf_table_ends.1 jf_table_ends.2⟩

/-- Uniform spacing (local form): consecutive abscissae differ by `h` up to `2·10⁻¹²`. -/
theorem jb_table_spacing (i : Nat) (hi : i + 1 < (joinChunks JbChunks).length) :
    h - tol ≤ (joinChunks JbChunks)[i + 1] - (joinChunks JbChunks)[i] ∧
      (joinChunks JbChunks)[i + 1] - (joinChunks JbChunks)[i] ≤ h + tol :=
  (chainOK_step jb_chunks_ok i hi).2

/-- Uniform spacing (local form) of the `J_f` table. -/
theorem jf_table_spacing (i : Nat) (hi : i + 1 < (joinChunks JfChunks).length) :
    h - tol ≤ (joinChunks JfChunks)[i + 1] - (joinChunks JfChunks)[i] ∧
      (joinChunks JfChunks)[i + 1] - (joinChunks JfChunks)[i] ≤ h + tol :=
  (chainOK_step jf_chunks_ok i hi).2

example : (0 : Nat) + 1 < (joinChunks JbChunks).length := by rw [jb_table_length.1]; decide
example : (0 : Nat) + 1 < (joinChunks JfChunks).length := by rw [jf_table_length.1]; decide

/-- kernel check: every `J_b` abscissa is within `6·10⁻¹³` of the exact grid `-20 + i·1020/9999`. -/
theorem jb_grid_ok :
    gridOK (-20 - 6 / 10 ^ 13) (-20 + 6 / 10 ^ 13) (1020 / 9999) 0 (joinChunks JbChunks) = true := by
  decide +kernel

/-- Uniform spacing (global form): row `i` of the `J_b` table is `numpy.linspace(-20, 1000, 10000)[i]`
up to the rounding of the text file: `|x_i - (-20 + i·1020/9999)| ≤ 6·10⁻¹³`. -/
theorem jb_table_linspace (i : Nat) (hi : i < (joinChunks JbChunks).length) :
    -20 + (i : Rat) * (1020 / 9999) - 6 / 10 ^ 13 ≤ (joinChunks JbChunks)[i] ∧
      (joinChunks JbChunks)[i] ≤ -20 + (i : Rat) * (1020 / 9999) + 6 / 10 ^ 13 := by
  have := gridOK_getElem _ 0 jb_grid_ok i hi
  simp only [Nat.zero_add] at this
  constructor <;> linarith [this.1, this.2]

/-- Uniform spacing (global form) of the `J_f` table (via `jb_jf_same_abscissae`). -/
theorem jf_table_linspace (i : Nat) (hi : i < (joinChunks JfChunks).length) :
    -20 + (i : Rat) * (1020 / 9999) - 6 / 10 ^ 13 ≤ (joinChunks JfChunks)[i] ∧
      (joinChunks JfChunks)[i] ≤ -20 + (i : Rat) * (1020 / 9999) + 6 / 10 ^ 13 := by
  have hi' : i < (joinChunks JbChunks).length := by rw [← jb_jf_same_abscissae]; exact hi
  have := jb_table_linspace i hi'
  simpa only [jb_jf_same_abscissae] using this

example : (9999 : Nat) < (joinChunks JbChunks).length := by rw [jb_table_length.1]; decide

end Props.C20
