/-
Property C07.  "Multiplying every dimensionful input (field values, temperatures, mass parameters,
variation scales) by a common factor, with the potential rescaled accordingly, leaves every
dimensionless output unchanged … and multiplies every dimensionful output by the corresponding power
of the factor."

Natural-unit weights: temperatures, fields, momenta 1; lengths (wall widths, grid tail lengths,
positions z) −1; pressures / energy densities / enthalpies / potential values 4; velocities, sound
speeds, offsets, exponents 0.  `l > 0` is the common factor throughout.

Every theorem has the form "inputs scaled by `l^{w_i}` ⇒ output scaled by `l^{w_out}`" and is about
the GENERATED formulas (`Gen/R/*`) or the hand models `Model/EOM`, `Model/Deriv` at `ℝ`.
The rescaled states `scaleThermo`, `scaleHydro`, `scaleTempl`, `scaleGrid`, `scaleGrid3`,
`scalePDelta`, `scaleBounds` and all helper lemmas live in `Lemmas/Scaling.lean`.

Scale-covariance findings (absolute constants in the code):
* `Hydrodynamics.vpvmAndvpovm`: the fallback `(p₊−p₋)·1e50` taken when `e₊ = e₋` has weight 4 whereas the
  regular value `v₊v₋` has weight 0 (`vpvm_degenerate_not_invariant`).
* `wallPressure`'s `errTol = max(rtol·|p|, atol)`: covariant only while the relative branch is active
  (`errTol_covariant_iff`, `errTol_counterexample`).
* `|Tn − T₊| < 1e-10` in the EOM: absolute temperature threshold (`abs_threshold_not_invariant`).
* NOT findings: the `1e-100` regulators of `wFromAlpha` and the `1e50` of `_dxiAndWdv` act on
  dimensionless quantities (`template_dimensionless`, `dxiAndWdv_weights`); the `x > 709.78` cut-off of
  `feq/dfeq` acts on the dimensionless `E/T`.
-/
import WallGoVerif.Lemmas.Scaling

namespace Props.C07

open Lemmas.Scaling

/-! ## T07.1 (a)  Thermodynamics -/
section thermo
open Gen.R.Thermo Lemmas.Thermo

/-- **T07.1a** Weights of the equation of state, in all three temperature regions (below / inside /
above the tabulated range) and for *every* real `T` (no `T > 0` needed): with `scaleThermo l s`
(boundary temperatures × l, `mu` unchanged, `a ↦ a·l^(4−mu)`, `ε ↦ l⁴ε`, tables `F ↦ l⁴F(·/l)`,
`dF ↦ l³dF(·/l)`, `ddF ↦ l²ddF(·/l)`): `p, e, w` weight 4; `dp, de` weight 3; `ddp` weight 2; `csq` and
`alpha` weight 0.  Only hypothesis: `0 < l`. -/
theorem thermo_weights {l : ℝ} (hl : 0 < l) (s : ThermoP) (T : ℝ) :
    (pHighT (scaleThermo l s) (l * T) = l ^ 4 * pHighT s T ∧
      dpHighT (scaleThermo l s) (l * T) = l ^ 3 * dpHighT s T ∧
      ddpHighT (scaleThermo l s) (l * T) = l ^ 2 * ddpHighT s T ∧
      eHighT (scaleThermo l s) (l * T) = l ^ 4 * eHighT s T ∧
      deHighT (scaleThermo l s) (l * T) = l ^ 3 * deHighT s T ∧
      wHighT (scaleThermo l s) (l * T) = l ^ 4 * wHighT s T ∧
      csqHighT (scaleThermo l s) (l * T) = csqHighT s T) ∧
    (pLowT (scaleThermo l s) (l * T) = l ^ 4 * pLowT s T ∧
      dpLowT (scaleThermo l s) (l * T) = l ^ 3 * dpLowT s T ∧
      ddpLowT (scaleThermo l s) (l * T) = l ^ 2 * ddpLowT s T ∧
      eLowT (scaleThermo l s) (l * T) = l ^ 4 * eLowT s T ∧
      deLowT (scaleThermo l s) (l * T) = l ^ 3 * deLowT s T ∧
      wLowT (scaleThermo l s) (l * T) = l ^ 4 * wLowT s T ∧
      csqLowT (scaleThermo l s) (l * T) = csqLowT s T) ∧
    alpha (scaleThermo l s) (l * T) = alpha s T :=
  ⟨⟨pHighT_scale hl s T, dpHighT_scale hl s T, ddpHighT_scale hl s T, eHighT_scale hl s T,
      deHighT_scale hl s T, wHighT_scale hl s T, csqHighT_scale hl s T⟩,
    ⟨pLowT_scale hl s T, dpLowT_scale hl s T, ddpLowT_scale hl s T, eLowT_scale hl s T,
      deLowT_scale hl s T, wLowT_scale hl s T, csqLowT_scale hl s T⟩,
    alpha_scale hl s T⟩

/-- Non-vacuity of T07.1a on the concrete state `exS` (table range `[1,2]`, `p₊ = T⁴`,
`p₋ = T⁴/2 + 1`): inside the table `p₊(3/2) = 81/16`, in the extrapolated region `p₊(3) = 81`
(real power `3^4.0`), `α(3/2) = 16/243 ≠ 0`; and the scaled state evaluated directly (not through the
theorem) at `l = 2` gives `p₊ = 16 · 81/16 = 81`. -/
example : (0 : ℝ) < 2 ∧ pHighT exS (3 / 2) = 81 / 16 ∧ pHighT exS 3 = 81 ∧ alpha exS (3 / 2) = 16 / 243 ∧
    pHighT (scaleThermo 2 exS) (2 * (3 / 2)) = 81 := by
  have h3 : (3 : ℝ) ^ (4 : ℝ) = 81 := by
    rw [show (4 : ℝ) = ((4 : ℕ) : ℝ) by norm_num, Real.rpow_natCast]; norm_num
  refine ⟨by norm_num, ?_, ?_, ?_, ?_⟩
  · norm_num [pHighT, exS]
  · norm_num [pHighT, exS, WG.R.rpow, h3]
  · norm_num [alpha, eHighT, eLowT, pHighT, pLowT, dpHighT, dpLowT, csqLowT, deLowT, ddpLowT, wHighT,
      exS]
  · norm_num [pHighT, exS, scaleThermo]

/-- **T07.1a (`setExtrapolate`)** The twelve assignments of `setExtrapolate` commute with the
rescaling: the exponents `mu` are invariant, the amplitudes scale as `a ↦ a·l^(4−mu)` (`mu` the
exponent already stored in the state, as in the Python code which assigns `mu` first), the vacuum
energies have weight 4.  Only hypothesis: `0 < l` (no well-formedness condition is needed: both sides
degenerate in the same way under Lean's `x/0 = 0`). -/
theorem setExtrapolate_commutes {l : ℝ} (hl : 0 < l) (s : ThermoP) :
    (muMinHighT_set (scaleThermo l s) = muMinHighT_set s ∧
      aMinHighT_set (scaleThermo l s) = aMinHighT_set s * l ^ (4 - s.muMinHighT) ∧
      epsilonMinHighT_set (scaleThermo l s) = l ^ 4 * epsilonMinHighT_set s) ∧
    (muMaxHighT_set (scaleThermo l s) = muMaxHighT_set s ∧
      aMaxHighT_set (scaleThermo l s) = aMaxHighT_set s * l ^ (4 - s.muMaxHighT) ∧
      epsilonMaxHighT_set (scaleThermo l s) = l ^ 4 * epsilonMaxHighT_set s) ∧
    (muMinLowT_set (scaleThermo l s) = muMinLowT_set s ∧
      aMinLowT_set (scaleThermo l s) = aMinLowT_set s * l ^ (4 - s.muMinLowT) ∧
      epsilonMinLowT_set (scaleThermo l s) = l ^ 4 * epsilonMinLowT_set s) ∧
    (muMaxLowT_set (scaleThermo l s) = muMaxLowT_set s ∧
      aMaxLowT_set (scaleThermo l s) = aMaxLowT_set s * l ^ (4 - s.muMaxLowT) ∧
      epsilonMaxLowT_set (scaleThermo l s) = l ^ 4 * epsilonMaxLowT_set s) :=
  ⟨⟨muMinHighT_set_scale hl s, aMinHighT_set_scale hl s, epsilonMinHighT_set_scale hl s⟩,
    ⟨muMaxHighT_set_scale hl s, aMaxHighT_set_scale hl s, epsilonMaxHighT_set_scale hl s⟩,
    ⟨muMinLowT_set_scale hl s, aMinLowT_set_scale hl s, epsilonMinLowT_set_scale hl s⟩,
    ⟨muMaxLowT_set_scale hl s, aMaxLowT_set_scale hl s, epsilonMaxLowT_set_scale hl s⟩⟩

/-- **T07.1a (fixed-point form)** If `s` is a state left by `setExtrapolate` (`Extrapolated s`), so is
the rescaled state.  Hypotheses: `0 < l`, `Extrapolated s`. -/
theorem setExtrapolate_state_covariant {l : ℝ} (hl : 0 < l) {s : ThermoP} (h : Extrapolated s) :
    Extrapolated (scaleThermo l s) :=
  extrapolated_scale hl h

/-- Non-vacuity: `exS` is such a state, hence so is `scaleThermo 2 exS`. -/
example : Extrapolated exS ∧ Extrapolated (scaleThermo 2 exS) :=
  ⟨exS_Extrapolated, extrapolated_scale (by norm_num) exS_Extrapolated⟩

end thermo

/-! ## T07.1 (b)  Hydrodynamics -/
section hydro
open Gen.R.Hydro Lemmas.Hydro

/-- **T07.1b (link to a)** The `HydroP` record read off a rescaled `Thermodynamics` state is exactly
`scaleHydro l` of the original one (`p, e, w ↦ l⁴ f(·/l)`, `dpLowT, deLowT ↦ l³ f(·/l)`,
`csq ↦ csq(·/l)`, `Tnucl, TMaxHydro, TMinHydro` × l).  Hypothesis: `0 < l`. -/
theorem hydro_state_of_scaled_thermo {l : ℝ} (hl : 0 < l) (s : Gen.R.Thermo.ThermoP) (Tn TMax TMin : ℝ) :
    hydroOfThermo (scaleThermo l s) (l * Tn) (l * TMax) (l * TMin)
      = scaleHydro l (hydroOfThermo s Tn TMax TMin) :=
  hydroOfThermo_scale hl s Tn TMax TMin

/-- **T07.1b** `vpvmAndvpovm` (`v₊v₋`, `v₊/v₋`) is invariant (weight 0) whenever the regular branch
`e₊(T₊) ≠ e₋(T₋)` is taken; the ratio `v₊/v₋` is invariant unconditionally.
Hypotheses: `0 < l`; `s.eHighT Tp ≠ s.eLowT Tm` for the pair. -/
theorem vpvm_invariant {l : ℝ} (hl : 0 < l) (s : HydroP) (Tp Tm : ℝ) :
    (s.eHighT Tp ≠ s.eLowT Tm →
      vpvmAndvpovm (scaleHydro l s) (l * Tp) (l * Tm) = vpvmAndvpovm s Tp Tm) ∧
    (vpvmAndvpovm (scaleHydro l s) (l * Tp) (l * Tm)).2 = (vpvmAndvpovm s Tp Tm).2 :=
  ⟨vpvmAndvpovm_scale hl s Tp Tm, vpvmAndvpovm_snd_scale hl s Tp Tm⟩

/-- Non-vacuity: bag model `a₊ = 3, a₋ = 1, ε = 1/3` at `T₊ = T₋ = 1`: `e₊ = 10/3 ≠ 1 = e₋`, and
`(v₊v₋, v₊/v₋) = (1/7, 5/11)`. -/
example : (bag 3 1 (1 / 3)).eHighT 1 ≠ (bag 3 1 (1 / 3)).eLowT 1 ∧
    vpvmAndvpovm (bag 3 1 (1 / 3)) 1 1 = (1 / 7, 5 / 11) := by
  constructor
  · norm_num [bag]
  · norm_num [vpvmAndvpovm, bag]

/-- **T07.1b (FINDING: `1e50` fallback)** In the degenerate branch `e₊(T₊) = e₋(T₋)` the code returns
`v₊v₋ := (p₊ − p₋)·1e50`, which has weight **4**, not 0: the rescaled call returns `l⁴` times the
original value, and is therefore different from it as soon as `p₊ ≠ p₋` and `l ≠ 1`.
Hypotheses: `0 < l`, `e₊ = e₋`; for the inequality also `l ≠ 1`, `p₊ ≠ p₋`. -/
theorem vpvm_degenerate_not_invariant {l : ℝ} (hl : 0 < l) (s : HydroP) (Tp Tm : ℝ)
    (h : s.eHighT Tp = s.eLowT Tm) :
    (vpvmAndvpovm (scaleHydro l s) (l * Tp) (l * Tm)).1 = l ^ 4 * (vpvmAndvpovm s Tp Tm).1 ∧
    (l ≠ 1 → s.pHighT Tp ≠ s.pLowT Tm →
      (vpvmAndvpovm (scaleHydro l s) (l * Tp) (l * Tm)).1 ≠ (vpvmAndvpovm s Tp Tm).1) :=
  ⟨vpvmAndvpovm_fst_scale_degenerate hl s Tp Tm h,
    fun hl1 hp => vpvmAndvpovm_fst_not_invariant hl hl1 s Tp Tm h hp⟩

/-- Non-vacuity of the finding: bag model `a₊ = 1, a₋ = 2, ε = 1` at `T₊ = T₋ = 1` has
`e₊ = e₋ = 2` and `p₊ = −2/3 ≠ 2/3 = p₋`; doubling all scales multiplies the returned `v₊v₋` by 16. -/
example : (bag 1 2 1).eHighT 1 = (bag 1 2 1).eLowT 1 ∧ (bag 1 2 1).pHighT 1 ≠ (bag 1 2 1).pLowT 1 ∧
    (vpvmAndvpovm (scaleHydro 2 (bag 1 2 1)) (2 * 1) (2 * 1)).1
      ≠ (vpvmAndvpovm (bag 1 2 1) 1 1).1 := by
  have h1 : (bag 1 2 1).eHighT 1 = (bag 1 2 1).eLowT 1 := by norm_num [bag]
  have h2 : (bag 1 2 1).pHighT 1 ≠ (bag 1 2 1).pLowT 1 := by norm_num [bag]
  exact ⟨h1, h2, (vpvm_degenerate_not_invariant (by norm_num) _ 1 1 h1).2 (by norm_num) h2⟩

/-- **T07.1b** The solver variables of `matchDeflagOrHyb` are dimensionless: `_mappingT` of rescaled
temperatures is unchanged, `_inverseMappingT` returns temperatures × l, and the two residual functions
(`vp` prescribed / LTE) are invariant when the reference pair `Tpm0` is rescaled as well (regular
branch of `vpvmAndvpovm` at the point).  Hypotheses: `0 < l`; for the residuals
`e₊ ≠ e₋` at `_inverseMappingT s m`. -/
theorem matching_variables_dimensionless {l : ℝ} (hl : 0 < l) (s : HydroP) (m : ℝ × ℝ) (Tp Tm : ℝ) :
    mappingT (scaleHydro l s) (l * Tp, l * Tm) = mappingT s (Tp, Tm) ∧
    inverseMappingT (scaleHydro l s) m = l • inverseMappingT s m ∧
    (s.eHighT (inverseMappingT s m).1 ≠ s.eLowT (inverseMappingT s m).2 →
      ∀ vw vp (Tpm0 : ℝ × ℝ),
        matchingVp (scaleHydro l s) m vw vp (l * Tpm0.1, l * Tpm0.2) = matchingVp s m vw vp Tpm0 ∧
        matchingLTE (scaleHydro l s) m vw (l * Tpm0.1, l * Tpm0.2) = matchingLTE s m vw Tpm0) :=
  ⟨mappingT_scale hl s Tp Tm, inverseMappingT_scale_smul s m,
    fun h vw vp Tpm0 => ⟨matchingVp_scale hl s m vw vp Tpm0 h, matchingLTE_scale hl s m vw Tpm0 h⟩⟩

/-- Non-vacuity: for the bag model `(3, 1, 1/3)` the point `m = (0,0)` maps to `(T₊,T₋) = (1,1)`,
where `e₊ ≠ e₋`. -/
example : (bag 3 1 (1 / 3)).eHighT (inverseMappingT (bag 3 1 (1 / 3)) (0, 0)).1
    ≠ (bag 3 1 (1 / 3)).eLowT (inverseMappingT (bag 3 1 (1 / 3)) (0, 0)).2 := by
  rw [bag_inverseMappingT_zero]; norm_num [bag]

/-- **T07.1b** Detonation matching: the residual `tmFromvpsq` has weight 4 (`pHighT, eHighT` × l⁴,
`tm` × l); `matchDeton`'s result `(vp, vm, Tp, Tm)` has velocities invariant and temperatures × l
(regular branch).  Hypotheses: `0 < l`; `e₊ ≠ e₋` for `matchDetonPost`. -/
theorem detonation_weights {l : ℝ} (hl : 0 < l) (s : HydroP) (vp pH eH tm Tp Tm : ℝ) :
    tmFromvpsq (scaleHydro l s) vp (l ^ 4 * pH) (l ^ 4 * eH) (l * tm)
      = l ^ 4 * tmFromvpsq s vp pH eH tm ∧
    (s.eHighT Tp ≠ s.eLowT Tm →
      matchDetonPost (scaleHydro l s) vp (l * Tp) (l * Tm)
        = ((matchDetonPost s vp Tp Tm).1, (matchDetonPost s vp Tp Tm).2.1,
            l * (matchDetonPost s vp Tp Tm).2.2.1, l * (matchDetonPost s vp Tp Tm).2.2.2)) :=
  ⟨tmFromvpsq_scale hl s vp pH eH tm, matchDetonPost_scale hl s vp Tp Tm⟩

/-- **T07.1b** Deflagration/hybrid post-processing: `(vp, vm, Tp, Tm)` with velocities invariant and
temperatures × l, both with `vp` prescribed and in LTE.  Hypothesis: `0 < l`. -/
theorem deflagration_weights {l : ℝ} (hl : 0 < l) (s : HydroP) (vw vp Tp Tm : ℝ) :
    deflagPostVp (scaleHydro l s) vw vp (l * Tp) (l * Tm)
      = ((deflagPostVp s vw vp Tp Tm).1, (deflagPostVp s vw vp Tp Tm).2.1,
          l * (deflagPostVp s vw vp Tp Tm).2.2.1, l * (deflagPostVp s vw vp Tp Tm).2.2.2) ∧
    deflagPostLTE (scaleHydro l s) vw (l * Tp) (l * Tm)
      = ((deflagPostLTE s vw Tp Tm).1, (deflagPostLTE s vw Tp Tm).2.1,
          l * (deflagPostLTE s vw Tp Tm).2.2.1, l * (deflagPostLTE s vw Tp Tm).2.2.2) :=
  ⟨deflagPostVp_scale hl s vw vp Tp Tm, deflagPostLTE_scale hl s vw Tp Tm⟩

/-- **T07.1b** `findHydroBoundaries` returns `(c1, c2, Tp, Tm, velocityMid)` with weights
`(4, 4, 1, 1, 0)`.  Hypothesis: `0 < l`. -/
theorem hydroBoundaries_weights {l : ℝ} (hl : 0 < l) (s : HydroP) (vp vm Tp Tm : ℝ) :
    hydroBoundaries (scaleHydro l s) vp vm (l * Tp) (l * Tm)
      = (l ^ 4 * (hydroBoundaries s vp vm Tp Tm).1, l ^ 4 * (hydroBoundaries s vp vm Tp Tm).2.1,
          l * Tp, l * Tm, (hydroBoundaries s vp vm Tp Tm).2.2.2.2) :=
  hydroBoundaries_scale hl s vp vm Tp Tm

/-- Non-vacuity: bag `(3, 1, 1/3)`, `vp = 1/2`, `vm = 3/5`, `T = 1`: `(c1, c2, …, vmid)` =
`(−8/3, 2, 1, 1, −11/20)`, all non-zero. -/
example : hydroBoundaries (bag 3 1 (1 / 3)) (1 / 2) (3 / 5) 1 1 = (-(8 / 3), 2, 1, 1, -(11 / 20)) := by
  norm_num [hydroBoundaries, bag, Gen.R.Helpers.gammaSq]

/-- **T07.1b** Shock-wave integration: `shockDE` returns `(dξ/dv, dT/dv)` with weights `(0, 1)`;
the event function of `solveHydroShock` is invariant; the root function `TiiShock` has weight 4
(both temperatures × l).  Hypothesis: `0 < l`. -/
theorem shock_weights {l : ℝ} (hl : 0 < l) (s : HydroP) (v xi T : ℝ) (sw : Bool) (xiS vmS TmS tn : ℝ) :
    shockDE (scaleHydro l s) v (xi, l * T) sw
      = ((shockDE s v (xi, T) sw).1, l * (shockDE s v (xi, T) sw).2) ∧
    shockEvent (scaleHydro l s) v (xi, l * T) = shockEvent s v (xi, T) ∧
    TiiShock (scaleHydro l s) xiS vmS (l * TmS) (l * tn) = l ^ 4 * TiiShock s xiS vmS TmS tn :=
  ⟨shockDE_scale hl s v xi T sw, shockEvent_scale hl s v xi T, TiiShock_scale hl s xiS vmS TmS tn⟩

/-- **T07.1b** Jouguet velocity: the numerator `vpDerivNum` of `d(v₊²)/dT₋` has weight
`3 + 4 + 4 + 4 = 15` (one `T`-derivative of a weight-4 quantity times three weight-4 factors), so its
root is covariant; the resulting `v₊ = jouguetVp` is invariant.  Hypothesis: `0 < l`. -/
theorem jouguet_weights {l : ℝ} (hl : 0 < l) (s : HydroP) (pH eH tm : ℝ) :
    vpDerivNum (scaleHydro l s) (l ^ 4 * pH) (l ^ 4 * eH) (l * tm) = l ^ 15 * vpDerivNum s pH eH tm ∧
    jouguetVp (scaleHydro l s) (l ^ 4 * pH) (l ^ 4 * eH) (l * tm) = jouguetVp s pH eH tm :=
  ⟨vpDerivNum_scale hl s pH eH tm, jouguetVp_scale hl s pH eH tm⟩

/-- Non-vacuity: bag `(3,1,1/3)` with `(pH, eH) = (2/3, 10/3)` (its values at `T₊ = 1`) and
`tm = 1`: `vpDerivNum = −32/27 ≠ 0`. -/
example : vpDerivNum (bag 3 1 (1 / 3)) (2 / 3) (10 / 3) 1 = -(32 / 27) := by
  norm_num [vpDerivNum, bag]

end hydro

/-! ## T07.1 (c)  Template model -/
section template
open Gen.R.Template Gen.R.Hydro Lemmas.Template

/-- **T07.1c (`__init__`)** `HydrodynamicsTemplateModel.__init__` commutes with the rescaling: the state
built from `scaleHydro l s` is `scaleTempl l t` — i.e. `alN_set, psiN_set, nu_set, mu_set, cb2, cs2, cb,
cs, vJ` are invariant, `wN, pN, epsilon_set` have weight 4, `Tnucl` weight 1.
Hypotheses: `0 < l`, `IsTemplateOf t s`. -/
theorem template_init_covariant {l : ℝ} (hl : 0 < l) {t : TemplP} {s : HydroP}
    (h : IsTemplateOf t s) : IsTemplateOf (scaleTempl l t) (scaleHydro l s) :=
  isTemplateOf_scale hl h

/-- Non-vacuity: the concrete template state `t0` built from `q0.hydro`. -/
example : IsTemplateOf t0 q0.hydro := t0_isTemplate

/-- **T07.1c (`__init__`, formula level)** the individual assignments: `alN_set`, `psiN_set` invariant
when all their arguments (weight 4) are rescaled; `epsilon_set` has weight 4.  (`nu_set`, `mu_set` take
only the dimensionless `cb2`, `cs2`.)  Hypothesis: `0 < l`. -/
theorem template_init_formulas {l : ℝ} (hl : 0 < l) (eH eL pH pL wH wL cb2 wN mu nu alN : ℝ) :
    alN_set (l ^ 4 * eH) (l ^ 4 * eL) (l ^ 4 * pH) (l ^ 4 * pL) (l ^ 4 * wH) cb2
      = alN_set eH eL pH pL wH cb2 ∧
    psiN_set (l ^ 4 * wL) (l ^ 4 * wH) = psiN_set wL wH ∧
    epsilon_set (l ^ 4 * wN) mu nu alN = l ^ 4 * epsilon_set wN mu nu alN :=
  ⟨alN_set_scale hl eH eL pH pL wH cb2, psiN_set_scale hl wL wH, epsilon_set_scale wN mu nu alN⟩

/-- **T07.1c** Everything in the template model that does not touch `wN, pN, epsilon, Tnucl` is
literally unchanged by the rescaling: `findJouguetVelocity`, `getVp`, `wFromAlpha`, `_eqWall`, the
shooting map and `maxAl.matching`.  In particular the `1e-100` regulators of `wFromAlpha` act on
dimensionless quantities and do NOT break covariance.  No hypothesis (not even `l > 0`). -/
theorem template_dimensionless (l : ℝ) (s : TemplP) (alN vm al br vw vp : ℝ) :
    findJouguetVelocity (scaleTempl l s) alN = findJouguetVelocity s alN ∧
    getVp (scaleTempl l s) vm al br = getVp s vm al br ∧
    wFromAlpha (scaleTempl l s) al = wFromAlpha s al ∧
    eqWall (scaleTempl l s) al vm br = eqWall s al vm br ∧
    shootAlpha (scaleTempl l s) vw vp = shootAlpha s vw vp ∧
    maxAlMatching (scaleTempl l s) vm alN = maxAlMatching s vm alN :=
  ⟨rfl, rfl, rfl, rfl, rfl, rfl⟩

/-- **T07.1c** `_dxiAndWdv` does not depend on the dimensionful part of the state and is homogeneous of
degree one in the enthalpy variable (`dξ/dv` weight 0, `dw/dv` has the weight of `w`; the template works
in units `w(Tn) = 1`, i.e. `k = 1`).  The `1e50` returned for `v = 0` is a dimensionless `dξ/dv`.
No hypothesis. -/
theorem dxiAndWdv_weights (l k : ℝ) (s : TemplP) (v xi w : ℝ) (sw : Bool) :
    dxiAndWdv (scaleTempl l s) v (xi, k * w) sw
      = ((dxiAndWdv s v (xi, w) sw).1, k * (dxiAndWdv s v (xi, w) sw).2) :=
  dxiAndWdv_scale k s v xi w sw

/-- **T07.1c** Temperatures of the template model have weight 1: `_findTm` (with `Tp`, `Tnucl` × l),
`detonationVAndT` and the deflagration `(vp, vm, Tp, Tm)` (velocities invariant, temperatures × l).
Hypotheses: `0 < l`, `s.nu ≠ 0` (forced by the proof: for `nu = 0` the code computes `x^(1/0)`; with
Lean's conventions both sides are `1`, which is not covariant). -/
theorem template_temperatures {l : ℝ} (hl : 0 < l) (s : TemplP) (hnu : s.nu ≠ 0) (vm vp Tp vw : ℝ) :
    findTm (scaleTempl l s) vm vp (l * Tp) = l * findTm s vm vp Tp ∧
    detonationVAndT (scaleTempl l s) vw
      = ((detonationVAndT s vw).1, (detonationVAndT s vw).2.1,
          l * (detonationVAndT s vw).2.2.1, l * (detonationVAndT s vw).2.2.2) ∧
    deflagTpTm (scaleTempl l s) vm vp
      = ((deflagTpTm s vm vp).1, (deflagTpTm s vm vp).2.1,
          l * (deflagTpTm s vm vp).2.2.1, l * (deflagTpTm s vm vp).2.2.2) :=
  ⟨findTm_scale hl s hnu vm vp Tp, detonationVAndT_scale hl s hnu vw, deflagTpTm_scale hl s hnu vm vp⟩

/-- Non-vacuity: the concrete template state `t0` has `nu = 4 ≠ 0`. -/
example : t0.nu ≠ 0 := by rw [t0_nu]; norm_num

/-- **T07.1c** template `findHydroBoundaries`: `(c1, c2, Tp, Tm, velocityMid)` has weights
`(4, 4, 1, 1, 0)` when `wN, pN` × l⁴ and `Tp, Tm, Tnucl` × l.  Hypothesis: `0 < l`. -/
theorem tmplBoundaries_weights {l : ℝ} (hl : 0 < l) (s : TemplP) (vp vm Tp Tm : ℝ) :
    tmplBoundaries (scaleTempl l s) vp vm (l * Tp) (l * Tm)
      = (l ^ 4 * (tmplBoundaries s vp vm Tp Tm).1, l ^ 4 * (tmplBoundaries s vp vm Tp Tm).2.1,
          l * Tp, l * Tm, (tmplBoundaries s vp vm Tp Tm).2.2.2.2) :=
  tmplBoundaries_scale hl s vp vm Tp Tm

end template

/-! ## T07.1 (d)  Grids -/
section grids

/-- **T07.1d (simple grid)** With `positionFalloff ÷ l` and `momentumFalloffT × l`: `decompactify`
returns `(z/l, l·pz, l·pp)`, the Jacobians `(dz/dχ, dpz/dρz, dpp/dρp)` scale the same way, and
`compactify` of the rescaled physical coordinates returns the same compact coordinates.
Hypothesis: `0 < l` (only for `compactify`). -/
theorem grid_weights {l : ℝ} (hl : 0 < l) (s : Gen.R.Grid.GridP) (χ ρz ρp z pz pp : ℝ) :
    Gen.R.Grid.decompactify (scaleGrid l s) χ ρz ρp
      = ((Gen.R.Grid.decompactify s χ ρz ρp).1 / l, l * (Gen.R.Grid.decompactify s χ ρz ρp).2.1,
          l * (Gen.R.Grid.decompactify s χ ρz ρp).2.2) ∧
    Gen.R.Grid.compactificationDerivatives (scaleGrid l s) χ ρz ρp
      = ((Gen.R.Grid.compactificationDerivatives s χ ρz ρp).1 / l,
          l * (Gen.R.Grid.compactificationDerivatives s χ ρz ρp).2.1,
          l * (Gen.R.Grid.compactificationDerivatives s χ ρz ρp).2.2) ∧
    Gen.R.Grid.compactify (scaleGrid l s) (z / l) (l * pz) (l * pp) = Gen.R.Grid.compactify s z pz pp :=
  ⟨decompactify_scale s χ ρz ρp, compactificationDerivatives_scale s χ ρz ρp,
    compactify_scale hl s z pz pp⟩

/-- Non-vacuity: `positionFalloff = 2`, `χ = 3/5` gives `z = 2·(3/5)/(4/5) = 3/2`. -/
example : (Gen.R.Grid.decompactify ⟨2, 1⟩ (3 / 5) 0 0).1 = 3 / 2 := by
  have h : Real.sqrt (1 - (3 / 5 : ℝ) ^ 2) = 4 / 5 := by
    rw [show (1 - (3 / 5 : ℝ) ^ 2) = (4 / 5) ^ 2 by norm_num, Real.sqrt_sq (by norm_num)]
  simp only [Gen.R.Grid.decompactify, h]; norm_num

/-- **T07.1d (three-scale grid)** With tail lengths, wall thickness, wall centre ÷ l (and
`momentumFalloffT × l`; `aIn, aOut, ratioPointsWall, smoothing` dimensionless): positions and the
position Jacobian ÷ l, momenta and momentum Jacobians × l.  No hypothesis. -/
theorem grid3_weights (l : ℝ) (s : Gen.R.Grid3.Grid3P) (χ ρz ρp : ℝ) :
    Gen.R.Grid3.decompactify (scaleGrid3 l s) χ ρz ρp
      = ((Gen.R.Grid3.decompactify s χ ρz ρp).1 / l, l * (Gen.R.Grid3.decompactify s χ ρz ρp).2.1,
          l * (Gen.R.Grid3.decompactify s χ ρz ρp).2.2) ∧
    Gen.R.Grid3.compactificationDerivatives (scaleGrid3 l s) χ ρz ρp
      = ((Gen.R.Grid3.compactificationDerivatives s χ ρz ρp).1 / l,
          l * (Gen.R.Grid3.compactificationDerivatives s χ ρz ρp).2.1,
          l * (Gen.R.Grid3.compactificationDerivatives s χ ρz ρp).2.2) :=
  ⟨decompactify3_scale s χ ρz ρp, compactificationDerivatives3_scale s χ ρz ρp⟩

/-- **T07.1d (three-scale grid, `_updateParameters`)** the smoothing parameters `aIn`, `aOut` are
dimensionless: unchanged when all four lengths are divided by `l`.  Hypothesis: `0 < l`. -/
theorem grid3_parameters_invariant {l : ℝ} (hl : 0 < l) (tIn tOut L r sm c : ℝ) :
    Gen.R.Grid3.aIn_set (tIn / l) (tOut / l) (L / l) r sm (c / l) = Gen.R.Grid3.aIn_set tIn tOut L r sm c ∧
    Gen.R.Grid3.aOut_set (tIn / l) (tOut / l) (L / l) r sm (c / l)
      = Gen.R.Grid3.aOut_set tIn tOut L r sm c :=
  ⟨aIn_set_scale hl tIn tOut L r sm c, aOut_set_scale hl tIn tOut L r sm c⟩

/-- Non-vacuity: `tailIn = 13/4, L = 1, r = 1/2, smoothing = 1/4` gives `aIn = √(1/2)/|7/4| ≠ 0`
(radicand `4·¼·1·¼·(13/4 − 5/4) = 1/2 > 0`, denominator `13/4 − 3/2 = 7/4`). -/
example : Gen.R.Grid3.aIn_set (13 / 4) 5 1 (1 / 2) (1 / 4) 0 = Real.sqrt (1 / 2) / (7 / 4) := by
  unfold Gen.R.Grid3.aIn_set
  norm_num [abs_of_pos]

end grids

/-! ## T07.1 (e)  Boltzmann -/
section boltz
open Gen.R.Boltz

/-- **T07.1e (`getDeltas`)** With `msq × l²`, `pz, pp × l`, momentum Jacobians × l: the energy has
weight 1 and the common measure factor `dpz dpp pp/(4π²E)` weight 2, so the integration weights of
`Δ00` have weight 2 and those of `Δ02, Δ20, Δ11` weight 4.  (`feq`, `dfeq` take the dimensionless
`E/T`.)  Hypothesis: `0 < l`. -/
theorem deltas_weights {l : ℝ} (hl : 0 < l) (msq pz pp dxi dpz dpp E I : ℝ) :
    deltaIntegrand (l ^ 2 * msq) (l * pz) (l * pp) dxi (l * dpz) (l * dpp)
      = (l * (deltaIntegrand msq pz pp dxi dpz dpp).1, l ^ 2 * (deltaIntegrand msq pz pp dxi dpz dpp).2) ∧
    weightDelta00 (l * pz) (l * E) (l ^ 2 * I) = l ^ 2 * weightDelta00 pz E I ∧
    weightDelta02 (l * pz) (l * E) (l ^ 2 * I) = l ^ 4 * weightDelta02 pz E I ∧
    weightDelta20 (l * pz) (l * E) (l ^ 2 * I) = l ^ 4 * weightDelta20 pz E I ∧
    weightDelta11 (l * pz) (l * E) (l ^ 2 * I) = l ^ 4 * weightDelta11 pz E I :=
  ⟨deltaIntegrand_scale hl msq pz pp dxi dpz dpp, weightDelta00_scale pz E I, weightDelta02_scale pz E I,
    weightDelta20_scale pz E I, weightDelta11_scale pz E I⟩

/-- Non-vacuity: `msq = 0, pz = 3, pp = 4`: `E = 5`. -/
example : (deltaIntegrand 0 3 4 1 1 1).1 = 5 := by
  unfold deltaIntegrand
  rw [show ((0 : ℝ) + 3 ^ 2 + 4 ^ 2) = 5 ^ 2 by norm_num, Real.sqrt_sq (by norm_num)]

/-- **T07.1e (`buildLinearEquations`)** With `pz, E, T, dT/dχ × l`, `dm²/dχ × l²`, `dξ/dχ ÷ l`,
`dpz/dρz × l`, and `vw, v, dv/dχ` invariant: the source term has weight **2**
(`(1/T)·(dχ/dξ)·(momentum²)`: −1 + 1 + 2); `momentumWall` weight 1, `gammaWall` weight 0, `dχ/dξ`
weight 1, `dρz/dpz` weight −1.  Hypothesis: `0 < l`. -/
theorem sourceTerm_weights {l : ℝ} (hl : 0 < l) (vw pz E v T dv dT dM st dxi dpz dpp : ℝ) :
    sourceTerm vw (l * pz) (l * E) v (l * T) dv (l * dT) (l ^ 2 * dM) st (dxi / l) (l * dpz) (l * dpp)
      = (l ^ 2 * (sourceTerm vw pz E v T dv dT dM st dxi dpz dpp).1,
          l * (sourceTerm vw pz E v T dv dT dM st dxi dpz dpp).2.1,
          (sourceTerm vw pz E v T dv dT dM st dxi dpz dpp).2.2.1,
          l * (sourceTerm vw pz E v T dv dT dM st dxi dpz dpp).2.2.2.1,
          (sourceTerm vw pz E v T dv dT dM st dxi dpz dpp).2.2.2.2 / l) :=
  sourceTerm_scale hl vw pz E v T dv dT dM st dxi dpz dpp

end boltz

/-! ## T07.1 (f)  Equation-of-motion model -/
section eom
open Model.EOM Lemmas.EOM

/-- **T07.1f (`wallProfile`)** fields × l, `z` and widths ÷ l, offsets invariant ⇒ the tanh profile has
weight 1 and its `z`-derivative weight 2; also for the whole list of fields.
Hypotheses: `0 < l`; for the list version `hi`, `widths` as long as `lo`. -/
theorem wallProfile_weights {l : ℝ} (hl : 0 < l) (z lo hi L δ : ℝ) :
    fieldProfile Real.tanh (1 / 2) 1 (z / l) (l * lo) (l * hi) (L / l) δ
      = l * fieldProfile Real.tanh (1 / 2) 1 z lo hi L δ ∧
    fieldGradient Real.cosh (1 / 2) (z / l) (l * lo) (l * hi) (L / l) δ
      = l ^ 2 * fieldGradient Real.cosh (1 / 2) z lo hi L δ ∧
    ∀ los his ws os : List ℝ, his.length = los.length → ws.length = los.length →
      wallProfile Real.tanh Real.cosh (1 / 2) 1 (z / l) (los.map (l * ·)) (his.map (l * ·))
          (ws.map (· / l)) os
        = ((wallProfile Real.tanh Real.cosh (1 / 2) 1 z los his ws os).1.map (l * ·),
           (wallProfile Real.tanh Real.cosh (1 / 2) 1 z los his ws os).2.map (l ^ 2 * ·)) :=
  ⟨fieldProfile_scale hl z lo hi L δ, fieldGradient_scale hl z lo hi L δ,
    fun los his ws os h1 h2 => wallProfile_scale hl z los his ws os h1 h2⟩

/-- Non-vacuity: at `z = 0, δ = 0`, `lo = 0, hi = 2, L = 1/2`: `φ = 1`, `φ' = 2`; and the two-field
lists `[0,0], [2,3], [1/2,1]` have equal lengths. -/
example : fieldProfile Real.tanh (1 / 2) 1 0 0 2 (1 / 2) 0 = 1 ∧
    fieldGradient Real.cosh (1 / 2) 0 0 2 (1 / 2) 0 = 2 ∧
    ([2, 3] : List ℝ).length = ([0, 0] : List ℝ).length ∧
    ([1 / 2, 1] : List ℝ).length = ([0, 0] : List ℝ).length := by
  refine ⟨?_, ?_, rfl, rfl⟩
  · simp [fieldProfile]
  · simp [fieldGradient]

/-- **T07.1f** `plasmaVelocity` is invariant (enthalpy, `s1` × l⁴); `temperatureProfileEqLHS` has
weight 4 (`φ' × l²`; `V, w, s1, s2 × l⁴`); `deltaToTmunu` has weight 4 (`Δ00, m² × l²`;
`Δ02, Δ20, Δ11 × l⁴`).  Hypothesis: `0 < l` (not needed for `deltaToTmunu`). -/
theorem plasma_weights {l : ℝ} (hl : 0 < l) (w s1 veff s2 vmid : ℝ) (d : List ℝ)
    (ps : List (PDelta ℝ)) :
    plasmaVelocity Real.sqrt 2 4 (l ^ 4 * w) (l ^ 4 * s1) = plasmaVelocity Real.sqrt 2 4 w s1 ∧
    tempEqLHS Real.sqrt 0 (1 / 2) 4 (d.map (l ^ 2 * ·)) (l ^ 4 * veff) (l ^ 4 * w) (l ^ 4 * s1)
        (l ^ 4 * s2) = l ^ 4 * tempEqLHS Real.sqrt 0 (1 / 2) 4 d veff w s1 s2 ∧
    deltaToTmunu Real.sqrt 0 1 2 3 4 vmid (ps.map (scalePDelta l))
      = (l ^ 4 * (deltaToTmunu Real.sqrt 0 1 2 3 4 vmid ps).1,
         l ^ 4 * (deltaToTmunu Real.sqrt 0 1 2 3 4 vmid ps).2) :=
  ⟨plasmaVelocity_scale hl w s1, tempEqLHS_scale hl d veff w s1 s2, deltaToTmunu_scale vmid ps⟩

/-- Non-vacuity: `w = 3, s1 = 2` gives `v = 1/2`; doubling the scale (`w = 48, s1 = 32`) gives `1/2`
again (computed directly). -/
example : plasmaVelocity Real.sqrt 2 4 (3 : ℝ) 2 = 1 / 2 ∧
    plasmaVelocity Real.sqrt 2 4 (48 : ℝ) 32 = 1 / 2 := by
  constructor
  · unfold plasmaVelocity
    rw [show (4 * (2 * 2) + 3 * 3 : ℝ) = 5 ^ 2 by norm_num, Real.sqrt_sq (by norm_num)]; norm_num
  · unfold plasmaVelocity
    rw [show (4 * (32 * 32) + 48 * 48 : ℝ) = 80 ^ 2 by norm_num, Real.sqrt_sq (by norm_num)]; norm_num

/-- **T07.1f (`_updateGrid`)** wall widths and mean free path ÷ l ⇒ all four outputs (tail inside, tail
outside, wall thickness, wall centre) ÷ l; `log 2`, `1.05`, `smoothing`, `ratio`, offsets, `vmid`
dimensionless.  Hypothesis: `0 < l`. -/
theorem updateGrid_weights {l : ℝ} (hl : 0 < l) (log2 c105 : ℝ) (widths offsets : List ℝ)
    (vmid mfp : ℝ) (inc : Bool) (sm ratio : ℝ) :
    updateGrid Real.sqrt 1 2 (1 / 2) log2 c105 (widths.map (· / l)) offsets vmid (mfp / l) inc sm
        ratio 0
      = ((updateGrid Real.sqrt 1 2 (1 / 2) log2 c105 widths offsets vmid mfp inc sm ratio 0).1 / l,
         (updateGrid Real.sqrt 1 2 (1 / 2) log2 c105 widths offsets vmid mfp inc sm ratio 0).2.1 / l,
         (updateGrid Real.sqrt 1 2 (1 / 2) log2 c105 widths offsets vmid mfp inc sm ratio 0).2.2.1 / l,
         (updateGrid Real.sqrt 1 2 (1 / 2) log2 c105 widths offsets vmid mfp inc sm ratio 0).2.2.2 / l) :=
  updateGrid_scale hl log2 c105 widths offsets vmid mfp inc sm ratio

/-- **T07.1f (`action`)** the kinetic term `Σ (Δφ)²/(6L)` has weight 3 (fields × l, widths ÷ l).
No hypothesis. -/
theorem kinetic_weight (l : ℝ) (lo hi widths : List ℝ) :
    kinetic 0 6 (lo.map (l * ·)) (hi.map (l * ·)) (widths.map (· / l))
      = l ^ 3 * kinetic 0 6 lo hi widths :=
  kinetic_scale lo hi widths

/-- Non-vacuity: one field `0 → 3` with width `1/2`: `9/(6·½) = 3`. -/
example : kinetic (0 : ℝ) 6 [0] [3] [1 / 2] = 3 := by
  norm_num [kinetic, Model.EOM.sum]

end eom

/-! ## T07.2  Finite-difference stencils -/
section stencil
open Model.Deriv Lemmas.Stencil

/-- **T07.2** Stencil covariance.  For any `f`, any factor `k` and `f_l y := k·f(y/l)`: every stencil
satisfies `applyStencil f_l n (l x) (l h) = (k/lⁿ)·applyStencil f n x h`; the table row selected by
`derivative` (central or one-sided, `rowOf`) is unchanged when `x`, `dx` and the bounds are all
multiplied by `l`; hence `helpers.derivative` is covariant.  With `k = l^d` (`d ∈ ℤ` the weight of `f`)
the `n`-th derivative has weight `d − n`.  So finite-difference steps derived from user-supplied
variation scales (`dx = scale·ε^{1/(n+order)}`, `scale × l`) are covariant.  Hypothesis: `0 < l`. -/
theorem derivative_covariant {l : ℝ} (hl : 0 < l) (f : ℝ → ℝ) (n order : ℕ) (x dx : ℝ)
    (b : Bounds ℝ) :
    (∀ (pos coef : List ℚ) (k : ℝ),
      applyStencil cR pos coef (fun y => k * f (y / l)) n (l * x) (l * dx)
        = k / l ^ n * applyStencil cR pos coef f n x dx) ∧
    rowOf cR n order (l * x) (l * dx) (scaleBounds l b) = rowOf cR n order x dx b ∧
    (∀ k : ℝ, derivative cR (fun y => k * f (y / l)) n order (l * x) (l * dx) (scaleBounds l b)
        = k / l ^ n * derivative cR f n order x dx b) ∧
    (∀ d : ℤ, derivative cR (fun y => l ^ d * f (y / l)) n order (l * x) (l * dx) (scaleBounds l b)
        = l ^ (d - n) * derivative cR f n order x dx b) ∧
    (∀ scale eps e : ℝ, (l * scale) * eps ^ e = l * (scale * eps ^ e)) :=
  ⟨fun pos coef k => applyStencil_scale hl pos coef f k n x dx, rowOf_scale hl n order x dx b,
    fun k => derivative_scale hl f k n order x dx b,
    fun d => derivative_scale_zpow hl f d n order x dx b, fun scale eps e => step_scale scale eps e⟩

/-- Non-vacuity: the central two-point stencil applied to `y²` at `x = 1`, `h = 1/2` gives `2`. -/
example : applyStencil cR [-1, 1] [-1 / 2, 1 / 2] (fun y : ℝ => y ^ 2) 1 1 (1 / 2) = 2 := by
  norm_num [applyStencil, hpow, cR]

end stencil

/-! ## T07.3  Decision predicates with absolute constants -/
section predicates

/-- **T07.3(i) (FINDING)** `wallPressure`'s tolerance `errTol = max(rtol·|p|, atol)` has the weight 4
of the pressure **iff** the relative branch is active both before and after rescaling
(`atol ≤ rtol|p|` and `atol ≤ rtol|l⁴p|`).  Hypotheses: `0 < l`, `l⁴ ≠ 1`, `atol ≠ 0`. -/
theorem errTol_covariant_iff {l : ℝ} (hl : 0 < l) (hl1 : l ^ 4 ≠ 1) (rtol atol p : ℝ)
    (ha : atol ≠ 0) :
    max (rtol * |l ^ 4 * p|) atol = l ^ 4 * max (rtol * |p|) atol
      ↔ atol ≤ rtol * |p| ∧ atol ≤ rtol * |l ^ 4 * p| :=
  errTol_scale_iff hl hl1 rtol atol p ha

/-- Counterexample (and non-vacuity of the hypotheses): `l = 2`, `rtol = 1/10`, `atol = 1`, `p = 1`:
`max(16/10, 1) = 8/5` but `16·max(1/10, 1) = 16`. -/
theorem errTol_counterexample :
    (0 : ℝ) < 2 ∧ (2 : ℝ) ^ 4 ≠ 1 ∧ (1 : ℝ) ≠ 0 ∧
    max ((1 / 10 : ℝ) * |2 ^ 4 * 1|) 1 ≠ 2 ^ 4 * max ((1 / 10 : ℝ) * |1|) 1 := by
  refine ⟨by norm_num, by norm_num, by norm_num, ?_⟩
  rw [abs_of_pos (by norm_num : (0 : ℝ) < 2 ^ 4 * 1), abs_one,
    max_eq_left (by norm_num : (1 : ℝ) ≤ 1 / 10 * (2 ^ 4 * 1)),
    max_eq_right (by norm_num : (1 / 10 : ℝ) * 1 ≤ 1)]
  norm_num

/-- Positive instance: `l = 2`, `rtol = 1/10`, `atol = 1`, `p = 20`: relative branch active before
(`2 ≥ 1`) and after (`32 ≥ 1`). -/
example : (1 : ℝ) ≤ 1 / 10 * |20| ∧ (1 : ℝ) ≤ 1 / 10 * |2 ^ 4 * 20| := by
  rw [abs_of_pos (by norm_num : (0 : ℝ) < 20), abs_of_pos (by norm_num : (0 : ℝ) < 2 ^ 4 * 20)]
  constructor <;> norm_num

/-- **T07.3(ii) (FINDING)** The test `|Tn − T₊| < 1e-10` (equationOfMotion.py) uses an absolute
temperature: after rescaling it is equivalent to the test with threshold `1e-10 / l`, hence not
invariant — e.g. `Tn = 1`, `T₊ = 1 + 5·10⁻¹¹`, `l = 10`: true before, false after.
Hypothesis: `0 < l`. -/
theorem abs_threshold_not_invariant :
    (∀ {l : ℝ}, 0 < l → ∀ Tn Tp eps : ℝ, |l * Tn - l * Tp| < eps ↔ |Tn - Tp| < eps / l) ∧
    (|(1 : ℝ) - (1 + 5e-11)| < 1e-10 ∧ ¬ |(10 : ℝ) * 1 - 10 * (1 + 5e-11)| < 1e-10) := by
  refine ⟨fun hl Tn Tp eps => abs_sub_lt_scale hl Tn Tp eps, ?_, ?_⟩
  · rw [show (1 : ℝ) - (1 + 5e-11) = -5e-11 by ring, abs_neg, abs_of_pos (by norm_num)]; norm_num
  · rw [show (10 : ℝ) * 1 - 10 * (1 + 5e-11) = -(10 * 5e-11) by ring, abs_neg,
      abs_of_pos (by norm_num)]; norm_num

/-- **T07.3(iii)** Comparisons between two quantities of equal weight `k` — in particular the
dimensionless `vw < vBracketLow`, `vw > vJ`, … (`k = 0`) — are invariant.  Hypothesis: `0 < l`. -/
theorem same_weight_comparison_invariant {l : ℝ} (hl : 0 < l) (k : ℕ) (a b : ℝ) :
    l ^ k * a < l ^ k * b ↔ a < b :=
  lt_scale_iff hl k a b

end predicates

end Props.C07
