/-
C18 — InterpolatableFunction (interpolatableFunction.py).  Theorems about the executable state
model `Model.Interp` (tied to the real class by differential testing through Driver/InterpQ.lean).

Function VALUES are abstract in the model: every returned entry is a provenance `Tag`.  The
"agrees with the underlying function to interpolation accuracy" clause is therefore reduced to
(a) every entry is a direct call, a spline value inside the range of the table it was taken from,
or exactly the extrapolation the mode prescribes (`eval_tags`, `deriv_tags`), and
(b) that table always consists of ≥ 2 strictly increasing abscissae at which `f` was finite
(`invariant_run`, `invBad_run`) — the numerical accuracy of scipy's CubicSpline on such a table
is checked by the harness, not here.

The model uses exact rational arithmetic; in particular `np.arange` in
`extendInterpolationTable` is modelled with exactly `pointsMin`/`pointsMax` points (in floating
point it can yield one point more — see the report / known findings).
-/
import Mathlib.Tactic
import WallGoVerif.Model.Interp
import WallGoVerif.Lemmas.Interp

namespace Props.C18
open Model.Interp Lemmas.Interp

/-! ## T18.1  invariants under arbitrary op histories -/

/-- A freshly constructed object satisfies the structural invariant `Inv`:
(table present → ≥ 2 strictly increasing abscissae) ∧ (adaptive → count < threshold ∨ threshold = 0)
∧ count = len(pending). -/
theorem inv_init : Inv init := (invG_init False).1

/-- T18.1: every operation — including those that raise — preserves `Inv`.  Serves the clause
"whatever sequence of evaluations, table extensions, mode changes and adaptive updates preceded a
call, the table abscissae stay strictly increasing". -/
theorem invariant_step (s : State) (op : Op) (h : Inv s) : Inv (step s op).1 :=
  (step_invG (B := False) ⟨h, fun hf => hf.elim⟩ op (fun hf => hf.elim)).1

/-- T18.1 for whole histories, from any state satisfying `Inv`. -/
theorem invariant_run_from (s : State) (ops : List Op) (h : Inv s) : Inv (run s ops) := by
  induction ops generalizing s with
  | nil => exact h
  | cons op ops ih => exact ih (step s op).1 (invariant_step s op h)

/-- T18.1 for whole histories starting at construction. -/
theorem invariant_run (ops : List Op) : Inv (run init ops) := invariant_run_from init ops inv_init

example : Inv (run init [.table 0 4 5, .eval true [7], .extend (-1) 9 2 2]) := invariant_run _

/-- What `Inv` says about a table: strictly increasing, ≥ 2 points, `_rangeMin`/`_rangeMax`
(first/last element in the model) are the minimum / maximum abscissa (as `np.min`/`np.max` in the
code), and `_rangeMin < _rangeMax`. -/
theorem table_shape (s : State) (h : Inv s) (ht : s.hasTable = true) :
    s.pts.Pairwise (· < ·) ∧ 2 ≤ s.pts.length ∧ rangeMin s ∈ s.pts ∧ rangeMax s ∈ s.pts ∧
    (∀ x ∈ s.pts, rangeMin s ≤ x ∧ x ≤ rangeMax s) ∧ rangeMin s < rangeMax s := by
  obtain ⟨hinc, h2⟩ := h.table ht
  have hne : s.pts ≠ [] := by intro hc; rw [hc] at h2; simp at h2
  exact ⟨hinc, h2, head_mem hne, getLast_mem hne,
    fun x hx => ⟨rangeMin_le hinc hx, le_rangeMax hinc hx⟩, range_lt h ht⟩

example : Inv (run init [.table 0 4 5]) ∧ (run init [.table 0 4 5]).hasTable = true :=
  ⟨invariant_run _, by decide +kernel⟩

/-- T18.1 (non-finite points): no abscissa stored in the table or in the pending list is a point
where `f` is non-finite.  `bad` models the function, which the harness may replace (`setBad`); the
statement needs the explicit side condition `Respects`: a `setBad` must not declare an abscissa
non-finite that is ALREADY stored (for a fixed function, i.e. histories whose `setBad`s precede all
tables/evaluations, it is vacuous).  All other ops, failing or not, preserve it unconditionally. -/
theorem invBad_step (s : State) (op : Op) (h : Inv s) (hb : InvBad s) (hr : Respects s op) :
    InvBad (step s op).1 :=
  (step_invG (B := True) ⟨h, fun _ => hb⟩ op (fun _ => hr)).2 trivial

/-- `InvBad` along whole histories that respect the stored abscissae. -/
theorem invBad_run_from (s : State) (ops : List Op) (h : Inv s) (hb : InvBad s)
    (hr : RespectsAll s ops) : InvBad (run s ops) := by
  induction ops generalizing s with
  | nil => exact hb
  | cons op ops ih =>
    exact ih (step s op).1 (invariant_step s op h) (invBad_step s op h hb hr.1) hr.2

theorem invBad_run (ops : List Op) (hr : RespectsAll init ops) : InvBad (run init ops) :=
  invBad_run_from init ops inv_init ((invG_init True).2 trivial) hr

example : RespectsAll init [.setBad [3], .table 0 4 5, .eval true [7, 3], .extend (-1) 9 2 2] := by
  refine ⟨?_, trivial, trivial, trivial, trivial⟩
  intro x hx
  rcases hx with hx | hx <;> cases hx

/-- `newInterpolationTable`: if it succeeds the new abscissae are EXACTLY the linspace points minus
the non-finite ones (dropped individually, order kept); nothing else changes except the table
version.  If it raises, the object is unchanged. -/
theorem table_drops_individually (s : State) (a b : Rat) (n : Nat) :
    (step s (.table a b n) =
        ({ s with hasTable := true, pts := (linspace a b n).filter (fun x => decide (x ∉ s.bad)),
                  epoch := s.epoch + 1 }, .ok)) ∨
    (step s (.table a b n) = (s, .error .valueError)) := by
  show ofInterp s (interpolate s (keep s (linspace a b n))) = _ ∨
       ofInterp s (interpolate s (keep s (linspace a b n))) = _
  cases hi : interpolate s (keep s (linspace a b n)) with
  | none => exact Or.inr rfl
  | some s' => obtain ⟨rfl, -, -⟩ := interpolate_some hi; exact Or.inl rfl

/-- `newInterpolationTable` raises ValueError iff fewer than 2 finite points remain or they are not
strictly increasing (CubicSpline's own checks). -/
theorem table_ok_iff (s : State) (a b : Rat) (n : Nat) :
    (step s (.table a b n)).2 = .ok ↔
      2 ≤ ((linspace a b n).filter (fun x => decide (x ∉ s.bad))).length ∧
      ((linspace a b n).filter (fun x => decide (x ∉ s.bad))).Pairwise (· < ·) := by
  show (ofInterp s (interpolate s (keep s (linspace a b n)))).2 = .ok ↔ _
  constructor
  · intro h
    cases hi : interpolate s (keep s (linspace a b n)) with
    | none => rw [hi] at h; cases h
    | some s' => exact (interpolate_some hi).2
  · rintro ⟨h2, hinc⟩
    have : interpolate s (keep s (linspace a b n)) = _ := interpolate_of_inc s h2 hinc
    rw [this]; rfl

example : (step { init with bad := [1, 2] } (.table 0 4 5)).1.pts = [0, 3, 4] := by decide +kernel
example : (step { init with bad := [1, 2, 3, 4] } (.table 0 4 5)).2 = .error .valueError := by
  decide +kernel

/-- `newInterpolationTableFromValues(x, f(x))`: same statement for user-supplied abscissae. -/
theorem tablevals_drops_individually (s : State) (xs : List Rat) :
    (step s (.tablevals xs) =
        ({ s with hasTable := true, pts := xs.filter (fun x => decide (x ∉ s.bad)),
                  epoch := s.epoch + 1 }, .ok)) ∨
    (step s (.tablevals xs) = (s, .error .valueError)) := by
  show ofInterp s (interpolate s (keep s xs)) = _ ∨ ofInterp s (interpolate s (keep s xs)) = _
  cases hi : interpolate s (keep s xs) with
  | none => exact Or.inr rfl
  | some s' => obtain ⟨rfl, -, -⟩ := interpolate_some hi; exact Or.inl rfl

example : (step { init with bad := [2] } (.tablevals [0, 1, 2, 5])).1.pts = [0, 1, 5] := by
  decide +kernel

/-- `extendInterpolationTable` on an existing valid table NEVER raises (in exact arithmetic); the
new abscissae are the old ones plus the appended blocks minus their non-finite points (dropped
individually); the adaptive work variables are reset iff adaptive interpolation is on. -/
theorem extend_drops_individually (s : State) (h : Inv s) (ht : s.hasTable = true)
    (a b : Rat) (p q : Nat) :
    (step s (.extend a b p q)).2 = .ok ∧
    (step s (.extend a b p q)).1.pts =
      (belowBlock a (rangeMin s) p).filter (fun x => decide (x ∉ s.bad)) ++ s.pts ++
      (aboveBlock b (rangeMax s) q).filter (fun x => decide (x ∉ s.bad)) ∧
    (step s (.extend a b p q)).1.hasTable = true ∧
    (s.adaptive = true → (step s (.extend a b p q)).1.count = 0 ∧
                         (step s (.extend a b p q)).1.pending = []) := by
  obtain ⟨hinc, h2⟩ := h.table ht
  obtain ⟨hinc', h2'⟩ := extendKept_ok hinc h2 a b p q
  have hi := interpolate_of_inc s h2' hinc'
  have hstep : step s (.extend a b p q) =
      (if s.adaptive = true then
        { s with hasTable := true, pts := extendKept s a b p q, epoch := s.epoch + 1,
                 count := 0, pending := [] }
       else { s with hasTable := true, pts := extendKept s a b p q, epoch := s.epoch + 1 }, .ok) := by
    show (match extendTable s a b p q with
      | (s', some e) => (s', Out.error e)
      | (s', none) => (s', Out.ok)) = _
    unfold extendTable
    rw [if_neg (by simp [ht]), hi]
  rw [hstep]
  refine ⟨rfl, ?_, ?_, fun ha => ?_⟩
  · split_ifs <;> rfl
  · split_ifs <;> rfl
  · rw [if_pos ha]; exact ⟨rfl, rfl⟩

/-- under `InvBad`, "old abscissae ++ new blocks, then drop" equals "drop the non-finite points
from the whole candidate array" — the literal `_dropBadPoints(xRange, fxRange)` of the code. -/
theorem extend_pts_eq_filter_candidates (s : State) (h : Inv s) (hb : InvBad s)
    (ht : s.hasTable = true) (a b : Rat) (p q : Nat) :
    (step s (.extend a b p q)).1.pts =
      (extendCandidates s a b p q).filter (fun x => decide (x ∉ s.bad)) := by
  rw [(extend_drops_individually s h ht a b p q).2.1]
  unfold extendCandidates
  rw [List.filter_append, List.filter_append]
  congr 2
  symm
  rw [List.filter_eq_self]
  intro x hx
  simpa using hb x (Or.inl hx)

/-- the appended abscissae lie in `[newMin, rangeMin)` and `(rangeMax, newMax]` — the extension
never evaluates `f` outside the requested range (exact arithmetic!). -/
theorem extend_blocks_in_range (a r : Rat) (p : Nat) :
    (∀ y ∈ belowBlock a r p, a ≤ y ∧ y < r) ∧ (∀ y ∈ aboveBlock a r p, r < y ∧ y ≤ a) :=
  ⟨fun _ hy => ⟨le_belowBlock hy, belowBlock_lt hy⟩, fun _ hy => ⟨lt_aboveBlock hy, aboveBlock_le hy⟩⟩

example : (step (run init [.setBad [6], .table 0 4 5]) (.extend (-2) 8 2 4)).1.pts
    = [-2, -1, 0, 1, 2, 3, 4, 5, 7, 8] := by decide +kernel

/-! ## T18.2  what `evaluate` / `derivative` return -/

/-- Shape preservation: a successful `evaluate` returns exactly one entry per input entry
(scalar- and vector-valued alike; the model works on the flattened input). -/
theorem eval_shape (s s' : State) (u : Bool) (xs : List Rat) (ts : List Tag)
    (h : step s (.eval u xs) = (s', .tags ts)) : ts.length = xs.length := by
  have h' : (match (evalRun s u xs).err with
      | some e => ((evalRun s u xs).st, Out.error e)
      | none => ((evalRun s u xs).st, Out.tags (xs.map (evalRun s u xs).tag))) = (s', .tags ts) := h
  split at h'
  · injection h' with _ h2; cases h2
  · injection h' with _ h2; injection h2 with h2; rw [← h2, List.length_map]

/-- T18.2: element-by-element provenance of a successful `evaluate(x)` (interpolation on, table
present).  Entry `i` is
* the spline of the table current at call time iff `rangeMin ≤ x ≤ rangeMax`;
* for `x < rangeMin`, by the lower mode: NONE → direct call, CONSTANT → spline value at
  `rangeMin`, FUNCTION → spline extrapolated to `x`; ERROR is impossible (the call would have raised);
* for `x > rangeMax`, symmetrically by the upper mode, where the boundary value / extrapolating
  spline is that of table version `e1`.  `e1` is the version at call time unless the lower mode is
  NONE and adaptive interpolation is on: then scheduling the lower points may have triggered an
  adaptive update BEFORE the upper block ran, and the upper entries come from the NEW table
  (its new `rangeMax`), although they were classified with the old range — see `finding_midcall_update`. -/
theorem eval_tags (s s' : State) (h : Inv s) (ht : s.hasTable = true) (xs : List Rat)
    (ts : List Tag) (hstep : step s (.eval true xs) = (s', .tags ts)) :
    ts.length = xs.length ∧
    ∃ e1, s.epoch ≤ e1 ∧ e1 ≤ s'.epoch ∧ ((s.adaptive = false ∨ s.lo ≠ .none) → e1 = s.epoch) ∧
      ∀ (i : Nat) (hi : i < xs.length) (hi' : i < ts.length),
        (rangeMin s ≤ xs[i] ∧ xs[i] ≤ rangeMax s → ts[i] = .spline s.epoch xs[i]) ∧
        (xs[i] < rangeMin s →
          (s.lo = .none → ts[i] = .direct xs[i]) ∧ (s.lo = .constant → ts[i] = .constLo s.epoch) ∧
          (s.lo = .function → ts[i] = .extrap s.epoch xs[i]) ∧ s.lo ≠ .error) ∧
        (rangeMax s < xs[i] →
          (s.hi = .none → ts[i] = .direct xs[i]) ∧ (s.hi = .constant → ts[i] = .constHi e1) ∧
          (s.hi = .function → ts[i] = .extrap e1 xs[i]) ∧ s.hi ≠ .error) := by
  refine ⟨eval_shape s s' true xs ts hstep, ?_⟩
  have h' : (match (evalRun s true xs).err with
      | some e => ((evalRun s true xs).st, Out.error e)
      | none => ((evalRun s true xs).st, Out.tags (xs.map (evalRun s true xs).tag))) = (s', .tags ts) :=
    hstep
  split at h'
  · injection h' with _ h2; cases h2
  · next herr =>
    injection h' with hs' h2
    injection h2 with h2
    obtain ⟨e1, h1, h2', h3, hspec⟩ := evalRun_spec h ht xs herr
    refine ⟨e1, h1, hs' ▸ h2', h3, fun i hi hi' => ?_⟩
    have : ts[i] = (evalRun s true xs).tag xs[i] := by
      subst h2; simp
    rw [this]
    exact hspec xs[i] (List.getElem_mem hi)

example : step (run init [.table 0 4 5, .modes .constant .function]) (.eval true [-1, 2, 5])
    = (run init [.table 0 4 5, .modes .constant .function], .tags [.constLo 2, .spline 2 2, .extrap 2 5]) := by
  decide +kernel

/-- no returned entry is an unwritten `np.empty` slot. -/
theorem eval_no_uninit (s s' : State) (h : Inv s) (xs : List Rat) (u : Bool)
    (ts : List Tag) (hstep : step s (.eval u xs) = (s', .tags ts)) : Tag.uninit ∉ ts := by
  by_cases hc : u = false ∨ s.hasTable = false
  · have h' : (match (evalRun s u xs).err with
        | some e => ((evalRun s u xs).st, Out.error e)
        | none => ((evalRun s u xs).st, Out.tags (xs.map (evalRun s u xs).tag))) = (s', .tags ts) :=
      hstep
    split at h'
    · injection h' with _ h2; cases h2
    · injection h' with _ h2
      injection h2 with h2
      rw [← h2, evalRun_direct hc]
      intro hm
      obtain ⟨x, _, hx⟩ := List.mem_map.1 hm
      cases hx
  · have hu : u = true := by
      cases u with
      | false => exact absurd (Or.inl rfl) hc
      | true => rfl
    have ht : s.hasTable = true := by
      cases hh : s.hasTable with
      | false => exact absurd (Or.inr hh) hc
      | true => rfl
    subst hu
    obtain ⟨hlen, e1, -, -, -, hspec⟩ := eval_tags s s' h ht xs ts hstep
    intro hm
    obtain ⟨i, hi', hti⟩ := List.getElem_of_mem hm
    have hi : i < xs.length := hlen ▸ hi'
    obtain ⟨hin, hlo, hhi⟩ := hspec i hi hi'
    rcases lt_or_ge xs[i] (rangeMin s) with hl | hl
    · obtain ⟨a, b, c, d⟩ := hlo hl
      cases hm' : s.lo with
      | none => rw [a hm'] at hti; cases hti
      | constant => rw [b hm'] at hti; cases hti
      | function => rw [c hm'] at hti; cases hti
      | error => exact d hm'
    · rcases lt_or_ge (rangeMax s) xs[i] with hu' | hu'
      · obtain ⟨a, b, c, d⟩ := hhi hu'
        cases hm' : s.hi with
        | none => rw [a hm'] at hti; cases hti
        | constant => rw [b hm'] at hti; cases hti
        | function => rw [c hm'] at hti; cases hti
        | error => exact d hm'
      · rw [hin ⟨hl, hu'⟩] at hti; cases hti

example : step init (.eval true [1, 2]) = ({ init with count := 2, pending := [1, 2] }, .tags [.direct 1, .direct 2]) := by
  decide +kernel

/-- without a table, or with `bUseInterpolatedValues=False`, every entry is a direct call. -/
theorem eval_direct (s s' : State) (u : Bool) (hc : u = false ∨ s.hasTable = false) (xs : List Rat)
    (ts : List Tag) (hstep : step s (.eval u xs) = (s', .tags ts)) : ts = xs.map .direct := by
  have h' : (match (evalRun s u xs).err with
      | some e => ((evalRun s u xs).st, Out.error e)
      | none => ((evalRun s u xs).st, Out.tags (xs.map (evalRun s u xs).tag))) = (s', .tags ts) := hstep
  split at h'
  · injection h' with _ h2; cases h2
  · injection h' with _ h2
    injection h2 with h2
    rw [← h2, evalRun_direct hc]

example : step (run init [.table 0 4 5]) (.eval false [1]) =
    ({ run init [.table 0 4 5] with count := 1, pending := [1] }, .tags [.direct 1]) := by decide +kernel

/-- mode ERROR, lower side: an entry below the range makes the call raise ValueError before any side
effect.  (In particular both modes ERROR: any entry below fails.) -/
theorem eval_error_lower (s : State) (h : Inv s) (ht : s.hasTable = true) (xs : List Rat) (x : Rat)
    (hx : x ∈ xs) (hlt : x < rangeMin s) (hlo : s.lo = .error) :
    step s (.eval true xs) = (s, .error .valueError) := by
  obtain ⟨he, hst⟩ := evalRun_error_lo h ht hx hlt hlo
  show (match (evalRun s true xs).err with
      | some e => ((evalRun s true xs).st, Out.error e)
      | none => ((evalRun s true xs).st, Out.tags (xs.map (evalRun s true xs).tag))) = _
  rw [he, hst]

/-- mode ERROR, upper side: an entry above the range makes the call raise ValueError.  The object may
already have been modified by the lower block (scheduling, adaptive update) when the lower mode is
NONE; otherwise it is unchanged. -/
theorem eval_error_upper (s : State) (h : Inv s) (ht : s.hasTable = true) (xs : List Rat) (x : Rat)
    (hx : x ∈ xs) (hgt : rangeMax s < x) (hhi : s.hi = .error) :
    (step s (.eval true xs)).2 = .error .valueError ∧
    (s.lo ≠ .none ∨ s.adaptive = false → (step s (.eval true xs)).1 = s) := by
  have he := evalRun_error_hi h ht hx hgt hhi
  have hs : step s (.eval true xs) = ((evalRun s true xs).st, .error .valueError) := by
    show (match (evalRun s true xs).err with
      | some e => ((evalRun s true xs).st, Out.error e)
      | none => ((evalRun s true xs).st, Out.tags (xs.map (evalRun s true xs).tag))) = _
    rw [he]
  rw [hs]
  refine ⟨rfl, fun hc => ?_⟩
  show (evalRun s true xs).st = s
  rcases hc with hc | hc
  · -- lower block does nothing, upper block raises at once
    unfold evalRun
    rw [if_neg (by simp [ht])]
    split_ifs with h1 h2 h3
    · rfl
    · rfl
    · exact absurd h3.1 hc
    · split
      · exact sideLower_same (Or.inr hc) _
      · dsimp only
        rw [sideLower_same (Or.inr hc), sideUpper_same (Or.inr (by rw [hhi]; decide))]
  · exact evalRun_not_adaptive hc _ _

example : step (run init [.table 0 4 5, .modes .error .error]) (.eval true [1, 5])
    = (run init [.table 0 4 5, .modes .error .error], .error .valueError) := by decide +kernel

/- the documented order of side effects: lower side NONE schedules its points (here even
triggering an adaptive update that extends the table) BEFORE the upper side ERROR raises. -/
example : (step (run init [.new 1 true 1 10, .table 0 4 5, .modes .none .error]) (.eval true [-1, 5])).2
      = .error .valueError ∧
    (step (run init [.new 1 true 1 10, .table 0 4 5, .modes .none .error]) (.eval true [-1, 5])).1.pts
      = [-1, -1/2, 0, 1, 2, 3, 4] := by decide +kernel

/-- with adaptive interpolation off, `evaluate` is pure (no state change at all). -/
theorem eval_pure_of_not_adaptive (s : State) (ha : s.adaptive = false) (u : Bool) (xs : List Rat) :
    (step s (.eval u xs)).1 = s := by
  show (match (evalRun s u xs).err with
      | some e => ((evalRun s u xs).st, Out.error e)
      | none => ((evalRun s u xs).st, Out.tags (xs.map (evalRun s u xs).tag))).1 = s
  split <;> exact evalRun_not_adaptive ha u xs

/-- Shape preservation for `derivative`. -/
theorem deriv_shape (s s' : State) (h : Inv s) (ht : s.hasTable = true) (order : Nat)
    (ho : order = 1 ∨ order = 2) (xd : List (Rat × Rat)) (ds : List DTag)
    (hstep : step s (.deriv true order xd) = (s', .dtags ds)) : ds.length = xd.length := by
  obtain ⟨s1, -, -, -, -, -, hds⟩ := derivRun_spec h ht ho xd hstep
  rw [hds, List.length_map]

/-- T18.2 for `derivative(x, order)`, order 1 or 2, table present: entries inside the table range
are the order-th derivative spline of the table current at call time; every entry outside is the
finite-difference combination of the central 4- or 5-point stencil whose values were produced by
`evaluate` in a state `s1` (the state after the first of the two `evaluate(pos)` calls that
`helpers.derivative` makes; `s1 = s` if adaptive interpolation is off), hence each stencil value
obeys the rule of `eval_tags` relative to `s1` element by element. -/
theorem deriv_tags (s s' : State) (h : Inv s) (ht : s.hasTable = true) (order : Nat)
    (ho : order = 1 ∨ order = 2) (xd : List (Rat × Rat)) (ds : List DTag)
    (hstep : step s (.deriv true order xd) = (s', .dtags ds)) :
    ds.length = xd.length ∧
    ∃ s1 : State, Inv s1 ∧ s1.hasTable = true ∧ s1.lo = s.lo ∧ s1.hi = s.hi ∧
      (s.adaptive = false → s1 = s) ∧
      ∃ e1, s1.epoch ≤ e1 ∧ ((s1.adaptive = false ∨ s1.lo ≠ .none) → e1 = s1.epoch) ∧
      ∀ (i : Nat) (hi : i < xd.length) (hi' : i < ds.length),
        (rangeMin s ≤ xd[i].1 ∧ xd[i].1 ≤ rangeMax s → ds[i] = .splineDeriv s.epoch order xd[i].1) ∧
        (¬ (rangeMin s ≤ xd[i].1 ∧ xd[i].1 ≤ rangeMax s) →
          ∃ ts : List Tag, ds[i] = .fd ts ∧ ts.length = (stencil order).length ∧
            ∀ (j : Nat) (hj : j < ts.length) (hj' : j < (stencilPos order xd[i].1 xd[i].2).length),
              TagSpec s1 e1 ts[j] (stencilPos order xd[i].1 xd[i].2)[j]) := by
  refine ⟨deriv_shape s s' h ht order ho xd ds hstep, ?_⟩
  obtain ⟨s1, hev, hinv1, hna, hne, -, hds⟩ := derivRun_spec h ht ho xd hstep
  have ht1 : s1.hasTable = true := hev.hasTable ht
  refine ⟨s1, hinv1, ht1, hev.lo, hev.hi, hna, ?_⟩
  by_cases hout : derivOut s xd = []
  · -- nothing outside: second clause is vacuous
    refine ⟨s1.epoch, le_refl _, fun _ => rfl, fun i hi hi' => ?_⟩
    have hmem : xd[i] ∈ xd := List.getElem_mem hi
    have hins : insideE s xd[i] = true := by
      by_contra hc
      have : xd[i] ∈ derivOut s xd := by
        unfold derivOut; rw [List.mem_filter]; exact ⟨hmem, by simpa using hc⟩
      rw [hout] at this; cases this
    have hdi : ds[i] = .splineDeriv s.epoch order xd[i].1 := by
      subst hds; simp [hins]
    exact ⟨fun _ => hdi, fun hc => absurd (inside_iff.1 hins) hc⟩
  · obtain ⟨herr, -⟩ := hne hout
    obtain ⟨e1, he1, -, he3, hspec⟩ := evalRun_spec hinv1 ht1 _ herr
    refine ⟨e1, he1, he3, fun i hi hi' => ?_⟩
    have hmem : xd[i] ∈ xd := List.getElem_mem hi
    constructor
    · intro hin
      have hins : insideE s xd[i] = true := inside_iff.2 hin
      subst hds; simp [hins]
    · intro hnin
      have hins : ¬ insideE s xd[i] = true := fun hc => hnin (inside_iff.1 hc)
      have hmo : xd[i] ∈ derivOut s xd := by
        unfold derivOut; rw [List.mem_filter]; exact ⟨hmem, by simpa using hins⟩
      refine ⟨(stencilPos order xd[i].1 xd[i].2).map
        (evalRun s1 true (posArray order (derivOut s xd))).tag, ?_, ?_, fun j hj hj' => ?_⟩
      · subst hds; simp [hins]
      · rw [List.length_map]; unfold stencilPos; rw [List.length_map]
      · rw [List.getElem_map]
        exact hspec _ (mem_posArray hmo (List.getElem_mem hj'))

example : step (run init [.table 0 4 5, .modes .function .constant]) (.deriv true 1 [(1, 1/8), (-1/8, 1/8), (5, 1/4)])
    = (run init [.table 0 4 5, .modes .function .constant],
       .dtags [.splineDeriv 2 1 1,
               .fd [.extrap 2 (-3/8), .extrap 2 (-1/4), .spline 2 0, .spline 2 (1/8)],
               .fd [.constHi 2, .constHi 2, .constHi 2, .constHi 2]]) := by decide +kernel

/-- `derivative` without a table or with `bUseInterpolation=False` (order 1 or 2): all stencil values
are direct calls (and get scheduled — twice, because `helpers.derivative` calls `f(pos)` twice). -/
theorem deriv_direct_tags (s s' : State) (u : Bool) (hc : u = false ∨ s.hasTable = false) (order : Nat)
    (ho : order = 1 ∨ order = 2) (xd : List (Rat × Rat)) (ds : List DTag)
    (hstep : step s (.deriv u order xd) = (s', .dtags ds)) :
    ds = xd.map (fun e => .fd ((stencilPos order e.1 e.2).map .direct)) := by
  have h' : derivRun s u order xd = (s', .dtags ds) := hstep
  unfold derivRun at h'
  rw [if_pos (by rcases hc with hc | hc <;> simp [hc])] at h'
  exact derivDirect_spec ho xd h'

example : step { init with adaptive := false } (.deriv true 2 [(1, 1/4)]) =
    ({ init with adaptive := false }, .dtags [.fd [.direct (1/2), .direct (3/4), .direct 1, .direct (5/4), .direct (3/2)]]) := by
  decide +kernel

/-- "For scalar- and vector-valued functions alike": the declared number of return values `k` is
never read by any operation — the same op on the same object declared with another `k` produces the
same output (same provenance for every entry, same errors) and the same new state up to `k`. -/
theorem vector_valued_alike (k : Nat) (s : State) (op : Op) (hop : ∀ k' a t n, op ≠ .new k' a t n) :
    (step { s with k := k } op).2 = (step s op).2 ∧
    (step { s with k := k } op).1 = { (step s op).1 with k := k } := by
  have h : step { s with k := k } op = ({ (step s op).1 with k := k }, (step s op).2) :=
    step_setK k s op hop
  rw [h]
  exact ⟨rfl, rfl⟩

/-- … and hence along whole histories (without re-construction). -/
theorem vector_valued_alike_run (k : Nat) (s : State) (ops : List Op)
    (hops : ∀ op ∈ ops, ∀ k' a t n, op ≠ .new k' a t n) :
    runOut { s with k := k } ops = runOut s ops := by
  induction ops generalizing s with
  | nil => rfl
  | cons op ops ih =>
    have h := vector_valued_alike k s op (hops op (List.mem_cons_self))
    show (step { s with k := k } op).2 :: runOut (step { s with k := k } op).1 ops =
         (step s op).2 :: runOut (step s op).1 ops
    rw [h.1, h.2]
    exact congrArg _ (ih (step s op).1 (fun o ho => hops o (List.mem_cons_of_mem _ ho)))

example : runOut { init with k := 3 } [.table 0 4 5, .modes .constant .none, .eval true [-1, 2, 7]]
    = [.ok, .ok, .tags [.constLo 2, .spline 2 2, .direct 7]] := by decide +kernel

/-! ## T18.3  file round trip -/

/-- T18.3: writing the table to a file and reading it back (`_interpolate` on the stored abscissae
and their stored finite values) succeeds and changes nothing but the version counter of the
spline object: abscissae, range, modes, adaptive flags and work variables are all unchanged.
(Modulo the `%.15g` formatting of `writeInterpolationTable`, which the exact model ignores.) -/
theorem reread_id (s : State) (h : Inv s) (ht : s.hasTable = true) :
    step s .reread = ({ s with epoch := s.epoch + 1 }, .ok) := by
  obtain ⟨hinc, h2⟩ := h.table ht
  show (if s.hasTable = false then (s, Out.error Err.indexError)
        else ofInterp s (interpolate s s.pts)) = _
  rw [if_neg (by simp [ht]), interpolate_of_inc s h2 hinc]
  cases s
  simp only [ofInterp] at *
  subst ht
  rfl

/-- consequently range and abscissae survive the round trip. -/
theorem reread_range (s : State) (h : Inv s) (ht : s.hasTable = true) :
    (step s .reread).1.pts = s.pts ∧ rangeMin (step s .reread).1 = rangeMin s ∧
    rangeMax (step s .reread).1 = rangeMax s := by
  rw [reread_id s h ht]; exact ⟨rfl, rfl, rfl⟩

example : step (run init [.table 0 4 5]) .reread = ({ run init [.table 0 4 5] with epoch := 2 }, .ok) := by
  decide +kernel

/-- the same holds for `setExtrapolationType` on an existing table: only the modes change. -/
theorem modes_keeps_table (s : State) (h : Inv s) (ht : s.hasTable = true) (lo hi : Mode) :
    step s (.modes lo hi) = ({ s with lo := lo, hi := hi, epoch := s.epoch + 1 }, .ok) := by
  obtain ⟨hinc, h2⟩ := h.table ht
  show (if s.hasTable = true then
          ofInterp { s with lo := lo, hi := hi } (interpolate { s with lo := lo, hi := hi } s.pts)
        else ({ s with lo := lo, hi := hi }, Out.ok)) = _
  rw [if_pos ht, interpolate_of_inc { s with lo := lo, hi := hi } (xs := s.pts) h2 hinc]
  cases s
  simp only [ofInterp] at *
  subst ht
  rfl

example : step (run init [.table 0 4 5]) (.modes .error .function) =
    ({ run init [.table 0 4 5] with lo := .error, hi := .function, epoch := 2 }, .ok) := by decide +kernel

example : (step { run init [.table 0 4 5] with adaptive := false } (.eval true [-3, 9])).1
    = { run init [.table 0 4 5] with adaptive := false } := by decide +kernel

/-! ## Non-vacuity: one history through (almost) everything -/

/-- vector-valued (k = 2) adaptive object with threshold 3; `f` non-finite at 3.  The history
builds a table (3 is dropped individually), evaluates under four mode pairs, triggers an adaptive
update in the middle of an `evaluate` call, extends the table by hand, differentiates inside and
outside, round-trips through a file, and has two failing ops. -/
def history : List Op := [
  .new 2 true 3 10, .setBad [3], .table 0 4 5, .eval true [6, 1/2],
  .modes .none .constant, .eval true [-1, -2, 5, 1], .get,
  .extend (-4) 8 2 2, .modes .function .error, .eval true [-5, 0, 8], .eval true [9],
  .deriv true 1 [(1, 1/8), (-17/4, 1/8)], .setAdaptive false, .modes .constant .function,
  .deriv true 2 [(17/2, 1/4)], .reread, .tablevals [0, 1, 1], .eval false [1]]

theorem history_outputs : runOut init history = [
    .ok, .ok, .ok,
    .tags [.direct 6, .spline 1 (1/2)],
    .ok,
    .tags [.direct (-1), .direct (-2), .constHi 3, .spline 2 1],     -- adaptive update in mid-call
    .ok, .ok, .ok,
    .tags [.extrap 5 (-5), .spline 5 0, .spline 5 8],
    .error .valueError,                                              -- upper mode ERROR
    .dtags [.splineDeriv 5 1 1,
            .fd [.extrap 5 (-9/2), .extrap 5 (-35/8), .extrap 5 (-33/8), .spline 5 (-4)]],
    .ok, .ok,
    .dtags [.fd [.spline 6 8, .extrap 6 (33/4), .extrap 6 (17/2), .extrap 6 (35/4), .extrap 6 9]],
    .ok,
    .error .valueError,                                              -- duplicate abscissa
    .tags [.direct 1]] := by decide +kernel

theorem history_final : run init history =
    { k := 2, hasTable := true, pts := [-4, -3, -2, -1, 0, 1, 2, 4, 5, 6, 7, 8], lo := .constant,
      hi := .function, adaptive := false, pending := [], count := 0, threshold := 3,
      initialCount := 10, bad := [3], epoch := 7 } := by decide +kernel

/-- the table after the first six ops: 3 was dropped, and the adaptive update (triggered by the
lower-side points −1, −2 together with the earlier 6) appended −2, −1 below and 5, 6 above. -/
theorem history_midstate : (run init (history.take 6)).pts = [-2, -1, 0, 1, 2, 4, 5, 6] ∧
    (run init (history.take 6)).epoch = 3 := by decide +kernel

/-! ## Findings exhibited on the model (all reproduced on the real class) -/

/-- FINDING (mid-call adaptive update).  Lower mode NONE, upper mode CONSTANT, adaptive on: in ONE
`evaluate([-1, -2, 5])` call the lower block schedules −1, −2, the threshold is reached, the table is
rebuilt over [−2, 6] — and only then the upper block runs, with the mask computed from the OLD range
but `self._rangeMax`/spline of the NEW table.  The entry for x = 5 is the new spline's value at 6
although 5 now lies inside the table: neither the old boundary value (at 4), nor the interpolated
value at 5. -/
theorem finding_midcall_update :
    let s := run init [.new 1 true 3 10, .table 0 4 5, .eval true [6], .modes .none .constant]
    rangeMax s = 4 ∧
    (step s (.eval true [-1, -2, 5])).2 = .tags [.direct (-1), .direct (-2), .constHi 3] ∧
    s.epoch = 2 ∧ rangeMax (step s (.eval true [-1, -2, 5])).1 = 6 := by decide +kernel

/-- FINDING (order > 2).  The docstring promises "nth order derivative can be taken with order=n";
`derivative(x, order=3)` always raises AssertionError (`helpers.derivative` asserts n ∈ {0,1,2}). -/
theorem finding_order_gt_two (s : State) (u : Bool) (order : Nat) (h : 2 < order)
    (xd : List (Rat × Rat)) : step s (.deriv u order xd) = (s, .error .assertionError) := by
  show derivRun s u order xd = _
  unfold derivRun
  rw [if_pos (Or.inr (Or.inr h))]
  unfold derivDirect
  rw [if_pos h]

/-- FINDING (order = 0).  `derivative(x, order=0)` with a table returns, for entries inside the range,
`_interpolatedDerivatives[-1]` — the SECOND derivative spline — and the plain function value outside. -/
theorem finding_order_zero :
    (step (run init [.table 0 4 5]) (.deriv true 0 [(1, 1/8), (5, 1/8)])).2
      = .dtags [.splineDeriv 1 2 1, .fd [.direct 5]] := by decide +kernel

/-- FINDING (double evaluation).  `helpers.derivative` calls `f(pos)` twice (once for the shape, once
in the return expression): every direct derivative schedules its stencil points twice, so the
adaptive counter advances by 2·(number of stencil points) per call. -/
theorem finding_double_evaluation :
    (step { init with threshold := 100 } (.deriv true 1 [(1, 1/8)])).1.count = 8 ∧
    (step { init with threshold := 100 } (.deriv true 1 [(1, 1/8)])).1.pending
      = [3/4, 7/8, 9/8, 5/4, 3/4, 7/8, 9/8, 5/4] := by decide +kernel

/-- FINDING (an evaluation can raise from inside the adaptive update).  Without a table, adaptive on,
threshold reached by a single point: the update calls `newInterpolationTable(x, x, n)` whose abscissae
are all equal → CubicSpline ValueError escapes from a plain `evaluate` call. -/
theorem finding_eval_raises_in_update :
    step { init with threshold := 1 } (.eval true [1]) = ({ init with threshold := 1 }, .error .valueError) := by
  decide +kernel

/-- `readInterpolationTable` of a file written by an object WITHOUT a table raises IndexError (empty
file → 1-d array → `data.shape[1]`), it is not the advertised non-fatal IOError path. -/
theorem finding_reread_without_table (s : State) (h : s.hasTable = false) :
    step s .reread = (s, .error .indexError) := by
  show (if s.hasTable = false then (s, Out.error Err.indexError)
        else ofInterp s (interpolate s s.pts)) = _
  rw [if_pos h]

end Props.C18
