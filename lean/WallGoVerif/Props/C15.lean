/-
Property C15: "When the equation of state is itself of the template form, the general solver
(`Hydrodynamics`) and the closed-form template solver (`HydrodynamicsTemplateModel`) return the same Jouguet
velocity, minimal velocity, matching (v+, v−, T+, T−), boundary constants, LTE wall velocity and efficiency
factor."

Provable core: both solvers solve THE SAME EQUATIONS.  `q : TPar` are the parameters of a template EOS,
`q.hydro : HydroP` is that EOS as input of the general solver, and `t : TemplP` with
`IsTemplateOf t q.hydro` is the state `HydrodynamicsTemplateModel.__init__` computes from it.
The root finders / ODE integrators themselves are oracles and are not modelled here.

Only property theorems and non-vacuity examples; helpers are in `Lemmas/Template.lean`.
-/
import WallGoVerif.Lemmas.Template

namespace Props.C15

open Gen.R.Helpers Gen.R.Hydro Gen.R.Template Lemmas.Template

variable {q : TPar} {t : TemplP}

/-! ## T15.1  `__init__` and `findHydroBoundaries` -/

/-- T15.1a. On a template EOS, `__init__`'s `nu = 1 + 1/cb2` and `mu = 1 + 1/cs2` recover the exponents
`ν`, `μ` of the EOS. -/
theorem exponents_recovered (hq : q.WF) :
    nu_set (q.hydro.csqLowT q.hydro.Tnucl) = q.nu ∧ mu_set (q.hydro.csqHighT q.hydro.Tnucl) = q.mu :=
  ⟨nu_eq hq (isTemplateOf_templ q 0), mu_eq hq (isTemplateOf_templ q 0)⟩

example : ∃ q : TPar, q.WF := ⟨q0, q0_WF⟩

/-- T15.1b. All scalar fields computed by `__init__` in closed form; in particular `epsilon` is the vacuum
energy `ε` of the EOS and `alN = (μ−ν)/(3μ) + νε/(3 wN)`. -/
theorem init_fields (hq : q.WF) (ht : IsTemplateOf t q.hydro) :
    t.cb2 = 1 / (q.nu - 1) ∧ t.cs2 = 1 / (q.mu - 1) ∧ t.nu = q.nu ∧ t.mu = q.mu ∧ t.Tnucl = q.Tn ∧
    t.wN = q.hydro.wHighT q.Tn ∧ t.pN = q.hydro.pHighT q.Tn ∧
    t.alN = (q.mu - q.nu) / (3 * q.mu) + q.nu * q.eps / (3 * t.wN) ∧ t.epsilon = q.eps :=
  ⟨cb2_eq ht, cs2_eq ht, nu_eq hq ht, mu_eq hq ht, Tnucl_eq ht, ht.wN, ht.pN, alN_eq hq ht,
    epsilon_eq hq ht⟩

example : ∃ (q : TPar) (t : TemplP), q.WF ∧ IsTemplateOf t q.hydro := ⟨q0, t0, q0_WF, t0_isTemplate⟩

/-- T15.1c. The enthalpy and pressure that the template `findHydroBoundaries` reconstructs from
`wN, pN, (Tp/Tn)^μ` are the EOS values `w₊(Tp)`, `p₊(Tp)` used by the general `findHydroBoundaries`. -/
theorem template_eos_values (hq : q.WF) (ht : IsTemplateOf t q.hydro) {Tp : ℝ} (hTp : 0 ≤ Tp) :
    t.wN * WG.R.rpow (Tp / t.Tnucl) t.mu = q.hydro.wHighT Tp ∧
    t.pN + ((WG.R.rpow (Tp / t.Tnucl) t.mu - 1) * t.wN) / t.mu = q.hydro.pHighT Tp :=
  ⟨wH_scale hq ht hTp, pH_scale hq ht hTp⟩

/-- T15.1d. Given the same matching `(v₊, v₋, T₊, T₋)`, the template and the general
`findHydroBoundaries` return the same `(c1, c2, T₊, T₋, velocityMid)`. -/
theorem boundaries_agree (hq : q.WF) (ht : IsTemplateOf t q.hydro) (vp vm : ℝ) {Tp : ℝ} (hTp : 0 ≤ Tp)
    (Tm : ℝ) : tmplBoundaries t vp vm Tp Tm = hydroBoundaries q.hydro vp vm Tp Tm := by
  simp only [tmplBoundaries, hydroBoundaries]
  rw [wH_scale hq ht hTp, pH_scale hq ht hTp]
  unfold gammaSq
  refine Prod.ext ?_ (Prod.ext ?_ rfl)
  · simp only [pow_two, div_eq_mul_inv]; ring
  · simp only [pow_two, div_eq_mul_inv]; ring

example : ∃ (q : TPar) (t : TemplP) (Tp : ℝ), q.WF ∧ IsTemplateOf t q.hydro ∧ 0 ≤ Tp :=
  ⟨q0, t0, 1, q0_WF, t0_isTemplate, by norm_num⟩

/-! ## T15.2  `_findTm` is energy-flux conservation -/

/-- T15.2. `T₋ = _findTm(v₋, v₊, T₊)` satisfies the general solver's first junction condition
`w₊(T₊) γ₊² v₊ = w₋(T₋) γ₋² v₋` exactly. -/
theorem findTm_energy_flux (hq : q.WF) (ht : IsTemplateOf t q.hydro) {vp vm Tp : ℝ}
    (hvp : 0 < vp) (hvp1 : vp < 1) (hvm : 0 < vm) (hvm1 : vm < 1) (hTp : 0 ≤ Tp) :
    q.hydro.wHighT Tp * gammaSq vp * vp = q.hydro.wLowT (findTm t vm vp Tp) * gammaSq vm * vm :=
  findTm_energyFlux hq ht hvp hvp1 hvm hvm1 hTp

example : ∃ (q : TPar) (t : TemplP) (vp vm Tp : ℝ), q.WF ∧ IsTemplateOf t q.hydro ∧
    0 < vp ∧ vp < 1 ∧ 0 < vm ∧ vm < 1 ∧ 0 ≤ Tp :=
  ⟨q0, t0, 3 / 10, 1 / 2, 1, q0_WF, t0_isTemplate, by norm_num, by norm_num, by norm_num, by norm_num,
    by norm_num⟩

/-- T15.2'. The initial enthalpy `wm = γ₊²v₊ wp/(γ₋²v₋)` (units `w₊(Tn) = 1`) that the template
`efficiencyFactor` uses for the rarefaction wave is `w₋(T₋)/wN`, i.e. the general solver's start value
`wLowT(Tm)` in the same units. -/
theorem rarefaction_initial_enthalpy (hq : q.WF) (ht : IsTemplateOf t q.hydro) {vp vm Tp : ℝ}
    (hvp : 0 < vp) (hvp1 : vp < 1) (hvm : 0 < vm) (hvm1 : vm < 1) (hTp : 0 ≤ Tp) :
    gammaSq vp * vp * WG.R.rpow (Tp / t.Tnucl) t.mu / (gammaSq vm * vm)
      = q.hydro.wLowT (findTm t vm vp Tp) / t.wN := by
  have hw := (wN_pos hq ht).ne'
  have hg : gammaSq vm ≠ 0 := by
    have : 0 < 1 - vm * vm := by nlinarith
    unfold gammaSq; positivity
  have hvm0 := hvm.ne'
  have E := findTm_energyFlux hq ht hvp hvp1 hvm hvm1 hTp
  rw [← wH_scale hq ht hTp] at E
  field_simp
  linear_combination E

/-! ## T15.3  `getVp` and the second junction condition -/

/-- T15.3a. For either branch `b = ±1`, `getVp(v₋, α, b)` is a root of the quadratic
`v₋(1+3cb²α)·v₊² − (cb² + v₋²)·v₊ + cb² v₋ (1−3α) = 0`, provided the discriminant is non-negative (so that
the `max(0, ·)` clip is inactive) and the denominator does not vanish. -/
theorem getVp_root_of_quadratic {vm al b : ℝ} (hA : vm + 3 * t.cb2 * vm * al ≠ 0)
    (hd : 0 ≤ vpDisc t.cb2 vm al) (hb : b ^ 2 = 1) :
    vpQuad t.cb2 vm al (getVp t vm al b) = 0 :=
  getVp_root hA hd hb

example : ∃ (t : TemplP) (vm al b : ℝ), vm + 3 * t.cb2 * vm * al ≠ 0 ∧ 0 ≤ vpDisc t.cb2 vm al ∧
    b ^ 2 = 1 := by
  refine ⟨t0, 1 / 2, 1 / 30, -1, ?_, ?_, by norm_num⟩
  · rw [t0_cb2]; norm_num
  · rw [t0_cb2]; norm_num [vpDisc]

/-- T15.3b. That quadratic is the template matching relation (eq. 20a of arXiv:2303.10171)
`α₊ = (v₊/v₋ − 1)(v₊v₋/cb² − 1)/(3(1−v₊²))`, which is the formula `_shooting`/`findMatching` use for `α₊`. -/
theorem quadratic_iff_alpha_relation {cb2 vm al vp : ℝ} (hvm : vm ≠ 0) (hcb : cb2 ≠ 0)
    (hvp : 1 - vp ^ 2 ≠ 0) : vpQuad cb2 vm al vp = 0 ↔ al = alphaCode vp vm cb2 :=
  vpQuad_iff_alpha hvm hcb hvp

example : ∃ cb2 vm vp : ℝ, vm ≠ 0 ∧ cb2 ≠ 0 ∧ 1 - vp ^ 2 ≠ 0 :=
  ⟨1 / 3, 1 / 2, 3 / 10, by norm_num, by norm_num, by norm_num⟩

/-- T15.3c. On the template EOS and given energy-flux conservation, the general solver's second junction
condition (momentum-flux conservation `w₊γ₊²v₊² + p₊ = w₋γ₋²v₋² + p₋`) is *equivalent* to the template
matching relation with `α₊ = α(T₊)` (`α(T)` computed like `alN` in `__init__` but at `T`). -/
theorem alpha_relation_iff_momentum_flux (hq : q.WF) (ht : IsTemplateOf t q.hydro) {vp vm Tp Tm : ℝ}
    (hvp1 : 1 - vp ^ 2 ≠ 0) (hvm : vm ≠ 0) (hvm1 : 1 - vm ^ 2 ≠ 0) (hTp : 0 < Tp)
    (E : q.hydro.wHighT Tp * gammaSq vp * vp = q.hydro.wLowT Tm * gammaSq vm * vm) :
    (q.hydro.wHighT Tp * gammaSq vp * vp ^ 2 + q.hydro.pHighT Tp
      = q.hydro.wLowT Tm * gammaSq vm * vm ^ 2 + q.hydro.pLowT Tm)
      ↔ q.alphaAt Tp = alphaCode vp vm t.cb2 :=
  momentum_iff_alpha hq ht hvp1 hvm hvm1 hTp E

example : ∃ (q : TPar) (t : TemplP) (vp vm Tp Tm : ℝ), q.WF ∧ IsTemplateOf t q.hydro ∧
    1 - vp ^ 2 ≠ 0 ∧ vm ≠ 0 ∧ 1 - vm ^ 2 ≠ 0 ∧ 0 < Tp ∧
    q.hydro.wHighT Tp * gammaSq vp * vp = q.hydro.wLowT Tm * gammaSq vm * vm :=
  ⟨q0, t0, 3 / 10, 1 / 2, 1, findTm t0 (1 / 2) (3 / 10) 1, q0_WF, t0_isTemplate, by norm_num,
    by norm_num, by norm_num, by norm_num,
    findTm_energyFlux q0_WF t0_isTemplate (by norm_num) (by norm_num) (by norm_num) (by norm_num)
      (by norm_num)⟩

/-- T15.3d. Putting a–c and T15.2 together: if `α₊` is the EOS value `α(T₊)`, then
`v₊ = getVp(v₋, α₊, ±1)` and `T₋ = _findTm(v₋, v₊, T₊)` satisfy *both* junction conditions of the general
solver on the template EOS. -/
theorem getVp_findTm_junction (hq : q.WF) (ht : IsTemplateOf t q.hydro) {vm Tp b : ℝ}
    (hvm : 0 < vm) (hvm1 : vm < 1) (hTp : 0 < Tp) (hb : b ^ 2 = 1)
    (hA : vm + 3 * t.cb2 * vm * q.alphaAt Tp ≠ 0) (hd : 0 ≤ vpDisc t.cb2 vm (q.alphaAt Tp))
    (hvp : 0 < getVp t vm (q.alphaAt Tp) b) (hvp1 : getVp t vm (q.alphaAt Tp) b < 1) :
    let vp := getVp t vm (q.alphaAt Tp) b
    let Tm := findTm t vm vp Tp
    q.hydro.wHighT Tp * gammaSq vp * vp = q.hydro.wLowT Tm * gammaSq vm * vm ∧
    q.hydro.wHighT Tp * gammaSq vp * vp ^ 2 + q.hydro.pHighT Tp
      = q.hydro.wLowT Tm * gammaSq vm * vm ^ 2 + q.hydro.pLowT Tm := by
  intro vp Tm
  have E := findTm_energyFlux hq ht hvp hvp1 hvm hvm1 hTp.le
  have h1 : 1 - vp ^ 2 ≠ 0 := by
    have : vp ^ 2 < 1 := by
      have : vp * vp < 1 := by nlinarith
      nlinarith
    linarith
  have h2 : 1 - vm ^ 2 ≠ 0 := by nlinarith
  refine ⟨E, (momentum_iff_alpha hq ht h1 hvm.ne' h2 hTp E).mpr ?_⟩
  exact (vpQuad_iff_alpha hvm.ne' (cb2_pos hq ht).ne' h1).mp (getVp_root hA hd hb)

end Props.C15
