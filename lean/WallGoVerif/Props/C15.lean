/-
Property C15: "When the equation of state is itself of the template form, the general solver
(`Hydrodynamics`) and the closed-form template solver (`HydrodynamicsTemplateModel`) return the same Jouguet
velocity, minimal velocity, matching (v+, v−, T+, T−), boundary constants, LTE wall velocity and efficiency
factor."

Provable core: both solvers solve THE SAME EQUATIONS.  `q : TPar` are the parameters of a template EOS,
`q.hydro : HydroP` is that EOS as input of the general solver, and `t : TemplP` with
`IsTemplateOf t q.hydro` is the state `HydrodynamicsTemplateModel.__init__` computes from it.
The root finders / ODE integrators themselves are oracles and are not modelled here.

Only property theorems and non-vacuity examples; helpers are in `Lemmas/Template.lean`.
-/
import WallGoVerif.Lemmas.Template

namespace Props.C15

open Gen.R.Helpers Gen.R.Hydro Gen.R.Template Lemmas.Template

variable {q : TPar} {t : TemplP}

/-! ## T15.1  `__init__` and `findHydroBoundaries` -/

/-- T15.1a. On a template EOS, `__init__`'s `nu = 1 + 1/cb2` and `mu = 1 + 1/cs2` recover the exponents
`ν`, `μ` of the EOS. -/
theorem exponents_recovered (hq : q.WF) :
    nu_set (q.hydro.csqLowT q.hydro.Tnucl) = q.nu ∧ mu_set (q.hydro.csqHighT q.hydro.Tnucl) = q.mu :=
  ⟨nu_eq hq (isTemplateOf_templ q 0), mu_eq hq (isTemplateOf_templ q 0)⟩

example : ∃ q : TPar, q.WF := ⟨q0, q0_WF⟩

/-- T15.1b. All scalar fields computed by `__init__` in closed form; in particular `epsilon` is the vacuum
energy `ε` of the EOS and `alN = (μ−ν)/(3μ) + νε/(3 wN)`. -/
theorem init_fields (hq : q.WF) (ht : IsTemplateOf t q.hydro) :
    t.cb2 = 1 / (q.nu - 1) ∧ t.cs2 = 1 / (q.mu - 1) ∧ t.nu = q.nu ∧ t.mu = q.mu ∧ t.Tnucl = q.Tn ∧
    t.wN = q.hydro.wHighT q.Tn ∧ t.pN = q.hydro.pHighT q.Tn ∧
    t.alN = (q.mu - q.nu) / (3 * q.mu) + q.nu * q.eps / (3 * t.wN) ∧ t.epsilon = q.eps :=
  ⟨cb2_eq ht, cs2_eq ht, nu_eq hq ht, mu_eq hq ht, Tnucl_eq ht, ht.wN, ht.pN, alN_eq hq ht,
    epsilon_eq hq ht⟩

example : ∃ (q : TPar) (t : TemplP), q.WF ∧ IsTemplateOf t q.hydro := ⟨q0, t0, q0_WF, t0_isTemplate⟩

/-- T15.1c. The enthalpy and pressure that the template `findHydroBoundaries` reconstructs from
`wN, pN, (Tp/Tn)^μ` are the EOS values `w₊(Tp)`, `p₊(Tp)` used by the general `findHydroBoundaries`. -/
theorem template_eos_values (hq : q.WF) (ht : IsTemplateOf t q.hydro) {Tp : ℝ} (hTp : 0 ≤ Tp) :
    t.wN * WG.R.rpow (Tp / t.Tnucl) t.mu = q.hydro.wHighT Tp ∧
    t.pN + ((WG.R.rpow (Tp / t.Tnucl) t.mu - 1) * t.wN) / t.mu = q.hydro.pHighT Tp :=
  ⟨wH_scale hq ht hTp, pH_scale hq ht hTp⟩

example : ∃ (q : TPar) (t : TemplP) (Tp : ℝ), q.WF ∧ IsTemplateOf t q.hydro ∧ 0 ≤ Tp :=
  ⟨q0, t0, 2, q0_WF, t0_isTemplate, by norm_num⟩

/-- T15.1d. Given the same matching `(v₊, v₋, T₊, T₋)`, the template and the general
`findHydroBoundaries` return the same `(c1, c2, T₊, T₋, velocityMid)`. -/
theorem boundaries_agree (hq : q.WF) (ht : IsTemplateOf t q.hydro) (vp vm : ℝ) {Tp : ℝ} (hTp : 0 ≤ Tp)
    (Tm : ℝ) : tmplBoundaries t vp vm Tp Tm = hydroBoundaries q.hydro vp vm Tp Tm := by
  simp only [tmplBoundaries, hydroBoundaries]
  rw [wH_scale hq ht hTp, pH_scale hq ht hTp]
  unfold gammaSq
  refine Prod.ext ?_ (Prod.ext ?_ rfl)
  · simp only [pow_two, div_eq_mul_inv]; ring
  · simp only [pow_two, div_eq_mul_inv]; ring

example : ∃ (q : TPar) (t : TemplP) (Tp : ℝ), q.WF ∧ IsTemplateOf t q.hydro ∧ 0 ≤ Tp :=
  ⟨q0, t0, 1, q0_WF, t0_isTemplate, by norm_num⟩

/-! ## T15.2  `_findTm` is energy-flux conservation -/

/-- T15.2. `T₋ = _findTm(v₋, v₊, T₊)` satisfies the general solver's first junction condition
`w₊(T₊) γ₊² v₊ = w₋(T₋) γ₋² v₋` exactly. -/
theorem findTm_energy_flux (hq : q.WF) (ht : IsTemplateOf t q.hydro) {vp vm Tp : ℝ}
    (hvp : 0 < vp) (hvp1 : vp < 1) (hvm : 0 < vm) (hvm1 : vm < 1) (hTp : 0 ≤ Tp) :
    q.hydro.wHighT Tp * gammaSq vp * vp = q.hydro.wLowT (findTm t vm vp Tp) * gammaSq vm * vm :=
  findTm_energyFlux hq ht hvp hvp1 hvm hvm1 hTp

example : ∃ (q : TPar) (t : TemplP) (vp vm Tp : ℝ), q.WF ∧ IsTemplateOf t q.hydro ∧
    0 < vp ∧ vp < 1 ∧ 0 < vm ∧ vm < 1 ∧ 0 ≤ Tp :=
  ⟨q0, t0, 3 / 10, 1 / 2, 1, q0_WF, t0_isTemplate, by norm_num, by norm_num, by norm_num, by norm_num,
    by norm_num⟩

/-- T15.2'. The initial enthalpy `wm = γ₊²v₊ wp/(γ₋²v₋)` (units `w₊(Tn) = 1`) that the template
`efficiencyFactor` uses for the rarefaction wave is `w₋(T₋)/wN`, i.e. the general solver's start value
`wLowT(Tm)` in the same units. -/
theorem rarefaction_initial_enthalpy (hq : q.WF) (ht : IsTemplateOf t q.hydro) {vp vm Tp : ℝ}
    (hvp : 0 < vp) (hvp1 : vp < 1) (hvm : 0 < vm) (hvm1 : vm < 1) (hTp : 0 ≤ Tp) :
    gammaSq vp * vp * WG.R.rpow (Tp / t.Tnucl) t.mu / (gammaSq vm * vm)
      = q.hydro.wLowT (findTm t vm vp Tp) / t.wN := by
  have hw := (wN_pos hq ht).ne'
  have hg : gammaSq vm ≠ 0 := by
    have : 0 < 1 - vm * vm := by nlinarith
    unfold gammaSq; positivity
  have hvm0 := hvm.ne'
  have E := findTm_energyFlux hq ht hvp hvp1 hvm hvm1 hTp
  rw [← wH_scale hq ht hTp] at E
  field_simp
  linear_combination E

example : ∃ (q : TPar) (t : TemplP) (vp vm Tp : ℝ), q.WF ∧ IsTemplateOf t q.hydro ∧
    0 < vp ∧ vp < 1 ∧ 0 < vm ∧ vm < 1 ∧ 0 ≤ Tp :=
  ⟨q0, t0, 9 / 10, 7 / 10, 1, q0_WF, t0_isTemplate, by norm_num, by norm_num, by norm_num, by norm_num,
    by norm_num⟩

/-! ## T15.3  `getVp` and the second junction condition -/

/-- T15.3a. For either branch `b = ±1`, `getVp(v₋, α, b)` is a root of the quadratic
`v₋(1+3cb²α)·v₊² − (cb² + v₋²)·v₊ + cb² v₋ (1−3α) = 0`, provided the discriminant is non-negative (so that
the `max(0, ·)` clip is inactive) and the denominator does not vanish. -/
theorem getVp_root_of_quadratic {vm al b : ℝ} (hA : vm + 3 * t.cb2 * vm * al ≠ 0)
    (hd : 0 ≤ vpDisc t.cb2 vm al) (hb : b ^ 2 = 1) :
    vpQuad t.cb2 vm al (getVp t vm al b) = 0 :=
  getVp_root hA hd hb

example : ∃ (t : TemplP) (vm al b : ℝ), vm + 3 * t.cb2 * vm * al ≠ 0 ∧ 0 ≤ vpDisc t.cb2 vm al ∧
    b ^ 2 = 1 := by
  refine ⟨t0, 1 / 2, 1 / 30, -1, ?_, ?_, by norm_num⟩
  · rw [t0_cb2]; norm_num
  · rw [t0_cb2]; norm_num [vpDisc]

/-- T15.3b. That quadratic is the template matching relation (eq. 20a of arXiv:2303.10171)
`α₊ = (v₊/v₋ − 1)(v₊v₋/cb² − 1)/(3(1−v₊²))`, which is the formula `_shooting`/`findMatching` use for `α₊`. -/
theorem quadratic_iff_alpha_relation {cb2 vm al vp : ℝ} (hvm : vm ≠ 0) (hcb : cb2 ≠ 0)
    (hvp : 1 - vp ^ 2 ≠ 0) : vpQuad cb2 vm al vp = 0 ↔ al = alphaCode vp vm cb2 :=
  vpQuad_iff_alpha hvm hcb hvp

example : ∃ cb2 vm vp : ℝ, vm ≠ 0 ∧ cb2 ≠ 0 ∧ 1 - vp ^ 2 ≠ 0 :=
  ⟨1 / 3, 1 / 2, 3 / 10, by norm_num, by norm_num, by norm_num⟩

/-- T15.3c. On the template EOS and given energy-flux conservation, the general solver's second junction
condition (momentum-flux conservation `w₊γ₊²v₊² + p₊ = w₋γ₋²v₋² + p₋`) is *equivalent* to the template
matching relation with `α₊ = α(T₊)` (`α(T)` computed like `alN` in `__init__` but at `T`). -/
theorem alpha_relation_iff_momentum_flux (hq : q.WF) (ht : IsTemplateOf t q.hydro) {vp vm Tp Tm : ℝ}
    (hvp1 : 1 - vp ^ 2 ≠ 0) (hvm : vm ≠ 0) (hvm1 : 1 - vm ^ 2 ≠ 0) (hTp : 0 < Tp)
    (E : q.hydro.wHighT Tp * gammaSq vp * vp = q.hydro.wLowT Tm * gammaSq vm * vm) :
    (q.hydro.wHighT Tp * gammaSq vp * vp ^ 2 + q.hydro.pHighT Tp
      = q.hydro.wLowT Tm * gammaSq vm * vm ^ 2 + q.hydro.pLowT Tm)
      ↔ q.alphaAt Tp = alphaCode vp vm t.cb2 :=
  momentum_iff_alpha hq ht hvp1 hvm hvm1 hTp E

example : ∃ (q : TPar) (t : TemplP) (vp vm Tp Tm : ℝ), q.WF ∧ IsTemplateOf t q.hydro ∧
    1 - vp ^ 2 ≠ 0 ∧ vm ≠ 0 ∧ 1 - vm ^ 2 ≠ 0 ∧ 0 < Tp ∧
    q.hydro.wHighT Tp * gammaSq vp * vp = q.hydro.wLowT Tm * gammaSq vm * vm :=
  ⟨q0, t0, 3 / 10, 1 / 2, 1, findTm t0 (1 / 2) (3 / 10) 1, q0_WF, t0_isTemplate, by norm_num,
    by norm_num, by norm_num, by norm_num,
    findTm_energyFlux q0_WF t0_isTemplate (by norm_num) (by norm_num) (by norm_num) (by norm_num)
      (by norm_num)⟩

/-- T15.3d. Putting a–c and T15.2 together: if `α₊` is the EOS value `α(T₊)`, then
`v₊ = getVp(v₋, α₊, ±1)` and `T₋ = _findTm(v₋, v₊, T₊)` satisfy *both* junction conditions of the general
solver on the template EOS. -/
theorem getVp_findTm_junction (hq : q.WF) (ht : IsTemplateOf t q.hydro) {vm Tp b : ℝ}
    (hvm : 0 < vm) (hvm1 : vm < 1) (hTp : 0 < Tp) (hb : b ^ 2 = 1)
    (hA : vm + 3 * t.cb2 * vm * q.alphaAt Tp ≠ 0) (hd : 0 ≤ vpDisc t.cb2 vm (q.alphaAt Tp))
    (hvp : 0 < getVp t vm (q.alphaAt Tp) b) (hvp1 : getVp t vm (q.alphaAt Tp) b < 1) :
    let vp := getVp t vm (q.alphaAt Tp) b
    let Tm := findTm t vm vp Tp
    q.hydro.wHighT Tp * gammaSq vp * vp = q.hydro.wLowT Tm * gammaSq vm * vm ∧
    q.hydro.wHighT Tp * gammaSq vp * vp ^ 2 + q.hydro.pHighT Tp
      = q.hydro.wLowT Tm * gammaSq vm * vm ^ 2 + q.hydro.pLowT Tm := by
  intro vp Tm
  have E := findTm_energyFlux hq ht hvp hvp1 hvm hvm1 hTp.le
  have h1 : 1 - vp ^ 2 ≠ 0 := by
    have : vp ^ 2 < 1 := by
      have : vp * vp < 1 := by nlinarith
      nlinarith
    linarith
  have h2 : 1 - vm ^ 2 ≠ 0 := by nlinarith
  refine ⟨E, (momentum_iff_alpha hq ht h1 hvm.ne' h2 hTp E).mpr ?_⟩
  exact (vpQuad_iff_alpha hvm.ne' (cb2_pos hq ht).ne' h1).mp (getVp_root hA hd hb)


example : ∃ (q : TPar) (t : TemplP) (vm Tp b : ℝ), q.WF ∧ IsTemplateOf t q.hydro ∧ 0 < vm ∧ vm < 1 ∧
    0 < Tp ∧ b ^ 2 = 1 ∧ vm + 3 * t.cb2 * vm * q.alphaAt Tp ≠ 0 ∧ 0 ≤ vpDisc t.cb2 vm (q.alphaAt Tp) ∧
    0 < getVp t vm (q.alphaAt Tp) b ∧ getVp t vm (q.alphaAt Tp) b < 1 := by
  have hd : vpDisc t0.cb2 (1 / 2) (1 / 30) = 109 / 3600 := by rw [t0_cb2]; norm_num [vpDisc]
  have hd0 : 0 ≤ vpDisc t0.cb2 (1 / 2) (1 / 30) := by rw [hd]; norm_num
  have hs0 := Real.sqrt_nonneg (109 / 3600 : ℝ)
  have hs1 : Real.sqrt (109 / 3600 : ℝ) < 1 / 2 := by
    rw [Real.sqrt_lt' (by norm_num)]; norm_num
  have hv : getVp t0 (1 / 2) (1 / 30) (-1)
      = (1 / 2 : ℝ) * (1 / 3 + (1 / 2) ^ 2 + -1 * Real.sqrt (109 / 3600)) / (31 / 60) := by
    rw [getVp_eq hd0, hd, t0_cb2]; norm_num
  refine ⟨q0, t0, 1 / 2, 1, -1, q0_WF, t0_isTemplate, by norm_num, by norm_num, by norm_num,
    by norm_num, ?_, ?_, ?_, ?_⟩
  · rw [q0_alphaAt_one, t0_cb2]; norm_num
  · rw [q0_alphaAt_one]; exact hd0
  · rw [q0_alphaAt_one, hv]; apply div_pos _ (by norm_num); nlinarith
  · rw [q0_alphaAt_one, hv, div_lt_one (by norm_num)]; nlinarith

/-! ## T15.3'  `findMatching` (deflagration / hybrid branch): the closed forms satisfy the general junction
conditions up to the `1e-100` regulators of `wFromAlpha` (definition of `wFromAlpha` as of WallGo commit
108cf41: sign factor `-1 if N·D < 0 else 1`) -/

/-- T15.3'a. For the quadruple `(v₊, v₋, T₊, T₋)` returned by the template `findMatching` (deflagration /
hybrid branch, after the root `v₊` is known) energy-flux conservation of the general solver holds exactly. -/
theorem deflag_energy_flux (hq : q.WF) (ht : IsTemplateOf t q.hydro) {vp vm : ℝ}
    (hvp : 0 < vp) (hvp1 : vp < 1) (hvm : 0 < vm) (hvm1 : vm < 1)
    (hw : 0 ≤ wFromAlpha t (alphaCode vp vm t.cb2)) :
    let r := deflagTpTm t vm vp
    r.1 = vp ∧ r.2.1 = vm ∧
    q.hydro.wHighT r.2.2.1 * gammaSq vp * vp = q.hydro.wLowT r.2.2.2 * gammaSq vm * vm := by
  intro r
  refine ⟨rfl, rfl, ?_⟩
  have hT : 0 ≤ t.Tnucl * WG.R.rpow (wFromAlpha t (alphaCode vp vm t.cb2)) (1 / t.mu) := by
    rw [Tnucl_eq ht]; exact mul_nonneg hq.Tn_pos.le (Real.rpow_nonneg hw _)
  exact findTm_energyFlux hq ht hvp hvp1 hvm hvm1 hT

example : ∃ (q : TPar) (t : TemplP) (vp vm : ℝ), q.WF ∧ IsTemplateOf t q.hydro ∧ 0 < vp ∧ vp < 1 ∧
    0 < vm ∧ vm < 1 ∧ 0 ≤ wFromAlpha t (alphaCode vp vm t.cb2) := by
  refine ⟨q0, t0, 3 / 10, 1 / 2, q0_WF, t0_isTemplate, by norm_num, by norm_num, by norm_num,
    by norm_num, le_of_lt (wFromAlpha_pos ?_)⟩
  rw [t0_wNum, t0_wDen, t0_cb2]; norm_num [alphaCode]

/-- `wFromAlpha(α₊)` is positive **iff** `N·D ≥ 0`, where `N = (1−3αN)μ−ν`, `D = (1−3α₊)μ−ν` — including
the cases `N = 0` or `D = 0`, where the code before WallGo commit 108cf41 (`np.sign(N)·np.sign(D)`)
returned `0`. -/
theorem wFromAlpha_positive {al : ℝ} : 0 < wFromAlpha t al ↔ 0 ≤ wNum t * wDen t al :=
  wFromAlpha_pos_iff

example : ∃ (t : TemplP) (al : ℝ), 0 ≤ wNum t * wDen t al ∧ wDen t al = 0 :=
  ⟨t0, 0, by rw [t0_wNum, t0_wDen]; norm_num, by rw [t0_wDen]; norm_num⟩

/-- T15.3'b. Momentum-flux defect of the template `findMatching` quadruple in the general junction
condition, exactly: `−wN/(μν)·(D·w₊ − N)` where `w₊ = wFromAlpha(α₊)` is the *regularised* ratio and
`N/D` the exact one. (It vanishes iff `D·w₊ = N`.) -/
theorem deflag_momentum_defect (hq : q.WF) (ht : IsTemplateOf t q.hydro) {vp vm : ℝ}
    (hvp : 0 < vp) (hvp1 : vp < 1) (hvm : 0 < vm) (hvm1 : vm < 1)
    (hND : 0 ≤ wNum t * wDen t (alphaCode vp vm t.cb2)) :
    let r := deflagTpTm t vm vp
    (q.hydro.wHighT r.2.2.1 * gammaSq vp * vp ^ 2 + q.hydro.pHighT r.2.2.1)
      - (q.hydro.wLowT r.2.2.2 * gammaSq vm * vm ^ 2 + q.hydro.pLowT r.2.2.2)
      = - (t.wN / (q.mu * q.nu))
          * (wDen t (alphaCode vp vm t.cb2) * wFromAlpha t (alphaCode vp vm t.cb2) - wNum t) := by
  intro r
  have hwp := wFromAlpha_pos hND
  have E := (deflag_energy_flux hq ht hvp hvp1 hvm hvm1 hwp.le).2.2
  have h1 : 1 - vp ^ 2 ≠ 0 := by nlinarith
  have h2 : 1 - vm ^ 2 ≠ 0 := by nlinarith
  exact momentum_defect_TpOfW hq ht h1 hvm.ne' h2 hwp E

example : ∃ (q : TPar) (t : TemplP) (vp vm : ℝ), q.WF ∧ IsTemplateOf t q.hydro ∧ 0 < vp ∧ vp < 1 ∧
    0 < vm ∧ vm < 1 ∧ 0 ≤ wNum t * wDen t (alphaCode vp vm t.cb2) := by
  refine ⟨q0, t0, 3 / 10, 1 / 2, q0_WF, t0_isTemplate, by norm_num, by norm_num, by norm_num,
    by norm_num, ?_⟩
  rw [t0_wNum, t0_wDen, t0_cb2]; norm_num [alphaCode]

/-- T15.3'c. Size of that defect: at most `1e-100 · wN/(μν) · (1 + |N/D|)`. So the template closed forms
satisfy the general solver's second junction condition up to the `1e-100` regulators. -/
theorem deflag_momentum_defect_le (hq : q.WF) (ht : IsTemplateOf t q.hydro) {vp vm : ℝ}
    (hvp : 0 < vp) (hvp1 : vp < 1) (hvm : 0 < vm) (hvm1 : vm < 1)
    (hND : 0 ≤ wNum t * wDen t (alphaCode vp vm t.cb2))
    (hD : wDen t (alphaCode vp vm t.cb2) ≠ 0) :
    let r := deflagTpTm t vm vp
    |(q.hydro.wHighT r.2.2.1 * gammaSq vp * vp ^ 2 + q.hydro.pHighT r.2.2.1)
      - (q.hydro.wLowT r.2.2.2 * gammaSq vm * vm ^ 2 + q.hydro.pLowT r.2.2.2)|
      ≤ t.wN / (q.mu * q.nu) * ((1 / 10 ^ 100)
          * (1 + |wNum t / wDen t (alphaCode vp vm t.cb2)|)) := by
  intro r
  have h := deflag_momentum_defect hq ht hvp hvp1 hvm hvm1 hND
  simp only at h
  rw [h, abs_mul, abs_neg]
  have hpos : 0 < t.wN / (q.mu * q.nu) := by
    have := wN_pos hq ht; have := hq.mu_gt; have := hq.nu_gt
    positivity
  rw [abs_of_pos hpos, ← reg_eq]
  exact mul_le_mul_of_nonneg_left (wFromAlpha_defect_le hND hD) hpos.le

example : ∃ (q : TPar) (t : TemplP) (vp vm : ℝ), q.WF ∧ IsTemplateOf t q.hydro ∧ 0 < vp ∧ vp < 1 ∧
    0 < vm ∧ vm < 1 ∧ 0 ≤ wNum t * wDen t (alphaCode vp vm t.cb2) ∧
    wDen t (alphaCode vp vm t.cb2) ≠ 0 := by
  refine ⟨q0, t0, 3 / 10, 1 / 2, q0_WF, t0_isTemplate, by norm_num, by norm_num, by norm_num,
    by norm_num, ?_, ?_⟩
  · rw [t0_wNum, t0_wDen, t0_cb2]; norm_num [alphaCode]
  · rw [t0_wDen, t0_cb2]; norm_num [alphaCode]

/-- T15.3'd. Regulator-free variant: if `T₊ = Tn·w₊^{1/μ}` is built from an enthalpy ratio with
`D·w₊ = N` exactly (`w₊ = N/D > 0`), then `(v₊, v₋, T₊, _findTm(…))` satisfies *both* junction conditions of
the general solver exactly. -/
theorem junction_of_exact_ratio (hq : q.WF) (ht : IsTemplateOf t q.hydro) {vp vm wp : ℝ}
    (hvp : 0 < vp) (hvp1 : vp < 1) (hvm : 0 < vm) (hvm1 : vm < 1) (hwp : 0 < wp)
    (hr : wDen t (alphaCode vp vm t.cb2) * wp = wNum t) :
    let Tp := t.Tnucl * WG.R.rpow wp (1 / t.mu)
    let Tm := findTm t vm vp Tp
    q.hydro.wHighT Tp * gammaSq vp * vp = q.hydro.wLowT Tm * gammaSq vm * vm ∧
    q.hydro.wHighT Tp * gammaSq vp * vp ^ 2 + q.hydro.pHighT Tp
      = q.hydro.wLowT Tm * gammaSq vm * vm ^ 2 + q.hydro.pLowT Tm := by
  intro Tp Tm
  have hT := TpOfW_pos hq ht hwp
  have E := findTm_energyFlux hq ht hvp hvp1 hvm hvm1 hT.le
  have h1 : 1 - vp ^ 2 ≠ 0 := by nlinarith
  have h2 : 1 - vm ^ 2 ≠ 0 := by nlinarith
  refine ⟨E, ?_⟩
  have := momentum_defect_TpOfW hq ht h1 hvm.ne' h2 hwp E
  rw [hr, sub_self, mul_zero] at this
  exact sub_eq_zero.mp this


example : ∃ (q : TPar) (t : TemplP) (vp vm wp : ℝ), q.WF ∧ IsTemplateOf t q.hydro ∧ 0 < vp ∧ vp < 1 ∧
    0 < vm ∧ vm < 1 ∧ 0 < wp ∧ wDen t (alphaCode vp vm t.cb2) * wp = wNum t := by
  refine ⟨q0, t0, 3 / 10, 1 / 2, 91 / 220, q0_WF, t0_isTemplate, by norm_num, by norm_num, by norm_num,
    by norm_num, by norm_num, ?_⟩
  rw [t0_wNum, t0_wDen, t0_cb2]; norm_num [alphaCode]

/-- T15.3'e. `_shooting(vw, v₊)` uses the same `v₋ = min(cb, vw)`, the same `α₊` formula and the same
`w₊ = wFromAlpha(α₊)` as the final step of `findMatching`, whose `T₊` is `Tn·w₊^{1/μ}`. -/
theorem shooting_uses_same_alpha (vw vp : ℝ) :
    (shootAlpha t vw vp).1 = min t.cb vw ∧
    (shootAlpha t vw vp).2.1 = alphaCode vp (min t.cb vw) t.cb2 ∧
    (deflagTpTm t (min t.cb vw) vp).2.2.1
      = t.Tnucl * WG.R.rpow (shootAlpha t vw vp).2.2 (1 / t.mu) := by
  simp only [shootAlpha, deflagTpTm, WG.R.pmin_eq_min, alphaCode, and_self]

/-- T15.3'f. The upper bracket end `v₊ = vw` of `findMatching` for a bag-like template EOS (`μ = ν > 2`,
`ε ≠ 0`) and a wall with `vw ≤ cb`: there `α₊ = 0`, `D = 0`, `_shooting` takes the branch `vw == vp`
(`vpSW = vmSW = cs`) with `wmSW = w₊ = (|N| + 1e-100)/1e-100`, and its residual is **negative** — the sign of
the true limit `v₊ → vw⁻` — so the bracket `(0, vw)` can contain a sign change. (Before WallGo commit 108cf41
`np.sign(0) = 0` gave `w₊ = 0` and the positive residual `1 − 1/(μ−1)`; `findMatching` returned `None`.) -/
theorem shooting_bracket_end_negative (hq : q.WF) (ht : IsTemplateOf t q.hydro) (hmn : q.mu = q.nu)
    (hmu : 2 < q.mu) (heps : q.eps ≠ 0) {vw : ℝ} (hvw : 0 < vw) (hle : vw ≤ t.cb) :
    (shootAlpha t vw vw).1 = vw ∧ (shootAlpha t vw vw).2.1 = 0 ∧
    (shootAlpha t vw vw).2.2 = (|wNum t| + 1 / 10 ^ 100) / (1 / 10 ^ 100) ∧
    shootResidual t t.cs t.cs (shootAlpha t vw vw).2.2 < 0 := by
  have hmn' : t.mu = t.nu := by rw [mu_eq hq ht, nu_eq hq ht, hmn]
  have hcs : t.cs ≠ 0 := by rw [ht.cs]; exact (Real.sqrt_pos.mpr (cs2_pos hq ht)).ne'
  have hN : wNum t ≠ 0 := by
    intro h0
    have h := alN_N hq ht
    unfold wNum at h0
    rw [mu_eq hq ht, nu_eq hq ht] at h0
    rw [h0, zero_mul] at h
    have : q.mu * q.nu * q.eps ≠ 0 := by
      have := hq.mu_gt; have := hq.nu_gt
      positivity
    exact this (by linarith)
  have he := shootAlpha_endpoint_of_mu_eq_nu hmn' hvw.ne' hle
  refine ⟨by rw [he], by rw [he], by rw [he, reg_eq], ?_⟩
  exact shootResidual_endpoint_neg hmn' (by rw [mu_eq hq ht]; exact hmu) hcs hN hvw.ne' hle

example : ∃ (q : TPar) (t : TemplP) (vw : ℝ), q.WF ∧ IsTemplateOf t q.hydro ∧ q.mu = q.nu ∧ 2 < q.mu ∧
    q.eps ≠ 0 ∧ 0 < vw ∧ vw ≤ t.cb := by
  refine ⟨q0, t0, 1 / 2, q0_WF, t0_isTemplate, rfl, by norm_num [q0], by norm_num [q0], by norm_num, ?_⟩
  rw [t0_isTemplate.cb, t0_cb2]; apply Real.le_sqrt_of_sq_le; norm_num

/-! ## T15.4  Detonations -/

/-- T15.4a. `detonationVAndT(vw)` returns `v₊ = vw`, `T₊ = Tn`, `T₋ = _findTm(v₋, vw, Tn)` and a `v₋` that
is a root of `v₊ v₋² − part·v₋ + cb² v₊ = 0` (the larger one), provided `vw ≠ 0` and the square root is
real. -/
theorem detonation_vm_quadratic {vw : ℝ} (hvw : vw ≠ 0)
    (hd : 0 ≤ detPart t vw ^ 2 - 4 * t.cb2 * vw ^ 2) :
    let r := detonationVAndT t vw
    r.1 = vw ∧ r.2.2.1 = t.Tnucl ∧ r.2.2.2 = findTm t r.2.1 vw t.Tnucl ∧
    vw * r.2.1 ^ 2 - detPart t vw * r.2.1 + t.cb2 * vw = 0 :=
  ⟨rfl, rfl, rfl, detVm_root hvw hd⟩

example : ∃ (t : TemplP) (vw : ℝ), vw ≠ 0 ∧ 0 ≤ detPart t vw ^ 2 - 4 * t.cb2 * vw ^ 2 := by
  refine ⟨t0, 9 / 10, by norm_num, ?_⟩
  unfold detPart; rw [t0_cb2, t0_alN]; norm_num

/-- T15.4b. That quadratic is the template matching relation with `α₊ = αN` (plasma unperturbed in front
of a detonation). -/
theorem detonation_quadratic_iff_alpha {vp vm : ℝ} (hvm : vm ≠ 0) (hcb : t.cb2 ≠ 0)
    (hvp : 1 - vp ^ 2 ≠ 0) :
    vp * vm ^ 2 - detPart t vp * vm + t.cb2 * vp = 0 ↔ t.alN = alphaCode vp vm t.cb2 :=
  detQuad_iff_alpha hvm hcb hvp

example : ∃ (t : TemplP) (vp vm : ℝ), vm ≠ 0 ∧ t.cb2 ≠ 0 ∧ 1 - vp ^ 2 ≠ 0 :=
  ⟨t0, 9 / 10, 7 / 10, by norm_num, by rw [t0_cb2]; norm_num, by norm_num⟩

/-- T15.4c. For `vw ≥ vJ` (the condition under which `findMatching` calls `detonationVAndT`) the square
root is real and `cb ≤ v₋ < 1`. -/
theorem detonation_well_defined (hq : q.WF) (ht : IsTemplateOf t q.hydro) (hnu : 2 < q.nu)
    (hal : 0 ≤ t.alN) {vw : ℝ} (hJ : t.vJ ≤ vw) (hvw1 : vw < 1) :
    0 ≤ detPart t vw ^ 2 - 4 * t.cb2 * vw ^ 2 ∧
    t.cb ≤ (detonationVAndT t vw).2.1 ∧ (detonationVAndT t vw).2.1 < 1 :=
  let h := det_side_conditions hq ht hnu hal hJ hvw1
  ⟨h.2.1, h.2.2.1, h.2.2.2⟩

example : ∃ (q : TPar) (t : TemplP) (vw : ℝ), q.WF ∧ IsTemplateOf t q.hydro ∧ 2 < q.nu ∧ 0 < t.alN ∧
    t.vJ ≤ vw ∧ vw < 1 :=
  ⟨q0, t0, (t0.vJ + 1) / 2, q0_WF, t0_isTemplate, by norm_num [q0], by rw [t0_alN]; norm_num,
    by linarith [t0_vJ_lt_one], by linarith [t0_vJ_lt_one]⟩

/-- T15.4d. The template detonation `(vw, v₋, Tn, T₋)` satisfies both junction conditions of the general
solver on the template EOS, exactly. -/
theorem detonation_junction (hq : q.WF) (ht : IsTemplateOf t q.hydro) (hnu : 2 < q.nu)
    (hal : 0 ≤ t.alN) {vw : ℝ} (hJ : t.vJ ≤ vw) (hvw1 : vw < 1) :
    let r := detonationVAndT t vw
    q.hydro.wHighT r.2.2.1 * gammaSq r.1 * r.1 = q.hydro.wLowT r.2.2.2 * gammaSq r.2.1 * r.2.1 ∧
    q.hydro.wHighT r.2.2.1 * gammaSq r.1 * r.1 ^ 2 + q.hydro.pHighT r.2.2.1
      = q.hydro.wLowT r.2.2.2 * gammaSq r.2.1 * r.2.1 ^ 2 + q.hydro.pLowT r.2.2.2 := by
  obtain ⟨hvw0, hd, hge, hlt⟩ := det_side_conditions hq ht hnu hal hJ hvw1
  obtain ⟨hsq, hpos, -, h0, -, -⟩ := template_cb_facts hq ht hnu
  have hvm0 : 0 < detVm t vw := lt_of_lt_of_le hpos hge
  rw [detonationVAndT_eq]
  simp only
  rw [Tnucl_eq ht]
  have E := findTm_energyFlux hq ht hvw0 hvw1 hvm0 hlt hq.Tn_pos.le
  have h1 : 1 - vw ^ 2 ≠ 0 := by nlinarith
  have h2 : 1 - detVm t vw ^ 2 ≠ 0 := by nlinarith
  refine ⟨E, (momentum_iff_alpha hq ht h1 hvm0.ne' h2 hq.Tn_pos E).mpr ?_⟩
  rw [alphaAt_Tn ht]
  exact (detQuad_iff_alpha hvm0.ne' h0.ne' h1).mp (detVm_root hvw0.ne' hd)

example : ∃ (q : TPar) (t : TemplP) (vw : ℝ), q.WF ∧ IsTemplateOf t q.hydro ∧ 2 < q.nu ∧ 0 < t.alN ∧
    t.vJ ≤ vw ∧ vw < 1 :=
  ⟨q0, t0, (t0.vJ + 1) / 2, q0_WF, t0_isTemplate, by norm_num [q0], by rw [t0_alN]; norm_num,
    by linarith [t0_vJ_lt_one], by linarith [t0_vJ_lt_one]⟩

/-- T15.4e. Consequently the template detonation is a solution of the *general* `matchDeton`: its `T₋` is a
root of the residual `tmFromvpsq` that `matchDeton` solves, and the post-processing of `matchDeton`
(`v₋ = √(v₊v₋ / (v₊/v₋))`) returns exactly the template quadruple. Needs `αN > 0` (otherwise `v₋ = v₊`
and the general formula is `0/0`). -/
theorem detonation_is_general_solution (hq : q.WF) (ht : IsTemplateOf t q.hydro) (hnu : 2 < q.nu)
    (hal : 0 < t.alN) {vw : ℝ} (hJ : t.vJ ≤ vw) (hvw1 : vw < 1) :
    let r := detonationVAndT t vw
    tmFromvpsq q.hydro vw (q.hydro.pHighT q.hydro.Tnucl) (q.hydro.eHighT q.hydro.Tnucl) r.2.2.2 = 0 ∧
    matchDetonPost q.hydro vw q.hydro.Tnucl r.2.2.2 = r := by
  obtain ⟨hvw0, hd, hge, hlt⟩ := det_side_conditions hq ht hnu hal.le hJ hvw1
  obtain ⟨hsq, hpos, -, h0, -, -⟩ := template_cb_facts hq ht hnu
  have hvm0 : 0 < detVm t vw := lt_of_lt_of_le hpos hge
  have hj := detonation_junction hq ht hnu hal.le hJ hvw1
  rw [detonationVAndT_eq] at hj ⊢
  simp only at hj ⊢
  rw [Tnucl_eq ht] at hj ⊢
  obtain ⟨E, M⟩ := hj
  set Tm := findTm t (detVm t vw) vw q.Tn with hTm
  have h1 : 1 - vw ^ 2 ≠ 0 := by nlinarith
  have h2 : 1 - detVm t vw ^ 2 ≠ 0 := by nlinarith
  have hne : vw ≠ detVm t vw := detVm_ne hvw0.ne' h1 h0.ne' hal.ne' hd
  have hpm : 1 - vw * detVm t vw ≠ 0 := by nlinarith
  have hw := (wH_pos hq hq.Tn_pos).ne'
  have hV := vpvmAndvpovm_of_flux (s := q.hydro) (Tp := q.Tn) (Tm := Tm) rfl rfl hvw0.ne' hvm0.ne'
    h1 h2 hne hpm hw E M
  obtain ⟨f1, f2, f3, f4⟩ := flux_solved hvw0.ne' hvm0.ne' h1 h2 E M
  have hg : gammaSq vw ≠ 0 := by unfold gammaSq; rw [← pow_two]; exact one_div_ne_zero h1
  have hF : q.hydro.wHighT q.Tn * gammaSq vw * vw ≠ 0 := by positivity
  constructor
  · simp only [tmFromvpsq, hydro_Tnucl]
    have e1 : q.hydro.eHighT q.Tn = q.hydro.wHighT q.Tn - q.hydro.pHighT q.Tn := rfl
    rw [e1, f1, f2, f3, f4]
    have : vw - detVm t vw ≠ 0 := sub_ne_zero.mpr hne
    field_simp
    ring
  · simp only [matchDetonPost, hydro_Tnucl, hV]
    have : vw * detVm t vw / (vw / detVm t vw) = detVm t vw ^ 2 := by field_simp
    rw [this, Real.sqrt_sq hvm0.le, if_neg hvw1.ne]


example : ∃ (q : TPar) (t : TemplP) (vw : ℝ), q.WF ∧ IsTemplateOf t q.hydro ∧ 2 < q.nu ∧ 0 < t.alN ∧
    t.vJ ≤ vw ∧ vw < 1 :=
  ⟨q0, t0, (t0.vJ + 1) / 2, q0_WF, t0_isTemplate, by norm_num [q0], by rw [t0_alN]; norm_num,
    by linarith [t0_vJ_lt_one], by linarith [t0_vJ_lt_one]⟩

/-- T15.3e. Link to the form the general solver actually uses: for an EOS with `e = w − p`, a state that
conserves both fluxes has `vpvmAndvpovm = (v₊v₋, v₊/v₋)`, i.e. it solves `v₊v₋ = (p₊−p₋)/(e₊−e₋)` and
`v₊/v₋ = (e₋+p₊)/(e₊+p₋)` — the two equations `matchDeflagOrHyb`/`matchDeton` solve. -/
theorem general_vpvm_of_fluxes (hq : q.WF) {vp vm Tp Tm : ℝ}
    (hvp : 0 < vp) (hvp1 : vp < 1) (hvm : 0 < vm) (hvm1 : vm < 1) (hne : vp ≠ vm) (hTp : 0 < Tp)
    (E : q.hydro.wHighT Tp * gammaSq vp * vp = q.hydro.wLowT Tm * gammaSq vm * vm)
    (M : q.hydro.wHighT Tp * gammaSq vp * vp ^ 2 + q.hydro.pHighT Tp
          = q.hydro.wLowT Tm * gammaSq vm * vm ^ 2 + q.hydro.pLowT Tm) :
    vpvmAndvpovm q.hydro Tp Tm = (vp * vm, vp / vm) :=
  vpvmAndvpovm_of_flux (s := q.hydro) rfl rfl hvp.ne' hvm.ne' (by nlinarith) (by nlinarith) hne
    (by nlinarith) (wH_pos hq hTp).ne' E M

example : ∃ (q : TPar) (vp vm Tp Tm : ℝ), q.WF ∧ 0 < vp ∧ vp < 1 ∧ 0 < vm ∧ vm < 1 ∧ vp ≠ vm ∧ 0 < Tp ∧
    q.hydro.wHighT Tp * gammaSq vp * vp = q.hydro.wLowT Tm * gammaSq vm * vm ∧
    q.hydro.wHighT Tp * gammaSq vp * vp ^ 2 + q.hydro.pHighT Tp
          = q.hydro.wLowT Tm * gammaSq vm * vm ^ 2 + q.hydro.pLowT Tm := by
  -- the template detonation at `vw = (vJ + 1)/2`
  have h1 : t0.vJ ≤ (t0.vJ + 1) / 2 := by linarith [t0_vJ_lt_one]
  have h2 : (t0.vJ + 1) / 2 < 1 := by linarith [t0_vJ_lt_one]
  have hal : 0 < t0.alN := by rw [t0_alN]; norm_num
  have hnu : 2 < q0.nu := by norm_num [q0]
  obtain ⟨hvw0, hd, hge, hlt⟩ := det_side_conditions q0_WF t0_isTemplate hnu hal.le h1 h2
  obtain ⟨-, hpos, -, h0, -, -⟩ := template_cb_facts q0_WF t0_isTemplate hnu
  have hj := detonation_junction q0_WF t0_isTemplate hnu hal.le h1 h2
  rw [detonationVAndT_eq] at hj
  have hv1 : 1 - ((t0.vJ + 1) / 2) ^ 2 ≠ 0 := by nlinarith
  exact ⟨q0, (t0.vJ + 1) / 2, detVm t0 ((t0.vJ + 1) / 2), t0.Tnucl, _, q0_WF, hvw0, h2,
    lt_of_lt_of_le hpos hge, hlt, detVm_ne hvw0.ne' hv1 h0.ne' hal.ne' hd,
    by rw [t0_Tnucl]; norm_num, hj.1, hj.2⟩

/-! ## T15.5  Chapman–Jouguet -/

/-- T15.5a. At `vw = findJouguetVelocity(αN)` the discriminant `part² − 4 cb² v₊²` of the detonation branch
vanishes. Hypotheses: `cb² = cb2`, `1 + 3cb²αN ≠ 0`, real square root in `vJ`. -/
theorem jouguet_discriminant_zero (hcb : t.cb ^ 2 = t.cb2) (hK : 1 + 3 * t.cb2 * t.alN ≠ 0)
    (hrad : 0 ≤ jRad t) :
    detPart t (findJouguetVelocity t t.alN) ^ 2 - 4 * t.cb2 * findJouguetVelocity t t.alN ^ 2 = 0 :=
  detDisc_at_vJ hcb hK hrad

example : ∃ t : TemplP, t.cb ^ 2 = t.cb2 ∧ t.cb ≠ 0 ∧ 1 + 3 * t.cb2 * t.alN ≠ 0 ∧ 0 ≤ jRad t :=
  ⟨t0, t0_cb_sq, t0_cb_pos.ne', by rw [t0_cb2, t0_alN]; norm_num, by rw [t0_jRad]; norm_num⟩

/-- T15.5b. Chapman–Jouguet condition: at `vw = vJ` the template detonation has `v₋ = cb` (the sound
speed behind the wall). -/
theorem jouguet_vm_eq_cb (hcb : t.cb ^ 2 = t.cb2) (hcb0 : t.cb ≠ 0) (hK : 1 + 3 * t.cb2 * t.alN ≠ 0)
    (hrad : 0 ≤ jRad t) :
    (detonationVAndT t (findJouguetVelocity t t.alN)).2.1 = t.cb :=
  detVm_at_vJ hcb hcb0 hK hrad

example : ∃ t : TemplP, t.cb ^ 2 = t.cb2 ∧ t.cb ≠ 0 ∧ 1 + 3 * t.cb2 * t.alN ≠ 0 ∧ 0 ≤ jRad t :=
  ⟨t0, t0_cb_sq, t0_cb_pos.ne', by rw [t0_cb2, t0_alN]; norm_num, by rw [t0_jRad]; norm_num⟩

/-- T15.5c. On a template EOS with `0 < cb² < 1` (`ν > 2`) and `αN ≥ 0` those hypotheses hold, and
`cb ≤ vJ < 1`. -/
theorem jouguet_template (hq : q.WF) (ht : IsTemplateOf t q.hydro) (hnu : 2 < q.nu) (hal : 0 ≤ t.alN) :
    detPart t t.vJ ^ 2 - 4 * t.cb2 * t.vJ ^ 2 = 0 ∧ (detonationVAndT t t.vJ).2.1 = t.cb ∧
    t.cb ≤ t.vJ ∧ t.vJ < 1 := by
  obtain ⟨hsq, hpos, hlt, h0, h1, -⟩ := template_cb_facts hq ht hnu
  have hK : 0 < 1 + 3 * t.cb2 * t.alN := by positivity
  have hrad := jRad_nonneg h0.le h1.le hal
  rw [ht.vJ]
  exact ⟨detDisc_at_vJ hsq hK.ne' hrad, detVm_at_vJ hsq hpos.ne' hK.ne' hrad,
    vJ_ge_cb hpos.le h1.le h0.le hal, vJ_lt_one hsq hpos.le hlt hal⟩

example : ∃ (q : TPar) (t : TemplP), q.WF ∧ IsTemplateOf t q.hydro ∧ 2 < q.nu ∧ 0 < t.alN :=
  ⟨q0, t0, q0_WF, t0_isTemplate, by norm_num [q0], by rw [t0_alN]; norm_num⟩

/-- T15.5d. The template Jouguet point solves the *general* solver's Jouguet equations: with
`T₋ = _findTm(cb, vJ, Tn)` the numerator `vpDerivNum` of `d(v₊²)/dT₋` (whose root the general
`findJouguetVelocity` searches) vanishes, and the general formula `jouguetVp` for `v₊` at that `T₋`
returns the template `vJ`. -/
theorem jouguet_general_condition (hq : q.WF) (ht : IsTemplateOf t q.hydro) (hnu : 2 < q.nu)
    (hal : 0 < t.alN) :
    let Tm := findTm t t.cb t.vJ t.Tnucl
    vpDerivNum q.hydro (q.hydro.pHighT q.hydro.Tnucl) (q.hydro.eHighT q.hydro.Tnucl) Tm = 0 ∧
    jouguetVp q.hydro (q.hydro.pHighT q.hydro.Tnucl) (q.hydro.eHighT q.hydro.Tnucl) Tm = t.vJ := by
  obtain ⟨hsq, hpos, hlt, h0, h1, -⟩ := template_cb_facts hq ht hnu
  obtain ⟨-, hvm, hcJ, hJ1⟩ := jouguet_template hq ht hnu hal.le
  obtain ⟨hvw0, hd, -, -⟩ := det_side_conditions hq ht hnu hal.le le_rfl hJ1
  have hj := detonation_junction hq ht hnu hal.le le_rfl hJ1
  rw [detonationVAndT_eq] at hj hvm
  simp only at hj hvm
  rw [hvm, Tnucl_eq ht] at hj
  obtain ⟨E, M⟩ := hj
  intro Tm
  have hTm : Tm = findTm t t.cb t.vJ q.Tn := by rw [← Tnucl_eq ht]
  rw [← hTm] at E M
  have h1' : 1 - t.vJ ^ 2 ≠ 0 := by nlinarith
  have h2' : 1 - t.cb ^ 2 ≠ 0 := by nlinarith
  have hne : t.vJ ≠ t.cb := by
    have := detVm_ne hvw0.ne' h1' h0.ne' hal.ne' hd
    rwa [hvm] at this
  constructor
  · have e1 : q.hydro.eHighT q.hydro.Tnucl = q.hydro.wHighT q.Tn - q.hydro.pHighT q.Tn := rfl
    rw [e1, hydro_Tnucl, vpDerivNum_of_flux (s := q.hydro) rfl hvw0.ne' hpos.ne' h1' h2' E M]
    have : q.hydro.deLowT Tm * t.cb ^ 2 - q.hydro.dpLowT Tm = 0 := by
      have hn : q.nu - 1 ≠ 0 := by linarith
      rw [hsq, cb2_eq ht]; simp only [TPar.hydro]; field_simp; ring
    rw [this, mul_zero]
  · obtain ⟨f1, f2, f3, f4⟩ := flux_solved hvw0.ne' hpos.ne' h1' h2' E M
    have hg : gammaSq t.vJ ≠ 0 := by unfold gammaSq; rw [← pow_two]; exact one_div_ne_zero h1'
    have hw := (wH_pos hq hq.Tn_pos).ne'
    have hF : q.hydro.wHighT q.Tn * gammaSq t.vJ * t.vJ ≠ 0 := by positivity
    have hd' : t.cb - t.vJ ≠ 0 := sub_ne_zero.mpr (Ne.symm hne)
    have hpm : 1 - t.vJ * t.cb ≠ 0 := by nlinarith
    simp only [jouguetVp, hydro_Tnucl]
    have e1 : q.hydro.eHighT q.Tn = q.hydro.wHighT q.Tn - q.hydro.pHighT q.Tn := rfl
    have e2 : q.hydro.eLowT Tm = q.hydro.wLowT Tm - q.hydro.pLowT Tm := rfl
    rw [e1, e2, f1, f2, add_comm (q.hydro.pHighT q.Tn), f3, f4]
    have : (q.hydro.wHighT q.Tn * gammaSq t.vJ * t.vJ * (t.cb - t.vJ)
          * (q.hydro.wHighT q.Tn * gammaSq t.vJ * t.vJ * (1 - t.vJ * t.cb) / t.cb))
          / (q.hydro.wHighT q.Tn * gammaSq t.vJ * t.vJ * (t.cb - t.vJ) / (t.vJ * t.cb))
          / (q.hydro.wHighT q.Tn * gammaSq t.vJ * t.vJ * (1 - t.vJ * t.cb) / t.vJ) = t.vJ ^ 2 := by
      generalize q.hydro.wHighT q.Tn * gammaSq t.vJ * t.vJ = F at hF
      have := hpos.ne'; have := hvw0.ne'
      have hpm' : 1 - t.cb * t.vJ ≠ 0 := by rw [mul_comm]; exact hpm
      field_simp
    rw [this, Real.sqrt_sq hvw0.le]

example : ∃ (q : TPar) (t : TemplP), q.WF ∧ IsTemplateOf t q.hydro ∧ 2 < q.nu ∧ 0 < t.alN :=
  ⟨q0, t0, q0_WF, t0_isTemplate, by norm_num [q0], by rw [t0_alN]; norm_num⟩

/-! ## T15.6  The fluid equations agree -/

/-- T15.6a. The `dξ/dv` equation integrated by the template solver (`_dxiAndWdv`) is literally the `dξ/dv`
equation of the general solver (`shockDE`), in the shock wave (`true`, `cs²`) and in the rarefaction wave
(`false`, `cb²`), for `v ≠ 0`. (At `v = 0` the template returns `1e50`, the general formula divides by
zero.) -/
theorem xi_equation_agrees (ht : IsTemplateOf t q.hydro) {v : ℝ} (hv : v ≠ 0)
    (xi w T : ℝ) (b : Bool) :
    (dxiAndWdv t v (xi, w) b).1 = (shockDE q.hydro v (xi, T) b).1 :=
  dxiAndWdv_fst_eq hv b (cs2_eq ht) (cb2_eq ht)

example : ∃ (q : TPar) (t : TemplP) (v : ℝ), IsTemplateOf t q.hydro ∧ v ≠ 0 :=
  ⟨q0, t0, 1 / 10, t0_isTemplate, by norm_num⟩

/-- T15.6b. The template's enthalpy equation is the general solver's temperature equation times
`dw/dT = μ w/T` (shock wave; `ν w/T` in the rarefaction wave). -/
theorem enthalpy_equation_agrees (hq : q.WF) (ht : IsTemplateOf t q.hydro) (v xi w : ℝ) {T : ℝ}
    (hT : T ≠ 0) :
    (dxiAndWdv t v (xi, w) true).2 = q.mu * w / T * (shockDE q.hydro v (xi, T) true).2 ∧
    (dxiAndWdv t v (xi, w) false).2 = q.nu * w / T * (shockDE q.hydro v (xi, T) false).2 := by
  have hm : q.mu - 1 ≠ 0 := by linarith [hq.mu_gt]
  have hn : q.nu - 1 ≠ 0 := by linarith [hq.nu_gt]
  constructor
  · rw [dxiAndWdv_snd_eq (s := q.hydro) hT true (cs2_eq ht) (cb2_eq ht)]
    have : (1 + 1 / (if true = true then q.hydro.csqHighT T else q.hydro.csqLowT T)) = q.mu := by
      simp only [TPar.hydro, if_true]; field_simp; ring
    rw [this]
  · rw [dxiAndWdv_snd_eq (s := q.hydro) hT false (cs2_eq ht) (cb2_eq ht)]
    have : (1 + 1 / (if false = true then q.hydro.csqHighT T else q.hydro.csqLowT T)) = q.nu := by
      simp only [TPar.hydro, Bool.false_eq_true, ↓reduceIte]; field_simp; ring
    rw [this]

example : ∃ (q : TPar) (t : TemplP) (T : ℝ), q.WF ∧ IsTemplateOf t q.hydro ∧ T ≠ 0 :=
  ⟨q0, t0, 1, q0_WF, t0_isTemplate, by norm_num⟩

/-- T15.6c. Hence every solution `T(v)` of the general solver's temperature equation gives, through the
EOS, a solution `w(v) = w₊(T(v))` of the template solver's enthalpy equation (shock wave), and likewise with
`w₋` in the rarefaction wave. -/
theorem enthalpy_solution_of_temperature_solution (hq : q.WF) (ht : IsTemplateOf t q.hydro)
    {Tf : ℝ → ℝ} {v xi : ℝ} (hT : 0 < Tf v) :
    (HasDerivAt Tf (shockDE q.hydro v (xi, Tf v) true).2 v →
      HasDerivAt (fun v => q.hydro.wHighT (Tf v)) (dxiAndWdv t v (xi, q.hydro.wHighT (Tf v)) true).2 v) ∧
    (HasDerivAt Tf (shockDE q.hydro v (xi, Tf v) false).2 v →
      HasDerivAt (fun v => q.hydro.wLowT (Tf v)) (dxiAndWdv t v (xi, q.hydro.wLowT (Tf v)) false).2 v) := by
  obtain ⟨e1, e2⟩ := enthalpy_equation_agrees hq ht v xi (q.hydro.wHighT (Tf v)) hT.ne'
  obtain ⟨-, e3⟩ := enthalpy_equation_agrees hq ht v xi (q.hydro.wLowT (Tf v)) hT.ne'
  constructor
  · intro h
    rw [e1]
    exact (hasDerivAt_wH q hT).comp v h
  · intro h
    rw [e3]
    exact (hasDerivAt_wL q hT).comp v h

example : ∃ (q : TPar) (t : TemplP) (Tf : ℝ → ℝ) (v xi : ℝ), q.WF ∧ IsTemplateOf t q.hydro ∧ 0 < Tf v ∧
    HasDerivAt Tf (shockDE q.hydro v (xi, Tf v) true).2 v := by
  refine ⟨q0, t0, fun x => 1 + (shockDE q0.hydro (1 / 10) (1 / 2, 1) true).2 * (x - 1 / 10), 1 / 10,
    1 / 2, q0_WF, t0_isTemplate, by norm_num, ?_⟩
  have e : (1 : ℝ) + (shockDE q0.hydro (1 / 10) (1 / 2, 1) true).2 * (1 / 10 - 1 / 10) = 1 := by
    rw [sub_self, mul_zero, add_zero]
  simp only [e]
  have h := (((hasDerivAt_id (1 / 10 : ℝ)).sub_const (1 / 10)).const_mul
    (shockDE q0.hydro (1 / 10) (1 / 2, 1) true).2).const_add 1
  simpa using h

/-! ## Efficiency factor -/

/-- The integrands (including the normalisation) of the two `efficiencyFactor` implementations agree: the
template integrates `ξ²v²γ²·w/(vw³αN)` with `w` in units `w₊(Tn) = 1`, the general solver
`ξ²v²γ²·w(T)/(vw³ w₊(Tn) αN)`. -/
theorem kappa_integrand_agrees (hq : q.WF) (ht : IsTemplateOf t q.hydro) (xi v w vw : ℝ) :
    kappaIntegrand xi v (w / t.wN) / (vw ^ 3 * t.alN)
      = kappaIntegrand xi v w / (vw ^ 3 * q.hydro.wHighT q.hydro.Tnucl * t.alN) := by
  have hw := (wN_pos hq ht).ne'
  rw [← ht.wN]
  unfold kappaIntegrand
  by_cases h : vw ^ 3 * t.alN = 0
  · rw [h, show vw ^ 3 * t.wN * t.alN = (vw ^ 3 * t.alN) * t.wN by ring, h]; simp
  · have h' : vw ^ 3 ≠ 0 := left_ne_zero_of_mul h
    have h'' : t.alN ≠ 0 := right_ne_zero_of_mul h
    field_simp

example : ∃ (q : TPar) (t : TemplP), q.WF ∧ IsTemplateOf t q.hydro := ⟨q0, t0, q0_WF, t0_isTemplate⟩

end Props.C15
