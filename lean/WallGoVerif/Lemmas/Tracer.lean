/-
Helper lemmas for property C11 (`Props/C11.lean`): bookkeeping of `FreeEnergy.tracePhase`
(`Model.Tracer.runDirection`, `tracePhase`, `listMin`, `listMax`) and the coarse bracketing loop of
`Thermodynamics.findCriticalTemperature` (`coarseLoop`, `criticalBracket`).

`runDirection` stores the temperatures of the longest accepted prefix of the step records
(`acceptedPrefix`, unchanged by the replace rule) with `push`: a temperature within `1e-8·dT` of the last
stored one REPLACES it, any other is appended (`pushAll`).  Consequences used by the properties: the
stored list is a sublist of "everything appended", it ends at the last accepted temperature, only the last
stored point is ever touched, its length is counted by `appended`, and for monotone integrator times
consecutive nodes are at least `1e-8·dT` apart (`pushAll_sep`).
-/
import Mathlib.Tactic
import Mathlib.Data.List.Chain
import WallGoVerif.Model.Tracer

namespace Lemmas.Tracer

open Model.Tracer

/-! ## `runDirection` = store (append or replace) the longest accepted prefix -/

/-- the loop body does NOT break on record `s` when the previously stored temperature is `last`:
the minimum still exists, the step is not tiny, and `t` differs from the stored temperature. -/
def accepted (s : Step) (last : Option Rat) : Bool :=
  s.eigPos && !s.tiny && !(last == some s.t)

/-- the longest prefix of `steps` all of whose records are accepted (each one relative to the
temperature stored just before it; `last` is the temperature stored before the first record).
The replace rule does not change this notion: whether a record is appended or replaces the last
stored point, the temperature stored last afterwards is its `t`. -/
def acceptedPrefix : List Step → Option Rat → List Step
  | [], _ => []
  | s :: rest, last => if accepted s last then s :: acceptedPrefix rest (some s.t) else []

/-- temperature stored last, after the records `P` have been stored in a list ending in `last` -/
def lastT (last : Option Rat) (P : List Step) : Option Rat :=
  match P.getLast? with
  | some s => some s.t
  | none => last

/-- core `Rat.abs` (used by the model, which imports nothing) is Mathlib's `|·|` -/
theorem ratAbs_eq (x : Rat) : x.abs = |x| := by
  unfold Rat.abs
  split
  · exact (abs_of_nonneg ‹_›).symm
  · exact (abs_of_neg (not_le.1 ‹_›)).symm

/-- store one accepted temperature `x` in `TList = acc`: it REPLACES the last stored temperature if it
lies within the rounding distance `1e-8·dT` of it, otherwise it is appended (also when `acc` is empty). -/
def push (dT : Rat) (acc : List Rat) (x : Rat) : List Rat :=
  match acc.getLast? with
  | some last => if |x - last| < dT / 100000000 then acc.dropLast ++ [x] else acc ++ [x]
  | none => acc ++ [x]

/-- store the temperatures `xs` one after the other -/
def pushAll (dT : Rat) (acc : List Rat) (xs : List Rat) : List Rat := xs.foldl (push dT) acc

@[simp] theorem pushAll_nil (dT : Rat) (acc : List Rat) : pushAll dT acc [] = acc := rfl
@[simp] theorem pushAll_cons (dT : Rat) (acc : List Rat) (x : Rat) (xs : List Rat) :
    pushAll dT acc (x :: xs) = pushAll dT (push dT acc x) xs := rfl

theorem push_nil (dT x : Rat) : push dT [] x = [x] := rfl

theorem push_concat (dT : Rat) (init : List Rat) (l x : Rat) :
    push dT (init ++ [l]) x =
      if |x - l| < dT / 100000000 then init ++ [x] else init ++ [l] ++ [x] := by
  unfold push
  simp only [List.getLast?_concat, List.dropLast_concat]

/-- every list is `[]` or `init ++ [l]` with `l` its last element -/
theorem nil_or_concat (acc : List Rat) :
    acc = [] ∨ ∃ init l, acc = init ++ [l] ∧ acc.getLast? = some l ∧ acc.dropLast = init := by
  rcases List.eq_nil_or_concat acc with rfl | ⟨init, l, rfl⟩
  · exact Or.inl rfl
  · exact Or.inr ⟨init, l, by simp, by simp, by simp⟩

@[simp] theorem getLast?_push (dT : Rat) (acc : List Rat) (x : Rat) :
    (push dT acc x).getLast? = some x := by
  rcases nil_or_concat acc with rfl | ⟨init, l, rfl, -, -⟩
  · rfl
  · rw [push_concat]; split <;> simp

theorem push_sublist (dT : Rat) (acc : List Rat) (x : Rat) : (push dT acc x).Sublist (acc ++ [x]) := by
  rcases nil_or_concat acc with rfl | ⟨init, l, rfl, -, -⟩
  · exact List.Sublist.refl _
  · rw [push_concat]; split
    · exact ((List.sublist_append_left init [l]).append (List.Sublist.refl [x]))
    · exact List.Sublist.refl _

/-- the stored list is a sublist of "everything appended": at most one node per accepted record, in order -/
theorem pushAll_sublist (dT : Rat) (acc xs : List Rat) : (pushAll dT acc xs).Sublist (acc ++ xs) := by
  induction xs generalizing acc with
  | nil => simp
  | cons x xs ih =>
    rw [pushAll_cons]
    refine (ih _).trans ?_
    have := (push_sublist dT acc x).append (List.Sublist.refl xs)
    simpa using this

theorem mem_pushAll {dT : Rat} {acc xs : List Rat} {a : Rat} (h : a ∈ pushAll dT acc xs) :
    a ∈ acc ∨ a ∈ xs := List.mem_append.1 ((pushAll_sublist dT acc xs).subset h)

/-- the temperature stored last is the last one offered -/
theorem getLast?_pushAll (dT : Rat) (acc xs : List Rat) :
    (pushAll dT acc xs).getLast? = xs.getLast?.or acc.getLast? := by
  induction xs generalizing acc with
  | nil => simp
  | cons x xs ih =>
    rw [pushAll_cons, ih, getLast?_push]
    cases xs with
    | nil => simp
    | cons y ys =>
      rw [List.getLast?_cons_cons]
      cases h : (y :: ys).getLast? with
      | none => simp at h
      | some z => simp

theorem dropLast_prefix_push (dT : Rat) (acc : List Rat) (x : Rat) :
    acc.dropLast <+: (push dT acc x).dropLast := by
  rcases nil_or_concat acc with rfl | ⟨init, l, rfl, -, -⟩
  · simp
  · rw [push_concat]; split
    · simp
    · rw [List.dropLast_concat, List.dropLast_concat]; exact List.prefix_append _ _

/-- the replace rule only ever touches the LAST stored point: everything before it stays, in place -/
theorem dropLast_prefix_pushAll (dT : Rat) (acc xs : List Rat) :
    acc.dropLast <+: pushAll dT acc xs := by
  induction xs generalizing acc with
  | nil => exact List.dropLast_prefix _
  | cons x xs ih =>
    rw [pushAll_cons]
    exact (dropLast_prefix_push dT acc x).trans (ih _)

theorem runDirection_cons_of_accepted (s : Step) (rest : List Step) (acc : List Rat) (dT : Rat)
    (h : accepted s acc.getLast? = true) :
    runDirection (s :: rest) acc dT = runDirection rest (push dT acc s.t) dT := by
  unfold accepted at h
  simp only [Bool.and_eq_true, Bool.not_eq_true', beq_eq_false_iff_ne, ne_eq] at h
  obtain ⟨⟨h1, h2⟩, h3⟩ := h
  have h3' : (acc.getLast? == some s.t) = false := by simpa using h3
  rw [runDirection]
  simp only [h1, h2, h3', Bool.not_true, Bool.false_eq_true, if_false, Bool.or_self]
  unfold push
  cases acc.getLast? with
  | none => rfl
  | some l => simp only [ratAbs_eq]; split <;> rfl

theorem runDirection_cons_of_not_accepted (s : Step) (rest : List Step) (acc : List Rat) (dT : Rat)
    (h : accepted s acc.getLast? = false) :
    runDirection (s :: rest) acc dT = acc := by
  unfold accepted at h
  rw [runDirection]
  cases h1 : s.eigPos <;> cases h2 : s.tiny <;> cases h3 : (acc.getLast? == some s.t) <;>
    simp_all

theorem runDirection_eq (steps : List Step) (acc : List Rat) (dT : Rat) :
    runDirection steps acc dT = pushAll dT acc ((acceptedPrefix steps acc.getLast?).map Step.t) := by
  induction steps generalizing acc with
  | nil => simp [runDirection, acceptedPrefix]
  | cons s rest ih =>
    unfold acceptedPrefix
    cases h : accepted s acc.getLast? with
    | true =>
      rw [runDirection_cons_of_accepted _ _ _ _ h, ih]
      simp
    | false =>
      rw [runDirection_cons_of_not_accepted _ _ _ _ h]
      simp

theorem acceptedPrefix_prefix (steps : List Step) (last : Option Rat) :
    acceptedPrefix steps last <+: steps := by
  induction steps generalizing last with
  | nil => simp [acceptedPrefix]
  | cons s rest ih =>
    unfold acceptedPrefix
    split
    · exact (List.prefix_cons_inj s).2 (ih _)
    · exact List.nil_prefix

theorem acceptedPrefix_good (steps : List Step) (last : Option Rat) :
    ∀ s ∈ acceptedPrefix steps last, s.eigPos = true ∧ s.tiny = false := by
  induction steps generalizing last with
  | nil => simp [acceptedPrefix]
  | cons s rest ih =>
    unfold acceptedPrefix
    split
    · rename_i h
      intro x hx
      rcases List.mem_cons.1 hx with rfl | hx
      · simp [accepted] at h; exact ⟨h.1.1, h.1.2⟩
      · exact ih _ x hx
    · simp

theorem lastT_cons (last : Option Rat) (s : Step) (P : List Step) :
    lastT last (s :: P) = lastT (some s.t) P := by
  unfold lastT
  cases P with
  | nil => simp
  | cons a P =>
    rw [List.getLast?_cons_cons]
    cases h : (a :: P).getLast? with
    | none => simp at h
    | some x => rfl

/-- maximality: the record following the accepted prefix (if any) is NOT accepted. -/
theorem acceptedPrefix_maximal (steps : List Step) (last : Option Rat) (s : Step) (rest : List Step)
    (h : steps = acceptedPrefix steps last ++ s :: rest) :
    accepted s (lastT last (acceptedPrefix steps last)) = false := by
  induction steps generalizing last with
  | nil => simp at h
  | cons a tl ih =>
    unfold acceptedPrefix at h ⊢
    split at h
    · rename_i ha
      simp only [ha, if_true]
      rw [lastT_cons]
      simp only [List.cons_append, List.cons.injEq, true_and] at h
      exact ih _ h
    · rename_i ha
      simp only [List.nil_append, List.cons.injEq] at h
      obtain ⟨rfl, _⟩ := h
      rw [if_neg ha]
      simpa [lastT] using ha

/-- if a record with a non-positive eigenvalue sits at position `pre.length`, nothing from that
record on is ever appended. -/
theorem acceptedPrefix_stops (pre : List Step) (s : Step) (post : List Step) (last : Option Rat)
    (hs : s.eigPos = false) : acceptedPrefix (pre ++ s :: post) last <+: pre := by
  induction pre generalizing last with
  | nil => simp [acceptedPrefix, accepted, hs]
  | cons a tl ih =>
    simp only [List.cons_append]
    unfold acceptedPrefix
    split
    · exact (List.prefix_cons_inj a).2 (ih _)
    · exact List.nil_prefix

/-! ## how many nodes are stored -/

/-- number of the temperatures `xs` that are APPENDED (the others replace the node stored before them),
when the temperature stored before the first one is `last` -/
def appended (dT : Rat) : Option Rat → List Rat → Nat
  | _, [] => 0
  | none, x :: xs => 1 + appended dT (some x) xs
  | some l, x :: xs => (if |x - l| < dT / 100000000 then 0 else 1) + appended dT (some x) xs

theorem length_push (dT : Rat) (acc : List Rat) (x : Rat) :
    (push dT acc x).length = acc.length + appended dT acc.getLast? [x] := by
  rcases nil_or_concat acc with rfl | ⟨init, l, rfl, -, -⟩
  · rfl
  · rw [push_concat, List.getLast?_concat]
    unfold appended appended
    split <;> simp

theorem appended_cons (dT : Rat) (last : Option Rat) (x : Rat) (xs : List Rat) :
    appended dT last (x :: xs) = appended dT last [x] + appended dT (some x) xs := by
  cases last <;> simp [appended]

theorem length_pushAll (dT : Rat) (acc xs : List Rat) :
    (pushAll dT acc xs).length = acc.length + appended dT acc.getLast? xs := by
  induction xs generalizing acc with
  | nil => simp [appended]
  | cons x xs ih =>
    rw [pushAll_cons, ih, getLast?_push, length_push, appended_cons dT _ x xs]; omega

theorem appended_le_length (dT : Rat) (last : Option Rat) (xs : List Rat) :
    appended dT last xs ≤ xs.length := by
  induction xs generalizing last with
  | nil => simp [appended]
  | cons x xs ih =>
    rw [appended_cons]
    have := ih (some x)
    have h1 : appended dT last [x] ≤ 1 := by
      cases last with
      | none => simp [appended]
      | some l => unfold appended appended; split <;> simp
    simp only [List.length_cons]; omega

/-- nothing is appended after `l` iff the temperatures form a chain of rounding steps starting at `l` -/
theorem appended_some_eq_zero_iff (dT l : Rat) (xs : List Rat) :
    appended dT (some l) xs = 0 ↔ (l :: xs).IsChain (fun a b => |b - a| < dT / 100000000) := by
  induction xs generalizing l with
  | nil => simp [appended]
  | cons x xs ih =>
    rw [List.isChain_cons_cons, ← ih, appended]
    split <;> simp_all

/-- at most one node is stored in an empty list iff the temperatures form a chain of rounding steps -/
theorem appended_none_le_one_iff (dT : Rat) (xs : List Rat) :
    appended dT none xs ≤ 1 ↔ xs.IsChain (fun a b => |b - a| < dT / 100000000) := by
  cases xs with
  | nil => simp [appended]
  | cons x xs =>
    rw [← appended_some_eq_zero_iff, appended]; omega

/-- without rounding steps every accepted temperature is appended -/
theorem appended_eq_length_of_far (dT : Rat) (last : Option Rat) (xs : List Rat)
    (h : (last.toList ++ xs).IsChain (fun a b => dT / 100000000 ≤ |b - a|)) :
    appended dT last xs = xs.length := by
  induction xs generalizing last with
  | nil => simp [appended]
  | cons x xs ih =>
    have ht : (x :: xs).IsChain (fun a b => dT / 100000000 ≤ |b - a|) := h.right_of_append
    have := ih (some x) (by simpa using ht)
    cases last with
    | none => simp [appended, this]; omega
    | some l =>
      have hlx : dT / 100000000 ≤ |x - l| := by
        simp only [Option.toList_some, List.singleton_append] at h
        exact (List.isChain_cons_cons.1 h).1
      simp [appended, this, not_lt.2 hlx]; omega

/-- a list that is at the same time a chain of rounding steps and a chain of non-rounding steps has at
most one element -/
theorem length_le_one_of_near_far (dT : Rat) (l : List Rat)
    (hn : l.IsChain (fun a b => |b - a| < dT / 100000000))
    (hf : l.IsChain (fun a b => dT / 100000000 ≤ |b - a|)) : l.length ≤ 1 := by
  match l, hn, hf with
  | [], _, _ => simp
  | [_], _, _ => simp
  | a :: b :: t, hn, hf =>
    exact absurd (List.isChain_cons_cons.1 hn).1 (not_lt.2 (List.isChain_cons_cons.1 hf).1)

/-- without rounding steps `push` is `append`: the pre-replace-rule behaviour -/
theorem pushAll_eq_append_of_far (dT : Rat) (acc xs : List Rat)
    (h : (acc.getLast?.toList ++ xs).IsChain (fun a b => dT / 100000000 ≤ |b - a|)) :
    pushAll dT acc xs = acc ++ xs := by
  induction xs generalizing acc with
  | nil => simp
  | cons x xs ih =>
    have hp : push dT acc x = acc ++ [x] := by
      rcases nil_or_concat acc with rfl | ⟨init, l, rfl, -, -⟩
      · rfl
      · rw [push_concat]
        simp only [List.getLast?_concat, Option.toList_some, List.singleton_append] at h
        rw [if_neg (not_lt.2 (List.isChain_cons_cons.1 h).1)]
    rw [pushAll_cons, hp, ih]
    · simp
    · simpa using h.right_of_append

/-! ## no two almost coincident nodes -/

/-- separation relation in the direction of travel `σ = ±1`: the next node lies at least `1e-8·dT`
further in that direction -/
def Sep (dT σ : Rat) (a b : Rat) : Prop := dT / 100000000 ≤ σ * (b - a)

theorem push_sep (dT σ : Rat) (hσ : σ = 1 ∨ σ = -1) (acc : List Rat) (x : Rat)
    (hc : acc.IsChain (Sep dT σ)) (hl : ∀ l, acc.getLast? = some l → 0 < σ * (x - l)) :
    (push dT acc x).IsChain (Sep dT σ) := by
  rcases nil_or_concat acc with rfl | ⟨init, l, rfl, hlast, -⟩
  · exact List.isChain_singleton _
  · have hlx := hl l hlast
    have habs : |x - l| = σ * (x - l) := by
      rcases hσ with rfl | rfl
      · rw [one_mul] at hlx ⊢; exact abs_of_pos hlx
      · rw [abs_of_neg (by linarith)]; ring
    rw [push_concat]
    obtain ⟨hi, -, hil⟩ := List.isChain_append.1 hc
    split
    · refine List.isChain_append.2 ⟨hi, List.isChain_singleton _, fun p hp y hy => ?_⟩
      have h1 : Sep dT σ p l := hil p hp l (by simp)
      simp only [List.head?_cons, Option.mem_def, Option.some.injEq] at hy
      subst hy
      unfold Sep at h1 ⊢
      nlinarith
    · rename_i hfar
      refine List.isChain_append.2 ⟨hc, List.isChain_singleton _, fun p hp y hy => ?_⟩
      simp only [List.getLast?_concat, Option.mem_def, Option.some.injEq] at hp
      simp only [List.head?_cons, Option.mem_def, Option.some.injEq] at hy
      subst hp hy
      unfold Sep
      rw [← habs]; exact not_lt.1 hfar

/-- **separation invariant.** If the stored list is separated in the direction of travel, every offered
temperature lies beyond the last stored one and the offered temperatures are strictly monotone in that
direction, then ALL consecutive nodes of the result — including the last pair, also after a
replacement — are at least `1e-8·dT` apart. -/
theorem pushAll_sep (dT σ : Rat) (hσ : σ = 1 ∨ σ = -1) (acc xs : List Rat)
    (hc : acc.IsChain (Sep dT σ))
    (hl : ∀ l, acc.getLast? = some l → ∀ x ∈ xs, 0 < σ * (x - l))
    (hx : xs.Pairwise (fun a b => 0 < σ * (b - a))) :
    (pushAll dT acc xs).IsChain (Sep dT σ) := by
  induction xs generalizing acc with
  | nil => exact hc
  | cons x xs ih =>
    rw [pushAll_cons]
    obtain ⟨hx1, hx2⟩ := List.pairwise_cons.1 hx
    refine ih _ (push_sep dT σ hσ acc x hc (fun l h => hl l h x List.mem_cons_self)) ?_ hx2
    intro l h y hy
    rw [getLast?_push] at h
    cases h
    exact hx1 y hy

/-- `runDirection` keeps the separation invariant (direction sign `σ = ±1`, see `pushAll_sep`) -/
theorem runDirection_sep (dT σ : Rat) (hσ : σ = 1 ∨ σ = -1) (steps : List Step) (acc : List Rat)
    (hc : acc.IsChain (Sep dT σ))
    (hl : ∀ l, acc.getLast? = some l → ∀ s ∈ steps, 0 < σ * (s.t - l))
    (hx : (steps.map Step.t).Pairwise (fun a b => 0 < σ * (b - a))) :
    (runDirection steps acc dT).IsChain (Sep dT σ) := by
  rw [runDirection_eq]
  refine pushAll_sep dT σ hσ acc _ hc (fun l h x hx' => ?_)
    (hx.sublist ((acceptedPrefix_prefix steps _).map Step.t).sublist)
  obtain ⟨s, hs, rfl⟩ := List.mem_map.1 hx'
  exact hl l h s ((acceptedPrefix_prefix steps _).subset hs)

/-! ## `listMin` / `listMax` -/

theorem foldl_min_le_init (l : List Rat) (a : Rat) :
    l.foldl (fun a b => if b < a then b else a) a ≤ a := by
  induction l generalizing a with
  | nil => simp
  | cons x t ih =>
    simp only [List.foldl_cons]
    split
    · exact le_trans (ih _) (le_of_lt ‹_›)
    · exact ih _

theorem foldl_min_le_mem (l : List Rat) (a x : Rat) (hx : x ∈ l) :
    l.foldl (fun a b => if b < a then b else a) a ≤ x := by
  induction l generalizing a with
  | nil => simp at hx
  | cons y t ih =>
    simp only [List.foldl_cons]
    rcases List.mem_cons.1 hx with rfl | hx
    · refine le_trans (foldl_min_le_init _ _) ?_
      split
      · exact le_rfl
      · exact not_lt.1 ‹_›
    · exact ih _ hx

theorem foldl_min_mem (l : List Rat) (a : Rat) :
    l.foldl (fun a b => if b < a then b else a) a = a ∨
      l.foldl (fun a b => if b < a then b else a) a ∈ l := by
  induction l generalizing a with
  | nil => simp
  | cons y t ih =>
    simp only [List.foldl_cons]
    split
    · rcases ih y with h | h
      · right; rw [h]; exact List.mem_cons_self
      · right; exact List.mem_cons_of_mem _ h
    · rcases ih a with h | h
      · left; exact h
      · right; exact List.mem_cons_of_mem _ h

theorem foldl_max_ge_init (l : List Rat) (a : Rat) :
    a ≤ l.foldl (fun a b => if a < b then b else a) a := by
  induction l generalizing a with
  | nil => simp
  | cons x t ih =>
    simp only [List.foldl_cons]
    split
    · exact le_trans (le_of_lt ‹_›) (ih _)
    · exact ih _

theorem foldl_max_ge_mem (l : List Rat) (a x : Rat) (hx : x ∈ l) :
    x ≤ l.foldl (fun a b => if a < b then b else a) a := by
  induction l generalizing a with
  | nil => simp at hx
  | cons y t ih =>
    simp only [List.foldl_cons]
    rcases List.mem_cons.1 hx with rfl | hx
    · refine le_trans ?_ (foldl_max_ge_init _ _)
      split
      · exact le_rfl
      · exact not_lt.1 ‹_›
    · exact ih _ hx

theorem foldl_max_mem (l : List Rat) (a : Rat) :
    l.foldl (fun a b => if a < b then b else a) a = a ∨
      l.foldl (fun a b => if a < b then b else a) a ∈ l := by
  induction l generalizing a with
  | nil => simp
  | cons y t ih =>
    simp only [List.foldl_cons]
    split
    · rcases ih y with h | h
      · right; rw [h]; exact List.mem_cons_self
      · right; exact List.mem_cons_of_mem _ h
    · rcases ih a with h | h
      · left; exact h
      · right; exact List.mem_cons_of_mem _ h

/-- `listMin` is a lower bound of the list (`min(TFullList)`). -/
theorem listMin_le (l : List Rat) (d x : Rat) (hx : x ∈ l) : listMin l d ≤ x :=
  foldl_min_le_mem l _ x hx

/-- `listMin` of a non-empty list is one of its elements. -/
theorem listMin_mem (l : List Rat) (d : Rat) (h : l ≠ []) : listMin l d ∈ l := by
  cases l with
  | nil => exact absurd rfl h
  | cons x t =>
    unfold listMin
    rcases foldl_min_mem (x :: t) x with h | h
    · simp only [List.headD_cons]; rw [h]; exact List.mem_cons_self
    · exact h

theorem le_listMax (l : List Rat) (d x : Rat) (hx : x ∈ l) : x ≤ listMax l d :=
  foldl_max_ge_mem l _ x hx

theorem listMax_mem (l : List Rat) (d : Rat) (h : l ≠ []) : listMax l d ∈ l := by
  cases l with
  | nil => exact absurd rfl h
  | cons x t =>
    unfold listMax
    rcases foldl_max_mem (x :: t) x with h | h
    · simp only [List.headD_cons]; rw [h]; exact List.mem_cons_self
    · exact h

/-- `listMin` is characterised as THE least element. -/
theorem listMin_eq_iff (l : List Rat) (d m : Rat) (h : l ≠ []) :
    listMin l d = m ↔ m ∈ l ∧ ∀ x ∈ l, m ≤ x := by
  constructor
  · rintro rfl; exact ⟨listMin_mem l d h, fun x hx => listMin_le l d x hx⟩
  · rintro ⟨hm, hle⟩
    exact le_antisymm (listMin_le l d m hm) (hle _ (listMin_mem l d h))

theorem listMax_eq_iff (l : List Rat) (d m : Rat) (h : l ≠ []) :
    listMax l d = m ↔ m ∈ l ∧ ∀ x ∈ l, x ≤ m := by
  constructor
  · rintro rfl; exact ⟨listMax_mem l d h, fun x hx => le_listMax l d x hx⟩
  · rintro ⟨hm, hle⟩
    exact le_antisymm (hle _ (listMax_mem l d h)) (le_listMax l d m hm)

/-- in a strictly increasing list the minimum is the first element -/
theorem listMin_sorted (x : Rat) (t : List Rat) (d : Rat) (h : (x :: t).Pairwise (· < ·)) :
    listMin (x :: t) d = x := by
  rw [listMin_eq_iff _ _ _ (by simp)]
  refine ⟨List.mem_cons_self, fun y hy => ?_⟩
  rcases List.mem_cons.1 hy with rfl | hy
  · exact le_rfl
  · exact le_of_lt ((List.pairwise_cons.1 h).1 y hy)

/-- in a strictly increasing list the maximum is the last element -/
theorem listMax_sorted (l : List Rat) (d : Rat) (hne : l ≠ []) (h : l.Pairwise (· < ·)) :
    listMax l d = l.getLast hne := by
  rw [listMax_eq_iff _ _ _ hne]
  refine ⟨List.getLast_mem hne, fun y hy => ?_⟩
  have hl : l = l.dropLast ++ [l.getLast hne] := (List.dropLast_append_getLast hne).symm
  rw [hl] at h hy
  rcases List.mem_append.1 hy with hy | hy
  · exact le_of_lt ((List.pairwise_append.1 h).2.2 y hy _ (by simp))
  · simp at hy; exact le_of_eq hy

/-! ## `tracePhase` in terms of the accepted prefixes -/

/-- temperatures of the accepted records of the upward direction (offered after `T0`) -/
def upTimes (T0 : Rat) (up : List Step) : List Rat := (acceptedPrefix up (some T0)).map Step.t
/-- temperatures of the accepted records of the downward direction (`TList` starts empty) -/
def downTimes (down : List Step) : List Rat := (acceptedPrefix down none).map Step.t

/-- `TList` after the upward direction: `[T0]` with the accepted temperatures stored (appended / replacing) -/
def upTable (dT T0 : Rat) (up : List Step) : List Rat := pushAll dT [T0] (upTimes T0 up)
/-- `TList` after the downward direction -/
def downTable (dT : Rat) (down : List Step) : List Rat := pushAll dT [] (downTimes down)

/-- `TFullList` (`none` = `RuntimeError("Failed to trace phase")`) -/
def fullTable (dT T0 : Rat) (up down : List Step) : Option (List Rat) :=
  if 1 < (downTable dT down).length then some ((downTable dT down).reverse ++ upTable dT T0 up)
  else if (upTable dT T0 up).length ≤ 1 then none
  else some (upTable dT T0 up)

theorem runDirection_up (dT T0 : Rat) (up : List Step) :
    runDirection up [T0] dT = upTable dT T0 up := by
  rw [runDirection_eq]; simp [upTable, upTimes]

theorem runDirection_down (dT : Rat) (down : List Step) :
    runDirection down [] dT = downTable dT down := by
  rw [runDirection_eq]; simp [downTable, downTimes]

theorem tracePhase_eq (T0 TMin TMax dT : Rat) (up down : List Step) :
    tracePhase T0 TMin TMax dT up down =
      match fullTable dT T0 up down with
      | none => .error .failedToTrace
      | some tf =>
        if ¬ (listMin tf T0 + 2 * dT < listMax tf T0 - 2 * dT) then .error .negativeRange
        else .ok { table := tf, minPossible := listMin tf T0 + 2 * dT,
                   minFlag := decide (TMin < listMin tf T0),
                   maxPossible := listMax tf T0 - 2 * dT,
                   maxFlag := decide (listMax tf T0 < TMax) } := by
  unfold tracePhase fullTable
  simp only [runDirection_up, runDirection_down]
  by_cases h1 : 1 < (downTable dT down).length
  · simp [h1]
  · by_cases h2 : (upTable dT T0 up).length ≤ 1
    · simp [h1, h2]
    · simp [h1, h2]

theorem tracePhase_ok_iff (T0 TMin TMax dT : Rat) (up down : List Step) (r : Result) :
    tracePhase T0 TMin TMax dT up down = .ok r ↔
      ∃ tf, fullTable dT T0 up down = some tf ∧
        listMin tf T0 + 2 * dT < listMax tf T0 - 2 * dT ∧
        r = { table := tf, minPossible := listMin tf T0 + 2 * dT,
              minFlag := decide (TMin < listMin tf T0),
              maxPossible := listMax tf T0 - 2 * dT,
              maxFlag := decide (listMax tf T0 < TMax) } := by
  rw [tracePhase_eq]
  cases h : fullTable dT T0 up down with
  | none => simp
  | some tf =>
    by_cases hr : listMin tf T0 + 2 * dT < listMax tf T0 - 2 * dT
    · simp [hr, eq_comm]
    · simp [hr]

/-- the upward list ends at the last accepted upward temperature (at `T0` if there is none) -/
theorem getLast?_upTable (dT T0 : Rat) (up : List Step) :
    (upTable dT T0 up).getLast? = (upTimes T0 up).getLast?.or (some T0) := by
  unfold upTable; rw [getLast?_pushAll]; rfl

theorem getLast?_downTable (dT : Rat) (down : List Step) :
    (downTable dT down).getLast? = (downTimes down).getLast? := by
  unfold downTable; rw [getLast?_pushAll]; simp

theorem upTable_ne_nil (dT T0 : Rat) (up : List Step) : upTable dT T0 up ≠ [] := by
  intro h
  have := getLast?_upTable dT T0 up
  rw [h] at this
  cases h' : (upTimes T0 up).getLast? <;> simp [h'] at this

theorem upTable_sublist (dT T0 : Rat) (up : List Step) :
    (upTable dT T0 up).Sublist (T0 :: upTimes T0 up) := pushAll_sublist dT [T0] _

theorem downTable_sublist (dT : Rat) (down : List Step) :
    (downTable dT down).Sublist (downTimes down) := by
  simpa [downTable] using pushAll_sublist dT [] (downTimes down)

/-- number of stored upward nodes = `T0` + the appended accepted records -/
theorem length_upTable (dT T0 : Rat) (up : List Step) :
    (upTable dT T0 up).length = 1 + appended dT (some T0) (upTimes T0 up) := by
  unfold upTable; rw [length_pushAll]; rfl

theorem length_downTable (dT : Rat) (down : List Step) :
    (downTable dT down).length = appended dT none (downTimes down) := by
  unfold downTable; rw [length_pushAll]; simp

theorem fullTable_ne_nil {dT T0 : Rat} {up down : List Step} {tf : List Rat}
    (h : fullTable dT T0 up down = some tf) : tf ≠ [] := by
  unfold fullTable at h
  split at h
  · cases h; simp [upTable_ne_nil]
  · split at h
    · cases h
    · cases h; exact upTable_ne_nil _ _ _

/-- `T0` stays in the upward list unless the FIRST upward record is a rounding step from `T0`
(which then replaces `T0`). -/
theorem T0_mem_upTable (dT T0 : Rat) (up : List Step)
    (hfirst : ∀ s, up.head? = some s → dT / 100000000 ≤ |s.t - T0|) : T0 ∈ upTable dT T0 up := by
  unfold upTable upTimes
  cases up with
  | nil => simp [acceptedPrefix]
  | cons s rest =>
    unfold acceptedPrefix
    split
    · have hs := hfirst s rfl
      rw [List.map_cons, pushAll_cons]
      have hp : push dT [T0] s.t = [T0, s.t] := by
        have := push_concat dT [] T0 s.t
        simp only [List.nil_append] at this
        rw [this, if_neg (not_lt.2 hs)]; rfl
      rw [hp]
      exact (dropLast_prefix_pushAll dT [T0, s.t] _).subset (by simp)
    · simp

theorem T0_mem_fullTable {dT T0 : Rat} {up down : List Step} {tf : List Rat}
    (h : fullTable dT T0 up down = some tf)
    (hfirst : ∀ s, up.head? = some s → dT / 100000000 ≤ |s.t - T0|) : T0 ∈ tf := by
  have := T0_mem_upTable dT T0 up hfirst
  unfold fullTable at h
  split at h
  · cases h; simp [this]
  · split at h
    · cases h
    · cases h; exact this

theorem mem_upTable {dT T0 : Rat} {up : List Step} {x : Rat} (hx : x ∈ upTable dT T0 up) :
    x = T0 ∨ x ∈ upTimes T0 up := by
  rcases mem_pushAll hx with h | h
  · left; simpa using h
  · exact Or.inr h

theorem mem_downTable {dT : Rat} {down : List Step} {x : Rat} (hx : x ∈ downTable dT down) :
    x ∈ downTimes down := (downTable_sublist dT down).subset hx

/-- every table entry is `T0` or the `t` of an accepted record -/
theorem mem_fullTable {dT T0 : Rat} {up down : List Step} {tf : List Rat}
    (h : fullTable dT T0 up down = some tf) (x : Rat) (hx : x ∈ tf) :
    x = T0 ∨ x ∈ upTimes T0 up ∨ x ∈ downTimes down := by
  unfold fullTable at h
  split at h
  · cases h
    simp only [List.mem_append, List.mem_reverse] at hx
    rcases hx with hx | hx
    · exact Or.inr (Or.inr (mem_downTable hx))
    · rcases mem_upTable hx with h | h
      · exact Or.inl h
      · exact Or.inr (Or.inl h)
  · split at h
    · cases h
    · cases h
      rcases mem_upTable hx with h | h
      · exact Or.inl h
      · exact Or.inr (Or.inl h)

theorem upTable_subset_fullTable {dT T0 : Rat} {up down : List Step} {tf : List Rat}
    (h : fullTable dT T0 up down = some tf) (x : Rat) (hx : x ∈ upTable dT T0 up) : x ∈ tf := by
  unfold fullTable at h
  split at h
  · cases h; simp [hx]
  · split at h
    · cases h
    · cases h; exact hx

/-- the temperature of the LAST accepted upward record is in the table (earlier ones may have been replaced) -/
theorem lastUp_mem_fullTable {dT T0 : Rat} {up down : List Step} {tf : List Rat}
    (h : fullTable dT T0 up down = some tf) (x : Rat) (hx : (upTimes T0 up).getLast? = some x) :
    x ∈ tf := by
  refine upTable_subset_fullTable h x (List.mem_of_getLast? ?_)
  rw [getLast?_upTable, hx]; rfl

/-- the temperature of the last accepted downward record is in the table, provided at least two
downward nodes were stored (a single one is discarded) -/
theorem lastDown_mem_fullTable {dT T0 : Rat} {up down : List Step} {tf : List Rat}
    (h : fullTable dT T0 up down = some tf) (h2 : 1 < (downTable dT down).length)
    (x : Rat) (hx : (downTimes down).getLast? = some x) : x ∈ tf := by
  have hm : x ∈ downTable dT down := List.mem_of_getLast? (by rw [getLast?_downTable, hx])
  unfold fullTable at h
  rw [if_pos h2] at h
  cases h; simp [hm]

/-- tracing fails iff at most one downward and no upward node (besides `T0`) is stored, i.e. iff the
accepted temperatures of each direction form a chain of rounding steps (from `T0` in the upward one) -/
theorem fullTable_eq_none_iff (dT T0 : Rat) (up down : List Step) :
    fullTable dT T0 up down = none ↔
      (downTimes down).IsChain (fun a b => |b - a| < dT / 100000000) ∧
      (T0 :: upTimes T0 up).IsChain (fun a b => |b - a| < dT / 100000000) := by
  rw [← appended_none_le_one_iff, ← appended_some_eq_zero_iff, ← length_downTable]
  have hu := length_upTable dT T0 up
  unfold fullTable
  by_cases h1 : 1 < (downTable dT down).length
  · simp only [h1, if_true, reduceCtorEq, false_iff, not_and]
    intro h; omega
  · by_cases h2 : (upTable dT T0 up).length ≤ 1
    · simp only [h1, h2, if_false, if_true, true_iff]
      omega
    · simp only [h1, h2, if_false, reduceCtorEq, false_iff, not_and]
      intro _; omega

theorem upTimes_sublist (T0 : Rat) (up : List Step) : (upTimes T0 up).Sublist (up.map Step.t) :=
  ((acceptedPrefix_prefix up _).map Step.t).sublist

theorem downTimes_sublist (down : List Step) : (downTimes down).Sublist (down.map Step.t) :=
  ((acceptedPrefix_prefix down _).map Step.t).sublist

theorem mem_upTimes {T0 : Rat} {up : List Step} {x : Rat} (hx : x ∈ upTimes T0 up) :
    ∃ s ∈ up, s.eigPos = true ∧ s.tiny = false ∧ s.t = x := by
  obtain ⟨s, hs, rfl⟩ := List.mem_map.1 hx
  exact ⟨s, (acceptedPrefix_prefix up _).subset hs, (acceptedPrefix_good _ _ s hs).1,
    (acceptedPrefix_good _ _ s hs).2, rfl⟩

theorem mem_downTimes {down : List Step} {x : Rat} (hx : x ∈ downTimes down) :
    ∃ s ∈ down, s.eigPos = true ∧ s.tiny = false ∧ s.t = x := by
  obtain ⟨s, hs, rfl⟩ := List.mem_map.1 hx
  exact ⟨s, (acceptedPrefix_prefix down _).subset hs, (acceptedPrefix_good _ _ s hs).1,
    (acceptedPrefix_good _ _ s hs).2, rfl⟩

/-- with monotone integrator times the assembled table is strictly increasing (the replace rule keeps
this: the stored list is a sublist of `T0 ::` the accepted temperatures) -/
theorem fullTable_sorted {dT T0 : Rat} {up down : List Step} {tf : List Rat}
    (h : fullTable dT T0 up down = some tf)
    (hup : (up.map Step.t).Pairwise (· < ·)) (hup0 : ∀ s ∈ up, T0 < s.t)
    (hdown : (down.map Step.t).Pairwise (· > ·)) (hdown0 : ∀ s ∈ down, s.t < T0) :
    tf.Pairwise (· < ·) := by
  have hU0 : (T0 :: upTimes T0 up).Pairwise (· < ·) := by
    refine List.pairwise_cons.2 ⟨fun x hx => ?_, hup.sublist (upTimes_sublist T0 up)⟩
    obtain ⟨s, hs, _, _, rfl⟩ := mem_upTimes hx
    exact hup0 s hs
  have hU : (upTable dT T0 up).Pairwise (· < ·) := hU0.sublist (upTable_sublist dT T0 up)
  have hge : ∀ b ∈ upTable dT T0 up, T0 ≤ b := by
    intro b hb
    rcases mem_upTable hb with rfl | hb
    · exact le_rfl
    · obtain ⟨s', hs', _, _, rfl⟩ := mem_upTimes hb
      exact le_of_lt (hup0 s' hs')
  unfold fullTable at h
  split at h
  · cases h
    refine List.pairwise_append.2 ⟨?_, hU, fun a ha b hb => ?_⟩
    · rw [List.pairwise_reverse]
      exact ((hdown.sublist (downTimes_sublist down)).sublist (downTable_sublist dT down)).imp
        (fun h => h)
    · obtain ⟨s, hs, _, _, rfl⟩ := mem_downTimes (mem_downTable (List.mem_reverse.1 ha))
      exact lt_of_lt_of_le (hdown0 s hs) (hge b hb)
  · split at h
    · cases h
    · cases h; exact hU

/-- upward list: consecutive nodes at least `1e-8·dT` apart (monotone integrator times above `T0`) -/
theorem upTable_sep (dT T0 : Rat) (up : List Step)
    (hup : (up.map Step.t).Pairwise (· < ·)) (hup0 : ∀ s ∈ up, T0 < s.t) :
    (upTable dT T0 up).IsChain (fun a b => a + dT / 100000000 ≤ b) := by
  have := pushAll_sep dT 1 (Or.inl rfl) [T0] (upTimes T0 up) (List.isChain_singleton _)
    (fun l hl x hx => by
      simp only [List.getLast?_singleton, Option.some.injEq] at hl
      subst hl
      obtain ⟨s, hs, _, _, rfl⟩ := mem_upTimes hx
      have := hup0 s hs
      linarith)
    ((hup.sublist (upTimes_sublist T0 up)).imp (fun h => by linarith))
  exact this.imp (fun a b h => by unfold Sep at h; linarith)

/-- downward list (in storage order, i.e. descending): consecutive nodes at least `1e-8·dT` apart -/
theorem downTable_sep (dT : Rat) (down : List Step)
    (hdown : (down.map Step.t).Pairwise (· > ·)) :
    (downTable dT down).IsChain (fun a b => b + dT / 100000000 ≤ a) := by
  have := pushAll_sep dT (-1) (Or.inr rfl) [] (downTimes down) List.isChain_nil
    (fun l hl => by simp at hl)
    ((hdown.sublist (downTimes_sublist down)).imp (fun h => by linarith))
  exact this.imp (fun a b h => by unfold Sep at h; linarith)

/-- the assembled table is (reversed downward list, possibly dropped) ++ (upward list), and inside each
of the two pieces consecutive nodes are at least `1e-8·dT` apart.  Nothing is claimed about the junction
(first downward node against the head of the upward list). -/
theorem fullTable_sep {dT T0 : Rat} {up down : List Step} {tf : List Rat}
    (h : fullTable dT T0 up down = some tf)
    (hup : (up.map Step.t).Pairwise (· < ·)) (hup0 : ∀ s ∈ up, T0 < s.t)
    (hdown : (down.map Step.t).Pairwise (· > ·)) :
    ∃ lo, tf = lo ++ upTable dT T0 up ∧ (lo = [] ∨ lo = (downTable dT down).reverse) ∧
      lo.IsChain (fun a b => a + dT / 100000000 ≤ b) ∧
      (upTable dT T0 up).IsChain (fun a b => a + dT / 100000000 ≤ b) := by
  have hU := upTable_sep dT T0 up hup hup0
  unfold fullTable at h
  split at h
  · cases h
    exact ⟨_, rfl, Or.inr rfl, List.isChain_reverse.2 (downTable_sep dT down hdown), hU⟩
  · split at h
    · cases h
    · cases h
      exact ⟨[], rfl, Or.inl rfl, List.isChain_nil, hU⟩

/-! ## the coarse loop of `findCriticalTemperature` -/

theorem sgn_eq_one_iff (x : Rat) : sgn x = 1 ↔ 0 < x := by
  unfold sgn; split
  · constructor
    · intro h; omega
    · intro h; linarith
  · split <;> simp_all

theorem sgn_eq_neg_one_iff (x : Rat) : sgn x = -1 ↔ x < 0 := by
  unfold sgn; split
  · simp_all
  · split <;> simp_all

theorem sgn_eq_zero_iff (x : Rat) : sgn x = 0 ↔ x = 0 := by
  unfold sgn; split
  · constructor
    · intro h; omega
    · intro h; linarith
  · split
    · constructor
      · intro h; omega
      · intro h; linarith
    · constructor
      · intro _; linarith
      · intro _; rfl

theorem coarseLoop_spec (dF : Rat → Rat) (TMin dT : Rat) (s0 : Int) (fuel : Nat) (T a : Rat)
    (h : coarseLoop dF TMin dT s0 fuel T = some a) :
    ∃ k : Nat, 1 ≤ k ∧ k ≤ fuel ∧ a = T - k * dT ∧ TMin < a ∧ sgn (dF a) ≠ s0 ∧
      (∀ j : Nat, 1 ≤ j → j < k → TMin < T - j * dT ∧ sgn (dF (T - j * dT)) = s0) := by
  induction fuel generalizing T with
  | zero => simp [coarseLoop] at h
  | succ n ih =>
    unfold coarseLoop at h
    split at h
    · rename_i hgt
      simp only at h
      split at h
      · rename_i hs
        cases h
        refine ⟨1, le_rfl, by omega, by simp, hgt, hs, fun j h1 h2 => by omega⟩
      · rename_i hs
        obtain ⟨k, hk1, hkn, hak, hmin, hsg, hall⟩ := ih _ h
        refine ⟨k + 1, by omega, by omega, ?_, hmin, hsg, fun j h1 h2 => ?_⟩
        · rw [hak]; push_cast; ring
        · rcases Nat.eq_or_lt_of_le h1 with rfl | h1'
          · simp only [Nat.cast_one, one_mul]
            exact ⟨hgt, not_not.1 hs⟩
          · obtain ⟨j', rfl⟩ : ∃ j', j = j' + 1 := ⟨j - 1, by omega⟩
            have := hall j' (by omega) (by omega)
            have e : T - ((j' + 1 : Nat) : Rat) * dT = T - dT - (j' : Rat) * dT := by
              push_cast; ring
            rw [e]; exact this
    · cases h

/-- enough fuel: the result no longer depends on it -/
theorem coarseLoop_fuel (dF : Rat → Rat) (TMin dT : Rat) (s0 : Int)
    (n m : Nat) (T : Rat) (hn : T - TMin ≤ (n + 1 : Nat) * dT) (hnm : n ≤ m) :
    coarseLoop dF TMin dT s0 n T = coarseLoop dF TMin dT s0 m T := by
  induction n generalizing m T with
  | zero =>
    cases m with
    | zero => rfl
    | succ m =>
      simp only [Nat.zero_add, Nat.cast_one, one_mul] at hn
      have : ¬ (T - dT > TMin) := by intro h; linarith
      simp [coarseLoop, this]
  | succ n ih =>
    cases m with
    | zero => omega
    | succ m =>
      unfold coarseLoop
      split
      · simp only
        split
        · rfl
        · refine ih m (T - dT) ?_ (by omega)
          push_cast at hn ⊢; linarith
      · rfl

end Lemmas.Tracer
