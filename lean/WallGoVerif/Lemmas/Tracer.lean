/-
Helper lemmas for property C11 (`Props/C11.lean`): bookkeeping of `FreeEnergy.tracePhase`
(`Model.Tracer.runDirection`, `tracePhase`, `listMin`, `listMax`) and the coarse bracketing loop of
`Thermodynamics.findCriticalTemperature` (`coarseLoop`, `criticalBracket`).
-/
import Mathlib.Tactic
import WallGoVerif.Model.Tracer

namespace Lemmas.Tracer

open Model.Tracer

/-! ## `runDirection` = append the longest accepted prefix -/

/-- the loop body does NOT break on record `s` when the previously stored temperature is `last`:
the minimum still exists, the step is not tiny, and `t` differs from the stored temperature. -/
def accepted (s : Step) (last : Option Rat) : Bool :=
  s.eigPos && !s.tiny && !(last == some s.t)

/-- the longest prefix of `steps` all of whose records are accepted (each one relative to the
temperature stored just before it; `last` is the temperature stored before the first record). -/
def acceptedPrefix : List Step → Option Rat → List Step
  | [], _ => []
  | s :: rest, last => if accepted s last then s :: acceptedPrefix rest (some s.t) else []

/-- temperature stored last, after the records `P` have been appended to a list ending in `last` -/
def lastT (last : Option Rat) (P : List Step) : Option Rat :=
  match P.getLast? with
  | some s => some s.t
  | none => last

theorem runDirection_eq (steps : List Step) (acc : List Rat) :
    runDirection steps acc = acc ++ (acceptedPrefix steps acc.getLast?).map Step.t := by
  induction steps generalizing acc with
  | nil => simp [runDirection, acceptedPrefix]
  | cons s rest ih =>
    unfold runDirection acceptedPrefix accepted
    cases h1 : s.eigPos <;> cases h2 : s.tiny <;> cases h3 : (acc.getLast? == some s.t) <;>
      simp [ih]

theorem acceptedPrefix_prefix (steps : List Step) (last : Option Rat) :
    acceptedPrefix steps last <+: steps := by
  induction steps generalizing last with
  | nil => simp [acceptedPrefix]
  | cons s rest ih =>
    unfold acceptedPrefix
    split
    · exact (List.prefix_cons_inj s).2 (ih _)
    · exact List.nil_prefix

theorem acceptedPrefix_good (steps : List Step) (last : Option Rat) :
    ∀ s ∈ acceptedPrefix steps last, s.eigPos = true ∧ s.tiny = false := by
  induction steps generalizing last with
  | nil => simp [acceptedPrefix]
  | cons s rest ih =>
    unfold acceptedPrefix
    split
    · rename_i h
      intro x hx
      rcases List.mem_cons.1 hx with rfl | hx
      · simp [accepted] at h; exact ⟨h.1.1, h.1.2⟩
      · exact ih _ x hx
    · simp

theorem lastT_cons (last : Option Rat) (s : Step) (P : List Step) :
    lastT last (s :: P) = lastT (some s.t) P := by
  unfold lastT
  cases P with
  | nil => simp
  | cons a P =>
    rw [List.getLast?_cons_cons]
    cases h : (a :: P).getLast? with
    | none => simp at h
    | some x => rfl

/-- maximality: the record following the accepted prefix (if any) is NOT accepted. -/
theorem acceptedPrefix_maximal (steps : List Step) (last : Option Rat) (s : Step) (rest : List Step)
    (h : steps = acceptedPrefix steps last ++ s :: rest) :
    accepted s (lastT last (acceptedPrefix steps last)) = false := by
  induction steps generalizing last with
  | nil => simp at h
  | cons a tl ih =>
    unfold acceptedPrefix at h ⊢
    split at h
    · rename_i ha
      simp only [ha, if_true]
      rw [lastT_cons]
      simp only [List.cons_append, List.cons.injEq, true_and] at h
      exact ih _ h
    · rename_i ha
      simp only [List.nil_append, List.cons.injEq] at h
      obtain ⟨rfl, _⟩ := h
      rw [if_neg ha]
      simpa [lastT] using ha

/-- if a record with a non-positive eigenvalue sits at position `pre.length`, nothing from that
record on is ever appended. -/
theorem acceptedPrefix_stops (pre : List Step) (s : Step) (post : List Step) (last : Option Rat)
    (hs : s.eigPos = false) : acceptedPrefix (pre ++ s :: post) last <+: pre := by
  induction pre generalizing last with
  | nil => simp [acceptedPrefix, accepted, hs]
  | cons a tl ih =>
    simp only [List.cons_append]
    unfold acceptedPrefix
    split
    · exact (List.prefix_cons_inj a).2 (ih _)
    · exact List.nil_prefix

/-! ## `listMin` / `listMax` -/

theorem foldl_min_le_init (l : List Rat) (a : Rat) :
    l.foldl (fun a b => if b < a then b else a) a ≤ a := by
  induction l generalizing a with
  | nil => simp
  | cons x t ih =>
    simp only [List.foldl_cons]
    split
    · exact le_trans (ih _) (le_of_lt ‹_›)
    · exact ih _

theorem foldl_min_le_mem (l : List Rat) (a x : Rat) (hx : x ∈ l) :
    l.foldl (fun a b => if b < a then b else a) a ≤ x := by
  induction l generalizing a with
  | nil => simp at hx
  | cons y t ih =>
    simp only [List.foldl_cons]
    rcases List.mem_cons.1 hx with rfl | hx
    · refine le_trans (foldl_min_le_init _ _) ?_
      split
      · exact le_rfl
      · exact not_lt.1 ‹_›
    · exact ih _ hx

theorem foldl_min_mem (l : List Rat) (a : Rat) :
    l.foldl (fun a b => if b < a then b else a) a = a ∨
      l.foldl (fun a b => if b < a then b else a) a ∈ l := by
  induction l generalizing a with
  | nil => simp
  | cons y t ih =>
    simp only [List.foldl_cons]
    split
    · rcases ih y with h | h
      · right; rw [h]; exact List.mem_cons_self
      · right; exact List.mem_cons_of_mem _ h
    · rcases ih a with h | h
      · left; exact h
      · right; exact List.mem_cons_of_mem _ h

theorem foldl_max_ge_init (l : List Rat) (a : Rat) :
    a ≤ l.foldl (fun a b => if a < b then b else a) a := by
  induction l generalizing a with
  | nil => simp
  | cons x t ih =>
    simp only [List.foldl_cons]
    split
    · exact le_trans (le_of_lt ‹_›) (ih _)
    · exact ih _

theorem foldl_max_ge_mem (l : List Rat) (a x : Rat) (hx : x ∈ l) :
    x ≤ l.foldl (fun a b => if a < b then b else a) a := by
  induction l generalizing a with
  | nil => simp at hx
  | cons y t ih =>
    simp only [List.foldl_cons]
    rcases List.mem_cons.1 hx with rfl | hx
    · refine le_trans ?_ (foldl_max_ge_init _ _)
      split
      · exact le_rfl
      · exact not_lt.1 ‹_›
    · exact ih _ hx

theorem foldl_max_mem (l : List Rat) (a : Rat) :
    l.foldl (fun a b => if a < b then b else a) a = a ∨
      l.foldl (fun a b => if a < b then b else a) a ∈ l := by
  induction l generalizing a with
  | nil => simp
  | cons y t ih =>
    simp only [List.foldl_cons]
    split
    · rcases ih y with h | h
      · right; rw [h]; exact List.mem_cons_self
      · right; exact List.mem_cons_of_mem _ h
    · rcases ih a with h | h
      · left; exact h
      · right; exact List.mem_cons_of_mem _ h

/-- `listMin` is a lower bound of the list (`min(TFullList)`). -/
theorem listMin_le (l : List Rat) (d x : Rat) (hx : x ∈ l) : listMin l d ≤ x :=
  foldl_min_le_mem l _ x hx

/-- `listMin` of a non-empty list is one of its elements. -/
theorem listMin_mem (l : List Rat) (d : Rat) (h : l ≠ []) : listMin l d ∈ l := by
  cases l with
  | nil => exact absurd rfl h
  | cons x t =>
    unfold listMin
    rcases foldl_min_mem (x :: t) x with h | h
    · simp only [List.headD_cons]; rw [h]; exact List.mem_cons_self
    · exact h

theorem le_listMax (l : List Rat) (d x : Rat) (hx : x ∈ l) : x ≤ listMax l d :=
  foldl_max_ge_mem l _ x hx

theorem listMax_mem (l : List Rat) (d : Rat) (h : l ≠ []) : listMax l d ∈ l := by
  cases l with
  | nil => exact absurd rfl h
  | cons x t =>
    unfold listMax
    rcases foldl_max_mem (x :: t) x with h | h
    · simp only [List.headD_cons]; rw [h]; exact List.mem_cons_self
    · exact h

/-- `listMin` is characterised as THE least element. -/
theorem listMin_eq_iff (l : List Rat) (d m : Rat) (h : l ≠ []) :
    listMin l d = m ↔ m ∈ l ∧ ∀ x ∈ l, m ≤ x := by
  constructor
  · rintro rfl; exact ⟨listMin_mem l d h, fun x hx => listMin_le l d x hx⟩
  · rintro ⟨hm, hle⟩
    exact le_antisymm (listMin_le l d m hm) (hle _ (listMin_mem l d h))

theorem listMax_eq_iff (l : List Rat) (d m : Rat) (h : l ≠ []) :
    listMax l d = m ↔ m ∈ l ∧ ∀ x ∈ l, x ≤ m := by
  constructor
  · rintro rfl; exact ⟨listMax_mem l d h, fun x hx => le_listMax l d x hx⟩
  · rintro ⟨hm, hle⟩
    exact le_antisymm (hle _ (listMax_mem l d h)) (le_listMax l d m hm)

/-- in a strictly increasing list the minimum is the first element -/
theorem listMin_sorted (x : Rat) (t : List Rat) (d : Rat) (h : (x :: t).Pairwise (· < ·)) :
    listMin (x :: t) d = x := by
  rw [listMin_eq_iff _ _ _ (by simp)]
  refine ⟨List.mem_cons_self, fun y hy => ?_⟩
  rcases List.mem_cons.1 hy with rfl | hy
  · exact le_rfl
  · exact le_of_lt ((List.pairwise_cons.1 h).1 y hy)

/-- in a strictly increasing list the maximum is the last element -/
theorem listMax_sorted (l : List Rat) (d : Rat) (hne : l ≠ []) (h : l.Pairwise (· < ·)) :
    listMax l d = l.getLast hne := by
  rw [listMax_eq_iff _ _ _ hne]
  refine ⟨List.getLast_mem hne, fun y hy => ?_⟩
  have hl : l = l.dropLast ++ [l.getLast hne] := (List.dropLast_append_getLast hne).symm
  rw [hl] at h hy
  rcases List.mem_append.1 hy with hy | hy
  · exact le_of_lt ((List.pairwise_append.1 h).2.2 y hy _ (by simp))
  · simp at hy; exact le_of_eq hy

/-! ## `tracePhase` in terms of the accepted prefixes -/

/-- temperatures appended in the upward direction (after `T0`) -/
def upTimes (T0 : Rat) (up : List Step) : List Rat := (acceptedPrefix up (some T0)).map Step.t
/-- temperatures stored in the downward direction (`TList` starts empty) -/
def downTimes (down : List Step) : List Rat := (acceptedPrefix down none).map Step.t

/-- `TFullList` (`none` = `RuntimeError("Failed to trace phase")`) -/
def fullTable (T0 : Rat) (up down : List Step) : Option (List Rat) :=
  if 1 < (downTimes down).length then some ((downTimes down).reverse ++ T0 :: upTimes T0 up)
  else if upTimes T0 up = [] then none
  else some (T0 :: upTimes T0 up)

theorem runDirection_up (T0 : Rat) (up : List Step) :
    runDirection up [T0] = T0 :: upTimes T0 up := by
  rw [runDirection_eq]; simp [upTimes]

theorem runDirection_down (down : List Step) : runDirection down [] = downTimes down := by
  rw [runDirection_eq]; simp [downTimes]

theorem tracePhase_eq (T0 TMin TMax dT : Rat) (up down : List Step) :
    tracePhase T0 TMin TMax dT up down =
      match fullTable T0 up down with
      | none => .error .failedToTrace
      | some tf =>
        if ¬ (listMin tf T0 + 2 * dT < listMax tf T0 - 2 * dT) then .error .negativeRange
        else .ok { table := tf, minPossible := listMin tf T0 + 2 * dT,
                   minFlag := decide (TMin < listMin tf T0),
                   maxPossible := listMax tf T0 - 2 * dT,
                   maxFlag := decide (listMax tf T0 < TMax) } := by
  unfold tracePhase fullTable
  simp only [runDirection_up, runDirection_down]
  by_cases h1 : 1 < (downTimes down).length
  · simp [h1]
  · by_cases h2 : upTimes T0 up = []
    · simp [h1, h2]
    · have : ¬ ((upTimes T0 up).length + 1 ≤ 1) := by
        cases h : upTimes T0 up with
        | nil => exact absurd h h2
        | cons a t => simp
      simp [h1, h2, this]

theorem tracePhase_ok_iff (T0 TMin TMax dT : Rat) (up down : List Step) (r : Result) :
    tracePhase T0 TMin TMax dT up down = .ok r ↔
      ∃ tf, fullTable T0 up down = some tf ∧
        listMin tf T0 + 2 * dT < listMax tf T0 - 2 * dT ∧
        r = { table := tf, minPossible := listMin tf T0 + 2 * dT,
              minFlag := decide (TMin < listMin tf T0),
              maxPossible := listMax tf T0 - 2 * dT,
              maxFlag := decide (listMax tf T0 < TMax) } := by
  rw [tracePhase_eq]
  cases h : fullTable T0 up down with
  | none => simp
  | some tf =>
    by_cases hr : listMin tf T0 + 2 * dT < listMax tf T0 - 2 * dT
    · simp [hr, eq_comm]
    · simp [hr]

theorem fullTable_ne_nil {T0 : Rat} {up down : List Step} {tf : List Rat}
    (h : fullTable T0 up down = some tf) : tf ≠ [] := by
  unfold fullTable at h
  split at h
  · cases h; simp
  · split at h
    · cases h
    · cases h; simp

theorem T0_mem_fullTable {T0 : Rat} {up down : List Step} {tf : List Rat}
    (h : fullTable T0 up down = some tf) : T0 ∈ tf := by
  unfold fullTable at h
  split at h
  · cases h; simp
  · split at h
    · cases h
    · cases h; simp

/-- every table entry is `T0` or the `t` of an accepted record -/
theorem mem_fullTable {T0 : Rat} {up down : List Step} {tf : List Rat}
    (h : fullTable T0 up down = some tf) (x : Rat) (hx : x ∈ tf) :
    x = T0 ∨ x ∈ upTimes T0 up ∨ x ∈ downTimes down := by
  unfold fullTable at h
  split at h
  · cases h
    simp only [List.mem_append, List.mem_reverse, List.mem_cons] at hx
    tauto
  · split at h
    · cases h
    · cases h
      simp only [List.mem_cons] at hx
      tauto

theorem upTimes_mem_fullTable {T0 : Rat} {up down : List Step} {tf : List Rat}
    (h : fullTable T0 up down = some tf) (x : Rat) (hx : x ∈ upTimes T0 up) : x ∈ tf := by
  unfold fullTable at h
  split at h
  · cases h; simp [hx]
  · split at h
    · cases h
    · cases h; simp [hx]

theorem upTimes_sublist (T0 : Rat) (up : List Step) : (upTimes T0 up).Sublist (up.map Step.t) :=
  ((acceptedPrefix_prefix up _).map Step.t).sublist

theorem downTimes_sublist (down : List Step) : (downTimes down).Sublist (down.map Step.t) :=
  ((acceptedPrefix_prefix down _).map Step.t).sublist

theorem mem_upTimes {T0 : Rat} {up : List Step} {x : Rat} (hx : x ∈ upTimes T0 up) :
    ∃ s ∈ up, s.eigPos = true ∧ s.tiny = false ∧ s.t = x := by
  obtain ⟨s, hs, rfl⟩ := List.mem_map.1 hx
  exact ⟨s, (acceptedPrefix_prefix up _).subset hs, (acceptedPrefix_good _ _ s hs).1,
    (acceptedPrefix_good _ _ s hs).2, rfl⟩

theorem mem_downTimes {down : List Step} {x : Rat} (hx : x ∈ downTimes down) :
    ∃ s ∈ down, s.eigPos = true ∧ s.tiny = false ∧ s.t = x := by
  obtain ⟨s, hs, rfl⟩ := List.mem_map.1 hx
  exact ⟨s, (acceptedPrefix_prefix down _).subset hs, (acceptedPrefix_good _ _ s hs).1,
    (acceptedPrefix_good _ _ s hs).2, rfl⟩

/-- with monotone integrator times the assembled table is strictly increasing -/
theorem fullTable_sorted {T0 : Rat} {up down : List Step} {tf : List Rat}
    (h : fullTable T0 up down = some tf)
    (hup : (up.map Step.t).Pairwise (· < ·)) (hup0 : ∀ s ∈ up, T0 < s.t)
    (hdown : (down.map Step.t).Pairwise (· > ·)) (hdown0 : ∀ s ∈ down, s.t < T0) :
    tf.Pairwise (· < ·) := by
  have hU : (T0 :: upTimes T0 up).Pairwise (· < ·) := by
    refine List.pairwise_cons.2 ⟨fun x hx => ?_, hup.sublist (upTimes_sublist T0 up)⟩
    obtain ⟨s, hs, _, _, rfl⟩ := mem_upTimes hx
    exact hup0 s hs
  unfold fullTable at h
  split at h
  · cases h
    refine List.pairwise_append.2 ⟨?_, hU, fun a ha b hb => ?_⟩
    · rw [List.pairwise_reverse]
      exact (hdown.sublist (downTimes_sublist down)).imp (fun h => h)
    · obtain ⟨s, hs, _, _, rfl⟩ := mem_downTimes (List.mem_reverse.1 ha)
      rcases List.mem_cons.1 hb with rfl | hb
      · exact hdown0 s hs
      · obtain ⟨s', hs', _, _, rfl⟩ := mem_upTimes hb
        exact lt_trans (hdown0 s hs) (hup0 s' hs')
  · split at h
    · cases h
    · cases h; exact hU

/-! ## the coarse loop of `findCriticalTemperature` -/

theorem sgn_eq_one_iff (x : Rat) : sgn x = 1 ↔ 0 < x := by
  unfold sgn; split
  · constructor
    · intro h; omega
    · intro h; linarith
  · split <;> simp_all

theorem sgn_eq_neg_one_iff (x : Rat) : sgn x = -1 ↔ x < 0 := by
  unfold sgn; split
  · simp_all
  · split <;> simp_all

theorem sgn_eq_zero_iff (x : Rat) : sgn x = 0 ↔ x = 0 := by
  unfold sgn; split
  · constructor
    · intro h; omega
    · intro h; linarith
  · split
    · constructor
      · intro h; omega
      · intro h; linarith
    · constructor
      · intro _; linarith
      · intro _; rfl

theorem coarseLoop_spec (dF : Rat → Rat) (TMin dT : Rat) (s0 : Int) (fuel : Nat) (T a : Rat)
    (h : coarseLoop dF TMin dT s0 fuel T = some a) :
    ∃ k : Nat, 1 ≤ k ∧ k ≤ fuel ∧ a = T - k * dT ∧ TMin < a ∧ sgn (dF a) ≠ s0 ∧
      (∀ j : Nat, 1 ≤ j → j < k → TMin < T - j * dT ∧ sgn (dF (T - j * dT)) = s0) := by
  induction fuel generalizing T with
  | zero => simp [coarseLoop] at h
  | succ n ih =>
    unfold coarseLoop at h
    split at h
    · rename_i hgt
      simp only at h
      split at h
      · rename_i hs
        cases h
        refine ⟨1, le_rfl, by omega, by simp, hgt, hs, fun j h1 h2 => by omega⟩
      · rename_i hs
        obtain ⟨k, hk1, hkn, hak, hmin, hsg, hall⟩ := ih _ h
        refine ⟨k + 1, by omega, by omega, ?_, hmin, hsg, fun j h1 h2 => ?_⟩
        · rw [hak]; push_cast; ring
        · rcases Nat.eq_or_lt_of_le h1 with rfl | h1'
          · simp only [Nat.cast_one, one_mul]
            exact ⟨hgt, not_not.1 hs⟩
          · obtain ⟨j', rfl⟩ : ∃ j', j = j' + 1 := ⟨j - 1, by omega⟩
            have := hall j' (by omega) (by omega)
            have e : T - ((j' + 1 : Nat) : Rat) * dT = T - dT - (j' : Rat) * dT := by
              push_cast; ring
            rw [e]; exact this
    · cases h

/-- enough fuel: the result no longer depends on it -/
theorem coarseLoop_fuel (dF : Rat → Rat) (TMin dT : Rat) (s0 : Int)
    (n m : Nat) (T : Rat) (hn : T - TMin ≤ (n + 1 : Nat) * dT) (hnm : n ≤ m) :
    coarseLoop dF TMin dT s0 n T = coarseLoop dF TMin dT s0 m T := by
  induction n generalizing m T with
  | zero =>
    cases m with
    | zero => rfl
    | succ m =>
      simp only [Nat.zero_add, Nat.cast_one, one_mul] at hn
      have : ¬ (T - dT > TMin) := by intro h; linarith
      simp [coarseLoop, this]
  | succ n ih =>
    cases m with
    | zero => omega
    | succ m =>
      unfold coarseLoop
      split
      · simp only
        split
        · rfl
        · refine ih m (T - dT) ?_ (by omega)
          push_cast at hn ⊢; linarith
      · rfl

end Lemmas.Tracer
