/-
Helper lemmas for property C01 (`Props/C01.lean`): decision logic of `EOM.solveWall`
(`Model.SolveWall.doubling`, `solveWall`) and the convergence loop of `EOM.wallPressure`
(`loopBody`, `runLoop`).
-/
import Mathlib.Tactic
import WallGoVerif.Model.SolveWall

namespace Lemmas.SolveWall

open Model.SolveWall

/-! ## the doubling loop -/

/-- `some` result of the doubling loop: `k` doublings, positive pressure at each earlier point,
non-positive pressure at the returned one, and every doubled value stayed below `vMax`. -/
theorem doubling_some_spec (press : Rat → Rat) (vMax : Rat) (fuel : Nat) (v vLo pLo : Rat)
    (h : doubling press vMax fuel v (press v) = some (vLo, pLo)) :
    ∃ k : Nat, k < fuel ∧ vLo = v * 2 ^ k ∧ pLo = press vLo ∧ pLo ≤ 0 ∧
      (∀ j : Nat, j < k → 0 < press (v * 2 ^ j)) ∧
      (∀ j : Nat, 1 ≤ j → j ≤ k → v * 2 ^ j < vMax) := by
  induction fuel generalizing v with
  | zero => simp [doubling] at h
  | succ n ih =>
    unfold doubling at h
    split at h
    · rename_i hpos
      simp only at h
      split at h
      · cases h
      · rename_i hlt
        obtain ⟨k, hk, hv, hp, hle, hall, hbd⟩ := ih _ h
        refine ⟨k + 1, by omega, by rw [hv]; ring, hp, hle, fun j hj => ?_, fun j h1 h2 => ?_⟩
        · rcases Nat.eq_zero_or_pos j with rfl | hj0
          · simpa using hpos
          · obtain ⟨j', rfl⟩ : ∃ j', j = j' + 1 := ⟨j - 1, by omega⟩
            have := hall j' (by omega)
            rwa [show v * 2 * 2 ^ j' = v * 2 ^ (j' + 1) by ring] at this
        · obtain ⟨j', rfl⟩ : ∃ j', j = j' + 1 := ⟨j - 1, by omega⟩
          rcases Nat.eq_zero_or_pos j' with rfl | hj0
          · simpa using not_le.1 hlt
          · have := hbd j' hj0 (by omega)
            rwa [show v * 2 * 2 ^ j' = v * 2 ^ (j' + 1) by ring] at this
    · rename_i hnpos
      simp only [Option.some.injEq, Prod.mk.injEq] at h
      obtain ⟨rfl, rfl⟩ := h
      exact ⟨0, by omega, by simp, rfl, not_lt.1 hnpos, fun j hj => by omega, fun j h1 h2 => by omega⟩

/-- `none` result with enough fuel: the genuine exit "`vMin` doubled past `vMax` while the pressure was
still positive" — not fuel exhaustion. -/
theorem doubling_none_spec (press : Rat → Rat) (vMax : Rat) (fuel : Nat) (v : Rat)
    (hfuel : vMax ≤ v * 2 ^ fuel) (h1 : 1 ≤ fuel)
    (h : doubling press vMax fuel v (press v) = none) :
    ∃ k : Nat, k < fuel ∧ (∀ j : Nat, j ≤ k → 0 < press (v * 2 ^ j)) ∧
      (∀ j : Nat, 1 ≤ j → j ≤ k → v * 2 ^ j < vMax) ∧ vMax ≤ v * 2 ^ (k + 1) := by
  induction fuel generalizing v with
  | zero => omega
  | succ n ih =>
    unfold doubling at h
    split at h
    · rename_i hpos
      simp only at h
      split at h
      · rename_i hge
        refine ⟨0, by omega, fun j hj => ?_, fun j h1 h2 => by omega, by simpa using hge⟩
        obtain rfl : j = 0 := by omega
        simpa using hpos
      · rename_i hlt
        have hn1 : 1 ≤ n := by
          rcases Nat.eq_zero_or_pos n with rfl | hn
          · exfalso; apply hlt; simpa using hfuel
          · exact hn
        have hf' : vMax ≤ v * 2 * 2 ^ n := by rw [show v * 2 * 2 ^ n = v * 2 ^ (n + 1) by ring]; exact hfuel
        obtain ⟨k, hk, hall, hbd, hex⟩ := ih _ hf' hn1 h
        refine ⟨k + 1, by omega, fun j hj => ?_, fun j h1 h2 => ?_, ?_⟩
        · rcases Nat.eq_zero_or_pos j with rfl | hj0
          · simpa using hpos
          · obtain ⟨j', rfl⟩ : ∃ j', j = j' + 1 := ⟨j - 1, by omega⟩
            have := hall j' (by omega)
            rwa [show v * 2 * 2 ^ j' = v * 2 ^ (j' + 1) by ring] at this
        · obtain ⟨j', rfl⟩ : ∃ j', j = j' + 1 := ⟨j - 1, by omega⟩
          rcases Nat.eq_zero_or_pos j' with rfl | hj0
          · simpa using not_le.1 hlt
          · have := hbd j' hj0 (by omega)
            rwa [show v * 2 * 2 ^ j' = v * 2 ^ (j' + 1) by ring] at this
        · rwa [show v * 2 * 2 ^ (k + 1) = v * 2 ^ (k + 1 + 1) by ring] at hex
    · cases h

/-- with enough fuel the result of the doubling loop does not depend on the fuel -/
theorem doubling_fuel (press : Rat → Rat) (vMax : Rat) (n m : Nat) (v : Rat)
    (hfuel : vMax ≤ v * 2 ^ n) (h1 : 1 ≤ n) (hnm : n ≤ m) :
    doubling press vMax n v (press v) = doubling press vMax m v (press v) := by
  induction n generalizing m v with
  | zero => omega
  | succ n ih =>
    cases m with
    | zero => omega
    | succ m =>
      unfold doubling
      split
      · simp only
        split
        · rfl
        · rename_i hlt
          have hn1 : 1 ≤ n := by
            rcases Nat.eq_zero_or_pos n with rfl | hn
            · exfalso; apply hlt; simpa using hfuel
            · exact hn
          refine ih m (v * 2) ?_ hn1 (by omega)
          rw [show v * 2 * 2 ^ n = v * 2 ^ (n + 1) by ring]; exact hfuel
      · rfl

/-- the doubling loop only looks at `press` on the grid `v·2^j` -/
theorem doubling_congr (press press' : Rat → Rat) (vMax : Rat) (fuel : Nat) (v : Rat)
    (h : ∀ j : Nat, press (v * 2 ^ j) = press' (v * 2 ^ j)) :
    doubling press vMax fuel v (press v) = doubling press' vMax fuel v (press' v) := by
  induction fuel generalizing v with
  | zero => rfl
  | succ n ih =>
    have h0 : press v = press' v := by simpa using h 0
    unfold doubling
    rw [h0]
    split
    · simp only
      split
      · rfl
      · refine ih (v * 2) (fun j => ?_)
        have := h (j + 1)
        rwa [show v * 2 ^ (j + 1) = v * 2 * 2 ^ j by ring] at this
    · rfl

/-! ## `solveWall`: the final `if`-chain as a function -/

/-- the chain of `setSuccessState` calls after the root finder: (success, type, branch number) -/
def finalBranch (f : Flags) (conv : Bool) (root vJ : Rat) : Bool × SolType × Nat :=
  if !f.succTemp then (false, .error, 3)
  else if !f.tMinusIn then (false, .error, 4)
  else if !f.tPlusIn then (false, .error, 5)
  else if !f.succPress then (false, .error, 6)
  else if !conv then (false, .error, 7)
  else if f.saturates then (false, .error, 8)
  else if root > vJ then (true, .detonation, 10)
  else (true, .deflagration, 9)

theorem solveWall_eq (press : Rat → Rat) (vMin vMax vJ : Rat) (brent : Rat → Rat → Rat × Bool)
    (flagsAt : Rat → Flags) (fuel : Nat) :
    solveWall press vMin vMax vJ brent flagsAt fuel =
      if press vMax < 0 then
        { success := true, typ := .runaway, velocity := none, branch := 1, vMinFinal := vMin }
      else
        match doubling press vMax fuel vMin (press vMin) with
        | none => { success := false, typ := .error, velocity := none, branch := 2, vMinFinal := vMin }
        | some (vLo, _) =>
          { success := (finalBranch (flagsAt (brent vLo vMax).1) (brent vLo vMax).2 (brent vLo vMax).1 vJ).1,
            typ := (finalBranch (flagsAt (brent vLo vMax).1) (brent vLo vMax).2 (brent vLo vMax).1 vJ).2.1,
            velocity := some (brent vLo vMax).1,
            branch := (finalBranch (flagsAt (brent vLo vMax).1) (brent vLo vMax).2 (brent vLo vMax).1 vJ).2.2,
            vMinFinal := vLo } := by
  unfold solveWall
  simp only
  split
  · rfl
  · cases hd : doubling press vMax fuel vMin (press vMin) with
    | none => rfl
    | some r =>
      obtain ⟨vLo, pLo⟩ := r
      simp only
      rcases hb : brent vLo vMax with ⟨root, conv⟩
      simp only
      generalize flagsAt root = f
      rcases f with ⟨a, b, c, d, e⟩
      unfold finalBranch
      by_cases hr : root > vJ <;>
        cases a <;> cases b <;> cases c <;> cases d <;> cases e <;> cases conv <;> simp [hr]

/-- facts about the final chain, by exhaustive case distinction -/
theorem finalBranch_spec (f : Flags) (conv : Bool) (root vJ : Rat) :
    let fb := finalBranch f conv root vJ
    (fb.1 = true ↔ f.succTemp = true ∧ f.tMinusIn = true ∧ f.tPlusIn = true ∧ f.succPress = true ∧
        conv = true ∧ f.saturates = false) ∧
    (fb.1 = false ↔ fb.2.1 = .error) ∧
    (fb.2.1 ≠ .runaway) ∧
    (fb.1 = true → (fb.2.1 = .detonation ↔ vJ < root) ∧ (fb.2.1 = .deflagration ↔ ¬ vJ < root) ∧
        (fb.2.2 = 10 ↔ vJ < root) ∧ (fb.2.2 = 9 ↔ ¬ vJ < root)) ∧
    3 ≤ fb.2.2 ∧ fb.2.2 ≤ 10 ∧ (fb.1 = true ↔ fb.2.2 = 9 ∨ fb.2.2 = 10) := by
  rcases f with ⟨a, b, c, d, e⟩
  unfold finalBranch
  by_cases hr : root > vJ <;>
    cases a <;> cases b <;> cases c <;> cases d <;> cases e <;> cases conv <;> simp [hr]

/-! ## the `wallPressure` loop -/

theorem absR_eq_abs (x : Rat) : absR x = |x| := by
  unfold absR; split
  · exact (abs_of_neg ‹_›).symm
  · exact (abs_of_nonneg (not_lt.1 ‹_›)).symm

theorem maxR_eq_max (a b : Rat) : maxR a b = max a b := by
  unfold maxR; split
  · exact (max_eq_right (le_of_lt ‹_›)).symm
  · exact (max_eq_left (not_lt.1 ‹_›)).symm

theorem minR_eq_min (a b : Rat) : minR a b = min a b := by
  unfold minR; split
  · exact (min_eq_right (le_of_lt ‹_›)).symm
  · exact (min_eq_left (not_lt.1 ‹_›)).symm

/-- `errTol` of the current iteration -/
def errTolOf (rtol atol : Rat) (s : LoopState) (p : Rat) : Rat :=
  maxR (rtol * absR p) atol * s.multiplier

/-- `pressures[-2]` after the append (the previous pressure) -/
def prevP (s : LoopState) (p : Rat) : Rat :=
  (s.pressures ++ [p]).getD ((s.pressures ++ [p]).length - 2) 0

/-- the convergence test `error < errTol or (errorSolver < errTol and improveConvergence)` -/
def convTest (rtol atol : Rat) (s : LoopState) (p e : Rat) : Prop :=
  absR (p - prevP s p) < errTolOf rtol atol s p ∨ (e < errTolOf rtol atol s p ∧ s.improve = true)

/-- mean of the last (at most four) pressures -/
def meanLast4 (s : LoopState) (p : Rat) : Rat :=
  (((s.pressures ++ [p]).drop ((s.pressures ++ [p]).length - 4)).foldl (· + ·) 0) /
    (((s.pressures ++ [p]).drop ((s.pressures ++ [p]).length - 4)).length : Nat)

theorem last1 (l : List Rat) (p : Rat) : (l ++ [p]).getD ((l ++ [p]).length - 1) 0 = p := by
  simp [List.getD_eq_getElem?_getD]

theorem prevP_eq (s : LoopState) (p : Rat) (h : s.pressures ≠ []) :
    prevP s p = s.pressures.getLast h := by
  unfold prevP
  have hl : 0 < s.pressures.length := List.length_pos_iff.2 h
  have hi : (s.pressures ++ [p]).length - 2 = s.pressures.length - 1 := by simp
  rw [hi, List.getD_eq_getElem?_getD, List.getElem?_append_left (by omega),
    List.getLast_eq_getElem]
  simp [List.getElem?_eq_getElem (show s.pressures.length - 1 < s.pressures.length by omega)]

theorem loopBody_converged_iff (rtol atol : Rat) (maxIter : Nat) (s : LoopState) (p e q : Rat) :
    loopBody rtol atol maxIter s p e = .converged q ↔
      q = p ∧ convTest rtol atol s p e ∧ e ≤ errTolOf rtol atol s p := by
  unfold loopBody convTest errTolOf prevP
  simp only [last1, Bool.or_eq_true, Bool.and_eq_true, decide_eq_true_eq]
  split_ifs with h1 h2 h3
  · constructor
    · intro h; cases h
    · rintro ⟨_, _, h⟩; exact absurd h (not_le.2 h2)
  · simp only [LoopOut.converged.injEq]
    constructor
    · rintro rfl; exact ⟨rfl, h1, not_lt.1 h2⟩
    · rintro ⟨rfl, _, _⟩; rfl
  · constructor
    · intro h; cases h
    · rintro ⟨_, h, _⟩; exact absurd h h1
  · constructor
    · intro h; cases h
    · rintro ⟨_, h, _⟩; exact absurd h h1

theorem loopBody_gaveUp_iff (rtol atol : Rat) (maxIter : Nat) (s : LoopState) (p e q : Rat) :
    loopBody rtol atol maxIter s p e = .gaveUp q ↔
      q = meanLast4 s p ∧ ¬ convTest rtol atol s p e ∧ s.i + 1 ≥ maxIter - 1 := by
  unfold loopBody convTest errTolOf prevP meanLast4
  simp only [last1, Bool.or_eq_true, Bool.and_eq_true, decide_eq_true_eq]
  split_ifs with h1 h2 h3
  · constructor
    · intro h; cases h
    · rintro ⟨_, h, _⟩; exact absurd h1 h
  · constructor
    · intro h; cases h
    · rintro ⟨_, h, _⟩; exact absurd h1 h
  · simp only [LoopOut.gaveUp.injEq]
    constructor
    · rintro rfl; exact ⟨rfl, h1, h3⟩
    · rintro ⟨rfl, _, _⟩; rfl
  · constructor
    · intro h; cases h
    · rintro ⟨_, _, h⟩; exact absurd h h3

/-- what a continuing iteration does to the state -/
theorem loopBody_running (rtol atol : Rat) (maxIter : Nat) (s s' : LoopState) (p e : Rat)
    (h : loopBody rtol atol maxIter s p e = .running s') :
    s'.i = s.i + 1 ∧ s'.pressures = s.pressures ++ [p] ∧ (s.improve = true → s'.improve = true) ∧
      (s'.multiplier = s.multiplier ∨ s'.multiplier = s.multiplier / 2 ∨
        s'.multiplier = minR s.multiplier (halfPow ((s.i + 1) / 10))) ∧
      ((convTest rtol atol s p e ∧ errTolOf rtol atol s p < e ∧ s'.multiplier = s.multiplier / 2) ∨
        (¬ convTest rtol atol s p e ∧ s.i + 1 < maxIter - 1)) := by
  unfold loopBody convTest errTolOf prevP at *
  simp only [last1, Bool.or_eq_true, Bool.and_eq_true, decide_eq_true_eq] at h ⊢
  split_ifs at h <;>
    (simp only [LoopOut.running.injEq] at h
     subst h
     refine ⟨rfl, rfl, fun hi => by simp [hi], by simp, ?_⟩
     first
     | exact Or.inl ⟨‹_›, ‹_›, rfl⟩
     | exact Or.inr ⟨‹_›, by omega⟩)

theorem halfPow_pos (n : Nat) : 0 < halfPow n := by
  induction n with
  | zero => simp [halfPow]
  | succ n ih => unfold halfPow; positivity

theorem halfPow_eq (n : Nat) : halfPow n = (1 / 2 : Rat) ^ n := by
  induction n with
  | zero => simp [halfPow]
  | succ n ih => unfold halfPow; rw [ih, pow_succ]; ring

/-- one continuing iteration: the multiplier stays positive and does not increase -/
theorem loopBody_multiplier (rtol atol : Rat) (maxIter : Nat) (s s' : LoopState) (p e : Rat)
    (h : loopBody rtol atol maxIter s p e = .running s') (hm : 0 < s.multiplier) :
    0 < s'.multiplier ∧ s'.multiplier ≤ s.multiplier := by
  rcases (loopBody_running _ _ _ _ _ _ _ h).2.2.2.1 with h | h | h
  · rw [h]; exact ⟨hm, le_rfl⟩
  · rw [h]; constructor <;> linarith
  · rw [h]; unfold minR
    have := halfPow_pos ((s.i + 1) / 10)
    split
    · exact ⟨this, le_of_lt ‹_›⟩
    · exact ⟨hm, le_rfl⟩

theorem runLoop_nil (rtol atol : Rat) (maxIter : Nat) (s : LoopState) :
    runLoop rtol atol maxIter s [] = .running s := by
  unfold runLoop; rfl

theorem runLoop_cons (rtol atol : Rat) (maxIter : Nat) (s : LoopState) (p e : Rat)
    (rest : List (Rat × Rat)) :
    runLoop rtol atol maxIter s ((p, e) :: rest) =
      match loopBody rtol atol maxIter s p e with
      | .running s' => runLoop rtol atol maxIter s' rest
      | .converged q => .converged q
      | .gaveUp q => .gaveUp q := by
  conv_lhs => unfold runLoop
  generalize loopBody rtol atol maxIter s p e = r
  cases r <;> rfl

/-- along the whole loop -/
theorem runLoop_running (rtol atol : Rat) (maxIter : Nat) (s s' : LoopState) (obs : List (Rat × Rat))
    (h : runLoop rtol atol maxIter s obs = .running s') :
    s'.i = s.i + obs.length ∧ s'.pressures = s.pressures ++ obs.map Prod.fst ∧
      (s.improve = true → s'.improve = true) ∧
      (0 < s.multiplier → 0 < s'.multiplier ∧ s'.multiplier ≤ s.multiplier) := by
  induction obs generalizing s with
  | nil =>
    rw [runLoop_nil] at h
    simp only [LoopOut.running.injEq] at h
    subst h; simp
  | cons o rest ih =>
    obtain ⟨p, e⟩ := o
    rw [runLoop_cons] at h
    cases hb : loopBody rtol atol maxIter s p e with
    | running s1 =>
      rw [hb] at h
      simp only at h
      obtain ⟨hi, hp, himp, hmul⟩ := ih s1 h
      obtain ⟨hi1, hp1, himp1, _, _⟩ := loopBody_running _ _ _ _ _ _ _ hb
      refine ⟨by rw [hi, hi1]; simp; omega, by rw [hp, hp1]; simp, fun h => himp (himp1 h), fun hm => ?_⟩
      obtain ⟨h1, h2⟩ := loopBody_multiplier _ _ _ _ _ _ _ hb hm
      obtain ⟨h3, h4⟩ := hmul h1
      exact ⟨h3, le_trans h4 h2⟩
    | converged q => rw [hb] at h; cases h
    | gaveUp q => rw [hb] at h; cases h

/-- the loop stops at the first non-`running` iteration; its result is that iteration's result -/
theorem runLoop_converged (rtol atol : Rat) (maxIter : Nat) (s : LoopState) (obs : List (Rat × Rat))
    (q : Rat) (h : runLoop rtol atol maxIter s obs = .converged q) :
    ∃ pre p e post s1, obs = pre ++ (p, e) :: post ∧
      runLoop rtol atol maxIter s pre = .running s1 ∧
      loopBody rtol atol maxIter s1 p e = .converged q := by
  induction obs generalizing s with
  | nil => rw [runLoop_nil] at h; cases h
  | cons o rest ih =>
    obtain ⟨p, e⟩ := o
    rw [runLoop_cons] at h
    cases hb : loopBody rtol atol maxIter s p e with
    | running s1 =>
      rw [hb] at h
      simp only at h
      obtain ⟨pre, p', e', post, s2, hobs, hrun, hbody⟩ := ih s1 h
      refine ⟨(p, e) :: pre, p', e', post, s2, by rw [hobs]; rfl, ?_, hbody⟩
      rw [runLoop_cons, hb]; exact hrun
    | converged q' =>
      rw [hb] at h
      simp only [LoopOut.converged.injEq] at h
      subst h
      exact ⟨[], p, e, rest, s, rfl, runLoop_nil _ _ _ _, hb⟩
    | gaveUp q' => rw [hb] at h; cases h

/-- same for giving up -/
theorem runLoop_gaveUp (rtol atol : Rat) (maxIter : Nat) (s : LoopState) (obs : List (Rat × Rat))
    (q : Rat) (h : runLoop rtol atol maxIter s obs = .gaveUp q) :
    ∃ pre p e post s1, obs = pre ++ (p, e) :: post ∧
      runLoop rtol atol maxIter s pre = .running s1 ∧
      loopBody rtol atol maxIter s1 p e = .gaveUp q := by
  induction obs generalizing s with
  | nil => rw [runLoop_nil] at h; cases h
  | cons o rest ih =>
    obtain ⟨p, e⟩ := o
    rw [runLoop_cons] at h
    cases hb : loopBody rtol atol maxIter s p e with
    | running s1 =>
      rw [hb] at h
      simp only at h
      obtain ⟨pre, p', e', post, s2, hobs, hrun, hbody⟩ := ih s1 h
      refine ⟨(p, e) :: pre, p', e', post, s2, by rw [hobs]; rfl, ?_, hbody⟩
      rw [runLoop_cons, hb]; exact hrun
    | gaveUp q' =>
      rw [hb] at h
      simp only [LoopOut.gaveUp.injEq] at h
      subst h
      exact ⟨[], p, e, rest, s, rfl, runLoop_nil _ _ _ _, hb⟩
    | converged q' => rw [hb] at h; cases h

/-- the branch "converged but `errorSolver > errTol`" continues WITHOUT consulting `maxIter` -/
theorem loopBody_ignores_maxIter (rtol atol : Rat) (s : LoopState) (p e : Rat)
    (h1 : convTest rtol atol s p e) (h2 : errTolOf rtol atol s p < e) :
    ∃ imp, ∀ maxIter, loopBody rtol atol maxIter s p e =
      .running { i := s.i + 1, multiplier := s.multiplier / 2, improve := imp,
                 pressures := s.pressures ++ [p] } := by
  unfold convTest errTolOf prevP at h1
  unfold errTolOf at h2
  refine ⟨if (s.pressures ++ [p]).length > 2 then
      (s.improve || decide (absR ((s.pressures ++ [p]).getD ((s.pressures ++ [p]).length - 1) 0 -
          (s.pressures ++ [p]).getD ((s.pressures ++ [p]).length - 2) 0) >
        absR ((s.pressures ++ [p]).getD ((s.pressures ++ [p]).length - 2) 0 -
          (s.pressures ++ [p]).getD ((s.pressures ++ [p]).length - 3) 0) / (3 / 2)))
      else s.improve, fun maxIter => ?_⟩
  unfold loopBody
  simp only [last1, Bool.or_eq_true, Bool.and_eq_true, decide_eq_true_eq]
  rw [if_pos h1, if_pos h2]

/-- an infinite family: constant pressure `1`, `errorSolver = 1`, `rtol = 1/10`, `atol = 1/100`.  Every
iteration passes the convergence test on the pressures, fails the one on `errorSolver`, halves the
multiplier and continues — whatever `maxIter` is. -/
theorem runLoop_constant_stream (maxIter n : Nat) (s : LoopState)
    (hne : s.pressures ≠ []) (hall : ∀ x ∈ s.pressures, x = 1)
    (hm0 : 0 < s.multiplier) (hm1 : s.multiplier ≤ 1) :
    ∃ s', runLoop (1 / 10) (1 / 100) maxIter s (List.replicate n (1, 1)) = .running s' ∧
      s'.i = s.i + n ∧ s'.multiplier = s.multiplier * halfPow n := by
  induction n generalizing s with
  | zero => exact ⟨s, rfl, rfl, by simp [halfPow]⟩
  | succ n ih =>
    have hE : errTolOf (1 / 10) (1 / 100) s 1 = s.multiplier / 10 := by
      have : maxR (1 / 10 * absR 1) (1 / 100) = 1 / 10 := by decide +kernel
      unfold errTolOf; rw [this]; ring
    have hprev : prevP s 1 = 1 := by rw [prevP_eq s 1 hne]; exact hall _ (List.getLast_mem hne)
    have hA : absR ((1 : Rat) - 1) = 0 := by decide +kernel
    have h1 : convTest (1 / 10) (1 / 100) s 1 1 := by
      left; rw [hprev, hE, hA]; linarith
    have h2 : errTolOf (1 / 10) (1 / 100) s 1 < 1 := by rw [hE]; linarith
    obtain ⟨imp, hbody⟩ := loopBody_ignores_maxIter _ _ s 1 1 h1 h2
    obtain ⟨s', hrun, hi, hmul⟩ := ih
      { i := s.i + 1, multiplier := s.multiplier / 2, improve := imp, pressures := s.pressures ++ [1] }
      (by simp) (by intro x hx; rcases List.mem_append.1 hx with hx | hx
                    · exact hall x hx
                    · simpa using hx)
      (by simp only; linarith) (by simp only; linarith)
    refine ⟨s', ?_, by rw [hi]; simp only; omega, ?_⟩
    · rw [List.replicate_succ, runLoop_cons, hbody]; exact hrun
    · rw [hmul]; simp only [halfPow]; ring

end Lemmas.SolveWall
