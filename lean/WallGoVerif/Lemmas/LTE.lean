/-
Helper lemmas for property C05 (second part): the executable decision model `Model.LTE.findvwLTE` of
`Hydrodynamics.findvwLTE` (src/WallGo/hydrodynamics.py), specialised to `α := ℝ` with the constants of the code
(`zero := 0`, `d10 := 1e-10`, `d6 := 1e-6`).

Organisation
* `value`, `toLTEIn`, `value_findvwLTE`      : link to the older ℝ-only decision model `Lemmas.Hydro.findvwLTE`.
* `vmaxOf_*`                                 : the top of the velocity window.
* `findvwLTE_eq_runaway_iff`, `…_static_iff`, `…_root_iff` : characterisation of the three outcomes.
* `demoPhys`, `demoOracles`, `wigglePhys`    : concrete instances used for the non-vacuity examples of `Props/C05L.lean`.
-/
import WallGoVerif.Model.LTE
import WallGoVerif.Lemmas.Hydro
import Mathlib.Tactic

namespace Lemmas.LTE

open Model.LTE

/-! ## Link to `Lemmas.Hydro.findvwLTE` -/

/-- The float returned by the Python method for each outcome of the model: `1`, `0`, or the root. -/
def value : Outcome ℝ → ℝ
  | .runaway => 1
  | .static => 0
  | .root _ _ v => v

@[simp] theorem value_runaway : value .runaway = 1 := rfl
@[simp] theorem value_static : value .static = 0 := rfl
@[simp] theorem value_root (a b v : ℝ) : value (.root a b v) = v := rfl

/-- What the older decision model `Lemmas.Hydro.findvwLTE` observes, computed from the physics `P` and the
root-finder oracles `O` of the executable model. -/
noncomputable def toLTEIn (P : Phys ℝ) (O : Oracles ℝ) (Tn vMin vJ sqrtCs : ℝ) : Lemmas.Hydro.LTEIn where
  vMin := vMin
  vJ := vJ
  shockAtVmax := shock P (vJ - 1e-10)
  rootShock := O.rootS sqrtCs vJ
  diff := diff P Tn
  success := fun v => (P.mtch v).2.2
  root := O.rootD

theorem vmaxOf_eq_lteVmax (P : Phys ℝ) (O : Oracles ℝ) (Tn vMin vJ sqrtCs : ℝ) :
    vmaxOf P O 0 1e-10 1e-6 vJ sqrtCs = Lemmas.Hydro.lteVmax (toLTEIn P O Tn vMin vJ sqrtCs) := by
  unfold vmaxOf Lemmas.Hydro.lteVmax toLTEIn
  rfl

/-- Link lemma: the value returned by the executable model is the value of the older ℝ-only model. -/
theorem value_findvwLTE (P : Phys ℝ) (O : Oracles ℝ) (Tn vMin vJ sqrtCs : ℝ) :
    value (Model.LTE.findvwLTE P O 0 1e-10 1e-6 Tn vMin vJ sqrtCs)
      = Lemmas.Hydro.findvwLTE (toLTEIn P O Tn vMin vJ sqrtCs) := by
  unfold Model.LTE.findvwLTE Lemmas.Hydro.findvwLTE
  rw [← vmaxOf_eq_lteVmax]
  cases vmaxOf P O 0 1e-10 1e-6 vJ sqrtCs with
  | none => rfl
  | some vmax =>
    by_cases h1 : 0 < diff P Tn vmax ∨ (P.mtch vmax).2.2 = false
    · simp [toLTEIn, h1]
    · by_cases h2 : diff P Tn vMin < 0
      · simp [toLTEIn, h1, h2]
      · simp [toLTEIn, h1, h2]

/-! ## The window top -/

theorem vmaxOf_of_shock_nonpos (P : Phys ℝ) (O : Oracles ℝ) (vJ sqrtCs : ℝ)
    (h : shock P (vJ - 1e-10) ≤ 0) : vmaxOf P O 0 1e-10 1e-6 vJ sqrtCs = some (vJ - 1e-10) := by
  unfold vmaxOf
  rw [if_neg (not_lt.mpr h)]

theorem vmaxOf_of_shock_pos (P : Phys ℝ) (O : Oracles ℝ) (vJ sqrtCs : ℝ)
    (h : 0 < shock P (vJ - 1e-10)) :
    vmaxOf P O 0 1e-10 1e-6 vJ sqrtCs = (O.rootS sqrtCs vJ).map (fun r => r - 1e-6) := by
  unfold vmaxOf
  rw [if_pos h]

theorem vmaxOf_eq_none_iff (P : Phys ℝ) (O : Oracles ℝ) (vJ sqrtCs : ℝ) :
    vmaxOf P O 0 1e-10 1e-6 vJ sqrtCs = none ↔ 0 < shock P (vJ - 1e-10) ∧ O.rootS sqrtCs vJ = none := by
  by_cases h : 0 < shock P (vJ - 1e-10)
  · rw [vmaxOf_of_shock_pos P O vJ sqrtCs h]
    simp [h]
  · rw [vmaxOf_of_shock_nonpos P O vJ sqrtCs (not_lt.mp h)]
    simp [h]

theorem vmaxOf_eq_some_iff (P : Phys ℝ) (O : Oracles ℝ) (vJ sqrtCs vmax : ℝ) :
    vmaxOf P O 0 1e-10 1e-6 vJ sqrtCs = some vmax ↔
      (shock P (vJ - 1e-10) ≤ 0 ∧ vmax = vJ - 1e-10) ∨
      (0 < shock P (vJ - 1e-10) ∧ ∃ r, O.rootS sqrtCs vJ = some r ∧ vmax = r - 1e-6) := by
  by_cases h : 0 < shock P (vJ - 1e-10)
  · rw [vmaxOf_of_shock_pos P O vJ sqrtCs h]
    simp only [Option.map_eq_some_iff, not_le.mpr h, false_and, h, true_and, false_or]
    constructor
    · rintro ⟨r, hr, rfl⟩; exact ⟨r, hr, rfl⟩
    · rintro ⟨r, hr, rfl⟩; exact ⟨r, hr, rfl⟩
  · rw [vmaxOf_of_shock_nonpos P O vJ sqrtCs (not_lt.mp h)]
    simp only [Option.some.injEq, not_lt.mp h, true_and, h, false_and, or_false]
    exact eq_comm

/-! ## The three outcomes -/

theorem findvwLTE_of_none (P : Phys ℝ) (O : Oracles ℝ) (Tn vMin vJ sqrtCs : ℝ)
    (h : vmaxOf P O 0 1e-10 1e-6 vJ sqrtCs = none) :
    findvwLTE P O 0 1e-10 1e-6 Tn vMin vJ sqrtCs = .runaway := by
  unfold findvwLTE
  rw [h]

theorem findvwLTE_of_some (P : Phys ℝ) (O : Oracles ℝ) (Tn vMin vJ sqrtCs vmax : ℝ)
    (h : vmaxOf P O 0 1e-10 1e-6 vJ sqrtCs = some vmax) :
    findvwLTE P O 0 1e-10 1e-6 Tn vMin vJ sqrtCs =
      if 0 < diff P Tn vmax ∨ (P.mtch vmax).2.2 = false then .runaway
      else if diff P Tn vMin < 0 then .static
      else .root vMin vmax (O.rootD vMin vmax) := by
  unfold findvwLTE
  rw [h]

theorem findvwLTE_eq_runaway_iff (P : Phys ℝ) (O : Oracles ℝ) (Tn vMin vJ sqrtCs : ℝ) :
    findvwLTE P O 0 1e-10 1e-6 Tn vMin vJ sqrtCs = .runaway ↔
      (0 < shock P (vJ - 1e-10) ∧ O.rootS sqrtCs vJ = none) ∨
      ∃ vmax, vmaxOf P O 0 1e-10 1e-6 vJ sqrtCs = some vmax ∧
        (0 < diff P Tn vmax ∨ (P.mtch vmax).2.2 = false) := by
  rw [← vmaxOf_eq_none_iff]
  cases hv : vmaxOf P O 0 1e-10 1e-6 vJ sqrtCs with
  | none => simp [findvwLTE_of_none P O Tn vMin vJ sqrtCs hv]
  | some vmax =>
    rw [findvwLTE_of_some P O Tn vMin vJ sqrtCs vmax hv]
    by_cases h1 : 0 < diff P Tn vmax ∨ (P.mtch vmax).2.2 = false
    · simp [h1]
    · rw [if_neg h1]
      by_cases h2 : diff P Tn vMin < 0
      · rw [if_pos h2]; simpa using h1
      · rw [if_neg h2]; simpa using h1

theorem findvwLTE_eq_static_iff (P : Phys ℝ) (O : Oracles ℝ) (Tn vMin vJ sqrtCs : ℝ) :
    findvwLTE P O 0 1e-10 1e-6 Tn vMin vJ sqrtCs = .static ↔
      ∃ vmax, vmaxOf P O 0 1e-10 1e-6 vJ sqrtCs = some vmax ∧ diff P Tn vmax ≤ 0 ∧
        (P.mtch vmax).2.2 = true ∧ diff P Tn vMin < 0 := by
  cases hv : vmaxOf P O 0 1e-10 1e-6 vJ sqrtCs with
  | none => simp [findvwLTE_of_none P O Tn vMin vJ sqrtCs hv]
  | some vmax =>
    rw [findvwLTE_of_some P O Tn vMin vJ sqrtCs vmax hv]
    by_cases h1 : 0 < diff P Tn vmax ∨ (P.mtch vmax).2.2 = false
    · rw [if_pos h1]
      rcases h1 with h1 | h1
      · simp [not_le.mpr h1]
      · simp [h1]
    · rw [if_neg h1]
      rw [not_or] at h1
      obtain ⟨hd, hs⟩ := h1
      have hs' : (P.mtch vmax).2.2 = true := by simpa using hs
      by_cases h2 : diff P Tn vMin < 0
      · rw [if_pos h2]; simp [not_lt.mp hd, hs', h2]
      · rw [if_neg h2]; simp [h2]

theorem findvwLTE_eq_root_iff (P : Phys ℝ) (O : Oracles ℝ) (Tn vMin vJ sqrtCs a b v : ℝ) :
    findvwLTE P O 0 1e-10 1e-6 Tn vMin vJ sqrtCs = .root a b v ↔
      a = vMin ∧ vmaxOf P O 0 1e-10 1e-6 vJ sqrtCs = some b ∧ v = O.rootD vMin b ∧
        diff P Tn b ≤ 0 ∧ (P.mtch b).2.2 = true ∧ 0 ≤ diff P Tn vMin := by
  cases hv : vmaxOf P O 0 1e-10 1e-6 vJ sqrtCs with
  | none => simp [findvwLTE_of_none P O Tn vMin vJ sqrtCs hv]
  | some vmax =>
    rw [findvwLTE_of_some P O Tn vMin vJ sqrtCs vmax hv]
    by_cases h1 : 0 < diff P Tn vmax ∨ (P.mtch vmax).2.2 = false
    · rw [if_pos h1]
      constructor
      · intro h; cases h
      · rintro ⟨-, hb, -, hd, hs, -⟩
        cases hb
        rcases h1 with h1 | h1
        · exact absurd hd (not_le.mpr h1)
        · rw [hs] at h1; cases h1
    · rw [if_neg h1]
      rw [not_or] at h1
      obtain ⟨hd, hs⟩ := h1
      have hs' : (P.mtch vmax).2.2 = true := by simpa using hs
      by_cases h2 : diff P Tn vMin < 0
      · rw [if_pos h2]
        constructor
        · intro h; cases h
        · rintro ⟨-, -, -, -, -, h⟩; exact absurd h (not_le.mpr h2)
      · rw [if_neg h2]
        constructor
        · intro h
          cases h
          exact ⟨rfl, rfl, rfl, not_lt.mp hd, hs', not_lt.mp h2⟩
        · rintro ⟨rfl, hb, rfl, -⟩
          cases hb
          rfl

/-- The model has exactly three kinds of outcome, and a `.root` outcome always carries the bracket
`(vMin, vmax)` and the number the final root finder returned for that bracket. -/
theorem findvwLTE_trichotomy (P : Phys ℝ) (O : Oracles ℝ) (Tn vMin vJ sqrtCs : ℝ) :
    findvwLTE P O 0 1e-10 1e-6 Tn vMin vJ sqrtCs = .runaway ∨
    findvwLTE P O 0 1e-10 1e-6 Tn vMin vJ sqrtCs = .static ∨
    ∃ vmax, vmaxOf P O 0 1e-10 1e-6 vJ sqrtCs = some vmax ∧
      findvwLTE P O 0 1e-10 1e-6 Tn vMin vJ sqrtCs = .root vMin vmax (O.rootD vMin vmax) := by
  cases hv : vmaxOf P O 0 1e-10 1e-6 vJ sqrtCs with
  | none => left; exact findvwLTE_of_none P O Tn vMin vJ sqrtCs hv
  | some vmax =>
    rw [findvwLTE_of_some P O Tn vMin vJ sqrtCs vmax hv]
    split_ifs
    · left; rfl
    · right; left; rfl
    · right; right; exact ⟨vmax, rfl, rfl⟩

/-! ## Concrete instances for the non-vacuity examples -/

/-- Toy physics: every matching returns `v₊ = 1/2`, `T₊ = 1` and the convergence flag `ok`; `cs² = 1/3`;
the shock integration gives `Tn(shock) = 1 + (c - vw)`, so with `Tn = 1` the mismatch is `c - vw`.
`shock(vw) = vw/2 - 1/3` vanishes at `vw = 2/3`. -/
noncomputable def demoPhys (c : ℝ) (ok : Bool) : Phys ℝ where
  mtch _ := (1 / 2, 1, ok)
  shockTn vw _ _ := 1 + (c - vw)
  csqHigh _ := 1 / 3

/-- Oracles that return fixed answers. -/
def demoOracles (rS : Option ℝ) (rD : ℝ) : Oracles ℝ where
  rootS _ _ := rS
  rootD _ _ := rD

@[simp] theorem demo_shock (c : ℝ) (ok : Bool) (vw : ℝ) : shock (demoPhys c ok) vw = 1 / 2 * vw - 1 / 3 := rfl
@[simp] theorem demo_diff (c : ℝ) (ok : Bool) (Tn vw : ℝ) : diff (demoPhys c ok) Tn vw = 1 + (c - vw) - Tn := rfl
@[simp] theorem demo_mtch (c : ℝ) (ok : Bool) (vw : ℝ) : (demoPhys c ok).mtch vw = (1 / 2, 1, ok) := rfl
@[simp] theorem demo_rootS (rS : Option ℝ) (rD a b : ℝ) : (demoOracles rS rD).rootS a b = rS := rfl
@[simp] theorem demo_rootD (rS : Option ℝ) (rD a b : ℝ) : (demoOracles rS rD).rootD a b = rD := rfl

/-- Deflagration window (`vJ = 3/5`, shock front ahead of the wall at the top): top is `vJ - 1e-10`. -/
theorem demo_vmaxOf_deflag (c : ℝ) (ok : Bool) (rS : Option ℝ) (rD sqrtCs : ℝ) :
    vmaxOf (demoPhys c ok) (demoOracles rS rD) 0 1e-10 1e-6 (3 / 5) sqrtCs = some (3 / 5 - 1e-10) := by
  apply vmaxOf_of_shock_nonpos
  rw [demo_shock]; norm_num

/-- Hybrid window (`vJ = 9/10`, shock front behind the wall at the top): top is `rootS - 1e-6`. -/
theorem demo_vmaxOf_hybrid (c : ℝ) (ok : Bool) (rS : Option ℝ) (rD sqrtCs : ℝ) :
    vmaxOf (demoPhys c ok) (demoOracles rS rD) 0 1e-10 1e-6 (9 / 10) sqrtCs = rS.map (fun r => r - 1e-6) := by
  rw [vmaxOf_of_shock_pos]
  · rfl
  · rw [demo_shock]; norm_num

/-- Toy physics with a mismatch that changes sign twice inside the window: with `Tn = 1`,
`shockTnuclDiff(vw) = s·(vw - 3/10)(vw - 1/2)` (`s = ±1` chooses the sign at the ends); all matchings converge;
`shock(vw) = vw/2 - 1/3`. -/
noncomputable def wigglePhys (s : ℝ) : Phys ℝ where
  mtch _ := (1 / 2, 1, true)
  shockTn vw _ _ := 1 + s * ((vw - 3 / 10) * (vw - 1 / 2))
  csqHigh _ := 1 / 3

@[simp] theorem wiggle_shock (s vw : ℝ) : shock (wigglePhys s) vw = 1 / 2 * vw - 1 / 3 := rfl
@[simp] theorem wiggle_diff (s Tn vw : ℝ) :
    diff (wigglePhys s) Tn vw = 1 + s * ((vw - 3 / 10) * (vw - 1 / 2)) - Tn := rfl
@[simp] theorem wiggle_mtch (s vw : ℝ) : (wigglePhys s).mtch vw = (1 / 2, 1, true) := rfl

theorem wiggle_vmaxOf (s : ℝ) (O : Oracles ℝ) (sqrtCs : ℝ) :
    vmaxOf (wigglePhys s) O 0 1e-10 1e-6 (3 / 5) sqrtCs = some (3 / 5 - 1e-10) := by
  apply vmaxOf_of_shock_nonpos
  rw [wiggle_shock]; norm_num

end Lemmas.LTE
