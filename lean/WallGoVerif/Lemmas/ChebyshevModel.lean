/-
Lemmas tying the Chebyshev part of the hand model `Model.Poly` (polynomial.py `chebyshev`,
`_chebyshevMatrix`, `_chebyshevDeriv`, `changeBasis`) at `α := ℝ` to Mathlib's Chebyshev polynomials
`Polynomial.Chebyshev.T ℝ n`, `U ℝ n`.
-/
import WallGoVerif.Model.Poly
import Mathlib.RingTheory.Polynomial.Chebyshev
import Mathlib.Analysis.Calculus.Deriv.Polynomial
import Mathlib.Tactic

namespace Lemmas.ChebyshevModel
open Model.Poly Polynomial Polynomial.Chebyshev

/-! ## A. the recurrences compute `T_n`, `U_n` -/

theorem chebT_go_eq (x : ℝ) (k : ℕ) : ∀ m : ℕ,
    chebT.go (2 : ℝ) x k ((T ℝ m).eval x) ((T ℝ (m + 1 : ℕ)).eval x) = (T ℝ (m + k : ℕ)).eval x := by
  induction k with
  | zero => intro m; simp [chebT.go]
  | succ k ih =>
    intro m
    have h : (2 : ℝ) * x * (T ℝ (m + 1 : ℕ)).eval x - (T ℝ m).eval x
        = (T ℝ ((m + 1 : ℕ) + 1 : ℕ)).eval x := by
      have := T_add_two ℝ (m : ℤ)
      push_cast
      rw [show (m : ℤ) + 1 + 1 = m + 2 by ring, this]
      simp
    rw [chebT.go, h, ih (m + 1)]
    congr 2
    push_cast; ring

/-- The model's three-term recurrence `chebT` (= `scipy.special.eval_chebyt` at integer order) computes
Mathlib's Chebyshev polynomial of the first kind. -/
theorem chebT_eq (n : ℕ) (x : ℝ) : chebT (1 : ℝ) 2 n x = (T ℝ n).eval x := by
  have := chebT_go_eq x n 0
  simpa [chebT] using this

theorem chebU_go_eq (x : ℝ) (k : ℕ) : ∀ m : ℕ,
    chebU.go (2 : ℝ) x k ((U ℝ m).eval x) ((U ℝ (m + 1 : ℕ)).eval x) = (U ℝ (m + k : ℕ)).eval x := by
  induction k with
  | zero => intro m; simp [chebU.go]
  | succ k ih =>
    intro m
    have h : (2 : ℝ) * x * (U ℝ (m + 1 : ℕ)).eval x - (U ℝ m).eval x
        = (U ℝ ((m + 1 : ℕ) + 1 : ℕ)).eval x := by
      have := U_add_two ℝ (m : ℤ)
      push_cast
      rw [show (m : ℤ) + 1 + 1 = m + 2 by ring, this]
      simp
    rw [chebU.go, h, ih (m + 1)]
    congr 2
    push_cast; ring

/-- The model's `chebU` (= `scipy.special.eval_chebyu` at integer order `≥ 0`) computes Mathlib's
Chebyshev polynomial of the second kind. -/
theorem chebU_eq (n : ℕ) (x : ℝ) : chebU (1 : ℝ) 2 n x = (U ℝ n).eval x := by
  have := chebU_go_eq x n 0
  simpa [chebU] using this

/-! ## B. the restricted families as Mathlib polynomials -/

/-- the restricted Chebyshev polynomial `T̄_n` of polynomial.py `chebyshev(x, n, restriction)` -/
noncomputable def Tbar (r : Restriction) (n : ℕ) : ℝ[X] :=
  match r with
  | .unrestricted => T ℝ n
  | .onesided => T ℝ n - 1
  | .full => T ℝ n - (if n % 2 = 0 then 1 else X)

theorem chebyshev_eq (r : Restriction) (n : ℕ) (x : ℝ) :
    chebyshev (1 : ℝ) 2 r n x = (Tbar r n).eval x := by
  cases r <;> simp only [chebyshev, Tbar, chebT_eq]
  · split_ifs <;> simp
  · simp

theorem negOnePow_natCast_real (n : ℕ) : ((Int.negOnePow (n : ℤ) : ℤˣ) : ℝ) = (-1 : ℝ) ^ n := by
  rw [Int.negOnePow_def]; simp

theorem Tbar_full_eval_one (n : ℕ) : (Tbar .full n).eval 1 = 0 := by
  simp only [Tbar]; split_ifs <;> simp

theorem Tbar_full_eval_neg_one (n : ℕ) : (Tbar .full n).eval (-1) = 0 := by
  simp only [Tbar]
  split_ifs with h
  · have he : Even n := Nat.even_iff.mpr h
    simp [Int.negOnePow_def, he.neg_one_pow]
  · have ho : Odd n := Nat.odd_iff.mpr (by omega)
    simp [Int.negOnePow_def, ho.neg_one_pow]

theorem Tbar_onesided_eval_one (n : ℕ) : (Tbar .onesided n).eval 1 = 0 := by
  simp [Tbar]

/-! ## C. derivative entries -/

/-- the entry of `_chebyshevDeriv` for order `n` at node `x`, as a function of the restriction -/
noncomputable def derivEntry (r : Restriction) (n : ℕ) (x : ℝ) : ℝ :=
  let u := if n = 0 then 0 else (n : ℝ) * chebU (1 : ℝ) 2 (n - 1) x
  if r = .full ∧ n % 2 = 1 then u - 1 else u

theorem derivative_T_nat (n : ℕ) (x : ℝ) :
    (derivative (T ℝ n)).eval x = if n = 0 then 0 else (n : ℝ) * chebU (1 : ℝ) 2 (n - 1) x := by
  rw [T_derivative_eq_U]
  split_ifs with h
  · subst h; simp
  · obtain ⟨m, rfl⟩ := Nat.exists_eq_succ_of_ne_zero h
    rw [chebU_eq]
    simp

theorem derivative_Tbar (r : Restriction) (n : ℕ) (x : ℝ) :
    (derivative (Tbar r n)).eval x = derivEntry r n x := by
  unfold derivEntry
  cases r
  · simp [Tbar, derivative_T_nat]
  · simp only [Tbar, derivative_sub, eval_sub, derivative_T_nat, true_and]
    rcases Nat.mod_two_eq_zero_or_one n with h | h
    · simp [h]
    · simp [h]
  · simp [Tbar, derivative_T_nat]

theorem hasDerivAt_chebyshev (r : Restriction) (n : ℕ) (x : ℝ) :
    HasDerivAt (fun y => chebyshev (1 : ℝ) 2 r n y) (derivEntry r n x) x := by
  have h := (Tbar r n).hasDerivAt x
  rw [derivative_Tbar] at h
  refine h.congr_of_eventuallyEq (Filter.Eventually.of_forall fun y => ?_)
  exact chebyshev_eq r n y

end Lemmas.ChebyshevModel
