/-
Lemmas tying the Chebyshev part of the hand model `Model.Poly` (polynomial.py `chebyshev`,
`_chebyshevMatrix`, `_chebyshevDeriv`, `changeBasis`) at `α := ℝ` to Mathlib's Chebyshev polynomials
`Polynomial.Chebyshev.T ℝ n`, `U ℝ n`.
-/
import WallGoVerif.Model.Poly
import Mathlib.RingTheory.Polynomial.Chebyshev
import Mathlib.Analysis.Calculus.Deriv.Polynomial
import Mathlib.Algebra.Polynomial.Sequence
import Mathlib.Algebra.Polynomial.Roots
import Mathlib.LinearAlgebra.FiniteDimensional.Basic
import Mathlib.LinearAlgebra.Matrix.ToLin
import Mathlib.Tactic

namespace Lemmas.ChebyshevModel
open Model.Poly Polynomial Polynomial.Chebyshev

/-! ## A. the recurrences compute `T_n`, `U_n` -/

theorem chebT_go_eq (x : ℝ) (k : ℕ) : ∀ m : ℕ,
    chebT.go (2 : ℝ) x k ((T ℝ m).eval x) ((T ℝ (m + 1 : ℕ)).eval x) = (T ℝ (m + k : ℕ)).eval x := by
  induction k with
  | zero => intro m; simp [chebT.go]
  | succ k ih =>
    intro m
    have h : (2 : ℝ) * x * (T ℝ (m + 1 : ℕ)).eval x - (T ℝ m).eval x
        = (T ℝ ((m + 1 : ℕ) + 1 : ℕ)).eval x := by
      have := T_add_two ℝ (m : ℤ)
      push_cast
      rw [show (m : ℤ) + 1 + 1 = m + 2 by ring, this]
      simp
    rw [chebT.go, h, ih (m + 1)]
    congr 2
    push_cast; ring

/-- The model's three-term recurrence `chebT` (= `scipy.special.eval_chebyt` at integer order) computes
Mathlib's Chebyshev polynomial of the first kind. -/
theorem chebT_eq (n : ℕ) (x : ℝ) : chebT (1 : ℝ) 2 n x = (T ℝ n).eval x := by
  have := chebT_go_eq x n 0
  simpa [chebT] using this

theorem chebU_go_eq (x : ℝ) (k : ℕ) : ∀ m : ℕ,
    chebU.go (2 : ℝ) x k ((U ℝ m).eval x) ((U ℝ (m + 1 : ℕ)).eval x) = (U ℝ (m + k : ℕ)).eval x := by
  induction k with
  | zero => intro m; simp [chebU.go]
  | succ k ih =>
    intro m
    have h : (2 : ℝ) * x * (U ℝ (m + 1 : ℕ)).eval x - (U ℝ m).eval x
        = (U ℝ ((m + 1 : ℕ) + 1 : ℕ)).eval x := by
      have := U_add_two ℝ (m : ℤ)
      push_cast
      rw [show (m : ℤ) + 1 + 1 = m + 2 by ring, this]
      simp
    rw [chebU.go, h, ih (m + 1)]
    congr 2
    push_cast; ring

/-- The model's `chebU` (= `scipy.special.eval_chebyu` at integer order `≥ 0`) computes Mathlib's
Chebyshev polynomial of the second kind. -/
theorem chebU_eq (n : ℕ) (x : ℝ) : chebU (1 : ℝ) 2 n x = (U ℝ n).eval x := by
  have := chebU_go_eq x n 0
  simpa [chebU] using this

/-! ## B. the restricted families as Mathlib polynomials -/

/-- the restricted Chebyshev polynomial `T̄_n` of polynomial.py `chebyshev(x, n, restriction)` -/
noncomputable def Tbar (r : Restriction) (n : ℕ) : ℝ[X] :=
  match r with
  | .unrestricted => T ℝ n
  | .onesided => T ℝ n - 1
  | .full => T ℝ n - (if n % 2 = 0 then 1 else X)

theorem chebyshev_eq (r : Restriction) (n : ℕ) (x : ℝ) :
    chebyshev (1 : ℝ) 2 r n x = (Tbar r n).eval x := by
  cases r <;> simp only [chebyshev, Tbar, chebT_eq]
  · split_ifs <;> simp
  · simp

theorem negOnePow_natCast_real (n : ℕ) : ((Int.negOnePow (n : ℤ) : ℤˣ) : ℝ) = (-1 : ℝ) ^ n := by
  rw [Int.negOnePow_def]; simp

theorem Tbar_full_eval_one (n : ℕ) : (Tbar .full n).eval 1 = 0 := by
  simp only [Tbar]; split_ifs <;> simp

theorem Tbar_full_eval_neg_one (n : ℕ) : (Tbar .full n).eval (-1) = 0 := by
  simp only [Tbar]
  split_ifs with h
  · have he : Even n := Nat.even_iff.mpr h
    simp [Int.negOnePow_def, he.neg_one_pow]
  · have ho : Odd n := Nat.odd_iff.mpr (by omega)
    simp [Int.negOnePow_def, ho.neg_one_pow]

theorem Tbar_onesided_eval_one (n : ℕ) : (Tbar .onesided n).eval 1 = 0 := by
  simp [Tbar]

/-! ## C. derivative entries -/

/-- the entry of `_chebyshevDeriv` for order `n` at node `x`, as a function of the restriction -/
noncomputable def derivEntry (r : Restriction) (n : ℕ) (x : ℝ) : ℝ :=
  let u := if n = 0 then 0 else (n : ℝ) * chebU (1 : ℝ) 2 (n - 1) x
  if r = .full ∧ n % 2 = 1 then u - 1 else u

theorem derivative_T_nat (n : ℕ) (x : ℝ) :
    (derivative (T ℝ n)).eval x = if n = 0 then 0 else (n : ℝ) * chebU (1 : ℝ) 2 (n - 1) x := by
  rw [T_derivative_eq_U]
  split_ifs with h
  · subst h; simp
  · obtain ⟨m, rfl⟩ := Nat.exists_eq_succ_of_ne_zero h
    rw [chebU_eq]
    simp

theorem derivative_Tbar (r : Restriction) (n : ℕ) (x : ℝ) :
    (derivative (Tbar r n)).eval x = derivEntry r n x := by
  unfold derivEntry
  cases r
  · simp [Tbar, derivative_T_nat]
  · simp only [Tbar, derivative_sub, eval_sub, derivative_T_nat, true_and]
    rcases Nat.mod_two_eq_zero_or_one n with h | h
    · simp [h]
    · simp [h]
  · simp [Tbar, derivative_T_nat]

theorem hasDerivAt_chebyshev (r : Restriction) (n : ℕ) (x : ℝ) :
    HasDerivAt (fun y => chebyshev (1 : ℝ) 2 r n y) (derivEntry r n x) x := by
  have h := (Tbar r n).hasDerivAt x
  rw [derivative_Tbar] at h
  refine h.congr_of_eventuallyEq (Filter.Eventually.of_forall fun y => ?_)
  exact chebyshev_eq r n y


/-- `_chebyshevDeriv` is the matrix of the `derivEntry`s: rows = all nodes of the complete grid,
columns = the orders of the direction. -/
theorem chebyshevDeriv_eq (d : Dir) (e : Bool) (xs : List ℝ) :
    chebyshevDeriv (0 : ℝ) 1 2 Nat.cast d e xs
      = xs.map (fun x => (orders d e xs.length).map (fun n => derivEntry (restrictionOf d e) n x)) := by
  rfl

/-! ## D. evaluation of the restricted Chebyshev expansion; nonsingularity of the basis-change matrix -/

theorem sum_eq_list_sum (l : List ℝ) : Model.Poly.sum (0 : ℝ) l = l.sum := by
  rw [Model.Poly.sum, List.sum_eq_foldl]

theorem list_sum_map_range {β : Type*} [AddCommMonoid β] (f : ℕ → β) (n : ℕ) :
    ((List.range n).map f).sum = ∑ i ∈ Finset.range n, f i := by
  induction n with
  | zero => simp
  | succ n ih => rw [List.range_succ, List.map_append, List.sum_append, ih, Finset.sum_range_succ]; simp

theorem list_eq_map_range (c : List ℝ) : c = (List.range c.length).map (fun j => c.getD j 0) := by
  apply List.ext_getElem
  · simp
  · intro i h1 h2
    simp [h1]

/-- the polynomial represented by restricted-Chebyshev coefficients `c` -/
noncomputable def chebPoly (d : Dir) (e : Bool) (len : ℕ) (c : List ℝ) : ℝ[X] :=
  (List.zipWith (fun cj n => cj • Tbar (restrictionOf d e) n) c (orders d e len)).sum

theorem evalChebyshev_exact (d : Dir) (e : Bool) (len : ℕ) (c : List ℝ) (x : ℝ) :
    evalChebyshev (0 : ℝ) 1 2 d e len c x = (chebPoly d e len c).eval x := by
  rw [evalChebyshev, sum_eq_list_sum, chebPoly, eval_listSum]
  congr 1
  generalize orders d e len = os
  induction c generalizing os with
  | nil => simp
  | cons a c ih =>
    cases os with
    | nil => simp
    | cons n os => simp [chebyshev_eq]


/-- lowest order used with restriction `r` = number of boundary conditions it imposes -/
def minOrder : Restriction → ℕ
  | .unrestricted => 0
  | .onesided => 1
  | .full => 2

theorem degree_Tbar (r : Restriction) (n : ℕ) (h : minOrder r ≤ n) : (Tbar r n).degree = n := by
  have hT : (T ℝ n).degree = n := by simp [degree_T ℝ (n : ℤ)]
  cases r
  · simp [Tbar, hT]
  · simp only [minOrder] at h
    simp only [Tbar]
    rw [degree_sub_eq_left_of_degree_lt, hT]
    rw [hT]
    split_ifs
    · rw [degree_one]; exact_mod_cast (by omega : 0 < n)
    · rw [degree_X]; exact_mod_cast (by omega : 1 < n)
  · simp only [minOrder] at h
    simp only [Tbar]
    rw [degree_sub_eq_left_of_degree_lt, hT]
    rw [hT, degree_one]; exact_mod_cast (by omega : 0 < n)

theorem natDegree_Tbar (r : Restriction) (n : ℕ) (h : minOrder r ≤ n) : (Tbar r n).natDegree = n :=
  natDegree_eq_of_degree_eq_some (degree_Tbar r n h)

/-- the restricted family completed by `1, X` below its lowest order: a degree-graded sequence -/
noncomputable def TbarSeq (r : Restriction) : Polynomial.Sequence ℝ where
  elems' n := if n < minOrder r then X ^ n else Tbar r n
  degree_eq' n := by
    split_ifs with h
    · simp
    · exact degree_Tbar r n (by omega)

theorem TbarSeq_apply (r : Restriction) (j : ℕ) : (TbarSeq r) (j + minOrder r) = Tbar r (j + minOrder r) := by
  show (if j + minOrder r < minOrder r then X ^ (j + minOrder r) else Tbar r (j + minOrder r)) = _
  rw [if_neg (by omega)]

/-- **Linear independence of the restricted family** -/
theorem Tbar_linearIndependent (r : Restriction) :
    LinearIndependent ℝ (fun j : ℕ => Tbar r (j + minOrder r)) := by
  have h := (TbarSeq r).linearIndependent.comp (fun j : ℕ => j + minOrder r) (add_left_injective _)
  have e : (fun j : ℕ => Tbar r (j + minOrder r)) = (TbarSeq r) ∘ (fun j : ℕ => j + minOrder r) := by
    ext1 j
    exact (TbarSeq_apply r j).symm
  rw [e]; exact h

theorem coeffs_zero_of_vanish (r : Restriction) (ks extra : List ℝ) (hnd : (ks ++ extra).Nodup)
    (hex : extra.length = minOrder r)
    (hbc : ∀ x ∈ extra, ∀ n, minOrder r ≤ n → (Tbar r n).eval x = 0)
    (c : ℕ → ℝ)
    (hv : ∀ x ∈ ks, (∑ j ∈ Finset.range ks.length, c j • Tbar r (j + minOrder r)).eval x = 0) :
    ∀ j < ks.length, c j = 0 := by
  intro j hj
  set P : ℝ[X] := ∑ j ∈ Finset.range ks.length, c j • Tbar r (j + minOrder r) with hP
  have hdeg : P.natDegree < (ks ++ extra).toFinset.card := by
    rw [List.toFinset_card_of_nodup hnd, List.length_append, hex]
    have : P.natDegree ≤ ks.length - 1 + minOrder r := by
      apply natDegree_sum_le_of_forall_le
      intro i hi
      have hi' := Finset.mem_range.mp hi
      refine (natDegree_smul_le _ _).trans ?_
      rw [natDegree_Tbar r _ (by omega)]
      omega
    omega
  have hP0 : P = 0 := by
    apply eq_zero_of_natDegree_lt_card_of_eval_eq_zero' P _ _ hdeg
    intro x hx
    rcases List.mem_append.mp (List.mem_toFinset.mp hx) with h | h
    · exact hv x h
    · rw [hP, eval_finsetSum]
      apply Finset.sum_eq_zero
      intro i _
      rw [eval_smul, hbc x h _ (by omega), smul_zero]
  exact linearIndependent_iff'.mp (Tbar_linearIndependent r) (Finset.range ks.length) c hP0 j
    (Finset.mem_range.mpr hj)


theorem orders_eq (d : Dir) (e : Bool) (len : ℕ) :
    orders d e len = (List.range (len - minOrder (restrictionOf d e))).map
      (· + minOrder (restrictionOf d e)) := by
  cases d <;> cases e <;> simp [orders, restrictionOf, minOrder]

theorem zipWith_mul_map_comm (f : ℕ → ℝ) (os : List ℕ) (c : List ℝ) :
    List.zipWith (· * ·) (os.map f) c = List.zipWith (fun cj n => cj * f n) c os := by
  induction os generalizing c with
  | nil => cases c <;> simp
  | cons n os ih => cases c <;> simp [mul_comm, ih]

/-- row `i` of `chebyshevMatrix · c` is the value at node `i` of the Chebyshev expansion with
coefficients `c` -/
theorem mulVec_chebyshevMatrix (d : Dir) (e : Bool) (xs c : List ℝ) :
    mulVec (0 : ℝ) (chebyshevMatrix 1 2 d e xs) c
      = (kept d e xs).map (fun x => evalChebyshev (0 : ℝ) 1 2 d e xs.length c x) := by
  simp only [mulVec, chebyshevMatrix, List.map_map]
  apply List.map_congr_left
  intro x _
  simp only [Function.comp, evalChebyshev, zipWith_mul_map_comm]

theorem chebPoly_eq_finset_sum (d : Dir) (e : Bool) (len : ℕ) (c : List ℝ)
    (hc : c.length = (orders d e len).length) :
    chebPoly d e len c = ∑ j ∈ Finset.range c.length,
      c.getD j 0 • Tbar (restrictionOf d e) (j + minOrder (restrictionOf d e)) := by
  rw [chebPoly]
  rw [orders_eq, List.length_map, List.length_range] at hc
  rw [orders_eq, ← hc]
  have key : ∀ (k : ℕ) (f : ℕ → ℝ),
      (List.zipWith (fun cj n => cj • Tbar (restrictionOf d e) n) ((List.range k).map f)
        ((List.range k).map (· + minOrder (restrictionOf d e)))).sum
      = ∑ j ∈ Finset.range k, f j • Tbar (restrictionOf d e) (j + minOrder (restrictionOf d e)) := by
    intro k f
    rw [List.zipWith_map, List.zipWith_self, list_sum_map_range]
  have := key c.length (fun j => c.getD j 0)
  rw [← list_eq_map_range c] at this
  exact this

theorem chebyshevMatrix_injective_core (d : Dir) (e : Bool) (xs extra : List ℝ)
    (hnd : (kept d e xs ++ extra).Nodup)
    (hex : extra.length = minOrder (restrictionOf d e))
    (hbc : ∀ x ∈ extra, ∀ n, minOrder (restrictionOf d e) ≤ n →
      (Tbar (restrictionOf d e) n).eval x = 0)
    (c : List ℝ) (hc : c.length = (orders d e xs.length).length)
    (hk : (kept d e xs).length = c.length)
    (h : mulVec (0 : ℝ) (chebyshevMatrix 1 2 d e xs) c
      = List.replicate (kept d e xs).length 0) :
    c = List.replicate c.length 0 := by
  rw [mulVec_chebyshevMatrix, List.eq_replicate_iff] at h
  have hv : ∀ x ∈ kept d e xs, (chebPoly d e xs.length c).eval x = 0 := by
    intro x hx
    rw [← evalChebyshev_exact]
    exact h.2 _ (List.mem_map.mpr ⟨x, hx, rfl⟩)
  rw [chebPoly_eq_finset_sum d e _ c hc, ← hk] at hv
  have hz := coeffs_zero_of_vanish (restrictionOf d e) (kept d e xs) extra hnd hex hbc
    (fun j => c.getD j 0) hv
  rw [List.eq_replicate_iff]
  refine ⟨rfl, fun b hb => ?_⟩
  obtain ⟨i, hi, rfl⟩ := List.getElem_of_mem hb
  have := hz i (by omega)
  simpa [hi] using this


theorem kept_endpoints (d : Dir) (xs : List ℝ) : kept d true xs = xs := by
  simp [kept, keptRange]

theorem kept_pp (ys : List ℝ) (a : ℝ) : kept .pp false (ys ++ [a]) = ys := by
  simp [kept, keptRange]

theorem kept_full (d : Dir) (hd : d ≠ .pp) (zs : List ℝ) (a b : ℝ) :
    kept d false (a :: (zs ++ [b])) = zs := by
  cases d <;> simp_all [kept, keptRange]

theorem orders_length (d : Dir) (e : Bool) (len : ℕ) :
    (orders d e len).length = len - minOrder (restrictionOf d e) := by
  rw [orders_eq]; simp

/-- **The basis-change matrix is nonsingular.** -/
theorem chebyshevMatrix_injective (d : Dir) (e : Bool) (xs : List ℝ) (hnd : xs.Nodup)
    (hfirst : e = false → d ≠ .pp → xs.head? = some (-1))
    (hlast : e = false → xs.getLast? = some 1)
    (c : List ℝ) (hc : c.length = (orders d e xs.length).length)
    (h : mulVec (0 : ℝ) (chebyshevMatrix 1 2 d e xs) c
      = List.replicate (kept d e xs).length 0) :
    c = List.replicate c.length 0 := by
  cases e with
  | true =>
    refine chebyshevMatrix_injective_core d true xs [] ?_ ?_ ?_ c hc ?_ h
    · simpa [kept_endpoints] using hnd
    · simp [restrictionOf, minOrder]
    · simp
    · rw [hc, orders_length, kept_endpoints]; simp [restrictionOf, minOrder]
  | false =>
    obtain ⟨ys, rfl⟩ := List.getLast?_eq_some_iff.mp (hlast rfl)
    by_cases hd : d = .pp
    · subst hd
      refine chebyshevMatrix_injective_core .pp false _ [1] ?_ ?_ ?_ c hc ?_ h
      · simpa [kept_pp] using hnd
      · simp [restrictionOf, minOrder]
      · intro x hx n _
        simp only [List.mem_singleton] at hx
        subst hx
        exact Tbar_onesided_eval_one n
      · rw [hc, orders_length, kept_pp]; simp [restrictionOf, minOrder]
    · have hr : restrictionOf d false = .full := by cases d <;> simp_all [restrictionOf]
      have hh := hfirst rfl hd
      cases ys with
      | nil => simp at hh; norm_num at hh
      | cons a zs =>
        simp only [List.cons_append, List.head?_cons, Option.some.injEq] at hh
        subst hh
        refine chebyshevMatrix_injective_core d false _ [1, -1] ?_ ?_ ?_ c hc ?_ h
        · rw [List.cons_append, kept_full d hd]
          have hp : (zs ++ [1, -1]).Perm (-1 :: (zs ++ [1])) := by
            rw [show zs ++ [1, -1] = (zs ++ [1]) ++ [-1] by simp]
            exact List.perm_append_singleton _ _
          exact hp.nodup_iff.mpr hnd
        · simp [hr, minOrder]
        · intro x hx n _
          rw [hr]
          simp only [List.mem_cons, List.not_mem_nil, or_false] at hx
          rcases hx with rfl | rfl
          · exact Tbar_full_eval_one n
          · exact Tbar_full_eval_neg_one n
        · rw [hc, orders_length, List.cons_append, kept_full d hd, hr]; simp [minOrder]

/-! ### spanning -/

theorem exists_TbarSeq_expansion (r : Restriction) (N : ℕ) (p : ℝ[X]) (hdeg : p.natDegree ≤ N) :
    ∃ a : ℕ → ℝ, p = ∑ i ∈ Finset.range (N + 1), a i • (TbarSeq r) i := by
  have hmem : p ∈ degreeLT ℝ (N + 1) := by
    rw [mem_degreeLT]
    refine lt_of_le_of_lt degree_le_natDegree ?_
    exact_mod_cast Nat.lt_succ_of_le hdeg
  rw [← Sequence.span_degreeLT (TbarSeq r) (fun i _ => by
      exact isUnit_iff_ne_zero.mpr (leadingCoeff_ne_zero.mpr ((TbarSeq r).ne_zero i))),
    show Set.Iio (N + 1) = Finset.range (N + 1) by simp,
    Submodule.mem_span_image_finset_iff_exists_fun'] at hmem
  obtain ⟨c, hc⟩ := hmem
  exact ⟨c, hc.symm⟩

theorem TbarSeq_full_zero : (TbarSeq .full) 0 = 1 := by
  show (if 0 < minOrder .full then X ^ 0 else Tbar .full 0) = _
  simp [minOrder]

theorem TbarSeq_full_one : (TbarSeq .full) 1 = X := by
  show (if 1 < minOrder .full then X ^ 1 else Tbar .full 1) = _
  simp [minOrder]

theorem TbarSeq_onesided_zero : (TbarSeq .onesided) 0 = 1 := by
  show (if 0 < minOrder .onesided then X ^ 0 else Tbar .onesided 0) = _
  simp [minOrder]

/-- **The 'full' family spans the polynomials vanishing at both ends.** -/
theorem mem_span_Tbar_full (M : ℕ) (p : ℝ[X]) (hdeg : p.natDegree ≤ M)
    (h1 : p.eval 1 = 0) (hm1 : p.eval (-1) = 0) :
    p ∈ Submodule.span ℝ ((fun n => Tbar .full n) '' Set.Icc 2 M) := by
  obtain ⟨K, hK⟩ : ∃ K, max M 1 = K + 1 := ⟨max M 1 - 1, by omega⟩
  obtain ⟨a, ha⟩ := exists_TbarSeq_expansion .full (K + 1) p (by omega)
  rw [Finset.sum_range_succ', Finset.sum_range_succ', TbarSeq_full_zero, TbarSeq_full_one] at ha
  have hS : ∀ i, (TbarSeq .full) (i + 2) = Tbar .full (i + 2) := fun i => TbarSeq_apply .full i
  simp only [hS] at ha
  have e1 : a 1 + a 0 = 0 := by
    have := h1
    rw [ha] at this
    simpa [eval_finsetSum, Tbar_full_eval_one] using this
  have e2 : -a 1 + a 0 = 0 := by
    have := hm1
    rw [ha] at this
    simpa [eval_finsetSum, Tbar_full_eval_neg_one] using this
  have a0 : a 0 = 0 := by linarith
  have a1 : a 1 = 0 := by linarith
  rw [ha, a0, a1, zero_smul, zero_smul, add_zero, add_zero]
  apply Submodule.sum_mem
  intro i hi
  have := Finset.mem_range.mp hi
  apply Submodule.smul_mem
  apply Submodule.subset_span
  exact ⟨i + 2, ⟨by omega, by omega⟩, rfl⟩

/-- **The 'partial' family spans the polynomials vanishing at `x = 1`.** -/
theorem mem_span_Tbar_onesided (M : ℕ) (p : ℝ[X]) (hdeg : p.natDegree ≤ M) (h1 : p.eval 1 = 0) :
    p ∈ Submodule.span ℝ ((fun n => Tbar .onesided n) '' Set.Icc 1 M) := by
  obtain ⟨a, ha⟩ := exists_TbarSeq_expansion .onesided M p hdeg
  rw [Finset.sum_range_succ', TbarSeq_onesided_zero] at ha
  have hS : ∀ i, (TbarSeq .onesided) (i + 1) = Tbar .onesided (i + 1) :=
    fun i => TbarSeq_apply .onesided i
  simp only [hS] at ha
  have a0 : a 0 = 0 := by
    have := h1
    rw [ha] at this
    simpa [eval_finsetSum, Tbar_onesided_eval_one] using this
  rw [ha, a0, zero_smul, add_zero]
  apply Submodule.sum_mem
  intro i hi
  have := Finset.mem_range.mp hi
  apply Submodule.smul_mem
  apply Submodule.subset_span
  exact ⟨i + 1, ⟨by omega, by omega⟩, rfl⟩

/-! ### derivative of an expansion; uniqueness of the coefficients -/

theorem derivative_chebPoly_eval (d : Dir) (e : Bool) (len : ℕ) (c : List ℝ) (x : ℝ) :
    (derivative (chebPoly d e len c)).eval x
      = Model.Poly.sum (0 : ℝ) (List.zipWith (· * ·)
          ((orders d e len).map (fun n => derivEntry (restrictionOf d e) n x)) c) := by
  rw [zipWith_mul_map_comm, sum_eq_list_sum, chebPoly, map_list_sum, eval_listSum]
  congr 1
  generalize orders d e len = os
  induction c generalizing os with
  | nil => simp
  | cons a c ih =>
    cases os with
    | nil => simp
    | cons n os => simp [derivative_Tbar]

/-- `chebyshevDeriv · c` gives the exact derivative of the expansion at every node of the complete
grid (boundary nodes included) -/
theorem hasDerivAt_evalChebyshev (d : Dir) (e : Bool) (len : ℕ) (c : List ℝ) (x : ℝ) :
    HasDerivAt (fun y => evalChebyshev (0 : ℝ) 1 2 d e len c y)
      (Model.Poly.sum (0 : ℝ) (List.zipWith (· * ·)
          ((orders d e len).map (fun n => derivEntry (restrictionOf d e) n x)) c)) x := by
  rw [← derivative_chebPoly_eval]
  refine ((chebPoly d e len c).hasDerivAt x).congr_of_eventuallyEq
    (Filter.Eventually.of_forall fun y => ?_)
  exact evalChebyshev_exact d e len c y

theorem zipWith_sub_sum (t : ℕ → ℝ) (c c' : List ℝ) (os : List ℕ) (h : c.length = c'.length) :
    (List.zipWith (fun cj n => cj * t n) (List.zipWith (· - ·) c c') os).sum
      = (List.zipWith (fun cj n => cj * t n) c os).sum
        - (List.zipWith (fun cj n => cj * t n) c' os).sum := by
  induction c generalizing c' os with
  | nil => cases c' <;> simp_all
  | cons a c ih =>
    cases c' with
    | nil => simp at h
    | cons a' c' =>
      cases os with
      | nil => simp
      | cons n os =>
        simp only [List.length_cons, Nat.add_right_cancel_iff] at h
        simp only [List.zipWith_cons_cons, List.sum_cons, ih c' os h]
        ring

theorem evalChebyshev_sub (d : Dir) (e : Bool) (len : ℕ) (c c' : List ℝ) (h : c.length = c'.length)
    (x : ℝ) :
    evalChebyshev (0 : ℝ) 1 2 d e len (List.zipWith (· - ·) c c') x
      = evalChebyshev (0 : ℝ) 1 2 d e len c x - evalChebyshev (0 : ℝ) 1 2 d e len c' x := by
  simp only [evalChebyshev, sum_eq_list_sum]
  exact zipWith_sub_sum _ c c' _ h

/-- **Uniqueness of the Chebyshev coefficients**: two coefficient vectors with the same nodal values
coincide -/
theorem chebyshevMatrix_solution_unique (d : Dir) (e : Bool) (xs : List ℝ) (hnd : xs.Nodup)
    (hfirst : e = false → d ≠ .pp → xs.head? = some (-1))
    (hlast : e = false → xs.getLast? = some 1)
    (c c' : List ℝ) (hc : c.length = (orders d e xs.length).length)
    (hc' : c'.length = (orders d e xs.length).length)
    (h : mulVec (0 : ℝ) (chebyshevMatrix 1 2 d e xs) c
      = mulVec (0 : ℝ) (chebyshevMatrix 1 2 d e xs) c') :
    c = c' := by
  have hlen : c.length = c'.length := hc.trans hc'.symm
  have h0 : mulVec (0 : ℝ) (chebyshevMatrix 1 2 d e xs) (List.zipWith (· - ·) c c')
      = List.replicate (kept d e xs).length 0 := by
    rw [mulVec_chebyshevMatrix, mulVec_chebyshevMatrix] at h
    rw [mulVec_chebyshevMatrix]
    rw [List.eq_replicate_iff]
    refine ⟨by simp, ?_⟩
    intro b hb
    obtain ⟨x, hx, rfl⟩ := List.mem_map.mp hb
    rw [evalChebyshev_sub d e _ c c' hlen]
    have := List.map_inj_left.mp h x hx
    linarith
  have hz := chebyshevMatrix_injective d e xs hnd hfirst hlast _ (by simp [← hlen, hc]) h0
  apply List.ext_getElem hlen
  intro i h1 h2
  have hi : i < (List.zipWith (· - ·) c c').length := by simp; omega
  have := congrArg (fun l : List ℝ => l[i]?) hz
  simp only [List.getElem?_replicate] at this
  rw [List.getElem?_eq_getElem hi] at this
  simp only [List.getElem_zipWith, hi, if_true, Option.some.injEq] at this
  linarith

/-! ### existence of the Chebyshev coefficients (surjectivity of the square matrix) -/

theorem kept_length (d : Dir) (e : Bool) (xs : List ℝ) :
    (kept d e xs).length = xs.length - minOrder (restrictionOf d e) := by
  cases d <;> cases e <;> simp [kept, keptRange, minOrder, restrictionOf] <;> omega

theorem evalChebyshev_eq_finset_sum (d : Dir) (e : Bool) (len : ℕ) (c : List ℝ)
    (hc : c.length = (orders d e len).length) (x : ℝ) :
    evalChebyshev (0 : ℝ) 1 2 d e len c x = ∑ j ∈ Finset.range c.length,
      c.getD j 0 * (Tbar (restrictionOf d e) (j + minOrder (restrictionOf d e))).eval x := by
  rw [evalChebyshev_exact, chebPoly_eq_finset_sum d e len c hc, eval_finsetSum]
  simp [eval_smul]

/-- **Existence of Chebyshev coefficients for any nodal values** -/
theorem chebyshevMatrix_surjective (d : Dir) (e : Bool) (xs : List ℝ) (hnd : xs.Nodup)
    (hfirst : e = false → d ≠ .pp → xs.head? = some (-1))
    (hlast : e = false → xs.getLast? = some 1)
    (v : List ℝ) (hv : v.length = (kept d e xs).length) :
    ∃ c : List ℝ, c.length = (orders d e xs.length).length ∧
      mulVec (0 : ℝ) (chebyshevMatrix 1 2 d e xs) c = v := by
  set k := (orders d e xs.length).length with hkdef
  have hk : (kept d e xs).length = k := by rw [kept_length, hkdef, orders_length]
  let A : Matrix (Fin k) (Fin k) ℝ := fun i j =>
    (Tbar (restrictionOf d e) (j + minOrder (restrictionOf d e))).eval ((kept d e xs).getD i 0)
  -- rows of the list product in terms of `A`
  have hrow : ∀ (f : Fin k → ℝ) (i : Fin k),
      evalChebyshev (0 : ℝ) 1 2 d e xs.length (List.ofFn f) ((kept d e xs).getD i 0)
        = A.mulVec f i := by
    intro f i
    rw [evalChebyshev_eq_finset_sum d e _ _ (by simp [hkdef])]
    simp only [List.length_ofFn]
    rw [Finset.sum_range]
    simp only [Matrix.mulVec, dotProduct, A]
    apply Finset.sum_congr rfl
    intro j _
    rw [List.getD_eq_getElem?_getD, List.getElem?_ofFn]
    simp [mul_comm]
  have hmul : ∀ f : Fin k → ℝ, mulVec (0 : ℝ) (chebyshevMatrix 1 2 d e xs) (List.ofFn f)
      = List.ofFn (A.mulVec f) := by
    intro f
    rw [mulVec_chebyshevMatrix]
    apply List.ext_getElem
    · simp [hk]
    · intro i h1 h2
      have hi : i < k := by simpa using h2
      have := hrow f ⟨i, hi⟩
      simp only [List.getElem_map, List.getElem_ofFn]
      rw [← this]
      congr 1
      simp only [List.getD_eq_getElem?_getD]
      rw [List.getElem?_eq_getElem (by omega)]
      rfl
  have hinj : Function.Injective (Matrix.mulVecLin A) := by
    rw [injective_iff_map_eq_zero]
    intro f hf
    have hf' : A.mulVec f = 0 := hf
    have h0 := chebyshevMatrix_injective d e xs hnd hfirst hlast (List.ofFn f) (by simp [hkdef])
      (by rw [hmul, hf', hk]; apply List.ext_getElem <;> simp)
    funext j
    have := congrArg (fun l : List ℝ => l[(j : ℕ)]?) h0
    simpa using this
  have hsurj : Function.Surjective (Matrix.mulVecLin A) := LinearMap.injective_iff_surjective.mp hinj
  obtain ⟨f, hf⟩ := hsurj (fun i : Fin k => v.getD i 0)
  refine ⟨List.ofFn f, by simp [hkdef], ?_⟩
  have hf' : A.mulVec f = fun i : Fin k => v.getD i 0 := hf
  rw [hmul, hf']
  apply List.ext_getElem
  · simp [hv, hk]
  · intro i h1 h2
    simp [h2]

end Lemmas.ChebyshevModel
