/-
Bridge between the list-of-rows matrices of `Model.Poly` (`chebyshevMatrix`, `mulVec`) and Mathlib's
`Matrix`: the code's basis-change matrix as `chebMat : Matrix (Fin m) (Fin m) ℝ`, the agreement of the
two matrix-vector products, and `IsUnit (chebMat …).det` from
`Lemmas.ChebyshevModel.chebyshevMatrix_injective`.  Used by Props/C14.lean (basis change of the
collision tensor).
-/
import WallGoVerif.Lemmas.ChebyshevModel
import Mathlib.LinearAlgebra.Matrix.NonsingularInverse

namespace Lemmas.CollisionCheb
open Model.Poly Lemmas.ChebyshevModel Matrix

/-- a list-of-rows matrix of the model as a Mathlib matrix -/
def toMatrix (M : List (List ℝ)) (m n : ℕ) : Matrix (Fin m) (Fin n) ℝ :=
  fun i j => (M.getD i []).getD j 0

theorem zipWith_ofFn_sum (r : List ℝ) (m : ℕ) (hr : r.length = m) (v : Fin m → ℝ) :
    (List.zipWith (· * ·) r (List.ofFn v)).sum = ∑ n : Fin m, r.getD n 0 * v n := by
  have : List.zipWith (· * ·) r (List.ofFn v) = List.ofFn (fun n : Fin m => r.getD n 0 * v n) := by
    apply List.ext_getElem
    · simp [hr]
    · intro i h1 h2
      have hi : i < r.length := by simp at h1; omega
      simp [List.getElem_zipWith, hi]
  rw [this, List.sum_ofFn]

theorem mulVec_ofFn (M : List (List ℝ)) (m n : ℕ) (hM : M.length = m) (hrow : ∀ r ∈ M, r.length = n)
    (v : Fin n → ℝ) :
    Model.Poly.mulVec (0 : ℝ) M (List.ofFn v) = List.ofFn (toMatrix M m n *ᵥ v) := by
  apply List.ext_getElem
  · simp [Model.Poly.mulVec, hM]
  · intro i h1 h2
    have hi : i < M.length := by simpa [Model.Poly.mulVec] using h1
    simp only [Model.Poly.mulVec, List.getElem_map, List.getElem_ofFn, sum_eq_list_sum]
    rw [zipWith_ofFn_sum _ n (hrow _ (List.getElem_mem hi))]
    simp [toMatrix, Matrix.mulVec, dotProduct, hi]

/-- the code's basis-change matrix `T[i][n] = T̄_{n}(x_i)` (`_chebyshevMatrix`, the `tnMatrix` of
`changeBasis`) as a square Mathlib matrix of the size `m` = number of kept nodes -/
noncomputable def chebMat (d : Dir) (e : Bool) (xs : List ℝ) (m : ℕ) : Matrix (Fin m) (Fin m) ℝ :=
  toMatrix (chebyshevMatrix (1 : ℝ) 2 d e xs) m m

theorem chebMat_isUnit_det (d : Dir) (e : Bool) (xs : List ℝ) (hnd : xs.Nodup)
    (hfirst : e = false → d ≠ .pp → xs.head? = some (-1))
    (hlast : e = false → xs.getLast? = some 1) (m : ℕ) (hm : m = (kept d e xs).length) :
    IsUnit (chebMat d e xs m).det := by
  rw [← Matrix.isUnit_iff_isUnit_det, ← Matrix.mulVec_injective_iff_isUnit]
  have hlen : (orders d e xs.length).length = m := by rw [hm, orders_length, kept_length]
  have hM : (chebyshevMatrix (1 : ℝ) 2 d e xs).length = m := by simp [chebyshevMatrix, hm]
  have hrow : ∀ r ∈ chebyshevMatrix (1 : ℝ) 2 d e xs, r.length = m := by
    intro r hr
    simp only [chebyshevMatrix, List.mem_map] at hr
    obtain ⟨x, _, rfl⟩ := hr
    simpa using hlen
  have key : ∀ v : Fin m → ℝ, chebMat d e xs m *ᵥ v = 0 → v = 0 := by
    intro v hv
    have h1 := mulVec_ofFn _ m m hM hrow v
    rw [show toMatrix (chebyshevMatrix (1 : ℝ) 2 d e xs) m m = chebMat d e xs m from rfl, hv] at h1
    have h2 : List.ofFn (0 : Fin m → ℝ) = List.replicate (kept d e xs).length 0 := by
      rw [← hm]; exact List.ext_getElem (by simp) (by simp)
    rw [h2] at h1
    have h3 := chebyshevMatrix_injective d e xs hnd hfirst hlast (List.ofFn v)
      (by simp [hlen]) h1
    funext i
    have := congrArg (fun l => l.getD i 0) h3
    simpa using this
  intro v w hvw
  have := key (v - w) (by rw [Matrix.mulVec_sub, hvw, sub_self])
  exact sub_eq_zero.mp this

/-- entries of `chebMat`: `T̄_{n_j}(x_i)` with `x_i` the kept nodes and `n_j` the orders of the direction -/
theorem chebMat_apply (d : Dir) (e : Bool) (xs : List ℝ) (m : ℕ) (hm : m = (kept d e xs).length)
    (i j : Fin m) :
    chebMat d e xs m i j = chebyshev (1 : ℝ) 2 (restrictionOf d e)
      ((orders d e xs.length).getD j 0) ((kept d e xs).getD i 0) := by
  have hi : (i : ℕ) < (kept d e xs).length := hm ▸ i.2
  have hj : (j : ℕ) < (orders d e xs.length).length := by
    rw [orders_length, ← kept_length, ← hm]; exact j.2
  simp [chebMat, toMatrix, chebyshevMatrix, hi, hj]

/-- `changeBasis('Cardinal')` of the model (list product with `chebyshevMatrix`) is `chebMat *ᵥ ·` -/
theorem mulVec_chebMat (d : Dir) (e : Bool) (xs : List ℝ) (m : ℕ) (hm : m = (kept d e xs).length)
    (c : Fin m → ℝ) :
    Model.Poly.mulVec (0 : ℝ) (chebyshevMatrix 1 2 d e xs) (List.ofFn c)
      = List.ofFn (chebMat d e xs m *ᵥ c) := by
  have hlen : (orders d e xs.length).length = m := by rw [hm, orders_length, kept_length]
  refine mulVec_ofFn _ m m (by simp [chebyshevMatrix, hm]) ?_ c
  intro r hr
  simp only [chebyshevMatrix, List.mem_map] at hr
  obtain ⟨x, _, rfl⟩ := hr
  simpa using hlen

end Lemmas.CollisionCheb
