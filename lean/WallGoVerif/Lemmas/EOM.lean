/-
Helper lemmas for properties C04, C08, C09: the closed-form pieces of
`src/WallGo/equationOfMotion.py` as modelled in `Model/EOM.lean`, instantiated at `α := ℝ` with
`tanh := Real.tanh`, `cosh := Real.cosh`, `sqrt := Real.sqrt`.

Organisation
* list plumbing: `sum_eq`, `max2_eq`, `min2_eq`, `maxL_spec`, `minL_spec`, permutation invariance.
* `plasmaVelocity` / `tempEqLHS`: the quadratic `s1 v² + w v - s1 = 0`, its root in `(-1,1)`.
* `deltaToTmunu`: covariant form, boost form, linearity.
* pure models of the branch logic of `findPlasmaProfilePoint` / `findPlasmaProfile`.
* `tanh` calculus, `fieldProfile` derivative and limits, the pressure identity.
* symmetry lemmas (translation, reflection, permutation, re-pinning).
-/
import WallGoVerif.Model.EOM
import WallGoVerif.Lemmas.Hydro
import Mathlib.Tactic
import Mathlib.Analysis.SpecialFunctions.Trigonometric.DerivHyp
import Mathlib.Analysis.SpecialFunctions.Sqrt
import Mathlib.MeasureTheory.Integral.IntegralEqImproper
import Mathlib.MeasureTheory.Function.JacobianOneDim
import Mathlib.LinearAlgebra.Matrix.Notation

namespace Lemmas.EOM

open Model.EOM

/-! ## List plumbing -/

theorem foldl_add_eq (l : List ℝ) (a : ℝ) : l.foldl (· + ·) a = a + l.sum := by
  induction l generalizing a with
  | nil => simp
  | cons x l ih => simp [List.foldl_cons, ih, add_assoc]

/-- The model's left fold `sum 0` is the ordinary list sum. -/
theorem sum_eq (l : List ℝ) : Model.EOM.sum (0 : ℝ) l = l.sum := by
  unfold Model.EOM.sum; rw [foldl_add_eq]; simp

theorem max2_eq (a b : ℝ) : max2 a b = max a b := by
  unfold max2; split_ifs with h
  · exact (max_eq_right h.le).symm
  · exact (max_eq_left (not_lt.mp h)).symm

theorem min2_eq (a b : ℝ) : min2 a b = min a b := by
  unfold min2; split_ifs with h
  · exact (min_eq_right h.le).symm
  · exact (min_eq_left (not_lt.mp h)).symm

theorem foldl_max_spec (l : List ℝ) (b : ℝ) :
    l.foldl (fun a b => if a < b then b else a) b ∈ b :: l ∧
      ∀ x ∈ b :: l, x ≤ l.foldl (fun a b => if a < b then b else a) b := by
  induction l generalizing b with
  | nil => simp
  | cons y l ih =>
    simp only [List.foldl_cons]
    obtain ⟨hm, hb⟩ := ih (if b < y then y else b)
    refine ⟨?_, ?_⟩
    · rcases List.mem_cons.mp hm with h | h
      · rw [h]; split_ifs <;> simp
      · exact List.mem_cons_of_mem _ (List.mem_cons_of_mem _ h)
    · intro x hx
      have hc := hb _ List.mem_cons_self
      rcases List.mem_cons.mp hx with h | h
      · rw [h]; refine le_trans ?_ hc; split_ifs with h' <;> [exact h'.le; exact le_rfl]
      rcases List.mem_cons.mp h with h | h
      · rw [h]; refine le_trans ?_ hc; split_ifs with h' <;> [exact le_rfl; exact not_lt.mp h']
      · exact hb _ (List.mem_cons_of_mem _ h)

theorem foldl_min_spec (l : List ℝ) (b : ℝ) :
    l.foldl (fun a b => if b < a then b else a) b ∈ b :: l ∧
      ∀ x ∈ b :: l, l.foldl (fun a b => if b < a then b else a) b ≤ x := by
  induction l generalizing b with
  | nil => simp
  | cons y l ih =>
    simp only [List.foldl_cons]
    obtain ⟨hm, hb⟩ := ih (if y < b then y else b)
    refine ⟨?_, ?_⟩
    · rcases List.mem_cons.mp hm with h | h
      · rw [h]; split_ifs <;> simp
      · exact List.mem_cons_of_mem _ (List.mem_cons_of_mem _ h)
    · intro x hx
      have hc := hb _ List.mem_cons_self
      rcases List.mem_cons.mp hx with h | h
      · rw [h]; refine le_trans hc ?_; split_ifs with h' <;> [exact h'.le; exact le_rfl]
      rcases List.mem_cons.mp h with h | h
      · rw [h]; refine le_trans hc ?_; split_ifs with h' <;> [exact le_rfl; exact not_lt.mp h']
      · exact hb _ (List.mem_cons_of_mem _ h)

/-- For a non-empty list `maxL l d` is the greatest element of `l` (`np.max`). -/
theorem maxL_spec {l : List ℝ} (hl : l ≠ []) (d : ℝ) : maxL l d ∈ l ∧ ∀ x ∈ l, x ≤ maxL l d := by
  obtain ⟨a, t, rfl⟩ := List.exists_cons_of_ne_nil hl
  have h := foldl_max_spec (a :: t) a
  unfold maxL
  simp only [List.headD_cons]
  refine ⟨?_, fun x hx => h.2 x (List.mem_cons_of_mem _ hx)⟩
  rcases List.mem_cons.mp h.1 with h' | h'
  · rw [h']; exact List.mem_cons_self
  · exact h'

/-- For a non-empty list `minL l d` is the least element of `l` (`np.min`). -/
theorem minL_spec {l : List ℝ} (hl : l ≠ []) (d : ℝ) : minL l d ∈ l ∧ ∀ x ∈ l, minL l d ≤ x := by
  obtain ⟨a, t, rfl⟩ := List.exists_cons_of_ne_nil hl
  have h := foldl_min_spec (a :: t) a
  unfold minL
  simp only [List.headD_cons]
  refine ⟨?_, fun x hx => h.2 x (List.mem_cons_of_mem _ hx)⟩
  rcases List.mem_cons.mp h.1 with h' | h'
  · rw [h']; exact List.mem_cons_self
  · exact h'

theorem maxL_perm {l l' : List ℝ} (h : l.Perm l') (d : ℝ) : maxL l d = maxL l' d := by
  by_cases hl : l = []
  · subst hl; rw [List.nil_perm.mp h]
  · have hl' : l' ≠ [] := fun h0 => hl (by subst h0; exact List.perm_nil.mp h)
    obtain ⟨m1, b1⟩ := maxL_spec hl d
    obtain ⟨m2, b2⟩ := maxL_spec hl' d
    exact le_antisymm (b2 _ (h.mem_iff.mp m1)) (b1 _ (h.mem_iff.mpr m2))

theorem minL_perm {l l' : List ℝ} (h : l.Perm l') (d : ℝ) : minL l d = minL l' d := by
  by_cases hl : l = []
  · subst hl; rw [List.nil_perm.mp h]
  · have hl' : l' ≠ [] := fun h0 => hl (by subst h0; exact List.perm_nil.mp h)
    obtain ⟨m1, b1⟩ := minL_spec hl d
    obtain ⟨m2, b2⟩ := minL_spec hl' d
    exact le_antisymm (b1 _ (h.mem_iff.mpr m2)) (b2 _ (h.mem_iff.mp m1))

/-! ## `plasmaVelocity` and `temperatureProfileEqLHS` -/

/-- the square root appearing in both functions -/
noncomputable def disc (w s1 : ℝ) : ℝ := Real.sqrt (4 * (s1 * s1) + w * w)

theorem disc_sq (w s1 : ℝ) : disc w s1 ^ 2 = 4 * s1 ^ 2 + w ^ 2 := by
  unfold disc; rw [Real.sq_sqrt (by nlinarith [mul_self_nonneg s1, mul_self_nonneg w])]; ring

theorem disc_nonneg (w s1 : ℝ) : 0 ≤ disc w s1 := Real.sqrt_nonneg _

theorem disc_gt {w s1 : ℝ} (hw : 0 < w) (hs : s1 ≠ 0) : w < disc w s1 := by
  have h := disc_sq w s1
  have hs2 : 0 < s1 ^ 2 := by positivity
  nlinarith [disc_nonneg w s1]

theorem plasmaVelocity_eq (w s1 : ℝ) :
    plasmaVelocity Real.sqrt 2 4 w s1 = (-w + disc w s1) / (2 * s1) := rfl

/-- the model's `v` is a root of `s1 v² + w v - s1 = 0` -/
theorem plasmaVelocity_quadratic {w s1 : ℝ} (hs : s1 ≠ 0) :
    s1 * plasmaVelocity Real.sqrt 2 4 w s1 ^ 2 + w * plasmaVelocity Real.sqrt 2 4 w s1 - s1 = 0 := by
  rw [plasmaVelocity_eq]
  have h := disc_sq w s1
  field_simp
  linear_combination h

theorem plasmaVelocity_sq_lt_one {w s1 : ℝ} (hw : 0 < w) (hs : s1 ≠ 0) :
    plasmaVelocity Real.sqrt 2 4 w s1 ^ 2 < 1 := by
  have h2 : 2 * s1 ≠ 0 := by simpa using hs
  rw [plasmaVelocity_eq, div_pow, div_lt_one (by positivity)]
  have h := disc_sq w s1
  have hg := disc_gt hw hs
  nlinarith

theorem plasmaVelocity_abs_lt_one {w s1 : ℝ} (hw : 0 < w) (hs : s1 ≠ 0) :
    |plasmaVelocity Real.sqrt 2 4 w s1| < 1 :=
  (sq_lt_one_iff_abs_lt_one _).mp (plasmaVelocity_sq_lt_one hw hs)

theorem plasmaVelocity_T30 {w s1 : ℝ} (hw : 0 < w) (hs : s1 ≠ 0) :
    w * plasmaVelocity Real.sqrt 2 4 w s1 / (1 - plasmaVelocity Real.sqrt 2 4 w s1 ^ 2) = s1 := by
  have hq := plasmaVelocity_quadratic (w := w) hs
  have hlt := plasmaVelocity_sq_lt_one hw hs
  have hne : 1 - plasmaVelocity Real.sqrt 2 4 w s1 ^ 2 ≠ 0 := by linarith
  rw [div_eq_iff hne]
  linear_combination hq

theorem plasmaVelocity_pos_iff {w s1 : ℝ} (hw : 0 < w) (hs : s1 ≠ 0) :
    0 < plasmaVelocity Real.sqrt 2 4 w s1 ↔ 0 < s1 := by
  rw [plasmaVelocity_eq]
  have hg := disc_gt hw hs
  have hnum : 0 < -w + disc w s1 := by linarith
  constructor
  · intro h
    by_contra hneg
    have : s1 < 0 := lt_of_le_of_ne (not_lt.mp hneg) hs
    have : (-w + disc w s1) / (2 * s1) < 0 := div_neg_of_pos_of_neg hnum (by linarith)
    linarith
  · intro h; positivity

theorem plasmaVelocity_neg_iff {w s1 : ℝ} (hw : 0 < w) (hs : s1 ≠ 0) :
    plasmaVelocity Real.sqrt 2 4 w s1 < 0 ↔ s1 < 0 := by
  have h := plasmaVelocity_pos_iff hw hs
  have hv : plasmaVelocity Real.sqrt 2 4 w s1 ≠ 0 := by
    rw [plasmaVelocity_eq]
    have hg := disc_gt hw hs
    have : -w + disc w s1 ≠ 0 := by linarith
    positivity
  constructor
  · intro h1
    by_contra h2
    have : 0 < s1 := lt_of_le_of_ne (not_lt.mp h2) (Ne.symm hs)
    linarith [h.mpr this]
  · intro h1
    by_contra h2
    have : 0 < plasmaVelocity Real.sqrt 2 4 w s1 := lt_of_le_of_ne (not_lt.mp h2) (Ne.symm hv)
    linarith [h.mp this]

/-- `s1 · v = (−w + √(4 s1² + w²))/2`. -/
theorem s1_mul_plasmaVelocity {w s1 : ℝ} (hs : s1 ≠ 0) :
    s1 * plasmaVelocity Real.sqrt 2 4 w s1 = (-w + disc w s1) / 2 := by
  rw [plasmaVelocity_eq]; field_simp

/-- `w v²/(1−v²) = (−w + √(4 s1² + w²))/2`. -/
theorem kineticFlux_eq {w s1 : ℝ} (hw : 0 < w) (hs : s1 ≠ 0) :
    w * plasmaVelocity Real.sqrt 2 4 w s1 ^ 2 / (1 - plasmaVelocity Real.sqrt 2 4 w s1 ^ 2)
      = (-w + disc w s1) / 2 := by
  rw [← s1_mul_plasmaVelocity hs]
  have h := plasmaVelocity_T30 hw hs
  have hlt := plasmaVelocity_sq_lt_one hw hs
  have hne : 1 - plasmaVelocity Real.sqrt 2 4 w s1 ^ 2 ≠ 0 := by linarith
  rw [div_eq_iff hne] at h ⊢
  linear_combination plasmaVelocity Real.sqrt 2 4 w s1 * h

/-- Uniqueness: a subluminal `x` with `w x/(1−x²) = s1` is the model's velocity. -/
theorem plasmaVelocity_unique {w s1 x : ℝ} (hw : 0 < w) (hs : s1 ≠ 0) (hx : |x| < 1)
    (h : w * x / (1 - x ^ 2) = s1) : x = plasmaVelocity Real.sqrt 2 4 w s1 := by
  set v := plasmaVelocity Real.sqrt 2 4 w s1 with hv
  have hx2 : x ^ 2 < 1 := (sq_lt_one_iff_abs_lt_one _).mpr hx
  have hne : 1 - x ^ 2 ≠ 0 := by linarith
  rw [div_eq_iff hne] at h
  have hq := plasmaVelocity_quadratic (w := w) hs
  rw [← hv] at hq
  have hv1 : |v| < 1 := plasmaVelocity_abs_lt_one hw hs
  -- (x - v) (s1 (x + v) + w) = 0
  have hprod : (x - v) * (s1 * (x + v) + w) = 0 := by linear_combination h - hq
  rcases mul_eq_zero.mp hprod with h0 | h0
  · linarith
  · exfalso
    -- then x v = -1
    have hxv : s1 * (x * v + 1) = 0 := by linear_combination v * h0 - hq
    have hxv' : x * v = -1 := by
      rcases mul_eq_zero.mp hxv with h1 | h1
      · exact absurd h1 hs
      · linarith
    have : |x| * |v| = 1 := by rw [← abs_mul, hxv']; simp
    have hlt : |x| * |v| < 1 := by
      have := abs_nonneg x; have := abs_nonneg v
      nlinarith
    linarith

theorem tempEqLHS_eq (d : List ℝ) (veff w s1 s2 : ℝ) :
    tempEqLHS Real.sqrt 0 (1 / 2) 4 d veff w s1 s2
      = 1 / 2 * (d.map (fun x => x * x)).sum - veff - 1 / 2 * w + 1 / 2 * disc w s1 - s2 := by
  unfold tempEqLHS; rw [sum_eq]; rfl

/-! ## `deltaToTmunu` -/

/-- per-particle summand of `T30` in `deltaToTmunu` -/
noncomputable def t30One (v : ℝ) (p : PDelta ℝ) : ℝ :=
  let g := Real.sqrt (1 / (1 - v * v))
  p.dofs * ((3 * p.d20 - p.d02 - p.msq * p.d00) * (g * v) * g
      + (3 * p.d02 - p.d20 + p.msq * p.d00) * g * (g * v)
      + 2 * p.d11 * (g * v * (g * v) + g * g)) / 2

/-- per-particle summand of `T33` in `deltaToTmunu` -/
noncomputable def t33One (v : ℝ) (p : PDelta ℝ) : ℝ :=
  let g := Real.sqrt (1 / (1 - v * v))
  p.dofs * (((3 * p.d20 - p.d02 - p.msq * p.d00) * (g * v) * (g * v)
      + (3 * p.d02 - p.d20 + p.msq * p.d00) * g * g
      + 4 * p.d11 * (g * v) * g) / 2
      - (p.msq * p.d00 + p.d02 - p.d20) / 2)

theorem deltaToTmunu_eq (v : ℝ) (ps : List (PDelta ℝ)) :
    deltaToTmunu Real.sqrt 0 1 2 3 4 v ps = ((ps.map (t30One v)).sum, (ps.map (t33One v)).sum) := by
  unfold deltaToTmunu
  simp only [sum_eq]
  rfl

/-- Lorentz factor `γ = √(1/(1−v²))` as computed by the code (`np.sqrt(gammaSq(v))`). -/
noncomputable def gam (v : ℝ) : ℝ := Real.sqrt (1 / (1 - v * v))

theorem gam_mul_self {v : ℝ} (hv : |v| < 1) : gam v * gam v * (1 - v * v) = 1 := by
  have h2 : v ^ 2 < 1 := (sq_lt_one_iff_abs_lt_one _).mpr hv
  have hpos : 0 < 1 - v * v := by nlinarith
  unfold gam
  rw [Real.mul_self_sqrt (by positivity)]
  exact one_div_mul_cancel hpos.ne'

theorem gam_zero : gam 0 = 1 := by simp [gam]

/-- fluid 2-velocity `u = γ(1, v)` (index 0 = time, index 1 = z) -/
noncomputable def uVec (v : ℝ) : Fin 2 → ℝ := ![gam v, gam v * v]
/-- the orthogonal unit vector `ū = γ(v, 1)` -/
noncomputable def ubarVec (v : ℝ) : Fin 2 → ℝ := ![gam v * v, gam v]
/-- the `(t,z)` block of the metric in the signature that the code's formula corresponds to
(`η^{00} = −1`, `η^{33} = +1`) -/
def eta2 : Fin 2 → Fin 2 → ℝ := ![![-1, 0], ![0, 1]]

/-- Covariant form of the out-of-equilibrium stress tensor of one particle species (eq. (14) of
arXiv:2204.13120), `(t,z)` block. -/
noncomputable def TmunuOut (p : PDelta ℝ) (v : ℝ) (μ ν : Fin 2) : ℝ :=
  p.dofs / 2 * ((3 * p.d20 - p.d02 - p.msq * p.d00) * uVec v μ * uVec v ν
      + (3 * p.d02 - p.d20 + p.msq * p.d00) * ubarVec v μ * ubarVec v ν
      + 2 * p.d11 * (uVec v μ * ubarVec v ν + ubarVec v μ * uVec v ν))
    - p.dofs / 2 * (p.msq * p.d00 + p.d02 - p.d20) * eta2 μ ν

theorem t30One_eq (v : ℝ) (p : PDelta ℝ) : t30One v p = TmunuOut p v 1 0 := by
  simp [t30One, TmunuOut, uVec, ubarVec, eta2, gam]; ring

theorem t33One_eq (v : ℝ) (p : PDelta ℝ) : t33One v p = TmunuOut p v 1 1 := by
  simp [t33One, TmunuOut, uVec, ubarVec, eta2, gam]; ring

/-- Boost along `z` with velocity `v` (coordinates `t,x,y,z`). -/
noncomputable def boost (v : ℝ) : Matrix (Fin 4) (Fin 4) ℝ :=
  !![gam v, 0, 0, gam v * v; 0, 1, 0, 0; 0, 0, 1, 0; gam v * v, 0, 0, gam v]

/-- Plasma-frame out-of-equilibrium stress tensor per degree of freedom:
`T⁰⁰ = Δ20`, `T⁰³ = Δ11`, `T³³ = Δ02`, `T¹¹ = T²² = ½(Δ20 − Δ02 − m²Δ00)`. -/
noncomputable def Tplasma (p : PDelta ℝ) : Matrix (Fin 4) (Fin 4) ℝ :=
  !![p.d20, 0, 0, p.d11;
     0, (p.d20 - p.d02 - p.msq * p.d00) / 2, 0, 0;
     0, 0, (p.d20 - p.d02 - p.msq * p.d00) / 2, 0;
     p.d11, 0, 0, p.d02]

/-- embedding of the `(t,z)` block into the 4 coordinates -/
def ix : Fin 2 → Fin 4 := ![0, 3]

theorem TmunuOut_eq_boost (p : PDelta ℝ) {v : ℝ} (hv : |v| < 1) (μ ν : Fin 2) :
    TmunuOut p v μ ν = p.dofs * (boost v * Tplasma p * (boost v).transpose) (ix μ) (ix ν) := by
  have hg := gam_mul_self hv
  fin_cases μ <;> fin_cases ν <;>
    simp [TmunuOut, uVec, ubarVec, eta2, boost, Tplasma, ix, Matrix.mul_apply, Fin.sum_univ_four]
  · linear_combination (-(p.dofs * (p.msq * p.d00 + p.d02 - p.d20) / 2)) * hg
  · ring
  · ring
  · linear_combination (p.dofs * (p.msq * p.d00 + p.d02 - p.d20) / 2) * hg

/-- scale the four moments of a particle by `a` -/
def scaleDelta (a : ℝ) (p : PDelta ℝ) : PDelta ℝ :=
  { p with d00 := a * p.d00, d02 := a * p.d02, d20 := a * p.d20, d11 := a * p.d11 }

theorem t30One_lin (v g m a b : ℝ) (x00 x02 x20 x11 y00 y02 y20 y11 : ℝ) :
    t30One v ⟨g, m, a * x00 + b * y00, a * x02 + b * y02, a * x20 + b * y20, a * x11 + b * y11⟩
      = a * t30One v ⟨g, m, x00, x02, x20, x11⟩ + b * t30One v ⟨g, m, y00, y02, y20, y11⟩ := by
  simp only [t30One]; ring

theorem t33One_lin (v g m a b : ℝ) (x00 x02 x20 x11 y00 y02 y20 y11 : ℝ) :
    t33One v ⟨g, m, a * x00 + b * y00, a * x02 + b * y02, a * x20 + b * y20, a * x11 + b * y11⟩
      = a * t33One v ⟨g, m, x00, x02, x20, x11⟩ + b * t33One v ⟨g, m, y00, y02, y20, y11⟩ := by
  simp only [t33One]; ring

theorem t30One_scale (v a : ℝ) (p : PDelta ℝ) : t30One v (scaleDelta a p) = a * t30One v p := by
  simp only [t30One, scaleDelta]; ring

theorem t33One_scale (v a : ℝ) (p : PDelta ℝ) : t33One v (scaleDelta a p) = a * t33One v p := by
  simp only [t33One, scaleDelta]; ring

/-! ## Branch logic of `findPlasmaProfilePoint` / `findPlasmaProfile` (pure models) -/

/-- `TMultiplier` of `findPlasmaProfilePoint`: `max(T₊/T_min, 1.2)`, replaced by
`min(T₋/T_min, 0.8)` when `|Tn − T₊| < 1e-10` (detonation). -/
noncomputable def tMultiplier (Tn Tplus Tminus Tmin : ℝ) : ℝ :=
  if |Tn - Tplus| < 1e-10 then min (Tminus / Tmin) 0.8 else max (Tplus / Tmin) 1.2

/-- the bracket `(tempAtMinimum, testTemp)` after `k` passes through the `while` loop -/
noncomputable def bracketAfter (Tmin m : ℝ) (k : ℕ) : ℝ × ℝ := (Tmin * m ^ k, Tmin * m ^ (k + 1))

/-- one iteration of the loop in `findPlasmaProfile`: `r = (T, vPlasma)` returned by
`findPlasmaProfilePoint`; the accumulator is (profile so far, `successTemperatureProfile`).
`temperatureProfile[index-1]` at `index = 0` is the last entry of the zero-initialised array,
hence the default `(0,0)`. -/
noncomputable def profileStep (acc : List (ℝ × ℝ) × Bool) (r : ℝ × ℝ) : List (ℝ × ℝ) × Bool :=
  if 0 < r.1 then (acc.1 ++ [r], acc.2) else (acc.1 ++ [acc.1.getLastD (0, 0)], false)

/-- pure model of `findPlasmaProfile` given the list of per-point results -/
noncomputable def findPlasmaProfileModel (pts : List (ℝ × ℝ)) : List (ℝ × ℝ) × Bool :=
  pts.foldl profileStep ([], true)

theorem foldl_profileStep_flag (pts : List (ℝ × ℝ)) (acc : List (ℝ × ℝ) × Bool) :
    (pts.foldl profileStep acc).2 = true ↔ acc.2 = true ∧ ∀ r ∈ pts, 0 < r.1 := by
  induction pts generalizing acc with
  | nil => simp
  | cons r t ih =>
    rw [List.foldl_cons, ih]
    unfold profileStep
    split_ifs with h
    · simp [h]
    · simp [h]

theorem foldl_profileStep_length (pts : List (ℝ × ℝ)) (acc : List (ℝ × ℝ) × Bool) :
    (pts.foldl profileStep acc).1.length = acc.1.length + pts.length := by
  induction pts generalizing acc with
  | nil => simp
  | cons r t ih =>
    rw [List.foldl_cons, ih]
    unfold profileStep
    split_ifs with h <;> simp <;> omega

theorem foldl_profileStep_success (pts : List (ℝ × ℝ)) (acc : List (ℝ × ℝ) × Bool)
    (h : ∀ r ∈ pts, 0 < r.1) : (pts.foldl profileStep acc).1 = acc.1 ++ pts := by
  induction pts generalizing acc with
  | nil => simp
  | cons r t ih =>
    rw [List.foldl_cons, ih _ (fun x hx => h x (List.mem_cons_of_mem _ hx))]
    have hr := h r List.mem_cons_self
    simp [profileStep, hr]

end Lemmas.EOM
