/-
Helper lemmas for properties C04, C08, C09: the closed-form pieces of
`src/WallGo/equationOfMotion.py` as modelled in `Model/EOM.lean`, instantiated at `α := ℝ` with
`tanh := Real.tanh`, `cosh := Real.cosh`, `sqrt := Real.sqrt`.

Organisation
* list plumbing: `sum_eq`, `max2_eq`, `min2_eq`, `maxL_spec`, `minL_spec`, permutation invariance.
* `plasmaVelocity` / `tempEqLHS`: the quadratic `s1 v² + w v - s1 = 0`, its root in `(-1,1)`.
* `deltaToTmunu`: covariant form, boost form, linearity.
* pure models of the branch logic of `findPlasmaProfilePoint` / `findPlasmaProfile`.
* `tanh` calculus, `fieldProfile` derivative and limits, the pressure identity.
* symmetry lemmas (translation, reflection, permutation, re-pinning).
-/
import WallGoVerif.Model.EOM
import WallGoVerif.Lemmas.Hydro
import WallGoVerif.Gen.R.Grid
import Mathlib.Tactic
import Mathlib.Analysis.SpecialFunctions.Trigonometric.DerivHyp
import Mathlib.Analysis.SpecialFunctions.Sqrt
import Mathlib.MeasureTheory.Integral.IntegralEqImproper
import Mathlib.MeasureTheory.Function.JacobianOneDim
import Mathlib.LinearAlgebra.Matrix.Notation
import Mathlib.MeasureTheory.Measure.Haar.NormedSpace
import Mathlib.Analysis.Calculus.FDeriv.Basic

namespace Lemmas.EOM

open Model.EOM

/-! ## List plumbing -/

theorem foldl_add_eq (l : List ℝ) (a : ℝ) : l.foldl (· + ·) a = a + l.sum := by
  induction l generalizing a with
  | nil => simp
  | cons x l ih => simp [List.foldl_cons, ih, add_assoc]

/-- The model's left fold `sum 0` is the ordinary list sum. -/
theorem sum_eq (l : List ℝ) : Model.EOM.sum (0 : ℝ) l = l.sum := by
  unfold Model.EOM.sum; rw [foldl_add_eq]; simp

theorem max2_eq (a b : ℝ) : max2 a b = max a b := by
  unfold max2; split_ifs with h
  · exact (max_eq_right h.le).symm
  · exact (max_eq_left (not_lt.mp h)).symm

theorem min2_eq (a b : ℝ) : min2 a b = min a b := by
  unfold min2; split_ifs with h
  · exact (min_eq_right h.le).symm
  · exact (min_eq_left (not_lt.mp h)).symm

theorem foldl_max_spec (l : List ℝ) (b : ℝ) :
    l.foldl (fun a b => if a < b then b else a) b ∈ b :: l ∧
      ∀ x ∈ b :: l, x ≤ l.foldl (fun a b => if a < b then b else a) b := by
  induction l generalizing b with
  | nil => simp
  | cons y l ih =>
    simp only [List.foldl_cons]
    obtain ⟨hm, hb⟩ := ih (if b < y then y else b)
    refine ⟨?_, ?_⟩
    · rcases List.mem_cons.mp hm with h | h
      · rw [h]; split_ifs <;> simp
      · exact List.mem_cons_of_mem _ (List.mem_cons_of_mem _ h)
    · intro x hx
      have hc := hb _ List.mem_cons_self
      rcases List.mem_cons.mp hx with h | h
      · rw [h]; refine le_trans ?_ hc; split_ifs with h' <;> [exact h'.le; exact le_rfl]
      rcases List.mem_cons.mp h with h | h
      · rw [h]; refine le_trans ?_ hc; split_ifs with h' <;> [exact le_rfl; exact not_lt.mp h']
      · exact hb _ (List.mem_cons_of_mem _ h)

theorem foldl_min_spec (l : List ℝ) (b : ℝ) :
    l.foldl (fun a b => if b < a then b else a) b ∈ b :: l ∧
      ∀ x ∈ b :: l, l.foldl (fun a b => if b < a then b else a) b ≤ x := by
  induction l generalizing b with
  | nil => simp
  | cons y l ih =>
    simp only [List.foldl_cons]
    obtain ⟨hm, hb⟩ := ih (if y < b then y else b)
    refine ⟨?_, ?_⟩
    · rcases List.mem_cons.mp hm with h | h
      · rw [h]; split_ifs <;> simp
      · exact List.mem_cons_of_mem _ (List.mem_cons_of_mem _ h)
    · intro x hx
      have hc := hb _ List.mem_cons_self
      rcases List.mem_cons.mp hx with h | h
      · rw [h]; refine le_trans hc ?_; split_ifs with h' <;> [exact h'.le; exact le_rfl]
      rcases List.mem_cons.mp h with h | h
      · rw [h]; refine le_trans hc ?_; split_ifs with h' <;> [exact le_rfl; exact not_lt.mp h']
      · exact hb _ (List.mem_cons_of_mem _ h)

/-- For a non-empty list `maxL l d` is the greatest element of `l` (`np.max`). -/
theorem maxL_spec {l : List ℝ} (hl : l ≠ []) (d : ℝ) : maxL l d ∈ l ∧ ∀ x ∈ l, x ≤ maxL l d := by
  obtain ⟨a, t, rfl⟩ := List.exists_cons_of_ne_nil hl
  have h := foldl_max_spec (a :: t) a
  unfold maxL
  simp only [List.headD_cons]
  refine ⟨?_, fun x hx => h.2 x (List.mem_cons_of_mem _ hx)⟩
  rcases List.mem_cons.mp h.1 with h' | h'
  · rw [h']; exact List.mem_cons_self
  · exact h'

/-- For a non-empty list `minL l d` is the least element of `l` (`np.min`). -/
theorem minL_spec {l : List ℝ} (hl : l ≠ []) (d : ℝ) : minL l d ∈ l ∧ ∀ x ∈ l, minL l d ≤ x := by
  obtain ⟨a, t, rfl⟩ := List.exists_cons_of_ne_nil hl
  have h := foldl_min_spec (a :: t) a
  unfold minL
  simp only [List.headD_cons]
  refine ⟨?_, fun x hx => h.2 x (List.mem_cons_of_mem _ hx)⟩
  rcases List.mem_cons.mp h.1 with h' | h'
  · rw [h']; exact List.mem_cons_self
  · exact h'

theorem maxL_perm {l l' : List ℝ} (h : l.Perm l') (d : ℝ) : maxL l d = maxL l' d := by
  by_cases hl : l = []
  · subst hl; rw [List.nil_perm.mp h]
  · have hl' : l' ≠ [] := fun h0 => hl (by subst h0; exact List.perm_nil.mp h)
    obtain ⟨m1, b1⟩ := maxL_spec hl d
    obtain ⟨m2, b2⟩ := maxL_spec hl' d
    exact le_antisymm (b2 _ (h.mem_iff.mp m1)) (b1 _ (h.mem_iff.mpr m2))

theorem minL_perm {l l' : List ℝ} (h : l.Perm l') (d : ℝ) : minL l d = minL l' d := by
  by_cases hl : l = []
  · subst hl; rw [List.nil_perm.mp h]
  · have hl' : l' ≠ [] := fun h0 => hl (by subst h0; exact List.perm_nil.mp h)
    obtain ⟨m1, b1⟩ := minL_spec hl d
    obtain ⟨m2, b2⟩ := minL_spec hl' d
    exact le_antisymm (b1 _ (h.mem_iff.mpr m2)) (b2 _ (h.mem_iff.mp m1))

/-! ## `plasmaVelocity` and `temperatureProfileEqLHS` -/

/-- the square root appearing in both functions -/
noncomputable def disc (w s1 : ℝ) : ℝ := Real.sqrt (4 * (s1 * s1) + w * w)

theorem disc_sq (w s1 : ℝ) : disc w s1 ^ 2 = 4 * s1 ^ 2 + w ^ 2 := by
  unfold disc; rw [Real.sq_sqrt (by nlinarith [mul_self_nonneg s1, mul_self_nonneg w])]; ring

theorem disc_nonneg (w s1 : ℝ) : 0 ≤ disc w s1 := Real.sqrt_nonneg _

theorem disc_gt {w s1 : ℝ} (hw : 0 < w) (hs : s1 ≠ 0) : w < disc w s1 := by
  have h := disc_sq w s1
  have hs2 : 0 < s1 ^ 2 := by positivity
  nlinarith [disc_nonneg w s1]

theorem plasmaVelocity_eq (w s1 : ℝ) :
    plasmaVelocity Real.sqrt 2 4 w s1 = (-w + disc w s1) / (2 * s1) := rfl

/-- the model's `v` is a root of `s1 v² + w v - s1 = 0` -/
theorem plasmaVelocity_quadratic {w s1 : ℝ} (hs : s1 ≠ 0) :
    s1 * plasmaVelocity Real.sqrt 2 4 w s1 ^ 2 + w * plasmaVelocity Real.sqrt 2 4 w s1 - s1 = 0 := by
  rw [plasmaVelocity_eq]
  have h := disc_sq w s1
  field_simp
  linear_combination h

theorem plasmaVelocity_sq_lt_one {w s1 : ℝ} (hw : 0 < w) (hs : s1 ≠ 0) :
    plasmaVelocity Real.sqrt 2 4 w s1 ^ 2 < 1 := by
  have h2 : 2 * s1 ≠ 0 := by simpa using hs
  rw [plasmaVelocity_eq, div_pow, div_lt_one (by positivity)]
  have h := disc_sq w s1
  have hg := disc_gt hw hs
  nlinarith

theorem plasmaVelocity_abs_lt_one {w s1 : ℝ} (hw : 0 < w) (hs : s1 ≠ 0) :
    |plasmaVelocity Real.sqrt 2 4 w s1| < 1 :=
  (sq_lt_one_iff_abs_lt_one _).mp (plasmaVelocity_sq_lt_one hw hs)

theorem plasmaVelocity_T30 {w s1 : ℝ} (hw : 0 < w) (hs : s1 ≠ 0) :
    w * plasmaVelocity Real.sqrt 2 4 w s1 / (1 - plasmaVelocity Real.sqrt 2 4 w s1 ^ 2) = s1 := by
  have hq := plasmaVelocity_quadratic (w := w) hs
  have hlt := plasmaVelocity_sq_lt_one hw hs
  have hne : 1 - plasmaVelocity Real.sqrt 2 4 w s1 ^ 2 ≠ 0 := by linarith
  rw [div_eq_iff hne]
  linear_combination hq

theorem plasmaVelocity_pos_iff {w s1 : ℝ} (hw : 0 < w) (hs : s1 ≠ 0) :
    0 < plasmaVelocity Real.sqrt 2 4 w s1 ↔ 0 < s1 := by
  rw [plasmaVelocity_eq]
  have hg := disc_gt hw hs
  have hnum : 0 < -w + disc w s1 := by linarith
  constructor
  · intro h
    by_contra hneg
    have : s1 < 0 := lt_of_le_of_ne (not_lt.mp hneg) hs
    have : (-w + disc w s1) / (2 * s1) < 0 := div_neg_of_pos_of_neg hnum (by linarith)
    linarith
  · intro h; positivity

theorem plasmaVelocity_neg_iff {w s1 : ℝ} (hw : 0 < w) (hs : s1 ≠ 0) :
    plasmaVelocity Real.sqrt 2 4 w s1 < 0 ↔ s1 < 0 := by
  have h := plasmaVelocity_pos_iff hw hs
  have hv : plasmaVelocity Real.sqrt 2 4 w s1 ≠ 0 := by
    rw [plasmaVelocity_eq]
    have hg := disc_gt hw hs
    have : -w + disc w s1 ≠ 0 := by linarith
    positivity
  constructor
  · intro h1
    by_contra h2
    have : 0 < s1 := lt_of_le_of_ne (not_lt.mp h2) (Ne.symm hs)
    linarith [h.mpr this]
  · intro h1
    by_contra h2
    have : 0 < plasmaVelocity Real.sqrt 2 4 w s1 := lt_of_le_of_ne (not_lt.mp h2) (Ne.symm hv)
    linarith [h.mp this]

/-- `s1 · v = (−w + √(4 s1² + w²))/2`. -/
theorem s1_mul_plasmaVelocity {w s1 : ℝ} (hs : s1 ≠ 0) :
    s1 * plasmaVelocity Real.sqrt 2 4 w s1 = (-w + disc w s1) / 2 := by
  rw [plasmaVelocity_eq]; field_simp

/-- `w v²/(1−v²) = (−w + √(4 s1² + w²))/2`. -/
theorem kineticFlux_eq {w s1 : ℝ} (hw : 0 < w) (hs : s1 ≠ 0) :
    w * plasmaVelocity Real.sqrt 2 4 w s1 ^ 2 / (1 - plasmaVelocity Real.sqrt 2 4 w s1 ^ 2)
      = (-w + disc w s1) / 2 := by
  rw [← s1_mul_plasmaVelocity hs]
  have h := plasmaVelocity_T30 hw hs
  have hlt := plasmaVelocity_sq_lt_one hw hs
  have hne : 1 - plasmaVelocity Real.sqrt 2 4 w s1 ^ 2 ≠ 0 := by linarith
  rw [div_eq_iff hne] at h ⊢
  linear_combination plasmaVelocity Real.sqrt 2 4 w s1 * h

/-- Uniqueness: a subluminal `x` with `w x/(1−x²) = s1` is the model's velocity. -/
theorem plasmaVelocity_unique {w s1 x : ℝ} (hw : 0 < w) (hs : s1 ≠ 0) (hx : |x| < 1)
    (h : w * x / (1 - x ^ 2) = s1) : x = plasmaVelocity Real.sqrt 2 4 w s1 := by
  set v := plasmaVelocity Real.sqrt 2 4 w s1 with hv
  have hx2 : x ^ 2 < 1 := (sq_lt_one_iff_abs_lt_one _).mpr hx
  have hne : 1 - x ^ 2 ≠ 0 := by linarith
  rw [div_eq_iff hne] at h
  have hq := plasmaVelocity_quadratic (w := w) hs
  rw [← hv] at hq
  have hv1 : |v| < 1 := plasmaVelocity_abs_lt_one hw hs
  -- (x - v) (s1 (x + v) + w) = 0
  have hprod : (x - v) * (s1 * (x + v) + w) = 0 := by linear_combination h - hq
  rcases mul_eq_zero.mp hprod with h0 | h0
  · linarith
  · exfalso
    -- then x v = -1
    have hxv : s1 * (x * v + 1) = 0 := by linear_combination v * h0 - hq
    have hxv' : x * v = -1 := by
      rcases mul_eq_zero.mp hxv with h1 | h1
      · exact absurd h1 hs
      · linarith
    have : |x| * |v| = 1 := by rw [← abs_mul, hxv']; simp
    have hlt : |x| * |v| < 1 := by
      have := abs_nonneg x; have := abs_nonneg v
      nlinarith
    linarith

theorem tempEqLHS_eq (d : List ℝ) (veff w s1 s2 : ℝ) :
    tempEqLHS Real.sqrt 0 (1 / 2) 4 d veff w s1 s2
      = 1 / 2 * (d.map (fun x => x * x)).sum - veff - 1 / 2 * w + 1 / 2 * disc w s1 - s2 := by
  unfold tempEqLHS; rw [sum_eq]; rfl

/-! ## `deltaToTmunu` -/

/-- per-particle summand of `T30` in `deltaToTmunu` -/
noncomputable def t30One (v : ℝ) (p : PDelta ℝ) : ℝ :=
  let g := Real.sqrt (1 / (1 - v * v))
  p.dofs * ((3 * p.d20 - p.d02 - p.msq * p.d00) * (g * v) * g
      + (3 * p.d02 - p.d20 + p.msq * p.d00) * g * (g * v)
      + 2 * p.d11 * (g * v * (g * v) + g * g)) / 2

/-- per-particle summand of `T33` in `deltaToTmunu` -/
noncomputable def t33One (v : ℝ) (p : PDelta ℝ) : ℝ :=
  let g := Real.sqrt (1 / (1 - v * v))
  p.dofs * (((3 * p.d20 - p.d02 - p.msq * p.d00) * (g * v) * (g * v)
      + (3 * p.d02 - p.d20 + p.msq * p.d00) * g * g
      + 4 * p.d11 * (g * v) * g) / 2
      - (p.msq * p.d00 + p.d02 - p.d20) / 2)

theorem deltaToTmunu_eq (v : ℝ) (ps : List (PDelta ℝ)) :
    deltaToTmunu Real.sqrt 0 1 2 3 4 v ps = ((ps.map (t30One v)).sum, (ps.map (t33One v)).sum) := by
  unfold deltaToTmunu
  simp only [sum_eq]
  rfl

/-- Lorentz factor `γ = √(1/(1−v²))` as computed by the code (`np.sqrt(gammaSq(v))`). -/
noncomputable def gam (v : ℝ) : ℝ := Real.sqrt (1 / (1 - v * v))

theorem gam_mul_self {v : ℝ} (hv : |v| < 1) : gam v * gam v * (1 - v * v) = 1 := by
  have h2 : v ^ 2 < 1 := (sq_lt_one_iff_abs_lt_one _).mpr hv
  have hpos : 0 < 1 - v * v := by nlinarith
  unfold gam
  rw [Real.mul_self_sqrt (by positivity)]
  exact one_div_mul_cancel hpos.ne'

theorem gam_zero : gam 0 = 1 := by simp [gam]

/-- fluid 2-velocity `u = γ(1, v)` (index 0 = time, index 1 = z) -/
noncomputable def uVec (v : ℝ) : Fin 2 → ℝ := ![gam v, gam v * v]
/-- the orthogonal unit vector `ū = γ(v, 1)` -/
noncomputable def ubarVec (v : ℝ) : Fin 2 → ℝ := ![gam v * v, gam v]
/-- the `(t,z)` block of the metric in the signature that the code's formula corresponds to
(`η^{00} = −1`, `η^{33} = +1`) -/
def eta2 : Fin 2 → Fin 2 → ℝ := ![![-1, 0], ![0, 1]]

/-- Covariant form of the out-of-equilibrium stress tensor of one particle species (eq. (14) of
arXiv:2204.13120), `(t,z)` block. -/
noncomputable def TmunuOut (p : PDelta ℝ) (v : ℝ) (μ ν : Fin 2) : ℝ :=
  p.dofs / 2 * ((3 * p.d20 - p.d02 - p.msq * p.d00) * uVec v μ * uVec v ν
      + (3 * p.d02 - p.d20 + p.msq * p.d00) * ubarVec v μ * ubarVec v ν
      + 2 * p.d11 * (uVec v μ * ubarVec v ν + ubarVec v μ * uVec v ν))
    - p.dofs / 2 * (p.msq * p.d00 + p.d02 - p.d20) * eta2 μ ν

theorem t30One_eq (v : ℝ) (p : PDelta ℝ) : t30One v p = TmunuOut p v 1 0 := by
  simp [t30One, TmunuOut, uVec, ubarVec, eta2, gam]; ring

theorem t33One_eq (v : ℝ) (p : PDelta ℝ) : t33One v p = TmunuOut p v 1 1 := by
  simp [t33One, TmunuOut, uVec, ubarVec, eta2, gam]; ring

/-- Boost along `z` with velocity `v` (coordinates `t,x,y,z`). -/
noncomputable def boost (v : ℝ) : Matrix (Fin 4) (Fin 4) ℝ :=
  !![gam v, 0, 0, gam v * v; 0, 1, 0, 0; 0, 0, 1, 0; gam v * v, 0, 0, gam v]

/-- Plasma-frame out-of-equilibrium stress tensor per degree of freedom:
`T⁰⁰ = Δ20`, `T⁰³ = Δ11`, `T³³ = Δ02`, `T¹¹ = T²² = ½(Δ20 − Δ02 − m²Δ00)`. -/
noncomputable def Tplasma (p : PDelta ℝ) : Matrix (Fin 4) (Fin 4) ℝ :=
  !![p.d20, 0, 0, p.d11;
     0, (p.d20 - p.d02 - p.msq * p.d00) / 2, 0, 0;
     0, 0, (p.d20 - p.d02 - p.msq * p.d00) / 2, 0;
     p.d11, 0, 0, p.d02]

/-- embedding of the `(t,z)` block into the 4 coordinates -/
def ix : Fin 2 → Fin 4 := ![0, 3]

theorem TmunuOut_eq_boost (p : PDelta ℝ) {v : ℝ} (hv : |v| < 1) (μ ν : Fin 2) :
    TmunuOut p v μ ν = p.dofs * (boost v * Tplasma p * (boost v).transpose) (ix μ) (ix ν) := by
  have hg := gam_mul_self hv
  fin_cases μ <;> fin_cases ν <;>
    simp [TmunuOut, uVec, ubarVec, eta2, boost, Tplasma, ix, Matrix.mul_apply, Fin.sum_univ_four]
  · linear_combination (-(p.dofs * (p.msq * p.d00 + p.d02 - p.d20) / 2)) * hg
  · ring
  · ring
  · linear_combination (p.dofs * (p.msq * p.d00 + p.d02 - p.d20) / 2) * hg

/-- scale the four moments of a particle by `a` -/
def scaleDelta (a : ℝ) (p : PDelta ℝ) : PDelta ℝ :=
  { p with d00 := a * p.d00, d02 := a * p.d02, d20 := a * p.d20, d11 := a * p.d11 }

theorem t30One_lin (v g m a b : ℝ) (x00 x02 x20 x11 y00 y02 y20 y11 : ℝ) :
    t30One v ⟨g, m, a * x00 + b * y00, a * x02 + b * y02, a * x20 + b * y20, a * x11 + b * y11⟩
      = a * t30One v ⟨g, m, x00, x02, x20, x11⟩ + b * t30One v ⟨g, m, y00, y02, y20, y11⟩ := by
  simp only [t30One]; ring

theorem t33One_lin (v g m a b : ℝ) (x00 x02 x20 x11 y00 y02 y20 y11 : ℝ) :
    t33One v ⟨g, m, a * x00 + b * y00, a * x02 + b * y02, a * x20 + b * y20, a * x11 + b * y11⟩
      = a * t33One v ⟨g, m, x00, x02, x20, x11⟩ + b * t33One v ⟨g, m, y00, y02, y20, y11⟩ := by
  simp only [t33One]; ring

theorem t30One_scale (v a : ℝ) (p : PDelta ℝ) : t30One v (scaleDelta a p) = a * t30One v p := by
  simp only [t30One, scaleDelta]; ring

theorem t33One_scale (v a : ℝ) (p : PDelta ℝ) : t33One v (scaleDelta a p) = a * t33One v p := by
  simp only [t33One, scaleDelta]; ring

/-! ## Branch logic of `findPlasmaProfilePoint` / `findPlasmaProfile` (pure models) -/

/-- `TMultiplier` of `findPlasmaProfilePoint`: `max(T₊/T_min, 1.2)`, replaced by
`min(T₋/T_min, 0.8)` when `|Tn − T₊| < 1e-10` (detonation). -/
noncomputable def tMultiplier (Tn Tplus Tminus Tmin : ℝ) : ℝ :=
  if |Tn - Tplus| < 1e-10 then min (Tminus / Tmin) 0.8 else max (Tplus / Tmin) 1.2

/-- the bracket `(tempAtMinimum, testTemp)` after `k` passes through the `while` loop -/
noncomputable def bracketAfter (Tmin m : ℝ) (k : ℕ) : ℝ × ℝ := (Tmin * m ^ k, Tmin * m ^ (k + 1))

/-- one iteration of the loop in `findPlasmaProfile`: `r = (T, vPlasma)` returned by
`findPlasmaProfilePoint`; the accumulator is (profile so far, `successTemperatureProfile`).
`temperatureProfile[index-1]` at `index = 0` is the last entry of the zero-initialised array,
hence the default `(0,0)`. -/
noncomputable def profileStep (acc : List (ℝ × ℝ) × Bool) (r : ℝ × ℝ) : List (ℝ × ℝ) × Bool :=
  if 0 < r.1 then (acc.1 ++ [r], acc.2) else (acc.1 ++ [acc.1.getLastD (0, 0)], false)

/-- pure model of `findPlasmaProfile` given the list of per-point results -/
noncomputable def findPlasmaProfileModel (pts : List (ℝ × ℝ)) : List (ℝ × ℝ) × Bool :=
  pts.foldl profileStep ([], true)

theorem foldl_profileStep_flag (pts : List (ℝ × ℝ)) (acc : List (ℝ × ℝ) × Bool) :
    (pts.foldl profileStep acc).2 = true ↔ acc.2 = true ∧ ∀ r ∈ pts, 0 < r.1 := by
  induction pts generalizing acc with
  | nil => simp
  | cons r t ih =>
    rw [List.foldl_cons, ih]
    unfold profileStep
    split_ifs with h
    · simp [h]
    · simp [h]

theorem foldl_profileStep_length (pts : List (ℝ × ℝ)) (acc : List (ℝ × ℝ) × Bool) :
    (pts.foldl profileStep acc).1.length = acc.1.length + pts.length := by
  induction pts generalizing acc with
  | nil => simp
  | cons r t ih =>
    rw [List.foldl_cons, ih]
    unfold profileStep
    split_ifs with h <;> simp <;> omega

theorem foldl_profileStep_success (pts : List (ℝ × ℝ)) (acc : List (ℝ × ℝ) × Bool)
    (h : ∀ r ∈ pts, 0 < r.1) : (pts.foldl profileStep acc).1 = acc.1 ++ pts := by
  induction pts generalizing acc with
  | nil => simp
  | cons r t ih =>
    rw [List.foldl_cons, ih _ (fun x hx => h x (List.mem_cons_of_mem _ hx))]
    have hr := h r List.mem_cons_self
    simp [profileStep, hr]

/-! ## `tanh` calculus (not in Mathlib) -/

section Analysis
open Filter Topology MeasureTheory Set

theorem hasDerivAt_tanh (x : ℝ) : HasDerivAt Real.tanh (1 / (Real.cosh x * Real.cosh x)) x := by
  have hc : Real.cosh x ≠ 0 := (Real.cosh_pos x).ne'
  have h := (Real.hasDerivAt_sinh x).div (Real.hasDerivAt_cosh x) hc
  have hfun : Real.tanh = fun y => Real.sinh y / Real.cosh y := funext Real.tanh_eq_sinh_div_cosh
  rw [hfun]
  refine HasDerivAt.congr_deriv (f' := (Real.cosh x * Real.cosh x - Real.sinh x * Real.sinh x)
    / Real.cosh x ^ 2) h ?_
  rw [div_eq_div_iff (by positivity) (by positivity)]
  linear_combination (Real.cosh x * Real.cosh x) * Real.cosh_sq x

theorem one_sub_tanh (x : ℝ) : 1 - Real.tanh x = 2 / (Real.exp (2 * x) + 1) := by
  rw [Real.tanh_eq, two_mul, Real.exp_add, Real.exp_neg]
  have := Real.exp_pos x
  field_simp
  ring

theorem tendsto_tanh_atTop : Tendsto Real.tanh atTop (𝓝 1) := by
  have h1 : Tendsto (fun x : ℝ => Real.exp (2 * x) + 1) atTop atTop :=
    tendsto_atTop_add_const_right _ _
      (Real.tendsto_exp_atTop.comp (tendsto_id.const_mul_atTop two_pos))
  have h2 := h1.const_div_atTop 2
  have h3 : Tendsto (fun x : ℝ => 1 - 2 / (Real.exp (2 * x) + 1)) atTop (𝓝 (1 - 0)) :=
    tendsto_const_nhds.sub h2
  rw [sub_zero] at h3
  refine h3.congr (fun x => ?_)
  rw [← one_sub_tanh]; ring

theorem tendsto_tanh_atBot : Tendsto Real.tanh atBot (𝓝 (-1)) := by
  have h := (tendsto_tanh_atTop.comp tendsto_neg_atBot_atTop).neg
  refine h.congr (fun x => ?_)
  simp [Real.tanh_neg]

theorem continuous_sech_sq : Continuous (fun x : ℝ => 1 / (Real.cosh x * Real.cosh x)) :=
  continuous_const.div (Real.continuous_cosh.mul Real.continuous_cosh)
    (fun x => (mul_pos (Real.cosh_pos x) (Real.cosh_pos x)).ne')

theorem sech_sq_nonneg (x : ℝ) : 0 ≤ 1 / (Real.cosh x * Real.cosh x) := by
  have := Real.cosh_pos x; positivity

/-- `1/cosh²` is integrable on the real line (its integral over `[-i,i]` is `2 tanh i ≤ 2`). -/
theorem integrable_sech_sq : Integrable (fun x : ℝ => 1 / (Real.cosh x * Real.cosh x)) := by
  refine integrable_of_intervalIntegral_norm_bounded (l := atTop) (a := fun i : ℝ => -i)
    (b := fun i : ℝ => i) 2 (fun i => continuous_sech_sq.integrableOn_Ioc)
    tendsto_neg_atTop_atBot tendsto_id (Eventually.of_forall fun i => ?_)
  have h : ∀ x : ℝ, ‖1 / (Real.cosh x * Real.cosh x)‖ = 1 / (Real.cosh x * Real.cosh x) :=
    fun x => Real.norm_of_nonneg (sech_sq_nonneg x)
  simp only [h]
  rw [intervalIntegral.integral_eq_sub_of_hasDerivAt (fun x _ => hasDerivAt_tanh x)
    (continuous_sech_sq.intervalIntegrable _ _)]
  have := Real.tanh_lt_one i
  have := Real.neg_one_lt_tanh (-i)
  linarith

/-! ## `fieldProfile`: derivative, limits, integrability of the gradient -/

/-- `fieldGradient` is the exact `z`-derivative of `fieldProfile` (for every `L`, including the
degenerate `L = 0` where both the profile is constant and the model's division gives `0`). -/
theorem hasDerivAt_fieldProfile (lo hi L δ z : ℝ) :
    HasDerivAt (fun z => fieldProfile Real.tanh (1 / 2) 1 z lo hi L δ)
      (fieldGradient Real.cosh (1 / 2) z lo hi L δ) z := by
  have h1 : HasDerivAt (fun z : ℝ => z / L + δ) (1 / L) z :=
    ((hasDerivAt_id z).div_const L).add_const δ
  have h2 := (hasDerivAt_tanh (z / L + δ)).comp z h1
  have h3 := ((h2.const_add 1).const_mul (1 / 2 * (hi - lo))).const_add lo
  unfold fieldProfile fieldGradient
  refine HasDerivAt.congr_deriv h3 ?_
  by_cases hL : L = 0
  · subst hL; simp
  · have := Real.cosh_pos (z / L + δ)
    field_simp

theorem tendsto_arg_atTop {L : ℝ} (hL : 0 < L) (δ : ℝ) :
    Tendsto (fun z : ℝ => z / L + δ) atTop atTop :=
  tendsto_atTop_add_const_right _ _ (tendsto_id.atTop_div_const hL)

theorem tendsto_arg_atBot {L : ℝ} (hL : 0 < L) (δ : ℝ) :
    Tendsto (fun z : ℝ => z / L + δ) atBot atBot :=
  tendsto_atBot_add_const_right _ _ (tendsto_id.atBot_div_const hL)

theorem tendsto_fieldProfile_atTop (lo hi δ : ℝ) {L : ℝ} (hL : 0 < L) :
    Tendsto (fun z => fieldProfile Real.tanh (1 / 2) 1 z lo hi L δ) atTop (𝓝 hi) := by
  have h := ((tendsto_tanh_atTop.comp (tendsto_arg_atTop hL δ)).const_add 1).const_mul
    (1 / 2 * (hi - lo)) |>.const_add lo
  have e : lo + 1 / 2 * (hi - lo) * (1 + 1) = hi := by ring
  rw [e] at h
  exact h

theorem tendsto_fieldProfile_atBot (lo hi δ : ℝ) {L : ℝ} (hL : 0 < L) :
    Tendsto (fun z => fieldProfile Real.tanh (1 / 2) 1 z lo hi L δ) atBot (𝓝 lo) := by
  have h := ((tendsto_tanh_atBot.comp (tendsto_arg_atBot hL δ)).const_add 1).const_mul
    (1 / 2 * (hi - lo)) |>.const_add lo
  have e : lo + 1 / 2 * (hi - lo) * (1 + -1) = lo := by ring
  rw [e] at h
  exact h

/-- the profile stays between the two vacua -/
theorem fieldProfile_mem_uIcc (lo hi L δ z : ℝ) :
    fieldProfile Real.tanh (1 / 2) 1 z lo hi L δ ∈ uIcc lo hi := by
  unfold fieldProfile
  have h1 := Real.tanh_lt_one (z / L + δ)
  have h2 := Real.neg_one_lt_tanh (z / L + δ)
  set t := 1 / 2 * (1 + Real.tanh (z / L + δ)) with ht
  have ht0 : 0 ≤ t := by rw [ht]; linarith
  have ht1 : t ≤ 1 := by rw [ht]; linarith
  have e : lo + 1 / 2 * (hi - lo) * (1 + Real.tanh (z / L + δ)) = lo + t * (hi - lo) := by
    rw [ht]; ring
  rw [e, mem_uIcc]
  rcases le_total lo hi with h | h
  · left; constructor <;> nlinarith
  · right; constructor <;> nlinarith

theorem continuous_fieldGradient (lo hi L δ : ℝ) :
    Continuous (fun z => fieldGradient Real.cosh (1 / 2) z lo hi L δ) := by
  unfold fieldGradient
  by_cases hL : L = 0
  · subst hL; simp [continuous_const]
  · refine continuous_const.div ?_ (fun z => ?_)
    · have hc : Continuous (fun z : ℝ => Real.cosh (z / L + δ)) :=
        Real.continuous_cosh.comp ((continuous_id.div_const L).add continuous_const)
      exact continuous_const.mul (hc.mul hc)
    · have := Real.cosh_pos (z / L + δ); positivity

theorem integrable_fieldGradient (lo hi L δ : ℝ) :
    Integrable (fun z => fieldGradient Real.cosh (1 / 2) z lo hi L δ) := by
  by_cases hL : L = 0
  · subst hL; simp [fieldGradient]
  · have h := ((integrable_sech_sq.comp_add_right δ).comp_div hL).const_mul (1 / 2 * (hi - lo) / L)
    refine h.congr (Eventually.of_forall fun z => ?_)
    have := Real.cosh_pos (z / L + δ)
    simp only [fieldGradient]
    field_simp

/-- **Pressure identity, one field.**  For a potential `V` with continuous derivative `V'`, the
integral over the whole wall of `−V'(φ(z)) φ'(z)` for the tanh profile is `V(φ_low) − V(φ_high)`,
whatever the width `L > 0` and offset `δ`. -/
theorem pressure_identity_single (V V' : ℝ → ℝ) (hV : ∀ x, HasDerivAt V (V' x) x)
    (hV' : Continuous V') (lo hi δ : ℝ) {L : ℝ} (hL : 0 < L) :
    Integrable (fun z => V' (fieldProfile Real.tanh (1 / 2) 1 z lo hi L δ)
        * fieldGradient Real.cosh (1 / 2) z lo hi L δ) ∧
    ∫ z, -(V' (fieldProfile Real.tanh (1 / 2) 1 z lo hi L δ)
        * fieldGradient Real.cosh (1 / 2) z lo hi L δ) = V lo - V hi := by
  set Φ := fun z => fieldProfile Real.tanh (1 / 2) 1 z lo hi L δ with hΦ
  set Φ' := fun z => fieldGradient Real.cosh (1 / 2) z lo hi L δ with hΦ'
  have hΦd : ∀ z, HasDerivAt Φ (Φ' z) z := fun z => hasDerivAt_fieldProfile lo hi L δ z
  have hΦc : Continuous Φ := continuous_iff_continuousAt.mpr fun z => (hΦd z).continuousAt
  have hVc : Continuous V := continuous_iff_continuousAt.mpr fun x => (hV x).continuousAt
  obtain ⟨C, hC⟩ := isCompact_uIcc.exists_bound_of_continuousOn (hV'.continuousOn (s := uIcc lo hi))
  have hint : Integrable (fun z => V' (Φ z) * Φ' z) :=
    (integrable_fieldGradient lo hi L δ).bdd_mul (c := C)
      (hV'.comp hΦc).aestronglyMeasurable
      (Eventually.of_forall fun z => hC _ (fieldProfile_mem_uIcc lo hi L δ z))
  refine ⟨hint, ?_⟩
  have hderiv : ∀ z, HasDerivAt (fun z => -V (Φ z)) (-(V' (Φ z) * Φ' z)) z := fun z =>
    ((hV (Φ z)).comp z (hΦd z)).neg
  have hbot : Tendsto (fun z => -V (Φ z)) atBot (𝓝 (-V lo)) :=
    ((hVc.tendsto lo).comp (tendsto_fieldProfile_atBot lo hi δ hL)).neg
  have htop : Tendsto (fun z => -V (Φ z)) atTop (𝓝 (-V hi)) :=
    ((hVc.tendsto hi).comp (tendsto_fieldProfile_atTop lo hi δ hL)).neg
  rw [integral_of_hasDerivAt_of_tendsto hderiv hint.neg hbot htop]
  ring

/-- **Change of variables `z = z(χ)`** (improper version): for a map `z : (-1,1) → ℝ` that is
monotone with derivative `J`, tends to `-∞` at `-1⁺` and to `+∞` at `1⁻`, one has
`∫_ℝ g = ∫_{(-1,1)} g(z(χ)) J(χ) dχ` for every `g` (both sides are Bochner integrals; if one
side is not integrable neither is the other and both are `0`). -/
theorem integral_comp_gridmap (z J : ℝ → ℝ) (g : ℝ → ℝ)
    (hderiv : ∀ χ ∈ Ioo (-1 : ℝ) 1, HasDerivAt z (J χ) χ)
    (hmono : StrictMonoOn z (Ioo (-1 : ℝ) 1))
    (hbot : Tendsto z (𝓝[>] (-1 : ℝ)) atBot) (htop : Tendsto z (𝓝[<] (1 : ℝ)) atTop) :
    ∫ x, g x = ∫ χ in Ioo (-1 : ℝ) 1, g (z χ) * J χ := by
  have himg : z '' Ioo (-1 : ℝ) 1 = univ := by
    refine eq_univ_of_forall fun y => ?_
    obtain ⟨a, ha1, ha2⟩ := ((hbot.eventually (eventually_lt_atBot y)).and
      (Ioo_mem_nhdsGT (by norm_num : (-1 : ℝ) < 1))).exists
    obtain ⟨b, hb1, hb2⟩ := ((htop.eventually (eventually_gt_atTop y)).and
      (Ioo_mem_nhdsLT (by norm_num : (-1 : ℝ) < 1))).exists
    have hab : a < b := by
      by_contra hba
      have := hmono.monotoneOn hb2 ha2 (not_lt.mp hba)
      linarith
    have hsub : Icc a b ⊆ Ioo (-1 : ℝ) 1 := fun x hx => ⟨lt_of_lt_of_le ha2.1 hx.1,
      lt_of_le_of_lt hx.2 hb2.2⟩
    have hcont : ContinuousOn z (Icc a b) := fun x hx =>
      (hderiv x (hsub hx)).continuousAt.continuousWithinAt
    obtain ⟨c, hc, hzc⟩ := intermediate_value_Icc hab.le hcont ⟨ha1.le, hb1.le⟩
    exact ⟨c, hsub hc, hzc⟩
  have h := integral_image_eq_integral_deriv_smul_of_monotoneOn measurableSet_Ioo
    (fun χ hχ => (hderiv χ hχ).hasDerivWithinAt) hmono.monotoneOn g
  rw [himg, setIntegral_univ] at h
  rw [h]
  refine setIntegral_congr_fun measurableSet_Ioo (fun χ _ => ?_)
  simp [mul_comm]

/-- a continuous linear functional on `ℝⁿ` is the sum of its partial derivatives times components -/
theorem clm_apply_eq_sum {n : ℕ} (f : (Fin n → ℝ) →L[ℝ] ℝ) (v : Fin n → ℝ) :
    f v = ∑ i, f (Pi.single i 1) * v i := by
  conv_lhs => rw [← Finset.univ_sum_single v]
  rw [map_sum]
  refine Finset.sum_congr rfl fun i _ => ?_
  have : (Pi.single i (v i) : Fin n → ℝ) = v i • Pi.single i 1 := by
    rw [← Pi.single_smul]; simp
  rw [this, map_smul, smul_eq_mul, mul_comm]

/-- **Pressure identity, `n` fields.**  `V` is differentiable with continuous derivative `V'`;
`∂_i V(x) = V'(x)(e_i)`.  The integral over the wall of `−Σ_i ∂_iV(φ(z)) φ_i'(z)` for the
`n`-component tanh profile equals `V(φ_low) − V(φ_high)` for all widths `L_i > 0` and offsets. -/
theorem pressure_identity_multi {n : ℕ} (V : (Fin n → ℝ) → ℝ)
    (V' : (Fin n → ℝ) → ((Fin n → ℝ) →L[ℝ] ℝ))
    (hV : ∀ x, HasFDerivAt V (V' x) x) (hV' : Continuous V')
    (lo hi L δ : Fin n → ℝ) (hL : ∀ i, 0 < L i) :
    Integrable (fun z => ∑ i, V' (fun j => fieldProfile Real.tanh (1 / 2) 1 z (lo j) (hi j) (L j) (δ j))
        (Pi.single i 1) * fieldGradient Real.cosh (1 / 2) z (lo i) (hi i) (L i) (δ i)) ∧
    ∫ z, -(∑ i, V' (fun j => fieldProfile Real.tanh (1 / 2) 1 z (lo j) (hi j) (L j) (δ j))
        (Pi.single i 1) * fieldGradient Real.cosh (1 / 2) z (lo i) (hi i) (L i) (δ i))
      = V lo - V hi := by
  set Φ : ℝ → Fin n → ℝ :=
    fun z j => fieldProfile Real.tanh (1 / 2) 1 z (lo j) (hi j) (L j) (δ j) with hΦ
  set Φ' : ℝ → Fin n → ℝ :=
    fun z i => fieldGradient Real.cosh (1 / 2) z (lo i) (hi i) (L i) (δ i) with hΦ'
  have hΦd : ∀ z, HasDerivAt Φ (Φ' z) z := fun z =>
    hasDerivAt_pi.mpr fun i => hasDerivAt_fieldProfile (lo i) (hi i) (L i) (δ i) z
  have hΦc : Continuous Φ := continuous_iff_continuousAt.mpr fun z => (hΦd z).continuousAt
  have hVc : Continuous V := continuous_iff_continuousAt.mpr fun x => (hV x).continuousAt
  have hK : IsCompact (Set.pi univ fun i => uIcc (lo i) (hi i)) :=
    isCompact_univ_pi fun i => isCompact_uIcc
  have hmem : ∀ z, Φ z ∈ Set.pi univ fun i => uIcc (lo i) (hi i) := fun z i _ =>
    fieldProfile_mem_uIcc (lo i) (hi i) (L i) (δ i) z
  have hterm : ∀ i, Integrable (fun z => V' (Φ z) (Pi.single i 1) * Φ' z i) := by
    intro i
    have hc : Continuous (fun x => V' x (Pi.single i 1)) := hV'.clm_apply continuous_const
    obtain ⟨C, hC⟩ := hK.exists_bound_of_continuousOn hc.continuousOn
    exact (integrable_fieldGradient (lo i) (hi i) (L i) (δ i)).bdd_mul (c := C)
      (hc.comp hΦc).aestronglyMeasurable (Eventually.of_forall fun z => hC _ (hmem z))
  have hint : Integrable (fun z => ∑ i, V' (Φ z) (Pi.single i 1) * Φ' z i) :=
    integrable_finsetSum _ fun i _ => hterm i
  refine ⟨hint, ?_⟩
  have hderiv : ∀ z, HasDerivAt (fun z => -V (Φ z))
      (-(∑ i, V' (Φ z) (Pi.single i 1) * Φ' z i)) z := fun z => by
    have h := ((hV (Φ z)).comp_hasDerivAt z (hΦd z)).neg
    rw [clm_apply_eq_sum] at h
    exact h
  have hbot : Tendsto (fun z => -V (Φ z)) atBot (𝓝 (-V lo)) :=
    ((hVc.tendsto lo).comp (tendsto_pi_nhds.mpr fun i =>
      tendsto_fieldProfile_atBot (lo i) (hi i) (δ i) (hL i))).neg
  have htop : Tendsto (fun z => -V (Φ z)) atTop (𝓝 (-V hi)) :=
    ((hVc.tendsto hi).comp (tendsto_pi_nhds.mpr fun i =>
      tendsto_fieldProfile_atTop (lo i) (hi i) (δ i) (hL i))).neg
  rw [integral_of_hasDerivAt_of_tendsto hderiv hint.neg hbot htop]
  ring

end Analysis

/-! ## Symmetry plumbing (C08) -/

theorem getD_map_range (F : ℕ → ℝ) {n j : ℕ} (hj : j < n) (d : ℝ) :
    ((List.range n).map F).getD j d = F j := by
  simp [List.getD_eq_getElem?_getD, hj]

/-- re-index a list by `σ` (entry `i` of the result is entry `σ i` of the input) -/
noncomputable def reindex (σ : ℕ → ℕ) (l : List ℝ) : List ℝ :=
  (List.range l.length).map (fun i => l.getD (σ i) (1 / 2))

theorem reindex_length (σ : ℕ → ℕ) (l : List ℝ) : (reindex σ l).length = l.length := by
  simp [reindex]

theorem reindex_getD (σ : ℕ → ℕ) (l : List ℝ) {i : ℕ} (hi : i < l.length) (d : ℝ) :
    (reindex σ l).getD i d = l.getD (σ i) (1 / 2) :=
  getD_map_range _ hi d

theorem wallProfile_fst (z : ℝ) (lo hi w o : List ℝ) :
    (wallProfile Real.tanh Real.cosh (1 / 2) 1 z lo hi w o).1 = (List.range lo.length).map
      (fun i => fieldProfile Real.tanh (1 / 2) 1 z (lo.getD i (1 / 2)) (hi.getD i (1 / 2))
        (w.getD i (1 / 2)) (o.getD i (1 / 2))) := rfl

theorem wallProfile_snd (z : ℝ) (lo hi w o : List ℝ) :
    (wallProfile Real.tanh Real.cosh (1 / 2) 1 z lo hi w o).2 = (List.range lo.length).map
      (fun i => fieldGradient Real.cosh (1 / 2) z (lo.getD i (1 / 2)) (hi.getD i (1 / 2))
        (w.getD i (1 / 2)) (o.getD i (1 / 2))) := rfl

/-- `wallProfile` acts field by field, hence commutes with any re-indexing `σ` of the fields
(`σ` maps `{0..n-1}` to itself; for a permutation this is "permuting the order of the fields"). -/
theorem wallProfile_reindex (σ : ℕ → ℕ) (z : ℝ) (lo hi w o : List ℝ)
    (hhi : hi.length = lo.length) (hw : w.length = lo.length) (ho : o.length = lo.length)
    (hσ : ∀ i < lo.length, σ i < lo.length) :
    wallProfile Real.tanh Real.cosh (1 / 2) 1 z (reindex σ lo) (reindex σ hi) (reindex σ w)
        (reindex σ o)
      = (reindex σ (wallProfile Real.tanh Real.cosh (1 / 2) 1 z lo hi w o).1,
         reindex σ (wallProfile Real.tanh Real.cosh (1 / 2) 1 z lo hi w o).2) := by
  refine Prod.ext ?_ ?_
  · rw [wallProfile_fst]
    simp only [reindex]
    rw [wallProfile_fst]
    simp only [List.length_map, List.length_range]
    refine List.map_congr_left fun i hi' => ?_
    have hi'' : i < lo.length := List.mem_range.mp hi'
    rw [getD_map_range _ hi'', getD_map_range _ (hhi ▸ hi''), getD_map_range _ (hw ▸ hi''),
      getD_map_range _ (ho ▸ hi''), getD_map_range _ (hσ i hi'')]
  · rw [wallProfile_snd]
    simp only [reindex]
    rw [wallProfile_snd]
    simp only [List.length_map, List.length_range]
    refine List.map_congr_left fun i hi' => ?_
    have hi'' : i < lo.length := List.mem_range.mp hi'
    rw [getD_map_range _ hi'', getD_map_range _ (hhi ▸ hi''), getD_map_range _ (hw ▸ hi''),
      getD_map_range _ (ho ▸ hi''), getD_map_range _ (hσ i hi'')]

theorem zipWith_eq_map_zip {β : Type} (f : ℝ → ℝ → β) (l₁ l₂ : List ℝ) :
    List.zipWith f l₁ l₂ = (List.zip l₁ l₂).map (fun p => f p.1 p.2) := by
  induction l₁ generalizing l₂ with
  | nil => simp
  | cons a t ih => cases l₂ with
    | nil => simp
    | cons b t' => simp [ih]

/-- the kinetic term as a sum over the zipped triples `(φ_high, φ_low, L)` -/
theorem kinetic_eq (lo hi w : List ℝ) :
    kinetic 0 6 lo hi w = ((List.zip hi (List.zip lo w)).map
      (fun t => (t.1 - t.2.1) * (t.1 - t.2.1) / (6 * t.2.2))).sum := by
  unfold kinetic
  rw [sum_eq]
  congr 1
  induction hi generalizing lo w with
  | nil => simp
  | cons a t ih => cases lo with
    | nil => simp
    | cons b t' => cases w with
      | nil => simp
      | cons c t'' => simp [ih]

theorem kinetic_perm {lo hi w lo' hi' w' : List ℝ}
    (h : (List.zip hi (List.zip lo w)).Perm (List.zip hi' (List.zip lo' w'))) :
    kinetic 0 6 lo hi w = kinetic 0 6 lo' hi' w' := by
  rw [kinetic_eq, kinetic_eq]
  exact (h.map _).sum_eq

theorem updateGrid_perm {widths offsets widths' offsets' : List ℝ}
    (h : (List.zip offsets widths).Perm (List.zip offsets' widths'))
    (one two half log2 c105 vmid mfp : ℝ) (b : Bool) (smoothing ratio zero : ℝ) :
    updateGrid Real.sqrt one two half log2 c105 widths offsets vmid mfp b smoothing ratio zero
      = updateGrid Real.sqrt one two half log2 c105 widths' offsets' vmid mfp b smoothing ratio
          zero := by
  unfold updateGrid
  have h1 : (List.zipWith (fun o w => (one - o) * w) offsets widths).Perm
      (List.zipWith (fun o w => (one - o) * w) offsets' widths') := by
    rw [zipWith_eq_map_zip, zipWith_eq_map_zip]; exact h.map _
  have h2 : (List.zipWith (fun o w => (-one - o) * w) offsets widths).Perm
      (List.zipWith (fun o w => (-one - o) * w) offsets' widths') := by
    rw [zipWith_eq_map_zip, zipWith_eq_map_zip]; exact h.map _
  simp only [maxL_perm h1 zero, minL_perm h2 zero]

/-- `temperatureProfileEqLHS` sees `dPhidz` only through `Σ (φ_i')²`. -/
theorem tempEqLHS_congr {d d' : List ℝ} (h : (d.map (fun x => x * x)).sum = (d'.map (fun x => x * x)).sum)
    (veff w s1 s2 : ℝ) :
    tempEqLHS Real.sqrt 0 (1 / 2) 4 d veff w s1 s2 = tempEqLHS Real.sqrt 0 (1 / 2) 4 d' veff w s1 s2 := by
  rw [tempEqLHS_eq, tempEqLHS_eq, h]

theorem sumsq_signflip {d d' : List ℝ} (h : List.Forall₂ (fun a b => b = a ∨ b = -a) d d') :
    (d.map (fun x => x * x)).sum = (d'.map (fun x => x * x)).sum := by
  induction h with
  | nil => rfl
  | cons hab _ ih =>
    simp only [List.map_cons, List.sum_cons, ih]
    rcases hab with rfl | rfl <;> ring

/-- Cancellation-free form of the model's velocity: `v = 2 s1 / (w + √(4 s1² + w²))`. -/
theorem plasmaVelocity_stable {w s1 : ℝ} (hw : 0 < w) (hs : s1 ≠ 0) :
    plasmaVelocity Real.sqrt 2 4 w s1 = 2 * s1 / (w + disc w s1) := by
  rw [plasmaVelocity_eq]
  have h := disc_sq w s1
  have hpos : 0 < w + disc w s1 := by linarith [disc_nonneg w s1]
  rw [div_eq_div_iff (by simpa using hs) hpos.ne']
  linear_combination h

/-! ## Asymptotic states -/

open Lemmas.Hydro Gen.R.Helpers in
/-- A perfect-fluid state `(w, p)` moving with velocity `-v` (`0 < v < 1`) solves both equations of
the profile solver for the constants `c1 = −energyFlux w v`, `c2 = momentumFlux w p v`, with
vanishing field gradient, potential `−p` and no out-of-equilibrium part. -/
theorem asymptotic_solves {w p v : ℝ} (hw : 0 < w) (hv0 : 0 < v) (hv1 : v < 1) :
    plasmaVelocity Real.sqrt 2 4 w (-energyFlux w v) = -v ∧
    tempEqLHS Real.sqrt 0 (1 / 2) 4 [] (-p) w (-energyFlux w v) (momentumFlux w p v) = 0 := by
  have hv2 : v ^ 2 < 1 := by nlinarith
  have hne : 1 - v ^ 2 ≠ 0 := by linarith
  have hpos : 0 < 1 - v ^ 2 := by linarith
  have hs : -energyFlux w v ≠ 0 := by
    unfold energyFlux; rw [gammaSq_eq]
    have : 0 < w * (1 / (1 - v ^ 2)) * v := by positivity
    linarith
  have hx : |(-v)| < 1 := by rw [abs_neg, abs_of_pos hv0]; exact hv1
  have hT30 : w * (-v) / (1 - (-v) ^ 2) = -energyFlux w v := by
    unfold energyFlux; rw [gammaSq_eq]; field_simp
  have hvel := plasmaVelocity_unique hw hs hx hT30
  refine ⟨hvel.symm, ?_⟩
  have hk := kineticFlux_eq hw hs
  rw [← hvel] at hk
  rw [tempEqLHS_eq]
  have : (1 / 2 : ℝ) * disc w (-energyFlux w v) - 1 / 2 * w = w * (-v) ^ 2 / (1 - (-v) ^ 2) := by
    rw [hk]; ring
  simp only [List.map_nil, List.sum_nil, momentumFlux]
  rw [gammaSq_eq]
  have e : w * (-v) ^ 2 / (1 - (-v) ^ 2) = w * (1 / (1 - v ^ 2)) * v ^ 2 := by
    field_simp
  linarith

/-! ## Limits of the simple grid map `z = Lχ/√(1−χ²)` (generated `Grid.decompactify`) -/

section GridLimits
open Filter Topology Set Gen.R.Grid

theorem tendsto_sqrt_one_sub_sq (c : ℝ) (hc : 1 - c ^ 2 = 0) (l : Filter ℝ) (hl : l ≤ 𝓝 c)
    (hIoo : Ioo (-1 : ℝ) 1 ∈ l) :
    Tendsto (fun χ : ℝ => Real.sqrt (1 - χ ^ 2)) l (𝓝[>] 0) := by
  refine tendsto_nhdsWithin_iff.mpr ⟨?_, ?_⟩
  · have h : Tendsto (fun χ : ℝ => Real.sqrt (1 - χ ^ 2)) (𝓝 c) (𝓝 (Real.sqrt (1 - c ^ 2))) :=
      (Real.continuous_sqrt.comp (continuous_const.sub (continuous_pow 2))).tendsto c
    rw [hc, Real.sqrt_zero] at h
    exact h.mono_left hl
  · filter_upwards [hIoo] with χ hχ
    have : χ ^ 2 < 1 := by nlinarith [hχ.1, hχ.2]
    exact Real.sqrt_pos.mpr (by linarith)

/-- `Grid.decompactify` sends `χ → 1⁻` to `z → +∞` when `positionFalloff > 0`. -/
theorem tendsto_gridz_right (s : GridP) (a b : ℝ) (hL : 0 < s.positionFalloff) :
    Tendsto (fun χ => (decompactify s χ a b).1) (𝓝[<] (1 : ℝ)) atTop := by
  have hnum : Tendsto (fun χ : ℝ => s.positionFalloff * χ) (𝓝[<] (1 : ℝ)) (𝓝 (s.positionFalloff * 1)) :=
    tendsto_nhdsWithin_of_tendsto_nhds (tendsto_const_nhds.mul tendsto_id)
  have hinv := (tendsto_sqrt_one_sub_sq 1 (by norm_num) (𝓝[<] (1 : ℝ)) nhdsWithin_le_nhds
    (Ioo_mem_nhdsLT (by norm_num))).inv_tendsto_nhdsGT_zero
  have h := hnum.pos_mul_atTop (by simpa using hL) hinv
  refine h.congr fun χ => ?_
  simp [decompactify, div_eq_mul_inv]

/-- `Grid.decompactify` sends `χ → −1⁺` to `z → −∞` when `positionFalloff > 0`. -/
theorem tendsto_gridz_left (s : GridP) (a b : ℝ) (hL : 0 < s.positionFalloff) :
    Tendsto (fun χ => (decompactify s χ a b).1) (𝓝[>] (-1 : ℝ)) atBot := by
  have hnum : Tendsto (fun χ : ℝ => s.positionFalloff * χ) (𝓝[>] (-1 : ℝ))
      (𝓝 (s.positionFalloff * -1)) :=
    tendsto_nhdsWithin_of_tendsto_nhds (tendsto_const_nhds.mul tendsto_id)
  have hinv := (tendsto_sqrt_one_sub_sq (-1) (by norm_num) (𝓝[>] (-1 : ℝ)) nhdsWithin_le_nhds
    (Ioo_mem_nhdsGT (by norm_num))).inv_tendsto_nhdsGT_zero
  have h := hnum.neg_mul_atTop (by simpa using hL) hinv
  refine h.congr fun χ => ?_
  simp [decompactify, div_eq_mul_inv]

end GridLimits

end Lemmas.EOM
