/-
Generic lemmas about a table of abscissae that is stored as a list of *overlapping chunks*
(chunk `i` ends with the element chunk `i+1` starts with), as produced for the shipped
interpolation tables `InterpolationTable_J{b,f}.txt` in `Gen/Q/JTables.lean`.

Everything here is computable on `Rat`, so the hypotheses can be discharged by `decide +kernel`
chunk by chunk; the conclusions are about the joined (de-duplicated) table.
-/
import Mathlib.Data.List.Chain
import Mathlib.Algebra.Order.Ring.Rat
import Mathlib.Tactic.Linarith
import Mathlib.Tactic.Ring
import Mathlib.Tactic.Push

namespace Lemmas.JTable

/-- `p ≤ q` on `Rat`, decided by cross-multiplication of numerators/denominators (this form is
several times cheaper for `decide +kernel` than `Rat.sub`/`Rat.blt`). -/
def leX (p q : Rat) : Bool := decide (p.num * q.den ≤ q.num * p.den)

theorem leX_iff {p q : Rat} : leX p q = true ↔ p ≤ q := by
  simp [leX, Rat.le_iff]

/-- Boolean test for one step `a → b`: strictly increasing and `h - tol ≤ b - a ≤ h + tol`. -/
def stepOK (h tol a b : Rat) : Bool :=
  decide (0 < (b - a).num) && leX (h - tol) (b - a) && leX (b - a) (h + tol)

/-- The same as a proposition: `a < b` and `|(b - a) - h| ≤ tol` (written without `abs`). -/
def Step (h tol a b : Rat) : Prop := a < b ∧ h - tol ≤ b - a ∧ b - a ≤ h + tol

theorem stepOK_iff {h tol a b : Rat} : stepOK h tol a b = true ↔ Step h tol a b := by
  simp [stepOK, Step, leX_iff, and_assoc, Rat.num_pos]

/-- every pair of adjacent entries of the list passes `stepOK`. -/
def adjOK (h tol : Rat) : List Rat → Bool
  | a :: b :: l => stepOK h tol a b && adjOK h tol (b :: l)
  | _ => true

theorem adjOK_iff {h tol : Rat} : ∀ {l : List Rat}, adjOK h tol l = true ↔ l.IsChain (Step h tol)
  | [] => by simp [adjOK]
  | [_] => by simp [adjOK]
  | a :: b :: l => by
      simp only [adjOK, Bool.and_eq_true, stepOK_iff, List.isChain_cons_cons]
      exact and_congr Iff.rfl (adjOK_iff (l := b :: l))

/-- chunk `c` ends with the element chunk `d` starts with (both non-empty). -/
def link (c d : List Rat) : Bool :=
  match c.getLast?, d.head? with
  | some a, some b => decide (a = b)
  | _, _ => false

theorem link_iff {c d : List Rat} :
    link c d = true ↔ ∃ a, c.getLast? = some a ∧ d.head? = some a := by
  unfold link
  cases hc : c.getLast? <;> cases hd : d.head? <;> simp [eq_comm]

/-- consecutive chunks overlap in exactly their last/first element. -/
def linksOK : List (List Rat) → Bool
  | c :: d :: rest => link c d && linksOK (d :: rest)
  | _ => true

/-- all chunks have admissible steps, and consecutive chunks overlap. -/
def chainOK (h tol : Rat) (chunks : List (List Rat)) : Bool :=
  chunks.all (adjOK h tol) && linksOK chunks

/-- concatenate the chunks, dropping the duplicated overlap element (the last element of every
chunk but the final one). -/
def joinChunks : List (List Rat) → List Rat
  | [] => []
  | [c] => c
  | c :: d :: rest => c.dropLast ++ joinChunks (d :: rest)

theorem head?_joinChunks : ∀ (rest : List (List Rat)) (c : List Rat),
    linksOK (c :: rest) = true → (joinChunks (c :: rest)).head? = c.head?
  | [], c, _ => rfl
  | d :: rest, c, hl => by
      simp only [linksOK, Bool.and_eq_true, link_iff] at hl
      obtain ⟨⟨a, hca, hda⟩, hrest⟩ := hl
      have ih := head?_joinChunks rest d hrest
      have hc : c.dropLast ++ [a] = c := List.dropLast_append_getLast? a (by simp [hca])
      simp only [joinChunks, List.head?_append, ih, hda]
      conv_rhs => rw [← hc]
      simp [List.head?_append]

/-- Main generic lemma: if every chunk is a chain for a relation `R` and the chunks overlap, the
joined table is a chain for `R`. -/
theorem isChain_joinChunks {R : Rat → Rat → Prop} : ∀ (chunks : List (List Rat)),
    (∀ c ∈ chunks, c.IsChain R) → linksOK chunks = true → (joinChunks chunks).IsChain R
  | [], _, _ => List.isChain_nil
  | [c], hc, _ => hc c (by simp)
  | c :: d :: rest, hc, hl => by
      have hhead := head?_joinChunks rest d (by
        simp only [linksOK, Bool.and_eq_true] at hl; exact hl.2)
      have ih := isChain_joinChunks (d :: rest) (fun c' hc' => hc c' (by simp [hc']))
        (by simp only [linksOK, Bool.and_eq_true] at hl; exact hl.2)
      simp only [linksOK, Bool.and_eq_true, link_iff] at hl
      obtain ⟨⟨a, hca, hda⟩, -⟩ := hl
      have hcc : c.dropLast ++ [a] = c := List.dropLast_append_getLast? a (by simp [hca])
      rw [hda] at hhead
      obtain ⟨J', hJ⟩ : ∃ J', joinChunks (d :: rest) = a :: J' := by
        cases hj : joinChunks (d :: rest) with
        | nil => simp [hj] at hhead
        | cons b J' => simp [hj] at hhead; exact ⟨J', by rw [hhead]⟩
      simp only [joinChunks, hJ]
      rw [List.isChain_split]
      refine ⟨?_, hJ ▸ ih⟩
      rw [hcc]; exact hc c (by simp)

theorem chainOK_isChain {h tol : Rat} {chunks : List (List Rat)} (hok : chainOK h tol chunks = true) :
    (joinChunks chunks).IsChain (Step h tol) := by
  simp only [chainOK, Bool.and_eq_true, List.all_eq_true] at hok
  exact isChain_joinChunks chunks (fun c hc => adjOK_iff.1 (hok.1 c hc)) hok.2

/-- **The whole table is strictly increasing.** -/
theorem chainOK_pairwise_lt {h tol : Rat} {chunks : List (List Rat)}
    (hok : chainOK h tol chunks = true) : (joinChunks chunks).Pairwise (· < ·) := by
  have := (chainOK_isChain hok).imp (S := (· < ·)) (fun _ _ h => h.1)
  exact List.isChain_iff_pairwise.1 this

/-- **Uniform spacing, local form**: consecutive entries of the joined table differ by `h` up to `tol`. -/
theorem chainOK_step {h tol : Rat} {chunks : List (List Rat)} (hok : chainOK h tol chunks = true)
    (i : Nat) (hi : i + 1 < (joinChunks chunks).length) :
    Step h tol ((joinChunks chunks)[i]) ((joinChunks chunks)[i + 1]) :=
  List.isChain_iff_getElem.1 (chainOK_isChain hok) i hi

/-- chain ⇒ entry `i` is within `i·tol` of `a + i·h`. -/
theorem isChain_getElem_affine {h tol : Rat} : ∀ (l : List Rat) (a : Rat),
    (a :: l).IsChain (Step h tol) → ∀ (i : Nat) (hi : i < (a :: l).length),
      (a :: l)[i] - (a + i * h) ≤ i * tol ∧ (a + i * h) - (a :: l)[i] ≤ i * tol
  | _, a, _, 0, _ => by simp
  | [], a, _, i + 1, hi => by simp at hi
  | b :: l, a, hch, i + 1, hi => by
      rw [List.isChain_cons_cons] at hch
      obtain ⟨⟨-, h1, h2⟩, hrest⟩ := hch
      have ih := isChain_getElem_affine l b hrest i (by simpa using hi)
      simp only [List.getElem_cons_succ]
      push_cast
      constructor <;> linarith [ih.1, ih.2]

/-- **Uniform spacing, global form**: entry `i` of the joined table is within `i·tol` of
`x₀ + i·h`, where `x₀` is its first entry. -/
theorem chainOK_affine {h tol x0 : Rat} {chunks : List (List Rat)}
    (hok : chainOK h tol chunks = true) (h0 : (joinChunks chunks).head? = some x0)
    (i : Nat) (hi : i < (joinChunks chunks).length) :
    (joinChunks chunks)[i] - (x0 + i * h) ≤ i * tol ∧
      (x0 + i * h) - (joinChunks chunks)[i] ≤ i * tol := by
  have hch := chainOK_isChain hok
  generalize joinChunks chunks = J at *
  cases J with
  | nil => simp at hi
  | cons a l =>
    simp only [List.head?_cons, Option.some.injEq] at h0
    subst h0
    exact isChain_getElem_affine l a hch i hi

/-- **Length**: with overlapping chunks, the joined table has `Σ len(chunk) - (#chunks - 1)` entries. -/
theorem length_joinChunks : ∀ (rest : List (List Rat)) (c : List Rat), linksOK (c :: rest) = true →
    (joinChunks (c :: rest)).length + rest.length = ((c :: rest).map List.length).sum
  | [], c, _ => by simp [joinChunks]
  | d :: rest, c, hl => by
      simp only [linksOK, Bool.and_eq_true, link_iff] at hl
      obtain ⟨⟨a, hca, -⟩, hrest⟩ := hl
      have ih := length_joinChunks rest d hrest
      have hc : c ≠ [] := by rintro rfl; simp at hca
      have hlen : 0 < c.length := List.length_pos_iff.2 hc
      simp only [joinChunks, List.length_append, List.length_dropLast, List.length_cons,
        List.map_cons, List.sum_cons] at ih ⊢
      omega

/-- every entry `l[j]` lies in `[lo + (s+j)·hg, hi + (s+j)·hg]` (comparison with an exact affine grid,
e.g. `numpy.linspace`; `lo = x₀ - t`, `hi = x₀ + t`). -/
def gridOK (lo hi hg : Rat) : Nat → List Rat → Bool
  | _, [] => true
  | s, q :: l => leX (lo + s * hg) q && leX q (hi + s * hg) && gridOK lo hi hg (s + 1) l

theorem gridOK_getElem {lo hi hg : Rat} : ∀ (l : List Rat) (s : Nat), gridOK lo hi hg s l = true →
    ∀ (j : Nat) (hj : j < l.length),
      lo + ((s + j : Nat) : Rat) * hg ≤ l[j] ∧ l[j] ≤ hi + ((s + j : Nat) : Rat) * hg
  | [], _, _, j, hj => by simp at hj
  | q :: l, s, hok, 0, _ => by
      simp only [gridOK, Bool.and_eq_true, leX_iff] at hok
      simpa using hok.1
  | q :: l, s, hok, j + 1, hj => by
      simp only [gridOK, Bool.and_eq_true] at hok
      have := gridOK_getElem l (s + 1) hok.2 j (by simpa using hj)
      simpa [Nat.add_assoc, Nat.add_comm 1 j] using this

/-- all elements of the joined table lie between the first and the last one. -/
theorem pairwise_lt_bounds {J : List Rat} (hp : J.Pairwise (· < ·)) {x0 x1 : Rat}
    (h0 : J.head? = some x0) (h1 : J.getLast? = some x1) : ∀ x ∈ J, x0 ≤ x ∧ x ≤ x1 := by
  intro x hx
  constructor
  · cases J with
    | nil => simp at hx
    | cons a l =>
      simp only [List.head?_cons, Option.some.injEq] at h0; subst h0
      rcases List.mem_cons.1 hx with rfl | hx'
      · exact le_refl _
      · exact le_of_lt (List.rel_of_pairwise_cons hp hx')
  · have hJ : J.dropLast ++ [x1] = J := List.dropLast_append_getLast? x1 (by simp [h1])
    rw [← hJ] at hx hp
    rcases List.mem_append.1 hx with hx' | hx'
    · exact le_of_lt ((List.pairwise_append.1 hp).2.2 x hx' x1 (by simp))
    · simp at hx'; exact hx' ▸ le_refl _

/-- nominal spacing of the shipped `J_b`/`J_f` tables: `1020/9999` truncated to 13 decimals. -/
def h : Rat := 1020102010201 / 10 ^ 13
/-- spacing tolerance `2·10⁻¹²` used for the shipped tables. -/
def tol : Rat := 2 / 10 ^ 12

end Lemmas.JTable
