/-
Helper lemmas for property C14 (collision-data loading, basis change, interpolation).

* Part A: the loop invariant of `Model.Collision.readAll` (`Inv`), the step lemmas for `readOne`,
  the generalised fold lemmas over a suffix of `pairs n`, and facts about `pairs`.
* Part B: linear-algebra helpers (0/1 embedding matrix of the first `k'` orders).
* Part C: flat row-major index arithmetic used for the `moveaxis`/`reshape` statement.
-/
import WallGoVerif.Model.Collision
import Mathlib.Tactic
import Mathlib.LinearAlgebra.Matrix.NonsingularInverse

namespace Lemmas.Collision

open Model.Collision

/-! ## A. Loading -/

section Loading
variable {B : Type}

theorem mem_pairs {n i j : Nat} : (i, j) ∈ pairs n ↔ i < n ∧ j < n := by
  simp [pairs, List.mem_flatMap]

theorem mem_pairs' {n : Nat} {p : Nat × Nat} : p ∈ pairs n ↔ p.1 < n ∧ p.2 < n := by
  obtain ⟨i, j⟩ := p
  exact mem_pairs

theorem pairs_nodup (n : Nat) : (pairs n).Nodup := by
  unfold pairs
  rw [List.nodup_flatMap]
  refine ⟨fun i _ => ?_, ?_⟩
  · exact (List.nodup_range).map (fun a b h => by simpa using h)
  · refine (List.nodup_range (n := n)).imp ?_
    intro a b hab
    simp only [Function.onFun, List.disjoint_left, List.mem_map, List.mem_range]
    rintro p ⟨j, _, rfl⟩ ⟨j', _, h⟩
    exact hab (by simpa using (congrArg Prod.fst h).symm)

theorem pairs_length (n : Nat) : (pairs n).length = n * n := by
  simp [pairs, List.length_flatMap]

theorem pairs_eq_nil {n : Nat} : pairs n = [] ↔ n = 0 := by
  rw [← List.length_eq_zero_iff, pairs_length]
  simp

/-- every error of the model is the single `CollisionLoadError` -/
theorem err_eq (e : Err) : e = .loadError := by cases e; rfl

/-- Loop invariant of `readAll` after the pairs `done` have been processed. -/
structure Inv (dir : Dir B) (gridN : Nat) (done : List (Nat × Nat)) (acc : Acc B) : Prop where
  keys : acc.blocks.map Prod.fst = done
  first_none : acc.first = none → done = []
  files : ∀ e ∈ acc.blocks, ∃ f s b, dir e.1.1 e.1.2 = some f ∧ e.2 = f.block ∧
    acc.first = some (s, b) ∧ f.size = s ∧ f.basis = b ∧ gridN ≤ s ∧ b ≠ .other

theorem inv_init (dir : Dir B) (gridN : Nat) : Inv dir gridN [] { first := none, blocks := [] } :=
  ⟨rfl, fun _ => rfl, fun e he => by simp at he⟩

/-- exact description of a successful `readOne` -/
theorem readOne_eq_ok {dir : Dir B} {gridN : Nat} {acc acc' : Acc B} {i j : Nat}
    (h : readOne dir gridN acc i j = .ok acc') :
    ∃ f, dir i j = some f ∧ gridN ≤ f.size ∧ f.basis ≠ .other ∧
      acc'.blocks = acc.blocks ++ [((i, j), f.block)] ∧
      acc'.first = some (f.size, f.basis) ∧
      (acc.first = none ∨ acc.first = some (f.size, f.basis)) := by
  unfold readOne at h
  split at h
  · cases h
  · rename_i f hf
    refine ⟨f, hf, ?_⟩
    split_ifs at h with h1 h2
    split at h
    · rename_i hfirst
      cases h
      exact ⟨by omega, h2, rfl, rfl, Or.inl hfirst⟩
    · rename_i s b hfirst
      split_ifs at h with h3 h4
      cases h
      simp only [ne_eq, Decidable.not_not] at h3 h4
      subst h3 h4
      exact ⟨by omega, h2, rfl, hfirst, Or.inr hfirst⟩

/-- `readOne` preserves the invariant and appends the pair. -/
theorem readOne_inv {dir : Dir B} {gridN : Nat} {done : List (Nat × Nat)} {acc acc' : Acc B}
    {i j : Nat} (hI : Inv dir gridN done acc) (h : readOne dir gridN acc i j = .ok acc') :
    Inv dir gridN (done ++ [(i, j)]) acc' := by
  obtain ⟨f, hf, hs, hb, hbl, hfst, hold⟩ := readOne_eq_ok h
  refine ⟨?_, ?_, ?_⟩
  · rw [hbl, List.map_append, hI.keys]; rfl
  · intro h0; rw [hfst] at h0; cases h0
  · intro e he
    rw [hbl, List.mem_append] at he
    rcases he with he | he
    · obtain ⟨f', s, b, h1, h2, h3, h4, h5, h6, h7⟩ := hI.files e he
      rcases hold with hold | hold
      · rw [hold] at h3; cases h3
      · rw [hold] at h3; cases h3
        exact ⟨f', _, _, h1, h2, hfst, h4, h5, h6, h7⟩
    · rw [List.mem_singleton] at he
      subst he
      exact ⟨f, _, _, hf, rfl, hfst, rfl, rfl, hs, hb⟩

/-- `readOne` succeeds on a good file. -/
theorem readOne_ok {dir : Dir B} {gridN : Nat} {acc : Acc B} {i j s : Nat} {b : Basis}
    {f : FileInfo B} (hacc : acc.first = none ∨ acc.first = some (s, b))
    (hf : dir i j = some f) (hsz : f.size = s) (hbs : f.basis = b) (hs : gridN ≤ s)
    (hb : b ≠ .other) :
    ∃ acc', readOne dir gridN acc i j = .ok acc' ∧ acc'.first = some (s, b) := by
  subst hsz hbs
  unfold readOne
  rw [hf]
  simp only [gt_iff_lt, Nat.not_lt.mpr hs, if_false, if_neg hb]
  rcases hacc with h | h
  · rw [h]; exact ⟨_, rfl, rfl⟩
  · rw [h]; simp only [ne_eq, not_true_eq_false, if_false]; exact ⟨_, rfl, rfl⟩

theorem foldlM_cons_ok {α β ε : Type} (f : β → α → Except ε β) (a : α) (l : List α) (b b' : β)
    (h : f b a = .ok b') : (a :: l).foldlM f b = l.foldlM f b' := by
  rw [List.foldlM_cons, h]; rfl

theorem foldlM_cons_error {α β ε : Type} (f : β → α → Except ε β) (a : α) (l : List α) (b : β)
    (e : ε) (h : f b a = .error e) : (a :: l).foldlM f b = .error e := by
  rw [List.foldlM_cons, h]; rfl

/-- generalised invariant statement over a suffix `ps` of the pair list -/
theorem foldlM_inv {dir : Dir B} {gridN : Nat} :
    ∀ (ps done : List (Nat × Nat)) (acc acc' : Acc B), Inv dir gridN done acc →
      ps.foldlM (fun acc (p : Nat × Nat) => readOne dir gridN acc p.1 p.2) acc = .ok acc' →
      Inv dir gridN (done ++ ps) acc' := by
  intro ps
  induction ps with
  | nil =>
    intro done acc acc' hI h
    have : acc = acc' := by simpa [List.foldlM_nil, pure, Except.pure] using h
    subst this
    simpa using hI
  | cons p ps ih =>
    intro done acc acc' hI h
    cases h1 : readOne dir gridN acc p.1 p.2 with
    | error e => rw [foldlM_cons_error _ _ _ _ e h1] at h; cases h
    | ok acc1 =>
      rw [foldlM_cons_ok _ _ _ _ acc1 h1] at h
      have := ih (done ++ [p]) acc1 acc' (readOne_inv hI h1) h
      simpa [List.append_assoc] using this

/-- generalised success statement over a suffix `ps` of the pair list -/
theorem foldlM_ok {dir : Dir B} {gridN s : Nat} {b : Basis} (hs : gridN ≤ s) (hb : b ≠ .other) :
    ∀ (ps : List (Nat × Nat)) (acc : Acc B),
      (∀ p ∈ ps, ∃ f, dir p.1 p.2 = some f ∧ f.size = s ∧ f.basis = b) →
      (acc.first = none ∨ acc.first = some (s, b)) →
      ∃ acc', ps.foldlM (fun acc (p : Nat × Nat) => readOne dir gridN acc p.1 p.2) acc = .ok acc' := by
  intro ps
  induction ps with
  | nil => intro acc _ _; exact ⟨acc, rfl⟩
  | cons p ps ih =>
    intro acc hall hacc
    obtain ⟨f, hf, hsz, hbs⟩ := hall p (List.mem_cons_self)
    obtain ⟨acc1, h1, hfst⟩ := readOne_ok hacc hf hsz hbs hs hb
    obtain ⟨acc', h'⟩ := ih acc1 (fun q hq => hall q (List.mem_cons_of_mem _ hq)) (Or.inr hfst)
    exact ⟨acc', by rw [foldlM_cons_ok _ _ _ _ acc1 h1]; exact h'⟩

theorem readAll_inv {dir : Dir B} {gridN n : Nat} {acc : Acc B} (h : readAll dir gridN n = .ok acc) :
    Inv dir gridN (pairs n) acc := by
  have := foldlM_inv (pairs n) [] _ acc (inv_init dir gridN) h
  simpa using this

/-- unfolding of a successful `newFromDirectory` -/
theorem newFromDirectory_eq_ok {dir : Dir B} {gridN n : Nat} {l : Loaded B}
    (h : newFromDirectory dir gridN n = .ok l) :
    ∃ acc, readAll dir gridN n = .ok acc ∧ acc.first = some (l.size, l.basis) ∧
      l.blocks = acc.blocks ∧ l.interpolated = decide (l.size ≠ gridN) := by
  unfold newFromDirectory at h
  split at h
  · cases h
  · rename_i acc hacc
    split at h
    · cases h
    · rename_i s b hfirst
      cases h
      exact ⟨acc, hacc, hfirst, rfl, rfl⟩

end Loading

/-! ## B. Embedding of the first `k'` orders -/

section Embedding
open Matrix

/-- 0/1 matrix embedding the first `k'` Chebyshev orders into `k` orders (`P i j = [i = j]`). -/
def embed (k k' : ℕ) : Matrix (Fin k) (Fin k') ℝ := fun i j => if (i : ℕ) = (j : ℕ) then 1 else 0

/-- 0/1 matrix of an arbitrary selection `ι` of columns (`P i j = [i = ι j]`). -/
def select {k k' : ℕ} (ι : Fin k' → Fin k) : Matrix (Fin k) (Fin k') ℝ :=
  fun i j => if i = ι j then 1 else 0

theorem embed_eq_select {k k' : ℕ} (h : k' ≤ k) :
    embed k k' = select (fun j : Fin k' => (⟨j, lt_of_lt_of_le j.2 h⟩ : Fin k)) := by
  ext i j
  simp [embed, select, Fin.ext_iff]

theorem mul_select_apply {q k k' : ℕ} (C : Matrix (Fin q) (Fin k) ℝ) (ι : Fin k' → Fin k)
    (i : Fin q) (j : Fin k') : (C * select ι) i j = C i (ι j) := by
  simp [Matrix.mul_apply, select]

theorem select_mulVec_apply {k k' : ℕ} (ι : Fin k' → Fin k) (hι : Function.Injective ι)
    (c : Fin k' → ℝ) (j : Fin k') : (select ι *ᵥ c) (ι j) = c j := by
  simp only [Matrix.mulVec, dotProduct, select]
  rw [Finset.sum_eq_single j]
  · simp
  · intro b _ hb
    have : ι j ≠ ι b := fun h => hb (hι h).symm
    simp [this]
  · simp

theorem select_mulVec_apply_of_notMem {k k' : ℕ} (ι : Fin k' → Fin k)
    (c : Fin k' → ℝ) (i : Fin k) (hi : ∀ j, i ≠ ι j) : (select ι *ᵥ c) i = 0 := by
  simp only [Matrix.mulVec, dotProduct, select]
  exact Finset.sum_eq_zero (fun j _ => by simp [hi j])

/-- the interpolation of the whole tensor: one block per ordered particle pair, each block treated
with the same `E` and `P` (the particle axes are `Array` axes of the `Polynomial`). -/
def interp {q q' k k' np : ℕ} (E : Matrix (Fin q') (Fin q) ℝ) (P : Matrix (Fin k) (Fin k') ℝ)
    (A : Fin np → Fin np → Matrix (Fin q) (Fin k) ℝ) : Fin np → Fin np → Matrix (Fin q') (Fin k') ℝ :=
  fun a b => E * A a b * P

end Embedding

/-! ## C. Flat row-major index arithmetic -/

/-- flat row-major index of `(i0, i1, i2)` in an array whose last two extents are `d1, d2` -/
def flat3 (d1 d2 i0 i1 i2 : ℕ) : ℕ := (i0 * d1 + i1) * d2 + i2

theorem flat3_lt {d0 d1 d2 i0 i1 i2 : ℕ} (h0 : i0 < d0) (h1 : i1 < d1) (h2 : i2 < d2) :
    flat3 d1 d2 i0 i1 i2 < d0 * d1 * d2 := by
  unfold flat3
  have : i0 * d1 + i1 + 1 ≤ d0 * d1 := by nlinarith
  nlinarith

theorem flat3_inj {d1 d2 i0 i1 i2 j0 j1 j2 : ℕ} (h1 : i1 < d1) (h2 : i2 < d2) (h1' : j1 < d1)
    (h2' : j2 < d2) (h : flat3 d1 d2 i0 i1 i2 = flat3 d1 d2 j0 j1 j2) :
    i0 = j0 ∧ i1 = j1 ∧ i2 = j2 := by
  unfold flat3 at h
  have hd2 : 0 < d2 := by omega
  have hd1 : 0 < d1 := by omega
  have e2 : i2 = j2 := by
    have := congrArg (· % d2) h
    simpa [Nat.mul_add_mod_of_lt, Nat.add_mod, Nat.mod_eq_of_lt h2, Nat.mod_eq_of_lt h2'] using this
  subst e2
  have e01 : i0 * d1 + i1 = j0 * d1 + j1 := by
    have := Nat.add_right_cancel h
    exact Nat.eq_of_mul_eq_mul_right hd2 this
  have e1 : i1 = j1 := by
    have := congrArg (· % d1) e01
    simpa [Nat.add_mod, Nat.mod_eq_of_lt h1, Nat.mod_eq_of_lt h1'] using this
  subst e1
  exact ⟨Nat.eq_of_mul_eq_mul_right hd1 (Nat.add_right_cancel e01), rfl, rfl⟩

/-- entry `(i0, i1, i2)` of the flat row-major buffer `buf` viewed with trailing extents `(d1, d2)`
(what `buf.reshape((d0, d1, d2))[i0, i1, i2]` reads; reshape never moves data). -/
def unflat3 (buf : List ℕ) (d1 d2 i0 i1 i2 : ℕ) : ℕ := buf.getD (flat3 d1 d2 i0 i1 i2) 0

/-- the flat row-major buffer of the array `g` of shape `(d0, d1, d2)` -/
def flatten3 (d0 d1 d2 : ℕ) (g : ℕ → ℕ → ℕ → ℕ) : List ℕ :=
  (List.range (d0 * d1 * d2)).map (fun t => g (t / (d1 * d2)) (t / d2 % d1) (t % d2))

/-- The ORIGINAL (defective) code: the buffer returned by `evaluate`, of shape `(q', np, np)`
(point, particle1, particle2), is passed to `reshape` with the target shape `(np, q', np)`.
`reshape` keeps the flat buffer. -/
def reshapeWrong (_q _np : ℕ) (buf : List ℕ) : List ℕ := buf

/-- The corrected code: `np.moveaxis(·, 0, 1)` first (new[a, p, b] = old[p, a, b]), then the
(now harmless) reshape. -/
def moveaxisThenReshape (q np : ℕ) (buf : List ℕ) : List ℕ :=
  flatten3 np q np (fun a p b => unflat3 buf np np p a b)

theorem flat3_div_mod {d1 d2 i0 i1 i2 : ℕ} (h1 : i1 < d1) (h2 : i2 < d2) :
    flat3 d1 d2 i0 i1 i2 / (d1 * d2) = i0 ∧ flat3 d1 d2 i0 i1 i2 / d2 % d1 = i1 ∧
      flat3 d1 d2 i0 i1 i2 % d2 = i2 := by
  unfold flat3
  have hd2 : 0 < d2 := by omega
  have hd1 : 0 < d1 := by omega
  have e1 : ((i0 * d1 + i1) * d2 + i2) / d2 = i0 * d1 + i1 := by
    rw [Nat.mul_comm, Nat.mul_add_div hd2, Nat.div_eq_of_lt h2, Nat.add_zero]
  refine ⟨?_, ?_, ?_⟩
  · rw [Nat.mul_comm d1 d2, ← Nat.div_div_eq_div_mul, e1, Nat.mul_comm, Nat.mul_add_div hd1,
      Nat.div_eq_of_lt h1, Nat.add_zero]
  · rw [e1, Nat.mul_comm, Nat.mul_add_mod, Nat.mod_eq_of_lt h1]
  · rw [Nat.mul_comm, Nat.mul_add_mod, Nat.mod_eq_of_lt h2]

theorem unflat3_flatten3 {d0 d1 d2 i0 i1 i2 : ℕ} (g : ℕ → ℕ → ℕ → ℕ) (h0 : i0 < d0) (h1 : i1 < d1)
    (h2 : i2 < d2) : unflat3 (flatten3 d0 d1 d2 g) d1 d2 i0 i1 i2 = g i0 i1 i2 := by
  obtain ⟨e0, e1, e2⟩ := flat3_div_mod (i0 := i0) h1 h2
  have hlt := flat3_lt h0 h1 h2
  unfold unflat3 flatten3
  rw [List.getD_eq_getElem?_getD, List.getElem?_map, List.getElem?_range hlt]
  simp [e0, e1, e2]

/-! ## D. Concrete directories for the non-vacuity examples -/

/-- two particles, all four files present: size 7, cardinal basis, block id `10 i + j` -/
def dirGood : Dir Nat := fun i j =>
  if i < 2 ∧ j < 2 then some { size := 7, basis := .cardinal, block := 10 * i + j } else none

/-- file (1,0) missing -/
def dirMissing : Dir Nat := fun i j => if i = 1 ∧ j = 0 then none else dirGood i j

/-- file (1,1) has a different basis size -/
def dirSizeMismatch : Dir Nat := fun i j =>
  if i = 1 ∧ j = 1 then some { size := 9, basis := .cardinal, block := 11 } else dirGood i j

/-- file (0,1) stored in a different basis -/
def dirBasisMismatch : Dir Nat := fun i j =>
  if i = 0 ∧ j = 1 then some { size := 7, basis := .chebyshev, block := 1 } else dirGood i j

/-- file (0,1) has an unknown basis -/
def dirUnknownBasis : Dir Nat := fun i j =>
  if i = 0 ∧ j = 1 then some { size := 7, basis := .other, block := 1 } else dirGood i j

end Lemmas.Collision
