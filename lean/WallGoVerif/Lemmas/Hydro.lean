/-
Helper lemmas for properties C02, C05, C06 (hydrodynamic matching across the bubble wall,
`Hydrodynamics` in `src/WallGo/hydrodynamics.py`, generated copy in `Gen/R/Hydro.lean`).

Organisation
* `EOSOK`, `energyFlux`, `momentumFlux`   : vocabulary.
* `junction_iff_conservation_alg`        : pure algebra: (v₊v₋, v₊/v₋) relations ⇔ flux conservation.
* `sq_system_iff`                        : the squared system solved by the code ⇔ the junction relations.
* unfolding lemmas for the generated definitions (`vpvmAndvpovm_fst`, `matchingVp_eq_zero_iff`, …).
* `deflagVm …`                           : the `sqrt(max(min(vw², cs²), 0))` post-processing.
* `Vsq`, `hasDerivAt_Vsq`, `vpDerivNum_factor` : Chapman–Jouguet material.
* `LTEIn`, `findvwLTE`                   : pure decision model of `Hydrodynamics.findvwLTE`.
* `bag`                                  : concrete bag-model `HydroP` used for the non-vacuity examples.
-/
import WallGoVerif.Gen.R.Hydro
import Mathlib.Tactic
import Mathlib.Analysis.Calculus.Deriv.Mul
import Mathlib.Analysis.Calculus.Deriv.Inv
import Mathlib.Analysis.Calculus.Deriv.Add
import Mathlib.Analysis.Calculus.Deriv.Pow

namespace Lemmas.Hydro

open Gen.R.Hydro Gen.R.Helpers WG.R

/-! ## Vocabulary -/

/-- Well-formedness of the abstract equation of state carried by `HydroP`: the enthalpy is
`w = e + p` in both phases (true for `Thermodynamics`, where `w = T p'` and `e = T p' - p`). -/
structure EOSOK (s : HydroP) : Prop where
  w_high : ∀ T, s.wHighT T = s.eHighT T + s.pHighT T
  w_low : ∀ T, s.wLowT T = s.eLowT T + s.pLowT T

/-- Energy flux `T^{0z} = w γ² v` of a perfect fluid with enthalpy `w` moving at speed `v`. -/
noncomputable def energyFlux (w v : ℝ) : ℝ := w * gammaSq v * v

/-- Momentum flux `T^{zz} = w γ² v² + p`. -/
noncomputable def momentumFlux (w p v : ℝ) : ℝ := w * gammaSq v * v ^ 2 + p

theorem gammaSq_eq (v : ℝ) : gammaSq v = 1 / (1 - v ^ 2) := by
  unfold gammaSq; rw [pow_two]

theorem one_sub_sq_ne_zero {v : ℝ} (h : v ^ 2 ≠ 1) : 1 - v ^ 2 ≠ 0 := by
  intro h'; apply h; linarith

theorem sq_ne_one_of_mem {v : ℝ} (h0 : 0 < v) (h1 : v < 1) : v ^ 2 ≠ 1 := by
  have : v ^ 2 < 1 := by nlinarith
  exact ne_of_lt this

theorem gammaSq_pos {v : ℝ} (h0 : 0 ≤ v) (h1 : v < 1) : 0 < gammaSq v := by
  rw [gammaSq_eq]
  have : v ^ 2 < 1 := by nlinarith
  have : 0 < 1 - v ^ 2 := by linarith
  positivity

/-! ## Pure algebra: junction relations ⇔ conservation of energy and momentum flux -/

/-- Polynomial form of energy-flux conservation. -/
theorem energyFlux_eq_iff {wp wm vp vm : ℝ} (hvp : vp ^ 2 ≠ 1) (hvm : vm ^ 2 ≠ 1) :
    energyFlux wp vp = energyFlux wm vm ↔
      wp * vp * (1 - vm ^ 2) = wm * vm * (1 - vp ^ 2) := by
  have h1 := one_sub_sq_ne_zero hvp
  have h2 := one_sub_sq_ne_zero hvm
  unfold energyFlux; rw [gammaSq_eq, gammaSq_eq]
  have e1 : wp * (1 / (1 - vp ^ 2)) * vp = (wp * vp) / (1 - vp ^ 2) := by ring
  have e2 : wm * (1 / (1 - vm ^ 2)) * vm = (wm * vm) / (1 - vm ^ 2) := by ring
  rw [e1, e2, div_eq_div_iff h1 h2]

/-- Polynomial form of momentum-flux conservation. -/
theorem momentumFlux_eq_iff {wp wm pp pm vp vm : ℝ} (hvp : vp ^ 2 ≠ 1) (hvm : vm ^ 2 ≠ 1) :
    momentumFlux wp pp vp = momentumFlux wm pm vm ↔
      (wp * vp ^ 2 + pp * (1 - vp ^ 2)) * (1 - vm ^ 2)
        = (wm * vm ^ 2 + pm * (1 - vm ^ 2)) * (1 - vp ^ 2) := by
  have h1 := one_sub_sq_ne_zero hvp
  have h2 := one_sub_sq_ne_zero hvm
  unfold momentumFlux; rw [gammaSq_eq, gammaSq_eq]
  have e1 : wp * (1 / (1 - vp ^ 2)) * vp ^ 2 + pp
      = (wp * vp ^ 2 + pp * (1 - vp ^ 2)) / (1 - vp ^ 2) := by field_simp
  have e2 : wm * (1 / (1 - vm ^ 2)) * vm ^ 2 + pm
      = (wm * vm ^ 2 + pm * (1 - vm ^ 2)) / (1 - vm ^ 2) := by field_simp
  rw [e1, e2, div_eq_div_iff h1 h2]

/-- **Junction relations ⇔ conservation laws (pure algebra).**
`v₊v₋ = (p₊-p₋)/(e₊-e₋)` and `v₊/v₋ = (e₋+p₊)/(e₊+p₋)` hold iff energy flux and momentum flux
agree on the two sides.  The linear map taking the two (cleared) junction relations to the two
(cleared) conservation laws has determinant `(1-v₊²)(1-v₋²)`. -/
theorem junction_iff_conservation_alg {eH pH eL pL vp vm : ℝ}
    (hvp : vp ^ 2 ≠ 1) (hvm : vm ^ 2 ≠ 1) (hvm0 : vm ≠ 0)
    (hC : eH ≠ eL) (hD : eH + pL ≠ 0) :
    (vp * vm = (pH - pL) / (eH - eL) ∧ vp / vm = (eL + pH) / (eH + pL)) ↔
    (energyFlux (eH + pH) vp = energyFlux (eL + pL) vm ∧
      momentumFlux (eH + pH) pH vp = momentumFlux (eL + pL) pL vm) := by
  have h1 := one_sub_sq_ne_zero hvp
  have h2 := one_sub_sq_ne_zero hvm
  have hC' : eH - eL ≠ 0 := sub_ne_zero.mpr hC
  rw [energyFlux_eq_iff hvp hvm, momentumFlux_eq_iff hvp hvm, eq_div_iff hC',
    div_eq_div_iff hvm0 hD]
  constructor
  · rintro ⟨J1, J2⟩
    constructor
    · linear_combination (-(vp + vm)) * J1 + (1 + vp * vm) * J2
    · linear_combination (-(1 + vp * vm)) * J1 + (vp + vm) * J2
  · rintro ⟨E, M⟩
    have hdet : (1 - vp ^ 2) * (1 - vm ^ 2) ≠ 0 := mul_ne_zero h1 h2
    constructor
    · have : (1 - vp ^ 2) * (1 - vm ^ 2) * (vp * vm * (eH - eL) - (pH - pL)) = 0 := by
        linear_combination (vp + vm) * E - (1 + vp * vm) * M
      have := (mul_eq_zero.mp this).resolve_left hdet
      linarith
    · have : (1 - vp ^ 2) * (1 - vm ^ 2) * (vp * (eH + pL) - (eL + pH) * vm) = 0 := by
        linear_combination (1 + vp * vm) * E - (vp + vm) * M
      have := (mul_eq_zero.mp this).resolve_left hdet
      linarith

/-- The squared system solved numerically by the code (`v₊v₋·v₊/v₋ = v₊²`, `v₊v₋/(v₊/v₋) = v₋²`)
is equivalent to the junction relations for positive speeds **provided `v₊/v₋` comes out
positive**; without the sign condition `(a, b) = (-v₊v₋, -v₊/v₋)` is a spurious solution. -/
theorem sq_system_iff {a b vp vm : ℝ} (hvp : 0 < vp) (hvm : 0 < vm) :
    (a * b = vp ^ 2 ∧ a / b = vm ^ 2 ∧ 0 < b) ↔ (vp * vm = a ∧ vp / vm = b) := by
  constructor
  · rintro ⟨h1, h2, hb⟩
    have ha : a = vm ^ 2 * b := (div_eq_iff hb.ne').mp h2
    have hsq : (vm * b) ^ 2 = vp ^ 2 := by rw [← h1, ha]; ring
    have hv : vm * b = vp :=
      (pow_left_inj₀ (by positivity) hvp.le (by norm_num)).mp hsq
    refine ⟨?_, ?_⟩
    · rw [ha, ← hv]; ring
    · rw [← hv]; field_simp
  · rintro ⟨h1, h2⟩
    subst h1; subst h2
    refine ⟨?_, ?_, by positivity⟩
    · field_simp
    · field_simp

/-- The spurious branch of the squared system really exists (this is why `0 < b` is needed). -/
theorem sq_system_spurious {vp vm : ℝ} (hvm : vm ≠ 0) :
    (-(vp * vm)) * (-(vp / vm)) = vp ^ 2 ∧ (-(vp * vm)) / (-(vp / vm)) = vm ^ 2 ∨ vp = 0 := by
  by_cases hvp : vp = 0
  · exact Or.inr hvp
  · left; constructor <;> field_simp

/-! ## Unfolding lemmas for the generated definitions -/

theorem vpvmAndvpovm_fst (s : HydroP) (Tp Tm : ℝ) (h : s.eHighT Tp ≠ s.eLowT Tm) :
    (vpvmAndvpovm s Tp Tm).1 = (s.pHighT Tp - s.pLowT Tm) / (s.eHighT Tp - s.eLowT Tm) := by
  simp [vpvmAndvpovm, h]

theorem vpvmAndvpovm_fst_degenerate (s : HydroP) (Tp Tm : ℝ) (h : s.eHighT Tp = s.eLowT Tm) :
    (vpvmAndvpovm s Tp Tm).1 = (s.pHighT Tp - s.pLowT Tm) * 1e50 := by
  simp [vpvmAndvpovm, h]; norm_num

theorem vpvmAndvpovm_snd (s : HydroP) (Tp Tm : ℝ) :
    (vpvmAndvpovm s Tp Tm).2 = (s.eLowT Tm + s.pHighT Tp) / (s.eHighT Tp + s.pLowT Tm) := rfl

/-- The two conservation laws across the wall for the state `(vp, vm, Tp, Tm)`:
energy flux `w γ² v` and momentum flux `w γ² v² + p` agree in front of (High, `+`) and behind
(Low, `-`) the wall. -/
def Conservation (s : HydroP) (vp vm Tp Tm : ℝ) : Prop :=
  energyFlux (s.wHighT Tp) vp = energyFlux (s.wLowT Tm) vm ∧
    momentumFlux (s.wHighT Tp) (s.pHighT Tp) vp = momentumFlux (s.wLowT Tm) (s.pLowT Tm) vm

/-- `HydroP`-level form of `junction_iff_conservation_alg`. -/
theorem junction_iff_conservation_hydro (s : HydroP) (hs : EOSOK s) (Tp Tm vp vm : ℝ)
    (hvp : vp ^ 2 ≠ 1) (hvm : vm ^ 2 ≠ 1) (hvm0 : vm ≠ 0)
    (hC : s.eHighT Tp ≠ s.eLowT Tm) (hD : s.eHighT Tp + s.pLowT Tm ≠ 0) :
    (vp * vm = (vpvmAndvpovm s Tp Tm).1 ∧ vp / vm = (vpvmAndvpovm s Tp Tm).2) ↔
      Conservation s vp vm Tp Tm := by
  unfold Conservation
  rw [vpvmAndvpovm_fst s Tp Tm hC, vpvmAndvpovm_snd, hs.w_high, hs.w_low]
  exact junction_iff_conservation_alg hvp hvm hvm0 hC hD

/-- The rescaling factor `c` used in `matchDeflagOrHyb.matching`. -/
noncomputable def scaleC (Tpm Tpm0 : ℝ × ℝ) : ℝ :=
  ((((2 : ℝ) ^ 2) + ((Tpm.1 / Tpm0.1) ^ 2)) + ((Tpm.2 / Tpm0.2) ^ 2)) *
    ((((2 : ℝ) ^ 2) + ((Tpm0.1 / Tpm.1) ^ 2)) + ((Tpm0.2 / Tpm.2) ^ 2))

/-- `c ≥ 16` unconditionally (also with Lean's `x/0 = 0`). -/
theorem scaleC_ge (Tpm Tpm0 : ℝ × ℝ) : 16 ≤ scaleC Tpm Tpm0 := by
  unfold scaleC
  have h1 : (4 : ℝ) ≤ (2 : ℝ) ^ 2 + (Tpm.1 / Tpm0.1) ^ 2 + (Tpm.2 / Tpm0.2) ^ 2 := by
    nlinarith [sq_nonneg (Tpm.1 / Tpm0.1), sq_nonneg (Tpm.2 / Tpm0.2)]
  have h2 : (4 : ℝ) ≤ (2 : ℝ) ^ 2 + (Tpm0.1 / Tpm.1) ^ 2 + (Tpm0.2 / Tpm.2) ^ 2 := by
    nlinarith [sq_nonneg (Tpm0.1 / Tpm.1), sq_nonneg (Tpm0.2 / Tpm.2)]
  nlinarith

theorem scaleC_pos (Tpm Tpm0 : ℝ × ℝ) : 0 < scaleC Tpm Tpm0 :=
  lt_of_lt_of_le (by norm_num) (scaleC_ge Tpm Tpm0)

/-- The entropy-conservation value of `v₊²` used by `matching` when `vp is None`. -/
noncomputable def vpsqLTE (Tp Tm vmsq : ℝ) : ℝ := (Tm ^ 2 - Tp ^ 2 * (1 - vmsq)) / Tm ^ 2

theorem matchingVp_eq (s : HydroP) (m : ℝ × ℝ) (vw vp : ℝ) (Tpm0 : ℝ × ℝ) :
    matchingVp s m vw vp Tpm0 =
      (((vpvmAndvpovm s (inverseMappingT s m).1 (inverseMappingT s m).2).1 *
          (vpvmAndvpovm s (inverseMappingT s m).1 (inverseMappingT s m).2).2 - vp ^ 2) *
            scaleC (inverseMappingT s m) Tpm0,
       ((vpvmAndvpovm s (inverseMappingT s m).1 (inverseMappingT s m).2).1 /
          (vpvmAndvpovm s (inverseMappingT s m).1 (inverseMappingT s m).2).2 -
            pmin (vw ^ 2) (s.csqLowT (inverseMappingT s m).2)) *
            scaleC (inverseMappingT s m) Tpm0) := rfl

theorem matchingLTE_eq (s : HydroP) (m : ℝ × ℝ) (vw : ℝ) (Tpm0 : ℝ × ℝ) :
    matchingLTE s m vw Tpm0 =
      (((vpvmAndvpovm s (inverseMappingT s m).1 (inverseMappingT s m).2).1 *
          (vpvmAndvpovm s (inverseMappingT s m).1 (inverseMappingT s m).2).2 -
            vpsqLTE (inverseMappingT s m).1 (inverseMappingT s m).2
              (pmin (vw ^ 2) (s.csqLowT (inverseMappingT s m).2))) *
            scaleC (inverseMappingT s m) Tpm0,
       ((vpvmAndvpovm s (inverseMappingT s m).1 (inverseMappingT s m).2).1 /
          (vpvmAndvpovm s (inverseMappingT s m).1 (inverseMappingT s m).2).2 -
            pmin (vw ^ 2) (s.csqLowT (inverseMappingT s m).2)) *
            scaleC (inverseMappingT s m) Tpm0) := rfl

theorem pair_mul_eq_zero_iff {x y c : ℝ} (hc : c ≠ 0) {a b : ℝ} :
    ((x - a) * c, (y - b) * c) = ((0 : ℝ), (0 : ℝ)) ↔ x = a ∧ y = b := by
  simp [Prod.ext_iff, hc, sub_eq_zero]

theorem tmFromvpsq_eq (s : HydroP) (vp pH eH tm : ℝ) :
    tmFromvpsq s vp pH eH tm =
      vp ^ 2 * (eH - (s.wLowT tm - s.pLowT tm)) -
        (pH - s.pLowT tm) * ((s.wLowT tm - s.pLowT tm) + pH) / (eH + s.pLowT tm) := rfl

theorem matchDetonPost_eq (s : HydroP) (vp Tp Tm : ℝ) :
    matchDetonPost s vp Tp Tm =
      (vp, (if vp = 1 then (1 : ℝ)
            else Real.sqrt ((vpvmAndvpovm s Tp Tm).1 / (vpvmAndvpovm s Tp Tm).2)), Tp, Tm) := rfl

theorem hydroBoundaries_eq (s : HydroP) (vp vm Tp Tm : ℝ) :
    hydroBoundaries s vp vm Tp Tm =
      (-(s.wHighT Tp) * gammaSq vp * vp, s.pHighT Tp + s.wHighT Tp * gammaSq vp * vp ^ 2,
        Tp, Tm, -(1 / 2 : ℝ) * (vm + vp)) := rfl

/-! ## Post-processing of `matchDeflagOrHyb`: `vm = sqrt(max(min(vw², cs²), 0))` -/

/-- The value of `v₋` returned by `matchDeflagOrHyb`. -/
noncomputable def deflagVm (vw csq : ℝ) : ℝ := Real.sqrt (pmax (pmin (vw ^ 2) csq) 0)

theorem deflagPostVp_eq (s : HydroP) (vw vp Tp Tm : ℝ) :
    deflagPostVp s vw vp Tp Tm = (vp, deflagVm vw (s.csqLowT Tm), Tp, Tm) := rfl

theorem deflagPostLTE_eq (s : HydroP) (vw Tp Tm : ℝ) :
    deflagPostLTE s vw Tp Tm =
      (Real.sqrt (Tm ^ 2 - Tp ^ 2 * (1 - deflagVm vw (s.csqLowT Tm) ^ 2)) / Tm,
        deflagVm vw (s.csqLowT Tm), Tp, Tm) := rfl

theorem deflagVm_nonneg (vw csq : ℝ) : 0 ≤ deflagVm vw csq := Real.sqrt_nonneg _

theorem deflagVm_sq (vw csq : ℝ) : deflagVm vw csq ^ 2 = max (min (vw ^ 2) csq) 0 := by
  unfold deflagVm
  rw [pmax_eq_max, pmin_eq_min, Real.sq_sqrt (le_max_right _ _)]

theorem deflagVm_sq_of_nonneg {vw csq : ℝ} (h : 0 ≤ min (vw ^ 2) csq) :
    deflagVm vw csq ^ 2 = min (vw ^ 2) csq := by
  rw [deflagVm_sq, max_eq_left h]

theorem deflagVm_deflagration {vw csq : ℝ} (hvw : 0 ≤ vw) (h : vw ^ 2 ≤ csq) :
    deflagVm vw csq = vw := by
  unfold deflagVm
  rw [pmax_eq_max, pmin_eq_min, min_eq_left h, max_eq_left (sq_nonneg vw), Real.sqrt_sq hvw]

theorem deflagVm_hybrid {vw csq : ℝ} (hc : 0 ≤ csq) (h : csq ≤ vw ^ 2) :
    deflagVm vw csq = Real.sqrt csq := by
  unfold deflagVm
  rw [pmax_eq_max, pmin_eq_min, min_eq_right h, max_eq_left hc]

theorem deflagVm_of_csq_neg {vw csq : ℝ} (hc : csq ≤ 0) : deflagVm vw csq = 0 := by
  unfold deflagVm
  rw [pmax_eq_max, pmin_eq_min]
  have : min (vw ^ 2) csq ≤ 0 := le_trans (min_le_right _ _) hc
  rw [max_eq_right this, Real.sqrt_zero]

theorem deflagVm_le_abs (vw csq : ℝ) : deflagVm vw csq ≤ |vw| := by
  rw [← Real.sqrt_sq_eq_abs]
  unfold deflagVm
  apply Real.sqrt_le_sqrt
  rw [pmax_eq_max, pmin_eq_min]
  exact max_le (min_le_left _ _) (sq_nonneg vw)

theorem deflagVm_le_sqrt_csq {vw csq : ℝ} (hc : 0 ≤ csq) : deflagVm vw csq ≤ Real.sqrt csq := by
  unfold deflagVm
  apply Real.sqrt_le_sqrt
  rw [pmax_eq_max, pmin_eq_min]
  exact max_le (min_le_right _ _) hc

/-! ## Entropy-flux identity (LTE) -/

/-- `v₊² := (T₋² - T₊²(1-v₋²))/T₋²` is exactly the solution of `T₊² γ₊² = T₋² γ₋²`
(here in the form `T₊²/(1-v₊²) = T₋²/(1-v₋²)`).  With Lean's `x/0 = 0` the case `v₋² = 1`
is the degenerate `0 = 0`. -/
theorem vpsqLTE_entropy {Tp Tm vmsq : ℝ} (hTp : Tp ≠ 0) (hTm : Tm ≠ 0) :
    Tp ^ 2 / (1 - vpsqLTE Tp Tm vmsq) = Tm ^ 2 / (1 - vmsq) := by
  unfold vpsqLTE
  have h : 1 - (Tm ^ 2 - Tp ^ 2 * (1 - vmsq)) / Tm ^ 2 = Tp ^ 2 * (1 - vmsq) / Tm ^ 2 := by
    field_simp; ring
  rw [h]
  by_cases hv : 1 - vmsq = 0
  · rw [hv]; simp
  · field_simp

/-- Conversely the entropy-flux identity determines `v₊²` (for `v₋² ≠ 1`). -/
theorem vpsqLTE_unique {Tp Tm vmsq x : ℝ} (hTm : Tm ≠ 0) (hv : vmsq ≠ 1)
    (hx : x ≠ 1) (h : Tp ^ 2 / (1 - x) = Tm ^ 2 / (1 - vmsq)) : x = vpsqLTE Tp Tm vmsq := by
  unfold vpsqLTE
  have h1 : 1 - x ≠ 0 := sub_ne_zero.mpr (Ne.symm hx)
  have h2 : 1 - vmsq ≠ 0 := sub_ne_zero.mpr (Ne.symm hv)
  rw [div_eq_div_iff h1 h2] at h
  field_simp
  linear_combination h

/-- Squared entropy-flux identity for a `v₊` obtained as `sqrt(radicand)/T₋`. -/
theorem entropy_sq_of_sqrt {Tp Tm vm : ℝ} (hTp : Tp ≠ 0) (hTm : Tm ≠ 0)
    (hrad : 0 ≤ Tm ^ 2 - Tp ^ 2 * (1 - vm ^ 2)) :
    Tp ^ 2 * gammaSq (Real.sqrt (Tm ^ 2 - Tp ^ 2 * (1 - vm ^ 2)) / Tm) = Tm ^ 2 * gammaSq vm := by
  rw [gammaSq_eq, gammaSq_eq, div_pow, Real.sq_sqrt hrad]
  have := vpsqLTE_entropy (Tp := Tp) (Tm := Tm) (vmsq := vm ^ 2) hTp hTm
  unfold vpsqLTE at this
  rw [mul_one_div, mul_one_div]; exact this

/-- From the squared identity to `T₊ γ₊ = T₋ γ₋` for positive temperatures. -/
theorem entropy_of_sq {Tp Tm gp gm : ℝ} (hTp : 0 ≤ Tp) (hTm : 0 ≤ Tm)
    (h : Tp ^ 2 * gp = Tm ^ 2 * gm) : Tp * Real.sqrt gp = Tm * Real.sqrt gm := by
  have := congrArg Real.sqrt h
  rwa [Real.sqrt_mul (sq_nonneg _), Real.sqrt_mul (sq_nonneg _), Real.sqrt_sq hTp,
    Real.sqrt_sq hTm] at this

/-! ## Chapman–Jouguet -/

/-- `v₊²` as a function of `T₋` at fixed state in front of the wall. -/
noncomputable def Vsq (s : HydroP) (pH eH tm : ℝ) : ℝ :=
  ((pH - s.pLowT tm) * (pH + s.eLowT tm)) / ((eH - s.eLowT tm) * (eH + s.pLowT tm))

theorem jouguetVp_eq (s : HydroP) (pH eH tm : ℝ) :
    jouguetVp s pH eH tm = Real.sqrt (Vsq s pH eH tm) := by
  unfold jouguetVp Vsq
  rw [div_div]

theorem vpDerivNum_eq (s : HydroP) (pH eH tm : ℝ) :
    vpDerivNum s pH eH tm =
      (-(s.dpLowT tm)) * (pH + s.eLowT tm) * (eH - s.eLowT tm) * (eH + s.pLowT tm)
      + (pH - s.pLowT tm) * (s.deLowT tm) * (eH - s.eLowT tm) * (eH + s.pLowT tm)
      - (pH - s.pLowT tm) * (pH + s.eLowT tm) * (-(s.deLowT tm)) * (eH + s.pLowT tm)
      - (pH - s.pLowT tm) * (pH + s.eLowT tm) * (eH - s.eLowT tm) * (-(-(s.dpLowT tm))) := rfl

/-- The code's `vpDerivNum` factorises as `w₊ · (e' A D - p' B C)`. -/
theorem vpDerivNum_factor (s : HydroP) (pH eH tm : ℝ) :
    vpDerivNum s pH eH tm =
      (eH + pH) * (s.deLowT tm * (pH - s.pLowT tm) * (eH + s.pLowT tm)
        - s.dpLowT tm * (pH + s.eLowT tm) * (eH - s.eLowT tm)) := by
  rw [vpDerivNum_eq]; ring

/-- Quotient rule: `vpDerivNum` is the numerator of `d(v₊²)/dT₋`. -/
theorem hasDerivAt_Vsq (s : HydroP) (pH eH tm : ℝ)
    (hp : HasDerivAt s.pLowT (s.dpLowT tm) tm) (he : HasDerivAt s.eLowT (s.deLowT tm) tm)
    (h1 : eH - s.eLowT tm ≠ 0) (h2 : eH + s.pLowT tm ≠ 0) :
    HasDerivAt (Vsq s pH eH)
      (vpDerivNum s pH eH tm / ((eH - s.eLowT tm) * (eH + s.pLowT tm)) ^ 2) tm := by
  have hA : HasDerivAt (fun t => pH - s.pLowT t) (-(s.dpLowT tm)) tm := hp.const_sub pH
  have hB : HasDerivAt (fun t => pH + s.eLowT t) (s.deLowT tm) tm := he.const_add pH
  have hC : HasDerivAt (fun t => eH - s.eLowT t) (-(s.deLowT tm)) tm := he.const_sub eH
  have hD : HasDerivAt (fun t => eH + s.pLowT t) (s.dpLowT tm) tm := hp.const_add eH
  have hden : (eH - s.eLowT tm) * (eH + s.pLowT tm) ≠ 0 := mul_ne_zero h1 h2
  have h := (hA.mul hB).div (hC.mul hD) hden
  refine HasDerivAt.congr_deriv (f := Vsq s pH eH) h ?_
  simp only [Pi.mul_apply]
  rw [vpDerivNum_eq]
  ring

/-- Algebraic Chapman–Jouguet criterion. -/
theorem vpDerivNum_eq_zero_iff (s : HydroP) (pH eH tm : ℝ)
    (hw : eH + pH ≠ 0) (hde : s.deLowT tm ≠ 0)
    (hB : pH + s.eLowT tm ≠ 0) (hC : eH - s.eLowT tm ≠ 0) :
    vpDerivNum s pH eH tm = 0 ↔
      s.dpLowT tm / s.deLowT tm =
        ((pH - s.pLowT tm) * (eH + s.pLowT tm)) / ((eH - s.eLowT tm) * (pH + s.eLowT tm)) := by
  rw [vpDerivNum_factor, mul_eq_zero, or_iff_right hw, div_eq_div_iff hde (mul_ne_zero hC hB),
    sub_eq_zero]
  constructor <;> intro h <;> linear_combination -h

/-! ## Decision model of `findvwLTE` (hydrodynamics.py:833-906) -/

/-- Everything `findvwLTE` observes from the numerical sub-routines. -/
structure LTEIn where
  /-- `self.vMin` -/
  vMin : ℝ
  /-- `self.vJ` -/
  vJ : ℝ
  /-- `shock(self.vJ - 1e-10)` -/
  shockAtVmax : ℝ
  /-- `.root` of the first `root_scalar(shock, bracket=[cs(Tn), vJ])`; `none` = `ValueError` -/
  rootShock : Option ℝ
  /-- `shockTnuclDiff` -/
  diff : ℝ → ℝ
  /-- value of `self.success` read at line 892, after `shockTnuclDiff(vmax)` -/
  success : ℝ → Bool
  /-- `.root` of the final `root_scalar(shockTnuclDiff, bracket=(vmin, vmax))` -/
  root : ℝ → ℝ → ℝ

/-- The upper bracket end `vmax` after lines 870-888; `none` = early `return 1`. -/
noncomputable def lteVmax (i : LTEIn) : Option ℝ :=
  if i.shockAtVmax > 0 then i.rootShock.map (fun r => r - 1e-6) else some (i.vJ - 1e-10)

/-- Pure model of the value returned by `findvwLTE`. -/
noncomputable def findvwLTE (i : LTEIn) : ℝ :=
  match lteVmax i with
  | none => 1
  | some vmax =>
    if i.diff vmax > 0 ∨ i.success vmax = false then 1
    else if i.diff i.vMin < 0 then 0
    else i.root i.vMin vmax

/-- The final branch was taken with upper bracket end `vmax`. -/
def LTEFinal (i : LTEIn) (vmax : ℝ) : Prop :=
  lteVmax i = some vmax ∧ i.diff vmax ≤ 0 ∧ i.success vmax = true ∧ 0 ≤ i.diff i.vMin

/-- Contract of the final `root_scalar` and of the bracket. -/
structure LTEContract (i : LTEIn) : Prop where
  vMin_pos : 0 < i.vMin
  vmax_lt : ∀ vmax, lteVmax i = some vmax → vmax < 1
  root_mem : ∀ vmax, lteVmax i = some vmax → i.vMin ≤ i.root i.vMin vmax ∧ i.root i.vMin vmax ≤ vmax

theorem lteVmax_eq_none_iff (i : LTEIn) :
    lteVmax i = none ↔ i.shockAtVmax > 0 ∧ i.rootShock = none := by
  unfold lteVmax
  split_ifs with h
  · simp [h]
  · simp [h]

/-- Exhaustive case analysis of the model. -/
theorem findvwLTE_cases (i : LTEIn) :
    (lteVmax i = none ∧ findvwLTE i = 1) ∨
    (∃ vmax, lteVmax i = some vmax ∧ (i.diff vmax > 0 ∨ i.success vmax = false) ∧
        findvwLTE i = 1) ∨
    (∃ vmax, lteVmax i = some vmax ∧ i.diff vmax ≤ 0 ∧ i.success vmax = true ∧
        i.diff i.vMin < 0 ∧ findvwLTE i = 0) ∨
    (∃ vmax, LTEFinal i vmax ∧ findvwLTE i = i.root i.vMin vmax) := by
  unfold findvwLTE LTEFinal
  cases hv : lteVmax i with
  | none => left; simp
  | some vmax =>
    right
    by_cases h1 : i.diff vmax > 0 ∨ i.success vmax = false
    · left; exact ⟨vmax, rfl, h1, by simp [h1]⟩
    · right
      have h1' := h1
      rw [not_or] at h1'
      obtain ⟨hd, hs⟩ := h1'
      have hs' : i.success vmax = true := by simpa using hs
      by_cases h2 : i.diff i.vMin < 0
      · left; exact ⟨vmax, rfl, not_lt.mp hd, hs', h2, by simp [h1, h2]⟩
      · right; exact ⟨vmax, ⟨rfl, not_lt.mp hd, hs', not_lt.mp h2⟩, by simp [h1, h2]⟩

/-! ## A concrete bag model -/

/-- Bag equation of state: `p₊ = aT⁴/3 - ε`, `e₊ = aT⁴ + ε`, `p₋ = bT⁴/3`, `e₋ = bT⁴`, `cs² = 1/3`.
`TMinHydro = 0`, `TMaxHydro = 2` so that `_inverseMappingT (0,0) = (1,1)`. -/
noncomputable def bag (a b ε : ℝ) : HydroP where
  Tnucl := 1
  TMaxHydro := 2
  TMinHydro := 0
  pHighT T := a * T ^ 4 / 3 - ε
  pLowT T := b * T ^ 4 / 3
  eHighT T := a * T ^ 4 + ε
  eLowT T := b * T ^ 4
  wHighT T := 4 * a * T ^ 4 / 3
  wLowT T := 4 * b * T ^ 4 / 3
  dpLowT T := 4 * b * T ^ 3 / 3
  deLowT T := 4 * b * T ^ 3
  csqHighT _ := 1 / 3
  csqLowT _ := 1 / 3

theorem bag_EOSOK (a b ε : ℝ) : EOSOK (bag a b ε) where
  w_high T := by simp only [bag]; ring
  w_low T := by simp only [bag]; ring

theorem bag_hasDerivAt_pLowT (a b ε T : ℝ) :
    HasDerivAt (bag a b ε).pLowT ((bag a b ε).dpLowT T) T := by
  have h := ((hasDerivAt_pow 4 T).const_mul b).div_const 3
  refine HasDerivAt.congr_deriv (f := (bag a b ε).pLowT) h ?_
  simp only [bag]
  push_cast; ring

theorem bag_hasDerivAt_eLowT (a b ε T : ℝ) :
    HasDerivAt (bag a b ε).eLowT ((bag a b ε).deLowT T) T := by
  have h := (hasDerivAt_pow 4 T).const_mul b
  refine HasDerivAt.congr_deriv (f := (bag a b ε).eLowT) h ?_
  simp only [bag]
  push_cast; ring

theorem bag_inverseMappingT_zero (a b ε : ℝ) : inverseMappingT (bag a b ε) (0, 0) = (1, 1) := by
  simp [inverseMappingT, bag]

end Lemmas.Hydro
