/-
Helper lemmas for reasoning about `Model.Window` (`Hydrodynamics.fastestDeflag`, `Hydrodynamics.slowestDeton`,
hydrodynamics.py:176-275) over the real numbers, with `zero := 0`, `one := 1`.

Contents
* `min2 = min` on `ℝ`;
* the contract of the root finder: `RootOKOn root f` (for one function `f`: whenever the bracket is ordered and
  `f a * f b ≤ 0`, the returned point lies in the bracket and is an exact zero of `f`);
  `RootOK root` (the same for *every* function — unsatisfiable, `not_rootOK`, because a discontinuous function with a
  sign change has no zero; kept only to record that fact); `RootOKCont root` (for every continuous function —
  satisfiable, `exists_rootOKCont`, by the intermediate value theorem);
* unfolding lemmas for `cut`, `fastestDeflag`, `slowestDeton`;
* sign lemmas for products;
* `secant`: a root oracle that is exact on affine functions (`secant_rootOKOn`), and the concrete temperature
  profiles used by the non-vacuity examples of `Props/C06W.lean`.
-/
import Mathlib.Tactic
import Mathlib.Data.Real.Basic
import Mathlib.Topology.Order.IntermediateValue
import Mathlib.Topology.Instances.Real.Lemmas
import WallGoVerif.Model.Window

namespace Lemmas.Window

open Model.Window

/-! ### python `min` -/

theorem min2_eq (a b : ℝ) : min2 a b = min a b := by
  unfold min2
  split_ifs with h
  · exact (min_eq_right h.le).symm
  · exact (min_eq_left (not_lt.mp h)).symm

/-! ### the contract of the root finder -/

/-- contract of `brentq` for one function `f`: on an ordered bracket without equal strict signs at the ends the
result is in the bracket and is an exact zero -/
def RootOKOn (root : (ℝ → ℝ) → ℝ → ℝ → ℝ) (f : ℝ → ℝ) : Prop :=
  ∀ a b, a ≤ b → f a * f b ≤ 0 → a ≤ root f a b ∧ root f a b ≤ b ∧ f (root f a b) = 0

/-- the contract for every function whatsoever (unsatisfiable: `not_rootOK`) -/
def RootOK (root : (ℝ → ℝ) → ℝ → ℝ → ℝ) : Prop :=
  ∀ f a b, a ≤ b → f a * f b ≤ 0 → a ≤ root f a b ∧ root f a b ≤ b ∧ f (root f a b) = 0

/-- the contract for every continuous function (satisfiable: `exists_rootOKCont`) -/
def RootOKCont (root : (ℝ → ℝ) → ℝ → ℝ → ℝ) : Prop := ∀ f, Continuous f → RootOKOn root f

theorem RootOK.on {root : (ℝ → ℝ) → ℝ → ℝ → ℝ} (h : RootOK root) (f : ℝ → ℝ) : RootOKOn root f :=
  fun a b => h f a b

theorem RootOKCont.on {root : (ℝ → ℝ) → ℝ → ℝ → ℝ} (h : RootOKCont root) {f : ℝ → ℝ} (hf : Continuous f) :
    RootOKOn root f := h f hf

theorem RootOKCont.on_sub {root : (ℝ → ℝ) → ℝ → ℝ → ℝ} (h : RootOKCont root) {t : ℝ → ℝ} (ht : Continuous t)
    (c : ℝ) : RootOKOn root (fun v => t v - c) := h _ (ht.sub continuous_const)

/-- No root finder satisfies the contract for *all* functions: the step function `-1` on `(-∞,0]`, `+1` on `(0,∞)`
changes sign on `[0,1]` and has no zero. -/
theorem not_rootOK (root : (ℝ → ℝ) → ℝ → ℝ → ℝ) : ¬ RootOK root := by
  intro h
  have := (h (fun v => if v ≤ 0 then -1 else 1) 0 1 (by norm_num) (by norm_num)).2.2
  split_ifs at this <;> norm_num at this

/-- product `≤ 0` on an ordered bracket of a continuous function: a zero exists in the bracket -/
theorem exists_zero_of_mul_nonpos {f : ℝ → ℝ} (hf : Continuous f) {a b : ℝ} (hab : a ≤ b) (h : f a * f b ≤ 0) :
    ∃ c, a ≤ c ∧ c ≤ b ∧ f c = 0 := by
  by_cases ha0 : f a = 0
  · exact ⟨a, le_rfl, hab, ha0⟩
  by_cases hb0 : f b = 0
  · exact ⟨b, hab, le_rfl, hb0⟩
  rcases lt_or_gt_of_ne ha0 with ha | ha
  · have hb : 0 < f b := by
      rcases lt_or_gt_of_ne hb0 with hb | hb
      · nlinarith [mul_pos_of_neg_of_neg ha hb]
      · exact hb
    obtain ⟨c, hc, hc0⟩ := intermediate_value_Icc hab hf.continuousOn ⟨ha.le, hb.le⟩
    exact ⟨c, hc.1, hc.2, hc0⟩
  · have hb : f b < 0 := by
      rcases lt_or_gt_of_ne hb0 with hb | hb
      · exact hb
      · nlinarith [mul_pos ha hb]
    obtain ⟨c, hc, hc0⟩ := intermediate_value_Icc' hab hf.continuousOn ⟨hb.le, ha.le⟩
    exact ⟨c, hc.1, hc.2, hc0⟩

open Classical in
/-- A root finder satisfying the contract for every continuous function exists (intermediate value theorem). -/
theorem exists_rootOKCont : ∃ root, RootOKCont root := by
  refine ⟨fun f a b => if h : ∃ c, a ≤ c ∧ c ≤ b ∧ f c = 0 then h.choose else a, ?_⟩
  intro f hf a b hab hs
  have h := exists_zero_of_mul_nonpos hf hab hs
  simp only [dif_pos h]
  exact h.choose_spec

/-! ### signs of products -/

theorem mul_pos_iff_same_side {x y : ℝ} : 0 < x * y ↔ (0 < x ∧ 0 < y) ∨ (x < 0 ∧ y < 0) := mul_pos_iff

/-- `y ≤ 0` and `0 < x*y` force both factors strictly negative -/
theorem both_neg_of_mul_pos_of_nonpos {x y : ℝ} (hy : y ≤ 0) (h : 0 < x * y) : x < 0 ∧ y < 0 := by
  rcases mul_pos_iff.mp h with ⟨_, hy'⟩ | h'
  · exact absurd hy' (not_lt.mpr hy)
  · exact h'

/-! ### `cut` -/

section cut
variable {f : ℝ → ℝ} {root : (ℝ → ℝ) → ℝ → ℝ → ℝ} {a b vJ : ℝ} {e : Bool}

theorem cut_raise (h : 0 < f a * f b) : cut 0 f root a b vJ e = (vJ, some false) := by
  unfold cut; rw [if_pos h]

theorem cut_root (h : ¬ 0 < f a * f b) :
    cut 0 f root a b vJ e = (root f a b, if !e then some true else none) := by
  unfold cut; rw [if_neg h]

theorem cut_fst_raise (h : 0 < f a * f b) : (cut 0 f root a b vJ e).1 = vJ := by rw [cut_raise h]

theorem cut_fst_root (h : ¬ 0 < f a * f b) : (cut 0 f root a b vJ e).1 = root f a b := by rw [cut_root h]

theorem cut_fst_eq : (cut 0 f root a b vJ e).1 = if 0 < f a * f b then vJ else root f a b := by
  split_ifs with h
  · exact cut_fst_raise h
  · exact cut_fst_root h

theorem cut_snd_raise (h : 0 < f a * f b) : (cut 0 f root a b vJ e).2 = some false := by rw [cut_raise h]

theorem cut_snd_root (h : ¬ 0 < f a * f b) :
    (cut 0 f root a b vJ e).2 = if e then none else some true := by
  rw [cut_root h]; cases e <;> rfl

theorem cut_snd_eq_some_false_iff : (cut 0 f root a b vJ e).2 = some false ↔ 0 < f a * f b := by
  by_cases h : 0 < f a * f b
  · simp [cut_snd_raise h, h]
  · rw [cut_snd_root h]; cases e <;> simp [h]

theorem cut_snd_eq_some_true_iff :
    (cut 0 f root a b vJ e).2 = some true ↔ ¬ 0 < f a * f b ∧ e = false := by
  by_cases h : 0 < f a * f b
  · simp [cut_snd_raise h, h]
  · rw [cut_snd_root h]; cases e <;> simp [h]

theorem cut_snd_eq_none_iff :
    (cut 0 f root a b vJ e).2 = none ↔ ¬ 0 < f a * f b ∧ e = true := by
  by_cases h : 0 < f a * f b
  · simp [cut_snd_raise h, h]
  · rw [cut_snd_root h]; cases e <;> simp [h]

/-- the candidate of one block never exceeds `vJ` when the upper end of the bracket does not -/
theorem cut_fst_le (hok : RootOKOn root f) (hab : a ≤ b) (hb : b ≤ vJ) : (cut 0 f root a b vJ e).1 ≤ vJ := by
  by_cases h : 0 < f a * f b
  · rw [cut_fst_raise h]
  · rw [cut_fst_root h]; exact (hok a b hab (not_lt.mp h)).2.1.trans hb

/-- the candidate of one block is `vJ` or the root -/
theorem cut_fst_cases : (cut 0 f root a b vJ e).1 = vJ ∨ (cut 0 f root a b vJ e).1 = root f a b := by
  by_cases h : 0 < f a * f b
  · exact Or.inl (cut_fst_raise h)
  · exact Or.inr (cut_fst_root h)

end cut

/-! ### `fastestDeflag` -/

section deflag
variable {tp tm : ℝ → ℝ} {root : (ℝ → ℝ) → ℝ → ℝ → ℝ} {vJ vMin vLow tMaxLow tMaxHigh : ℝ} {endLow endHigh : Bool}

theorem fastestDeflag_early (h : tm (vJ - vLow) < tMaxLow ∧ tp (vJ - vLow) < tMaxHigh) :
    fastestDeflag 0 tp tm root vJ vMin vLow tMaxLow tMaxHigh endLow endHigh
      = { vmax := vJ, setHigh := none, setLow := none } := by
  unfold fastestDeflag; dsimp only; rw [if_pos h]

theorem fastestDeflag_late (h : ¬ (tm (vJ - vLow) < tMaxLow ∧ tp (vJ - vLow) < tMaxHigh)) :
    fastestDeflag 0 tp tm root vJ vMin vLow tMaxLow tMaxHigh endLow endHigh
      = { vmax := min (cut 0 (fun v => tm v - tMaxLow) root (vMin + vLow) (vJ - vLow) vJ endLow).1
                      (cut 0 (fun v => tp v - tMaxHigh) root (vMin + vLow) (vJ - vLow) vJ endHigh).1,
          setHigh := (cut 0 (fun v => tp v - tMaxHigh) root (vMin + vLow) (vJ - vLow) vJ endHigh).2,
          setLow := (cut 0 (fun v => tm v - tMaxLow) root (vMin + vLow) (vJ - vLow) vJ endLow).2 } := by
  unfold fastestDeflag; dsimp only; rw [if_neg h, min2_eq]

end deflag

/-! ### `slowestDeton` -/

section deton
variable {tm : ℝ → ℝ} {root : (ℝ → ℝ) → ℝ → ℝ → ℝ} {d pad vJ tMaxLow : ℝ}

theorem slowestDeton_one (h : tMaxLow < tm 1) : slowestDeton 0 1 d pad tm root vJ tMaxLow = 1 := by
  unfold slowestDeton; rw [if_pos h]

theorem slowestDeton_vJ (h1 : ¬ tMaxLow < tm 1) (h : 0 < (tm (vJ + d) - tMaxLow) * (tm 1 - tMaxLow)) :
    slowestDeton 0 1 d pad tm root vJ tMaxLow = vJ := by
  unfold slowestDeton; dsimp only; rw [if_neg h1, if_pos h]

theorem slowestDeton_root (h1 : ¬ tMaxLow < tm 1) (h : ¬ 0 < (tm (vJ + d) - tMaxLow) * (tm 1 - tMaxLow)) :
    slowestDeton 0 1 d pad tm root vJ tMaxLow
      = min 1 (root (fun v => tm v - tMaxLow) (vJ + d) 1 + pad) := by
  unfold slowestDeton; dsimp only; rw [if_neg h1, if_neg h, min2_eq]

end deton

/-! ### a root oracle that is exact on affine functions, and concrete profiles for the examples -/

/-- one secant step from the two ends of the bracket (exact zero of an affine function) -/
noncomputable def secant (f : ℝ → ℝ) (a b : ℝ) : ℝ := a - f a * (b - a) / (f b - f a)

/-- `secant` satisfies the contract on every non-constant affine function -/
theorem secant_rootOKOn {f : ℝ → ℝ} {m q : ℝ} (hm : m ≠ 0) (hf : ∀ v, f v = m * v + q) : RootOKOn secant f := by
  intro a b hab hs
  rcases hab.lt_or_eq with hlt | heq
  · have hba : b - a ≠ 0 := (sub_pos.mpr hlt).ne'
    have hfa : f b - f a = m * (b - a) := by rw [hf, hf]; ring
    have hval : secant f a b = -q / m := by
      unfold secant
      rw [hfa, hf]; field_simp; ring
    have hprod : (a - -q / m) * (b - -q / m) ≤ 0 := by
      have hm2 : 0 < m ^ 2 := by positivity
      have : m ^ 2 * ((a - -q / m) * (b - -q / m)) = f a * f b := by
        rw [hf, hf]; field_simp; ring
      by_contra hc
      rw [not_le] at hc
      nlinarith [mul_pos hm2 hc]
    rw [hval]
    refine ⟨?_, ?_, ?_⟩
    · by_contra hc; rw [not_le] at hc
      nlinarith [mul_pos (sub_pos.mpr hc) (sub_pos.mpr (hc.trans hlt))]
    · by_contra hc; rw [not_le] at hc
      nlinarith [mul_pos_of_neg_of_neg (sub_neg.mpr (hlt.trans hc)) (sub_neg.mpr hc)]
    · rw [hf]; field_simp; ring
  · subst heq
    have h0 : f a = 0 := by nlinarith [sq_nonneg (f a)]
    have : secant f a a = a := by unfold secant; simp
    rw [this]
    exact ⟨le_rfl, le_rfl, h0⟩

/-- `T(vw) = vw` -/
def ramp (v : ℝ) : ℝ := v
/-- `T(vw) = 1 - vw` (decreasing, as `T₋` behaves on the detonation branch) -/
def down (v : ℝ) : ℝ := 1 - v
/-- `T(vw) = 2` -/
def two (_ : ℝ) : ℝ := 2
/-- `T(vw) = 0` -/
def nil (_ : ℝ) : ℝ := 0

theorem secant_ok_ramp (c : ℝ) : RootOKOn secant (fun v => ramp v - c) :=
  secant_rootOKOn (m := 1) (q := -c) one_ne_zero (fun v => by unfold ramp; ring)

theorem secant_ok_down (c : ℝ) : RootOKOn secant (fun v => down v - c) :=
  secant_rootOKOn (m := -1) (q := 1 - c) (by norm_num) (fun v => by unfold down; ring)

/-- on a constant function the hypothesis of the contract forces the constant to be zero -/
theorem secant_ok_const (k c : ℝ) (h : k ≠ c) : RootOKOn secant (fun _ => k - c) := by
  intro a b _ hs
  exfalso
  have : 0 < (k - c) * (k - c) := mul_self_pos.mpr (sub_ne_zero.mpr h)
  exact absurd hs (not_le.mpr this)

end Lemmas.Window
