/-
Helper lemmas for reasoning about `Model.Matching` (the decision logic of `Hydrodynamics.findMatching`,
hydrodynamics.py:700-791) over the real numbers, with `zero := 0`, `one := 1`.

Contents
* discriminators `Outcome.isDetonation / isRoot / isTemplate`, `Event.kind`;
* `min2 = min`, `max2 = max`, facts about `sgn 0 1` on `ℝ`;
* the oracle contracts `RootOK`, `MinimOK` (what an ideal bracketing root finder / bounded minimiser guarantees);
* unfolding lemmas turning `upperBound` and `findMatching` into explicit `if … then … else …`;
* structural facts about `upperBound`;
* concrete instances (`mkPhys`, `constRoot`, `leftMinim`, `clampMinim`) used for the non-vacuity examples and for
  the negative result in `Props/C02M.lean`.
-/
import Mathlib.Tactic
import Mathlib.Data.Real.Basic
import WallGoVerif.Model.Matching

open Model.Matching

/-! ### Discriminators (added to the model's namespaces so that dot notation works; no model definition is changed) -/

/-- the outcome is "delegated to `matchDeton`" -/
@[simp] def Model.Matching.Outcome.isDetonation {α : Type} : Outcome α → Prop
  | .detonation => True
  | _ => False

/-- the outcome is "`matchDeflagOrHyb(vw, root)`", i.e. the model's own equation of state was used -/
@[simp] def Model.Matching.Outcome.isRoot {α : Type} : Outcome α → Prop
  | .root _ => True
  | _ => False

/-- the outcome is "`template.findMatching(vwTemplate)`", i.e. the constant-sound-speed approximation was used -/
@[simp] def Model.Matching.Outcome.isTemplate {α : Type} : Outcome α → Prop
  | .template _ => True
  | _ => False

namespace Lemmas.Matching

/-- the three kinds of solver call -/
inductive EvKind where
  | rootS | rootD | minim
  deriving DecidableEq, Repr

end Lemmas.Matching

/-- which solver an event is a call of -/
@[simp] def Model.Matching.Event.kind {α : Type} : Event α → Lemmas.Matching.EvKind
  | .rootS _ _ => .rootS
  | .rootD _ _ => .rootD
  | .minim _ _ _ => .minim

namespace Lemmas.Matching

theorem isTemplate_iff {α : Type} (x : Outcome α) : x.isTemplate ↔ ∃ v, x = .template v := by
  cases x <;> simp

theorem isRoot_iff {α : Type} (x : Outcome α) : x.isRoot ↔ ∃ v, x = .root v := by
  cases x <;> simp

theorem isDetonation_iff {α : Type} (x : Outcome α) : x.isDetonation ↔ x = .detonation := by
  cases x <;> simp

/-! ### `min2`, `max2`, `sgn` on `ℝ` -/

theorem min2_eq_min (a b : ℝ) : min2 a b = min a b := by
  unfold min2
  split_ifs with h
  · exact (min_eq_right h.le).symm
  · exact (min_eq_left (not_lt.mp h)).symm

theorem max2_eq_max (a b : ℝ) : max2 a b = max a b := by
  unfold max2
  split_ifs with h
  · exact (max_eq_right h.le).symm
  · exact (max_eq_left (not_lt.mp h)).symm

theorem sgn_of_pos {x : ℝ} (h : 0 < x) : sgn 0 1 x = 1 := by
  unfold sgn; rw [if_pos h]

theorem sgn_of_neg {x : ℝ} (h : x < 0) : sgn 0 1 x = -1 := by
  unfold sgn; rw [if_neg (not_lt.mpr h.le), if_pos h]

@[simp] theorem sgn_zero : sgn (0 : ℝ) 1 0 = 0 := by
  unfold sgn; simp

theorem sgn_eq_one_iff (x : ℝ) : sgn 0 1 x = 1 ↔ 0 < x := by
  constructor
  · intro h
    by_contra hx
    rcases lt_or_eq_of_le (not_lt.mp hx) with hx | hx
    · rw [sgn_of_neg hx] at h; norm_num at h
    · rw [hx, sgn_zero] at h; norm_num at h
  · exact sgn_of_pos

theorem sgn_eq_neg_one_iff (x : ℝ) : sgn 0 1 x = -1 ↔ x < 0 := by
  constructor
  · intro h
    by_contra hx
    rcases lt_or_eq_of_le (not_lt.mp hx) with hx | hx
    · rw [sgn_of_pos hx] at h; norm_num at h
    · rw [← hx, sgn_zero] at h; norm_num at h
  · exact sgn_of_neg

theorem sgn_eq_zero_iff (x : ℝ) : sgn 0 1 x = 0 ↔ x = 0 := by
  constructor
  · intro h
    rcases lt_trichotomy x 0 with hx | hx | hx
    · rw [sgn_of_neg hx] at h; norm_num at h
    · exact hx
    · rw [sgn_of_pos hx] at h; norm_num at h
  · rintro rfl; exact sgn_zero

theorem sgn_mul_self (x : ℝ) : sgn 0 1 x * x = |x| := by
  rcases lt_trichotomy x 0 with hx | hx | hx
  · rw [sgn_of_neg hx, abs_of_neg hx]; ring
  · subst hx; simp
  · rw [sgn_of_pos hx, abs_of_pos hx]; ring

theorem sgn_eq_signType (x : ℝ) : sgn 0 1 x = ((SignType.sign x : SignType) : ℝ) := by
  rcases lt_trichotomy x 0 with hx | hx | hx
  · rw [sgn_of_neg hx, sign_neg hx]; simp
  · subst hx; simp
  · rw [sgn_of_pos hx, sign_pos hx]; simp

/-! ### Oracle contracts -/

/-- what an ideal bracketing root finder guarantees: on a bracket with a sign change (or a zero at an end) it returns
a zero of `f` inside the bracket -/
def RootOK (f : ℝ → ℝ) (root : ℝ → ℝ → ℝ) : Prop :=
  ∀ a b, a ≤ b → f a * f b ≤ 0 → a ≤ root a b ∧ root a b ≤ b ∧ f (root a b) = 0

/-- what a bounded scalar minimiser guarantees at the very least: the returned point is inside the bounds and the
returned value is the objective `σ·D` at that point (nothing is assumed about optimality) -/
def MinimOK (D : ℝ → ℝ) (minim : ℝ → ℝ → ℝ → ℝ × ℝ) : Prop :=
  ∀ σ a b, a ≤ b → a ≤ (minim σ a b).1 ∧ (minim σ a b).1 ≤ b ∧ (minim σ a b).2 = σ * D (minim σ a b).1

/-! ### The first guess of the upper bound -/

/-- `min vw (csqHighTn / vw) ≤ vw` -/
theorem vpmax0_le_vw (p : Phys ℝ) (vw : ℝ) : min vw (p.csqHighTn / vw) ≤ vw := min_le_left _ _

/-! ### Unfolding `upperBound` -/

/-- the condition under which lines 743-756 re-evaluate `vpmax` -/
def Refined (p : Phys ℝ) (vw vLow : ℝ) : Prop :=
  0 < D p vLow * D p (min vw (p.csqHighTn / vw)) ∧
    S p vw vw * S p vw (min vw (p.csqHighTn / vw)) ≤ 0

theorem upperBound_eq (p : Phys ℝ) (o : Oracles ℝ) (vw vLow : ℝ) :
    upperBound p o 0 vw vLow =
      if 0 < D p vLow * D p (min vw (p.csqHighTn / vw)) ∧
          S p vw vw * S p vw (min vw (p.csqHighTn / vw)) ≤ 0 then
        (D p vLow, o.rootS (min vw (p.csqHighTn / vw)) vw,
          D p (o.rootS (min vw (p.csqHighTn / vw)) vw), [Event.rootS (min vw (p.csqHighTn / vw)) vw])
      else (D p vLow, min vw (p.csqHighTn / vw), D p (min vw (p.csqHighTn / vw)), []) := by
  unfold upperBound
  simp only [min2_eq_min]
  split_ifs <;> simp_all

theorem upperBound_refined {p : Phys ℝ} {vw vLow : ℝ} (o : Oracles ℝ) (h : Refined p vw vLow) :
    upperBound p o 0 vw vLow =
      (D p vLow, o.rootS (min vw (p.csqHighTn / vw)) vw,
        D p (o.rootS (min vw (p.csqHighTn / vw)) vw), [Event.rootS (min vw (p.csqHighTn / vw)) vw]) := by
  unfold Refined at h; rw [upperBound_eq, if_pos h]

theorem upperBound_not_refined {p : Phys ℝ} {vw vLow : ℝ} (o : Oracles ℝ) (h : ¬ Refined p vw vLow) :
    upperBound p o 0 vw vLow =
      (D p vLow, min vw (p.csqHighTn / vw), D p (min vw (p.csqHighTn / vw)), []) := by
  unfold Refined at h; rw [upperBound_eq, if_neg h]

/-- a sign change on the first bracket means no refinement -/
theorem not_refined_of_bracketed {p : Phys ℝ} {vw vLow : ℝ}
    (h : D p vLow * D p (min vw (p.csqHighTn / vw)) ≤ 0) : ¬ Refined p vw vLow :=
  fun hr => absurd hr.1 (not_lt.mpr h)

/-- `shockTnuclDiffMin` is `D vLow` -/
theorem upperBound_fst (p : Phys ℝ) (o : Oracles ℝ) (vw vLow : ℝ) :
    (upperBound p o 0 vw vLow).1 = D p vLow := by
  rw [upperBound_eq]; split_ifs <;> rfl

/-- `shockTnuclDiffMax` is always `D` at the current `vpmax` (line 756 keeps them in step) -/
theorem upperBound_dmax (p : Phys ℝ) (o : Oracles ℝ) (vw vLow : ℝ) :
    (upperBound p o 0 vw vLow).2.2.1 = D p (upperBound p o 0 vw vLow).2.1 := by
  rw [upperBound_eq]; split_ifs <;> rfl

/-- the refined upper bound is either the first guess or what `rootS` returned on `[vpmax0, vw]` -/
theorem upperBound_vpmax_cases (p : Phys ℝ) (o : Oracles ℝ) (vw vLow : ℝ) :
    (Refined p vw vLow ∧
        (upperBound p o 0 vw vLow).2.1 = o.rootS (min vw (p.csqHighTn / vw)) vw ∧
        (upperBound p o 0 vw vLow).2.2.2 = [Event.rootS (min vw (p.csqHighTn / vw)) vw]) ∨
      (¬ Refined p vw vLow ∧
        (upperBound p o 0 vw vLow).2.1 = min vw (p.csqHighTn / vw) ∧
        (upperBound p o 0 vw vLow).2.2.2 = []) := by
  by_cases h : Refined p vw vLow
  · left; rw [upperBound_refined o h]; exact ⟨h, rfl, rfl⟩
  · right; rw [upperBound_not_refined o h]; exact ⟨h, rfl, rfl⟩

/-- range of the refined bound under the root-finder contract -/
theorem upperBound_vpmax_range {p : Phys ℝ} {o : Oracles ℝ} {vw : ℝ} (vLow : ℝ)
    (hS : RootOK (S p vw) o.rootS) :
    min vw (p.csqHighTn / vw) ≤ (upperBound p o 0 vw vLow).2.1 ∧ (upperBound p o 0 vw vLow).2.1 ≤ vw := by
  rcases upperBound_vpmax_cases p o vw vLow with ⟨hr, hv, -⟩ | ⟨-, hv, -⟩
  · rw [hv]
    have h := hS _ _ (vpmax0_le_vw p vw) (by rw [mul_comm]; exact hr.2)
    exact ⟨h.1, h.2.1⟩
  · rw [hv]; exact ⟨le_rfl, vpmax0_le_vw p vw⟩

/-! ### Unfolding `findMatching` -/

theorem findMatching_eq (p : Phys ℝ) (o : Oracles ℝ) (eps vw vJ vJt vLow : ℝ) :
    findMatching p o 0 1 eps vw vJ vJt vLow =
      if vJ < vw then (.detonation, [])
      else if (upperBound p o 0 vw vLow).1 * (upperBound p o 0 vw vLow).2.2.1 ≤ 0 then
        (.root (o.rootD vLow (upperBound p o 0 vw vLow).2.1),
          (upperBound p o 0 vw vLow).2.2.2 ++ [Event.rootD vLow (upperBound p o 0 vw vLow).2.1])
      else if 0 < (o.minim (sgn 0 1 (upperBound p o 0 vw vLow).2.2.1) vLow (upperBound p o 0 vw vLow).2.1).2 then
        (.template (min vw (vJt - eps)),
          (upperBound p o 0 vw vLow).2.2.2 ++
            [Event.minim (sgn 0 1 (upperBound p o 0 vw vLow).2.2.1) vLow (upperBound p o 0 vw vLow).2.1])
      else
        (.root (o.rootD vLow
            (o.minim (sgn 0 1 (upperBound p o 0 vw vLow).2.2.1) vLow (upperBound p o 0 vw vLow).2.1).1),
          (upperBound p o 0 vw vLow).2.2.2 ++
            [Event.minim (sgn 0 1 (upperBound p o 0 vw vLow).2.2.1) vLow (upperBound p o 0 vw vLow).2.1] ++
            [Event.rootD vLow
              (o.minim (sgn 0 1 (upperBound p o 0 vw vLow).2.2.1) vLow (upperBound p o 0 vw vLow).2.1).1]) := by
  unfold findMatching
  by_cases hdet : vJ < vw
  · simp only [if_pos hdet]
  · simp only [if_neg hdet, if_pos (not_lt.mp hdet), min2_eq_min]


/-! ### Sign bookkeeping used by the minimiser branch -/

/-- if the ends have the same strict sign and `sgn(b)·dx > 0` then all three numbers have the same strict sign -/
theorem same_sign_of_pos {a b dx : ℝ} (h1 : 0 < a * b) (h2 : 0 < sgn 0 1 b * dx) :
    (0 < a ∧ 0 < b ∧ 0 < dx) ∨ (a < 0 ∧ b < 0 ∧ dx < 0) := by
  rcases pos_and_pos_or_neg_and_neg_of_mul_pos h1 with ⟨ha, hb⟩ | ⟨ha, hb⟩
  · left; rw [sgn_of_pos hb] at h2; exact ⟨ha, hb, by linarith⟩
  · right; rw [sgn_of_neg hb] at h2; exact ⟨ha, hb, by linarith⟩

/-- if the ends have the same strict sign and `sgn(b)·dx ≤ 0` then `[a-end, x]` is a valid bracket -/
theorem bracket_of_nonpos {a b dx : ℝ} (h1 : 0 < a * b) (h2 : sgn 0 1 b * dx ≤ 0) : a * dx ≤ 0 := by
  rcases pos_and_pos_or_neg_and_neg_of_mul_pos h1 with ⟨ha, hb⟩ | ⟨ha, hb⟩
  · rw [sgn_of_pos hb] at h2
    exact mul_nonpos_of_nonneg_of_nonpos ha.le (by linarith)
  · rw [sgn_of_neg hb] at h2
    exact mul_nonpos_of_nonpos_of_nonneg ha.le (by linarith)

/-! ### Concrete instances (for non-vacuity examples and for the negative result) -/

/-- a `Phys` whose `shockTnuclDiff` is the given function `d`, with constant `csqHigh = cs` along the `T₊` branch and
`csqHighT(Tn) = csTn` -/
def mkPhys (d : ℝ → ℝ) (csTn cs : ℝ) : Phys ℝ where
  tp := fun _ => 1
  shock := fun vp _ => 1 + d vp
  csqHigh := fun _ => cs
  Tn := 1
  csqHighTn := csTn

@[simp] theorem D_mkPhys (d : ℝ → ℝ) (csTn cs vp : ℝ) : D (mkPhys d csTn cs) vp = d vp := by
  simp [D, mkPhys]

@[simp] theorem S_mkPhys (d : ℝ → ℝ) (csTn cs vw vp : ℝ) : S (mkPhys d csTn cs) vw vp = vp - cs / vw := by
  simp [S, mkPhys]

@[simp] theorem csqHighTn_mkPhys (d : ℝ → ℝ) (csTn cs : ℝ) : (mkPhys d csTn cs).csqHighTn = csTn := rfl

/-- the bounded "minimiser" that returns the left end of the bounds (admissible under `MinimOK`) -/
def leftMinim (d : ℝ → ℝ) : ℝ → ℝ → ℝ → ℝ × ℝ := fun σ a _ => (a, σ * d a)

theorem minimOK_leftMinim (d : ℝ → ℝ) : MinimOK d (leftMinim d) := by
  intro σ a b hab
  exact ⟨le_rfl, hab, rfl⟩

/-- the bounded "minimiser" that returns the point `c` clamped to the bounds -/
def clampMinim (d : ℝ → ℝ) (c : ℝ) : ℝ → ℝ → ℝ → ℝ × ℝ :=
  fun σ a b => (max a (min b c), σ * d (max a (min b c)))

theorem minimOK_clampMinim (d : ℝ → ℝ) (c : ℝ) : MinimOK d (clampMinim d c) := by
  intro σ a b hab
  exact ⟨le_max_left _ _, max_le hab (min_le_left _ _), rfl⟩

/-- for `f x = x - c` the constant function `c` is an ideal root finder -/
theorem rootOK_const (c : ℝ) : RootOK (fun x => x - c) (fun _ _ => c) := by
  intro a b hab h
  refine ⟨?_, ?_, sub_self c⟩
  · by_contra hc
    have h1 : 0 < a - c := by linarith [not_le.mp hc]
    have h2 : 0 < b - c := by linarith
    have := mul_pos h1 h2
    linarith
  · by_contra hc
    have h2 : b - c < 0 := by linarith [not_le.mp hc]
    have h1 : a - c < 0 := by linarith
    have := mul_pos_of_neg_of_neg h1 h2
    linarith

/-- the linear residual `d x = x - r` -/
def linD (r : ℝ) : ℝ → ℝ := fun x => x - r

/-- the quadratic residual with zeros `1/4` and `3/8` -/
noncomputable def quadD : ℝ → ℝ := fun x => (x - 1/4) * (x - 3/8)

/-- oracles: exact roots `c` of `S` and `r` of `D`, and a given minimiser -/
def mkOracles (c r : ℝ) (m : ℝ → ℝ → ℝ → ℝ × ℝ) : Oracles ℝ where
  rootS := fun _ _ => c
  rootD := fun _ _ => r
  minim := m

theorem rootOK_S_mkPhys (d : ℝ → ℝ) (csTn cs vw r : ℝ) (m : ℝ → ℝ → ℝ → ℝ × ℝ) :
    RootOK (S (mkPhys d csTn cs) vw) (mkOracles (cs / vw) r m).rootS := by
  have : S (mkPhys d csTn cs) vw = fun x => x - cs / vw := by funext x; simp
  rw [this]; exact rootOK_const _

theorem rootOK_D_lin (csTn cs c r : ℝ) (m : ℝ → ℝ → ℝ → ℝ × ℝ) :
    RootOK (D (mkPhys (linD r) csTn cs)) (mkOracles c r m).rootD := by
  have : D (mkPhys (linD r) csTn cs) = fun x => x - r := by funext x; simp [linD]
  rw [this]; exact rootOK_const _

theorem minimOK_mkPhys_left (d : ℝ → ℝ) (csTn cs : ℝ) :
    MinimOK (D (mkPhys d csTn cs)) (leftMinim d) := by
  have : D (mkPhys d csTn cs) = d := by funext x; simp
  rw [this]; exact minimOK_leftMinim d

theorem minimOK_mkPhys_clamp (d : ℝ → ℝ) (csTn cs c : ℝ) :
    MinimOK (D (mkPhys d csTn cs)) (clampMinim d c) := by
  have : D (mkPhys d csTn cs) = d := by funext x; simp
  rw [this]; exact minimOK_clampMinim d c

/-- an ideal bracketing root finder for `quadD` -/
noncomputable def quadRoot : ℝ → ℝ → ℝ := fun a b => if a ≤ 1/4 ∧ 1/4 ≤ b then 1/4 else 3/8

theorem rootOK_quadRoot : RootOK quadD quadRoot := by
  intro a b hab h
  unfold quadRoot
  by_cases hc : a ≤ 1/4 ∧ 1/4 ≤ b
  · rw [if_pos hc]; exact ⟨hc.1, hc.2, by norm_num [quadD]⟩
  · rw [if_neg hc]
    unfold quadD at h
    have hcases : b < 1/4 ∨ 1/4 < a := by
      by_contra hn
      push Not at hn
      exact hc ⟨hn.2, hn.1⟩
    rcases hcases with hb | ha
    · exfalso
      have h1 : 0 < (1/4 - a) * (1/4 - b) := mul_pos (by linarith) (by linarith)
      have h2 : 0 < (3/8 - a) * (3/8 - b) := mul_pos (by linarith) (by linarith)
      have := mul_pos h1 h2
      nlinarith
    · have h1 : 0 < (a - 1/4) * (b - 1/4) := mul_pos (by linarith) (by linarith)
      have h3 : (a - 3/8) * (b - 3/8) ≤ 0 := by
        by_contra hn
        have := mul_pos h1 (not_le.mp hn)
        nlinarith
      refine ⟨?_, ?_, by norm_num [quadD]⟩
      · by_contra hn
        have := mul_pos (show 0 < a - 3/8 by linarith [not_le.mp hn]) (show 0 < b - 3/8 by linarith [not_le.mp hn])
        linarith
      · by_contra hn
        have := mul_pos_of_neg_of_neg (show a - 3/8 < 0 by linarith [not_le.mp hn])
          (show b - 3/8 < 0 by linarith [not_le.mp hn])
        linarith

/-! #### Instance A: linear residual, sign change on the first bracket (deflagration, `vw = 1/2 < c_s`) -/

noncomputable def pA : Phys ℝ := mkPhys (linD (1/4)) (1/3) (1/3)
noncomputable def oA : Oracles ℝ := mkOracles (2/3) (1/4) (leftMinim (linD (1/4)))

theorem ubA : upperBound pA oA 0 (1/2) (1/100) = (-(6/25), 1/2, 1/4, []) := by
  rw [upperBound_eq]
  simp only [pA, oA, D_mkPhys, S_mkPhys, csqHighTn_mkPhys]
  norm_num [linD]

theorem fmA (eps : ℝ) :
    findMatching pA oA 0 1 eps (1/2) (3/4) (7/10) (1/100) = (.root (1/4), [Event.rootD (1/100) (1/2)]) := by
  rw [findMatching_eq, ubA]
  norm_num [oA, mkOracles]

/-! #### Instance B: linear residual, no sign change on the first bracket, `vpmax` re-evaluated (hybrid, `vw = 2/3`) -/

noncomputable def pB : Phys ℝ := mkPhys (linD (7/16)) (1/4) (1/3)
noncomputable def oB : Oracles ℝ := mkOracles ((1/3) / (2/3)) (7/16) (leftMinim (linD (7/16)))

theorem refinedB : Refined pB (2/3) (1/100) := by
  unfold Refined
  simp only [pB, D_mkPhys, S_mkPhys, csqHighTn_mkPhys]
  norm_num [linD]

theorem ubB : upperBound pB oB 0 (2/3) (1/100) = (-(171/400), 1/2, 1/16, [Event.rootS (3/8) (2/3)]) := by
  rw [upperBound_refined oB refinedB]
  simp only [pB, oB, mkOracles, D_mkPhys, csqHighTn_mkPhys]
  norm_num [linD]

theorem fmB (eps : ℝ) :
    findMatching pB oB 0 1 eps (2/3) (3/4) (7/10) (1/100) =
      (.root (7/16), [Event.rootS (3/8) (2/3), Event.rootD (1/100) (1/2)]) := by
  rw [findMatching_eq, ubB]
  norm_num [oB, mkOracles]

/-! #### Instance C: quadratic residual with two interior zeros, minimiser returns the left end → template -/

noncomputable def pC : Phys ℝ := mkPhys quadD (1/3) (1/3)
noncomputable def oC : Oracles ℝ := mkOracles ((1/3) / (1/2)) (1/4) (leftMinim quadD)
/-- same as `oC` but with the ideal root finder `quadRoot` for `D` -/
noncomputable def oC' : Oracles ℝ where
  rootS := fun _ _ => (1/3) / (1/2)
  rootD := quadRoot
  minim := leftMinim quadD

theorem ubC (o : Oracles ℝ) : upperBound pC o 0 (1/2) (1/100) = (87/1000 + 3/5000, 1/2, 1/32, []) := by
  rw [upperBound_eq]
  simp only [pC, D_mkPhys, S_mkPhys, csqHighTn_mkPhys]
  norm_num [quadD]

theorem fmC :
    findMatching pC oC 0 1 (1/1000000) (1/2) (3/4) (7/10) (1/100) =
      (.template (1/2), [Event.minim 1 (1/100) (1/2)]) := by
  rw [findMatching_eq, ubC]
  have hs : sgn (0:ℝ) 1 (1/32) = 1 := sgn_of_pos (by norm_num)
  simp only [hs]
  norm_num [oC, mkOracles, leftMinim, quadD]

theorem fmC' :
    findMatching pC oC' 0 1 (1/1000000) (1/2) (3/4) (7/10) (1/100) =
      (.template (1/2), [Event.minim 1 (1/100) (1/2)]) := by
  rw [findMatching_eq, ubC]
  have hs : sgn (0:ℝ) 1 (1/32) = 1 := sgn_of_pos (by norm_num)
  simp only [hs]
  norm_num [oC', leftMinim, quadD]

/-! #### Instance E: same residual, minimiser returns the (clamped) point `5/16` inside the dip → exact root -/

noncomputable def oE : Oracles ℝ := mkOracles ((1/3) / (1/2)) (1/4) (clampMinim quadD (5/16))

theorem fmE (eps : ℝ) :
    findMatching pC oE 0 1 eps (1/2) (3/4) (7/10) (1/100) =
      (.root (1/4), [Event.minim 1 (1/100) (1/2), Event.rootD (1/100) (5/16)]) := by
  rw [findMatching_eq, ubC]
  have hs : sgn (0:ℝ) 1 (1/32) = 1 := sgn_of_pos (by norm_num)
  simp only [hs]
  norm_num [oE, mkOracles, clampMinim, quadD]

end Lemmas.Matching
