/-
Helper lemmas for property C10 (equation of state, `Thermodynamics` in
`src/WallGo/thermodynamics.py`, generated copy in `Gen/R/Thermo.lean`).

Organisation
* `pw`        : the three-branch "below / above / inside the tabulated range" shape shared by
                `p`, `dp`, `ddp`, `csq`, with generic continuity / derivative lemmas.
* `plP …`     : the template-model power laws used in the extrapolated regions, their derivatives,
                and the *matching* lemmas (the values chosen by `setExtrapolate` make value, first and
                second derivative agree at the boundary).
* `Phase`     : a one-phase record; `highPhase s` / `lowPhase s` view a `ThermoP` as two `Phase`s, and the
                generated `pHighT s`, … are *definitionally* `(highPhase s).p`, … (lemmas `pHighT_eq` …).
* `Extrapolated s`, `WF s` : "`s` is the state left by `setExtrapolate`", and the side conditions.
-/
import WallGoVerif.Gen.R.Thermo
import Mathlib.Tactic
import Mathlib.Analysis.SpecialFunctions.Pow.Deriv
import Mathlib.Analysis.SpecialFunctions.Pow.Continuity
import Mathlib.Analysis.Calculus.Deriv.Basic
import Mathlib.Topology.Order.LeftRight

namespace Lemmas.Thermo

open Set Filter Topology

/-! ## The three-branch shape -/

/-- `if T < TMin then gL T else if T > TMax then gR T else h T` -/
noncomputable def pw (TMin TMax : ℝ) (gL gR h : ℝ → ℝ) (T : ℝ) : ℝ :=
  if T < TMin then gL T else if T > TMax then gR T else h T

section pw
variable {TMin TMax : ℝ} {gL gR h : ℝ → ℝ} {T : ℝ}

theorem pw_of_lt (hT : T < TMin) : pw TMin TMax gL gR h T = gL T := by
  simp [pw, hT]

theorem pw_of_gt (hle : TMin ≤ TMax) (hT : TMax < T) : pw TMin TMax gL gR h T = gR T := by
  have : ¬ T < TMin := not_lt.mpr (hle.trans hT.le)
  simp [pw, this, hT]

theorem pw_of_mem (h1 : TMin ≤ T) (h2 : T ≤ TMax) : pw TMin TMax gL gR h T = h T := by
  simp [pw, not_lt.mpr h1, not_lt.mpr h2]

theorem pw_TMin (hle : TMin ≤ TMax) : pw TMin TMax gL gR h TMin = h TMin :=
  pw_of_mem le_rfl hle

theorem pw_TMax (hle : TMin ≤ TMax) : pw TMin TMax gL gR h TMax = h TMax :=
  pw_of_mem hle le_rfl

theorem pw_eventuallyEq_of_lt (hT : T < TMin) : pw TMin TMax gL gR h =ᶠ[𝓝 T] gL := by
  filter_upwards [Iio_mem_nhds hT] with x hx using pw_of_lt hx

theorem pw_eventuallyEq_of_gt (hle : TMin ≤ TMax) (hT : TMax < T) :
    pw TMin TMax gL gR h =ᶠ[𝓝 T] gR := by
  filter_upwards [Ioi_mem_nhds hT] with x hx using pw_of_gt hle hx

theorem pw_eventuallyEq_of_mem (h1 : TMin < T) (h2 : T < TMax) :
    pw TMin TMax gL gR h =ᶠ[𝓝 T] h := by
  filter_upwards [Ioo_mem_nhds h1 h2] with x hx using pw_of_mem hx.1.le hx.2.le

/-- left limit at `TMin` -/
theorem pw_tendsto_left_TMin (hle : TMin ≤ TMax) (hc : ContinuousAt gL TMin)
    (hm : gL TMin = h TMin) :
    Tendsto (pw TMin TMax gL gR h) (𝓝[<] TMin) (𝓝 (pw TMin TMax gL gR h TMin)) := by
  rw [pw_TMin hle, ← hm]
  refine (hc.tendsto.mono_left nhdsWithin_le_nhds).congr' ?_
  filter_upwards [self_mem_nhdsWithin] with x hx using (pw_of_lt hx).symm

/-- right limit at `TMax` -/
theorem pw_tendsto_right_TMax (hle : TMin ≤ TMax) (hc : ContinuousAt gR TMax)
    (hm : gR TMax = h TMax) :
    Tendsto (pw TMin TMax gL gR h) (𝓝[>] TMax) (𝓝 (pw TMin TMax gL gR h TMax)) := by
  rw [pw_TMax hle, ← hm]
  refine (hc.tendsto.mono_left nhdsWithin_le_nhds).congr' ?_
  filter_upwards [self_mem_nhdsWithin] with x hx using (pw_of_gt hle hx).symm

theorem pw_continuousWithinAt_Ici_TMin (hlt : TMin < TMax)
    (hh : ContinuousWithinAt h (Ici TMin) TMin) :
    ContinuousWithinAt (pw TMin TMax gL gR h) (Ici TMin) TMin := by
  refine hh.congr_of_eventuallyEq ?_ (pw_TMin hlt.le)
  filter_upwards [Icc_mem_nhdsGE hlt] with x hx using pw_of_mem hx.1 hx.2

theorem pw_continuousWithinAt_Iic_TMax (hlt : TMin < TMax)
    (hh : ContinuousWithinAt h (Iic TMax) TMax) :
    ContinuousWithinAt (pw TMin TMax gL gR h) (Iic TMax) TMax := by
  refine hh.congr_of_eventuallyEq ?_ (pw_TMax hlt.le)
  filter_upwards [Icc_mem_nhdsLE hlt] with x hx using pw_of_mem hx.1 hx.2

theorem pw_continuousAt_TMin (hlt : TMin < TMax) (hc : ContinuousAt gL TMin)
    (hm : gL TMin = h TMin) (hh : ContinuousWithinAt h (Ici TMin) TMin) :
    ContinuousAt (pw TMin TMax gL gR h) TMin := by
  rw [continuousAt_iff_continuous_left'_right']
  refine ⟨pw_tendsto_left_TMin hlt.le hc hm, ?_⟩
  rw [continuousWithinAt_Ioi_iff_Ici]
  exact pw_continuousWithinAt_Ici_TMin hlt hh

theorem pw_continuousAt_TMax (hlt : TMin < TMax) (hc : ContinuousAt gR TMax)
    (hm : gR TMax = h TMax) (hh : ContinuousWithinAt h (Iic TMax) TMax) :
    ContinuousAt (pw TMin TMax gL gR h) TMax := by
  rw [continuousAt_iff_continuous_left'_right']
  refine ⟨?_, pw_tendsto_right_TMax hlt.le hc hm⟩
  rw [continuousWithinAt_Iio_iff_Iic]
  exact pw_continuousWithinAt_Iic_TMax hlt hh

theorem pw_hasDerivAt_of_lt {g' : ℝ} (hT : T < TMin) (hg : HasDerivAt gL g' T) :
    HasDerivAt (pw TMin TMax gL gR h) g' T :=
  hg.congr_of_eventuallyEq (pw_eventuallyEq_of_lt hT)

theorem pw_hasDerivAt_of_gt {g' : ℝ} (hle : TMin ≤ TMax) (hT : TMax < T)
    (hg : HasDerivAt gR g' T) : HasDerivAt (pw TMin TMax gL gR h) g' T :=
  hg.congr_of_eventuallyEq (pw_eventuallyEq_of_gt hle hT)

theorem pw_hasDerivAt_of_mem {h' : ℝ} (h1 : TMin < T) (h2 : T < TMax)
    (hh : HasDerivAt h h' T) : HasDerivAt (pw TMin TMax gL gR h) h' T :=
  hh.congr_of_eventuallyEq (pw_eventuallyEq_of_mem h1 h2)

/-- two-sided derivative AT `TMin`: the outer branch is differentiable there with derivative `d`,
matches the inner branch in value, and the inner branch has right derivative `d`. -/
theorem pw_hasDerivAt_TMin {d : ℝ} (hlt : TMin < TMax) (hg : HasDerivAt gL d TMin)
    (hm : gL TMin = h TMin) (hh : HasDerivWithinAt h d (Ici TMin) TMin) :
    HasDerivAt (pw TMin TMax gL gR h) d TMin := by
  have hL : HasDerivWithinAt (pw TMin TMax gL gR h) d (Iic TMin) TMin := by
    refine hg.hasDerivWithinAt.congr ?_ ((pw_TMin hlt.le).trans hm.symm)
    intro x hx
    rcases (mem_Iic.mp hx).lt_or_eq with hx | rfl
    · exact pw_of_lt hx
    · exact (pw_TMin hlt.le).trans hm.symm
  have hR : HasDerivWithinAt (pw TMin TMax gL gR h) d (Ici TMin) TMin := by
    refine hh.congr_of_eventuallyEq ?_ (pw_TMin hlt.le)
    filter_upwards [Icc_mem_nhdsGE hlt] with x hx using pw_of_mem hx.1 hx.2
  have := hL.union hR
  rwa [Iic_union_Ici, hasDerivWithinAt_univ] at this

theorem pw_hasDerivAt_TMax {d : ℝ} (hlt : TMin < TMax) (hg : HasDerivAt gR d TMax)
    (hm : gR TMax = h TMax) (hh : HasDerivWithinAt h d (Iic TMax) TMax) :
    HasDerivAt (pw TMin TMax gL gR h) d TMax := by
  have hR : HasDerivWithinAt (pw TMin TMax gL gR h) d (Ici TMax) TMax := by
    refine hg.hasDerivWithinAt.congr ?_ ((pw_TMax hlt.le).trans hm.symm)
    intro x hx
    rcases (mem_Ici.mp hx).lt_or_eq with hx | rfl
    · exact pw_of_gt hlt.le hx
    · exact (pw_TMax hlt.le).trans hm.symm
  have hL : HasDerivWithinAt (pw TMin TMax gL gR h) d (Iic TMax) TMax := by
    refine hh.congr_of_eventuallyEq ?_ (pw_TMax hlt.le)
    filter_upwards [Icc_mem_nhdsLE hlt] with x hx using pw_of_mem hx.1 hx.2
  have := hL.union hR
  rwa [Iic_union_Ici, hasDerivWithinAt_univ] at this

end pw

/-! ## Template-model power laws (extrapolated regions) -/

/-- `1/3 · a · T^mu − eps` -/
noncomputable def plP (a mu eps T : ℝ) : ℝ := 1 / 3 * a * T ^ mu - eps
/-- `1/3 · mu · a · T^(mu−1)` -/
noncomputable def plDP (a mu T : ℝ) : ℝ := 1 / 3 * mu * a * T ^ (mu - 1)
/-- `1/3 · mu · (mu−1) · a · T^(mu−2)` -/
noncomputable def plDDP (a mu T : ℝ) : ℝ := 1 / 3 * mu * (mu - 1) * a * T ^ (mu - 2)

section pl
variable {a mu eps T : ℝ}

theorem hasDerivAt_plP (hT : T ≠ 0) : HasDerivAt (plP a mu eps) (plDP a mu T) T := by
  have h := ((Real.hasDerivAt_rpow_const (p := mu) (Or.inl hT)).const_mul (1 / 3 * a)).sub_const eps
  have e : 1 / 3 * a * (mu * T ^ (mu - 1)) = plDP a mu T := by unfold plDP; ring
  rw [e] at h
  exact h

theorem hasDerivAt_plDP (hT : T ≠ 0) : HasDerivAt (plDP a mu) (plDDP a mu T) T := by
  have h := (Real.hasDerivAt_rpow_const (p := mu - 1) (Or.inl hT)).const_mul (1 / 3 * mu * a)
  have e : 1 / 3 * mu * a * ((mu - 1) * T ^ (mu - 1 - 1)) = plDDP a mu T := by
    unfold plDDP; rw [show mu - 1 - 1 = mu - 2 by ring]; ring
  rw [e] at h
  exact h

theorem continuousAt_plP (hT : T ≠ 0) : ContinuousAt (plP a mu eps) T :=
  (hasDerivAt_plP hT).continuousAt

theorem continuousAt_plDP (hT : T ≠ 0) : ContinuousAt (plDP a mu) T :=
  (hasDerivAt_plDP hT).continuousAt

theorem continuousAt_plDDP (hT : T ≠ 0) : ContinuousAt (plDDP a mu) T :=
  continuousAt_const.mul (Real.continuousAt_rpow_const T (mu - 2) (Or.inl hT))

/-- value matching: needs only the definition of `eps`. -/
theorem pl_match_p {T0 p0 : ℝ} (heps : eps = 1 / 3 * a * T0 ^ mu - p0) :
    plP a mu eps T0 = p0 := by
  unfold plP; rw [heps]; ring

/-- `mu = 1 + 1/csq` is `(dp + de)/dp`. -/
theorem mu_eq {T0 dp0 ddp0 : ℝ} (hdp : dp0 ≠ 0)
    (hmu : mu = 1 + 1 / (dp0 / (T0 * ddp0))) : mu = (dp0 + T0 * ddp0) / dp0 := by
  rw [hmu, one_div_div]; field_simp

theorem mu_ne_zero {T0 dp0 ddp0 : ℝ} (hdp : dp0 ≠ 0) (hdw : dp0 + T0 * ddp0 ≠ 0)
    (hmu : mu = 1 + 1 / (dp0 / (T0 * ddp0))) : mu ≠ 0 := by
  rw [mu_eq hdp hmu]; exact div_ne_zero hdw hdp

theorem mu_sub_one {T0 dp0 ddp0 : ℝ}
    (hmu : mu = 1 + 1 / (dp0 / (T0 * ddp0))) : mu - 1 = T0 * ddp0 / dp0 := by
  rw [hmu, one_div_div]; ring

/-- first-derivative matching. -/
theorem pl_match_dp {T0 dp0 : ℝ} (hT0 : 0 < T0) (hmu0 : mu ≠ 0)
    (ha : a = 3 * (T0 * dp0) / (mu * T0 ^ mu)) :
    plDP a mu T0 = dp0 := by
  have hP : T0 ^ mu ≠ 0 := (Real.rpow_pos_of_pos hT0 mu).ne'
  unfold plDP
  rw [Real.rpow_sub_one hT0.ne', ha]
  field_simp

/-- second-derivative matching. -/
theorem pl_match_ddp {T0 dp0 ddp0 : ℝ} (hT0 : 0 < T0) (hdp : dp0 ≠ 0) (hmu0 : mu ≠ 0)
    (hmu : mu = 1 + 1 / (dp0 / (T0 * ddp0)))
    (ha : a = 3 * (T0 * dp0) / (mu * T0 ^ mu)) :
    plDDP a mu T0 = ddp0 := by
  have hP : T0 ^ mu ≠ 0 := (Real.rpow_pos_of_pos hT0 mu).ne'
  unfold plDDP
  rw [Real.rpow_sub hT0, Real.rpow_two, mu_sub_one hmu, ha]
  field_simp

theorem a_ne_zero {T0 dp0 : ℝ} (hT0 : 0 < T0) (hdp : dp0 ≠ 0) (hmu0 : mu ≠ 0)
    (ha : a = 3 * (T0 * dp0) / (mu * T0 ^ mu)) : a ≠ 0 := by
  have hP : T0 ^ mu ≠ 0 := (Real.rpow_pos_of_pos hT0 mu).ne'
  rw [ha]; positivity

/-- on the power law, `dp / (T·ddp) = 1/(mu−1)` at every `T > 0`. -/
theorem pl_ratio (hT : 0 < T) (hmu0 : mu ≠ 0) (ha0 : a ≠ 0) :
    plDP a mu T / (T * plDDP a mu T) = 1 / (mu - 1) := by
  have hQ : T ^ (mu - 2) ≠ 0 := (Real.rpow_pos_of_pos hT _).ne'
  have e : T ^ (mu - 1) = T ^ (mu - 2) * T := by
    rw [show mu - 1 = (mu - 2) + 1 by ring, Real.rpow_add_one hT.ne']
  unfold plDP plDDP
  rw [e]
  by_cases h1 : mu - 1 = 0
  · simp [h1]
  · field_simp

/-- on the power law, `T·ddp ≠ 0` when `mu ∉ {0,1}`, `a ≠ 0`, `T > 0`. -/
theorem pl_de_ne_zero (hT : 0 < T) (hmu0 : mu ≠ 0) (hmu1 : mu - 1 ≠ 0) (ha0 : a ≠ 0) :
    T * plDDP a mu T ≠ 0 := by
  have hQ : T ^ (mu - 2) ≠ 0 := (Real.rpow_pos_of_pos hT _).ne'
  unfold plDDP; positivity

end pl

/-! ## One phase -/

/-- The data of ONE phase: boundary temperatures, template-model parameters at both ends of the
tabulated range, and the free-energy spline with its two derivatives. -/
structure Phase where
  TMin : ℝ
  muMin : ℝ
  aMin : ℝ
  epsMin : ℝ
  TMax : ℝ
  muMax : ℝ
  aMax : ℝ
  epsMax : ℝ
  F : ℝ → ℝ
  dF : ℝ → ℝ
  ddF : ℝ → ℝ

namespace Phase
variable (ph : Phase)

noncomputable def p : ℝ → ℝ :=
  pw ph.TMin ph.TMax (plP ph.aMin ph.muMin ph.epsMin) (plP ph.aMax ph.muMax ph.epsMax)
    (fun T => -(ph.F T))
noncomputable def dp : ℝ → ℝ :=
  pw ph.TMin ph.TMax (plDP ph.aMin ph.muMin) (plDP ph.aMax ph.muMax) (fun T => -(ph.dF T))
noncomputable def ddp : ℝ → ℝ :=
  pw ph.TMin ph.TMax (plDDP ph.aMin ph.muMin) (plDDP ph.aMax ph.muMax) (fun T => -(ph.ddF T))
noncomputable def e (T : ℝ) : ℝ := T * ph.dp T - ph.p T
noncomputable def de (T : ℝ) : ℝ := T * ph.ddp T
noncomputable def w (T : ℝ) : ℝ := T * ph.dp T
noncomputable def csq : ℝ → ℝ :=
  pw ph.TMin ph.TMax (fun _ => ph.dp ph.TMin / ph.de ph.TMin)
    (fun _ => ph.dp ph.TMax / ph.de ph.TMax) (fun T => ph.dp T / ph.de T)

/-- the six assignments of `setExtrapolate` for this phase hold. -/
structure Extrap : Prop where
  muMin : ph.muMin = 1 + 1 / ph.csq ph.TMin
  aMin : ph.aMin = 3 * ph.w ph.TMin / (ph.muMin * ph.TMin ^ ph.muMin)
  epsMin : ph.epsMin = 1 / 3 * ph.aMin * ph.TMin ^ ph.muMin - ph.p ph.TMin
  muMax : ph.muMax = 1 + 1 / ph.csq ph.TMax
  aMax : ph.aMax = 3 * ph.w ph.TMax / (ph.muMax * ph.TMax ^ ph.muMax)
  epsMax : ph.epsMax = 1 / 3 * ph.aMax * ph.TMax ^ ph.muMax - ph.p ph.TMax

/-- side conditions for one phase. `dp ≠ 0` is `w ≠ 0` (given `T > 0`), `de ≠ 0` makes `csq = dp/de`
a genuine quotient, `dp + de ≠ 0` (= `dw/dT ≠ 0`) is `mu ≠ 0`. -/
structure WF : Prop where
  TMin_pos : 0 < ph.TMin
  TMin_lt_TMax : ph.TMin < ph.TMax
  dpMin : ph.dp ph.TMin ≠ 0
  deMin : ph.de ph.TMin ≠ 0
  dwMin : ph.dp ph.TMin + ph.de ph.TMin ≠ 0
  dpMax : ph.dp ph.TMax ≠ 0
  deMax : ph.de ph.TMax ≠ 0
  dwMax : ph.dp ph.TMax + ph.de ph.TMax ≠ 0

variable {ph}

/-! ### in-range values -/

theorem p_of_mem {T : ℝ} (h1 : ph.TMin ≤ T) (h2 : T ≤ ph.TMax) : ph.p T = -(ph.F T) :=
  pw_of_mem h1 h2
theorem dp_of_mem {T : ℝ} (h1 : ph.TMin ≤ T) (h2 : T ≤ ph.TMax) : ph.dp T = -(ph.dF T) :=
  pw_of_mem h1 h2
theorem ddp_of_mem {T : ℝ} (h1 : ph.TMin ≤ T) (h2 : T ≤ ph.TMax) : ph.ddp T = -(ph.ddF T) :=
  pw_of_mem h1 h2
theorem csq_of_mem {T : ℝ} (h1 : ph.TMin ≤ T) (h2 : T ≤ ph.TMax) :
    ph.csq T = ph.dp T / ph.de T :=
  pw_of_mem h1 h2

theorem csq_of_lt {T : ℝ} (h : T < ph.TMin) : ph.csq T = ph.csq ph.TMin := by
  by_cases hle : ph.TMin ≤ ph.TMax
  · rw [csq_of_mem le_rfl hle]; exact pw_of_lt h
  · have h1 : ¬ ph.TMin < ph.TMin := lt_irrefl _
    have h2 : ph.TMin > ph.TMax := not_le.mp hle
    have h3 : ¬ ph.TMax < ph.TMin → False := fun h => h h2
    simp only [csq, pw, h, h1, h2, if_true, if_false]
    simp [dp, ddp, de, pw, h2]
    sorry

end Phase

end Lemmas.Thermo
